"""Differential test for xrspatial.zonal.crosstab (and zonal.stats, which shares
the `_strides` / `_sort_and_stride` helpers).

Two kinds of checks:
  1. every case is compared with a brute-force contingency table computed here
     with plain numpy (independent of the library);
  2. the canonical text form (labels, dtypes, exact values) of every result is
     hashed and compared with digests recorded from the unmodified tree.

Run:  cd <worktree> && PYTHONPATH=<worktree> /venv/bin/python equiv.py
      (add --record to print the digest table instead of checking it)
Exit code 0 if everything is identical, 1 otherwise.
"""
import hashlib
import sys
import warnings

import dask.array as da
import numpy as np
import pandas as pd
import xarray as xr

import xrspatial
from xrspatial.zonal import crosstab, stats

warnings.filterwarnings("ignore")

# digests recorded from the unmodified tree
EXPECTED = {
    '2d/numpy/(1, 1)/int32-int64/nd=None/count/z=None/c=None': 'c5c57e31c4a0e20f',
    '2d/dask/(1, 1)/int32-int64/nd=None/count/z=None/c=None': '2db98ca1e4e9eef5',
    '2d/numpy/(1, 1)/int32-int64/nd=None/count/z=[4, 0]/c=[5, 1]': 'b6681b6e08479b6c',
    '2d/dask/(1, 1)/int32-int64/nd=None/count/z=[4, 0]/c=[5, 1]': 'b7e74cd31cb00fc3',
    '2d/numpy/(1, 1)/int32-int64/nd=None/count/z=[4, 0]/c=None': '161c07e4730a62eb',
    '2d/numpy/(1, 1)/int32-int64/nd=None/count/z=None/c=[5, 1]': '942fc6526fb7bbde',
    '2d/numpy/(1, 1)/int32-int64/nd=None/percentage/z=None/c=None': 'd665321dbe3ac14d',
    '2d/dask/(1, 1)/int32-int64/nd=None/percentage/z=None/c=None': '21cd994ab1fb441b',
    '2d/numpy/(1, 1)/int32-int64/nd=None/percentage/z=[4, 0]/c=[5, 1]': 'b6681b6e08479b6c',
    '2d/dask/(1, 1)/int32-int64/nd=None/percentage/z=[4, 0]/c=[5, 1]': 'b7e74cd31cb00fc3',
    '2d/numpy/(1, 1)/int32-int64/nd=None/percentage/z=[4, 0]/c=None': '161c07e4730a62eb',
    '2d/numpy/(1, 1)/int32-int64/nd=None/percentage/z=None/c=[5, 1]': '942fc6526fb7bbde',
    '2d/numpy/(1, 1)/int32-int64/nd=3/count/z=None/c=None': 'c5c57e31c4a0e20f',
    '2d/dask/(1, 1)/int32-int64/nd=3/count/z=None/c=None': '2db98ca1e4e9eef5',
    '2d/numpy/(1, 1)/int32-int64/nd=3/count/z=[4, 0]/c=[5, 1]': 'b6681b6e08479b6c',
    '2d/dask/(1, 1)/int32-int64/nd=3/count/z=[4, 0]/c=[5, 1]': 'b7e74cd31cb00fc3',
    '2d/numpy/(1, 1)/int32-int64/nd=3/count/z=[4, 0]/c=None': '161c07e4730a62eb',
    '2d/numpy/(1, 1)/int32-int64/nd=3/count/z=None/c=[5, 1]': '942fc6526fb7bbde',
    '2d/numpy/(1, 1)/int32-int64/nd=3/percentage/z=None/c=None': 'd665321dbe3ac14d',
    '2d/dask/(1, 1)/int32-int64/nd=3/percentage/z=None/c=None': '21cd994ab1fb441b',
    '2d/numpy/(1, 1)/int32-int64/nd=3/percentage/z=[4, 0]/c=[5, 1]': 'b6681b6e08479b6c',
    '2d/dask/(1, 1)/int32-int64/nd=3/percentage/z=[4, 0]/c=[5, 1]': 'b7e74cd31cb00fc3',
    '2d/numpy/(1, 1)/int32-int64/nd=3/percentage/z=[4, 0]/c=None': '161c07e4730a62eb',
    '2d/numpy/(1, 1)/int32-int64/nd=3/percentage/z=None/c=[5, 1]': '942fc6526fb7bbde',
    '2d/numpy/(1, 1)/int64-float64/nd=None/count/z=None/c=None': '6ce377173bf7f0d8',
    '2d/dask/(1, 1)/int64-float64/nd=None/count/z=None/c=None': 'a055464706ecc848',
    '2d/numpy/(1, 1)/int64-float64/nd=None/count/z=[10, -3, 99, 1]/c=[13, 0, 77, 2]': 'd70a46f26061923b',
    '2d/dask/(1, 1)/int64-float64/nd=None/count/z=[10, -3, 99, 1]/c=[13, 0, 77, 2]': '45056ed6e45751ab',
    '2d/numpy/(1, 1)/int64-float64/nd=None/count/z=[10, -3, 99, 1]/c=None': '6ce377173bf7f0d8',
    '2d/numpy/(1, 1)/int64-float64/nd=None/count/z=None/c=[13, 0, 77, 2]': 'd70a46f26061923b',
    '2d/numpy/(1, 1)/int64-float64/nd=None/percentage/z=None/c=None': 'e5b7acab3d3613ce',
    '2d/dask/(1, 1)/int64-float64/nd=None/percentage/z=None/c=None': 'd340a1932f782d28',
    '2d/numpy/(1, 1)/int64-float64/nd=None/percentage/z=[10, -3, 99, 1]/c=[13, 0, 77, 2]': 'd70a46f26061923b',
    '2d/dask/(1, 1)/int64-float64/nd=None/percentage/z=[10, -3, 99, 1]/c=[13, 0, 77, 2]': '45056ed6e45751ab',
    '2d/numpy/(1, 1)/int64-float64/nd=None/percentage/z=[10, -3, 99, 1]/c=None': 'e5b7acab3d3613ce',
    '2d/numpy/(1, 1)/int64-float64/nd=None/percentage/z=None/c=[13, 0, 77, 2]': 'd70a46f26061923b',
    '2d/numpy/(1, 1)/int64-float64/nd=3/count/z=None/c=None': '6ce377173bf7f0d8',
    '2d/dask/(1, 1)/int64-float64/nd=3/count/z=None/c=None': 'a055464706ecc848',
    '2d/numpy/(1, 1)/int64-float64/nd=3/count/z=[10, -3, 99, 1]/c=[13, 0, 77, 2]': 'd70a46f26061923b',
    '2d/dask/(1, 1)/int64-float64/nd=3/count/z=[10, -3, 99, 1]/c=[13, 0, 77, 2]': '45056ed6e45751ab',
    '2d/numpy/(1, 1)/int64-float64/nd=3/count/z=[10, -3, 99, 1]/c=None': '6ce377173bf7f0d8',
    '2d/numpy/(1, 1)/int64-float64/nd=3/count/z=None/c=[13, 0, 77, 2]': 'd70a46f26061923b',
    '2d/numpy/(1, 1)/int64-float64/nd=3/percentage/z=None/c=None': 'e5b7acab3d3613ce',
    '2d/dask/(1, 1)/int64-float64/nd=3/percentage/z=None/c=None': 'd340a1932f782d28',
    '2d/numpy/(1, 1)/int64-float64/nd=3/percentage/z=[10, -3, 99, 1]/c=[13, 0, 77, 2]': 'd70a46f26061923b',
    '2d/dask/(1, 1)/int64-float64/nd=3/percentage/z=[10, -3, 99, 1]/c=[13, 0, 77, 2]': '45056ed6e45751ab',
    '2d/numpy/(1, 1)/int64-float64/nd=3/percentage/z=[10, -3, 99, 1]/c=None': 'e5b7acab3d3613ce',
    '2d/numpy/(1, 1)/int64-float64/nd=3/percentage/z=None/c=[13, 0, 77, 2]': 'd70a46f26061923b',
    '2d/numpy/(1, 1)/float64-float32/nd=None/count/z=None/c=None': '33970c7e852773be',
    '2d/dask/(1, 1)/float64-float32/nd=None/count/z=None/c=None': '6d19244c2661bbcc',
    '2d/numpy/(1, 1)/float64-float32/nd=None/count/z=[7]/c=[8]': '60f20dad5bfd3748',
    '2d/dask/(1, 1)/float64-float32/nd=None/count/z=[7]/c=[8]': 'e7bc9cb1a1c35c7a',
    '2d/numpy/(1, 1)/float64-float32/nd=None/count/z=[7]/c=None': '87631f7be41c6f1d',
    '2d/numpy/(1, 1)/float64-float32/nd=None/count/z=None/c=[8]': 'ec6d3ed75871c86e',
    '2d/numpy/(1, 1)/float64-float32/nd=None/percentage/z=None/c=None': '94975ec90448ca04',
    '2d/dask/(1, 1)/float64-float32/nd=None/percentage/z=None/c=None': 'f7e38ba1c74aea87',
    '2d/numpy/(1, 1)/float64-float32/nd=None/percentage/z=[7]/c=[8]': '60f20dad5bfd3748',
    '2d/dask/(1, 1)/float64-float32/nd=None/percentage/z=[7]/c=[8]': 'e7bc9cb1a1c35c7a',
    '2d/numpy/(1, 1)/float64-float32/nd=None/percentage/z=[7]/c=None': '87631f7be41c6f1d',
    '2d/numpy/(1, 1)/float64-float32/nd=None/percentage/z=None/c=[8]': '6417548749a18f44',
    '2d/numpy/(1, 1)/float64-float32/nd=3/count/z=None/c=None': '33970c7e852773be',
    '2d/dask/(1, 1)/float64-float32/nd=3/count/z=None/c=None': '6d19244c2661bbcc',
    '2d/numpy/(1, 1)/float64-float32/nd=3/count/z=[7]/c=[8]': '60f20dad5bfd3748',
    '2d/dask/(1, 1)/float64-float32/nd=3/count/z=[7]/c=[8]': 'e7bc9cb1a1c35c7a',
    '2d/numpy/(1, 1)/float64-float32/nd=3/count/z=[7]/c=None': '87631f7be41c6f1d',
    '2d/numpy/(1, 1)/float64-float32/nd=3/count/z=None/c=[8]': 'ec6d3ed75871c86e',
    '2d/numpy/(1, 1)/float64-float32/nd=3/percentage/z=None/c=None': '94975ec90448ca04',
    '2d/dask/(1, 1)/float64-float32/nd=3/percentage/z=None/c=None': 'f7e38ba1c74aea87',
    '2d/numpy/(1, 1)/float64-float32/nd=3/percentage/z=[7]/c=[8]': '60f20dad5bfd3748',
    '2d/dask/(1, 1)/float64-float32/nd=3/percentage/z=[7]/c=[8]': 'e7bc9cb1a1c35c7a',
    '2d/numpy/(1, 1)/float64-float32/nd=3/percentage/z=[7]/c=None': '87631f7be41c6f1d',
    '2d/numpy/(1, 1)/float64-float32/nd=3/percentage/z=None/c=[8]': '6417548749a18f44',
    '2d/numpy/(1, 1)/float32-int32/nd=None/count/z=None/c=None': 'a04feb7881e5e4d3',
    '2d/dask/(1, 1)/float32-int32/nd=None/count/z=None/c=None': 'b15ffa6194d1e686',
    '2d/numpy/(1, 1)/float32-int32/nd=None/count/z=[55]/c=[42]': 'b6681b6e08479b6c',
    '2d/dask/(1, 1)/float32-int32/nd=None/count/z=[55]/c=[42]': 'b7e74cd31cb00fc3',
    '2d/numpy/(1, 1)/float32-int32/nd=None/count/z=[55]/c=None': '5b36de6e3db959d6',
    '2d/numpy/(1, 1)/float32-int32/nd=None/count/z=None/c=[42]': '892f8c4576b2ce69',
    '2d/numpy/(1, 1)/float32-int32/nd=None/percentage/z=None/c=None': '9d23c4807c8755c3',
    '2d/dask/(1, 1)/float32-int32/nd=None/percentage/z=None/c=None': 'bf3cea31cc945ca4',
    '2d/numpy/(1, 1)/float32-int32/nd=None/percentage/z=[55]/c=[42]': 'b6681b6e08479b6c',
    '2d/dask/(1, 1)/float32-int32/nd=None/percentage/z=[55]/c=[42]': 'b7e74cd31cb00fc3',
    '2d/numpy/(1, 1)/float32-int32/nd=None/percentage/z=[55]/c=None': '5b36de6e3db959d6',
    '2d/numpy/(1, 1)/float32-int32/nd=None/percentage/z=None/c=[42]': '892f8c4576b2ce69',
    '2d/numpy/(1, 1)/float32-int32/nd=3/count/z=None/c=None': 'a04feb7881e5e4d3',
    '2d/dask/(1, 1)/float32-int32/nd=3/count/z=None/c=None': 'b15ffa6194d1e686',
    '2d/numpy/(1, 1)/float32-int32/nd=3/count/z=[55]/c=[42]': 'b6681b6e08479b6c',
    '2d/dask/(1, 1)/float32-int32/nd=3/count/z=[55]/c=[42]': 'b7e74cd31cb00fc3',
    '2d/numpy/(1, 1)/float32-int32/nd=3/count/z=[55]/c=None': '5b36de6e3db959d6',
    '2d/numpy/(1, 1)/float32-int32/nd=3/count/z=None/c=[42]': '892f8c4576b2ce69',
    '2d/numpy/(1, 1)/float32-int32/nd=3/percentage/z=None/c=None': '9d23c4807c8755c3',
    '2d/dask/(1, 1)/float32-int32/nd=3/percentage/z=None/c=None': 'bf3cea31cc945ca4',
    '2d/numpy/(1, 1)/float32-int32/nd=3/percentage/z=[55]/c=[42]': 'b6681b6e08479b6c',
    '2d/dask/(1, 1)/float32-int32/nd=3/percentage/z=[55]/c=[42]': 'b7e74cd31cb00fc3',
    '2d/numpy/(1, 1)/float32-int32/nd=3/percentage/z=[55]/c=None': '5b36de6e3db959d6',
    '2d/numpy/(1, 1)/float32-int32/nd=3/percentage/z=None/c=[42]': '892f8c4576b2ce69',
    '2d/numpy/(1, 1)/float64-float64/nd=None/count/z=None/c=None': 'bf45077376d831eb',
    '2d/dask/(1, 1)/float64-float64/nd=None/count/z=None/c=None': '0d9cba4ada13d2af',
    '2d/numpy/(1, 1)/float64-float64/nd=None/count/z=[0, 1, 4, 7, 10, -3]/c=None': 'bf45077376d831eb',
    '2d/numpy/(1, 1)/float64-float64/nd=None/percentage/z=None/c=None': '60ee1b5e7db4a2a3',
    '2d/dask/(1, 1)/float64-float64/nd=None/percentage/z=None/c=None': '4a0de96fa1fc11fd',
    '2d/numpy/(1, 1)/float64-float64/nd=None/percentage/z=[0, 1, 4, 7, 10, -3]/c=None': '60ee1b5e7db4a2a3',
    '2d/numpy/(1, 1)/float64-float64/nd=3/count/z=None/c=None': 'c8a4c7c8afbe17e6',
    '2d/dask/(1, 1)/float64-float64/nd=3/count/z=None/c=None': '700c8b631bf9bf54',
    '2d/numpy/(1, 1)/float64-float64/nd=3/count/z=[0, 1, 4, 7, 10, -3]/c=None': 'c8a4c7c8afbe17e6',
    '2d/numpy/(1, 1)/float64-float64/nd=3/percentage/z=None/c=None': 'c8a4c7c8afbe17e6',
    '2d/dask/(1, 1)/float64-float64/nd=3/percentage/z=None/c=None': '700c8b631bf9bf54',
    '2d/numpy/(1, 1)/float64-float64/nd=3/percentage/z=[0, 1, 4, 7, 10, -3]/c=None': 'c8a4c7c8afbe17e6',
    '2d/numpy/(1, 6)/int32-int64/nd=None/count/z=None/c=None': 'a92b7a6c8b5f0fe6',
    '2d/dask/(1, 6)/int32-int64/nd=None/count/z=None/c=None': '20c0f54c83b68086',
    '2d/numpy/(1, 6)/int32-int64/nd=None/count/z=None/c=[5, 1]': '5e146ad54b885011',
    '2d/numpy/(1, 6)/int32-int64/nd=None/percentage/z=None/c=None': 'ca842f6583faffc3',
    '2d/dask/(1, 6)/int32-int64/nd=None/percentage/z=None/c=None': '2cd1fe13ec25c9b1',
    '2d/numpy/(1, 6)/int32-int64/nd=None/percentage/z=None/c=[5, 1]': 'cd9e66863f198ea6',
    '2d/numpy/(1, 6)/int32-int64/nd=3/count/z=None/c=None': '60caf75751d7224b',
    '2d/dask/(1, 6)/int32-int64/nd=3/count/z=None/c=None': '32e97530ddc733be',
    '2d/numpy/(1, 6)/int32-int64/nd=3/count/z=None/c=[5, 1]': '5e146ad54b885011',
    '2d/numpy/(1, 6)/int32-int64/nd=3/percentage/z=None/c=None': '9996f2de17149bdf',
    '2d/dask/(1, 6)/int32-int64/nd=3/percentage/z=None/c=None': '11272cf1469750ba',
    '2d/numpy/(1, 6)/int32-int64/nd=3/percentage/z=None/c=[5, 1]': 'abdf7d5c5c3d68ae',
    '2d/numpy/(1, 6)/int64-float64/nd=None/count/z=None/c=None': 'a13c24f269f21252',
    '2d/dask/(1, 6)/int64-float64/nd=None/count/z=None/c=None': '755d15e7e8f9ce68',
    '2d/numpy/(1, 6)/int64-float64/nd=None/count/z=[4, 0]/c=[13, 0, 77, 2]': '8c721801fd20ec43',
    '2d/dask/(1, 6)/int64-float64/nd=None/count/z=[4, 0]/c=[13, 0, 77, 2]': '3b6b0dd4f0315c52',
    '2d/numpy/(1, 6)/int64-float64/nd=None/count/z=[4, 0]/c=None': '9b923a5ffb26898d',
    '2d/numpy/(1, 6)/int64-float64/nd=None/count/z=None/c=[13, 0, 77, 2]': 'bbae6fc174266323',
    '2d/numpy/(1, 6)/int64-float64/nd=None/percentage/z=None/c=None': '544de3b866aa1ef9',
    '2d/dask/(1, 6)/int64-float64/nd=None/percentage/z=None/c=None': 'fb95f99a3d370c07',
    '2d/numpy/(1, 6)/int64-float64/nd=None/percentage/z=[4, 0]/c=[13, 0, 77, 2]': 'cb4eaf12c5a81565',
    '2d/dask/(1, 6)/int64-float64/nd=None/percentage/z=[4, 0]/c=[13, 0, 77, 2]': 'ddbe4fb0a235efe3',
    '2d/numpy/(1, 6)/int64-float64/nd=None/percentage/z=[4, 0]/c=None': '25ec6354787ba3c4',
    '2d/numpy/(1, 6)/int64-float64/nd=None/percentage/z=None/c=[13, 0, 77, 2]': '4bd0e5b413832c2c',
    '2d/numpy/(1, 6)/int64-float64/nd=3/count/z=None/c=None': 'a13c24f269f21252',
    '2d/dask/(1, 6)/int64-float64/nd=3/count/z=None/c=None': '755d15e7e8f9ce68',
    '2d/numpy/(1, 6)/int64-float64/nd=3/count/z=[4, 0]/c=[13, 0, 77, 2]': '8c721801fd20ec43',
    '2d/dask/(1, 6)/int64-float64/nd=3/count/z=[4, 0]/c=[13, 0, 77, 2]': '3b6b0dd4f0315c52',
    '2d/numpy/(1, 6)/int64-float64/nd=3/count/z=[4, 0]/c=None': '9b923a5ffb26898d',
    '2d/numpy/(1, 6)/int64-float64/nd=3/count/z=None/c=[13, 0, 77, 2]': 'bbae6fc174266323',
    '2d/numpy/(1, 6)/int64-float64/nd=3/percentage/z=None/c=None': '544de3b866aa1ef9',
    '2d/dask/(1, 6)/int64-float64/nd=3/percentage/z=None/c=None': 'fb95f99a3d370c07',
    '2d/numpy/(1, 6)/int64-float64/nd=3/percentage/z=[4, 0]/c=[13, 0, 77, 2]': 'cb4eaf12c5a81565',
    '2d/dask/(1, 6)/int64-float64/nd=3/percentage/z=[4, 0]/c=[13, 0, 77, 2]': 'ddbe4fb0a235efe3',
    '2d/numpy/(1, 6)/int64-float64/nd=3/percentage/z=[4, 0]/c=None': '25ec6354787ba3c4',
    '2d/numpy/(1, 6)/int64-float64/nd=3/percentage/z=None/c=[13, 0, 77, 2]': '4bd0e5b413832c2c',
    '2d/numpy/(1, 6)/float64-float32/nd=None/count/z=None/c=None': '968eb9a8c180f6d5',
    '2d/dask/(1, 6)/float64-float32/nd=None/count/z=None/c=None': 'c41508216eb608f2',
    '2d/numpy/(1, 6)/float64-float32/nd=None/count/z=[10, -3, 99, 1]/c=[8]': 'a3dc839b8f19e64b',
    '2d/dask/(1, 6)/float64-float32/nd=None/count/z=[10, -3, 99, 1]/c=[8]': '1ed7540478450886',
    '2d/numpy/(1, 6)/float64-float32/nd=None/count/z=[10, -3, 99, 1]/c=None': '73ebc19288b7550f',
    '2d/numpy/(1, 6)/float64-float32/nd=None/count/z=None/c=[8]': '1a16adb7d350a8fb',
    '2d/numpy/(1, 6)/float64-float32/nd=None/percentage/z=None/c=None': 'b696edd4b6fae6f3',
    '2d/dask/(1, 6)/float64-float32/nd=None/percentage/z=None/c=None': '6295520ae1fb1cf0',
    '2d/numpy/(1, 6)/float64-float32/nd=None/percentage/z=[10, -3, 99, 1]/c=[8]': 'a3dc839b8f19e64b',
    '2d/dask/(1, 6)/float64-float32/nd=None/percentage/z=[10, -3, 99, 1]/c=[8]': '1ed7540478450886',
    '2d/numpy/(1, 6)/float64-float32/nd=None/percentage/z=[10, -3, 99, 1]/c=None': 'd1de820b2517b23c',
    '2d/numpy/(1, 6)/float64-float32/nd=None/percentage/z=None/c=[8]': '1a16adb7d350a8fb',
    '2d/numpy/(1, 6)/float64-float32/nd=3/count/z=None/c=None': 'e5599478326ddcee',
    '2d/dask/(1, 6)/float64-float32/nd=3/count/z=None/c=None': '7140934c30df837e',
    '2d/numpy/(1, 6)/float64-float32/nd=3/count/z=[10, -3, 99, 1]/c=[8]': 'a3dc839b8f19e64b',
    '2d/dask/(1, 6)/float64-float32/nd=3/count/z=[10, -3, 99, 1]/c=[8]': '1ed7540478450886',
    '2d/numpy/(1, 6)/float64-float32/nd=3/count/z=[10, -3, 99, 1]/c=None': '2a9b9fa6021731ca',
    '2d/numpy/(1, 6)/float64-float32/nd=3/count/z=None/c=[8]': '1a16adb7d350a8fb',
    '2d/numpy/(1, 6)/float64-float32/nd=3/percentage/z=None/c=None': 'e07a1dbc03bb7153',
    '2d/dask/(1, 6)/float64-float32/nd=3/percentage/z=None/c=None': '74e1bd12b3331f2c',
    '2d/numpy/(1, 6)/float64-float32/nd=3/percentage/z=[10, -3, 99, 1]/c=[8]': 'a3dc839b8f19e64b',
    '2d/dask/(1, 6)/float64-float32/nd=3/percentage/z=[10, -3, 99, 1]/c=[8]': '1ed7540478450886',
    '2d/numpy/(1, 6)/float64-float32/nd=3/percentage/z=[10, -3, 99, 1]/c=None': 'f0f2a27a5b271e4a',
    '2d/numpy/(1, 6)/float64-float32/nd=3/percentage/z=None/c=[8]': '1a16adb7d350a8fb',
    '2d/numpy/(1, 6)/float32-int32/nd=None/count/z=None/c=None': '122ea36730e36fa3',
    '2d/dask/(1, 6)/float32-int32/nd=None/count/z=None/c=None': 'e8336c5e5a59b045',
    '2d/numpy/(1, 6)/float32-int32/nd=None/count/z=[7]/c=[42]': 'b6681b6e08479b6c',
    '2d/dask/(1, 6)/float32-int32/nd=None/count/z=[7]/c=[42]': 'b7e74cd31cb00fc3',
    '2d/numpy/(1, 6)/float32-int32/nd=None/count/z=[7]/c=None': '31da4b8932346f89',
    '2d/numpy/(1, 6)/float32-int32/nd=None/count/z=None/c=[42]': 'c274feb4b3a004a1',
    '2d/numpy/(1, 6)/float32-int32/nd=None/percentage/z=None/c=None': '960a190b5456c3a8',
    '2d/dask/(1, 6)/float32-int32/nd=None/percentage/z=None/c=None': '5388feaa977891e7',
    '2d/numpy/(1, 6)/float32-int32/nd=None/percentage/z=[7]/c=[42]': 'b6681b6e08479b6c',
    '2d/dask/(1, 6)/float32-int32/nd=None/percentage/z=[7]/c=[42]': 'b7e74cd31cb00fc3',
    '2d/numpy/(1, 6)/float32-int32/nd=None/percentage/z=[7]/c=None': '31da4b8932346f89',
    '2d/numpy/(1, 6)/float32-int32/nd=None/percentage/z=None/c=[42]': 'c274feb4b3a004a1',
    '2d/numpy/(1, 6)/float32-int32/nd=3/count/z=None/c=None': '122ea36730e36fa3',
    '2d/dask/(1, 6)/float32-int32/nd=3/count/z=None/c=None': 'e8336c5e5a59b045',
    '2d/numpy/(1, 6)/float32-int32/nd=3/count/z=[7]/c=[42]': 'b6681b6e08479b6c',
    '2d/dask/(1, 6)/float32-int32/nd=3/count/z=[7]/c=[42]': 'b7e74cd31cb00fc3',
    '2d/numpy/(1, 6)/float32-int32/nd=3/count/z=[7]/c=None': '31da4b8932346f89',
    '2d/numpy/(1, 6)/float32-int32/nd=3/count/z=None/c=[42]': 'c274feb4b3a004a1',
    '2d/numpy/(1, 6)/float32-int32/nd=3/percentage/z=None/c=None': '960a190b5456c3a8',
    '2d/dask/(1, 6)/float32-int32/nd=3/percentage/z=None/c=None': '5388feaa977891e7',
    '2d/numpy/(1, 6)/float32-int32/nd=3/percentage/z=[7]/c=[42]': 'b6681b6e08479b6c',
    '2d/dask/(1, 6)/float32-int32/nd=3/percentage/z=[7]/c=[42]': 'b7e74cd31cb00fc3',
    '2d/numpy/(1, 6)/float32-int32/nd=3/percentage/z=[7]/c=None': '31da4b8932346f89',
    '2d/numpy/(1, 6)/float32-int32/nd=3/percentage/z=None/c=[42]': 'c274feb4b3a004a1',
    '2d/numpy/(1, 6)/float64-float64/nd=None/count/z=None/c=None': '49aef3ef78b77fc9',
    '2d/dask/(1, 6)/float64-float64/nd=None/count/z=None/c=None': '99e9c67fa7175952',
    '2d/numpy/(1, 6)/float64-float64/nd=None/count/z=[55]/c=None': 'ea2e70f2c13f96e0',
    '2d/numpy/(1, 6)/float64-float64/nd=None/percentage/z=None/c=None': '8bd4ef296397b646',
    '2d/dask/(1, 6)/float64-float64/nd=None/percentage/z=None/c=None': '53e33d71cd2e21e2',
    '2d/numpy/(1, 6)/float64-float64/nd=None/percentage/z=[55]/c=None': 'ea2e70f2c13f96e0',
    '2d/numpy/(1, 6)/float64-float64/nd=3/count/z=None/c=None': '49aef3ef78b77fc9',
    '2d/dask/(1, 6)/float64-float64/nd=3/count/z=None/c=None': '99e9c67fa7175952',
    '2d/numpy/(1, 6)/float64-float64/nd=3/count/z=[55]/c=None': 'ea2e70f2c13f96e0',
    '2d/numpy/(1, 6)/float64-float64/nd=3/percentage/z=None/c=None': '8bd4ef296397b646',
    '2d/dask/(1, 6)/float64-float64/nd=3/percentage/z=None/c=None': '53e33d71cd2e21e2',
    '2d/numpy/(1, 6)/float64-float64/nd=3/percentage/z=[55]/c=None': 'ea2e70f2c13f96e0',
    '2d/numpy/(5, 1)/int32-int64/nd=None/count/z=None/c=None': '9ead9ed4e9babb92',
    '2d/dask/(5, 1)/int32-int64/nd=None/count/z=None/c=None': 'f883c26d88232a15',
    '2d/numpy/(5, 1)/int32-int64/nd=None/count/z=[0, 1, 4, 7, 10, -3]/c=[5, 1]': '481a20dbf4ad033f',
    '2d/dask/(5, 1)/int32-int64/nd=None/count/z=[0, 1, 4, 7, 10, -3]/c=[5, 1]': '40ba9d41e2e135b4',
    '2d/numpy/(5, 1)/int32-int64/nd=None/count/z=[0, 1, 4, 7, 10, -3]/c=None': '9ead9ed4e9babb92',
    '2d/numpy/(5, 1)/int32-int64/nd=None/count/z=None/c=[5, 1]': '481a20dbf4ad033f',
    '2d/numpy/(5, 1)/int32-int64/nd=None/percentage/z=None/c=None': '580132efa7ff823f',
    '2d/dask/(5, 1)/int32-int64/nd=None/percentage/z=None/c=None': '032af8adde8e7170',
    '2d/numpy/(5, 1)/int32-int64/nd=None/percentage/z=[0, 1, 4, 7, 10, -3]/c=[5, 1]': '7a3fb4232f4cfa2c',
    '2d/dask/(5, 1)/int32-int64/nd=None/percentage/z=[0, 1, 4, 7, 10, -3]/c=[5, 1]': '0909c0044738a5a4',
    '2d/numpy/(5, 1)/int32-int64/nd=None/percentage/z=[0, 1, 4, 7, 10, -3]/c=None': '580132efa7ff823f',
    '2d/numpy/(5, 1)/int32-int64/nd=None/percentage/z=None/c=[5, 1]': '7a3fb4232f4cfa2c',
    '2d/numpy/(5, 1)/int32-int64/nd=3/count/z=None/c=None': '55822684092bb142',
    '2d/dask/(5, 1)/int32-int64/nd=3/count/z=None/c=None': '173e4c72b6162909',
    '2d/numpy/(5, 1)/int32-int64/nd=3/count/z=[0, 1, 4, 7, 10, -3]/c=[5, 1]': '481a20dbf4ad033f',
    '2d/dask/(5, 1)/int32-int64/nd=3/count/z=[0, 1, 4, 7, 10, -3]/c=[5, 1]': '40ba9d41e2e135b4',
    '2d/numpy/(5, 1)/int32-int64/nd=3/count/z=[0, 1, 4, 7, 10, -3]/c=None': '55822684092bb142',
    '2d/numpy/(5, 1)/int32-int64/nd=3/count/z=None/c=[5, 1]': '481a20dbf4ad033f',
    '2d/numpy/(5, 1)/int32-int64/nd=3/percentage/z=None/c=None': 'de7bcc0c115fb260',
    '2d/dask/(5, 1)/int32-int64/nd=3/percentage/z=None/c=None': '04cc312102d4607d',
    '2d/numpy/(5, 1)/int32-int64/nd=3/percentage/z=[0, 1, 4, 7, 10, -3]/c=[5, 1]': '7a3fb4232f4cfa2c',
    '2d/dask/(5, 1)/int32-int64/nd=3/percentage/z=[0, 1, 4, 7, 10, -3]/c=[5, 1]': '0909c0044738a5a4',
    '2d/numpy/(5, 1)/int32-int64/nd=3/percentage/z=[0, 1, 4, 7, 10, -3]/c=None': 'de7bcc0c115fb260',
    '2d/numpy/(5, 1)/int32-int64/nd=3/percentage/z=None/c=[5, 1]': '7a3fb4232f4cfa2c',
    '2d/numpy/(5, 1)/int64-float64/nd=None/count/z=None/c=None': '45f8fd84e53d27c9',
    '2d/dask/(5, 1)/int64-float64/nd=None/count/z=None/c=None': 'aac8bae6389ea94e',
    '2d/numpy/(5, 1)/int64-float64/nd=None/count/z=None/c=[13, 0, 77, 2]': '60427b09a9404f60',
    '2d/numpy/(5, 1)/int64-float64/nd=None/percentage/z=None/c=None': '3d6d9f19bbdee5e2',
    '2d/dask/(5, 1)/int64-float64/nd=None/percentage/z=None/c=None': '4ec6bf3f2b63a501',
    '2d/numpy/(5, 1)/int64-float64/nd=None/percentage/z=None/c=[13, 0, 77, 2]': 'a06137dbc90e7f56',
    '2d/numpy/(5, 1)/int64-float64/nd=3/count/z=None/c=None': '9e19c80a0994bd03',
    '2d/dask/(5, 1)/int64-float64/nd=3/count/z=None/c=None': 'a75d96ccf218d4de',
    '2d/numpy/(5, 1)/int64-float64/nd=3/count/z=None/c=[13, 0, 77, 2]': '60427b09a9404f60',
    '2d/numpy/(5, 1)/int64-float64/nd=3/percentage/z=None/c=None': '96d7fd8e55d32678',
    '2d/dask/(5, 1)/int64-float64/nd=3/percentage/z=None/c=None': '0b529a52942cf92a',
    '2d/numpy/(5, 1)/int64-float64/nd=3/percentage/z=None/c=[13, 0, 77, 2]': 'de3ffe9bd132bae6',
    '2d/numpy/(5, 1)/float64-float32/nd=None/count/z=None/c=None': '81f0a27cc64a6af9',
    '2d/dask/(5, 1)/float64-float32/nd=None/count/z=None/c=None': '6039daf690107a11',
    '2d/numpy/(5, 1)/float64-float32/nd=None/count/z=[4, 0]/c=[8]': 'b6681b6e08479b6c',
    '2d/dask/(5, 1)/float64-float32/nd=None/count/z=[4, 0]/c=[8]': 'b7e74cd31cb00fc3',
    '2d/numpy/(5, 1)/float64-float32/nd=None/count/z=[4, 0]/c=None': '6fe360432e9cc183',
    '2d/numpy/(5, 1)/float64-float32/nd=None/count/z=None/c=[8]': '1bee97002d7e7c8d',
    '2d/numpy/(5, 1)/float64-float32/nd=None/percentage/z=None/c=None': '3fae72b19181e2b1',
    '2d/dask/(5, 1)/float64-float32/nd=None/percentage/z=None/c=None': 'bc14aa6246b576a3',
    '2d/numpy/(5, 1)/float64-float32/nd=None/percentage/z=[4, 0]/c=[8]': 'b6681b6e08479b6c',
    '2d/dask/(5, 1)/float64-float32/nd=None/percentage/z=[4, 0]/c=[8]': 'b7e74cd31cb00fc3',
    '2d/numpy/(5, 1)/float64-float32/nd=None/percentage/z=[4, 0]/c=None': '6fe360432e9cc183',
    '2d/numpy/(5, 1)/float64-float32/nd=None/percentage/z=None/c=[8]': '1bee97002d7e7c8d',
    '2d/numpy/(5, 1)/float64-float32/nd=3/count/z=None/c=None': '81f0a27cc64a6af9',
    '2d/dask/(5, 1)/float64-float32/nd=3/count/z=None/c=None': '6039daf690107a11',
    '2d/numpy/(5, 1)/float64-float32/nd=3/count/z=[4, 0]/c=[8]': 'b6681b6e08479b6c',
    '2d/dask/(5, 1)/float64-float32/nd=3/count/z=[4, 0]/c=[8]': 'b7e74cd31cb00fc3',
    '2d/numpy/(5, 1)/float64-float32/nd=3/count/z=[4, 0]/c=None': '6fe360432e9cc183',
    '2d/numpy/(5, 1)/float64-float32/nd=3/count/z=None/c=[8]': '1bee97002d7e7c8d',
    '2d/numpy/(5, 1)/float64-float32/nd=3/percentage/z=None/c=None': '3fae72b19181e2b1',
    '2d/dask/(5, 1)/float64-float32/nd=3/percentage/z=None/c=None': 'bc14aa6246b576a3',
    '2d/numpy/(5, 1)/float64-float32/nd=3/percentage/z=[4, 0]/c=[8]': 'b6681b6e08479b6c',
    '2d/dask/(5, 1)/float64-float32/nd=3/percentage/z=[4, 0]/c=[8]': 'b7e74cd31cb00fc3',
    '2d/numpy/(5, 1)/float64-float32/nd=3/percentage/z=[4, 0]/c=None': '6fe360432e9cc183',
    '2d/numpy/(5, 1)/float64-float32/nd=3/percentage/z=None/c=[8]': '1bee97002d7e7c8d',
    '2d/numpy/(5, 1)/float32-int32/nd=None/count/z=None/c=None': 'dd4ae0be6992e651',
    '2d/dask/(5, 1)/float32-int32/nd=None/count/z=None/c=None': '6a526e3a0aba36a3',
    '2d/numpy/(5, 1)/float32-int32/nd=None/count/z=[10, -3, 99, 1]/c=[42]': '435ec939dfb93c36',
    '2d/dask/(5, 1)/float32-int32/nd=None/count/z=[10, -3, 99, 1]/c=[42]': 'c1b2c539e215cd5d',
    '2d/numpy/(5, 1)/float32-int32/nd=None/count/z=[10, -3, 99, 1]/c=None': '2879aa1348ec9c57',
    '2d/numpy/(5, 1)/float32-int32/nd=None/count/z=None/c=[42]': '0c4c56afcc542884',
    '2d/numpy/(5, 1)/float32-int32/nd=None/percentage/z=None/c=None': 'a91c621fe8f852ad',
    '2d/dask/(5, 1)/float32-int32/nd=None/percentage/z=None/c=None': 'bedd3afc82e0a023',
    '2d/numpy/(5, 1)/float32-int32/nd=None/percentage/z=[10, -3, 99, 1]/c=[42]': '435ec939dfb93c36',
    '2d/dask/(5, 1)/float32-int32/nd=None/percentage/z=[10, -3, 99, 1]/c=[42]': 'c1b2c539e215cd5d',
    '2d/numpy/(5, 1)/float32-int32/nd=None/percentage/z=[10, -3, 99, 1]/c=None': 'c6d2ef1bd3e03a9c',
    '2d/numpy/(5, 1)/float32-int32/nd=None/percentage/z=None/c=[42]': '0c4c56afcc542884',
    '2d/numpy/(5, 1)/float32-int32/nd=3/count/z=None/c=None': 'dd4ae0be6992e651',
    '2d/dask/(5, 1)/float32-int32/nd=3/count/z=None/c=None': '6a526e3a0aba36a3',
    '2d/numpy/(5, 1)/float32-int32/nd=3/count/z=[10, -3, 99, 1]/c=[42]': '435ec939dfb93c36',
    '2d/dask/(5, 1)/float32-int32/nd=3/count/z=[10, -3, 99, 1]/c=[42]': 'c1b2c539e215cd5d',
    '2d/numpy/(5, 1)/float32-int32/nd=3/count/z=[10, -3, 99, 1]/c=None': '2879aa1348ec9c57',
    '2d/numpy/(5, 1)/float32-int32/nd=3/count/z=None/c=[42]': '0c4c56afcc542884',
    '2d/numpy/(5, 1)/float32-int32/nd=3/percentage/z=None/c=None': 'a91c621fe8f852ad',
    '2d/dask/(5, 1)/float32-int32/nd=3/percentage/z=None/c=None': 'bedd3afc82e0a023',
    '2d/numpy/(5, 1)/float32-int32/nd=3/percentage/z=[10, -3, 99, 1]/c=[42]': '435ec939dfb93c36',
    '2d/dask/(5, 1)/float32-int32/nd=3/percentage/z=[10, -3, 99, 1]/c=[42]': 'c1b2c539e215cd5d',
    '2d/numpy/(5, 1)/float32-int32/nd=3/percentage/z=[10, -3, 99, 1]/c=None': 'c6d2ef1bd3e03a9c',
    '2d/numpy/(5, 1)/float32-int32/nd=3/percentage/z=None/c=[42]': '0c4c56afcc542884',
    '2d/numpy/(5, 1)/float64-float64/nd=None/count/z=None/c=None': '312c80f4ec80ed81',
    '2d/dask/(5, 1)/float64-float64/nd=None/count/z=None/c=None': 'e115e039813ab7bd',
    '2d/numpy/(5, 1)/float64-float64/nd=None/count/z=[7]/c=None': '9cb6d18b74f8d443',
    '2d/numpy/(5, 1)/float64-float64/nd=None/percentage/z=None/c=None': 'cc6f1c87b16307ba',
    '2d/dask/(5, 1)/float64-float64/nd=None/percentage/z=None/c=None': '9d6712fbd8088b81',
    '2d/numpy/(5, 1)/float64-float64/nd=None/percentage/z=[7]/c=None': 'fd8a396726be5eb8',
    '2d/numpy/(5, 1)/float64-float64/nd=3/count/z=None/c=None': '2769acc6993019f2',
    '2d/dask/(5, 1)/float64-float64/nd=3/count/z=None/c=None': 'abec2d31a9ab1da8',
    '2d/numpy/(5, 1)/float64-float64/nd=3/count/z=[7]/c=None': 'cd7121502d17600a',
    '2d/numpy/(5, 1)/float64-float64/nd=3/percentage/z=None/c=None': '64f2266b297f5e4b',
    '2d/dask/(5, 1)/float64-float64/nd=3/percentage/z=None/c=None': 'd1d1dcf2847c20cc',
    '2d/numpy/(5, 1)/float64-float64/nd=3/percentage/z=[7]/c=None': '4c4cc4e044225156',
    '2d/numpy/(3, 7)/int32-int64/nd=None/count/z=None/c=None': '77f33b7929ac34ab',
    '2d/dask/(3, 7)/int32-int64/nd=None/count/z=None/c=None': 'fd1d5eba921777c2',
    '2d/numpy/(3, 7)/int32-int64/nd=None/count/z=[55]/c=[5, 1]': '4a228ec2313dc060',
    '2d/dask/(3, 7)/int32-int64/nd=None/count/z=[55]/c=[5, 1]': '716f98a6424a40e1',
    '2d/numpy/(3, 7)/int32-int64/nd=None/count/z=[55]/c=None': 'ca6bee3b9b2efef2',
    '2d/numpy/(3, 7)/int32-int64/nd=None/count/z=None/c=[5, 1]': '90e7961bbe1046f2',
    '2d/numpy/(3, 7)/int32-int64/nd=None/percentage/z=None/c=None': 'dac562f98f223a79',
    '2d/dask/(3, 7)/int32-int64/nd=None/percentage/z=None/c=None': '18cc9969cc5c9e61',
    '2d/numpy/(3, 7)/int32-int64/nd=None/percentage/z=[55]/c=[5, 1]': '4a228ec2313dc060',
    '2d/dask/(3, 7)/int32-int64/nd=None/percentage/z=[55]/c=[5, 1]': '716f98a6424a40e1',
    '2d/numpy/(3, 7)/int32-int64/nd=None/percentage/z=[55]/c=None': 'ca6bee3b9b2efef2',
    '2d/numpy/(3, 7)/int32-int64/nd=None/percentage/z=None/c=[5, 1]': 'fd82d749b73c5c28',
    '2d/numpy/(3, 7)/int32-int64/nd=3/count/z=None/c=None': '070071ee2293cada',
    '2d/dask/(3, 7)/int32-int64/nd=3/count/z=None/c=None': '89508816ac4b6a52',
    '2d/numpy/(3, 7)/int32-int64/nd=3/count/z=[55]/c=[5, 1]': '4a228ec2313dc060',
    '2d/dask/(3, 7)/int32-int64/nd=3/count/z=[55]/c=[5, 1]': '716f98a6424a40e1',
    '2d/numpy/(3, 7)/int32-int64/nd=3/count/z=[55]/c=None': '043fc1e48b792e55',
    '2d/numpy/(3, 7)/int32-int64/nd=3/count/z=None/c=[5, 1]': '90e7961bbe1046f2',
    '2d/numpy/(3, 7)/int32-int64/nd=3/percentage/z=None/c=None': '0d2028bd301e6964',
    '2d/dask/(3, 7)/int32-int64/nd=3/percentage/z=None/c=None': 'e31950f3f7f752eb',
    '2d/numpy/(3, 7)/int32-int64/nd=3/percentage/z=[55]/c=[5, 1]': '4a228ec2313dc060',
    '2d/dask/(3, 7)/int32-int64/nd=3/percentage/z=[55]/c=[5, 1]': '716f98a6424a40e1',
    '2d/numpy/(3, 7)/int32-int64/nd=3/percentage/z=[55]/c=None': '043fc1e48b792e55',
    '2d/numpy/(3, 7)/int32-int64/nd=3/percentage/z=None/c=[5, 1]': 'fd82d749b73c5c28',
    '2d/numpy/(3, 7)/int64-float64/nd=None/count/z=None/c=None': '40401ab5f189f281',
    '2d/dask/(3, 7)/int64-float64/nd=None/count/z=None/c=None': '4314e9e2fc32b216',
    '2d/numpy/(3, 7)/int64-float64/nd=None/count/z=[0, 1, 4, 7, 10, -3]/c=[13, 0, 77, 2]': 'ea5cebfcdd552a9d',
    '2d/dask/(3, 7)/int64-float64/nd=None/count/z=[0, 1, 4, 7, 10, -3]/c=[13, 0, 77, 2]': 'c7613362ddfbfb6b',
    '2d/numpy/(3, 7)/int64-float64/nd=None/count/z=[0, 1, 4, 7, 10, -3]/c=None': '40401ab5f189f281',
    '2d/numpy/(3, 7)/int64-float64/nd=None/count/z=None/c=[13, 0, 77, 2]': 'ea5cebfcdd552a9d',
    '2d/numpy/(3, 7)/int64-float64/nd=None/percentage/z=None/c=None': 'b370f5025ff06460',
    '2d/dask/(3, 7)/int64-float64/nd=None/percentage/z=None/c=None': 'c23bb28290381661',
    '2d/numpy/(3, 7)/int64-float64/nd=None/percentage/z=[0, 1, 4, 7, 10, -3]/c=[13, 0, 77, 2]': '59c688aa44b085f5',
    '2d/dask/(3, 7)/int64-float64/nd=None/percentage/z=[0, 1, 4, 7, 10, -3]/c=[13, 0, 77, 2]': '92aec44aa2311b5b',
    '2d/numpy/(3, 7)/int64-float64/nd=None/percentage/z=[0, 1, 4, 7, 10, -3]/c=None': 'b370f5025ff06460',
    '2d/numpy/(3, 7)/int64-float64/nd=None/percentage/z=None/c=[13, 0, 77, 2]': '59c688aa44b085f5',
    '2d/numpy/(3, 7)/int64-float64/nd=3/count/z=None/c=None': '7c9edac044487afd',
    '2d/dask/(3, 7)/int64-float64/nd=3/count/z=None/c=None': '96052ece111567fb',
    '2d/numpy/(3, 7)/int64-float64/nd=3/count/z=[0, 1, 4, 7, 10, -3]/c=[13, 0, 77, 2]': 'ea5cebfcdd552a9d',
    '2d/dask/(3, 7)/int64-float64/nd=3/count/z=[0, 1, 4, 7, 10, -3]/c=[13, 0, 77, 2]': 'c7613362ddfbfb6b',
    '2d/numpy/(3, 7)/int64-float64/nd=3/count/z=[0, 1, 4, 7, 10, -3]/c=None': '7c9edac044487afd',
    '2d/numpy/(3, 7)/int64-float64/nd=3/count/z=None/c=[13, 0, 77, 2]': 'ea5cebfcdd552a9d',
    '2d/numpy/(3, 7)/int64-float64/nd=3/percentage/z=None/c=None': 'e821f08b4cc3fd14',
    '2d/dask/(3, 7)/int64-float64/nd=3/percentage/z=None/c=None': '873aa02287c0aaa2',
    '2d/numpy/(3, 7)/int64-float64/nd=3/percentage/z=[0, 1, 4, 7, 10, -3]/c=[13, 0, 77, 2]': '6618745bcaa83af2',
    '2d/dask/(3, 7)/int64-float64/nd=3/percentage/z=[0, 1, 4, 7, 10, -3]/c=[13, 0, 77, 2]': '5f619d9e2cc28f48',
    '2d/numpy/(3, 7)/int64-float64/nd=3/percentage/z=[0, 1, 4, 7, 10, -3]/c=None': 'e821f08b4cc3fd14',
    '2d/numpy/(3, 7)/int64-float64/nd=3/percentage/z=None/c=[13, 0, 77, 2]': '6618745bcaa83af2',
    '2d/numpy/(3, 7)/float64-float32/nd=None/count/z=None/c=None': 'dfb080042e2225b0',
    '2d/dask/(3, 7)/float64-float32/nd=None/count/z=None/c=None': '74bf872f906c9f8d',
    '2d/numpy/(3, 7)/float64-float32/nd=None/count/z=None/c=[8]': 'c5453f2bbd8f01af',
    '2d/numpy/(3, 7)/float64-float32/nd=None/percentage/z=None/c=None': '7c25d6b36576c430',
    '2d/dask/(3, 7)/float64-float32/nd=None/percentage/z=None/c=None': '0be87c9e9cc73378',
    '2d/numpy/(3, 7)/float64-float32/nd=None/percentage/z=None/c=[8]': '923931053163a2d1',
    '2d/numpy/(3, 7)/float64-float32/nd=3/count/z=None/c=None': '38a79bff0fb0679f',
    '2d/dask/(3, 7)/float64-float32/nd=3/count/z=None/c=None': 'f3c63aac51e547ab',
    '2d/numpy/(3, 7)/float64-float32/nd=3/count/z=None/c=[8]': 'c5453f2bbd8f01af',
    '2d/numpy/(3, 7)/float64-float32/nd=3/percentage/z=None/c=None': '4bcd70bca9c399ba',
    '2d/dask/(3, 7)/float64-float32/nd=3/percentage/z=None/c=None': '6778633477f48655',
    '2d/numpy/(3, 7)/float64-float32/nd=3/percentage/z=None/c=[8]': '923931053163a2d1',
    '2d/numpy/(3, 7)/float32-int32/nd=None/count/z=None/c=None': 'ac7a761999e4d7fb',
    '2d/dask/(3, 7)/float32-int32/nd=None/count/z=None/c=None': '624e2f2c865bc807',
    '2d/numpy/(3, 7)/float32-int32/nd=None/count/z=[4, 0]/c=[42]': '30679fb71c3e5788',
    '2d/dask/(3, 7)/float32-int32/nd=None/count/z=[4, 0]/c=[42]': 'da44d56cf9351a42',
    '2d/numpy/(3, 7)/float32-int32/nd=None/count/z=[4, 0]/c=None': '8c9c180d851427dd',
    '2d/numpy/(3, 7)/float32-int32/nd=None/count/z=None/c=[42]': '07708a88c0fa73b8',
    '2d/numpy/(3, 7)/float32-int32/nd=None/percentage/z=None/c=None': '230155b61b3f9a7d',
    '2d/dask/(3, 7)/float32-int32/nd=None/percentage/z=None/c=None': '4bddcf1c33d60f41',
    '2d/numpy/(3, 7)/float32-int32/nd=None/percentage/z=[4, 0]/c=[42]': '30679fb71c3e5788',
    '2d/dask/(3, 7)/float32-int32/nd=None/percentage/z=[4, 0]/c=[42]': 'da44d56cf9351a42',
    '2d/numpy/(3, 7)/float32-int32/nd=None/percentage/z=[4, 0]/c=None': 'a71b7258d840d996',
    '2d/numpy/(3, 7)/float32-int32/nd=None/percentage/z=None/c=[42]': '07708a88c0fa73b8',
    '2d/numpy/(3, 7)/float32-int32/nd=3/count/z=None/c=None': 'ac7a761999e4d7fb',
    '2d/dask/(3, 7)/float32-int32/nd=3/count/z=None/c=None': '624e2f2c865bc807',
    '2d/numpy/(3, 7)/float32-int32/nd=3/count/z=[4, 0]/c=[42]': '30679fb71c3e5788',
    '2d/dask/(3, 7)/float32-int32/nd=3/count/z=[4, 0]/c=[42]': 'da44d56cf9351a42',
    '2d/numpy/(3, 7)/float32-int32/nd=3/count/z=[4, 0]/c=None': '8c9c180d851427dd',
    '2d/numpy/(3, 7)/float32-int32/nd=3/count/z=None/c=[42]': '07708a88c0fa73b8',
    '2d/numpy/(3, 7)/float32-int32/nd=3/percentage/z=None/c=None': '230155b61b3f9a7d',
    '2d/dask/(3, 7)/float32-int32/nd=3/percentage/z=None/c=None': '4bddcf1c33d60f41',
    '2d/numpy/(3, 7)/float32-int32/nd=3/percentage/z=[4, 0]/c=[42]': '30679fb71c3e5788',
    '2d/dask/(3, 7)/float32-int32/nd=3/percentage/z=[4, 0]/c=[42]': 'da44d56cf9351a42',
    '2d/numpy/(3, 7)/float32-int32/nd=3/percentage/z=[4, 0]/c=None': 'a71b7258d840d996',
    '2d/numpy/(3, 7)/float32-int32/nd=3/percentage/z=None/c=[42]': '07708a88c0fa73b8',
    '2d/numpy/(3, 7)/float64-float64/nd=None/count/z=None/c=None': '6f49942aebe68a0d',
    '2d/dask/(3, 7)/float64-float64/nd=None/count/z=None/c=None': 'ce3d1d431e950d19',
    '2d/numpy/(3, 7)/float64-float64/nd=None/count/z=[10, -3, 99, 1]/c=None': 'd4204d038c2ff04f',
    '2d/numpy/(3, 7)/float64-float64/nd=None/percentage/z=None/c=None': 'f4cee31fb0832b16',
    '2d/dask/(3, 7)/float64-float64/nd=None/percentage/z=None/c=None': 'e2fde3e30327231f',
    '2d/numpy/(3, 7)/float64-float64/nd=None/percentage/z=[10, -3, 99, 1]/c=None': '088496986cb3bd3c',
    '2d/numpy/(3, 7)/float64-float64/nd=3/count/z=None/c=None': '869bafd105270122',
    '2d/dask/(3, 7)/float64-float64/nd=3/count/z=None/c=None': '35be45a6806e7a19',
    '2d/numpy/(3, 7)/float64-float64/nd=3/count/z=[10, -3, 99, 1]/c=None': 'e72eb399042ef01b',
    '2d/numpy/(3, 7)/float64-float64/nd=3/percentage/z=None/c=None': 'dd16540393820b1f',
    '2d/dask/(3, 7)/float64-float64/nd=3/percentage/z=None/c=None': '67d57a42e35f5c84',
    '2d/numpy/(3, 7)/float64-float64/nd=3/percentage/z=[10, -3, 99, 1]/c=None': 'faf9bc0b0b0233fa',
    '2d/numpy/(6, 9)/int32-int64/nd=None/count/z=None/c=None': '1f2bc9de7954445f',
    '2d/dask/(6, 9)/int32-int64/nd=None/count/z=None/c=None': '3df30240527108a0',
    '2d/numpy/(6, 9)/int32-int64/nd=None/count/z=[7]/c=[5, 1]': '92dc442c4781ba7b',
    '2d/dask/(6, 9)/int32-int64/nd=None/count/z=[7]/c=[5, 1]': '3e93374b5726a154',
    '2d/numpy/(6, 9)/int32-int64/nd=None/count/z=[7]/c=None': '2d6f5c2a3dc2ac3c',
    '2d/numpy/(6, 9)/int32-int64/nd=None/count/z=None/c=[5, 1]': 'cf6e0150a9d2ea01',
    '2d/numpy/(6, 9)/int32-int64/nd=None/percentage/z=None/c=None': '59af2b2d4090ef41',
    '2d/dask/(6, 9)/int32-int64/nd=None/percentage/z=None/c=None': 'c4be3338087c152a',
    '2d/numpy/(6, 9)/int32-int64/nd=None/percentage/z=[7]/c=[5, 1]': '677696031480b307',
    '2d/dask/(6, 9)/int32-int64/nd=None/percentage/z=[7]/c=[5, 1]': '7b77b8261d28f4a8',
    '2d/numpy/(6, 9)/int32-int64/nd=None/percentage/z=[7]/c=None': '80376dfcc8f3922b',
    '2d/numpy/(6, 9)/int32-int64/nd=None/percentage/z=None/c=[5, 1]': '0841897f7f63f9f7',
    '2d/numpy/(6, 9)/int32-int64/nd=3/count/z=None/c=None': '269ce951d2a39f5f',
    '2d/dask/(6, 9)/int32-int64/nd=3/count/z=None/c=None': 'c453cafbc2efd741',
    '2d/numpy/(6, 9)/int32-int64/nd=3/count/z=[7]/c=[5, 1]': '92dc442c4781ba7b',
    '2d/dask/(6, 9)/int32-int64/nd=3/count/z=[7]/c=[5, 1]': '3e93374b5726a154',
    '2d/numpy/(6, 9)/int32-int64/nd=3/count/z=[7]/c=None': 'f3437b1286b578a5',
    '2d/numpy/(6, 9)/int32-int64/nd=3/count/z=None/c=[5, 1]': 'cf6e0150a9d2ea01',
    '2d/numpy/(6, 9)/int32-int64/nd=3/percentage/z=None/c=None': 'b32122a041a87203',
    '2d/dask/(6, 9)/int32-int64/nd=3/percentage/z=None/c=None': 'b94e94471fce76dd',
    '2d/numpy/(6, 9)/int32-int64/nd=3/percentage/z=[7]/c=[5, 1]': 'c47465a5dfc27223',
    '2d/dask/(6, 9)/int32-int64/nd=3/percentage/z=[7]/c=[5, 1]': 'f636e9b834f7838c',
    '2d/numpy/(6, 9)/int32-int64/nd=3/percentage/z=[7]/c=None': '29ae4c0dccd44e2e',
    '2d/numpy/(6, 9)/int32-int64/nd=3/percentage/z=None/c=[5, 1]': 'd2a1a7d812a2a1ef',
    '2d/numpy/(6, 9)/int64-float64/nd=None/count/z=None/c=None': '3caa61b417dde08b',
    '2d/dask/(6, 9)/int64-float64/nd=None/count/z=None/c=None': '4dd2e9406ceee844',
    '2d/numpy/(6, 9)/int64-float64/nd=None/count/z=[55]/c=[13, 0, 77, 2]': 'de8e4afce061e643',
    '2d/dask/(6, 9)/int64-float64/nd=None/count/z=[55]/c=[13, 0, 77, 2]': '1666c8acbd1e851e',
    '2d/numpy/(6, 9)/int64-float64/nd=None/count/z=[55]/c=None': '4b33983644005b84',
    '2d/numpy/(6, 9)/int64-float64/nd=None/count/z=None/c=[13, 0, 77, 2]': '6d1c3ed25fd50bc6',
    '2d/numpy/(6, 9)/int64-float64/nd=None/percentage/z=None/c=None': 'cc88a9d94dbf8c7d',
    '2d/dask/(6, 9)/int64-float64/nd=None/percentage/z=None/c=None': 'a01b450d7d2d63a6',
    '2d/numpy/(6, 9)/int64-float64/nd=None/percentage/z=[55]/c=[13, 0, 77, 2]': 'de8e4afce061e643',
    '2d/dask/(6, 9)/int64-float64/nd=None/percentage/z=[55]/c=[13, 0, 77, 2]': '1666c8acbd1e851e',
    '2d/numpy/(6, 9)/int64-float64/nd=None/percentage/z=[55]/c=None': '4b33983644005b84',
    '2d/numpy/(6, 9)/int64-float64/nd=None/percentage/z=None/c=[13, 0, 77, 2]': 'b9b9df93c50692c2',
    '2d/numpy/(6, 9)/int64-float64/nd=3/count/z=None/c=None': '52ed2c13682052e6',
    '2d/dask/(6, 9)/int64-float64/nd=3/count/z=None/c=None': 'e1c0ab77c1ba11a6',
    '2d/numpy/(6, 9)/int64-float64/nd=3/count/z=[55]/c=[13, 0, 77, 2]': 'de8e4afce061e643',
    '2d/dask/(6, 9)/int64-float64/nd=3/count/z=[55]/c=[13, 0, 77, 2]': '1666c8acbd1e851e',
    '2d/numpy/(6, 9)/int64-float64/nd=3/count/z=[55]/c=None': '4c4ebddefc7efc7a',
    '2d/numpy/(6, 9)/int64-float64/nd=3/count/z=None/c=[13, 0, 77, 2]': '6d1c3ed25fd50bc6',
    '2d/numpy/(6, 9)/int64-float64/nd=3/percentage/z=None/c=None': '8be785fbb5b38b8b',
    '2d/dask/(6, 9)/int64-float64/nd=3/percentage/z=None/c=None': '8fce598803eac260',
    '2d/numpy/(6, 9)/int64-float64/nd=3/percentage/z=[55]/c=[13, 0, 77, 2]': 'de8e4afce061e643',
    '2d/dask/(6, 9)/int64-float64/nd=3/percentage/z=[55]/c=[13, 0, 77, 2]': '1666c8acbd1e851e',
    '2d/numpy/(6, 9)/int64-float64/nd=3/percentage/z=[55]/c=None': '4c4ebddefc7efc7a',
    '2d/numpy/(6, 9)/int64-float64/nd=3/percentage/z=None/c=[13, 0, 77, 2]': '5c51eb57844a0b83',
    '2d/numpy/(6, 9)/float64-float32/nd=None/count/z=None/c=None': '2192a74c48239757',
    '2d/dask/(6, 9)/float64-float32/nd=None/count/z=None/c=None': '4e6c5b2fa35245ec',
    '2d/numpy/(6, 9)/float64-float32/nd=None/count/z=[0, 1, 4, 7, 10, -3]/c=[8]': 'a7791d7eb1f2cd1a',
    '2d/dask/(6, 9)/float64-float32/nd=None/count/z=[0, 1, 4, 7, 10, -3]/c=[8]': '49a9829ad1ea708b',
    '2d/numpy/(6, 9)/float64-float32/nd=None/count/z=[0, 1, 4, 7, 10, -3]/c=None': '2192a74c48239757',
    '2d/numpy/(6, 9)/float64-float32/nd=None/count/z=None/c=[8]': 'a7791d7eb1f2cd1a',
    '2d/numpy/(6, 9)/float64-float32/nd=None/percentage/z=None/c=None': 'b42e13e0c278cd9c',
    '2d/dask/(6, 9)/float64-float32/nd=None/percentage/z=None/c=None': '5d43d5eb269e03d7',
    '2d/numpy/(6, 9)/float64-float32/nd=None/percentage/z=[0, 1, 4, 7, 10, -3]/c=[8]': '95a9ec50e0e1214f',
    '2d/dask/(6, 9)/float64-float32/nd=None/percentage/z=[0, 1, 4, 7, 10, -3]/c=[8]': '90c21531aac36655',
    '2d/numpy/(6, 9)/float64-float32/nd=None/percentage/z=[0, 1, 4, 7, 10, -3]/c=None': 'b42e13e0c278cd9c',
    '2d/numpy/(6, 9)/float64-float32/nd=None/percentage/z=None/c=[8]': '95a9ec50e0e1214f',
    '2d/numpy/(6, 9)/float64-float32/nd=3/count/z=None/c=None': '443b3d169cc8f69f',
    '2d/dask/(6, 9)/float64-float32/nd=3/count/z=None/c=None': '2568f1878d05f2c2',
    '2d/numpy/(6, 9)/float64-float32/nd=3/count/z=[0, 1, 4, 7, 10, -3]/c=[8]': 'a7791d7eb1f2cd1a',
    '2d/dask/(6, 9)/float64-float32/nd=3/count/z=[0, 1, 4, 7, 10, -3]/c=[8]': '49a9829ad1ea708b',
    '2d/numpy/(6, 9)/float64-float32/nd=3/count/z=[0, 1, 4, 7, 10, -3]/c=None': '443b3d169cc8f69f',
    '2d/numpy/(6, 9)/float64-float32/nd=3/count/z=None/c=[8]': 'a7791d7eb1f2cd1a',
    '2d/numpy/(6, 9)/float64-float32/nd=3/percentage/z=None/c=None': '6461289376700e1e',
    '2d/dask/(6, 9)/float64-float32/nd=3/percentage/z=None/c=None': '77969dca496a0a56',
    '2d/numpy/(6, 9)/float64-float32/nd=3/percentage/z=[0, 1, 4, 7, 10, -3]/c=[8]': 'bb6c358e53ee9dc5',
    '2d/dask/(6, 9)/float64-float32/nd=3/percentage/z=[0, 1, 4, 7, 10, -3]/c=[8]': '12cd954b4b3ed15b',
    '2d/numpy/(6, 9)/float64-float32/nd=3/percentage/z=[0, 1, 4, 7, 10, -3]/c=None': '6461289376700e1e',
    '2d/numpy/(6, 9)/float64-float32/nd=3/percentage/z=None/c=[8]': 'bb6c358e53ee9dc5',
    '2d/numpy/(6, 9)/float32-int32/nd=None/count/z=None/c=None': 'ff5f81b77d744aa9',
    '2d/dask/(6, 9)/float32-int32/nd=None/count/z=None/c=None': '8b35a30d59c50f58',
    '2d/numpy/(6, 9)/float32-int32/nd=None/count/z=None/c=[42]': '07708a88c0fa73b8',
    '2d/numpy/(6, 9)/float32-int32/nd=None/percentage/z=None/c=None': 'a8a276249b959ee0',
    '2d/dask/(6, 9)/float32-int32/nd=None/percentage/z=None/c=None': '5f3f6dff43912971',
    '2d/numpy/(6, 9)/float32-int32/nd=None/percentage/z=None/c=[42]': '07708a88c0fa73b8',
    '2d/numpy/(6, 9)/float32-int32/nd=3/count/z=None/c=None': '1140ffc7e638a72a',
    '2d/dask/(6, 9)/float32-int32/nd=3/count/z=None/c=None': '749137ae23d621de',
    '2d/numpy/(6, 9)/float32-int32/nd=3/count/z=None/c=[42]': '07708a88c0fa73b8',
    '2d/numpy/(6, 9)/float32-int32/nd=3/percentage/z=None/c=None': '3cb893fc779c4f3f',
    '2d/dask/(6, 9)/float32-int32/nd=3/percentage/z=None/c=None': 'ae55925ea9826335',
    '2d/numpy/(6, 9)/float32-int32/nd=3/percentage/z=None/c=[42]': '07708a88c0fa73b8',
    '2d/numpy/(6, 9)/float64-float64/nd=None/count/z=None/c=None': '302c8e76df61a2be',
    '2d/dask/(6, 9)/float64-float64/nd=None/count/z=None/c=None': '03c4e37ee8ad004e',
    '2d/numpy/(6, 9)/float64-float64/nd=None/count/z=[4, 0]/c=None': 'c3e4829ba341d240',
    '2d/numpy/(6, 9)/float64-float64/nd=None/percentage/z=None/c=None': '8e06d346b8cbaac3',
    '2d/dask/(6, 9)/float64-float64/nd=None/percentage/z=None/c=None': '648041d80bea1b63',
    '2d/numpy/(6, 9)/float64-float64/nd=None/percentage/z=[4, 0]/c=None': '6343b88814b1f38c',
    '2d/numpy/(6, 9)/float64-float64/nd=3/count/z=None/c=None': '0355abc606f06cbd',
    '2d/dask/(6, 9)/float64-float64/nd=3/count/z=None/c=None': 'd021ae80a7d58305',
    '2d/numpy/(6, 9)/float64-float64/nd=3/count/z=[4, 0]/c=None': '42434bc2d0641b34',
    '2d/numpy/(6, 9)/float64-float64/nd=3/percentage/z=None/c=None': '64adef866506ad9c',
    '2d/dask/(6, 9)/float64-float64/nd=3/percentage/z=None/c=None': '2938e856aea1a080',
    '2d/numpy/(6, 9)/float64-float64/nd=3/percentage/z=[4, 0]/c=None': 'daec5d5a9fb839c0',
    '3d/numpy/(4, 5)/L3@0/int64-float64/nd=None/count/z=None/c=None': 'c0b6edf951911511',
    '3d/numpy/(4, 5)/L3@0/int64-float64/nd=None/mean/z=None/c=None': 'f3a3dd61ad2eede8',
    '3d/numpy/(4, 5)/L3@0/int64-float64/nd=None/max/z=None/c=None': '90373c544d29a17c',
    '3d/numpy/(4, 5)/L3@0/int64-float64/nd=None/min/z=None/c=None': 'dea9a50fb8e6417f',
    '3d/numpy/(4, 5)/L3@0/int64-float64/nd=None/sum/z=None/c=None': 'ac5351a92276348f',
    '3d/numpy/(4, 5)/L3@0/int64-float64/nd=None/std/z=None/c=None': 'f0f5a1eaa8437f30',
    '3d/numpy/(4, 5)/L3@0/int64-float64/nd=None/var/z=None/c=None': 'af1a3c517b44f724',
    '3d/dask/(4, 5)/L3@0/int64-float64/nd=None/count/z=None/c=None': '2a9fc19d187e56b5',
    "3d/numpy/(4, 5)/L3@0/int64-float64/nd=None/count/z=None/c=['c', 'a']": 'b9143c03805f7d1a',
    "3d/numpy/(4, 5)/L3@0/int64-float64/nd=None/mean/z=None/c=['c', 'a']": '7db2e5cffbfa3aaa',
    "3d/numpy/(4, 5)/L3@0/int64-float64/nd=None/max/z=None/c=['c', 'a']": 'd948b4c24df98623',
    "3d/numpy/(4, 5)/L3@0/int64-float64/nd=None/min/z=None/c=['c', 'a']": '5123765bd6a6577d',
    "3d/numpy/(4, 5)/L3@0/int64-float64/nd=None/sum/z=None/c=['c', 'a']": '7cae1313db4d5102',
    "3d/numpy/(4, 5)/L3@0/int64-float64/nd=None/std/z=None/c=['c', 'a']": 'e855847509d73265',
    "3d/numpy/(4, 5)/L3@0/int64-float64/nd=None/var/z=None/c=['c', 'a']": '06a57a7064e01ef2',
    "3d/dask/(4, 5)/L3@0/int64-float64/nd=None/count/z=None/c=['c', 'a']": '9ef8803a9ed5fcc1',
    "3d/numpy/(4, 5)/L3@0/int64-float64/nd=None/count/z=None/c=['b', 'zz']": '23cbe882ee87eb9a',
    "3d/numpy/(4, 5)/L3@0/int64-float64/nd=None/mean/z=None/c=['b', 'zz']": '1d20ef379fce920f',
    "3d/numpy/(4, 5)/L3@0/int64-float64/nd=None/max/z=None/c=['b', 'zz']": 'cf2558811261c0a2',
    "3d/numpy/(4, 5)/L3@0/int64-float64/nd=None/min/z=None/c=['b', 'zz']": 'c073f72fe495a595',
    "3d/numpy/(4, 5)/L3@0/int64-float64/nd=None/sum/z=None/c=['b', 'zz']": '843a52a8c3f9edd6',
    "3d/numpy/(4, 5)/L3@0/int64-float64/nd=None/std/z=None/c=['b', 'zz']": '015a8ca952ce8ca2',
    "3d/numpy/(4, 5)/L3@0/int64-float64/nd=None/var/z=None/c=['b', 'zz']": '1cb00e93b70dfafe',
    "3d/dask/(4, 5)/L3@0/int64-float64/nd=None/count/z=None/c=['b', 'zz']": 'faabd9eaf603d749',
    '3d/numpy/(4, 5)/L3@0/int64-float64/nd=None/count/z=[4, 0]/c=None': '8281ef39196dae60',
    '3d/numpy/(4, 5)/L3@0/int64-float64/nd=None/mean/z=[4, 0]/c=None': '4bb2351b981492a7',
    '3d/numpy/(4, 5)/L3@0/int64-float64/nd=None/max/z=[4, 0]/c=None': 'ca32556a87f1fe30',
    '3d/numpy/(4, 5)/L3@0/int64-float64/nd=None/min/z=[4, 0]/c=None': 'c0e21a71bb1ce02a',
    '3d/numpy/(4, 5)/L3@0/int64-float64/nd=None/sum/z=[4, 0]/c=None': '0aa002450eed1f29',
    '3d/numpy/(4, 5)/L3@0/int64-float64/nd=None/std/z=[4, 0]/c=None': '647b34edcd343510',
    '3d/numpy/(4, 5)/L3@0/int64-float64/nd=None/var/z=[4, 0]/c=None': '42c6a87c2b040f01',
    '3d/dask/(4, 5)/L3@0/int64-float64/nd=None/count/z=[4, 0]/c=None': '29696c1dfad9bffb',
    "3d/numpy/(4, 5)/L3@0/int64-float64/nd=None/count/z=[4, 0]/c=['c', 'a']": '562bcb5837d9304e',
    "3d/numpy/(4, 5)/L3@0/int64-float64/nd=None/mean/z=[4, 0]/c=['c', 'a']": '2546929cd57f1870',
    "3d/numpy/(4, 5)/L3@0/int64-float64/nd=None/max/z=[4, 0]/c=['c', 'a']": 'a9ded0e8bc9c4057',
    "3d/numpy/(4, 5)/L3@0/int64-float64/nd=None/min/z=[4, 0]/c=['c', 'a']": '77fa090181d27ae7',
    "3d/numpy/(4, 5)/L3@0/int64-float64/nd=None/sum/z=[4, 0]/c=['c', 'a']": '281a3eba552a6a6e',
    "3d/numpy/(4, 5)/L3@0/int64-float64/nd=None/std/z=[4, 0]/c=['c', 'a']": '110cd722a87e0a7e',
    "3d/numpy/(4, 5)/L3@0/int64-float64/nd=None/var/z=[4, 0]/c=['c', 'a']": 'eb58a02cf28b6ed3',
    "3d/dask/(4, 5)/L3@0/int64-float64/nd=None/count/z=[4, 0]/c=['c', 'a']": 'cc45c42e5d104c97',
    "3d/numpy/(4, 5)/L3@0/int64-float64/nd=None/count/z=[4, 0]/c=['b', 'zz']": '3c31f0fc5d821768',
    "3d/numpy/(4, 5)/L3@0/int64-float64/nd=None/mean/z=[4, 0]/c=['b', 'zz']": '539593517bc71397',
    "3d/numpy/(4, 5)/L3@0/int64-float64/nd=None/max/z=[4, 0]/c=['b', 'zz']": '5174573695a0d4a7',
    "3d/numpy/(4, 5)/L3@0/int64-float64/nd=None/min/z=[4, 0]/c=['b', 'zz']": '16708f3a54bd9e20',
    "3d/numpy/(4, 5)/L3@0/int64-float64/nd=None/sum/z=[4, 0]/c=['b', 'zz']": 'ac94b6b3541478db',
    "3d/numpy/(4, 5)/L3@0/int64-float64/nd=None/std/z=[4, 0]/c=['b', 'zz']": 'e562097a5674234b',
    "3d/numpy/(4, 5)/L3@0/int64-float64/nd=None/var/z=[4, 0]/c=['b', 'zz']": 'af247d35d59ab77a',
    "3d/dask/(4, 5)/L3@0/int64-float64/nd=None/count/z=[4, 0]/c=['b', 'zz']": 'fd70c0ef2e9eb926',
    '3d/numpy/(4, 5)/L3@0/int64-float64/nd=2/count/z=None/c=None': 'bd96b9da80ac9a9c',
    '3d/numpy/(4, 5)/L3@0/int64-float64/nd=2/mean/z=None/c=None': 'b8ffbdfdaba55dd8',
    '3d/numpy/(4, 5)/L3@0/int64-float64/nd=2/max/z=None/c=None': '90373c544d29a17c',
    '3d/numpy/(4, 5)/L3@0/int64-float64/nd=2/min/z=None/c=None': 'dea9a50fb8e6417f',
    '3d/numpy/(4, 5)/L3@0/int64-float64/nd=2/sum/z=None/c=None': 'b7f0c03ed0bb6dac',
    '3d/numpy/(4, 5)/L3@0/int64-float64/nd=2/std/z=None/c=None': 'f3940b16482f315d',
    '3d/numpy/(4, 5)/L3@0/int64-float64/nd=2/var/z=None/c=None': '7bccbb5b313b61f8',
    '3d/dask/(4, 5)/L3@0/int64-float64/nd=2/count/z=None/c=None': '14ca674ca8621b2c',
    "3d/numpy/(4, 5)/L3@0/int64-float64/nd=2/count/z=None/c=['c', 'a']": 'a6892fbbb7842e80',
    "3d/numpy/(4, 5)/L3@0/int64-float64/nd=2/mean/z=None/c=['c', 'a']": '7c924f27148b1f7c',
    "3d/numpy/(4, 5)/L3@0/int64-float64/nd=2/max/z=None/c=['c', 'a']": 'd948b4c24df98623',
    "3d/numpy/(4, 5)/L3@0/int64-float64/nd=2/min/z=None/c=['c', 'a']": '5123765bd6a6577d',
    "3d/numpy/(4, 5)/L3@0/int64-float64/nd=2/sum/z=None/c=['c', 'a']": 'cea8691b497fb182',
    "3d/numpy/(4, 5)/L3@0/int64-float64/nd=2/std/z=None/c=['c', 'a']": 'b22b36094130c92f',
    "3d/numpy/(4, 5)/L3@0/int64-float64/nd=2/var/z=None/c=['c', 'a']": '2a10bf6c942793ec',
    "3d/dask/(4, 5)/L3@0/int64-float64/nd=2/count/z=None/c=['c', 'a']": '648f97176ab785f4',
    "3d/numpy/(4, 5)/L3@0/int64-float64/nd=2/count/z=None/c=['b', 'zz']": '23cbe882ee87eb9a',
    "3d/numpy/(4, 5)/L3@0/int64-float64/nd=2/mean/z=None/c=['b', 'zz']": '1d20ef379fce920f',
    "3d/numpy/(4, 5)/L3@0/int64-float64/nd=2/max/z=None/c=['b', 'zz']": 'cf2558811261c0a2',
    "3d/numpy/(4, 5)/L3@0/int64-float64/nd=2/min/z=None/c=['b', 'zz']": 'c073f72fe495a595',
    "3d/numpy/(4, 5)/L3@0/int64-float64/nd=2/sum/z=None/c=['b', 'zz']": '843a52a8c3f9edd6',
    "3d/numpy/(4, 5)/L3@0/int64-float64/nd=2/std/z=None/c=['b', 'zz']": '015a8ca952ce8ca2',
    "3d/numpy/(4, 5)/L3@0/int64-float64/nd=2/var/z=None/c=['b', 'zz']": '1cb00e93b70dfafe',
    "3d/dask/(4, 5)/L3@0/int64-float64/nd=2/count/z=None/c=['b', 'zz']": 'faabd9eaf603d749',
    '3d/numpy/(4, 5)/L3@0/int64-float64/nd=2/count/z=[4, 0]/c=None': '8281ef39196dae60',
    '3d/numpy/(4, 5)/L3@0/int64-float64/nd=2/mean/z=[4, 0]/c=None': '4bb2351b981492a7',
    '3d/numpy/(4, 5)/L3@0/int64-float64/nd=2/max/z=[4, 0]/c=None': 'ca32556a87f1fe30',
    '3d/numpy/(4, 5)/L3@0/int64-float64/nd=2/min/z=[4, 0]/c=None': 'c0e21a71bb1ce02a',
    '3d/numpy/(4, 5)/L3@0/int64-float64/nd=2/sum/z=[4, 0]/c=None': '0aa002450eed1f29',
    '3d/numpy/(4, 5)/L3@0/int64-float64/nd=2/std/z=[4, 0]/c=None': '647b34edcd343510',
    '3d/numpy/(4, 5)/L3@0/int64-float64/nd=2/var/z=[4, 0]/c=None': '42c6a87c2b040f01',
    '3d/dask/(4, 5)/L3@0/int64-float64/nd=2/count/z=[4, 0]/c=None': '29696c1dfad9bffb',
    "3d/numpy/(4, 5)/L3@0/int64-float64/nd=2/count/z=[4, 0]/c=['c', 'a']": '562bcb5837d9304e',
    "3d/numpy/(4, 5)/L3@0/int64-float64/nd=2/mean/z=[4, 0]/c=['c', 'a']": '2546929cd57f1870',
    "3d/numpy/(4, 5)/L3@0/int64-float64/nd=2/max/z=[4, 0]/c=['c', 'a']": 'a9ded0e8bc9c4057',
    "3d/numpy/(4, 5)/L3@0/int64-float64/nd=2/min/z=[4, 0]/c=['c', 'a']": '77fa090181d27ae7',
    "3d/numpy/(4, 5)/L3@0/int64-float64/nd=2/sum/z=[4, 0]/c=['c', 'a']": '281a3eba552a6a6e',
    "3d/numpy/(4, 5)/L3@0/int64-float64/nd=2/std/z=[4, 0]/c=['c', 'a']": '110cd722a87e0a7e',
    "3d/numpy/(4, 5)/L3@0/int64-float64/nd=2/var/z=[4, 0]/c=['c', 'a']": 'eb58a02cf28b6ed3',
    "3d/dask/(4, 5)/L3@0/int64-float64/nd=2/count/z=[4, 0]/c=['c', 'a']": 'cc45c42e5d104c97',
    "3d/numpy/(4, 5)/L3@0/int64-float64/nd=2/count/z=[4, 0]/c=['b', 'zz']": '3c31f0fc5d821768',
    "3d/numpy/(4, 5)/L3@0/int64-float64/nd=2/mean/z=[4, 0]/c=['b', 'zz']": '539593517bc71397',
    "3d/numpy/(4, 5)/L3@0/int64-float64/nd=2/max/z=[4, 0]/c=['b', 'zz']": '5174573695a0d4a7',
    "3d/numpy/(4, 5)/L3@0/int64-float64/nd=2/min/z=[4, 0]/c=['b', 'zz']": '16708f3a54bd9e20',
    "3d/numpy/(4, 5)/L3@0/int64-float64/nd=2/sum/z=[4, 0]/c=['b', 'zz']": 'ac94b6b3541478db',
    "3d/numpy/(4, 5)/L3@0/int64-float64/nd=2/std/z=[4, 0]/c=['b', 'zz']": 'e562097a5674234b',
    "3d/numpy/(4, 5)/L3@0/int64-float64/nd=2/var/z=[4, 0]/c=['b', 'zz']": 'af247d35d59ab77a',
    "3d/dask/(4, 5)/L3@0/int64-float64/nd=2/count/z=[4, 0]/c=['b', 'zz']": 'fd70c0ef2e9eb926',
    '3d/numpy/(4, 5)/L3@2/int64-float64/nd=None/count/z=None/c=None': 'c0b6edf951911511',
    '3d/numpy/(4, 5)/L3@2/int64-float64/nd=None/mean/z=None/c=None': 'f3a3dd61ad2eede8',
    '3d/numpy/(4, 5)/L3@2/int64-float64/nd=None/max/z=None/c=None': '90373c544d29a17c',
    '3d/numpy/(4, 5)/L3@2/int64-float64/nd=None/min/z=None/c=None': 'dea9a50fb8e6417f',
    '3d/numpy/(4, 5)/L3@2/int64-float64/nd=None/sum/z=None/c=None': 'ac5351a92276348f',
    '3d/numpy/(4, 5)/L3@2/int64-float64/nd=None/std/z=None/c=None': 'f0f5a1eaa8437f30',
    '3d/numpy/(4, 5)/L3@2/int64-float64/nd=None/var/z=None/c=None': 'af1a3c517b44f724',
    '3d/dask/(4, 5)/L3@2/int64-float64/nd=None/count/z=None/c=None': '2a9fc19d187e56b5',
    "3d/numpy/(4, 5)/L3@2/int64-float64/nd=None/count/z=None/c=['c', 'a']": 'b9143c03805f7d1a',
    "3d/numpy/(4, 5)/L3@2/int64-float64/nd=None/mean/z=None/c=['c', 'a']": '7db2e5cffbfa3aaa',
    "3d/numpy/(4, 5)/L3@2/int64-float64/nd=None/max/z=None/c=['c', 'a']": 'd948b4c24df98623',
    "3d/numpy/(4, 5)/L3@2/int64-float64/nd=None/min/z=None/c=['c', 'a']": '5123765bd6a6577d',
    "3d/numpy/(4, 5)/L3@2/int64-float64/nd=None/sum/z=None/c=['c', 'a']": '7cae1313db4d5102',
    "3d/numpy/(4, 5)/L3@2/int64-float64/nd=None/std/z=None/c=['c', 'a']": 'e855847509d73265',
    "3d/numpy/(4, 5)/L3@2/int64-float64/nd=None/var/z=None/c=['c', 'a']": '06a57a7064e01ef2',
    "3d/dask/(4, 5)/L3@2/int64-float64/nd=None/count/z=None/c=['c', 'a']": '9ef8803a9ed5fcc1',
    "3d/numpy/(4, 5)/L3@2/int64-float64/nd=None/count/z=None/c=['b', 'zz']": '23cbe882ee87eb9a',
    "3d/numpy/(4, 5)/L3@2/int64-float64/nd=None/mean/z=None/c=['b', 'zz']": '1d20ef379fce920f',
    "3d/numpy/(4, 5)/L3@2/int64-float64/nd=None/max/z=None/c=['b', 'zz']": 'cf2558811261c0a2',
    "3d/numpy/(4, 5)/L3@2/int64-float64/nd=None/min/z=None/c=['b', 'zz']": 'c073f72fe495a595',
    "3d/numpy/(4, 5)/L3@2/int64-float64/nd=None/sum/z=None/c=['b', 'zz']": '843a52a8c3f9edd6',
    "3d/numpy/(4, 5)/L3@2/int64-float64/nd=None/std/z=None/c=['b', 'zz']": '015a8ca952ce8ca2',
    "3d/numpy/(4, 5)/L3@2/int64-float64/nd=None/var/z=None/c=['b', 'zz']": '1cb00e93b70dfafe',
    "3d/dask/(4, 5)/L3@2/int64-float64/nd=None/count/z=None/c=['b', 'zz']": 'faabd9eaf603d749',
    '3d/numpy/(4, 5)/L3@2/int64-float64/nd=None/count/z=[4, 0]/c=None': '8281ef39196dae60',
    '3d/numpy/(4, 5)/L3@2/int64-float64/nd=None/mean/z=[4, 0]/c=None': '4bb2351b981492a7',
    '3d/numpy/(4, 5)/L3@2/int64-float64/nd=None/max/z=[4, 0]/c=None': 'ca32556a87f1fe30',
    '3d/numpy/(4, 5)/L3@2/int64-float64/nd=None/min/z=[4, 0]/c=None': 'c0e21a71bb1ce02a',
    '3d/numpy/(4, 5)/L3@2/int64-float64/nd=None/sum/z=[4, 0]/c=None': '0aa002450eed1f29',
    '3d/numpy/(4, 5)/L3@2/int64-float64/nd=None/std/z=[4, 0]/c=None': '647b34edcd343510',
    '3d/numpy/(4, 5)/L3@2/int64-float64/nd=None/var/z=[4, 0]/c=None': '42c6a87c2b040f01',
    '3d/dask/(4, 5)/L3@2/int64-float64/nd=None/count/z=[4, 0]/c=None': '29696c1dfad9bffb',
    "3d/numpy/(4, 5)/L3@2/int64-float64/nd=None/count/z=[4, 0]/c=['c', 'a']": '562bcb5837d9304e',
    "3d/numpy/(4, 5)/L3@2/int64-float64/nd=None/mean/z=[4, 0]/c=['c', 'a']": '2546929cd57f1870',
    "3d/numpy/(4, 5)/L3@2/int64-float64/nd=None/max/z=[4, 0]/c=['c', 'a']": 'a9ded0e8bc9c4057',
    "3d/numpy/(4, 5)/L3@2/int64-float64/nd=None/min/z=[4, 0]/c=['c', 'a']": '77fa090181d27ae7',
    "3d/numpy/(4, 5)/L3@2/int64-float64/nd=None/sum/z=[4, 0]/c=['c', 'a']": '281a3eba552a6a6e',
    "3d/numpy/(4, 5)/L3@2/int64-float64/nd=None/std/z=[4, 0]/c=['c', 'a']": '110cd722a87e0a7e',
    "3d/numpy/(4, 5)/L3@2/int64-float64/nd=None/var/z=[4, 0]/c=['c', 'a']": 'eb58a02cf28b6ed3',
    "3d/dask/(4, 5)/L3@2/int64-float64/nd=None/count/z=[4, 0]/c=['c', 'a']": 'cc45c42e5d104c97',
    "3d/numpy/(4, 5)/L3@2/int64-float64/nd=None/count/z=[4, 0]/c=['b', 'zz']": '3c31f0fc5d821768',
    "3d/numpy/(4, 5)/L3@2/int64-float64/nd=None/mean/z=[4, 0]/c=['b', 'zz']": '539593517bc71397',
    "3d/numpy/(4, 5)/L3@2/int64-float64/nd=None/max/z=[4, 0]/c=['b', 'zz']": '5174573695a0d4a7',
    "3d/numpy/(4, 5)/L3@2/int64-float64/nd=None/min/z=[4, 0]/c=['b', 'zz']": '16708f3a54bd9e20',
    "3d/numpy/(4, 5)/L3@2/int64-float64/nd=None/sum/z=[4, 0]/c=['b', 'zz']": 'ac94b6b3541478db',
    "3d/numpy/(4, 5)/L3@2/int64-float64/nd=None/std/z=[4, 0]/c=['b', 'zz']": 'e562097a5674234b',
    "3d/numpy/(4, 5)/L3@2/int64-float64/nd=None/var/z=[4, 0]/c=['b', 'zz']": 'af247d35d59ab77a',
    "3d/dask/(4, 5)/L3@2/int64-float64/nd=None/count/z=[4, 0]/c=['b', 'zz']": 'fd70c0ef2e9eb926',
    '3d/numpy/(4, 5)/L3@2/int64-float64/nd=2/count/z=None/c=None': 'bd96b9da80ac9a9c',
    '3d/numpy/(4, 5)/L3@2/int64-float64/nd=2/mean/z=None/c=None': 'b8ffbdfdaba55dd8',
    '3d/numpy/(4, 5)/L3@2/int64-float64/nd=2/max/z=None/c=None': '90373c544d29a17c',
    '3d/numpy/(4, 5)/L3@2/int64-float64/nd=2/min/z=None/c=None': 'dea9a50fb8e6417f',
    '3d/numpy/(4, 5)/L3@2/int64-float64/nd=2/sum/z=None/c=None': 'b7f0c03ed0bb6dac',
    '3d/numpy/(4, 5)/L3@2/int64-float64/nd=2/std/z=None/c=None': 'f3940b16482f315d',
    '3d/numpy/(4, 5)/L3@2/int64-float64/nd=2/var/z=None/c=None': '7bccbb5b313b61f8',
    '3d/dask/(4, 5)/L3@2/int64-float64/nd=2/count/z=None/c=None': '14ca674ca8621b2c',
    "3d/numpy/(4, 5)/L3@2/int64-float64/nd=2/count/z=None/c=['c', 'a']": 'a6892fbbb7842e80',
    "3d/numpy/(4, 5)/L3@2/int64-float64/nd=2/mean/z=None/c=['c', 'a']": '7c924f27148b1f7c',
    "3d/numpy/(4, 5)/L3@2/int64-float64/nd=2/max/z=None/c=['c', 'a']": 'd948b4c24df98623',
    "3d/numpy/(4, 5)/L3@2/int64-float64/nd=2/min/z=None/c=['c', 'a']": '5123765bd6a6577d',
    "3d/numpy/(4, 5)/L3@2/int64-float64/nd=2/sum/z=None/c=['c', 'a']": 'cea8691b497fb182',
    "3d/numpy/(4, 5)/L3@2/int64-float64/nd=2/std/z=None/c=['c', 'a']": 'b22b36094130c92f',
    "3d/numpy/(4, 5)/L3@2/int64-float64/nd=2/var/z=None/c=['c', 'a']": '2a10bf6c942793ec',
    "3d/dask/(4, 5)/L3@2/int64-float64/nd=2/count/z=None/c=['c', 'a']": '648f97176ab785f4',
    "3d/numpy/(4, 5)/L3@2/int64-float64/nd=2/count/z=None/c=['b', 'zz']": '23cbe882ee87eb9a',
    "3d/numpy/(4, 5)/L3@2/int64-float64/nd=2/mean/z=None/c=['b', 'zz']": '1d20ef379fce920f',
    "3d/numpy/(4, 5)/L3@2/int64-float64/nd=2/max/z=None/c=['b', 'zz']": 'cf2558811261c0a2',
    "3d/numpy/(4, 5)/L3@2/int64-float64/nd=2/min/z=None/c=['b', 'zz']": 'c073f72fe495a595',
    "3d/numpy/(4, 5)/L3@2/int64-float64/nd=2/sum/z=None/c=['b', 'zz']": '843a52a8c3f9edd6',
    "3d/numpy/(4, 5)/L3@2/int64-float64/nd=2/std/z=None/c=['b', 'zz']": '015a8ca952ce8ca2',
    "3d/numpy/(4, 5)/L3@2/int64-float64/nd=2/var/z=None/c=['b', 'zz']": '1cb00e93b70dfafe',
    "3d/dask/(4, 5)/L3@2/int64-float64/nd=2/count/z=None/c=['b', 'zz']": 'faabd9eaf603d749',
    '3d/numpy/(4, 5)/L3@2/int64-float64/nd=2/count/z=[4, 0]/c=None': '8281ef39196dae60',
    '3d/numpy/(4, 5)/L3@2/int64-float64/nd=2/mean/z=[4, 0]/c=None': '4bb2351b981492a7',
    '3d/numpy/(4, 5)/L3@2/int64-float64/nd=2/max/z=[4, 0]/c=None': 'ca32556a87f1fe30',
    '3d/numpy/(4, 5)/L3@2/int64-float64/nd=2/min/z=[4, 0]/c=None': 'c0e21a71bb1ce02a',
    '3d/numpy/(4, 5)/L3@2/int64-float64/nd=2/sum/z=[4, 0]/c=None': '0aa002450eed1f29',
    '3d/numpy/(4, 5)/L3@2/int64-float64/nd=2/std/z=[4, 0]/c=None': '647b34edcd343510',
    '3d/numpy/(4, 5)/L3@2/int64-float64/nd=2/var/z=[4, 0]/c=None': '42c6a87c2b040f01',
    '3d/dask/(4, 5)/L3@2/int64-float64/nd=2/count/z=[4, 0]/c=None': '29696c1dfad9bffb',
    "3d/numpy/(4, 5)/L3@2/int64-float64/nd=2/count/z=[4, 0]/c=['c', 'a']": '562bcb5837d9304e',
    "3d/numpy/(4, 5)/L3@2/int64-float64/nd=2/mean/z=[4, 0]/c=['c', 'a']": '2546929cd57f1870',
    "3d/numpy/(4, 5)/L3@2/int64-float64/nd=2/max/z=[4, 0]/c=['c', 'a']": 'a9ded0e8bc9c4057',
    "3d/numpy/(4, 5)/L3@2/int64-float64/nd=2/min/z=[4, 0]/c=['c', 'a']": '77fa090181d27ae7',
    "3d/numpy/(4, 5)/L3@2/int64-float64/nd=2/sum/z=[4, 0]/c=['c', 'a']": '281a3eba552a6a6e',
    "3d/numpy/(4, 5)/L3@2/int64-float64/nd=2/std/z=[4, 0]/c=['c', 'a']": '110cd722a87e0a7e',
    "3d/numpy/(4, 5)/L3@2/int64-float64/nd=2/var/z=[4, 0]/c=['c', 'a']": 'eb58a02cf28b6ed3',
    "3d/dask/(4, 5)/L3@2/int64-float64/nd=2/count/z=[4, 0]/c=['c', 'a']": 'cc45c42e5d104c97',
    "3d/numpy/(4, 5)/L3@2/int64-float64/nd=2/count/z=[4, 0]/c=['b', 'zz']": '3c31f0fc5d821768',
    "3d/numpy/(4, 5)/L3@2/int64-float64/nd=2/mean/z=[4, 0]/c=['b', 'zz']": '539593517bc71397',
    "3d/numpy/(4, 5)/L3@2/int64-float64/nd=2/max/z=[4, 0]/c=['b', 'zz']": '5174573695a0d4a7',
    "3d/numpy/(4, 5)/L3@2/int64-float64/nd=2/min/z=[4, 0]/c=['b', 'zz']": '16708f3a54bd9e20',
    "3d/numpy/(4, 5)/L3@2/int64-float64/nd=2/sum/z=[4, 0]/c=['b', 'zz']": 'ac94b6b3541478db',
    "3d/numpy/(4, 5)/L3@2/int64-float64/nd=2/std/z=[4, 0]/c=['b', 'zz']": 'e562097a5674234b',
    "3d/numpy/(4, 5)/L3@2/int64-float64/nd=2/var/z=[4, 0]/c=['b', 'zz']": 'af247d35d59ab77a',
    "3d/dask/(4, 5)/L3@2/int64-float64/nd=2/count/z=[4, 0]/c=['b', 'zz']": 'fd70c0ef2e9eb926',
    '3d/numpy/(3, 7)/L4@0/float64-int32/nd=None/count/z=None/c=None': '23286a8d907f9465',
    '3d/numpy/(3, 7)/L4@0/float64-int32/nd=None/mean/z=None/c=None': 'd1636ba2309859cc',
    '3d/numpy/(3, 7)/L4@0/float64-int32/nd=None/max/z=None/c=None': 'fd532c8fffee66d3',
    '3d/numpy/(3, 7)/L4@0/float64-int32/nd=None/min/z=None/c=None': 'db85a07c0f6c8f60',
    '3d/numpy/(3, 7)/L4@0/float64-int32/nd=None/sum/z=None/c=None': 'fcaf09d04770c71d',
    '3d/numpy/(3, 7)/L4@0/float64-int32/nd=None/std/z=None/c=None': '3ce5c6c5b46471ef',
    '3d/numpy/(3, 7)/L4@0/float64-int32/nd=None/var/z=None/c=None': 'acef56ea66f3465d',
    '3d/dask/(3, 7)/L4@0/float64-int32/nd=None/count/z=None/c=None': '2c9e618bb21bf44c',
    '3d/numpy/(3, 7)/L4@0/float64-int32/nd=None/count/z=None/c=[40, 10, 99]': '09e37838f57ff33b',
    '3d/numpy/(3, 7)/L4@0/float64-int32/nd=None/mean/z=None/c=[40, 10, 99]': '9403b41e48f87945',
    '3d/numpy/(3, 7)/L4@0/float64-int32/nd=None/max/z=None/c=[40, 10, 99]': '87020ca5d09b604b',
    '3d/numpy/(3, 7)/L4@0/float64-int32/nd=None/min/z=None/c=[40, 10, 99]': 'cfc8b2171b87d407',
    '3d/numpy/(3, 7)/L4@0/float64-int32/nd=None/sum/z=None/c=[40, 10, 99]': 'c6ad966990e33cce',
    '3d/numpy/(3, 7)/L4@0/float64-int32/nd=None/std/z=None/c=[40, 10, 99]': 'ed6f2ef25ff395be',
    '3d/numpy/(3, 7)/L4@0/float64-int32/nd=None/var/z=None/c=[40, 10, 99]': '60c48a870b3f825e',
    '3d/dask/(3, 7)/L4@0/float64-int32/nd=None/count/z=None/c=[40, 10, 99]': 'c48b847c0fdad281',
    '3d/numpy/(3, 7)/L4@0/float64-int32/nd=None/count/z=None/c=[20]': '0fca478d5de6f9a0',
    '3d/numpy/(3, 7)/L4@0/float64-int32/nd=None/mean/z=None/c=[20]': '9775cff044154ccf',
    '3d/numpy/(3, 7)/L4@0/float64-int32/nd=None/max/z=None/c=[20]': '3b90ceb18dc5708c',
    '3d/numpy/(3, 7)/L4@0/float64-int32/nd=None/min/z=None/c=[20]': 'a717723a7bcacb3f',
    '3d/numpy/(3, 7)/L4@0/float64-int32/nd=None/sum/z=None/c=[20]': 'c8163d961efe4cc6',
    '3d/numpy/(3, 7)/L4@0/float64-int32/nd=None/std/z=None/c=[20]': '1d66ba830043cbee',
    '3d/numpy/(3, 7)/L4@0/float64-int32/nd=None/var/z=None/c=[20]': '2ae22b014888e3a4',
    '3d/dask/(3, 7)/L4@0/float64-int32/nd=None/count/z=None/c=[20]': '2c0cfaa2083804b9',
    '3d/numpy/(3, 7)/L4@0/float64-int32/nd=None/count/z=[10, -3, 99, 1]/c=None': 'd6715bb709024aa4',
    '3d/numpy/(3, 7)/L4@0/float64-int32/nd=None/mean/z=[10, -3, 99, 1]/c=None': 'b20567ec15109f39',
    '3d/numpy/(3, 7)/L4@0/float64-int32/nd=None/max/z=[10, -3, 99, 1]/c=None': '2536b7ba24d9f31c',
    '3d/numpy/(3, 7)/L4@0/float64-int32/nd=None/min/z=[10, -3, 99, 1]/c=None': '1c4cc3a94afd38b4',
    '3d/numpy/(3, 7)/L4@0/float64-int32/nd=None/sum/z=[10, -3, 99, 1]/c=None': '5bb72f4eb30868f8',
    '3d/numpy/(3, 7)/L4@0/float64-int32/nd=None/std/z=[10, -3, 99, 1]/c=None': 'f6067dd2ecb57ccd',
    '3d/numpy/(3, 7)/L4@0/float64-int32/nd=None/var/z=[10, -3, 99, 1]/c=None': 'f60dc21e546b7a93',
    '3d/dask/(3, 7)/L4@0/float64-int32/nd=None/count/z=[10, -3, 99, 1]/c=None': '6f98a0b89bdc15b1',
    '3d/numpy/(3, 7)/L4@0/float64-int32/nd=None/count/z=[10, -3, 99, 1]/c=[40, 10, 99]': '2d2358e21a0dafba',
    '3d/numpy/(3, 7)/L4@0/float64-int32/nd=None/mean/z=[10, -3, 99, 1]/c=[40, 10, 99]': 'a19341b89f5f355f',
    '3d/numpy/(3, 7)/L4@0/float64-int32/nd=None/max/z=[10, -3, 99, 1]/c=[40, 10, 99]': 'a1b7d4117bd55359',
    '3d/numpy/(3, 7)/L4@0/float64-int32/nd=None/min/z=[10, -3, 99, 1]/c=[40, 10, 99]': '127bd6b623f28d33',
    '3d/numpy/(3, 7)/L4@0/float64-int32/nd=None/sum/z=[10, -3, 99, 1]/c=[40, 10, 99]': 'b23e20202900f03f',
    '3d/numpy/(3, 7)/L4@0/float64-int32/nd=None/std/z=[10, -3, 99, 1]/c=[40, 10, 99]': '891c356531962391',
    '3d/numpy/(3, 7)/L4@0/float64-int32/nd=None/var/z=[10, -3, 99, 1]/c=[40, 10, 99]': 'e090de20bc60e2e8',
    '3d/dask/(3, 7)/L4@0/float64-int32/nd=None/count/z=[10, -3, 99, 1]/c=[40, 10, 99]': 'c0c5282d55ee695d',
    '3d/numpy/(3, 7)/L4@0/float64-int32/nd=None/count/z=[10, -3, 99, 1]/c=[20]': '9e87312575a0e93d',
    '3d/numpy/(3, 7)/L4@0/float64-int32/nd=None/mean/z=[10, -3, 99, 1]/c=[20]': 'b1bcfdad38690186',
    '3d/numpy/(3, 7)/L4@0/float64-int32/nd=None/max/z=[10, -3, 99, 1]/c=[20]': 'eaf05a0878f1cbbb',
    '3d/numpy/(3, 7)/L4@0/float64-int32/nd=None/min/z=[10, -3, 99, 1]/c=[20]': 'f3e479102d24929b',
    '3d/numpy/(3, 7)/L4@0/float64-int32/nd=None/sum/z=[10, -3, 99, 1]/c=[20]': '321e73f1845c373f',
    '3d/numpy/(3, 7)/L4@0/float64-int32/nd=None/std/z=[10, -3, 99, 1]/c=[20]': '2de73454a8db5330',
    '3d/numpy/(3, 7)/L4@0/float64-int32/nd=None/var/z=[10, -3, 99, 1]/c=[20]': 'b80899fd8e433821',
    '3d/dask/(3, 7)/L4@0/float64-int32/nd=None/count/z=[10, -3, 99, 1]/c=[20]': '8b74feb341bdb41d',
    '3d/numpy/(3, 7)/L4@0/float64-int32/nd=2/count/z=None/c=None': '77722f7ce48c59d9',
    '3d/numpy/(3, 7)/L4@0/float64-int32/nd=2/mean/z=None/c=None': 'ef56fcf63c666945',
    '3d/numpy/(3, 7)/L4@0/float64-int32/nd=2/max/z=None/c=None': 'e6db08abb7f6ce2d',
    '3d/numpy/(3, 7)/L4@0/float64-int32/nd=2/min/z=None/c=None': '33398f597511749d',
    '3d/numpy/(3, 7)/L4@0/float64-int32/nd=2/sum/z=None/c=None': 'b108c35e16baaf00',
    '3d/numpy/(3, 7)/L4@0/float64-int32/nd=2/std/z=None/c=None': 'a7b25aa5e47badea',
    '3d/numpy/(3, 7)/L4@0/float64-int32/nd=2/var/z=None/c=None': '0609eaba43fad68d',
    '3d/dask/(3, 7)/L4@0/float64-int32/nd=2/count/z=None/c=None': '5bbced457c434a20',
    '3d/numpy/(3, 7)/L4@0/float64-int32/nd=2/count/z=None/c=[40, 10, 99]': '8e31cef332d333ce',
    '3d/numpy/(3, 7)/L4@0/float64-int32/nd=2/mean/z=None/c=[40, 10, 99]': '03e131d6cd757e87',
    '3d/numpy/(3, 7)/L4@0/float64-int32/nd=2/max/z=None/c=[40, 10, 99]': '87020ca5d09b604b',
    '3d/numpy/(3, 7)/L4@0/float64-int32/nd=2/min/z=None/c=[40, 10, 99]': '7eff5430da65fa91',
    '3d/numpy/(3, 7)/L4@0/float64-int32/nd=2/sum/z=None/c=[40, 10, 99]': 'f7eed044749038c7',
    '3d/numpy/(3, 7)/L4@0/float64-int32/nd=2/std/z=None/c=[40, 10, 99]': 'e80a855f65085e63',
    '3d/numpy/(3, 7)/L4@0/float64-int32/nd=2/var/z=None/c=[40, 10, 99]': '9eafe9ce71660185',
    '3d/dask/(3, 7)/L4@0/float64-int32/nd=2/count/z=None/c=[40, 10, 99]': '59e678d5eb36ea82',
    '3d/numpy/(3, 7)/L4@0/float64-int32/nd=2/count/z=None/c=[20]': '1222189bbb391939',
    '3d/numpy/(3, 7)/L4@0/float64-int32/nd=2/mean/z=None/c=[20]': '53f47c22db7f9a51',
    '3d/numpy/(3, 7)/L4@0/float64-int32/nd=2/max/z=None/c=[20]': '3b90ceb18dc5708c',
    '3d/numpy/(3, 7)/L4@0/float64-int32/nd=2/min/z=None/c=[20]': 'a717723a7bcacb3f',
    '3d/numpy/(3, 7)/L4@0/float64-int32/nd=2/sum/z=None/c=[20]': '3e081043055d3fd1',
    '3d/numpy/(3, 7)/L4@0/float64-int32/nd=2/std/z=None/c=[20]': '344ef889c0394d4e',
    '3d/numpy/(3, 7)/L4@0/float64-int32/nd=2/var/z=None/c=[20]': '72e20436033b3a12',
    '3d/dask/(3, 7)/L4@0/float64-int32/nd=2/count/z=None/c=[20]': 'c1c96f37bcb83187',
    '3d/numpy/(3, 7)/L4@0/float64-int32/nd=2/count/z=[10, -3, 99, 1]/c=None': 'dc4d5ec34385adfa',
    '3d/numpy/(3, 7)/L4@0/float64-int32/nd=2/mean/z=[10, -3, 99, 1]/c=None': 'b41a3179752675ba',
    '3d/numpy/(3, 7)/L4@0/float64-int32/nd=2/max/z=[10, -3, 99, 1]/c=None': 'ae3ad1af7ae3ab85',
    '3d/numpy/(3, 7)/L4@0/float64-int32/nd=2/min/z=[10, -3, 99, 1]/c=None': '1c4cc3a94afd38b4',
    '3d/numpy/(3, 7)/L4@0/float64-int32/nd=2/sum/z=[10, -3, 99, 1]/c=None': '9d5f8a66765a40db',
    '3d/numpy/(3, 7)/L4@0/float64-int32/nd=2/std/z=[10, -3, 99, 1]/c=None': 'f18034fcabf004c6',
    '3d/numpy/(3, 7)/L4@0/float64-int32/nd=2/var/z=[10, -3, 99, 1]/c=None': 'cf4bafe2147239fa',
    '3d/dask/(3, 7)/L4@0/float64-int32/nd=2/count/z=[10, -3, 99, 1]/c=None': '5f7fbf02af0f88be',
    '3d/numpy/(3, 7)/L4@0/float64-int32/nd=2/count/z=[10, -3, 99, 1]/c=[40, 10, 99]': '75dac74b58329419',
    '3d/numpy/(3, 7)/L4@0/float64-int32/nd=2/mean/z=[10, -3, 99, 1]/c=[40, 10, 99]': 'cf114716b05b0c8d',
    '3d/numpy/(3, 7)/L4@0/float64-int32/nd=2/max/z=[10, -3, 99, 1]/c=[40, 10, 99]': 'a1b7d4117bd55359',
    '3d/numpy/(3, 7)/L4@0/float64-int32/nd=2/min/z=[10, -3, 99, 1]/c=[40, 10, 99]': '127bd6b623f28d33',
    '3d/numpy/(3, 7)/L4@0/float64-int32/nd=2/sum/z=[10, -3, 99, 1]/c=[40, 10, 99]': '625a630c27edb67f',
    '3d/numpy/(3, 7)/L4@0/float64-int32/nd=2/std/z=[10, -3, 99, 1]/c=[40, 10, 99]': '0c4a6644e6fc5fe2',
    '3d/numpy/(3, 7)/L4@0/float64-int32/nd=2/var/z=[10, -3, 99, 1]/c=[40, 10, 99]': 'cec70f497d05cbac',
    '3d/dask/(3, 7)/L4@0/float64-int32/nd=2/count/z=[10, -3, 99, 1]/c=[40, 10, 99]': '169426ac7f7cee0c',
    '3d/numpy/(3, 7)/L4@0/float64-int32/nd=2/count/z=[10, -3, 99, 1]/c=[20]': '9e87312575a0e93d',
    '3d/numpy/(3, 7)/L4@0/float64-int32/nd=2/mean/z=[10, -3, 99, 1]/c=[20]': 'b1bcfdad38690186',
    '3d/numpy/(3, 7)/L4@0/float64-int32/nd=2/max/z=[10, -3, 99, 1]/c=[20]': 'eaf05a0878f1cbbb',
    '3d/numpy/(3, 7)/L4@0/float64-int32/nd=2/min/z=[10, -3, 99, 1]/c=[20]': 'f3e479102d24929b',
    '3d/numpy/(3, 7)/L4@0/float64-int32/nd=2/sum/z=[10, -3, 99, 1]/c=[20]': '321e73f1845c373f',
    '3d/numpy/(3, 7)/L4@0/float64-int32/nd=2/std/z=[10, -3, 99, 1]/c=[20]': '2de73454a8db5330',
    '3d/numpy/(3, 7)/L4@0/float64-int32/nd=2/var/z=[10, -3, 99, 1]/c=[20]': 'b80899fd8e433821',
    '3d/dask/(3, 7)/L4@0/float64-int32/nd=2/count/z=[10, -3, 99, 1]/c=[20]': '8b74feb341bdb41d',
    '3d/numpy/(3, 7)/L4@2/float64-int32/nd=None/count/z=None/c=None': '23286a8d907f9465',
    '3d/numpy/(3, 7)/L4@2/float64-int32/nd=None/mean/z=None/c=None': 'd1636ba2309859cc',
    '3d/numpy/(3, 7)/L4@2/float64-int32/nd=None/max/z=None/c=None': 'fd532c8fffee66d3',
    '3d/numpy/(3, 7)/L4@2/float64-int32/nd=None/min/z=None/c=None': 'db85a07c0f6c8f60',
    '3d/numpy/(3, 7)/L4@2/float64-int32/nd=None/sum/z=None/c=None': 'fcaf09d04770c71d',
    '3d/numpy/(3, 7)/L4@2/float64-int32/nd=None/std/z=None/c=None': '3ce5c6c5b46471ef',
    '3d/numpy/(3, 7)/L4@2/float64-int32/nd=None/var/z=None/c=None': 'acef56ea66f3465d',
    '3d/dask/(3, 7)/L4@2/float64-int32/nd=None/count/z=None/c=None': '2c9e618bb21bf44c',
    '3d/numpy/(3, 7)/L4@2/float64-int32/nd=None/count/z=None/c=[40, 10, 99]': '09e37838f57ff33b',
    '3d/numpy/(3, 7)/L4@2/float64-int32/nd=None/mean/z=None/c=[40, 10, 99]': '9403b41e48f87945',
    '3d/numpy/(3, 7)/L4@2/float64-int32/nd=None/max/z=None/c=[40, 10, 99]': '87020ca5d09b604b',
    '3d/numpy/(3, 7)/L4@2/float64-int32/nd=None/min/z=None/c=[40, 10, 99]': 'cfc8b2171b87d407',
    '3d/numpy/(3, 7)/L4@2/float64-int32/nd=None/sum/z=None/c=[40, 10, 99]': 'c6ad966990e33cce',
    '3d/numpy/(3, 7)/L4@2/float64-int32/nd=None/std/z=None/c=[40, 10, 99]': 'ed6f2ef25ff395be',
    '3d/numpy/(3, 7)/L4@2/float64-int32/nd=None/var/z=None/c=[40, 10, 99]': '60c48a870b3f825e',
    '3d/dask/(3, 7)/L4@2/float64-int32/nd=None/count/z=None/c=[40, 10, 99]': 'c48b847c0fdad281',
    '3d/numpy/(3, 7)/L4@2/float64-int32/nd=None/count/z=None/c=[20]': '0fca478d5de6f9a0',
    '3d/numpy/(3, 7)/L4@2/float64-int32/nd=None/mean/z=None/c=[20]': '9775cff044154ccf',
    '3d/numpy/(3, 7)/L4@2/float64-int32/nd=None/max/z=None/c=[20]': '3b90ceb18dc5708c',
    '3d/numpy/(3, 7)/L4@2/float64-int32/nd=None/min/z=None/c=[20]': 'a717723a7bcacb3f',
    '3d/numpy/(3, 7)/L4@2/float64-int32/nd=None/sum/z=None/c=[20]': 'c8163d961efe4cc6',
    '3d/numpy/(3, 7)/L4@2/float64-int32/nd=None/std/z=None/c=[20]': '1d66ba830043cbee',
    '3d/numpy/(3, 7)/L4@2/float64-int32/nd=None/var/z=None/c=[20]': '2ae22b014888e3a4',
    '3d/dask/(3, 7)/L4@2/float64-int32/nd=None/count/z=None/c=[20]': '2c0cfaa2083804b9',
    '3d/numpy/(3, 7)/L4@2/float64-int32/nd=None/count/z=[10, -3, 99, 1]/c=None': 'd6715bb709024aa4',
    '3d/numpy/(3, 7)/L4@2/float64-int32/nd=None/mean/z=[10, -3, 99, 1]/c=None': 'b20567ec15109f39',
    '3d/numpy/(3, 7)/L4@2/float64-int32/nd=None/max/z=[10, -3, 99, 1]/c=None': '2536b7ba24d9f31c',
    '3d/numpy/(3, 7)/L4@2/float64-int32/nd=None/min/z=[10, -3, 99, 1]/c=None': '1c4cc3a94afd38b4',
    '3d/numpy/(3, 7)/L4@2/float64-int32/nd=None/sum/z=[10, -3, 99, 1]/c=None': '5bb72f4eb30868f8',
    '3d/numpy/(3, 7)/L4@2/float64-int32/nd=None/std/z=[10, -3, 99, 1]/c=None': 'f6067dd2ecb57ccd',
    '3d/numpy/(3, 7)/L4@2/float64-int32/nd=None/var/z=[10, -3, 99, 1]/c=None': 'f60dc21e546b7a93',
    '3d/dask/(3, 7)/L4@2/float64-int32/nd=None/count/z=[10, -3, 99, 1]/c=None': '6f98a0b89bdc15b1',
    '3d/numpy/(3, 7)/L4@2/float64-int32/nd=None/count/z=[10, -3, 99, 1]/c=[40, 10, 99]': '2d2358e21a0dafba',
    '3d/numpy/(3, 7)/L4@2/float64-int32/nd=None/mean/z=[10, -3, 99, 1]/c=[40, 10, 99]': 'a19341b89f5f355f',
    '3d/numpy/(3, 7)/L4@2/float64-int32/nd=None/max/z=[10, -3, 99, 1]/c=[40, 10, 99]': 'a1b7d4117bd55359',
    '3d/numpy/(3, 7)/L4@2/float64-int32/nd=None/min/z=[10, -3, 99, 1]/c=[40, 10, 99]': '127bd6b623f28d33',
    '3d/numpy/(3, 7)/L4@2/float64-int32/nd=None/sum/z=[10, -3, 99, 1]/c=[40, 10, 99]': 'b23e20202900f03f',
    '3d/numpy/(3, 7)/L4@2/float64-int32/nd=None/std/z=[10, -3, 99, 1]/c=[40, 10, 99]': '891c356531962391',
    '3d/numpy/(3, 7)/L4@2/float64-int32/nd=None/var/z=[10, -3, 99, 1]/c=[40, 10, 99]': 'e090de20bc60e2e8',
    '3d/dask/(3, 7)/L4@2/float64-int32/nd=None/count/z=[10, -3, 99, 1]/c=[40, 10, 99]': 'c0c5282d55ee695d',
    '3d/numpy/(3, 7)/L4@2/float64-int32/nd=None/count/z=[10, -3, 99, 1]/c=[20]': '9e87312575a0e93d',
    '3d/numpy/(3, 7)/L4@2/float64-int32/nd=None/mean/z=[10, -3, 99, 1]/c=[20]': 'b1bcfdad38690186',
    '3d/numpy/(3, 7)/L4@2/float64-int32/nd=None/max/z=[10, -3, 99, 1]/c=[20]': 'eaf05a0878f1cbbb',
    '3d/numpy/(3, 7)/L4@2/float64-int32/nd=None/min/z=[10, -3, 99, 1]/c=[20]': 'f3e479102d24929b',
    '3d/numpy/(3, 7)/L4@2/float64-int32/nd=None/sum/z=[10, -3, 99, 1]/c=[20]': '321e73f1845c373f',
    '3d/numpy/(3, 7)/L4@2/float64-int32/nd=None/std/z=[10, -3, 99, 1]/c=[20]': '2de73454a8db5330',
    '3d/numpy/(3, 7)/L4@2/float64-int32/nd=None/var/z=[10, -3, 99, 1]/c=[20]': 'b80899fd8e433821',
    '3d/dask/(3, 7)/L4@2/float64-int32/nd=None/count/z=[10, -3, 99, 1]/c=[20]': '8b74feb341bdb41d',
    '3d/numpy/(3, 7)/L4@2/float64-int32/nd=2/count/z=None/c=None': '77722f7ce48c59d9',
    '3d/numpy/(3, 7)/L4@2/float64-int32/nd=2/mean/z=None/c=None': 'ef56fcf63c666945',
    '3d/numpy/(3, 7)/L4@2/float64-int32/nd=2/max/z=None/c=None': 'e6db08abb7f6ce2d',
    '3d/numpy/(3, 7)/L4@2/float64-int32/nd=2/min/z=None/c=None': '33398f597511749d',
    '3d/numpy/(3, 7)/L4@2/float64-int32/nd=2/sum/z=None/c=None': 'b108c35e16baaf00',
    '3d/numpy/(3, 7)/L4@2/float64-int32/nd=2/std/z=None/c=None': 'a7b25aa5e47badea',
    '3d/numpy/(3, 7)/L4@2/float64-int32/nd=2/var/z=None/c=None': '0609eaba43fad68d',
    '3d/dask/(3, 7)/L4@2/float64-int32/nd=2/count/z=None/c=None': '5bbced457c434a20',
    '3d/numpy/(3, 7)/L4@2/float64-int32/nd=2/count/z=None/c=[40, 10, 99]': '8e31cef332d333ce',
    '3d/numpy/(3, 7)/L4@2/float64-int32/nd=2/mean/z=None/c=[40, 10, 99]': '03e131d6cd757e87',
    '3d/numpy/(3, 7)/L4@2/float64-int32/nd=2/max/z=None/c=[40, 10, 99]': '87020ca5d09b604b',
    '3d/numpy/(3, 7)/L4@2/float64-int32/nd=2/min/z=None/c=[40, 10, 99]': '7eff5430da65fa91',
    '3d/numpy/(3, 7)/L4@2/float64-int32/nd=2/sum/z=None/c=[40, 10, 99]': 'f7eed044749038c7',
    '3d/numpy/(3, 7)/L4@2/float64-int32/nd=2/std/z=None/c=[40, 10, 99]': 'e80a855f65085e63',
    '3d/numpy/(3, 7)/L4@2/float64-int32/nd=2/var/z=None/c=[40, 10, 99]': '9eafe9ce71660185',
    '3d/dask/(3, 7)/L4@2/float64-int32/nd=2/count/z=None/c=[40, 10, 99]': '59e678d5eb36ea82',
    '3d/numpy/(3, 7)/L4@2/float64-int32/nd=2/count/z=None/c=[20]': '1222189bbb391939',
    '3d/numpy/(3, 7)/L4@2/float64-int32/nd=2/mean/z=None/c=[20]': '53f47c22db7f9a51',
    '3d/numpy/(3, 7)/L4@2/float64-int32/nd=2/max/z=None/c=[20]': '3b90ceb18dc5708c',
    '3d/numpy/(3, 7)/L4@2/float64-int32/nd=2/min/z=None/c=[20]': 'a717723a7bcacb3f',
    '3d/numpy/(3, 7)/L4@2/float64-int32/nd=2/sum/z=None/c=[20]': '3e081043055d3fd1',
    '3d/numpy/(3, 7)/L4@2/float64-int32/nd=2/std/z=None/c=[20]': '344ef889c0394d4e',
    '3d/numpy/(3, 7)/L4@2/float64-int32/nd=2/var/z=None/c=[20]': '72e20436033b3a12',
    '3d/dask/(3, 7)/L4@2/float64-int32/nd=2/count/z=None/c=[20]': 'c1c96f37bcb83187',
    '3d/numpy/(3, 7)/L4@2/float64-int32/nd=2/count/z=[10, -3, 99, 1]/c=None': 'dc4d5ec34385adfa',
    '3d/numpy/(3, 7)/L4@2/float64-int32/nd=2/mean/z=[10, -3, 99, 1]/c=None': 'b41a3179752675ba',
    '3d/numpy/(3, 7)/L4@2/float64-int32/nd=2/max/z=[10, -3, 99, 1]/c=None': 'ae3ad1af7ae3ab85',
    '3d/numpy/(3, 7)/L4@2/float64-int32/nd=2/min/z=[10, -3, 99, 1]/c=None': '1c4cc3a94afd38b4',
    '3d/numpy/(3, 7)/L4@2/float64-int32/nd=2/sum/z=[10, -3, 99, 1]/c=None': '9d5f8a66765a40db',
    '3d/numpy/(3, 7)/L4@2/float64-int32/nd=2/std/z=[10, -3, 99, 1]/c=None': 'f18034fcabf004c6',
    '3d/numpy/(3, 7)/L4@2/float64-int32/nd=2/var/z=[10, -3, 99, 1]/c=None': 'cf4bafe2147239fa',
    '3d/dask/(3, 7)/L4@2/float64-int32/nd=2/count/z=[10, -3, 99, 1]/c=None': '5f7fbf02af0f88be',
    '3d/numpy/(3, 7)/L4@2/float64-int32/nd=2/count/z=[10, -3, 99, 1]/c=[40, 10, 99]': '75dac74b58329419',
    '3d/numpy/(3, 7)/L4@2/float64-int32/nd=2/mean/z=[10, -3, 99, 1]/c=[40, 10, 99]': 'cf114716b05b0c8d',
    '3d/numpy/(3, 7)/L4@2/float64-int32/nd=2/max/z=[10, -3, 99, 1]/c=[40, 10, 99]': 'a1b7d4117bd55359',
    '3d/numpy/(3, 7)/L4@2/float64-int32/nd=2/min/z=[10, -3, 99, 1]/c=[40, 10, 99]': '127bd6b623f28d33',
    '3d/numpy/(3, 7)/L4@2/float64-int32/nd=2/sum/z=[10, -3, 99, 1]/c=[40, 10, 99]': '625a630c27edb67f',
    '3d/numpy/(3, 7)/L4@2/float64-int32/nd=2/std/z=[10, -3, 99, 1]/c=[40, 10, 99]': '0c4a6644e6fc5fe2',
    '3d/numpy/(3, 7)/L4@2/float64-int32/nd=2/var/z=[10, -3, 99, 1]/c=[40, 10, 99]': 'cec70f497d05cbac',
    '3d/dask/(3, 7)/L4@2/float64-int32/nd=2/count/z=[10, -3, 99, 1]/c=[40, 10, 99]': '169426ac7f7cee0c',
    '3d/numpy/(3, 7)/L4@2/float64-int32/nd=2/count/z=[10, -3, 99, 1]/c=[20]': '9e87312575a0e93d',
    '3d/numpy/(3, 7)/L4@2/float64-int32/nd=2/mean/z=[10, -3, 99, 1]/c=[20]': 'b1bcfdad38690186',
    '3d/numpy/(3, 7)/L4@2/float64-int32/nd=2/max/z=[10, -3, 99, 1]/c=[20]': 'eaf05a0878f1cbbb',
    '3d/numpy/(3, 7)/L4@2/float64-int32/nd=2/min/z=[10, -3, 99, 1]/c=[20]': 'f3e479102d24929b',
    '3d/numpy/(3, 7)/L4@2/float64-int32/nd=2/sum/z=[10, -3, 99, 1]/c=[20]': '321e73f1845c373f',
    '3d/numpy/(3, 7)/L4@2/float64-int32/nd=2/std/z=[10, -3, 99, 1]/c=[20]': '2de73454a8db5330',
    '3d/numpy/(3, 7)/L4@2/float64-int32/nd=2/var/z=[10, -3, 99, 1]/c=[20]': 'b80899fd8e433821',
    '3d/dask/(3, 7)/L4@2/float64-int32/nd=2/count/z=[10, -3, 99, 1]/c=[20]': '8b74feb341bdb41d',
    '3d/numpy/(6, 2)/L3@0/float32-float32/nd=None/count/z=None/c=None': 'b5550023a8fd71a5',
    '3d/numpy/(6, 2)/L3@0/float32-float32/nd=None/mean/z=None/c=None': '663657d177f7a06b',
    '3d/numpy/(6, 2)/L3@0/float32-float32/nd=None/max/z=None/c=None': 'e35a03617b4ed342',
    '3d/numpy/(6, 2)/L3@0/float32-float32/nd=None/min/z=None/c=None': '135e9f174410b9b2',
    '3d/numpy/(6, 2)/L3@0/float32-float32/nd=None/sum/z=None/c=None': '81466c4358ad6614',
    '3d/numpy/(6, 2)/L3@0/float32-float32/nd=None/std/z=None/c=None': 'df90a132bcb5dda4',
    '3d/numpy/(6, 2)/L3@0/float32-float32/nd=None/var/z=None/c=None': '825a23c1a7ff861c',
    '3d/dask/(6, 2)/L3@0/float32-float32/nd=None/count/z=None/c=None': '88571a52acc68f5d',
    "3d/numpy/(6, 2)/L3@0/float32-float32/nd=None/count/z=None/c=['c', 'a']": '43b8ae4e1ba71d04',
    "3d/numpy/(6, 2)/L3@0/float32-float32/nd=None/mean/z=None/c=['c', 'a']": '43b85008755f8e77',
    "3d/numpy/(6, 2)/L3@0/float32-float32/nd=None/max/z=None/c=['c', 'a']": 'e35a03617b4ed342',
    "3d/numpy/(6, 2)/L3@0/float32-float32/nd=None/min/z=None/c=['c', 'a']": '135e9f174410b9b2',
    "3d/numpy/(6, 2)/L3@0/float32-float32/nd=None/sum/z=None/c=['c', 'a']": '56afa52560b56049',
    "3d/numpy/(6, 2)/L3@0/float32-float32/nd=None/std/z=None/c=['c', 'a']": '5ba8350050a2d029',
    "3d/numpy/(6, 2)/L3@0/float32-float32/nd=None/var/z=None/c=['c', 'a']": '75a5c9c5f911bf27',
    "3d/dask/(6, 2)/L3@0/float32-float32/nd=None/count/z=None/c=['c', 'a']": 'c794c1c30f735c1c',
    "3d/numpy/(6, 2)/L3@0/float32-float32/nd=None/count/z=None/c=['b', 'zz']": 'd8c3c64fe8530a81',
    "3d/numpy/(6, 2)/L3@0/float32-float32/nd=None/mean/z=None/c=['b', 'zz']": 'baa73fde32fe6f84',
    "3d/numpy/(6, 2)/L3@0/float32-float32/nd=None/max/z=None/c=['b', 'zz']": 'e35a03617b4ed342',
    "3d/numpy/(6, 2)/L3@0/float32-float32/nd=None/min/z=None/c=['b', 'zz']": '135e9f174410b9b2',
    "3d/numpy/(6, 2)/L3@0/float32-float32/nd=None/sum/z=None/c=['b', 'zz']": '67e2af5902b6d260',
    "3d/numpy/(6, 2)/L3@0/float32-float32/nd=None/std/z=None/c=['b', 'zz']": 'ecfda94652467787',
    "3d/numpy/(6, 2)/L3@0/float32-float32/nd=None/var/z=None/c=['b', 'zz']": '36abed0da07deb81',
    "3d/dask/(6, 2)/L3@0/float32-float32/nd=None/count/z=None/c=['b', 'zz']": 'f24aea6a3432d46c',
    '3d/numpy/(6, 2)/L3@0/float32-float32/nd=None/count/z=[7]/c=None': '6528871df549d648',
    '3d/numpy/(6, 2)/L3@0/float32-float32/nd=None/mean/z=[7]/c=None': '914605295fa374d1',
    '3d/numpy/(6, 2)/L3@0/float32-float32/nd=None/max/z=[7]/c=None': 'e35a03617b4ed342',
    '3d/numpy/(6, 2)/L3@0/float32-float32/nd=None/min/z=[7]/c=None': '135e9f174410b9b2',
    '3d/numpy/(6, 2)/L3@0/float32-float32/nd=None/sum/z=[7]/c=None': '88f1684bdeb54b37',
    '3d/numpy/(6, 2)/L3@0/float32-float32/nd=None/std/z=[7]/c=None': '9a1dca4f35b046b5',
    '3d/numpy/(6, 2)/L3@0/float32-float32/nd=None/var/z=[7]/c=None': '9a1dca4f35b046b5',
    '3d/dask/(6, 2)/L3@0/float32-float32/nd=None/count/z=[7]/c=None': '5b626af9a25da654',
    "3d/numpy/(6, 2)/L3@0/float32-float32/nd=None/count/z=[7]/c=['c', 'a']": '25a9cd0a029f4dae',
    "3d/numpy/(6, 2)/L3@0/float32-float32/nd=None/mean/z=[7]/c=['c', 'a']": 'e88777dc769b68a1',
    "3d/numpy/(6, 2)/L3@0/float32-float32/nd=None/max/z=[7]/c=['c', 'a']": 'e88777dc769b68a1',
    "3d/numpy/(6, 2)/L3@0/float32-float32/nd=None/min/z=[7]/c=['c', 'a']": 'e88777dc769b68a1',
    "3d/numpy/(6, 2)/L3@0/float32-float32/nd=None/sum/z=[7]/c=['c', 'a']": 'e88777dc769b68a1',
    "3d/numpy/(6, 2)/L3@0/float32-float32/nd=None/std/z=[7]/c=['c', 'a']": 'd834be14e5512644',
    "3d/numpy/(6, 2)/L3@0/float32-float32/nd=None/var/z=[7]/c=['c', 'a']": 'd834be14e5512644',
    "3d/dask/(6, 2)/L3@0/float32-float32/nd=None/count/z=[7]/c=['c', 'a']": '0c2103050e82c4a5',
    "3d/numpy/(6, 2)/L3@0/float32-float32/nd=None/count/z=[7]/c=['b', 'zz']": '5811168e3f92cd74',
    "3d/numpy/(6, 2)/L3@0/float32-float32/nd=None/mean/z=[7]/c=['b', 'zz']": 'f258d0f32001cf7b',
    "3d/numpy/(6, 2)/L3@0/float32-float32/nd=None/max/z=[7]/c=['b', 'zz']": 'e35a03617b4ed342',
    "3d/numpy/(6, 2)/L3@0/float32-float32/nd=None/min/z=[7]/c=['b', 'zz']": '135e9f174410b9b2',
    "3d/numpy/(6, 2)/L3@0/float32-float32/nd=None/sum/z=[7]/c=['b', 'zz']": '7bada3f7d1e77021',
    "3d/numpy/(6, 2)/L3@0/float32-float32/nd=None/std/z=[7]/c=['b', 'zz']": 'f258d0f32001cf7b',
    "3d/numpy/(6, 2)/L3@0/float32-float32/nd=None/var/z=[7]/c=['b', 'zz']": 'f258d0f32001cf7b',
    "3d/dask/(6, 2)/L3@0/float32-float32/nd=None/count/z=[7]/c=['b', 'zz']": 'de446ae66d8ee4ab',
    '3d/numpy/(6, 2)/L3@0/float32-float32/nd=2/count/z=None/c=None': 'b5550023a8fd71a5',
    '3d/numpy/(6, 2)/L3@0/float32-float32/nd=2/mean/z=None/c=None': '663657d177f7a06b',
    '3d/numpy/(6, 2)/L3@0/float32-float32/nd=2/max/z=None/c=None': 'e35a03617b4ed342',
    '3d/numpy/(6, 2)/L3@0/float32-float32/nd=2/min/z=None/c=None': '135e9f174410b9b2',
    '3d/numpy/(6, 2)/L3@0/float32-float32/nd=2/sum/z=None/c=None': '81466c4358ad6614',
    '3d/numpy/(6, 2)/L3@0/float32-float32/nd=2/std/z=None/c=None': 'df90a132bcb5dda4',
    '3d/numpy/(6, 2)/L3@0/float32-float32/nd=2/var/z=None/c=None': '825a23c1a7ff861c',
    '3d/dask/(6, 2)/L3@0/float32-float32/nd=2/count/z=None/c=None': '88571a52acc68f5d',
    "3d/numpy/(6, 2)/L3@0/float32-float32/nd=2/count/z=None/c=['c', 'a']": '43b8ae4e1ba71d04',
    "3d/numpy/(6, 2)/L3@0/float32-float32/nd=2/mean/z=None/c=['c', 'a']": '43b85008755f8e77',
    "3d/numpy/(6, 2)/L3@0/float32-float32/nd=2/max/z=None/c=['c', 'a']": 'e35a03617b4ed342',
    "3d/numpy/(6, 2)/L3@0/float32-float32/nd=2/min/z=None/c=['c', 'a']": '135e9f174410b9b2',
    "3d/numpy/(6, 2)/L3@0/float32-float32/nd=2/sum/z=None/c=['c', 'a']": '56afa52560b56049',
    "3d/numpy/(6, 2)/L3@0/float32-float32/nd=2/std/z=None/c=['c', 'a']": '5ba8350050a2d029',
    "3d/numpy/(6, 2)/L3@0/float32-float32/nd=2/var/z=None/c=['c', 'a']": '75a5c9c5f911bf27',
    "3d/dask/(6, 2)/L3@0/float32-float32/nd=2/count/z=None/c=['c', 'a']": 'c794c1c30f735c1c',
    "3d/numpy/(6, 2)/L3@0/float32-float32/nd=2/count/z=None/c=['b', 'zz']": 'd8c3c64fe8530a81',
    "3d/numpy/(6, 2)/L3@0/float32-float32/nd=2/mean/z=None/c=['b', 'zz']": 'baa73fde32fe6f84',
    "3d/numpy/(6, 2)/L3@0/float32-float32/nd=2/max/z=None/c=['b', 'zz']": 'e35a03617b4ed342',
    "3d/numpy/(6, 2)/L3@0/float32-float32/nd=2/min/z=None/c=['b', 'zz']": '135e9f174410b9b2',
    "3d/numpy/(6, 2)/L3@0/float32-float32/nd=2/sum/z=None/c=['b', 'zz']": '67e2af5902b6d260',
    "3d/numpy/(6, 2)/L3@0/float32-float32/nd=2/std/z=None/c=['b', 'zz']": 'ecfda94652467787',
    "3d/numpy/(6, 2)/L3@0/float32-float32/nd=2/var/z=None/c=['b', 'zz']": '36abed0da07deb81',
    "3d/dask/(6, 2)/L3@0/float32-float32/nd=2/count/z=None/c=['b', 'zz']": 'f24aea6a3432d46c',
    '3d/numpy/(6, 2)/L3@0/float32-float32/nd=2/count/z=[7]/c=None': '6528871df549d648',
    '3d/numpy/(6, 2)/L3@0/float32-float32/nd=2/mean/z=[7]/c=None': '914605295fa374d1',
    '3d/numpy/(6, 2)/L3@0/float32-float32/nd=2/max/z=[7]/c=None': 'e35a03617b4ed342',
    '3d/numpy/(6, 2)/L3@0/float32-float32/nd=2/min/z=[7]/c=None': '135e9f174410b9b2',
    '3d/numpy/(6, 2)/L3@0/float32-float32/nd=2/sum/z=[7]/c=None': '88f1684bdeb54b37',
    '3d/numpy/(6, 2)/L3@0/float32-float32/nd=2/std/z=[7]/c=None': '9a1dca4f35b046b5',
    '3d/numpy/(6, 2)/L3@0/float32-float32/nd=2/var/z=[7]/c=None': '9a1dca4f35b046b5',
    '3d/dask/(6, 2)/L3@0/float32-float32/nd=2/count/z=[7]/c=None': '5b626af9a25da654',
    "3d/numpy/(6, 2)/L3@0/float32-float32/nd=2/count/z=[7]/c=['c', 'a']": '25a9cd0a029f4dae',
    "3d/numpy/(6, 2)/L3@0/float32-float32/nd=2/mean/z=[7]/c=['c', 'a']": 'e88777dc769b68a1',
    "3d/numpy/(6, 2)/L3@0/float32-float32/nd=2/max/z=[7]/c=['c', 'a']": 'e88777dc769b68a1',
    "3d/numpy/(6, 2)/L3@0/float32-float32/nd=2/min/z=[7]/c=['c', 'a']": 'e88777dc769b68a1',
    "3d/numpy/(6, 2)/L3@0/float32-float32/nd=2/sum/z=[7]/c=['c', 'a']": 'e88777dc769b68a1',
    "3d/numpy/(6, 2)/L3@0/float32-float32/nd=2/std/z=[7]/c=['c', 'a']": 'd834be14e5512644',
    "3d/numpy/(6, 2)/L3@0/float32-float32/nd=2/var/z=[7]/c=['c', 'a']": 'd834be14e5512644',
    "3d/dask/(6, 2)/L3@0/float32-float32/nd=2/count/z=[7]/c=['c', 'a']": '0c2103050e82c4a5',
    "3d/numpy/(6, 2)/L3@0/float32-float32/nd=2/count/z=[7]/c=['b', 'zz']": '5811168e3f92cd74',
    "3d/numpy/(6, 2)/L3@0/float32-float32/nd=2/mean/z=[7]/c=['b', 'zz']": 'f258d0f32001cf7b',
    "3d/numpy/(6, 2)/L3@0/float32-float32/nd=2/max/z=[7]/c=['b', 'zz']": 'e35a03617b4ed342',
    "3d/numpy/(6, 2)/L3@0/float32-float32/nd=2/min/z=[7]/c=['b', 'zz']": '135e9f174410b9b2',
    "3d/numpy/(6, 2)/L3@0/float32-float32/nd=2/sum/z=[7]/c=['b', 'zz']": '7bada3f7d1e77021',
    "3d/numpy/(6, 2)/L3@0/float32-float32/nd=2/std/z=[7]/c=['b', 'zz']": 'f258d0f32001cf7b',
    "3d/numpy/(6, 2)/L3@0/float32-float32/nd=2/var/z=[7]/c=['b', 'zz']": 'f258d0f32001cf7b',
    "3d/dask/(6, 2)/L3@0/float32-float32/nd=2/count/z=[7]/c=['b', 'zz']": 'de446ae66d8ee4ab',
    '3d/numpy/(6, 2)/L3@2/float32-float32/nd=None/count/z=None/c=None': 'b5550023a8fd71a5',
    '3d/numpy/(6, 2)/L3@2/float32-float32/nd=None/mean/z=None/c=None': '663657d177f7a06b',
    '3d/numpy/(6, 2)/L3@2/float32-float32/nd=None/max/z=None/c=None': 'e35a03617b4ed342',
    '3d/numpy/(6, 2)/L3@2/float32-float32/nd=None/min/z=None/c=None': '135e9f174410b9b2',
    '3d/numpy/(6, 2)/L3@2/float32-float32/nd=None/sum/z=None/c=None': '81466c4358ad6614',
    '3d/numpy/(6, 2)/L3@2/float32-float32/nd=None/std/z=None/c=None': 'df90a132bcb5dda4',
    '3d/numpy/(6, 2)/L3@2/float32-float32/nd=None/var/z=None/c=None': '825a23c1a7ff861c',
    '3d/dask/(6, 2)/L3@2/float32-float32/nd=None/count/z=None/c=None': '88571a52acc68f5d',
    "3d/numpy/(6, 2)/L3@2/float32-float32/nd=None/count/z=None/c=['c', 'a']": '43b8ae4e1ba71d04',
    "3d/numpy/(6, 2)/L3@2/float32-float32/nd=None/mean/z=None/c=['c', 'a']": '43b85008755f8e77',
    "3d/numpy/(6, 2)/L3@2/float32-float32/nd=None/max/z=None/c=['c', 'a']": 'e35a03617b4ed342',
    "3d/numpy/(6, 2)/L3@2/float32-float32/nd=None/min/z=None/c=['c', 'a']": '135e9f174410b9b2',
    "3d/numpy/(6, 2)/L3@2/float32-float32/nd=None/sum/z=None/c=['c', 'a']": '56afa52560b56049',
    "3d/numpy/(6, 2)/L3@2/float32-float32/nd=None/std/z=None/c=['c', 'a']": '5ba8350050a2d029',
    "3d/numpy/(6, 2)/L3@2/float32-float32/nd=None/var/z=None/c=['c', 'a']": '75a5c9c5f911bf27',
    "3d/dask/(6, 2)/L3@2/float32-float32/nd=None/count/z=None/c=['c', 'a']": 'c794c1c30f735c1c',
    "3d/numpy/(6, 2)/L3@2/float32-float32/nd=None/count/z=None/c=['b', 'zz']": 'd8c3c64fe8530a81',
    "3d/numpy/(6, 2)/L3@2/float32-float32/nd=None/mean/z=None/c=['b', 'zz']": 'baa73fde32fe6f84',
    "3d/numpy/(6, 2)/L3@2/float32-float32/nd=None/max/z=None/c=['b', 'zz']": 'e35a03617b4ed342',
    "3d/numpy/(6, 2)/L3@2/float32-float32/nd=None/min/z=None/c=['b', 'zz']": '135e9f174410b9b2',
    "3d/numpy/(6, 2)/L3@2/float32-float32/nd=None/sum/z=None/c=['b', 'zz']": '67e2af5902b6d260',
    "3d/numpy/(6, 2)/L3@2/float32-float32/nd=None/std/z=None/c=['b', 'zz']": 'ecfda94652467787',
    "3d/numpy/(6, 2)/L3@2/float32-float32/nd=None/var/z=None/c=['b', 'zz']": '36abed0da07deb81',
    "3d/dask/(6, 2)/L3@2/float32-float32/nd=None/count/z=None/c=['b', 'zz']": 'f24aea6a3432d46c',
    '3d/numpy/(6, 2)/L3@2/float32-float32/nd=None/count/z=[7]/c=None': '6528871df549d648',
    '3d/numpy/(6, 2)/L3@2/float32-float32/nd=None/mean/z=[7]/c=None': '914605295fa374d1',
    '3d/numpy/(6, 2)/L3@2/float32-float32/nd=None/max/z=[7]/c=None': 'e35a03617b4ed342',
    '3d/numpy/(6, 2)/L3@2/float32-float32/nd=None/min/z=[7]/c=None': '135e9f174410b9b2',
    '3d/numpy/(6, 2)/L3@2/float32-float32/nd=None/sum/z=[7]/c=None': '88f1684bdeb54b37',
    '3d/numpy/(6, 2)/L3@2/float32-float32/nd=None/std/z=[7]/c=None': '9a1dca4f35b046b5',
    '3d/numpy/(6, 2)/L3@2/float32-float32/nd=None/var/z=[7]/c=None': '9a1dca4f35b046b5',
    '3d/dask/(6, 2)/L3@2/float32-float32/nd=None/count/z=[7]/c=None': '5b626af9a25da654',
    "3d/numpy/(6, 2)/L3@2/float32-float32/nd=None/count/z=[7]/c=['c', 'a']": '25a9cd0a029f4dae',
    "3d/numpy/(6, 2)/L3@2/float32-float32/nd=None/mean/z=[7]/c=['c', 'a']": 'e88777dc769b68a1',
    "3d/numpy/(6, 2)/L3@2/float32-float32/nd=None/max/z=[7]/c=['c', 'a']": 'e88777dc769b68a1',
    "3d/numpy/(6, 2)/L3@2/float32-float32/nd=None/min/z=[7]/c=['c', 'a']": 'e88777dc769b68a1',
    "3d/numpy/(6, 2)/L3@2/float32-float32/nd=None/sum/z=[7]/c=['c', 'a']": 'e88777dc769b68a1',
    "3d/numpy/(6, 2)/L3@2/float32-float32/nd=None/std/z=[7]/c=['c', 'a']": 'd834be14e5512644',
    "3d/numpy/(6, 2)/L3@2/float32-float32/nd=None/var/z=[7]/c=['c', 'a']": 'd834be14e5512644',
    "3d/dask/(6, 2)/L3@2/float32-float32/nd=None/count/z=[7]/c=['c', 'a']": '0c2103050e82c4a5',
    "3d/numpy/(6, 2)/L3@2/float32-float32/nd=None/count/z=[7]/c=['b', 'zz']": '5811168e3f92cd74',
    "3d/numpy/(6, 2)/L3@2/float32-float32/nd=None/mean/z=[7]/c=['b', 'zz']": 'f258d0f32001cf7b',
    "3d/numpy/(6, 2)/L3@2/float32-float32/nd=None/max/z=[7]/c=['b', 'zz']": 'e35a03617b4ed342',
    "3d/numpy/(6, 2)/L3@2/float32-float32/nd=None/min/z=[7]/c=['b', 'zz']": '135e9f174410b9b2',
    "3d/numpy/(6, 2)/L3@2/float32-float32/nd=None/sum/z=[7]/c=['b', 'zz']": '7bada3f7d1e77021',
    "3d/numpy/(6, 2)/L3@2/float32-float32/nd=None/std/z=[7]/c=['b', 'zz']": 'f258d0f32001cf7b',
    "3d/numpy/(6, 2)/L3@2/float32-float32/nd=None/var/z=[7]/c=['b', 'zz']": 'f258d0f32001cf7b',
    "3d/dask/(6, 2)/L3@2/float32-float32/nd=None/count/z=[7]/c=['b', 'zz']": 'de446ae66d8ee4ab',
    '3d/numpy/(6, 2)/L3@2/float32-float32/nd=2/count/z=None/c=None': 'b5550023a8fd71a5',
    '3d/numpy/(6, 2)/L3@2/float32-float32/nd=2/mean/z=None/c=None': '663657d177f7a06b',
    '3d/numpy/(6, 2)/L3@2/float32-float32/nd=2/max/z=None/c=None': 'e35a03617b4ed342',
    '3d/numpy/(6, 2)/L3@2/float32-float32/nd=2/min/z=None/c=None': '135e9f174410b9b2',
    '3d/numpy/(6, 2)/L3@2/float32-float32/nd=2/sum/z=None/c=None': '81466c4358ad6614',
    '3d/numpy/(6, 2)/L3@2/float32-float32/nd=2/std/z=None/c=None': 'df90a132bcb5dda4',
    '3d/numpy/(6, 2)/L3@2/float32-float32/nd=2/var/z=None/c=None': '825a23c1a7ff861c',
    '3d/dask/(6, 2)/L3@2/float32-float32/nd=2/count/z=None/c=None': '88571a52acc68f5d',
    "3d/numpy/(6, 2)/L3@2/float32-float32/nd=2/count/z=None/c=['c', 'a']": '43b8ae4e1ba71d04',
    "3d/numpy/(6, 2)/L3@2/float32-float32/nd=2/mean/z=None/c=['c', 'a']": '43b85008755f8e77',
    "3d/numpy/(6, 2)/L3@2/float32-float32/nd=2/max/z=None/c=['c', 'a']": 'e35a03617b4ed342',
    "3d/numpy/(6, 2)/L3@2/float32-float32/nd=2/min/z=None/c=['c', 'a']": '135e9f174410b9b2',
    "3d/numpy/(6, 2)/L3@2/float32-float32/nd=2/sum/z=None/c=['c', 'a']": '56afa52560b56049',
    "3d/numpy/(6, 2)/L3@2/float32-float32/nd=2/std/z=None/c=['c', 'a']": '5ba8350050a2d029',
    "3d/numpy/(6, 2)/L3@2/float32-float32/nd=2/var/z=None/c=['c', 'a']": '75a5c9c5f911bf27',
    "3d/dask/(6, 2)/L3@2/float32-float32/nd=2/count/z=None/c=['c', 'a']": 'c794c1c30f735c1c',
    "3d/numpy/(6, 2)/L3@2/float32-float32/nd=2/count/z=None/c=['b', 'zz']": 'd8c3c64fe8530a81',
    "3d/numpy/(6, 2)/L3@2/float32-float32/nd=2/mean/z=None/c=['b', 'zz']": 'baa73fde32fe6f84',
    "3d/numpy/(6, 2)/L3@2/float32-float32/nd=2/max/z=None/c=['b', 'zz']": 'e35a03617b4ed342',
    "3d/numpy/(6, 2)/L3@2/float32-float32/nd=2/min/z=None/c=['b', 'zz']": '135e9f174410b9b2',
    "3d/numpy/(6, 2)/L3@2/float32-float32/nd=2/sum/z=None/c=['b', 'zz']": '67e2af5902b6d260',
    "3d/numpy/(6, 2)/L3@2/float32-float32/nd=2/std/z=None/c=['b', 'zz']": 'ecfda94652467787',
    "3d/numpy/(6, 2)/L3@2/float32-float32/nd=2/var/z=None/c=['b', 'zz']": '36abed0da07deb81',
    "3d/dask/(6, 2)/L3@2/float32-float32/nd=2/count/z=None/c=['b', 'zz']": 'f24aea6a3432d46c',
    '3d/numpy/(6, 2)/L3@2/float32-float32/nd=2/count/z=[7]/c=None': '6528871df549d648',
    '3d/numpy/(6, 2)/L3@2/float32-float32/nd=2/mean/z=[7]/c=None': '914605295fa374d1',
    '3d/numpy/(6, 2)/L3@2/float32-float32/nd=2/max/z=[7]/c=None': 'e35a03617b4ed342',
    '3d/numpy/(6, 2)/L3@2/float32-float32/nd=2/min/z=[7]/c=None': '135e9f174410b9b2',
    '3d/numpy/(6, 2)/L3@2/float32-float32/nd=2/sum/z=[7]/c=None': '88f1684bdeb54b37',
    '3d/numpy/(6, 2)/L3@2/float32-float32/nd=2/std/z=[7]/c=None': '9a1dca4f35b046b5',
    '3d/numpy/(6, 2)/L3@2/float32-float32/nd=2/var/z=[7]/c=None': '9a1dca4f35b046b5',
    '3d/dask/(6, 2)/L3@2/float32-float32/nd=2/count/z=[7]/c=None': '5b626af9a25da654',
    "3d/numpy/(6, 2)/L3@2/float32-float32/nd=2/count/z=[7]/c=['c', 'a']": '25a9cd0a029f4dae',
    "3d/numpy/(6, 2)/L3@2/float32-float32/nd=2/mean/z=[7]/c=['c', 'a']": 'e88777dc769b68a1',
    "3d/numpy/(6, 2)/L3@2/float32-float32/nd=2/max/z=[7]/c=['c', 'a']": 'e88777dc769b68a1',
    "3d/numpy/(6, 2)/L3@2/float32-float32/nd=2/min/z=[7]/c=['c', 'a']": 'e88777dc769b68a1',
    "3d/numpy/(6, 2)/L3@2/float32-float32/nd=2/sum/z=[7]/c=['c', 'a']": 'e88777dc769b68a1',
    "3d/numpy/(6, 2)/L3@2/float32-float32/nd=2/std/z=[7]/c=['c', 'a']": 'd834be14e5512644',
    "3d/numpy/(6, 2)/L3@2/float32-float32/nd=2/var/z=[7]/c=['c', 'a']": 'd834be14e5512644',
    "3d/dask/(6, 2)/L3@2/float32-float32/nd=2/count/z=[7]/c=['c', 'a']": '0c2103050e82c4a5',
    "3d/numpy/(6, 2)/L3@2/float32-float32/nd=2/count/z=[7]/c=['b', 'zz']": '5811168e3f92cd74',
    "3d/numpy/(6, 2)/L3@2/float32-float32/nd=2/mean/z=[7]/c=['b', 'zz']": 'f258d0f32001cf7b',
    "3d/numpy/(6, 2)/L3@2/float32-float32/nd=2/max/z=[7]/c=['b', 'zz']": 'e35a03617b4ed342',
    "3d/numpy/(6, 2)/L3@2/float32-float32/nd=2/min/z=[7]/c=['b', 'zz']": '135e9f174410b9b2',
    "3d/numpy/(6, 2)/L3@2/float32-float32/nd=2/sum/z=[7]/c=['b', 'zz']": '7bada3f7d1e77021',
    "3d/numpy/(6, 2)/L3@2/float32-float32/nd=2/std/z=[7]/c=['b', 'zz']": 'f258d0f32001cf7b',
    "3d/numpy/(6, 2)/L3@2/float32-float32/nd=2/var/z=[7]/c=['b', 'zz']": 'f258d0f32001cf7b',
    "3d/dask/(6, 2)/L3@2/float32-float32/nd=2/count/z=[7]/c=['b', 'zz']": 'de446ae66d8ee4ab',
    '3d/numpy/(1, 5)/L4@0/int32-float64/nd=None/count/z=None/c=None': '917019f5ef6361a7',
    '3d/numpy/(1, 5)/L4@0/int32-float64/nd=None/mean/z=None/c=None': '50faeed38044e08b',
    '3d/numpy/(1, 5)/L4@0/int32-float64/nd=None/max/z=None/c=None': '77ff7756cb173de4',
    '3d/numpy/(1, 5)/L4@0/int32-float64/nd=None/min/z=None/c=None': '4b7e60af0473997c',
    '3d/numpy/(1, 5)/L4@0/int32-float64/nd=None/sum/z=None/c=None': '90fa486b706a3318',
    '3d/numpy/(1, 5)/L4@0/int32-float64/nd=None/std/z=None/c=None': '8edfa74f378196fe',
    '3d/numpy/(1, 5)/L4@0/int32-float64/nd=None/var/z=None/c=None': '05d332de3fdeffee',
    '3d/dask/(1, 5)/L4@0/int32-float64/nd=None/count/z=None/c=None': '8a2e138cb1762552',
    '3d/numpy/(1, 5)/L4@0/int32-float64/nd=None/count/z=None/c=[40, 10, 99]': 'bf52933841892fa8',
    '3d/numpy/(1, 5)/L4@0/int32-float64/nd=None/mean/z=None/c=[40, 10, 99]': 'ea687d2088411750',
    '3d/numpy/(1, 5)/L4@0/int32-float64/nd=None/max/z=None/c=[40, 10, 99]': '2d6b6be7567a45a3',
    '3d/numpy/(1, 5)/L4@0/int32-float64/nd=None/min/z=None/c=[40, 10, 99]': '48b37121eff15868',
    '3d/numpy/(1, 5)/L4@0/int32-float64/nd=None/sum/z=None/c=[40, 10, 99]': 'ee8fd276cd511188',
    '3d/numpy/(1, 5)/L4@0/int32-float64/nd=None/std/z=None/c=[40, 10, 99]': '37b7c730a72ad000',
    '3d/numpy/(1, 5)/L4@0/int32-float64/nd=None/var/z=None/c=[40, 10, 99]': '5e9f87def9a3a389',
    '3d/dask/(1, 5)/L4@0/int32-float64/nd=None/count/z=None/c=[40, 10, 99]': '0d0e407be5667715',
    '3d/numpy/(1, 5)/L4@0/int32-float64/nd=None/count/z=None/c=[20]': '2dc9b9caaf8e7f4d',
    '3d/numpy/(1, 5)/L4@0/int32-float64/nd=None/mean/z=None/c=[20]': '9eeb3f2b1a2fb068',
    '3d/numpy/(1, 5)/L4@0/int32-float64/nd=None/max/z=None/c=[20]': 'b63932e4476a477f',
    '3d/numpy/(1, 5)/L4@0/int32-float64/nd=None/min/z=None/c=[20]': '98b2643c11166bba',
    '3d/numpy/(1, 5)/L4@0/int32-float64/nd=None/sum/z=None/c=[20]': '3439e5e7e1b8b550',
    '3d/numpy/(1, 5)/L4@0/int32-float64/nd=None/std/z=None/c=[20]': '313a2ff566ad61e9',
    '3d/numpy/(1, 5)/L4@0/int32-float64/nd=None/var/z=None/c=[20]': '8e8b30cf2e83541d',
    '3d/dask/(1, 5)/L4@0/int32-float64/nd=None/count/z=None/c=[20]': 'e97b317e3cd7980b',
    '3d/numpy/(1, 5)/L4@0/int32-float64/nd=None/count/z=[55]/c=None': '6cf31d6933c0e69b',
    '3d/numpy/(1, 5)/L4@0/int32-float64/nd=None/mean/z=[55]/c=None': '6cf31d6933c0e69b',
    '3d/numpy/(1, 5)/L4@0/int32-float64/nd=None/max/z=[55]/c=None': '6cf31d6933c0e69b',
    '3d/numpy/(1, 5)/L4@0/int32-float64/nd=None/min/z=[55]/c=None': '6cf31d6933c0e69b',
    '3d/numpy/(1, 5)/L4@0/int32-float64/nd=None/sum/z=[55]/c=None': '6cf31d6933c0e69b',
    '3d/numpy/(1, 5)/L4@0/int32-float64/nd=None/std/z=[55]/c=None': '6cf31d6933c0e69b',
    '3d/numpy/(1, 5)/L4@0/int32-float64/nd=None/var/z=[55]/c=None': '6cf31d6933c0e69b',
    '3d/dask/(1, 5)/L4@0/int32-float64/nd=None/count/z=[55]/c=None': 'df9bbbb0d17d9f49',
    '3d/numpy/(1, 5)/L4@0/int32-float64/nd=None/count/z=[55]/c=[40, 10, 99]': '72c75afcc506b927',
    '3d/numpy/(1, 5)/L4@0/int32-float64/nd=None/mean/z=[55]/c=[40, 10, 99]': '72c75afcc506b927',
    '3d/numpy/(1, 5)/L4@0/int32-float64/nd=None/max/z=[55]/c=[40, 10, 99]': '72c75afcc506b927',
    '3d/numpy/(1, 5)/L4@0/int32-float64/nd=None/min/z=[55]/c=[40, 10, 99]': '72c75afcc506b927',
    '3d/numpy/(1, 5)/L4@0/int32-float64/nd=None/sum/z=[55]/c=[40, 10, 99]': '72c75afcc506b927',
    '3d/numpy/(1, 5)/L4@0/int32-float64/nd=None/std/z=[55]/c=[40, 10, 99]': '72c75afcc506b927',
    '3d/numpy/(1, 5)/L4@0/int32-float64/nd=None/var/z=[55]/c=[40, 10, 99]': '72c75afcc506b927',
    '3d/dask/(1, 5)/L4@0/int32-float64/nd=None/count/z=[55]/c=[40, 10, 99]': 'e8391266d209aa4c',
    '3d/numpy/(1, 5)/L4@0/int32-float64/nd=None/count/z=[55]/c=[20]': '4a5e00dda2789473',
    '3d/numpy/(1, 5)/L4@0/int32-float64/nd=None/mean/z=[55]/c=[20]': '4a5e00dda2789473',
    '3d/numpy/(1, 5)/L4@0/int32-float64/nd=None/max/z=[55]/c=[20]': '4a5e00dda2789473',
    '3d/numpy/(1, 5)/L4@0/int32-float64/nd=None/min/z=[55]/c=[20]': '4a5e00dda2789473',
    '3d/numpy/(1, 5)/L4@0/int32-float64/nd=None/sum/z=[55]/c=[20]': '4a5e00dda2789473',
    '3d/numpy/(1, 5)/L4@0/int32-float64/nd=None/std/z=[55]/c=[20]': '4a5e00dda2789473',
    '3d/numpy/(1, 5)/L4@0/int32-float64/nd=None/var/z=[55]/c=[20]': '4a5e00dda2789473',
    '3d/dask/(1, 5)/L4@0/int32-float64/nd=None/count/z=[55]/c=[20]': 'ab4335fca404dd3e',
    '3d/numpy/(1, 5)/L4@0/int32-float64/nd=2/count/z=None/c=None': '86ace94ad7668099',
    '3d/numpy/(1, 5)/L4@0/int32-float64/nd=2/mean/z=None/c=None': '4cc99896c56a72eb',
    '3d/numpy/(1, 5)/L4@0/int32-float64/nd=2/max/z=None/c=None': 'e10fe47865c1c416',
    '3d/numpy/(1, 5)/L4@0/int32-float64/nd=2/min/z=None/c=None': '4b7e60af0473997c',
    '3d/numpy/(1, 5)/L4@0/int32-float64/nd=2/sum/z=None/c=None': '92061f85da124402',
    '3d/numpy/(1, 5)/L4@0/int32-float64/nd=2/std/z=None/c=None': 'c0ad3aa58dac4647',
    '3d/numpy/(1, 5)/L4@0/int32-float64/nd=2/var/z=None/c=None': 'dd3427f9443a6241',
    '3d/dask/(1, 5)/L4@0/int32-float64/nd=2/count/z=None/c=None': 'eefd50cd9b94f465',
    '3d/numpy/(1, 5)/L4@0/int32-float64/nd=2/count/z=None/c=[40, 10, 99]': 'bf52933841892fa8',
    '3d/numpy/(1, 5)/L4@0/int32-float64/nd=2/mean/z=None/c=[40, 10, 99]': 'ea687d2088411750',
    '3d/numpy/(1, 5)/L4@0/int32-float64/nd=2/max/z=None/c=[40, 10, 99]': '2d6b6be7567a45a3',
    '3d/numpy/(1, 5)/L4@0/int32-float64/nd=2/min/z=None/c=[40, 10, 99]': '48b37121eff15868',
    '3d/numpy/(1, 5)/L4@0/int32-float64/nd=2/sum/z=None/c=[40, 10, 99]': 'ee8fd276cd511188',
    '3d/numpy/(1, 5)/L4@0/int32-float64/nd=2/std/z=None/c=[40, 10, 99]': '37b7c730a72ad000',
    '3d/numpy/(1, 5)/L4@0/int32-float64/nd=2/var/z=None/c=[40, 10, 99]': '5e9f87def9a3a389',
    '3d/dask/(1, 5)/L4@0/int32-float64/nd=2/count/z=None/c=[40, 10, 99]': '0d0e407be5667715',
    '3d/numpy/(1, 5)/L4@0/int32-float64/nd=2/count/z=None/c=[20]': 'a93657c8ea63899d',
    '3d/numpy/(1, 5)/L4@0/int32-float64/nd=2/mean/z=None/c=[20]': '52aeebcb97d2721f',
    '3d/numpy/(1, 5)/L4@0/int32-float64/nd=2/max/z=None/c=[20]': 'd04fd30908c7e234',
    '3d/numpy/(1, 5)/L4@0/int32-float64/nd=2/min/z=None/c=[20]': '98b2643c11166bba',
    '3d/numpy/(1, 5)/L4@0/int32-float64/nd=2/sum/z=None/c=[20]': 'd04fd30908c7e234',
    '3d/numpy/(1, 5)/L4@0/int32-float64/nd=2/std/z=None/c=[20]': 'e8432f82f48e6a00',
    '3d/numpy/(1, 5)/L4@0/int32-float64/nd=2/var/z=None/c=[20]': '73fe3af534f70391',
    '3d/dask/(1, 5)/L4@0/int32-float64/nd=2/count/z=None/c=[20]': '93f55d34ce2059b3',
    '3d/numpy/(1, 5)/L4@0/int32-float64/nd=2/count/z=[55]/c=None': '6cf31d6933c0e69b',
    '3d/numpy/(1, 5)/L4@0/int32-float64/nd=2/mean/z=[55]/c=None': '6cf31d6933c0e69b',
    '3d/numpy/(1, 5)/L4@0/int32-float64/nd=2/max/z=[55]/c=None': '6cf31d6933c0e69b',
    '3d/numpy/(1, 5)/L4@0/int32-float64/nd=2/min/z=[55]/c=None': '6cf31d6933c0e69b',
    '3d/numpy/(1, 5)/L4@0/int32-float64/nd=2/sum/z=[55]/c=None': '6cf31d6933c0e69b',
    '3d/numpy/(1, 5)/L4@0/int32-float64/nd=2/std/z=[55]/c=None': '6cf31d6933c0e69b',
    '3d/numpy/(1, 5)/L4@0/int32-float64/nd=2/var/z=[55]/c=None': '6cf31d6933c0e69b',
    '3d/dask/(1, 5)/L4@0/int32-float64/nd=2/count/z=[55]/c=None': 'df9bbbb0d17d9f49',
    '3d/numpy/(1, 5)/L4@0/int32-float64/nd=2/count/z=[55]/c=[40, 10, 99]': '72c75afcc506b927',
    '3d/numpy/(1, 5)/L4@0/int32-float64/nd=2/mean/z=[55]/c=[40, 10, 99]': '72c75afcc506b927',
    '3d/numpy/(1, 5)/L4@0/int32-float64/nd=2/max/z=[55]/c=[40, 10, 99]': '72c75afcc506b927',
    '3d/numpy/(1, 5)/L4@0/int32-float64/nd=2/min/z=[55]/c=[40, 10, 99]': '72c75afcc506b927',
    '3d/numpy/(1, 5)/L4@0/int32-float64/nd=2/sum/z=[55]/c=[40, 10, 99]': '72c75afcc506b927',
    '3d/numpy/(1, 5)/L4@0/int32-float64/nd=2/std/z=[55]/c=[40, 10, 99]': '72c75afcc506b927',
    '3d/numpy/(1, 5)/L4@0/int32-float64/nd=2/var/z=[55]/c=[40, 10, 99]': '72c75afcc506b927',
    '3d/dask/(1, 5)/L4@0/int32-float64/nd=2/count/z=[55]/c=[40, 10, 99]': 'e8391266d209aa4c',
    '3d/numpy/(1, 5)/L4@0/int32-float64/nd=2/count/z=[55]/c=[20]': '4a5e00dda2789473',
    '3d/numpy/(1, 5)/L4@0/int32-float64/nd=2/mean/z=[55]/c=[20]': '4a5e00dda2789473',
    '3d/numpy/(1, 5)/L4@0/int32-float64/nd=2/max/z=[55]/c=[20]': '4a5e00dda2789473',
    '3d/numpy/(1, 5)/L4@0/int32-float64/nd=2/min/z=[55]/c=[20]': '4a5e00dda2789473',
    '3d/numpy/(1, 5)/L4@0/int32-float64/nd=2/sum/z=[55]/c=[20]': '4a5e00dda2789473',
    '3d/numpy/(1, 5)/L4@0/int32-float64/nd=2/std/z=[55]/c=[20]': '4a5e00dda2789473',
    '3d/numpy/(1, 5)/L4@0/int32-float64/nd=2/var/z=[55]/c=[20]': '4a5e00dda2789473',
    '3d/dask/(1, 5)/L4@0/int32-float64/nd=2/count/z=[55]/c=[20]': 'ab4335fca404dd3e',
    '3d/numpy/(1, 5)/L4@2/int32-float64/nd=None/count/z=None/c=None': '917019f5ef6361a7',
    '3d/numpy/(1, 5)/L4@2/int32-float64/nd=None/mean/z=None/c=None': '50faeed38044e08b',
    '3d/numpy/(1, 5)/L4@2/int32-float64/nd=None/max/z=None/c=None': '77ff7756cb173de4',
    '3d/numpy/(1, 5)/L4@2/int32-float64/nd=None/min/z=None/c=None': '4b7e60af0473997c',
    '3d/numpy/(1, 5)/L4@2/int32-float64/nd=None/sum/z=None/c=None': '90fa486b706a3318',
    '3d/numpy/(1, 5)/L4@2/int32-float64/nd=None/std/z=None/c=None': '8edfa74f378196fe',
    '3d/numpy/(1, 5)/L4@2/int32-float64/nd=None/var/z=None/c=None': '05d332de3fdeffee',
    '3d/dask/(1, 5)/L4@2/int32-float64/nd=None/count/z=None/c=None': '8a2e138cb1762552',
    '3d/numpy/(1, 5)/L4@2/int32-float64/nd=None/count/z=None/c=[40, 10, 99]': 'bf52933841892fa8',
    '3d/numpy/(1, 5)/L4@2/int32-float64/nd=None/mean/z=None/c=[40, 10, 99]': 'ea687d2088411750',
    '3d/numpy/(1, 5)/L4@2/int32-float64/nd=None/max/z=None/c=[40, 10, 99]': '2d6b6be7567a45a3',
    '3d/numpy/(1, 5)/L4@2/int32-float64/nd=None/min/z=None/c=[40, 10, 99]': '48b37121eff15868',
    '3d/numpy/(1, 5)/L4@2/int32-float64/nd=None/sum/z=None/c=[40, 10, 99]': 'ee8fd276cd511188',
    '3d/numpy/(1, 5)/L4@2/int32-float64/nd=None/std/z=None/c=[40, 10, 99]': '37b7c730a72ad000',
    '3d/numpy/(1, 5)/L4@2/int32-float64/nd=None/var/z=None/c=[40, 10, 99]': '5e9f87def9a3a389',
    '3d/dask/(1, 5)/L4@2/int32-float64/nd=None/count/z=None/c=[40, 10, 99]': '0d0e407be5667715',
    '3d/numpy/(1, 5)/L4@2/int32-float64/nd=None/count/z=None/c=[20]': '2dc9b9caaf8e7f4d',
    '3d/numpy/(1, 5)/L4@2/int32-float64/nd=None/mean/z=None/c=[20]': '9eeb3f2b1a2fb068',
    '3d/numpy/(1, 5)/L4@2/int32-float64/nd=None/max/z=None/c=[20]': 'b63932e4476a477f',
    '3d/numpy/(1, 5)/L4@2/int32-float64/nd=None/min/z=None/c=[20]': '98b2643c11166bba',
    '3d/numpy/(1, 5)/L4@2/int32-float64/nd=None/sum/z=None/c=[20]': '3439e5e7e1b8b550',
    '3d/numpy/(1, 5)/L4@2/int32-float64/nd=None/std/z=None/c=[20]': '313a2ff566ad61e9',
    '3d/numpy/(1, 5)/L4@2/int32-float64/nd=None/var/z=None/c=[20]': '8e8b30cf2e83541d',
    '3d/dask/(1, 5)/L4@2/int32-float64/nd=None/count/z=None/c=[20]': 'e97b317e3cd7980b',
    '3d/numpy/(1, 5)/L4@2/int32-float64/nd=None/count/z=[55]/c=None': '6cf31d6933c0e69b',
    '3d/numpy/(1, 5)/L4@2/int32-float64/nd=None/mean/z=[55]/c=None': '6cf31d6933c0e69b',
    '3d/numpy/(1, 5)/L4@2/int32-float64/nd=None/max/z=[55]/c=None': '6cf31d6933c0e69b',
    '3d/numpy/(1, 5)/L4@2/int32-float64/nd=None/min/z=[55]/c=None': '6cf31d6933c0e69b',
    '3d/numpy/(1, 5)/L4@2/int32-float64/nd=None/sum/z=[55]/c=None': '6cf31d6933c0e69b',
    '3d/numpy/(1, 5)/L4@2/int32-float64/nd=None/std/z=[55]/c=None': '6cf31d6933c0e69b',
    '3d/numpy/(1, 5)/L4@2/int32-float64/nd=None/var/z=[55]/c=None': '6cf31d6933c0e69b',
    '3d/dask/(1, 5)/L4@2/int32-float64/nd=None/count/z=[55]/c=None': 'df9bbbb0d17d9f49',
    '3d/numpy/(1, 5)/L4@2/int32-float64/nd=None/count/z=[55]/c=[40, 10, 99]': '72c75afcc506b927',
    '3d/numpy/(1, 5)/L4@2/int32-float64/nd=None/mean/z=[55]/c=[40, 10, 99]': '72c75afcc506b927',
    '3d/numpy/(1, 5)/L4@2/int32-float64/nd=None/max/z=[55]/c=[40, 10, 99]': '72c75afcc506b927',
    '3d/numpy/(1, 5)/L4@2/int32-float64/nd=None/min/z=[55]/c=[40, 10, 99]': '72c75afcc506b927',
    '3d/numpy/(1, 5)/L4@2/int32-float64/nd=None/sum/z=[55]/c=[40, 10, 99]': '72c75afcc506b927',
    '3d/numpy/(1, 5)/L4@2/int32-float64/nd=None/std/z=[55]/c=[40, 10, 99]': '72c75afcc506b927',
    '3d/numpy/(1, 5)/L4@2/int32-float64/nd=None/var/z=[55]/c=[40, 10, 99]': '72c75afcc506b927',
    '3d/dask/(1, 5)/L4@2/int32-float64/nd=None/count/z=[55]/c=[40, 10, 99]': 'e8391266d209aa4c',
    '3d/numpy/(1, 5)/L4@2/int32-float64/nd=None/count/z=[55]/c=[20]': '4a5e00dda2789473',
    '3d/numpy/(1, 5)/L4@2/int32-float64/nd=None/mean/z=[55]/c=[20]': '4a5e00dda2789473',
    '3d/numpy/(1, 5)/L4@2/int32-float64/nd=None/max/z=[55]/c=[20]': '4a5e00dda2789473',
    '3d/numpy/(1, 5)/L4@2/int32-float64/nd=None/min/z=[55]/c=[20]': '4a5e00dda2789473',
    '3d/numpy/(1, 5)/L4@2/int32-float64/nd=None/sum/z=[55]/c=[20]': '4a5e00dda2789473',
    '3d/numpy/(1, 5)/L4@2/int32-float64/nd=None/std/z=[55]/c=[20]': '4a5e00dda2789473',
    '3d/numpy/(1, 5)/L4@2/int32-float64/nd=None/var/z=[55]/c=[20]': '4a5e00dda2789473',
    '3d/dask/(1, 5)/L4@2/int32-float64/nd=None/count/z=[55]/c=[20]': 'ab4335fca404dd3e',
    '3d/numpy/(1, 5)/L4@2/int32-float64/nd=2/count/z=None/c=None': '86ace94ad7668099',
    '3d/numpy/(1, 5)/L4@2/int32-float64/nd=2/mean/z=None/c=None': '4cc99896c56a72eb',
    '3d/numpy/(1, 5)/L4@2/int32-float64/nd=2/max/z=None/c=None': 'e10fe47865c1c416',
    '3d/numpy/(1, 5)/L4@2/int32-float64/nd=2/min/z=None/c=None': '4b7e60af0473997c',
    '3d/numpy/(1, 5)/L4@2/int32-float64/nd=2/sum/z=None/c=None': '92061f85da124402',
    '3d/numpy/(1, 5)/L4@2/int32-float64/nd=2/std/z=None/c=None': 'c0ad3aa58dac4647',
    '3d/numpy/(1, 5)/L4@2/int32-float64/nd=2/var/z=None/c=None': 'dd3427f9443a6241',
    '3d/dask/(1, 5)/L4@2/int32-float64/nd=2/count/z=None/c=None': 'eefd50cd9b94f465',
    '3d/numpy/(1, 5)/L4@2/int32-float64/nd=2/count/z=None/c=[40, 10, 99]': 'bf52933841892fa8',
    '3d/numpy/(1, 5)/L4@2/int32-float64/nd=2/mean/z=None/c=[40, 10, 99]': 'ea687d2088411750',
    '3d/numpy/(1, 5)/L4@2/int32-float64/nd=2/max/z=None/c=[40, 10, 99]': '2d6b6be7567a45a3',
    '3d/numpy/(1, 5)/L4@2/int32-float64/nd=2/min/z=None/c=[40, 10, 99]': '48b37121eff15868',
    '3d/numpy/(1, 5)/L4@2/int32-float64/nd=2/sum/z=None/c=[40, 10, 99]': 'ee8fd276cd511188',
    '3d/numpy/(1, 5)/L4@2/int32-float64/nd=2/std/z=None/c=[40, 10, 99]': '37b7c730a72ad000',
    '3d/numpy/(1, 5)/L4@2/int32-float64/nd=2/var/z=None/c=[40, 10, 99]': '5e9f87def9a3a389',
    '3d/dask/(1, 5)/L4@2/int32-float64/nd=2/count/z=None/c=[40, 10, 99]': '0d0e407be5667715',
    '3d/numpy/(1, 5)/L4@2/int32-float64/nd=2/count/z=None/c=[20]': 'a93657c8ea63899d',
    '3d/numpy/(1, 5)/L4@2/int32-float64/nd=2/mean/z=None/c=[20]': '52aeebcb97d2721f',
    '3d/numpy/(1, 5)/L4@2/int32-float64/nd=2/max/z=None/c=[20]': 'd04fd30908c7e234',
    '3d/numpy/(1, 5)/L4@2/int32-float64/nd=2/min/z=None/c=[20]': '98b2643c11166bba',
    '3d/numpy/(1, 5)/L4@2/int32-float64/nd=2/sum/z=None/c=[20]': 'd04fd30908c7e234',
    '3d/numpy/(1, 5)/L4@2/int32-float64/nd=2/std/z=None/c=[20]': 'e8432f82f48e6a00',
    '3d/numpy/(1, 5)/L4@2/int32-float64/nd=2/var/z=None/c=[20]': '73fe3af534f70391',
    '3d/dask/(1, 5)/L4@2/int32-float64/nd=2/count/z=None/c=[20]': '93f55d34ce2059b3',
    '3d/numpy/(1, 5)/L4@2/int32-float64/nd=2/count/z=[55]/c=None': '6cf31d6933c0e69b',
    '3d/numpy/(1, 5)/L4@2/int32-float64/nd=2/mean/z=[55]/c=None': '6cf31d6933c0e69b',
    '3d/numpy/(1, 5)/L4@2/int32-float64/nd=2/max/z=[55]/c=None': '6cf31d6933c0e69b',
    '3d/numpy/(1, 5)/L4@2/int32-float64/nd=2/min/z=[55]/c=None': '6cf31d6933c0e69b',
    '3d/numpy/(1, 5)/L4@2/int32-float64/nd=2/sum/z=[55]/c=None': '6cf31d6933c0e69b',
    '3d/numpy/(1, 5)/L4@2/int32-float64/nd=2/std/z=[55]/c=None': '6cf31d6933c0e69b',
    '3d/numpy/(1, 5)/L4@2/int32-float64/nd=2/var/z=[55]/c=None': '6cf31d6933c0e69b',
    '3d/dask/(1, 5)/L4@2/int32-float64/nd=2/count/z=[55]/c=None': 'df9bbbb0d17d9f49',
    '3d/numpy/(1, 5)/L4@2/int32-float64/nd=2/count/z=[55]/c=[40, 10, 99]': '72c75afcc506b927',
    '3d/numpy/(1, 5)/L4@2/int32-float64/nd=2/mean/z=[55]/c=[40, 10, 99]': '72c75afcc506b927',
    '3d/numpy/(1, 5)/L4@2/int32-float64/nd=2/max/z=[55]/c=[40, 10, 99]': '72c75afcc506b927',
    '3d/numpy/(1, 5)/L4@2/int32-float64/nd=2/min/z=[55]/c=[40, 10, 99]': '72c75afcc506b927',
    '3d/numpy/(1, 5)/L4@2/int32-float64/nd=2/sum/z=[55]/c=[40, 10, 99]': '72c75afcc506b927',
    '3d/numpy/(1, 5)/L4@2/int32-float64/nd=2/std/z=[55]/c=[40, 10, 99]': '72c75afcc506b927',
    '3d/numpy/(1, 5)/L4@2/int32-float64/nd=2/var/z=[55]/c=[40, 10, 99]': '72c75afcc506b927',
    '3d/dask/(1, 5)/L4@2/int32-float64/nd=2/count/z=[55]/c=[40, 10, 99]': 'e8391266d209aa4c',
    '3d/numpy/(1, 5)/L4@2/int32-float64/nd=2/count/z=[55]/c=[20]': '4a5e00dda2789473',
    '3d/numpy/(1, 5)/L4@2/int32-float64/nd=2/mean/z=[55]/c=[20]': '4a5e00dda2789473',
    '3d/numpy/(1, 5)/L4@2/int32-float64/nd=2/max/z=[55]/c=[20]': '4a5e00dda2789473',
    '3d/numpy/(1, 5)/L4@2/int32-float64/nd=2/min/z=[55]/c=[20]': '4a5e00dda2789473',
    '3d/numpy/(1, 5)/L4@2/int32-float64/nd=2/sum/z=[55]/c=[20]': '4a5e00dda2789473',
    '3d/numpy/(1, 5)/L4@2/int32-float64/nd=2/std/z=[55]/c=[20]': '4a5e00dda2789473',
    '3d/numpy/(1, 5)/L4@2/int32-float64/nd=2/var/z=[55]/c=[20]': '4a5e00dda2789473',
    '3d/dask/(1, 5)/L4@2/int32-float64/nd=2/count/z=[55]/c=[20]': 'ab4335fca404dd3e',
    'err/agg2d': 'f4f5608a24bf70cc',
    'err/agg3d': '940f71501477c65a',
    'err/layer': '6a3cd8e260059768',
    'err/shape': '3c9c1f160f79565f',
    'err/zones3d': '390f0c8be13004ec',
    'edge/empty_cat_ids': 'df3c9fddd8b593b2',
    'edge/empty_zone_ids': 'a9f242560323f652',
    'edge/all_nan_values': 'df3c9fddd8b593b2',
    'edge/all_nan_values_pct': 'cee7bb21ae5da200',
    'stats/numpy/(3, 7)/int64-float64/z=None/nd=None': '4eef27d50b752fee',
    'stats/dask/(3, 7)/int64-float64/z=None/nd=None': 'dbe62e7dd16b9680',
    'stats/numpy/(3, 7)/int64-float64/z=None/nd=3': 'dfd818173c44f01f',
    'stats/dask/(3, 7)/int64-float64/z=None/nd=3': '83be49db5954a2ba',
    'stats/numpy/(3, 7)/int64-float64/z=[4, 0, 99]/nd=None': '2f999ef6587e8d95',
    'stats/dask/(3, 7)/int64-float64/z=[4, 0, 99]/nd=None': '1665418e4aa844fa',
    'stats/numpy/(3, 7)/int64-float64/z=[4, 0, 99]/nd=3': 'fd0e74af36041051',
    'stats/dask/(3, 7)/int64-float64/z=[4, 0, 99]/nd=3': 'dacecab4c6d83b09',
    'stats/numpy/(3, 7)/int64-float64/z=[10, -3, 1]/nd=None': 'f776dc8023efe09d',
    'stats/dask/(3, 7)/int64-float64/z=[10, -3, 1]/nd=None': 'f5b4793a7ca546d0',
    'stats/numpy/(3, 7)/int64-float64/z=[10, -3, 1]/nd=3': 'f776dc8023efe09d',
    'stats/dask/(3, 7)/int64-float64/z=[10, -3, 1]/nd=3': 'f5b4793a7ca546d0',
    'stats/numpy/(6, 9)/float64-float32/z=None/nd=None': '64416fac191a84e3',
    'stats/dask/(6, 9)/float64-float32/z=None/nd=None': '2b6ae639865500ce',
    'stats/numpy/(6, 9)/float64-float32/z=None/nd=3': '812aa2b94029620b',
    'stats/dask/(6, 9)/float64-float32/z=None/nd=3': 'dd57ccd9808dbaf2',
    'stats/numpy/(6, 9)/float64-float32/z=[4, 0, 99]/nd=None': 'fae79f776d018479',
    'stats/dask/(6, 9)/float64-float32/z=[4, 0, 99]/nd=None': '8c1bf1b1ee3ba8a1',
    'stats/numpy/(6, 9)/float64-float32/z=[4, 0, 99]/nd=3': '2e4c4526ec8ad856',
    'stats/dask/(6, 9)/float64-float32/z=[4, 0, 99]/nd=3': '07af7d60b254f920',
    'stats/numpy/(6, 9)/float64-float32/z=[10, -3, 1]/nd=None': 'a92ac47d4fe9929b',
    'stats/dask/(6, 9)/float64-float32/z=[10, -3, 1]/nd=None': '1885b3fe86f70d36',
    'stats/numpy/(6, 9)/float64-float32/z=[10, -3, 1]/nd=3': 'f1e8db85088b1863',
    'stats/dask/(6, 9)/float64-float32/z=[10, -3, 1]/nd=3': '83ac87a13c519f60',
    'stats/numpy/(1, 6)/float32-int32/z=None/nd=None': '237d7cdc60b8d3c0',
    'stats/dask/(1, 6)/float32-int32/z=None/nd=None': '4b32c63a222478f8',
    'stats/numpy/(1, 6)/float32-int32/z=None/nd=3': '8e5826dcb4f8de45',
    'stats/dask/(1, 6)/float32-int32/z=None/nd=3': '699245342b23417f',
    'stats/numpy/(1, 6)/float32-int32/z=[4, 0, 99]/nd=None': 'b810c82e8cc9c4d9',
    'stats/dask/(1, 6)/float32-int32/z=[4, 0, 99]/nd=None': '97d8517cf8af7a95',
    'stats/numpy/(1, 6)/float32-int32/z=[4, 0, 99]/nd=3': 'b810c82e8cc9c4d9',
    'stats/dask/(1, 6)/float32-int32/z=[4, 0, 99]/nd=3': '97d8517cf8af7a95',
    'stats/numpy/(1, 6)/float32-int32/z=[10, -3, 1]/nd=None': '0a129c77591d9973',
    'stats/dask/(1, 6)/float32-int32/z=[10, -3, 1]/nd=None': 'ef21a7e17adbd345',
    'stats/numpy/(1, 6)/float32-int32/z=[10, -3, 1]/nd=3': '4b26129aaa72369f',
    'stats/dask/(1, 6)/float32-int32/z=[10, -3, 1]/nd=3': '84d159c528e2e493',
    'stats/numpy/(5, 4)/int32-int64/z=None/nd=None': '1ad90a1b5b606ab2',
    'stats/dask/(5, 4)/int32-int64/z=None/nd=None': '7a459faed8441b81',
    'stats/numpy/(5, 4)/int32-int64/z=None/nd=3': '96725c123900e32a',
    'stats/dask/(5, 4)/int32-int64/z=None/nd=3': 'd5b969d810127388',
    'stats/numpy/(5, 4)/int32-int64/z=[4, 0, 99]/nd=None': 'ac3c475b1860daa2',
    'stats/dask/(5, 4)/int32-int64/z=[4, 0, 99]/nd=None': '2c10431896d32c0d',
    'stats/numpy/(5, 4)/int32-int64/z=[4, 0, 99]/nd=3': '507192d42e282acf',
    'stats/dask/(5, 4)/int32-int64/z=[4, 0, 99]/nd=3': 'cece8c844d61e241',
    'stats/numpy/(5, 4)/int32-int64/z=[10, -3, 1]/nd=None': 'f8fed3e12b54e6b9',
    'stats/dask/(5, 4)/int32-int64/z=[10, -3, 1]/nd=None': '23dd5960748eb1e7',
    'stats/numpy/(5, 4)/int32-int64/z=[10, -3, 1]/nd=3': 'c804aa970156fb9f',
    'stats/dask/(5, 4)/int32-int64/z=[10, -3, 1]/nd=3': '57e0a7e7347a0767',
}


# --------------------------------------------------------------------------
# canonical form
# --------------------------------------------------------------------------
def _canon_scalar(x):
    if isinstance(x, (float, np.floating)):
        return "%s:%s" % (type(x).__name__, float(x).hex() if np.isfinite(x) else repr(float(x)))
    return "%s:%r" % (type(x).__name__, x.item() if hasattr(x, "item") else x)


def canon_df(df):
    if hasattr(df, "compute"):
        kind = "dask"
        df = df.compute()
    else:
        kind = "pandas"
    assert isinstance(df, pd.DataFrame)
    parts = [kind, "shape=%r" % (df.shape,), "index=%r" % (list(df.index),)]
    for col in df.columns:
        arr = df[col].to_numpy()
        parts.append(
            "col[%s] dtype=%s vals=[%s]"
            % (_canon_scalar(col), arr.dtype, ",".join(_canon_scalar(v) for v in arr))
        )
    return "\n".join(parts), df


def canon_any(res):
    if isinstance(res, xr.DataArray):
        data = res.data
        if hasattr(data, "compute"):
            data = data.compute()
        return "xr dims=%r dtype=%s vals=[%s]" % (
            res.dims, data.dtype, ",".join(_canon_scalar(v) for v in np.asarray(data).ravel()))
    return canon_df(res)[0]


# --------------------------------------------------------------------------
# inputs
# --------------------------------------------------------------------------
def make_zones(shape, dtype, seed, ids=(-3, 0, 1, 4, 7, 10), holes=True):
    rs = np.random.RandomState(seed)
    z = rs.choice(np.array(ids), size=shape).astype(dtype)
    if holes and np.issubdtype(np.dtype(dtype), np.floating) and z.size > 3:
        flat = z.ravel()
        flat[rs.randint(0, flat.size)] = np.nan
        flat[rs.randint(0, flat.size)] = np.inf
        flat[rs.randint(0, flat.size)] = -np.inf
    return z


def make_values2d(shape, dtype, seed, cats=(0, 1, 2, 3, 5, 8, 13), holes=True):
    rs = np.random.RandomState(seed + 1000)
    v = rs.choice(np.array(cats), size=shape).astype(dtype)
    if holes and np.issubdtype(np.dtype(dtype), np.floating) and v.size > 3:
        flat = v.ravel()
        for _ in range(max(1, flat.size // 6)):
            flat[rs.randint(0, flat.size)] = np.nan
        flat[rs.randint(0, flat.size)] = np.inf
        flat[rs.randint(0, flat.size)] = -np.inf
    return v


def make_values3d(nlayers, shape, dtype, seed, holes=True):
    rs = np.random.RandomState(seed + 2000)
    v = rs.randint(-4, 9, size=(nlayers,) + shape).astype(dtype)
    if np.issubdtype(np.dtype(dtype), np.floating):
        v = v + rs.choice(np.array([0.0, 0.25, 0.5]), size=v.shape).astype(dtype)
        if holes and v.size > 3:
            flat = v.ravel()
            for _ in range(max(1, flat.size // 6)):
                flat[rs.randint(0, flat.size)] = np.nan
            flat[rs.randint(0, flat.size)] = np.inf
    return v


def to_da(arr, dims, chunks=None, coords=None):
    data = arr
    if chunks is not None:
        data = da.from_array(arr, chunks=chunks)
    return xr.DataArray(data, dims=dims, coords=coords)


# --------------------------------------------------------------------------
# brute-force expectations
# --------------------------------------------------------------------------
def _valid(v, nodata):
    ok = np.isfinite(v)
    if nodata is not None:
        ok &= (v != nodata)
    return ok


def brute_2d(zones, values, zone_ids, cat_ids, nodata, agg):
    uz = np.unique(zones[np.isfinite(zones)])
    ok = _valid(values, nodata)
    ucats = np.unique(values[ok])
    rows = [z for z in uz if (zone_ids is None or z in zone_ids)]
    cols = list(ucats) if cat_ids is None else [c for c in cat_ids if c in ucats]
    table = np.zeros((len(rows), len(cols)), dtype=np.float64)
    for i, z in enumerate(rows):
        inz = (zones == z) & ok
        tot = inz.sum()
        for j, c in enumerate(cols):
            n = ((values == c) & inz).sum()
            if agg == "count":
                table[i, j] = n
            else:
                table[i, j] = np.nan if tot == 0 else n / np.float32(tot) * 100
    return rows, cols, table


_NP_AGG = dict(
    mean=np.mean, max=np.max, min=np.min, sum=np.sum, std=np.std, var=np.var,
    count=lambda a: a.size,
)


def brute_3d(zones, values, layer_labels, zone_ids, cat_ids, nodata, agg):
    uz = np.unique(zones[np.isfinite(zones)])
    rows = [z for z in uz if (zone_ids is None or z in zone_ids)]
    labels = list(layer_labels)
    cols = labels if cat_ids is None else [c for c in cat_ids if c in labels]
    table = np.zeros((len(rows), len(cols)), dtype=np.float64)
    for i, z in enumerate(rows):
        for j, c in enumerate(cols):
            lay = values[labels.index(c)]
            cells = lay[(zones == z) & _valid(lay, nodata)]
            with np.errstate(all="ignore"):
                table[i, j] = _NP_AGG[agg](cells) if (cells.size or agg in ("count", "sum")) \
                    else np.nan
    return rows, cols, table


def check_table(name, df, rows, cols, table, failures, rtol=0.0):
    ok = True
    if list(df.columns) != ["zone"] + list(cols):
        ok = False
    elif list(df["zone"]) != list(rows):
        ok = False
    elif len(cols):
        got = df[list(cols)].to_numpy().astype(np.float64).reshape(len(rows), len(cols))
        if rtol:
            same = np.isclose(got, table, rtol=rtol, atol=1e-9, equal_nan=True)
        else:
            same = (got == table) | (np.isnan(got) & np.isnan(table))
        ok = bool(np.all(same))
    if not ok:
        failures.append("BRUTE-FORCE MISMATCH in %s\n got:\n%s\n expected rows=%r cols=%r\n%s"
                        % (name, df, rows, cols, table))


# --------------------------------------------------------------------------
# cases
# --------------------------------------------------------------------------
ZONE_SELECTIONS = [None, [4, 0], [10, -3, 99, 1], [7], [55], [0, 1, 4, 7, 10, -3]]
CAT_SELECTIONS = [None, [5, 1], [13, 0, 77, 2], [8], [42]]


def run_cases():
    out = {}
    failures = []

    def record(name, fn):
        try:
            res = fn()
            if isinstance(res, tuple):
                text, extra = res
            else:
                text, extra = res, None
        except Exception as e:  # recorded: behaviour on errors must be kept too
            text, extra = "EXC %s: %s" % (type(e).__name__, e), None
        out[name] = text
        return extra

    # ---- 2-D ------------------------------------------------------------
    shapes = [(1, 1), (1, 6), (5, 1), (3, 7), (6, 9)]
    combos = [
        (np.int32, np.int64), (np.int64, np.float64), (np.float64, np.float32),
        (np.float32, np.int32), (np.float64, np.float64),
    ]
    case = 0
    for shape in shapes:
        for zdt, vdt in combos:
            case += 1
            zones = make_zones(shape, zdt, seed=case)
            values = make_values2d(shape, vdt, seed=case)
            zsel = ZONE_SELECTIONS[case % len(ZONE_SELECTIONS)]
            csel = CAT_SELECTIONS[case % len(CAT_SELECTIONS)]
            for nodata in (None, 3):
                for agg in ("count", "percentage"):
                    for (zi, ci) in ((None, None), (zsel, csel), (zsel, None), (None, csel)):
                        for backend in ("numpy", "dask"):
                            if backend == "dask":
                                if (zi is None) != (ci is None):
                                    continue  # keep the dask part of the run short
                                chunks = (max(1, shape[0] // 2), max(1, (shape[1] + 2) // 3))
                            else:
                                chunks = None
                            name = "2d/%s/%s/%s-%s/nd=%r/%s/z=%r/c=%r" % (
                                backend, shape, np.dtype(zdt), np.dtype(vdt), nodata, agg, zi, ci)
                            zda = to_da(zones, ("y", "x"), chunks)
                            vda = to_da(values, ("y", "x"), chunks)
                            df = record(name, lambda: canon_df(crosstab(
                                zda, vda, zone_ids=zi, cat_ids=ci, agg=agg,
                                nodata_values=nodata)))
                            if df is not None:
                                rows, cols, table = brute_2d(zones, values, zi, ci, nodata, agg)
                                check_table(name, df, rows, cols, table, failures,
                                            rtol=1e-6 if agg == "percentage" else 0.0)

    # ---- 3-D ------------------------------------------------------------
    labels_sets = {3: ["a", "b", "c"], 4: [10, 20, 30, 40]}
    cat_sel_3d = {3: [None, ["c", "a"], ["b", "zz"]], 4: [None, [40, 10, 99], [20]]}
    for k, (nl, shape, zdt, vdt) in enumerate([
        (3, (4, 5), np.int64, np.float64),
        (4, (3, 7), np.float64, np.int32),
        (3, (6, 2), np.float32, np.float32),
        (4, (1, 5), np.int32, np.float64),
    ]):
        zones = make_zones(shape, zdt, seed=100 + k)
        values = make_values3d(nl, shape, vdt, seed=100 + k)
        labels = labels_sets[nl]
        for layer_pos in (0, 2):
            if layer_pos == 0:
                dims, arr, layer_arg = ("lyr", "y", "x"), values, None
            else:
                dims, arr, layer_arg = ("y", "x", "lyr"), np.moveaxis(values, 0, -1).copy(), -1
            for nodata in (None, 2):
                for zi in (None, ZONE_SELECTIONS[(k + 1) % len(ZONE_SELECTIONS)]):
                    for ci in cat_sel_3d[nl]:
                        for backend, aggs in (
                            ("numpy", ["count", "mean", "max", "min", "sum", "std", "var"]),
                            ("dask", ["count"]),
                        ):
                            for agg in aggs:
                                if backend == "dask":
                                    zch = (max(1, shape[0] // 2), max(1, (shape[1] + 1) // 2))
                                    vch = (nl,) + zch if layer_pos == 0 else zch + (nl,)
                                else:
                                    zch = vch = None
                                name = "3d/%s/%s/L%d@%d/%s-%s/nd=%r/%s/z=%r/c=%r" % (
                                    backend, shape, nl, layer_pos, np.dtype(zdt), np.dtype(vdt),
                                    nodata, agg, zi, ci)
                                zda = to_da(zones, ("y", "x"), zch)
                                vda = to_da(arr, dims, vch, coords={"lyr": labels})
                                df = record(name, lambda: canon_df(crosstab(
                                    zda, vda, zone_ids=zi, cat_ids=ci, layer=layer_arg, agg=agg,
                                    nodata_values=nodata)))
                                if df is not None:
                                    rows, cols, table = brute_3d(
                                        zones, values, labels, zi, ci, nodata, agg)
                                    check_table(name, df, rows, cols, table, failures,
                                                rtol=0.0 if agg in ("count", "max", "min") else 1e-9)

    # ---- argument errors keep their order / messages ----------------------
    z = to_da(make_zones((3, 4), np.int64, 7), ("y", "x"))
    v = to_da(make_values2d((3, 4), np.float64, 7), ("y", "x"))
    v3 = to_da(make_values3d(2, (3, 4), np.float64, 7), ("l", "y", "x"), coords={"l": [1, 2]})
    record("err/agg2d", lambda: canon_df(crosstab(z, v, agg="mean")))
    record("err/agg3d", lambda: canon_df(crosstab(z, v3, agg="percentage")))
    record("err/layer", lambda: canon_df(crosstab(z, v3, layer=5)))
    record("err/shape", lambda: canon_df(crosstab(z[:2], v3)))
    record("err/zones3d", lambda: canon_df(crosstab(v3, v)))
    record("edge/empty_cat_ids", lambda: canon_df(crosstab(z, v, cat_ids=[])))
    record("edge/empty_zone_ids", lambda: canon_df(crosstab(z, v, zone_ids=[])))
    record("edge/all_nan_values", lambda: canon_df(crosstab(z, v * np.nan)))
    record("edge/all_nan_values_pct", lambda: canon_df(
        crosstab(z, v.where(z != 4), agg="percentage")))

    # ---- zonal.stats shares _strides/_sort_and_stride ----------------------
    for k, (shape, zdt, vdt) in enumerate([
        ((3, 7), np.int64, np.float64), ((6, 9), np.float64, np.float32),
        ((1, 6), np.float32, np.int32), ((5, 4), np.int32, np.int64),
    ]):
        zones = make_zones(shape, zdt, seed=300 + k)
        values = make_values2d(shape, vdt, seed=300 + k)
        for zi in (None, [4, 0, 99], [10, -3, 1]):
            for nodata in (None, 3):
                for backend in ("numpy", "dask"):
                    chunks = None if backend == "numpy" else (
                        max(1, shape[0] // 2), max(1, (shape[1] + 1) // 2))
                    name = "stats/%s/%s/%s-%s/z=%r/nd=%r" % (
                        backend, shape, np.dtype(zdt), np.dtype(vdt), zi, nodata)
                    record(name, lambda: canon_any(stats(
                        to_da(zones, ("y", "x"), chunks), to_da(values, ("y", "x"), chunks),
                        zone_ids=zi, nodata_values=nodata)))
    return out, failures


def main():
    print("xrspatial from", xrspatial.__file__)
    out, failures = run_cases()
    digests = {k: hashlib.sha256(v.encode()).hexdigest()[:16] for k, v in out.items()}
    n_exc = sum(1 for v in out.values() if v.startswith("EXC"))
    print("cases: %d (of which raising: %d)" % (len(out), n_exc))
    if "--record" in sys.argv:
        print("EXPECTED = {")
        for k in digests:
            print("    %r: %r," % (k, digests[k]))
        print("}")
        return 0
    if "--dump" in sys.argv:
        for k, v in out.items():
            print("=== " + k + "\n" + v)
    bad = 0
    for msg in failures:
        bad += 1
        print(msg)
    if set(digests) != set(EXPECTED):
        bad += 1
        print("case set differs from the recorded one")
    for k, d in digests.items():
        if EXPECTED.get(k) != d:
            bad += 1
            print("DIFFERS from recorded baseline: %s\n%s" % (k, out[k]))
    if bad:
        print("FAILED: %d problem(s)" % bad)
        return 1
    print("OK: all results identical to baseline and to brute force")
    return 0


if __name__ == "__main__":
    sys.exit(main())
