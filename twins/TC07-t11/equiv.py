"""Differential test for C07 refactorings of xrspatial/proximity.py.

Runs proximity / allocation / direction on NumPy- and Dask-backed rasters
(several dtypes, NaNs, odd shapes, non-unit and descending coordinates,
finite / fractional / infinite max_distance, three metrics, explicit and
default targets, several chunkings and schedulers) and compares
  (a) the SHA-256 of the raw result bytes (+dtype+shape) against digests
      recorded from the unmodified tree (bit-identical check), and
  (b) every Dask result against the NumPy result (the C07 property).
Also checks that the raising paths still raise the same exception types.

usage:  python equiv.py            -> exit 0 if identical, 1 otherwise
        python equiv.py --record   -> print the EXPECTED dict
"""
import hashlib
import sys
import warnings

import dask
import dask.array as da
import numpy as np
import xarray as xr

warnings.filterwarnings("ignore")

import xrspatial  # noqa: E402
from xrspatial import allocation, direction, proximity  # noqa: E402

FUNCS = {"proximity": proximity, "allocation": allocation,
         "direction": direction}

FNAMES = sorted(FUNCS)

# digests recorded from the unmodified tree (python equiv.py --record)
EXPECTED = {
    'f32_10x7|allocation|0.24': '90954de151095db1ce05',
    'f32_10x7|allocation|0.24|c0': '90954de151095db1ce05',
    'f32_10x7|allocation|0.26': '90954de151095db1ce05',
    'f32_10x7|allocation|0.26|c2': '90954de151095db1ce05',
    'f32_10x7|allocation|2.0': '95cfd31961a2b3979d69',
    'f32_10x7|allocation|2.0|c1': '95cfd31961a2b3979d69',
    'f32_10x7|allocation|3.1': '2b6023db7fec374c2956',
    'f32_10x7|allocation|3.1|c0': '2b6023db7fec374c2956',
    'f32_10x7|allocation|inf': '8dacbd3ee99a4c4dc196',
    'f32_10x7|allocation|inf|c0': '8dacbd3ee99a4c4dc196',
    'f32_10x7|allocation|inf|c1': '8dacbd3ee99a4c4dc196',
    'f32_10x7|direction|0.24': 'baf49802197de4ca560c',
    'f32_10x7|direction|0.24|c1': 'baf49802197de4ca560c',
    'f32_10x7|direction|0.26': 'baf49802197de4ca560c',
    'f32_10x7|direction|0.26|c0': 'baf49802197de4ca560c',
    'f32_10x7|direction|2.0': '64ff095abbf9124fb9ba',
    'f32_10x7|direction|2.0|c2': '64ff095abbf9124fb9ba',
    'f32_10x7|direction|3.1': '1e1e83a81e5031794c79',
    'f32_10x7|direction|3.1|c1': '1e1e83a81e5031794c79',
    'f32_10x7|direction|inf': '725722bde88a1acc4342',
    'f32_10x7|direction|inf|c0': '725722bde88a1acc4342',
    'f32_10x7|direction|inf|c2': '725722bde88a1acc4342',
    'f32_10x7|proximity|0.24': 'baf49802197de4ca560c',
    'f32_10x7|proximity|0.24|c2': 'baf49802197de4ca560c',
    'f32_10x7|proximity|0.26': 'baf49802197de4ca560c',
    'f32_10x7|proximity|0.26|c1': 'baf49802197de4ca560c',
    'f32_10x7|proximity|2.0': 'aeed0934efbd11d8b4a5',
    'f32_10x7|proximity|2.0|c0': 'aeed0934efbd11d8b4a5',
    'f32_10x7|proximity|3.1': '9da9d59df8c0fad443b7',
    'f32_10x7|proximity|3.1|c2': '9da9d59df8c0fad443b7',
    'f32_10x7|proximity|inf': 'defcca668f017ddd90b2',
    'f32_10x7|proximity|inf|c0': 'defcca668f017ddd90b2',
    'f32_gc_7x9|allocation|112000.0': '73a1bebc76c0dd611173',
    'f32_gc_7x9|allocation|28000.0': '792fc21c27e86ce95c49',
    'f32_gc_7x9|allocation|inf': '8d04d14934d17d09ed20',
    'f32_gc_7x9|allocation|inf|c0': '8d04d14934d17d09ed20',
    'f32_gc_7x9|direction|112000.0': '0c76b518a0eb275780d3',
    'f32_gc_7x9|direction|28000.0': '9b53d0d263c5f3cc1c26',
    'f32_gc_7x9|direction|inf': '5b54ec4e25e56704cb92',
    'f32_gc_7x9|direction|inf|c0': '5b54ec4e25e56704cb92',
    'f32_gc_7x9|proximity|112000.0': '9b9937ec1f4a7b337313',
    'f32_gc_7x9|proximity|28000.0': 'c546dd35b31285bdc767',
    'f32_gc_7x9|proximity|inf': '8259b0b5ba09ec44a2ab',
    'f32_gc_7x9|proximity|inf|c0': '8259b0b5ba09ec44a2ab',
    'f64_1x9|allocation|1.0': 'dd8376744d16d1c28e13',
    'f64_1x9|allocation|1.0|c1': 'dd8376744d16d1c28e13',
    'f64_1x9|allocation|inf': '46e48d10a36cfdbea5e7',
    'f64_1x9|allocation|inf|c0': '46e48d10a36cfdbea5e7',
    'f64_1x9|direction|1.0': 'b7b84d2ca6445dd83868',
    'f64_1x9|direction|inf': '2dd9a4f250b8cbf692fc',
    'f64_1x9|direction|inf|c0': '2dd9a4f250b8cbf692fc',
    'f64_1x9|proximity|1.0': '6c0c20cd680fb565455f',
    'f64_1x9|proximity|1.0|c0': '6c0c20cd680fb565455f',
    'f64_1x9|proximity|inf': 'd1907120b0c1cef4c4cc',
    'f64_1x9|proximity|inf|c0': 'd1907120b0c1cef4c4cc',
    'f64_1x9|proximity|inf|c1': 'd1907120b0c1cef4c4cc',
    'f64_9x13|allocation|0.4': 'a6224c1b0c02aa28ce0c',
    'f64_9x13|allocation|0.4|c1': 'a6224c1b0c02aa28ce0c',
    'f64_9x13|allocation|0.5': 'a6224c1b0c02aa28ce0c',
    'f64_9x13|allocation|0.5|c0': 'a6224c1b0c02aa28ce0c',
    'f64_9x13|allocation|1.5': '45c17717b1da9ff8c39a',
    'f64_9x13|allocation|1.5|c2': '45c17717b1da9ff8c39a',
    'f64_9x13|allocation|100.0': '060818fd3c51a9ddd7a4',
    'f64_9x13|allocation|2.3': '3092e66364ed6b5559f1',
    'f64_9x13|allocation|2.3|c1': '3092e66364ed6b5559f1',
    'f64_9x13|allocation|inf': '060818fd3c51a9ddd7a4',
    'f64_9x13|allocation|inf|c0': '060818fd3c51a9ddd7a4',
    'f64_9x13|allocation|inf|c2': '060818fd3c51a9ddd7a4',
    'f64_9x13|direction|0.4': '53aa06be61759dc4dd8f',
    'f64_9x13|direction|0.4|c2': '53aa06be61759dc4dd8f',
    'f64_9x13|direction|0.5': '53aa06be61759dc4dd8f',
    'f64_9x13|direction|0.5|c1': '53aa06be61759dc4dd8f',
    'f64_9x13|direction|1.5': 'c23b87ba8696d8bdd1bf',
    'f64_9x13|direction|1.5|c0': 'c23b87ba8696d8bdd1bf',
    'f64_9x13|direction|100.0': 'b66e6f35cba0b01ce2c1',
    'f64_9x13|direction|2.3': 'cf71ed224242d2ad8827',
    'f64_9x13|direction|2.3|c2': 'cf71ed224242d2ad8827',
    'f64_9x13|direction|inf': 'b66e6f35cba0b01ce2c1',
    'f64_9x13|direction|inf|c0': 'b66e6f35cba0b01ce2c1',
    'f64_9x13|proximity|0.4': '53aa06be61759dc4dd8f',
    'f64_9x13|proximity|0.4|c0': '53aa06be61759dc4dd8f',
    'f64_9x13|proximity|0.5': '53aa06be61759dc4dd8f',
    'f64_9x13|proximity|0.5|c2': '53aa06be61759dc4dd8f',
    'f64_9x13|proximity|1.5': 'acd0010d2bf5b2848c12',
    'f64_9x13|proximity|1.5|c1': 'acd0010d2bf5b2848c12',
    'f64_9x13|proximity|100.0': 'd5e14dbe30df394d4bfc',
    'f64_9x13|proximity|2.3': '68ee09889754ea2c3d64',
    'f64_9x13|proximity|2.3|c0': '68ee09889754ea2c3d64',
    'f64_9x13|proximity|inf': 'd5e14dbe30df394d4bfc',
    'f64_9x13|proximity|inf|c0': 'd5e14dbe30df394d4bfc',
    'f64_9x13|proximity|inf|c1': 'd5e14dbe30df394d4bfc',
    'f64_9x1|allocation|1.0': '75cb5c15de7f6f602cc3',
    'f64_9x1|allocation|1.0|c0': '75cb5c15de7f6f602cc3',
    'f64_9x1|allocation|inf': 'fc4bd4e67d6b789d46a3',
    'f64_9x1|allocation|inf|c0': 'fc4bd4e67d6b789d46a3',
    'f64_9x1|allocation|inf|c1': 'fc4bd4e67d6b789d46a3',
    'f64_9x1|direction|1.0': 'e197438628630729775c',
    'f64_9x1|direction|1.0|c1': 'e197438628630729775c',
    'f64_9x1|direction|inf': '9f90795d97ad08b01b23',
    'f64_9x1|direction|inf|c0': '9f90795d97ad08b01b23',
    'f64_9x1|proximity|1.0': '92ab6c747006ffd5f553',
    'f64_9x1|proximity|inf': '84702aa8b540c1c0c68e',
    'f64_9x1|proximity|inf|c0': '84702aa8b540c1c0c68e',
    'f64_badmetric_5x6|allocation|1.0': '8cac8657344099a076c3',
    'f64_badmetric_5x6|allocation|2.0': 'c425aebd070cd0d0dba7',
    'f64_badmetric_5x6|allocation|2.0|c1': 'c425aebd070cd0d0dba7',
    'f64_badmetric_5x6|allocation|inf': '2d7f1cecf89d785dfc05',
    'f64_badmetric_5x6|allocation|inf|c0': '2d7f1cecf89d785dfc05',
    'f64_badmetric_5x6|direction|1.0': '4cb1fc62e078a33f3155',
    'f64_badmetric_5x6|direction|1.0|c0': '4cb1fc62e078a33f3155',
    'f64_badmetric_5x6|direction|2.0': 'af35d42ee113e51ba129',
    'f64_badmetric_5x6|direction|inf': '97689db747a8523df625',
    'f64_badmetric_5x6|direction|inf|c0': '97689db747a8523df625',
    'f64_badmetric_5x6|direction|inf|c1': '97689db747a8523df625',
    'f64_badmetric_5x6|proximity|1.0': '946a91d3d3753f88c6a8',
    'f64_badmetric_5x6|proximity|1.0|c1': '946a91d3d3753f88c6a8',
    'f64_badmetric_5x6|proximity|2.0': '82169e8d3a88cf7c8c54',
    'f64_badmetric_5x6|proximity|2.0|c0': '82169e8d3a88cf7c8c54',
    'f64_badmetric_5x6|proximity|inf': '4f6fa30d05bb4602f267',
    'f64_badmetric_5x6|proximity|inf|c0': '4f6fa30d05bb4602f267',
    'f64_gc_9x10|allocation|10000000.0': 'f8199dd78989816d4cfb',
    'f64_gc_9x10|allocation|120000.0': '6b56462256a34c01bc52',
    'f64_gc_9x10|allocation|56000.0': '47284dd57e3804d6ce54',
    'f64_gc_9x10|allocation|inf': 'f8199dd78989816d4cfb',
    'f64_gc_9x10|allocation|inf|c0': 'f8199dd78989816d4cfb',
    'f64_gc_9x10|allocation|inf|c1': 'f8199dd78989816d4cfb',
    'f64_gc_9x10|direction|10000000.0': '50df40efa55cc97408e6',
    'f64_gc_9x10|direction|120000.0': 'dc8f3dd60b533ab91e6f',
    'f64_gc_9x10|direction|56000.0': '2c346a1eb57349b0341c',
    'f64_gc_9x10|direction|inf': '50df40efa55cc97408e6',
    'f64_gc_9x10|direction|inf|c0': '50df40efa55cc97408e6',
    'f64_gc_9x10|proximity|10000000.0': '595ceee52e6df95c4e4b',
    'f64_gc_9x10|proximity|120000.0': 'f545de3022cdfbf48e2a',
    'f64_gc_9x10|proximity|56000.0': '11400e9d1e48122a78b8',
    'f64_gc_9x10|proximity|inf': '595ceee52e6df95c4e4b',
    'f64_gc_9x10|proximity|inf|c0': '595ceee52e6df95c4e4b',
    'f64_sparse_15x15|allocation|2.0': '029cd120fe45c20f4d49',
    'f64_sparse_15x15|allocation|2.0|c1': '029cd120fe45c20f4d49',
    'f64_sparse_15x15|allocation|2.5': '49b438c7dbe9106e0d99',
    'f64_sparse_15x15|allocation|2.5|c0': '49b438c7dbe9106e0d99',
    'f64_sparse_15x15|allocation|4.2': '93928c4878443ce5f0cd',
    'f64_sparse_15x15|allocation|4.2|c2': '93928c4878443ce5f0cd',
    'f64_sparse_15x15|allocation|inf': '1b659dd799c01afe9981',
    'f64_sparse_15x15|allocation|inf|c0': '1b659dd799c01afe9981',
    'f64_sparse_15x15|allocation|inf|c2': '1b659dd799c01afe9981',
    'f64_sparse_15x15|direction|2.0': '3b1d50178a7a73643747',
    'f64_sparse_15x15|direction|2.0|c2': '3b1d50178a7a73643747',
    'f64_sparse_15x15|direction|2.5': '65c23db14a10e7b1b63d',
    'f64_sparse_15x15|direction|2.5|c1': '65c23db14a10e7b1b63d',
    'f64_sparse_15x15|direction|4.2': '4a04e12885939abfc361',
    'f64_sparse_15x15|direction|4.2|c0': '4a04e12885939abfc361',
    'f64_sparse_15x15|direction|inf': 'd50b20001cc13aca2319',
    'f64_sparse_15x15|direction|inf|c0': 'd50b20001cc13aca2319',
    'f64_sparse_15x15|proximity|2.0': 'ae798aa5c28c38013c09',
    'f64_sparse_15x15|proximity|2.0|c0': 'ae798aa5c28c38013c09',
    'f64_sparse_15x15|proximity|2.5': 'b9063b5c66a35a213337',
    'f64_sparse_15x15|proximity|2.5|c2': 'b9063b5c66a35a213337',
    'f64_sparse_15x15|proximity|4.2': '34dd44c59ab3b3ea5ffc',
    'f64_sparse_15x15|proximity|4.2|c1': '34dd44c59ab3b3ea5ffc',
    'f64_sparse_15x15|proximity|inf': '4de20c0d03e117d59d16',
    'f64_sparse_15x15|proximity|inf|c0': '4de20c0d03e117d59d16',
    'f64_sparse_15x15|proximity|inf|c1': '4de20c0d03e117d59d16',
    'i32_11x8|allocation|1.0': '946559080f69e67f5fa6',
    'i32_11x8|allocation|1.0|c2': '946559080f69e67f5fa6',
    'i32_11x8|allocation|3.9': '5fea7a0c5f8e665b5ecf',
    'i32_11x8|allocation|3.9|c1': '5fea7a0c5f8e665b5ecf',
    'i32_11x8|allocation|40.0': 'f142474036785cefb478',
    'i32_11x8|allocation|inf': 'f142474036785cefb478',
    'i32_11x8|allocation|inf|c0': 'f142474036785cefb478',
    'i32_11x8|direction|1.0': '6a4db3fc72d3fef591ad',
    'i32_11x8|direction|1.0|c0': '6a4db3fc72d3fef591ad',
    'i32_11x8|direction|3.9': '610a20df343db1de0bff',
    'i32_11x8|direction|3.9|c2': '610a20df343db1de0bff',
    'i32_11x8|direction|40.0': '7f96b80bf9784b12d2c4',
    'i32_11x8|direction|inf': '7f96b80bf9784b12d2c4',
    'i32_11x8|direction|inf|c0': '7f96b80bf9784b12d2c4',
    'i32_11x8|direction|inf|c1': '7f96b80bf9784b12d2c4',
    'i32_11x8|proximity|1.0': '6a4db3fc72d3fef591ad',
    'i32_11x8|proximity|1.0|c1': '6a4db3fc72d3fef591ad',
    'i32_11x8|proximity|3.9': '7844be578f5087e6865e',
    'i32_11x8|proximity|3.9|c0': '7844be578f5087e6865e',
    'i32_11x8|proximity|40.0': '0004ea5d20f05786b88f',
    'i32_11x8|proximity|inf': '0004ea5d20f05786b88f',
    'i32_11x8|proximity|inf|c0': '0004ea5d20f05786b88f',
    'i32_11x8|proximity|inf|c2': '0004ea5d20f05786b88f',
    'i64_8x12|allocation|2': 'dc5b4a5c29f434afaedf',
    'i64_8x12|allocation|2|c1': 'dc5b4a5c29f434afaedf',
    'i64_8x12|allocation|4.5': '08c8cffc547e27a691fc',
    'i64_8x12|allocation|4.5|c0': '08c8cffc547e27a691fc',
    'i64_8x12|allocation|inf': '0f46763350d5571164fc',
    'i64_8x12|allocation|inf|c0': '0f46763350d5571164fc',
    'i64_8x12|direction|2': '69a30ca8bf685efdfc56',
    'i64_8x12|direction|4.5': 'f12da8c331dfa16b830b',
    'i64_8x12|direction|4.5|c1': 'f12da8c331dfa16b830b',
    'i64_8x12|direction|inf': '05dfd60351523923281f',
    'i64_8x12|direction|inf|c0': '05dfd60351523923281f',
    'i64_8x12|proximity|2': 'b53db9ccfaf66306ab7c',
    'i64_8x12|proximity|2|c0': 'b53db9ccfaf66306ab7c',
    'i64_8x12|proximity|4.5': '6889647903f16efce957',
    'i64_8x12|proximity|inf': 'bcc9edbdf7b665609e05',
    'i64_8x12|proximity|inf|c0': 'bcc9edbdf7b665609e05',
    'i64_8x12|proximity|inf|c1': 'bcc9edbdf7b665609e05',
    'raise|allocation|dims': 'ValueError:raster.coords should be named as coordinates:(y, x)',
    'raise|allocation|gc|dask': 'ValueError',
    'raise|allocation|gc|numpy': 'ValueError',
    'raise|allocation|unhashable': 'TypeError',
    'raise|direction|dims': 'ValueError:raster.coords should be named as coordinates:(y, x)',
    'raise|direction|gc|dask': 'ValueError',
    'raise|direction|gc|numpy': 'ValueError',
    'raise|direction|unhashable': 'TypeError',
    'raise|proximity|dims': 'ValueError:raster.coords should be named as coordinates:(y, x)',
    'raise|proximity|gc|dask': 'ValueError',
    'raise|proximity|gc|numpy': 'ValueError',
    'raise|proximity|unhashable': 'TypeError',
    'u8_6x11|allocation|1.4': 'fc8260f04edce6c87ca0',
    'u8_6x11|allocation|1.4|c0': 'fc8260f04edce6c87ca0',
    'u8_6x11|allocation|1.5': '10083a13401ad884b717',
    'u8_6x11|allocation|2.0': '5bae14c7d803c66350d4',
    'u8_6x11|allocation|2.0|c1': '5bae14c7d803c66350d4',
    'u8_6x11|allocation|None': 'b111b26fb231dae71f19',
    'u8_6x11|allocation|None|c0': 'b111b26fb231dae71f19',
    'u8_6x11|allocation|None|c1': 'b111b26fb231dae71f19',
    'u8_6x11|direction|1.4': 'd4c9d637ba74fd918ade',
    'u8_6x11|direction|1.4|c1': 'd4c9d637ba74fd918ade',
    'u8_6x11|direction|1.5': '1fd04be8f5f77e72d109',
    'u8_6x11|direction|1.5|c0': '1fd04be8f5f77e72d109',
    'u8_6x11|direction|2.0': '399b6864338b86d7fdc8',
    'u8_6x11|direction|None': 'd8f95682c580e432be9e',
    'u8_6x11|direction|None|c0': 'd8f95682c580e432be9e',
    'u8_6x11|proximity|1.4': 'c53b7e0bce43bd734313',
    'u8_6x11|proximity|1.5': '5d152838832715eae7df',
    'u8_6x11|proximity|1.5|c1': '5d152838832715eae7df',
    'u8_6x11|proximity|2.0': 'fed2ecdd354a3a2d398d',
    'u8_6x11|proximity|2.0|c0': 'fed2ecdd354a3a2d398d',
    'u8_6x11|proximity|None': 'b35938480fca37e06739',
    'u8_6x11|proximity|None|c0': 'b35938480fca37e06739',
}


def digest(a):
    a = np.ascontiguousarray(a)
    h = hashlib.sha256()
    h.update(str(a.dtype).encode())
    h.update(str(a.shape).encode())
    h.update(a.tobytes())
    return h.hexdigest()[:20]


def make_raster(shape, dtype, seed, nan_frac, res, desc_y, lonlat=False,
                density=0.12):
    rng = np.random.RandomState(seed)
    h, w = shape
    data = np.zeros(shape, dtype=np.float64)
    mask = rng.rand(h, w) < density
    data[mask] = rng.randint(1, 5, size=mask.sum())
    data = data.astype(dtype)
    if nan_frac and np.issubdtype(np.dtype(dtype), np.floating):
        nm = rng.rand(h, w) < nan_frac
        data[nm] = np.nan
        # a few infs too: they are "not finite" hence never default targets
        if h * w > 20:
            data[rng.randint(h), rng.randint(w)] = np.inf
    rx, ry = res
    if lonlat:
        xs = -20.0 + np.arange(w) * rx
        ys = -10.0 + np.arange(h) * ry
    else:
        xs = 100.0 + np.arange(w) * rx
        ys = 50.0 + np.arange(h) * ry
    if desc_y:
        ys = ys[::-1].copy()
    r = xr.DataArray(data, dims=["y", "x"], coords={"y": ys, "x": xs},
                     attrs={"res": (rx, ry), "k": "v"}, name="r")
    return r


def to_dask(r, chunks):
    d = r.copy(deep=True)
    d.data = da.from_array(r.data.copy(), chunks=chunks)
    return d


# (name, shape, dtype, seed, nan_frac, res, desc_y, lonlat, metric,
#  targets, [max_distance...], [chunkings...])
CASES = [
    ("f64_9x13", (9, 13), np.float64, 1, 0.1, (1.0, 1.0), True, False,
     "EUCLIDEAN", [], [np.inf, 0.4, 0.5, 1.5, 2.3, 100.0],
     [(3, 4), (4, 13), ((2, 3, 4), (6, 7))]),
    ("f32_10x7", (10, 7), np.float32, 2, 0.15, (0.5, 2.0), False, False,
     "EUCLIDEAN", [1, 3], [np.inf, 0.24, 0.26, 2.0, 3.1],
     [(4, 3), (10, 4), ((3, 7), (7,))]),
    ("i32_11x8", (11, 8), np.int32, 3, 0.0, (2.0, 2.0), True, False,
     "MANHATTAN", [], [np.inf, 1.0, 3.9, 40.0],
     [(4, 4), (6, 5), (11, 3)]),
    ("i64_8x12", (8, 12), np.int64, 4, 0.0, (1.0, 3.0), False, False,
     "MANHATTAN", [2, 4], [np.inf, 2, 4.5],
     [(4, 6), (3, 5)]),
    ("f64_gc_9x10", (9, 10), np.float64, 5, 0.05, (0.5, 0.5), True, True,
     "GREAT_CIRCLE", [], [np.inf, 56000.0, 120000.0, 1e7],
     [(3, 5), (5, 4)]),
    ("f32_gc_7x9", (7, 9), np.float32, 6, 0.0, (1.0, 0.25), False, True,
     "GREAT_CIRCLE", [1, 2], [np.inf, 28000.0, 112000.0],
     [(4, 5)]),
    ("f64_sparse_15x15", (15, 15), np.float64, 7, 0.0, (1.0, 1.0), True,
     False, "EUCLIDEAN", [], [np.inf, 2.0, 2.5, 4.2],
     [(5, 5), (4, 7), (15, 6)]),
    ("u8_6x11", (6, 11), np.uint8, 8, 0.0, (1.0, 1.0), True, False,
     "EUCLIDEAN", [], [None, 1.4, 1.5, 2.0], [(3, 4), (6, 5)]),
    ("f64_badmetric_5x6", (5, 6), np.float64, 9, 0.2, (1.0, 1.0), True,
     False, "NOT_A_METRIC", [], [np.inf, 1.0, 2.0], [(3, 3), (2, 6)]),
    ("f64_1x9", (1, 9), np.float64, 10, 0.0, (1.0, 1.0), True, False,
     "EUCLIDEAN", [], [np.inf, 1.0], [(1, 3), (1, 9)]),
    ("f64_9x1", (9, 1), np.float64, 11, 0.0, (1.0, 1.0), True, False,
     "MANHATTAN", [], [np.inf, 1.0], [(3, 1), (4, 1)]),
]

SPARSE = {"f64_sparse_15x15": 0.02}
SCHEDULERS = ["synchronous", "threads"]


def halo_ok(r, md, chunks):
    """Stay inside the property's domain: halo (cells) <= raster extent, and
    (dask requirement) not larger than the raster's height/width."""
    if md is None or not np.isfinite(md):
        return True
    rx, ry = r.attrs["res"]
    # for GREAT_CIRCLE the wrapper still divides by the coordinate cell size;
    # the resulting huge halo is outside the domain unless the whole-raster
    # branch is taken - decided by the caller via try/except bookkeeping.
    py = int(md / ry + 0.5)
    px = int(md / rx + 0.5)
    return py <= r.shape[0] and px <= r.shape[1]


def run_all():
    got = {}
    failures = []
    for (name, shape, dtype, seed, nan_frac, res, desc_y, lonlat, metric,
         targets, mds, chunkings) in CASES:
        r = make_raster(shape, dtype, seed, nan_frac, res, desc_y, lonlat,
                        SPARSE.get(name, 0.12))
        for fname, f in FUNCS.items():
            for mi, md in enumerate(mds):
                kw = dict(target_values=targets, max_distance=md,
                          distance_metric=metric)
                key = "%s|%s|%r" % (name, fname, md)
                ref = f(r, **kw)
                assert isinstance(ref.data, np.ndarray)
                if ref.dims != r.dims or ref.attrs != r.attrs:
                    failures.append(key + " dims/attrs")
                got[key] = digest(ref.data)
                if lonlat and md is not None and np.isfinite(md) \
                        and md < 1e6:
                    # finite great-circle distance in metres vs degrees cell
                    # size: halo exceeds the raster -> outside domain.
                    continue
                for ci, chunks in enumerate(chunkings):
                    if FNAMES[(mi + ci + seed) % 3] != fname \
                            and not (mi == 0 and ci == 0):
                        continue  # rotate functions to keep the run short
                    if not halo_ok(r, md, chunks):
                        continue
                    d = to_dask(r, chunks)
                    out = f(d, **kw)
                    if not isinstance(out.data, da.Array):
                        failures.append(key + " not dask")
                        continue
                    sched = SCHEDULERS[(ci + seed) % 2]
                    with dask.config.set(scheduler=sched):
                        val = out.data.compute()
                    dk = key + "|c%d" % ci
                    got[dk] = digest(val)
                    if got[dk] != got[key]:
                        failures.append(dk + " dask != numpy")
    return got, failures


def check_raises():
    """Raising paths: same exception types as the original."""
    res = {}
    r = make_raster((5, 6), np.float64, 1, 0.0, (1.0, 1.0), True)
    r2 = r.rename({"x": "lon", "y": "lat"})
    for fname, f in FUNCS.items():
        try:
            f(r2)
            res[fname + "|dims"] = "noraise"
        except Exception as e:  # noqa
            res[fname + "|dims"] = type(e).__name__ + ":" + str(e)
        # great circle with coordinates out of range -> ValueError raised
        # while computing max_possible_distance, numpy and dask alike
        bad = make_raster((5, 6), np.float64, 1, 0.0, (100.0, 1.0), True)
        for backend in ("numpy", "dask"):
            b = bad if backend == "numpy" else to_dask(bad, (3, 3))
            try:
                f(b, distance_metric="GREAT_CIRCLE")
                res[fname + "|gc|" + backend] = "noraise"
            except Exception as e:  # noqa
                res[fname + "|gc|" + backend] = type(e).__name__
        # unhashable metric -> TypeError from the dict lookup
        try:
            f(r, distance_metric=["EUCLIDEAN"])
            res[fname + "|unhashable"] = "noraise"
        except Exception as e:  # noqa
            res[fname + "|unhashable"] = type(e).__name__
    return res


def main():
    print("xrspatial from", xrspatial.__file__)
    got, failures = run_all()
    got.update({"raise|" + k: v for k, v in check_raises().items()})
    if "--record" in sys.argv:
        print("EXPECTED = {")
        for k in sorted(got):
            print("    %r: %r," % (k, got[k]))
        print("}")
        print("failures:", failures, file=sys.stderr)
        return 0
    missing = sorted(set(EXPECTED) ^ set(got))
    diff = sorted(k for k in got if k in EXPECTED and got[k] != EXPECTED[k])
    print("cases: %d, dask!=numpy: %d, digest mismatches: %d, key diffs: %d"
          % (len(got), len(failures), len(diff), len(missing)))
    for k in (failures + diff + missing)[:30]:
        print("  FAIL", k)
    ok = not failures and not diff and not missing and len(got) > 100
    print("IDENTICAL" if ok else "DIFFERENT")
    return 0 if ok else 1


if __name__ == "__main__":
    sys.exit(main())
