"""Differential test for xrspatial.zonal.regions (property C16).

Every output of regions() on a deterministic suite (exhaustive small rasters
over small alphabets, random larger ones, int / uint / float dtypes, NaN and
inf cells, close float values, 1xN / Nx1, non-contiguous inputs, 4 / 8
neighbourhood, error paths, dask input) is compared

  (a) label by label against `ref_labels`, an interpreted (no numba, no
      library code) transcription of the two-pass area-numbering algorithm
      as it stands in the unmodified tree,
  (b) as a partition against an independent flood fill (integer rasters),
  (c) through a sha256 digest of values / dtype / name / dims / coords /
      attrs / exception types against the digest recorded on the unmodified
      tree.

Exit status 0 when everything is identical, 1 otherwise.
"""
import hashlib
import itertools
import sys

import numpy as np
import xarray as xr

import xrspatial
from xrspatial import regions as regions_top
from xrspatial.zonal import regions

EXPECTED_DIGEST = "40c601a1df6dafc333b84073318980af97efc788a78abe81ce3fba3c1114de81"

RTOL = 1e-05
ATOL = 1e-08

WIN4 = ((0, -1), (-1, 0), (1, 0), (0, 1))
WIN8 = ((-1, -1), (0, -1), (1, -1), (-1, 0), (1, 0), (-1, 1), (0, 1), (1, 1))


def _matches(src, val, exact):
    if exact:
        return [i for i, s in enumerate(src) if s == val]
    with np.errstate(all='ignore'):
        # the kernel compares in float64: float32 |difference| against a
        # float64 threshold
        thr = np.float64(ATOL) + np.float64(RTOL) * np.float64(np.abs(val))
        res = []
        for i, s in enumerate(src):
            d = np.float64(np.abs(s - val))
            if d <= thr:
                res.append(i)
        return res


def ref_labels(data, n):
    """Interpreted transcription of the original two-pass algorithm."""
    exact = data.dtype.kind in 'iu'
    rows, cols = data.shape
    out = np.zeros((rows, cols), dtype=np.float64)
    win = WIN8 if n == 8 else WIN4
    uid = 1

    def clamp(y, x, dy, dx):
        return min(max(y + dy, 0), rows - 1), min(max(x + dx, 0), cols - 1)

    for y in range(rows):
        for x in range(cols):
            val = data[y, x]
            if not exact and np.isnan(val):
                out[y, x] = val
                continue
            pos = [clamp(y, x, dy, dx) for dy, dx in win]
            src = [data[p] for p in pos]
            area = [out[p] for p in pos]
            assigned = None
            for i in _matches(src, val, exact):
                if area[i] > 0:
                    assigned = area[i]
                    break
            if assigned is None:
                out[y, x] = uid
                uid += 1
            else:
                out[y, x] = assigned

    for y in range(rows):
        for x in range(cols):
            val = data[y, x]
            if not exact and np.isnan(val):
                continue
            pos = [clamp(y, x, dy, dx) for dy, dx in win]
            src = [data[p] for p in pos]
            area = [out[p] for p in pos]      # snapshot, as in the kernel
            lo = None
            for i in _matches(src, val, exact):
                a = area[i]
                if lo is not None and lo != a:
                    if lo > a:
                        out[out == lo] = a
                        lo = a
                    else:
                        out[out == a] = lo
                elif lo is None:
                    lo = a
    return out


def flood(a, n):
    rows, cols = a.shape
    lab = np.zeros(a.shape, dtype=np.int64)
    offs = WIN8 if n == 8 else WIN4
    cur = 0
    for y in range(rows):
        for x in range(cols):
            if lab[y, x]:
                continue
            cur += 1
            lab[y, x] = cur
            stack = [(y, x)]
            while stack:
                cy, cx = stack.pop()
                for dy, dx in offs:
                    yy, xx = cy + dy, cx + dx
                    if 0 <= yy < rows and 0 <= xx < cols and not lab[yy, xx] \
                            and a[yy, xx] == a[cy, cx]:
                        lab[yy, xx] = cur
                        stack.append((yy, xx))
    return lab


def same_partition(out, ref):
    o = np.asarray(out)
    if not np.all(o > 0):
        return False
    pairs = set(zip(o.ravel().tolist(), ref.ravel().tolist()))
    return len(pairs) == len({p[0] for p in pairs}) == len({p[1] for p in pairs})


def make_da(a, named):
    rows, cols = a.shape
    if not named:
        return xr.DataArray(a)
    return xr.DataArray(
        a, dims=['lat', 'lon'], name='src',
        coords={'lat': np.linspace(5, 1, rows), 'lon': np.arange(cols) * 2.5,
                'extra': ('lat', np.arange(rows))},
        attrs={'res': (1, 2), 'unit': 'm'})


def cases():
    rng = np.random.RandomState(20240716)
    # exhaustive, small alphabets
    for shape in [(1, 1), (1, 2), (2, 1), (1, 5), (5, 1), (2, 2), (2, 3), (3, 2), (3, 3)]:
        size = shape[0] * shape[1]
        alpha = [0, 1, 2] if size <= 5 else [0, 1]
        for vals in itertools.product(alpha, repeat=size):
            yield np.array(vals, dtype=np.int64).reshape(shape)
    for shape in [(2, 3), (3, 2), (1, 6), (6, 1)]:
        for vals in itertools.product([1.0, 2.0, np.nan], repeat=6):
            yield np.array(vals, dtype=np.float64).reshape(shape)
    for vals in itertools.product([3, 7], repeat=8):
        yield np.array(vals, dtype=np.uint8).reshape(2, 4)
        yield np.array(vals, dtype=np.float32).reshape(4, 2)
    # random larger ones
    for dt in [np.int8, np.uint8, np.int16, np.uint16, np.int32, np.uint32, np.int64,
               np.uint64, np.float32, np.float64]:
        for shape in [(6, 8), (1, 19), (14, 1), (10, 10), (17, 12)]:
            for k in (2, 3, 6):
                a = rng.randint(0, k, size=shape).astype(dt)
                yield a
                if np.dtype(dt).kind == 'f':
                    b = a.copy()
                    b[rng.rand(*shape) < 0.25] = np.nan
                    yield b
                    c = a.copy()
                    c[rng.rand(*shape) < 0.1] = np.inf
                    c[rng.rand(*shape) < 0.1] = -np.inf
                    yield c
    # negative integers / extremes of the dtype
    yield np.array([[-128, -128, 127], [127, -128, 127], [0, 0, -128]], dtype=np.int8)
    yield np.array([[0, 255, 255], [255, 0, 255]], dtype=np.uint8)
    big = np.iinfo(np.int64).max
    yield np.array([[big, big - 1, big], [big, big, big - 1]], dtype=np.int64)
    # many labels + many merges
    yy, xx = np.mgrid[0:16, 0:16]
    yield ((yy + xx) % 2).astype(np.int8)
    yield ((yy // 2 + xx // 3) % 3).astype(np.uint16)
    s = np.zeros((11, 11), dtype=np.int32)
    s[1::2, :] = 1
    s[1::4, -1] = 0
    s[3::4, 0] = 0
    yield s
    yield s.T.copy()
    u = np.zeros((9, 12), dtype=np.int16)       # U shapes: late merges
    u[:-1, 1::4] = 1
    u[:-1, 3::4] = 1
    yield u
    yield u[::-1].copy()
    yield u[:, ::-1].astype(np.float64)
    # tolerance path
    yield np.array([[1.0, 1.0 + 1e-9, 1.0 + 1e-4], [-1.0, -1.0 - 1e-7, 0.0],
                    [0.0, 1e-9, np.inf]], dtype=np.float64)
    yield np.array([[1e6, 1e6 + 1, 1e6 + 20], [5, 5.00001, 5.001]], dtype=np.float32)
    yield np.array([[100.0, 100.0009, 100.0018, 100.0027, 100.0036]], dtype=np.float64)
    yield np.array([[100.0], [100.0009], [100.0018], [100.0027]], dtype=np.float32)
    g = rng.rand(9, 7)
    yield g
    yield (1.0 + g * 3e-5)
    yield (1.0 + g * 3e-5).astype(np.float32)
    yield np.full((4, 5), np.nan)
    yield np.full((3, 1), np.nan, dtype=np.float32)
    yield np.zeros((5, 4))
    yield np.array([[0.0, -0.0], [-0.0, 0.0]])
    # non-contiguous
    base = rng.randint(0, 3, size=(12, 10)).astype(np.int64)
    yield base.T
    yield base[::2, ::3]
    yield base[::-1, ::-1]
    yield np.asfortranarray(base.astype(np.float64))


def exc_name(f):
    try:
        f()
    except Exception as e:  # noqa
        return type(e).__name__ + ':' + (str(e) if isinstance(e, ValueError) else '')
    return 'no exception'


def main():
    print('xrspatial from', xrspatial.__file__)
    h = hashlib.sha256()
    bad = []
    ncase = 0
    for a in cases():
        for n in (4, 8):
            da_in = make_da(a, named=(ncase % 3 != 0))
            before = a.copy()
            if ncase % 2:
                out = regions(da_in, neighborhood=n, name='lbl')
                want_name = 'lbl'
            elif ncase % 4 == 0:
                out = regions_top(da_in, n)
                want_name = 'regions'
            else:
                out = regions(raster=da_in, neighborhood=np.int64(n))
                want_name = 'regions'
            tag = 'case %d %s %s n=%d' % (ncase, a.dtype, a.shape, n)
            ncase += 1
            exact = a.dtype.kind in 'iu'
            want_dtype = np.dtype(np.int64) if exact else np.dtype(np.float64)
            ok = isinstance(out, xr.DataArray) and type(out.data) is np.ndarray
            ok = ok and np.array_equal(before, a, equal_nan=True)
            ok = ok and out.dtype == want_dtype and out.shape == a.shape
            ok = ok and out.name == want_name and out.dims == da_in.dims
            ok = ok and dict(out.attrs) == dict(da_in.attrs)
            ok = ok and set(out.coords) == set(da_in.coords)
            for c in da_in.coords:
                ok = ok and np.array_equal(out.coords[c].values, da_in.coords[c].values)
            ref = ref_labels(a, n)
            ok = ok and np.array_equal(np.asarray(out.data, dtype=np.float64), ref,
                                       equal_nan=True)
            if not exact:
                ok = ok and np.array_equal(np.isnan(out.data), np.isnan(a))
            else:
                ok = ok and same_partition(out.data, flood(a, n))
            if not ok:
                bad.append(tag)
            h.update(tag.encode())
            h.update(str(out.dtype).encode())
            h.update(np.ascontiguousarray(out.data).tobytes())
            h.update(repr((out.name, out.dims, sorted(out.coords), sorted(out.attrs))).encode())

    # error paths and unsupported containers
    small = make_da(np.arange(6, dtype=np.int64).reshape(2, 3), True)
    errs = []
    for nb in (0, 3, 5, 16, -4, '4', None, 4.5):
        errs.append(exc_name(lambda nb=nb: regions(small, neighborhood=nb)))
    errs.append(exc_name(lambda: regions(small, 6, 'x')))
    try:
        import dask.array as da
        dsk = xr.DataArray(da.from_array(np.ones((4, 4)), chunks=(2, 2)))
        errs.append(exc_name(lambda: regions(dsk)).split(':')[0])
        dski = xr.DataArray(da.from_array(np.ones((4, 4), dtype=np.int32), chunks=(2, 2)))
        errs.append(exc_name(lambda: regions(dski, neighborhood=8)).split(':')[0])
    except ImportError:
        errs.append('no dask')
    errs.append(exc_name(lambda: regions(xr.DataArray(np.ones((2, 2, 2))))).split(':')[0])
    errs.append(exc_name(lambda: regions(xr.DataArray(np.ones(5)))).split(':')[0])
    # empty rasters
    for shp in [(0, 3), (3, 0), (0, 0)]:
        for dt in (np.float64, np.int32):
            try:
                r = regions(xr.DataArray(np.zeros(shp, dtype=dt)))
                errs.append('empty %s %s %s' % (shp, r.dtype, r.shape))
            except Exception as e:  # noqa
                errs.append('empty %s %s' % (shp, type(e).__name__))
    # boolean raster
    errs.append(exc_name(lambda: regions(xr.DataArray(np.ones((2, 2), dtype=bool)))).split(':')[0])
    print('\n'.join(errs))
    h.update('|'.join(errs).encode())

    digest = h.hexdigest()
    print('cases:', ncase, 'digest:', digest)
    if bad:
        print('MISMATCH against the reference in', len(bad), 'cases, first:', bad[:5])
        return 1
    if not EXPECTED_DIGEST:
        print('no digest recorded')
        return 2
    if digest != EXPECTED_DIGEST:
        print('DIGEST differs from the one recorded on the unmodified tree')
        return 1
    print('identical')
    return 0


if __name__ == '__main__':
    sys.exit(main())
