"""Differential test for property C09 (focal / convolution / hotspots).

Runs the public functions mean, apply, focal_stats, convolution_2d and hotspots
on numpy- and dask-backed rasters (several dtypes, NaNs, odd / asymmetric /
non-square kernels, custom jitted reducers, passes / excludes) and

  (a) compares a bit-exact digest of every result (dtype, shape, bytes with
      NaNs canonicalised; or exception type [+ message]) with digests recorded
      from the UNMODIFIED tree (table EXPECTED at the bottom), and
  (b) compares a subset against an independent brute-force numpy reference.

Usage:  cd <worktree> && PYTHONPATH=<worktree> python equiv.py          (check)
        ... python equiv.py --record                                     (print table)
Exit status 0 iff everything is identical.
"""
import hashlib
import re
import sys
import warnings

import dask
import dask.array as da
import numpy as np
import xarray as xr

import xrspatial
from xrspatial import focal
from xrspatial.convolution import convolution_2d, circle_kernel, annulus_kernel
from xrspatial.focal import apply, focal_stats, hotspots, mean
from xrspatial.utils import ngjit

warnings.filterwarnings('ignore')
dask.config.set(scheduler='synchronous')

STABLE_MSG = (ValueError, TypeError, KeyError, ZeroDivisionError, NotImplementedError)


def digest(obj):
    if isinstance(obj, xr.DataArray):
        lazy = ''
        data = obj.data
        if isinstance(data, da.Array):
            lazy = 'dask:%s:%s|' % (data.dtype, data.chunks)
            data = data.compute()
        # hotspots() leaves the name to xarray, which takes it from the dask array: keep the
        # prefix, drop the random token
        name = re.sub(r'-[0-9a-f]{32}$', '-<token>', str(obj.name))
        head = '%s|%s|%s|%s|%s' % (name, obj.dims, sorted(obj.attrs.items()),
                                  sorted(str(k) for k in obj.coords), lazy)
        coord_bytes = b''.join(np.asarray(obj.coords[k].values).astype('U32').tobytes()
                               if obj.coords[k].dtype.kind in 'OU'
                               else np.asarray(obj.coords[k].values).tobytes()
                               for k in sorted(obj.coords, key=str))
        return head + digest(data) + hashlib.sha256(coord_bytes).hexdigest()[:8]
    a = np.array(obj, copy=True)
    if a.dtype.kind == 'f':
        a[np.isnan(a)] = np.nan          # canonical NaN bit pattern
    h = hashlib.sha256()
    h.update(str(a.dtype).encode())
    h.update(str(a.shape).encode())
    h.update(np.ascontiguousarray(a).tobytes())
    return h.hexdigest()[:20]


def run(fn):
    try:
        return digest(fn())
    except Exception as e:  # noqa
        if type(e) in STABLE_MSG:
            return 'EXC:%s:%s' % (type(e).__name__, str(e)[:160])
        return 'EXC:%s' % type(e).__name__


# ----------------------------------------------------------------------------
# inputs
# ----------------------------------------------------------------------------
rng = np.random.RandomState(20260902)


def make_rasters():
    out = {}
    for shape in [(1, 1), (1, 7), (5, 1), (3, 3), (6, 7), (9, 12), (13, 10)]:
        base = rng.uniform(-50, 50, size=shape)
        tag = '%dx%d' % shape
        out['f64_' + tag] = base.astype(np.float64)
        out['f32_' + tag] = (base * 3).astype(np.float32)
        withnan = base.astype(np.float64).copy()
        withnan[rng.uniform(size=shape) < 0.3] = np.nan
        out['f64nan_' + tag] = withnan
        out['i32_' + tag] = rng.randint(-9, 10, size=shape).astype(np.int32)
        i64 = rng.randint(0, 4, size=shape).astype(np.int64)
        u8 = rng.randint(0, 255, size=shape).astype(np.uint8)
        if shape in ((3, 3), (6, 7)):
            out['i64_' + tag] = i64
            out['u8_' + tag] = u8
    allnan = np.full((4, 5), np.nan)
    out['allnan_4x5'] = allnan
    blocknan = rng.uniform(0, 10, size=(8, 8))
    blocknan[2:7, 1:6] = np.nan
    out['blocknan_8x8'] = blocknan
    out['const_5x5'] = np.full((5, 5), 3.0)
    return out


RASTERS = make_rasters()

KERNELS01 = {
    'k1x1': np.array([[1.]]),
    'k1x1z': np.array([[0.]]),
    'k3x3full': np.ones((3, 3)),
    'k3x3cross': np.array([[0, 1, 0], [1, 1, 1], [0, 1, 0]], dtype=float),
    'k3x3hole': np.array([[1, 1, 1], [1, 0, 1], [1, 1, 1]], dtype=float),
    'k1x3asym': np.array([[1, 1, 0]], dtype=float),
    'k3x1asym': np.array([[0], [1], [1]], dtype=float),
    'k5x3asym': np.array([[1, 0, 0], [0, 0, 1], [0, 1, 0], [1, 1, 0], [0, 0, 1]], dtype=float),
    'k3x5int': np.array([[1, 0, 1, 0, 0], [0, 0, 1, 1, 0], [1, 0, 0, 0, 1]], dtype=np.int64),
    'k7x7circle': circle_kernel(1, 1, 3),
    'k5x5annulus': annulus_kernel(1, 1, 2, 1),
    'k3x3two': np.array([[2, 1, 0], [1, 1, 1], [0, 1, 2]], dtype=float),  # non 0/1 entries
}

WKERNELS = {
    'w3x3': np.array([[0.5, -1, 0.25], [2, 0, 1], [-0.125, 3, 1]]),
    'w1x3': np.array([[1.5, 0, -2.5]]),
    'w5x3': rng.uniform(-1, 1, size=(5, 3)),
    'w3x5i': rng.randint(-3, 4, size=(3, 5)).astype(np.int64),
    'w3x3f32': rng.uniform(-1, 1, size=(3, 3)).astype(np.float32),
}


@ngjit
def red_wsum(w):
    acc = 0.0
    rows, cols = w.shape
    for r in range(rows):
        for c in range(cols):
            if not np.isnan(w[r, c]):
                acc += w[r, c] * (1.0 + r + 2.0 * c)   # position sensitive
    return acc


@ngjit
def red_count(w):
    return np.sum(~np.isnan(w))


@ngjit
def red_first(w):
    # returns window[0, 0] (NaN unless that cell is under the kernel and valid)
    return w[0, 0]


@ngjit
def red_size(w):
    return w.shape[0] * 100 + w.shape[1]


REDUCERS = {'wsum': red_wsum, 'count': red_count, 'first': red_first, 'size': red_size}
STATS = ['mean', 'max', 'min', 'range', 'std', 'var', 'sum']


def as_da(arr, chunks=None, named=True):
    data = arr if chunks is None else da.from_array(arr, chunks=chunks)
    if named and arr.ndim == 2:
        return xr.DataArray(data, dims=['y', 'x'], name='src',
                            coords={'y': np.arange(arr.shape[0])[::-1] * 2.0,
                                    'x': np.arange(arr.shape[1]) * 0.5},
                            attrs={'res': 1, 'unit': 'm'})
    return xr.DataArray(data)


def backends(arr):
    yield 'np', None
    r, c = arr.shape
    yield 'da33', (3, 3)
    yield 'da45', (4, 5)
    if (r, c) in ((1, 7), (5, 1), (6, 7), (8, 8)):
        yield 'da1', (r, c)


def cases():
    # --- apply / focal_stats --------------------------------------------------
    for rn, arr in RASTERS.items():
        for kn, k in KERNELS01.items():
            big = rn.endswith(('9x12', '13x10'))
            if big and kn not in ('k3x3cross', 'k5x3asym', 'k7x7circle', 'k1x3asym'):
                continue
            for bn, ch in backends(arr):
                if bn == 'da45' and not rn.endswith(('6x7', '9x12', '13x10', '8x8')):
                    continue
                yield ('apply', rn, kn, bn), (lambda a=arr, k=k, c=ch: apply(as_da(a, c), k))
                if rn.startswith(('f64nan', 'i32', 'f32', 'allnan', 'blocknan')):
                    yield ('fstats', rn, kn, bn), (
                        lambda a=arr, k=k, c=ch: focal_stats(as_da(a, c), k))
            if rn.startswith(('f64nan', 'i32', 'blocknan')) and not big:
                for fn, f in REDUCERS.items():
                    for bn, ch in (('np', None), ('da33', (3, 3))):
                        yield ('applyf', rn, kn, fn, bn), (
                            lambda a=arr, k=k, c=ch, f=f: apply(as_da(a, c), k, f, name='xx'))
    a = RASTERS['f64nan_6x7']
    yield ('fstats', 'subset'), lambda: focal_stats(as_da(a), KERNELS01['k3x3cross'],
                                                    stats_funcs=['sum', 'min'])
    yield ('fstats', 'subset_da'), lambda: focal_stats(as_da(a, (3, 3)), KERNELS01['k5x3asym'],
                                                       stats_funcs=['var'])
    yield ('fstats', 'badstat'), lambda: focal_stats(as_da(a), KERNELS01['k3x3cross'],
                                                     stats_funcs=['mean', 'median'])
    yield ('fstats', 'empty'), lambda: focal_stats(as_da(a), KERNELS01['k3x3cross'],
                                                   stats_funcs=[])
    # validation
    yield ('apply', 'notda'), lambda: apply(a, KERNELS01['k3x3cross'])
    yield ('apply', '3d'), lambda: apply(xr.DataArray(np.zeros((2, 3, 3))), KERNELS01['k3x3cross'])
    yield ('apply', '1d'), lambda: apply(xr.DataArray(np.zeros(3)), KERNELS01['k3x3cross'])
    yield ('apply', 'evenk'), lambda: apply(as_da(a), np.ones((2, 3)))
    yield ('apply', 'listk'), lambda: apply(as_da(a), [[1, 1, 1]])
    yield ('fstats', 'notda'), lambda: focal_stats(a, KERNELS01['k3x3cross'])
    yield ('fstats', '3d'), lambda: focal_stats(xr.DataArray(np.zeros((2, 3, 3))),
                                                KERNELS01['k3x3cross'])
    yield ('fstats', 'evenk'), lambda: focal_stats(as_da(a), np.ones((3, 4)))
    yield ('fstats', 'listk'), lambda: focal_stats(as_da(a), [[1, 1, 1]])
    yield ('hot', 'notda'), lambda: hotspots(a, KERNELS01['k3x3cross'])
    yield ('hot', '3d'), lambda: hotspots(xr.DataArray(np.zeros((2, 3, 3))),
                                          KERNELS01['k3x3cross'])
    yield ('hot', 'bool'), lambda: hotspots(as_da(a > 0), KERNELS01['k3x3cross'])
    yield ('hot', 'bool_da'), lambda: hotspots(as_da(a > 0, (3, 3)), KERNELS01['k3x3cross'])
    yield ('hot', 'complex'), lambda: hotspots(as_da(a.astype(complex)), KERNELS01['k3x3cross'])
    yield ('hot', 'const'), lambda: hotspots(as_da(RASTERS['const_5x5']), KERNELS01['k3x3cross'])
    yield ('hot', 'const_da'), lambda: hotspots(as_da(RASTERS['const_5x5'], (3, 3)),
                                                KERNELS01['k3x3cross'])

    # --- mean -------------------------------------------------------------------
    for rn, arr in RASTERS.items():
        if rn.endswith('13x10'):
            continue
        for passes in (0, 1, 2, 3):
            for en, ex in (('nan', [np.nan]), ('none', []), ('zero', [0]),
                           ('multi', [0.0, np.nan, 3.0]), ('tuple', (1.0, 2.0)),
                           ('hetero', [0, np.nan, 3])):
                if passes in (0, 3) and en not in ('nan', 'multi'):
                    continue
                if en in ('none', 'hetero') and not (rn == 'f64nan_6x7' and passes == 1):
                    continue   # numba cannot type these: one (slow) failing case is enough
                for bn, ch in backends(arr):
                    if bn == 'da45':
                        continue
                    yield ('mean', rn, passes, en, bn), (
                        lambda a=arr, c=ch, p=passes, e=ex: mean(as_da(a, c), passes=p,
                                                                 excludes=e))
    yield ('mean', 'default'), lambda: mean(as_da(RASTERS['f64nan_6x7']))
    yield ('mean', 'named'), lambda: mean(as_da(RASTERS['f64nan_6x7'], (3, 3)), 2, [1.5], 'zz')
    yield ('mean', 'toplevel'), lambda: xrspatial.mean(as_da(RASTERS['i32_6x7'], None, False))

    # --- convolution_2d ------------------------------------------------------------
    allk = dict(WKERNELS)
    allk.update({k: KERNELS01[k] for k in ('k3x3cross', 'k1x3asym', 'k3x1asym', 'k7x7circle',
                                           'k3x5int', 'k1x1')})
    for rn, arr in RASTERS.items():
        for kn, k in allk.items():
            for bn, ch in backends(arr):
                if bn == 'da45' and not rn.endswith(('6x7', '9x12', '13x10', '8x8')):
                    continue
                yield ('conv', rn, kn, bn), (
                    lambda a=arr, k=k, c=ch: convolution_2d(as_da(a, c), k))
    yield ('conv', 'named'), lambda: convolution_2d(as_da(RASTERS['f64_6x7']),
                                                    WKERNELS['w3x3'], name='cc')

    # --- hotspots ----------------------------------------------------------------------
    hk = {k: KERNELS01[k] for k in ('k3x3cross', 'k1x3asym', 'k3x1asym', 'k3x3full', 'k5x3asym',
                                    'k1x1', 'k3x5int', 'k7x7circle')}
    spiky = rng.uniform(-1, 1, size=(12, 11))
    spiky[2:5, 2:5] += 40
    spiky[7:10, 6:10] -= 40
    spiky[0, 0] = np.nan
    doc = np.array([[0, 1000, 1000, 0, 0, 0], [0, 0, 0, -1000, -1000, 0],
                    [0, -900, -900, 0, 0, 0], [0, 100, 1000, 0, 0, 0]])
    hr = {'spiky': spiky, 'spiky_neg': -spiky, 'spiky32': spiky.astype(np.float32),
          'doc': doc, 'doc_neg': -doc, 'doc_i16': doc.astype(np.int16),
          'grad': np.arange(48, dtype=np.float64).reshape(6, 8) ** 2}
    hr.update({k: v for k, v in RASTERS.items() if k.endswith(('6x7', '9x12', '3x3', '1x7'))})
    for rn, arr in hr.items():
        for kn, k in hk.items():
            for bn, ch in backends(arr):
                yield ('hot', rn, kn, bn), (lambda a=arr, k=k, c=ch: hotspots(as_da(a, c), k))


# ----------------------------------------------------------------------------
# independent brute-force reference (subset)
# ----------------------------------------------------------------------------
def ref_window(d, kernel, y, x):
    kr, kc = kernel.shape
    hr_, hc_ = kr // 2, kc // 2
    vals = []
    for r in range(kr):
        for c in range(kc):
            yy, xx = y + r - hr_, x + c - hc_
            if kernel[r, c] == 1 and 0 <= yy < d.shape[0] and 0 <= xx < d.shape[1]:
                vals.append(d[yy, xx])
    return np.array(vals, dtype=np.float64)


NPSTAT = {'mean': np.nanmean, 'max': np.nanmax, 'min': np.nanmin, 'std': np.nanstd,
          'var': np.nanvar, 'sum': np.nansum,
          'range': lambda v: np.nanmax(v) - np.nanmin(v)}


def ref_stat(arr, kernel, stat):
    d = arr.astype(np.float32).astype(np.float64)
    out = np.full(d.shape, np.nan)
    for y in range(d.shape[0]):
        for x in range(d.shape[1]):
            v = ref_window(d, kernel, y, x)
            v = v[~np.isnan(v)]
            if v.size:
                out[y, x] = NPSTAT[stat](v)
            elif stat == 'sum':
                out[y, x] = 0.0
    return out


def ref_conv(arr, kernel):
    d = arr.astype(np.float32).astype(np.float64)
    kr, kc = kernel.shape
    hr_, hc_ = kr // 2, kc // 2
    out = np.full(d.shape, np.nan)
    for y in range(hr_, d.shape[0] - hr_):
        for x in range(hc_, d.shape[1] - hc_):
            out[y, x] = np.sum(kernel * d[y - hr_:y + hr_ + 1, x - hc_:x + hc_ + 1])
    return out


def ref_mean(arr, passes, excludes):
    d = arr.astype(np.float64)
    for _ in range(passes):
        out = d.copy()
        for y in range(d.shape[0]):
            for x in range(d.shape[1]):
                v = d[y, x]
                if any(v == e or (np.isnan(v) and np.isnan(e)) for e in excludes):
                    continue
                w = d[max(y - 1, 0):y + 2, max(x - 1, 0):x + 2]
                w = w[~np.isnan(w)]
                out[y, x] = w.mean() if w.size else np.nan
        d = out
    return d


def reference_checks():
    bad = []
    for rn in ('f64nan_6x7', 'i32_6x7', 'f32_9x12', 'f64nan_1x7', 'f64nan_5x1', 'blocknan_8x8',
               'u8_3x3'):
        arr = RASTERS[rn]
        for kn in ('k3x3cross', 'k1x3asym', 'k3x1asym', 'k5x3asym', 'k3x5int', 'k7x7circle',
                   'k1x1z'):
            k = KERNELS01[kn]
            for ch in (None, (3, 3)):
                try:
                    res = focal_stats(as_da(arr, ch), k)
                    vals = np.asarray(res.data)
                except Exception:
                    continue   # e.g. dask overlap depth larger than chunk; covered by digests
                for i, s in enumerate(STATS):
                    exp = ref_stat(arr, k, s)
                    if vals[i].dtype != np.float32 or not np.allclose(
                            vals[i], exp, rtol=2e-4, atol=1e-3, equal_nan=True):
                        bad.append(('ref-fstats', rn, kn, ch, s))
        for kn, k in WKERNELS.items():
            for ch in (None, (3, 3)):
                try:
                    vals = np.asarray(convolution_2d(as_da(arr, ch), k).data)
                except Exception:
                    continue
                exp = ref_conv(arr, k)
                if vals.dtype != np.float32 or not np.allclose(
                        vals, exp, rtol=2e-4, atol=1e-3, equal_nan=True):
                    bad.append(('ref-conv', rn, kn, ch))
        for passes in (0, 1, 3):
            for ex in ([np.nan], [0.0, np.nan, 3.0]):
                for ch in (None, (3, 3)):
                    vals = np.asarray(mean(as_da(arr, ch), passes=passes, excludes=ex).data)
                    exp = ref_mean(arr, passes, ex)
                    if vals.dtype != np.float64 or not np.allclose(
                            vals, exp, rtol=1e-9, atol=1e-9, equal_nan=True):
                        bad.append(('ref-mean', rn, passes, ex, ch))
    # hotspots: antisymmetry and value set
    spiky = rng.uniform(-1, 1, size=(10, 10))
    spiky[2:5, 2:5] += 30
    for ch in (None, (5, 5)):
        h1 = np.asarray(hotspots(as_da(spiky, ch), KERNELS01['k3x3cross']).data)
        h2 = np.asarray(hotspots(as_da(-spiky, ch), KERNELS01['k3x3cross']).data)
        if h1.dtype != np.int8 or not np.array_equal(h1, -h2) or \
                not set(np.unique(h1)) <= {0, 90, 95, 99, -90, -95, -99} or not (h1 > 0).any():
            bad.append(('ref-hotspots', ch))
    return bad


def grouped(results):
    groups = {}
    for k in sorted(results):
        g = '/'.join(k.split('/')[:2])
        groups.setdefault(g, hashlib.sha256()).update(('%s=%s\n' % (k, results[k])).encode())
    return {g: h.hexdigest()[:24] for g, h in groups.items()}


def main():
    print('testing library at', xrspatial.__file__, file=sys.stderr)
    results = {}
    for key, fn in cases():
        skey = '/'.join(str(p) for p in key)
        assert skey not in results, skey
        results[skey] = run(fn)
    got = grouped(results)
    got['#cases'] = str(len(results))
    got['#exceptions'] = str(sum(v.startswith('EXC') for v in results.values()))
    if '--record' in sys.argv:
        print('EXPECTED = {')
        for g in sorted(got):
            print('    %r: %r,' % (g, got[g]))
        print('}')
        if '--verbose' in sys.argv:
            for k in sorted(results):
                if results[k].startswith('EXC'):
                    print('#', k, results[k])
        return 0
    bad = []
    for g in sorted(set(got) | set(EXPECTED)):
        if EXPECTED.get(g) != got.get(g):
            bad.append((g, EXPECTED.get(g), got.get(g)))
    bad.extend(reference_checks())
    if bad:
        print('DIFFERENCES (%d):' % len(bad))
        for b in bad[:40]:
            print('  ', b)
        return 1
    print('OK: %d cases identical to recorded values; reference checks passed' % len(results))
    return 0


# digests recorded from the unmodified tree (python equiv.py --record)
EXPECTED = {
    '#cases': '5494',
    '#exceptions': '294',
    'apply/1d': '931cb5fa7876286b4d06883c',
    'apply/3d': '18d1c84b180f8268bd5c0c0e',
    'apply/allnan_4x5': 'cc927504681b9d76521d29d9',
    'apply/blocknan_8x8': '9bf7e18edeccaa122afcfe7e',
    'apply/const_5x5': '81453776ddef3f9ec9aa00b4',
    'apply/evenk': '74c6ebf93984d9425d480793',
    'apply/f32_13x10': '98d86a01379a11145d82fa02',
    'apply/f32_1x1': 'a0b5f202be5cb0349b53990b',
    'apply/f32_1x7': 'da34aa03ef07170e642d2e37',
    'apply/f32_3x3': 'f8d67dec5e60d99cb1992ff2',
    'apply/f32_5x1': '490c00d97ce9d4c19c73620d',
    'apply/f32_6x7': 'd7beba0cce398aaf8be72b24',
    'apply/f32_9x12': 'e5a66f9855dd6b96fd96d54b',
    'apply/f64_13x10': 'ab9fb7763a967850166b64e4',
    'apply/f64_1x1': '6dec01a66a5e38010d66777b',
    'apply/f64_1x7': 'ce09e523eac890d20c1553ec',
    'apply/f64_3x3': '34861c0c2704f5748c76a312',
    'apply/f64_5x1': '92ee1ac5835062b8b55deb36',
    'apply/f64_6x7': 'a847e18352245b1ecf791c57',
    'apply/f64_9x12': 'a295dda4561cf941ad58b461',
    'apply/f64nan_13x10': 'd561e6951f2be6603da27074',
    'apply/f64nan_1x1': 'aedb3f8bd5f00019c8b7c3e8',
    'apply/f64nan_1x7': '8f70eed7571514425b28b516',
    'apply/f64nan_3x3': '35cb8c2e76d0bc7d73242c81',
    'apply/f64nan_5x1': 'ea4402851ca817db82326708',
    'apply/f64nan_6x7': 'bbd92b045b7720ac5acad57b',
    'apply/f64nan_9x12': '316b94a9a3ff5b96bc895e0b',
    'apply/i32_13x10': '98936ed6060a400a075328f3',
    'apply/i32_1x1': 'efef5dc1e1568e83e8892684',
    'apply/i32_1x7': 'cae776f2fbec65fe804af34b',
    'apply/i32_3x3': '500f1e236fd092038a6b23e2',
    'apply/i32_5x1': '3d53769104c3b274af916fff',
    'apply/i32_6x7': 'cde2c32036d9ab5d011afc87',
    'apply/i32_9x12': 'f2547fffc42fad8ebaf43b5c',
    'apply/i64_3x3': '84b60b5808493400e7a3c248',
    'apply/i64_6x7': '1d6ee02c129e22e76814033b',
    'apply/listk': '2daca4b3e10f6e5e65ff3c12',
    'apply/notda': 'ff9860b70b29b91757bd5e53',
    'apply/u8_3x3': 'cb51f515031864d62cf83d1d',
    'apply/u8_6x7': '54785a56a4bbab96eb32796f',
    'applyf/blocknan_8x8': '2fb66783b7780098b2f96f49',
    'applyf/f64nan_1x1': 'd36c77b2d3eeaba240b2d1eb',
    'applyf/f64nan_1x7': 'c9c7382cfea78e84a6e8db38',
    'applyf/f64nan_3x3': 'ba0c94fedd8222f8838015d0',
    'applyf/f64nan_5x1': '9866f13db597558491f0a499',
    'applyf/f64nan_6x7': '603b367cb58403e67acb2c8f',
    'applyf/i32_1x1': '9b4d6f165d7c793604c7a418',
    'applyf/i32_1x7': 'efdebbefaf71cebc5584f316',
    'applyf/i32_3x3': 'dba7dc98902db50893a64004',
    'applyf/i32_5x1': '07dd83df5d393e17c840197d',
    'applyf/i32_6x7': '446da92ec46c99cd5fa429ef',
    'conv/allnan_4x5': '8758b54631f13a560b5bd600',
    'conv/blocknan_8x8': '95440e3f4a50c88216b634fa',
    'conv/const_5x5': 'a8562ef7aac5c9cfd4c0bd8a',
    'conv/f32_13x10': 'e1f87b4b395fe5e8a68d6910',
    'conv/f32_1x1': '05a4d2c094b2fe3235d4783b',
    'conv/f32_1x7': '018ee074adc6a49adc7aba11',
    'conv/f32_3x3': 'a44bb36ee10ffe38ec7a1f3a',
    'conv/f32_5x1': 'e1c21beb05f69257f74f2199',
    'conv/f32_6x7': '3cca508f369e795c866969ca',
    'conv/f32_9x12': '89ef3f42921b4f0de93a4175',
    'conv/f64_13x10': 'f91db6a00aeed36da75945a7',
    'conv/f64_1x1': '2a499e75519a30905abb5147',
    'conv/f64_1x7': '831deb95fa920cf14483fc3f',
    'conv/f64_3x3': '46b2dff3bd4865d5310e1afc',
    'conv/f64_5x1': '97cfdbdc4d203f940179a77f',
    'conv/f64_6x7': 'be8a7f54f9037392f65f83f8',
    'conv/f64_9x12': 'b2335cfb21d3f64f777a4dd0',
    'conv/f64nan_13x10': '66aa96ac8b06500cfc6d3968',
    'conv/f64nan_1x1': 'e2584ee6dc336b34eb1729aa',
    'conv/f64nan_1x7': '896c7ad34bb4533c6c8ad561',
    'conv/f64nan_3x3': 'b28eceb08621791740f5d6cb',
    'conv/f64nan_5x1': '956dee8fa3ef59f7889e5af6',
    'conv/f64nan_6x7': '33d46b60ca4be0c5dcf19de3',
    'conv/f64nan_9x12': '03742bc5ab6bb0f488705b0e',
    'conv/i32_13x10': '406a39193dc3d9fa5a25d9e1',
    'conv/i32_1x1': '37a99fe2fcb3816ccfe737a4',
    'conv/i32_1x7': 'dd61a58d190da2839baef4e1',
    'conv/i32_3x3': '551d20184d5d485533f2fbfb',
    'conv/i32_5x1': '290900d1fe7e8d6aa7b4919c',
    'conv/i32_6x7': '6081196c493375a4ba5f4710',
    'conv/i32_9x12': 'c062e04aeb699a27fedbf843',
    'conv/i64_3x3': '91883d4399f1676cc9ba415a',
    'conv/i64_6x7': '041b3b58b36e19a46767c7eb',
    'conv/named': '9bf1129f35cfb600cb518eaa',
    'conv/u8_3x3': '3bc628bf39792150939a93ba',
    'conv/u8_6x7': '274310c3016db3ca3c2bff69',
    'fstats/3d': 'a15cee14289caba6d7e3d968',
    'fstats/allnan_4x5': '3eae45f79b70fda9ebe6f924',
    'fstats/badstat': '0cd9576cb5792471e624ae9f',
    'fstats/blocknan_8x8': '12bff6399a09f1b436c8b4a2',
    'fstats/empty': 'c60ad1bf616db62cedf37552',
    'fstats/evenk': 'e6dbccaea58ee70af4eaedc8',
    'fstats/f32_13x10': '882ab553c4332860489d1ef2',
    'fstats/f32_1x1': '78b4749ca765363fcc12965b',
    'fstats/f32_1x7': 'adf7bc20dfb40b379f56218d',
    'fstats/f32_3x3': 'b7270bf7baf0d4d45b36e46a',
    'fstats/f32_5x1': 'b87e203ea3b00272aaa76494',
    'fstats/f32_6x7': '63abfbc05e0de0d22bd7acd1',
    'fstats/f32_9x12': '5c80b2d58f88e443ef184540',
    'fstats/f64nan_13x10': '8a2710d1a261d976f66ee078',
    'fstats/f64nan_1x1': '46ac57e9cad907894d412f67',
    'fstats/f64nan_1x7': '438011de14557a68eaaefa39',
    'fstats/f64nan_3x3': '59958c4fb68283f89ea1a27f',
    'fstats/f64nan_5x1': '087fa39d3317a1f5bcc4d2a3',
    'fstats/f64nan_6x7': 'ce0400935c4cb19fd1eba84c',
    'fstats/f64nan_9x12': '055d5f2541f67a0a72b42bf2',
    'fstats/i32_13x10': 'a5b21fd66edb2188451c5af2',
    'fstats/i32_1x1': '660f259b53d9fcbdea67cd21',
    'fstats/i32_1x7': 'c337f2750d56a8bd50d77e63',
    'fstats/i32_3x3': '57edd2164b2c52f42877f4a5',
    'fstats/i32_5x1': '05a725f84f06742dbb4d7fd3',
    'fstats/i32_6x7': '6cf4a5672292f6abe6758d3a',
    'fstats/i32_9x12': 'e63ef05c4ab2d939a36b6384',
    'fstats/listk': '8081ac026ef6f5424e8c97d0',
    'fstats/notda': 'fd76a4fb132913bf86f72778',
    'fstats/subset': 'f0510a4355ed798ccac15e28',
    'fstats/subset_da': 'ae6f3c759d53a5f9df9f5f53',
    'hot/3d': '10eee75a7362c54508d842af',
    'hot/bool': '70b40dba453907e7eb696ed8',
    'hot/bool_da': 'ad999fc4f3b9c82071fa1ca8',
    'hot/complex': '03d5fd08edda250be756fd1a',
    'hot/const': '22acf33bf46a1f8929ccd5d3',
    'hot/const_da': '4243661340c691ec89602323',
    'hot/doc': 'fdd4af0e9ec522c3c3c9842e',
    'hot/doc_i16': 'a9a97848aa66ad7b4b26ec0c',
    'hot/doc_neg': '0b5d710482bed2c2b24a92e7',
    'hot/f32_1x7': '2f761436fdddcd5dd59efe4b',
    'hot/f32_3x3': 'e7858d63e1902258ebddf0a2',
    'hot/f32_6x7': 'ca25f2cc2b8271c96d9c9357',
    'hot/f32_9x12': '66a854e0f08432975d62803d',
    'hot/f64_1x7': '90f272db6bb4e58ddf2dc331',
    'hot/f64_3x3': 'eb0b617fd53bc7b24332df92',
    'hot/f64_6x7': 'be14def90725ff9a9ce7e14b',
    'hot/f64_9x12': 'bb1ca975f7e19c233e4d82b1',
    'hot/f64nan_1x7': '650bd703d3a979350b47782d',
    'hot/f64nan_3x3': 'e516356dac84d39c061898b7',
    'hot/f64nan_6x7': '8ce69502859878dc3546d908',
    'hot/f64nan_9x12': 'b0c8343f9a931e59a3527361',
    'hot/grad': 'c80b71619ea3d42d31b9e013',
    'hot/i32_1x7': '3e1ca016e83bb64d72309085',
    'hot/i32_3x3': 'd5c9ceaaf25f7f4bc0173621',
    'hot/i32_6x7': '38b4e636adb5a2283cf9b07a',
    'hot/i32_9x12': '44d29ab1be70c080b3fd5fe7',
    'hot/i64_3x3': '8d8b79471636b528cda18510',
    'hot/i64_6x7': '672bf3eccdef211c87067d17',
    'hot/notda': '0bae5cc677ec8baefb9d9366',
    'hot/spiky': '14c8b95f7cdedfcfd205e840',
    'hot/spiky32': 'acce267a356f3ecea474ad50',
    'hot/spiky_neg': 'f98d2a5f0ad48ebbce0806c3',
    'hot/u8_3x3': '35a7f1e5f7a7d1bc214289fb',
    'hot/u8_6x7': 'f00b8df550963043f7db957c',
    'mean/allnan_4x5': 'f46a1d5f498ddc861c92a6b4',
    'mean/blocknan_8x8': 'e3fa24a2bca8d0ed18de473d',
    'mean/const_5x5': 'f8df9501fbd26f613d6547f5',
    'mean/default': '676f90da6afd8366f4662592',
    'mean/f32_1x1': '42b5748f1c626352cddcf7f7',
    'mean/f32_1x7': '4c02f4191959094eec6cd86b',
    'mean/f32_3x3': '4d773da9ceb72c0684d409ef',
    'mean/f32_5x1': '9e2f1309ccfca8ffdba06d0a',
    'mean/f32_6x7': 'ec8e49bc75cf7054904b312d',
    'mean/f32_9x12': 'a8ae41395cadd94357cd6d49',
    'mean/f64_1x1': '531e8257a81406660491bac0',
    'mean/f64_1x7': '8a39cfb48c7e4687fff2f932',
    'mean/f64_3x3': '27d97a77403f6cb25c2d401c',
    'mean/f64_5x1': '048f205e5ebf9b85e7cb1681',
    'mean/f64_6x7': '8e43198b80551be50817b7bf',
    'mean/f64_9x12': 'ff1273b2e0f81e43e79d41c6',
    'mean/f64nan_1x1': '5993333cebe28d34c41e50fe',
    'mean/f64nan_1x7': 'a58fe726142bb72fa00164c7',
    'mean/f64nan_3x3': 'b29c4405f0fb33274fea3da6',
    'mean/f64nan_5x1': '23f81afbbe0f610c1f2f33d6',
    'mean/f64nan_6x7': 'e7bebeb0f4b6237b98dfb676',
    'mean/f64nan_9x12': '8eaa13d75ba9199ac42abb59',
    'mean/i32_1x1': '8ea0ab0e3c91bafc5c0a6749',
    'mean/i32_1x7': '7de1a333baa1bfdbe15ff11e',
    'mean/i32_3x3': '64ced8522fa41bd4ddff7a70',
    'mean/i32_5x1': '60b954c727c7d9a237705c79',
    'mean/i32_6x7': '385068c5481ce168ffe32538',
    'mean/i32_9x12': '2ccc4eceef0155e2461a537f',
    'mean/i64_3x3': '837c30bd58459614bea53f3e',
    'mean/i64_6x7': 'c09ceca25ad5dca3468d6647',
    'mean/named': '762fe129d851c8db197c3f87',
    'mean/toplevel': 'd4606c849af094ad39216b2a',
    'mean/u8_3x3': 'b826cffa1ef7298ceebd8e5e',
    'mean/u8_6x7': '1ec171b0d497e543c40b4159',
}

if __name__ == '__main__':
    sys.exit(main())
