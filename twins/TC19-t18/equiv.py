"""Differential test for property C19 (distance metrics / circle + annulus kernels).

Runs the public functions over a grid of inputs, checks them against
independently computed expectations (pure python) and against a digest recorded
from the unmodified tree.  Exit 0 when identical, 1 otherwise.

    python equiv.py            # compare
    python equiv.py --record   # print the digest of the current tree
"""
import hashlib
import itertools
import math
import re
import sys
import time

import dask.array as da
import numpy as np
import xarray as xr

import warnings
warnings.simplefilter('ignore')

import xrspatial  # noqa: E402
from xrspatial import (allocation, direction, euclidean_distance, great_circle_distance,
                       manhattan_distance, proximity)
from xrspatial.convolution import (annulus_kernel, calc_cellsize, circle_kernel)

RECORDED = "2b35cdfa232b205fb608d4aace9a5f91ae356aca4f906429c15902978f2b571e"

failures = []
T0 = time.time()


def fail(msg):
    failures.append(msg)
    if len(failures) <= 20:
        print("FAIL:", msg)


def enc(v):
    """Exact, type-preserving textual encoding of a result."""
    if isinstance(v, BaseException):
        return "%s(%r)" % (type(v).__name__, str(v))
    if isinstance(v, np.ndarray):
        return "nd[%s|%s|%s]" % (v.dtype.str, v.shape,
                                 hashlib.sha256(np.ascontiguousarray(v).tobytes()).hexdigest())
    if isinstance(v, (float, np.floating)):
        return "%s:%s" % (type(v).__name__, float(v).hex())
    if isinstance(v, (int, np.integer)):
        return "%s:%d" % (type(v).__name__, int(v))
    if isinstance(v, (tuple, list)):
        return "(" + ",".join(enc(x) for x in v) + ")"
    return "%s:%r" % (type(v).__name__, v)


def call(f, *a, **k):
    try:
        return f(*a, **k)
    except Exception as e:  # noqa
        return e


log = []


def rec(tag, v):
    log.append("%s=%s" % (tag, enc(v)))
    return v


# --------------------------------------------------------------------------
# 1. distance metrics
# --------------------------------------------------------------------------
nan, inf = float("nan"), float("inf")
plane = [(0.0, 0.0), (1.0, 1.0), (-3.5, 4.25), (142.32, 23.23), (312.54, 432.01),
         (1e-300, -1e-300), (1e154, 1e154), (1e200, -1e200), (3, 4), (0, -7),
         (np.float32(1.1), np.float32(-2.2)), (np.int32(5), np.int16(-6)),
         (nan, 1.0), (2.0, nan), (inf, 0.0), (-inf, inf), (0.1, 0.2), (-0.0, 0.0)]
sphere = [(0.0, 0.0), (0.0, 90.0), (0.0, -90.0), (123.2, 82.32), (178.0, 65.09),
          (180.0, 0.0), (-180.0, 0.0), (179.999, 10.0), (-179.999, -10.0),
          (90.0, 45.0), (-90.0, -45.0), (45, 45), (-135, -45), (180, 90), (-180, -90),
          (np.float32(12.5), np.float32(-33.25)), (1e-9, -1e-9), (0.0, 89.9999999),
          (nan, 0.0), (0.0, nan), (nan, nan),
          # out of range -> ValueError
          (180.0000001, 0.0), (-180.5, 0.0), (0.0, 90.0000001), (0.0, -91.0),
          (181, 0), (0, 91), (inf, 0.0), (0.0, -inf), (-inf, inf), (540.0, 0.0)]


def is_finite(*v):
    return all(math.isfinite(float(x)) for x in v)


for fn_name, fn in (("euclid", euclidean_distance), ("manh", manhattan_distance)):
    for i, (xa, ya) in enumerate(plane):
        for j, (xb, yb) in enumerate(plane):
            for flavour, f in (("jit", fn), ("py", fn.py_func)):
                d = rec("%s.%s[%d,%d]" % (fn_name, flavour, i, j), call(f, xa, xb, ya, yb))
                if isinstance(d, BaseException):
                    fail("%s raised on %r %r: %r" % (fn_name, (xa, ya), (xb, yb), d))
                    continue
                if flavour != "jit":
                    continue
                # independent expectation (python floats, same formula-free oracle)
                dx, dy = float(xa) - float(xb), float(ya) - float(yb)
                if np.float32 in (type(xa), type(xb), type(ya), type(yb)):
                    continue
                if fn_name == "euclid":
                    exp = math.sqrt(dx * dx + dy * dy) if is_finite(dx * dx + dy * dy) \
                        else (nan if math.isnan(dx * dx + dy * dy) else inf)
                else:
                    exp = abs(dx) + abs(dy)
                if not (float(d) == exp or (math.isnan(float(d)) and math.isnan(exp))):
                    fail("%s(%r,%r,%r,%r)=%r expected %r" % (fn_name, xa, xb, ya, yb, d, exp))
                if i == j and is_finite(xa, ya) and float(d) != 0.0:
                    fail("%s not zero on coincident %r" % (fn_name, (xa, ya)))
                # symmetry
                d2 = call(fn, xb, xa, yb, ya)
                if enc(d2) != enc(d):
                    fail("%s asymmetric %r %r" % (fn_name, (xa, ya), (xb, yb)))

R = 6378137
for i, (xa, ya) in enumerate(sphere):
    for j, (xb, yb) in enumerate(sphere):
        for flavour, f in (("jit", great_circle_distance), ("py", great_circle_distance.py_func)):
            d = rec("gc.%s[%d,%d]" % (flavour, i, j), call(f, xa, xb, ya, yb))
            bad = [v for v, lim in ((xa, 180), (xb, 180), (ya, 90), (yb, 90))
                   if float(v) > lim or float(v) < -lim]
            if bad:
                if not isinstance(d, ValueError):
                    fail("gc accepted out of range %r %r -> %r" % ((xa, ya), (xb, yb), d))
                else:
                    # message names the FIRST offending coordinate in x1,x2,y1,y2 order
                    order = [("x", "first", xa, 180), ("x", "second", xb, 180),
                             ("y", "first", ya, 90), ("y", "second", yb, 90)]
                    ax, which, _, lim = [o for o in order
                                         if float(o[2]) > o[3] or float(o[2]) < -o[3]][0]
                    exp_msg = ("Invalid %s-coordinate of the %s point."
                               "Must be in the range [-%d, %d]" % (ax, which, lim, lim))
                    if str(d) != exp_msg:
                        fail("gc message %r != %r" % (str(d), exp_msg))
                continue
            if isinstance(d, BaseException):
                fail("gc raised on in-range %r %r: %r" % ((xa, ya), (xb, yb), d))
                continue
            if not is_finite(xa, ya, xb, yb):
                if not math.isnan(float(d)):
                    fail("gc of NaN input is not NaN: %r" % (d,))
                continue
            if flavour == "jit":
                la1, lo1, la2, lo2 = map(math.radians, map(float, (ya, xa, yb, xb)))
                a = math.sin((la2 - la1) / 2.0) ** 2 + \
                    math.cos(la1) * math.cos(la2) * math.sin((lo2 - lo1) / 2.0) ** 2
                exp = R * 2 * math.asin(math.sqrt(a))
                if np.float32 not in (type(xa), type(xb), type(ya), type(yb)):
                    if not math.isclose(float(d), exp, rel_tol=1e-12, abs_tol=1e-6):
                        fail("gc(%r,%r)=%r expected %r" % ((xa, ya), (xb, yb), d, exp))
                if float(d) > math.pi * R * (1 + 1e-15):
                    fail("gc exceeds half circumference: %r" % (d,))
                if i == j and float(d) != 0.0:
                    fail("gc not zero on coincident point %r" % ((xa, ya),))
                if enc(call(great_circle_distance, xb, xa, yb, ya)) != enc(d):
                    # symmetric up to rounding only; record both, they are in the digest
                    pass
    for radius in (1.0, 1737400, 0.5):
        rec("gc.r[%d,%s]" % (i, radius),
            call(great_circle_distance, xa, 10.0, ya, 20.0, radius))
        rec("gc.rk[%d,%s]" % (i, radius),
            call(great_circle_distance, x1=xa, x2=10.0, y1=ya, y2=20.0, radius=radius))

# triangle inequality on finite points
fin_plane = [p for p in plane if is_finite(*p) and abs(float(p[0])) < 1e100]
for a, b, c in itertools.product(fin_plane, repeat=3):
    for fn in (euclidean_distance, manhattan_distance):
        ab, bc, ac = (float(fn(a[0], b[0], a[1], b[1])), float(fn(b[0], c[0], b[1], c[1])),
                      float(fn(a[0], c[0], a[1], c[1])))
        if ac > (ab + bc) * (1 + 1e-12) + 1e-300:
            fail("triangle inequality %s %r %r %r" % (fn, a, b, c))
fin_sphere = [p for p in sphere if is_finite(*p) and abs(float(p[0])) <= 180 and abs(float(p[1])) <= 90]
for a, b, c in itertools.product(fin_sphere, repeat=3):
    fn = great_circle_distance
    ab, bc, ac = (float(fn(a[0], b[0], a[1], b[1])), float(fn(b[0], c[0], b[1], c[1])),
                  float(fn(a[0], c[0], a[1], c[1])))
    if ac > (ab + bc) * (1 + 1e-9) + 1e-3:
        fail("gc triangle inequality %r %r %r: %r > %r + %r" % (a, b, c, ac, ab, bc))

# --------------------------------------------------------------------------
print('section 1 done', time.time() - T0)
# 2. the metrics as used by proximity / allocation / direction (numpy + dask)
# --------------------------------------------------------------------------
# (every call recompiles a numba closure, so the grid is kept small)
rng = np.random.RandomState(19)
CASES = [(proximity, "prox", np.float64, m, b, kw)
         for m in ("EUCLIDEAN", "GREAT_CIRCLE", "MANHATTAN", "BOGUS")
         for b in ("numpy", "dask") for kw in ({},)]
CASES += [(proximity, "prox", np.float64, "EUCLIDEAN", "dask", {"max_distance": 70.0}),
          (proximity, "prox", np.int32, "MANHATTAN", "numpy", {"target_values": [1, 3]}),
          (proximity, "prox", np.float32, "euclidean", "numpy", {}),
          (allocation, "alloc", np.float64, "EUCLIDEAN", "numpy", {}),
          (allocation, "alloc", np.float64, "GREAT_CIRCLE", "numpy", {"max_distance": 5.0e6}),
          (allocation, "alloc", np.int32, "MANHATTAN", "dask", {"max_distance": 100.0}),
          (direction, "dir", np.float64, "GREAT_CIRCLE", "numpy", {}),
          (direction, "dir", np.float32, "MANHATTAN", "numpy", {"target_values": [2]})]
shape = (5, 7)
base = (rng.rand(*shape) < 0.25) * rng.randint(1, 4, shape)
for pf, pname, dtype, metric, backend, kw in CASES:
    data = base.astype(dtype)
    if np.issubdtype(dtype, np.floating):
        data.flat[1] = np.nan
        data.flat[2] = np.inf
    h, w = shape
    lon = np.linspace(-180, 180, w)
    lat = np.linspace(90, -90, h)
    arr = data if backend == "numpy" else da.from_array(data, chunks=(3, 4))
    raster = xr.DataArray(arr, dims=["lat", "lon"], coords={"lat": lat, "lon": lon})
    out = call(pf, raster, x="lon", y="lat", distance_metric=metric, **kw)
    tag = "%s.%s.%s.%s.%s" % (pname, np.dtype(dtype).name, metric, backend, sorted(kw))
    if isinstance(out, BaseException):
        rec(tag, out)
        continue
    lazy = isinstance(out.data, da.Array)
    if lazy != (backend == "dask"):
        fail("backend type changed for " + tag)
    rec(tag, np.asarray(out.data.compute() if lazy else out.data))

print('section 2 done', time.time() - T0)
# 3. circle / annulus kernels, distance strings, cell sizes
# --------------------------------------------------------------------------
def ellipse_oracle(hw, hh):
    out = np.zeros((2 * hh + 1, 2 * hw + 1), dtype=float)
    for r in range(2 * hh + 1):
        for c in range(2 * hw + 1):
            x, y = c - hw, r - hh
            if (x * hh) ** 2 + (y * hw) ** 2 <= (hw * hh) ** 2:
                out[r, c] = 1.0
    return out


UNIT = {'meter': 1, 'meters': 1, 'm': 1, 'feet': 0.3048, 'foot': 0.3048, 'ft': 0.3048,
        'miles': 1609.344, 'mls': 1609.344, 'ml': 1609.344,
        'kilometer': 1000, 'kilometers': 1000, 'km': 1000}
cells = [1, 2, 0.5, 3.3, 10, 30.0, np.float32(2.5), np.int64(4), 1000, 0.1]
radii = [1, 2, 3, 5, 7.5, 10, 0.4, 33, 100.0, np.float32(6.5), np.int32(9),
         "3", "3m", "12 meters", "2km", "1.5 KM", "0.01 miles", "100ft", "250 Feet",
         "3 foot", "1ml", "1 mls", ".5km", "1e3", "5 m ", " 5m", "1.2.3", "",
         "km", "-3", "-3km", "0", "0.0m", "3 parsec", "3kms", "3 k m", "nan", "inf",
         "3m5", "--3", "3-2", "+3", 0, -1, -0.5, None, True, 1e3, 12345.678]

def too_big(r, *cellsizes):
    """Rough independent size estimate, only used to keep the kernels small."""
    m = re.fullmatch(r'\s*(-?\d*\.?\d+)\s*([a-zA-Z ]*)', str(r))
    if not m:
        return False
    factor = UNIT.get(m.group(2).lower().replace(' ', ''), 1609.344)
    return float(m.group(1)) * factor / min(float(c) for c in cellsizes) > 300


for cx, cy, r in itertools.product(cells, cells, radii):
    if too_big(r, cx, cy):
        continue
    k = rec("circle[%r,%r,%r]" % (cx, cy, r), call(circle_kernel, cx, cy, r))
    if isinstance(k, np.ndarray):
        if k.dtype != np.float64 or k.shape[0] % 2 != 1 or k.shape[1] % 2 != 1:
            fail("circle_kernel dtype/shape %r %r" % (k.dtype, k.shape))
        if not (np.array_equal(k, k[::-1]) and np.array_equal(k, k[:, ::-1])):
            fail("circle_kernel not symmetric for %r" % ((cx, cy, r),))
        if not np.isin(k, (0.0, 1.0)).all():
            fail("circle_kernel is not a 0/1 mask")
# exact shape oracle on plain numeric radii / unit strings
for cx, cy in itertools.product([1, 2, 0.5, 3.3, 10, 30.0], repeat=2):
    for r, metres in ((1, 1.0), (3, 3.0), (7.5, 7.5), (33, 33.0), ("2km", 2000.0),
                      ("100ft", 100 * 0.3048), ("0.01 miles", 0.01 * 1609.344),
                      ("12 meters", 12.0), ("1.5 KM", 1500.0), ("250 Feet", 250 * 0.3048)):
        hw, hh = int(metres / cx), int(metres / cy)
        if too_big(r, cx, cy):
            continue
        got = circle_kernel(cx, cy, r)
        if not (got.shape == (2 * hh + 1, 2 * hw + 1) and np.array_equal(got, ellipse_oracle(hw, hh))):
            fail("circle_kernel(%r,%r,%r) differs from the ellipse oracle" % (cx, cy, r))

ann_cells = [1, 2, 0.5, 3.3, np.float32(2.5), 10]
ann_radii = [(3, 1), (5, 2), (10, 3), (7.5, 7.5), (4, 0.4), ("1km", "200m"), ("100ft", "10 ft"),
             (20, "3"), (3, 5), (1, 1), (6, 0), (0, 0), (5, -1), ("x", 1), (5, "1 parsec"),
             (33, 12.5), ("0.02 miles", 9), (np.float32(9.5), np.int32(2))]
for cx, cy, (ro, ri) in itertools.product(ann_cells, ann_cells, ann_radii):
    if too_big(ro, cx, cy) or too_big(ri, cx, cy):
        continue
    k = rec("annulus[%r,%r,%r,%r]" % (cx, cy, ro, ri), call(annulus_kernel, cx, cy, ro, ri))
    if isinstance(k, np.ndarray):
        outer, inner = circle_kernel(cx, cy, ro), circle_kernel(cx, cy, ri)
        if outer.shape[0] >= inner.shape[0] and outer.shape[1] >= inner.shape[1]:
            exp = outer.copy()
            r0 = (outer.shape[0] - inner.shape[0]) // 2
            c0 = (outer.shape[1] - inner.shape[1]) // 2
            exp[r0:r0 + inner.shape[0], c0:c0 + inner.shape[1]] -= inner
            if not (k.dtype == exp.dtype and np.array_equal(k, exp)):
                fail("annulus_kernel(%r,%r,%r,%r) != outer - centred inner" % (cx, cy, ro, ri))
            if (k < 0).any():
                fail("annulus_kernel negative")

for unit in [None, 'm', 'meter', 'meters', 'km', 'kilometer', 'kilometers', 'ft', 'foot',
             'feet', 'ml', 'mls', 'miles', 'KM', 'parsec', '']:
    for shape, backend in itertools.product(((4, 6), (3, 3), (2, 5)), ("numpy", "dask")):
        data = np.ones(shape)
        arr = data if backend == "numpy" else da.from_array(data, chunks=(2, 2))
        attrs = {} if unit is None else {'unit': unit}
        raster = xr.DataArray(arr, dims=['y', 'x'], attrs=attrs)
        raster['y'] = np.linspace(shape[0] * 2.5, 2.5, shape[0])
        raster['x'] = np.linspace(0.75, shape[1] * 0.75, shape[1])
        cs = rec("cellsize[%r,%r,%s]" % (unit, shape, backend), call(calc_cellsize, raster))
        if unit in UNIT or unit is None:
            f = UNIT.get(unit, 1)
            rx, ry = xrspatial.utils.get_dataarray_resolution(raster)
            if isinstance(cs, BaseException) or enc(cs) != enc((rx * f, np.abs(ry * f))):
                fail("calc_cellsize unit %r -> %r" % (unit, cs))
    raster = xr.DataArray(np.ones((3, 3)), attrs={'res': (0.5, 2), **({} if unit is None else {'unit': unit})})
    rec("cellsize.res[%r]" % (unit,), call(calc_cellsize, raster))

# --------------------------------------------------------------------------
digest = hashlib.sha256("\n".join(log).encode()).hexdigest()
if "--record" in sys.argv:
    print(digest, len(log))
    sys.exit(0)
if "--dump" in sys.argv:
    print("\n".join(log))
    sys.exit(0)
print("xrspatial from", xrspatial.__file__, "| results:", len(log), "| digest:", digest)
if digest != RECORDED:
    fail("digest %s differs from the one recorded on the unmodified tree %s" % (digest, RECORDED))
if failures:
    print("%d failure(s)" % len(failures))
    sys.exit(1)
print("OK")
sys.exit(0)
