"""Differential test for property C09 (focal / convolution / hotspots).

Usage (from inside the library worktree):
    cd <worktree> && PYTHONPATH=<worktree> python equiv.py          # check
    cd <worktree> && PYTHONPATH=<worktree> RECORD=1 python equiv.py # print digests

Every case is run through the public API; the result (dtype, shape, bytes with
NaNs canonicalised, container metadata) or the raised exception type is hashed
and compared with the digest recorded on the UNMODIFIED tree (EXPECTED below).
On top of that the results are compared against an independent pure-NumPy
reference implementation of the property (tolerance: float32 round-off).
Exit status 0 iff everything is identical.
"""
import hashlib
import os
import sys
import warnings

import dask
import dask.array as da
import numpy as np
import xarray as xr

import xrspatial
from xrspatial import focal
from xrspatial.convolution import (annulus_kernel, circle_kernel, convolution_2d, convolve_2d,
                                   custom_kernel)
from xrspatial.utils import ngjit

warnings.simplefilter('ignore')
dask.config.set(scheduler='synchronous')

SECTIONS = ['hotspots']

EXPECTED = {
    'hot/f8(1, 1)/k1x1/np': 'EXC:ZeroDivisionError',
    'hot/neg/f8(1, 1)/k1x1/np': 'EXC:ZeroDivisionError',
    'hot/f8(1, 1)/k1x1/dask(1, 1)': '2ec33940b87eb9388054',
    'hot/f8(1, 1)/k3x3full/np': 'EXC:ZeroDivisionError',
    'hot/neg/f8(1, 1)/k3x3full/np': 'EXC:ZeroDivisionError',
    'hot/f8(1, 1)/k3x3cross/np': 'EXC:ZeroDivisionError',
    'hot/neg/f8(1, 1)/k3x3cross/np': 'EXC:ZeroDivisionError',
    'hot/f8(1, 1)/k1x3asym/np': 'EXC:ZeroDivisionError',
    'hot/neg/f8(1, 1)/k1x3asym/np': 'EXC:ZeroDivisionError',
    'hot/f8(1, 1)/k3x1asym/np': 'EXC:ZeroDivisionError',
    'hot/neg/f8(1, 1)/k3x1asym/np': 'EXC:ZeroDivisionError',
    'hot/f8(1, 1)/k5x3rand/np': 'EXC:ZeroDivisionError',
    'hot/neg/f8(1, 1)/k5x3rand/np': 'EXC:ZeroDivisionError',
    'hot/f8(1, 1)/k3x5fortran/np': 'EXC:ZeroDivisionError',
    'hot/neg/f8(1, 1)/k3x5fortran/np': 'EXC:ZeroDivisionError',
    'hot/f8(1, 1)/k5x5annulus/np': 'EXC:ZeroDivisionError',
    'hot/neg/f8(1, 1)/k5x5annulus/np': 'EXC:ZeroDivisionError',
    'hot/f8(1, 1)/k3x3nocentre/np': 'EXC:ZeroDivisionError',
    'hot/neg/f8(1, 1)/k3x3nocentre/np': 'EXC:ZeroDivisionError',
    'hot/f4(1, 1)/k1x1/np': 'EXC:ZeroDivisionError',
    'hot/neg/f4(1, 1)/k1x1/np': 'EXC:ZeroDivisionError',
    'hot/f4(1, 1)/k1x1/dask(1, 1)': '2ec33940b87eb9388054',
    'hot/f4(1, 1)/k3x3full/np': 'EXC:ZeroDivisionError',
    'hot/neg/f4(1, 1)/k3x3full/np': 'EXC:ZeroDivisionError',
    'hot/f4(1, 1)/k3x3cross/np': 'EXC:ZeroDivisionError',
    'hot/neg/f4(1, 1)/k3x3cross/np': 'EXC:ZeroDivisionError',
    'hot/f4(1, 1)/k1x3asym/np': 'EXC:ZeroDivisionError',
    'hot/neg/f4(1, 1)/k1x3asym/np': 'EXC:ZeroDivisionError',
    'hot/f4(1, 1)/k3x1asym/np': 'EXC:ZeroDivisionError',
    'hot/neg/f4(1, 1)/k3x1asym/np': 'EXC:ZeroDivisionError',
    'hot/f4(1, 1)/k5x3rand/np': 'EXC:ZeroDivisionError',
    'hot/neg/f4(1, 1)/k5x3rand/np': 'EXC:ZeroDivisionError',
    'hot/f4(1, 1)/k3x5fortran/np': 'EXC:ZeroDivisionError',
    'hot/neg/f4(1, 1)/k3x5fortran/np': 'EXC:ZeroDivisionError',
    'hot/f4(1, 1)/k5x5annulus/np': 'EXC:ZeroDivisionError',
    'hot/neg/f4(1, 1)/k5x5annulus/np': 'EXC:ZeroDivisionError',
    'hot/f4(1, 1)/k3x3nocentre/np': 'EXC:ZeroDivisionError',
    'hot/neg/f4(1, 1)/k3x3nocentre/np': 'EXC:ZeroDivisionError',
    'hot/i4(1, 1)/k1x1/np': 'EXC:ZeroDivisionError',
    'hot/neg/i4(1, 1)/k1x1/np': 'EXC:ZeroDivisionError',
    'hot/i4(1, 1)/k1x1/dask(1, 1)': '2ec33940b87eb9388054',
    'hot/i4(1, 1)/k3x3full/np': 'EXC:ZeroDivisionError',
    'hot/neg/i4(1, 1)/k3x3full/np': 'EXC:ZeroDivisionError',
    'hot/i4(1, 1)/k3x3cross/np': 'EXC:ZeroDivisionError',
    'hot/neg/i4(1, 1)/k3x3cross/np': 'EXC:ZeroDivisionError',
    'hot/i4(1, 1)/k1x3asym/np': 'EXC:ZeroDivisionError',
    'hot/neg/i4(1, 1)/k1x3asym/np': 'EXC:ZeroDivisionError',
    'hot/i4(1, 1)/k3x1asym/np': 'EXC:ZeroDivisionError',
    'hot/neg/i4(1, 1)/k3x1asym/np': 'EXC:ZeroDivisionError',
    'hot/i4(1, 1)/k5x3rand/np': 'EXC:ZeroDivisionError',
    'hot/neg/i4(1, 1)/k5x3rand/np': 'EXC:ZeroDivisionError',
    'hot/i4(1, 1)/k3x5fortran/np': 'EXC:ZeroDivisionError',
    'hot/neg/i4(1, 1)/k3x5fortran/np': 'EXC:ZeroDivisionError',
    'hot/i4(1, 1)/k5x5annulus/np': 'EXC:ZeroDivisionError',
    'hot/neg/i4(1, 1)/k5x5annulus/np': 'EXC:ZeroDivisionError',
    'hot/i4(1, 1)/k3x3nocentre/np': 'EXC:ZeroDivisionError',
    'hot/neg/i4(1, 1)/k3x3nocentre/np': 'EXC:ZeroDivisionError',
    'hot/i8(1, 1)/k1x1/np': 'EXC:ZeroDivisionError',
    'hot/neg/i8(1, 1)/k1x1/np': 'EXC:ZeroDivisionError',
    'hot/i8(1, 1)/k1x1/dask(1, 1)': '2ec33940b87eb9388054',
    'hot/i8(1, 1)/k3x3full/np': 'EXC:ZeroDivisionError',
    'hot/neg/i8(1, 1)/k3x3full/np': 'EXC:ZeroDivisionError',
    'hot/i8(1, 1)/k3x3cross/np': 'EXC:ZeroDivisionError',
    'hot/neg/i8(1, 1)/k3x3cross/np': 'EXC:ZeroDivisionError',
    'hot/i8(1, 1)/k1x3asym/np': 'EXC:ZeroDivisionError',
    'hot/neg/i8(1, 1)/k1x3asym/np': 'EXC:ZeroDivisionError',
    'hot/i8(1, 1)/k3x1asym/np': 'EXC:ZeroDivisionError',
    'hot/neg/i8(1, 1)/k3x1asym/np': 'EXC:ZeroDivisionError',
    'hot/i8(1, 1)/k5x3rand/np': 'EXC:ZeroDivisionError',
    'hot/neg/i8(1, 1)/k5x3rand/np': 'EXC:ZeroDivisionError',
    'hot/i8(1, 1)/k3x5fortran/np': 'EXC:ZeroDivisionError',
    'hot/neg/i8(1, 1)/k3x5fortran/np': 'EXC:ZeroDivisionError',
    'hot/i8(1, 1)/k5x5annulus/np': 'EXC:ZeroDivisionError',
    'hot/neg/i8(1, 1)/k5x5annulus/np': 'EXC:ZeroDivisionError',
    'hot/i8(1, 1)/k3x3nocentre/np': 'EXC:ZeroDivisionError',
    'hot/neg/i8(1, 1)/k3x3nocentre/np': 'EXC:ZeroDivisionError',
    'hot/u1(1, 1)/k1x1/np': 'EXC:ZeroDivisionError',
    'hot/u1(1, 1)/k1x1/dask(1, 1)': '2ec33940b87eb9388054',
    'hot/u1(1, 1)/k3x3full/np': 'EXC:ZeroDivisionError',
    'hot/u1(1, 1)/k3x3cross/np': 'EXC:ZeroDivisionError',
    'hot/u1(1, 1)/k1x3asym/np': 'EXC:ZeroDivisionError',
    'hot/u1(1, 1)/k3x1asym/np': 'EXC:ZeroDivisionError',
    'hot/u1(1, 1)/k5x3rand/np': 'EXC:ZeroDivisionError',
    'hot/u1(1, 1)/k3x5fortran/np': 'EXC:ZeroDivisionError',
    'hot/u1(1, 1)/k5x5annulus/np': 'EXC:ZeroDivisionError',
    'hot/u1(1, 1)/k3x3nocentre/np': 'EXC:ZeroDivisionError',
    'hot/f8nan(1, 1)/k1x1/np': 'bd77dba42f4d7b37901c',
    'hot/neg/f8nan(1, 1)/k1x1/np': 'bd77dba42f4d7b37901c',
    'hot/f8nan(1, 1)/k1x1/dask(1, 1)': '2ec33940b87eb9388054',
    'hot/f8nan(1, 1)/k3x3full/np': 'bd77dba42f4d7b37901c',
    'hot/neg/f8nan(1, 1)/k3x3full/np': 'bd77dba42f4d7b37901c',
    'hot/f8nan(1, 1)/k3x3cross/np': 'bd77dba42f4d7b37901c',
    'hot/neg/f8nan(1, 1)/k3x3cross/np': 'bd77dba42f4d7b37901c',
    'hot/f8nan(1, 1)/k1x3asym/np': 'bd77dba42f4d7b37901c',
    'hot/neg/f8nan(1, 1)/k1x3asym/np': 'bd77dba42f4d7b37901c',
    'hot/f8nan(1, 1)/k3x1asym/np': 'bd77dba42f4d7b37901c',
    'hot/neg/f8nan(1, 1)/k3x1asym/np': 'bd77dba42f4d7b37901c',
    'hot/f8nan(1, 1)/k5x3rand/np': 'bd77dba42f4d7b37901c',
    'hot/neg/f8nan(1, 1)/k5x3rand/np': 'bd77dba42f4d7b37901c',
    'hot/f8nan(1, 1)/k3x5fortran/np': 'bd77dba42f4d7b37901c',
    'hot/neg/f8nan(1, 1)/k3x5fortran/np': 'bd77dba42f4d7b37901c',
    'hot/f8nan(1, 1)/k5x5annulus/np': 'bd77dba42f4d7b37901c',
    'hot/neg/f8nan(1, 1)/k5x5annulus/np': 'bd77dba42f4d7b37901c',
    'hot/f8nan(1, 1)/k3x3nocentre/np': 'bd77dba42f4d7b37901c',
    'hot/neg/f8nan(1, 1)/k3x3nocentre/np': 'bd77dba42f4d7b37901c',
    'hot/f4nan(1, 1)/k1x1/np': 'bd77dba42f4d7b37901c',
    'hot/neg/f4nan(1, 1)/k1x1/np': 'bd77dba42f4d7b37901c',
    'hot/f4nan(1, 1)/k1x1/dask(1, 1)': '2ec33940b87eb9388054',
    'hot/f4nan(1, 1)/k3x3full/np': 'bd77dba42f4d7b37901c',
    'hot/neg/f4nan(1, 1)/k3x3full/np': 'bd77dba42f4d7b37901c',
    'hot/f4nan(1, 1)/k3x3cross/np': 'bd77dba42f4d7b37901c',
    'hot/neg/f4nan(1, 1)/k3x3cross/np': 'bd77dba42f4d7b37901c',
    'hot/f4nan(1, 1)/k1x3asym/np': 'bd77dba42f4d7b37901c',
    'hot/neg/f4nan(1, 1)/k1x3asym/np': 'bd77dba42f4d7b37901c',
    'hot/f4nan(1, 1)/k3x1asym/np': 'bd77dba42f4d7b37901c',
    'hot/neg/f4nan(1, 1)/k3x1asym/np': 'bd77dba42f4d7b37901c',
    'hot/f4nan(1, 1)/k5x3rand/np': 'bd77dba42f4d7b37901c',
    'hot/neg/f4nan(1, 1)/k5x3rand/np': 'bd77dba42f4d7b37901c',
    'hot/f4nan(1, 1)/k3x5fortran/np': 'bd77dba42f4d7b37901c',
    'hot/neg/f4nan(1, 1)/k3x5fortran/np': 'bd77dba42f4d7b37901c',
    'hot/f4nan(1, 1)/k5x5annulus/np': 'bd77dba42f4d7b37901c',
    'hot/neg/f4nan(1, 1)/k5x5annulus/np': 'bd77dba42f4d7b37901c',
    'hot/f4nan(1, 1)/k3x3nocentre/np': 'bd77dba42f4d7b37901c',
    'hot/neg/f4nan(1, 1)/k3x3nocentre/np': 'bd77dba42f4d7b37901c',
    'hot/f8(1, 7)/k1x1/np': '478c55297a9bab5740c2',
    'hot/neg/f8(1, 7)/k1x1/np': '478c55297a9bab5740c2',
    'hot/f8(1, 7)/k1x1/dask(1, 7)': '476a49d7ed196cf6c621',
    'hot/f8(1, 7)/k1x1/dask(1, 4)': '722fdb27c948c83ff967',
    'hot/f8(1, 7)/k1x1/dask(1, 3)': 'cb295c6fa98c529b159e',
    'hot/f8(1, 7)/k3x3full/np': '478c55297a9bab5740c2',
    'hot/neg/f8(1, 7)/k3x3full/np': '478c55297a9bab5740c2',
    'hot/f8(1, 7)/k3x3cross/np': '478c55297a9bab5740c2',
    'hot/neg/f8(1, 7)/k3x3cross/np': '478c55297a9bab5740c2',
    'hot/f8(1, 7)/k1x3asym/np': '478c55297a9bab5740c2',
    'hot/neg/f8(1, 7)/k1x3asym/np': '478c55297a9bab5740c2',
    'hot/f8(1, 7)/k1x3asym/dask(1, 7)': 'f5ba1116ff2dc3bc1bdb',
    'hot/f8(1, 7)/k1x3asym/dask(1, 4)': '714e13860c60fb1c42a3',
    'hot/f8(1, 7)/k1x3asym/dask(1, 3)': '4a8ebbffad863bafac5d',
    'hot/f8(1, 7)/k3x1asym/np': '478c55297a9bab5740c2',
    'hot/neg/f8(1, 7)/k3x1asym/np': '478c55297a9bab5740c2',
    'hot/f8(1, 7)/k5x3rand/np': '478c55297a9bab5740c2',
    'hot/neg/f8(1, 7)/k5x3rand/np': '478c55297a9bab5740c2',
    'hot/f8(1, 7)/k3x5fortran/np': '478c55297a9bab5740c2',
    'hot/neg/f8(1, 7)/k3x5fortran/np': '478c55297a9bab5740c2',
    'hot/f8(1, 7)/k5x5annulus/np': '478c55297a9bab5740c2',
    'hot/neg/f8(1, 7)/k5x5annulus/np': '478c55297a9bab5740c2',
    'hot/f8(1, 7)/k3x3nocentre/np': '478c55297a9bab5740c2',
    'hot/neg/f8(1, 7)/k3x3nocentre/np': '478c55297a9bab5740c2',
    'hot/f4(1, 7)/k1x1/np': '478c55297a9bab5740c2',
    'hot/neg/f4(1, 7)/k1x1/np': '478c55297a9bab5740c2',
    'hot/f4(1, 7)/k1x1/dask(1, 7)': '476a49d7ed196cf6c621',
    'hot/f4(1, 7)/k1x1/dask(1, 4)': '722fdb27c948c83ff967',
    'hot/f4(1, 7)/k1x1/dask(1, 3)': 'cb295c6fa98c529b159e',
    'hot/f4(1, 7)/k3x3full/np': '478c55297a9bab5740c2',
    'hot/neg/f4(1, 7)/k3x3full/np': '478c55297a9bab5740c2',
    'hot/f4(1, 7)/k3x3cross/np': '478c55297a9bab5740c2',
    'hot/neg/f4(1, 7)/k3x3cross/np': '478c55297a9bab5740c2',
    'hot/f4(1, 7)/k1x3asym/np': '478c55297a9bab5740c2',
    'hot/neg/f4(1, 7)/k1x3asym/np': '478c55297a9bab5740c2',
    'hot/f4(1, 7)/k1x3asym/dask(1, 7)': 'f5ba1116ff2dc3bc1bdb',
    'hot/f4(1, 7)/k1x3asym/dask(1, 4)': '714e13860c60fb1c42a3',
    'hot/f4(1, 7)/k1x3asym/dask(1, 3)': '4a8ebbffad863bafac5d',
    'hot/f4(1, 7)/k3x1asym/np': '478c55297a9bab5740c2',
    'hot/neg/f4(1, 7)/k3x1asym/np': '478c55297a9bab5740c2',
    'hot/f4(1, 7)/k5x3rand/np': '478c55297a9bab5740c2',
    'hot/neg/f4(1, 7)/k5x3rand/np': '478c55297a9bab5740c2',
    'hot/f4(1, 7)/k3x5fortran/np': '478c55297a9bab5740c2',
    'hot/neg/f4(1, 7)/k3x5fortran/np': '478c55297a9bab5740c2',
    'hot/f4(1, 7)/k5x5annulus/np': '478c55297a9bab5740c2',
    'hot/neg/f4(1, 7)/k5x5annulus/np': '478c55297a9bab5740c2',
    'hot/f4(1, 7)/k3x3nocentre/np': '478c55297a9bab5740c2',
    'hot/neg/f4(1, 7)/k3x3nocentre/np': '478c55297a9bab5740c2',
    'hot/i4(1, 7)/k1x1/np': '4f54009d3210814dc5b3',
    'hot/neg/i4(1, 7)/k1x1/np': 'df85d19745690d867d7a',
    'hot/i4(1, 7)/k1x1/dask(1, 7)': 'b39167c6003359b4e281',
    'hot/i4(1, 7)/k1x1/dask(1, 4)': '4a7f0a4243e9ff3c1fbc',
    'hot/i4(1, 7)/k1x1/dask(1, 3)': '7214e69f91ea509bec0b',
    'hot/i4(1, 7)/k3x3full/np': '478c55297a9bab5740c2',
    'hot/neg/i4(1, 7)/k3x3full/np': '478c55297a9bab5740c2',
    'hot/i4(1, 7)/k3x3cross/np': '478c55297a9bab5740c2',
    'hot/neg/i4(1, 7)/k3x3cross/np': '478c55297a9bab5740c2',
    'hot/i4(1, 7)/k1x3asym/np': '478c55297a9bab5740c2',
    'hot/neg/i4(1, 7)/k1x3asym/np': '478c55297a9bab5740c2',
    'hot/i4(1, 7)/k1x3asym/dask(1, 7)': 'f5ba1116ff2dc3bc1bdb',
    'hot/i4(1, 7)/k1x3asym/dask(1, 4)': '714e13860c60fb1c42a3',
    'hot/i4(1, 7)/k1x3asym/dask(1, 3)': '4a8ebbffad863bafac5d',
    'hot/i4(1, 7)/k3x1asym/np': '478c55297a9bab5740c2',
    'hot/neg/i4(1, 7)/k3x1asym/np': '478c55297a9bab5740c2',
    'hot/i4(1, 7)/k5x3rand/np': '478c55297a9bab5740c2',
    'hot/neg/i4(1, 7)/k5x3rand/np': '478c55297a9bab5740c2',
    'hot/i4(1, 7)/k3x5fortran/np': '478c55297a9bab5740c2',
    'hot/neg/i4(1, 7)/k3x5fortran/np': '478c55297a9bab5740c2',
    'hot/i4(1, 7)/k5x5annulus/np': '478c55297a9bab5740c2',
    'hot/neg/i4(1, 7)/k5x5annulus/np': '478c55297a9bab5740c2',
    'hot/i4(1, 7)/k3x3nocentre/np': '478c55297a9bab5740c2',
    'hot/neg/i4(1, 7)/k3x3nocentre/np': '478c55297a9bab5740c2',
    'hot/i8(1, 7)/k1x1/np': '478c55297a9bab5740c2',
    'hot/neg/i8(1, 7)/k1x1/np': '478c55297a9bab5740c2',
    'hot/i8(1, 7)/k1x1/dask(1, 7)': '476a49d7ed196cf6c621',
    'hot/i8(1, 7)/k1x1/dask(1, 4)': '722fdb27c948c83ff967',
    'hot/i8(1, 7)/k1x1/dask(1, 3)': 'cb295c6fa98c529b159e',
    'hot/i8(1, 7)/k3x3full/np': '478c55297a9bab5740c2',
    'hot/neg/i8(1, 7)/k3x3full/np': '478c55297a9bab5740c2',
    'hot/i8(1, 7)/k3x3cross/np': '478c55297a9bab5740c2',
    'hot/neg/i8(1, 7)/k3x3cross/np': '478c55297a9bab5740c2',
    'hot/i8(1, 7)/k1x3asym/np': '478c55297a9bab5740c2',
    'hot/neg/i8(1, 7)/k1x3asym/np': '478c55297a9bab5740c2',
    'hot/i8(1, 7)/k1x3asym/dask(1, 7)': 'f5ba1116ff2dc3bc1bdb',
    'hot/i8(1, 7)/k1x3asym/dask(1, 4)': '714e13860c60fb1c42a3',
    'hot/i8(1, 7)/k1x3asym/dask(1, 3)': '4a8ebbffad863bafac5d',
    'hot/i8(1, 7)/k3x1asym/np': '478c55297a9bab5740c2',
    'hot/neg/i8(1, 7)/k3x1asym/np': '478c55297a9bab5740c2',
    'hot/i8(1, 7)/k5x3rand/np': '478c55297a9bab5740c2',
    'hot/neg/i8(1, 7)/k5x3rand/np': '478c55297a9bab5740c2',
    'hot/i8(1, 7)/k3x5fortran/np': '478c55297a9bab5740c2',
    'hot/neg/i8(1, 7)/k3x5fortran/np': '478c55297a9bab5740c2',
    'hot/i8(1, 7)/k5x5annulus/np': '478c55297a9bab5740c2',
    'hot/neg/i8(1, 7)/k5x5annulus/np': '478c55297a9bab5740c2',
    'hot/i8(1, 7)/k3x3nocentre/np': '478c55297a9bab5740c2',
    'hot/neg/i8(1, 7)/k3x3nocentre/np': '478c55297a9bab5740c2',
    'hot/u1(1, 7)/k1x1/np': '478c55297a9bab5740c2',
    'hot/u1(1, 7)/k1x1/dask(1, 7)': '476a49d7ed196cf6c621',
    'hot/u1(1, 7)/k1x1/dask(1, 4)': '722fdb27c948c83ff967',
    'hot/u1(1, 7)/k1x1/dask(1, 3)': 'cb295c6fa98c529b159e',
    'hot/u1(1, 7)/k3x3full/np': '478c55297a9bab5740c2',
    'hot/u1(1, 7)/k3x3cross/np': '478c55297a9bab5740c2',
    'hot/u1(1, 7)/k1x3asym/np': '478c55297a9bab5740c2',
    'hot/u1(1, 7)/k1x3asym/dask(1, 7)': 'f5ba1116ff2dc3bc1bdb',
    'hot/u1(1, 7)/k1x3asym/dask(1, 4)': '714e13860c60fb1c42a3',
    'hot/u1(1, 7)/k1x3asym/dask(1, 3)': '4a8ebbffad863bafac5d',
    'hot/u1(1, 7)/k3x1asym/np': '478c55297a9bab5740c2',
    'hot/u1(1, 7)/k5x3rand/np': '478c55297a9bab5740c2',
    'hot/u1(1, 7)/k3x5fortran/np': '478c55297a9bab5740c2',
    'hot/u1(1, 7)/k5x5annulus/np': '478c55297a9bab5740c2',
    'hot/u1(1, 7)/k3x3nocentre/np': '478c55297a9bab5740c2',
    'hot/f8nan(1, 7)/k1x1/np': '478c55297a9bab5740c2',
    'hot/neg/f8nan(1, 7)/k1x1/np': '478c55297a9bab5740c2',
    'hot/f8nan(1, 7)/k1x1/dask(1, 7)': '476a49d7ed196cf6c621',
    'hot/f8nan(1, 7)/k1x1/dask(1, 4)': '722fdb27c948c83ff967',
    'hot/f8nan(1, 7)/k1x1/dask(1, 3)': 'cb295c6fa98c529b159e',
    'hot/f8nan(1, 7)/k3x3full/np': '478c55297a9bab5740c2',
    'hot/neg/f8nan(1, 7)/k3x3full/np': '478c55297a9bab5740c2',
    'hot/f8nan(1, 7)/k3x3cross/np': '478c55297a9bab5740c2',
    'hot/neg/f8nan(1, 7)/k3x3cross/np': '478c55297a9bab5740c2',
    'hot/f8nan(1, 7)/k1x3asym/np': '478c55297a9bab5740c2',
    'hot/neg/f8nan(1, 7)/k1x3asym/np': '478c55297a9bab5740c2',
    'hot/f8nan(1, 7)/k1x3asym/dask(1, 7)': 'f5ba1116ff2dc3bc1bdb',
    'hot/f8nan(1, 7)/k1x3asym/dask(1, 4)': '714e13860c60fb1c42a3',
    'hot/f8nan(1, 7)/k1x3asym/dask(1, 3)': '4a8ebbffad863bafac5d',
    'hot/f8nan(1, 7)/k3x1asym/np': '478c55297a9bab5740c2',
    'hot/neg/f8nan(1, 7)/k3x1asym/np': '478c55297a9bab5740c2',
    'hot/f8nan(1, 7)/k5x3rand/np': '478c55297a9bab5740c2',
    'hot/neg/f8nan(1, 7)/k5x3rand/np': '478c55297a9bab5740c2',
    'hot/f8nan(1, 7)/k3x5fortran/np': '478c55297a9bab5740c2',
    'hot/neg/f8nan(1, 7)/k3x5fortran/np': '478c55297a9bab5740c2',
    'hot/f8nan(1, 7)/k5x5annulus/np': '478c55297a9bab5740c2',
    'hot/neg/f8nan(1, 7)/k5x5annulus/np': '478c55297a9bab5740c2',
    'hot/f8nan(1, 7)/k3x3nocentre/np': '478c55297a9bab5740c2',
    'hot/neg/f8nan(1, 7)/k3x3nocentre/np': '478c55297a9bab5740c2',
    'hot/f4nan(1, 7)/k1x1/np': '478c55297a9bab5740c2',
    'hot/neg/f4nan(1, 7)/k1x1/np': '478c55297a9bab5740c2',
    'hot/f4nan(1, 7)/k1x1/dask(1, 7)': '476a49d7ed196cf6c621',
    'hot/f4nan(1, 7)/k1x1/dask(1, 4)': '722fdb27c948c83ff967',
    'hot/f4nan(1, 7)/k1x1/dask(1, 3)': 'cb295c6fa98c529b159e',
    'hot/f4nan(1, 7)/k3x3full/np': '478c55297a9bab5740c2',
    'hot/neg/f4nan(1, 7)/k3x3full/np': '478c55297a9bab5740c2',
    'hot/f4nan(1, 7)/k3x3cross/np': '478c55297a9bab5740c2',
    'hot/neg/f4nan(1, 7)/k3x3cross/np': '478c55297a9bab5740c2',
    'hot/f4nan(1, 7)/k1x3asym/np': '478c55297a9bab5740c2',
    'hot/neg/f4nan(1, 7)/k1x3asym/np': '478c55297a9bab5740c2',
    'hot/f4nan(1, 7)/k1x3asym/dask(1, 7)': 'f5ba1116ff2dc3bc1bdb',
    'hot/f4nan(1, 7)/k1x3asym/dask(1, 4)': '714e13860c60fb1c42a3',
    'hot/f4nan(1, 7)/k1x3asym/dask(1, 3)': '4a8ebbffad863bafac5d',
    'hot/f4nan(1, 7)/k3x1asym/np': '478c55297a9bab5740c2',
    'hot/neg/f4nan(1, 7)/k3x1asym/np': '478c55297a9bab5740c2',
    'hot/f4nan(1, 7)/k5x3rand/np': '478c55297a9bab5740c2',
    'hot/neg/f4nan(1, 7)/k5x3rand/np': '478c55297a9bab5740c2',
    'hot/f4nan(1, 7)/k3x5fortran/np': '478c55297a9bab5740c2',
    'hot/neg/f4nan(1, 7)/k3x5fortran/np': '478c55297a9bab5740c2',
    'hot/f4nan(1, 7)/k5x5annulus/np': '478c55297a9bab5740c2',
    'hot/neg/f4nan(1, 7)/k5x5annulus/np': '478c55297a9bab5740c2',
    'hot/f4nan(1, 7)/k3x3nocentre/np': '478c55297a9bab5740c2',
    'hot/neg/f4nan(1, 7)/k3x3nocentre/np': '478c55297a9bab5740c2',
    'hot/f8(5, 1)/k1x1/np': 'ae161613fdedcdf68b85',
    'hot/neg/f8(5, 1)/k1x1/np': 'ae161613fdedcdf68b85',
    'hot/f8(5, 1)/k1x1/dask(5, 1)': '5d61617cf014f76a680c',
    'hot/f8(5, 1)/k1x1/dask(3, 1)': 'eb4800d85857e7d4c1ba',
    'hot/f8(5, 1)/k1x1/dask(1, 1)': '43a119e9a7c4924b123c',
    'hot/f8(5, 1)/k1x1/dask(4, 1)': '7e2d2c1104be1772b197',
    'hot/f8(5, 1)/k3x3full/np': 'ae161613fdedcdf68b85',
    'hot/neg/f8(5, 1)/k3x3full/np': 'ae161613fdedcdf68b85',
    'hot/f8(5, 1)/k3x3cross/np': 'ae161613fdedcdf68b85',
    'hot/neg/f8(5, 1)/k3x3cross/np': 'ae161613fdedcdf68b85',
    'hot/f8(5, 1)/k1x3asym/np': 'ae161613fdedcdf68b85',
    'hot/neg/f8(5, 1)/k1x3asym/np': 'ae161613fdedcdf68b85',
    'hot/f8(5, 1)/k3x1asym/np': 'ae161613fdedcdf68b85',
    'hot/neg/f8(5, 1)/k3x1asym/np': 'ae161613fdedcdf68b85',
    'hot/f8(5, 1)/k3x1asym/dask(5, 1)': '8207e18c6b49c9c3c0cd',
    'hot/f8(5, 1)/k3x1asym/dask(3, 1)': '769b47fff32642a2d81b',
    'hot/f8(5, 1)/k3x1asym/dask(4, 1)': '0b7de7ae9235cd507f95',
    'hot/f8(5, 1)/k5x3rand/np': 'ae161613fdedcdf68b85',
    'hot/neg/f8(5, 1)/k5x3rand/np': 'ae161613fdedcdf68b85',
    'hot/f8(5, 1)/k3x5fortran/np': 'ae161613fdedcdf68b85',
    'hot/neg/f8(5, 1)/k3x5fortran/np': 'ae161613fdedcdf68b85',
    'hot/f8(5, 1)/k5x5annulus/np': 'ae161613fdedcdf68b85',
    'hot/neg/f8(5, 1)/k5x5annulus/np': 'ae161613fdedcdf68b85',
    'hot/f8(5, 1)/k3x3nocentre/np': 'ae161613fdedcdf68b85',
    'hot/neg/f8(5, 1)/k3x3nocentre/np': 'ae161613fdedcdf68b85',
    'hot/f4(5, 1)/k1x1/np': 'ae161613fdedcdf68b85',
    'hot/neg/f4(5, 1)/k1x1/np': 'ae161613fdedcdf68b85',
    'hot/f4(5, 1)/k1x1/dask(5, 1)': '5d61617cf014f76a680c',
    'hot/f4(5, 1)/k1x1/dask(3, 1)': 'eb4800d85857e7d4c1ba',
    'hot/f4(5, 1)/k1x1/dask(1, 1)': '43a119e9a7c4924b123c',
    'hot/f4(5, 1)/k1x1/dask(4, 1)': '7e2d2c1104be1772b197',
    'hot/f4(5, 1)/k3x3full/np': 'ae161613fdedcdf68b85',
    'hot/neg/f4(5, 1)/k3x3full/np': 'ae161613fdedcdf68b85',
    'hot/f4(5, 1)/k3x3cross/np': 'ae161613fdedcdf68b85',
    'hot/neg/f4(5, 1)/k3x3cross/np': 'ae161613fdedcdf68b85',
    'hot/f4(5, 1)/k1x3asym/np': 'ae161613fdedcdf68b85',
    'hot/neg/f4(5, 1)/k1x3asym/np': 'ae161613fdedcdf68b85',
    'hot/f4(5, 1)/k3x1asym/np': 'ae161613fdedcdf68b85',
    'hot/neg/f4(5, 1)/k3x1asym/np': 'ae161613fdedcdf68b85',
    'hot/f4(5, 1)/k3x1asym/dask(5, 1)': '8207e18c6b49c9c3c0cd',
    'hot/f4(5, 1)/k3x1asym/dask(3, 1)': '769b47fff32642a2d81b',
    'hot/f4(5, 1)/k3x1asym/dask(4, 1)': '0b7de7ae9235cd507f95',
    'hot/f4(5, 1)/k5x3rand/np': 'ae161613fdedcdf68b85',
    'hot/neg/f4(5, 1)/k5x3rand/np': 'ae161613fdedcdf68b85',
    'hot/f4(5, 1)/k3x5fortran/np': 'ae161613fdedcdf68b85',
    'hot/neg/f4(5, 1)/k3x5fortran/np': 'ae161613fdedcdf68b85',
    'hot/f4(5, 1)/k5x5annulus/np': 'ae161613fdedcdf68b85',
    'hot/neg/f4(5, 1)/k5x5annulus/np': 'ae161613fdedcdf68b85',
    'hot/f4(5, 1)/k3x3nocentre/np': 'ae161613fdedcdf68b85',
    'hot/neg/f4(5, 1)/k3x3nocentre/np': 'ae161613fdedcdf68b85',
    'hot/i4(5, 1)/k1x1/np': '4b7d60ae2e0fe909f2fe',
    'hot/neg/i4(5, 1)/k1x1/np': 'c9d60ea9a33165a4ff21',
    'hot/i4(5, 1)/k1x1/dask(5, 1)': 'c5f6d74a3489ed6bf9bd',
    'hot/i4(5, 1)/k1x1/dask(3, 1)': '9e876e19af3ac2b54a3e',
    'hot/i4(5, 1)/k1x1/dask(1, 1)': '8b6ef0ffdd3cc5f343e1',
    'hot/i4(5, 1)/k1x1/dask(4, 1)': '70351a9858313cb09276',
    'hot/i4(5, 1)/k3x3full/np': 'ae161613fdedcdf68b85',
    'hot/neg/i4(5, 1)/k3x3full/np': 'ae161613fdedcdf68b85',
    'hot/i4(5, 1)/k3x3cross/np': 'ae161613fdedcdf68b85',
    'hot/neg/i4(5, 1)/k3x3cross/np': 'ae161613fdedcdf68b85',
    'hot/i4(5, 1)/k1x3asym/np': 'ae161613fdedcdf68b85',
    'hot/neg/i4(5, 1)/k1x3asym/np': 'ae161613fdedcdf68b85',
    'hot/i4(5, 1)/k3x1asym/np': 'ae161613fdedcdf68b85',
    'hot/neg/i4(5, 1)/k3x1asym/np': 'ae161613fdedcdf68b85',
    'hot/i4(5, 1)/k3x1asym/dask(5, 1)': '8207e18c6b49c9c3c0cd',
    'hot/i4(5, 1)/k3x1asym/dask(3, 1)': '769b47fff32642a2d81b',
    'hot/i4(5, 1)/k3x1asym/dask(4, 1)': '0b7de7ae9235cd507f95',
    'hot/i4(5, 1)/k5x3rand/np': 'ae161613fdedcdf68b85',
    'hot/neg/i4(5, 1)/k5x3rand/np': 'ae161613fdedcdf68b85',
    'hot/i4(5, 1)/k3x5fortran/np': 'ae161613fdedcdf68b85',
    'hot/neg/i4(5, 1)/k3x5fortran/np': 'ae161613fdedcdf68b85',
    'hot/i4(5, 1)/k5x5annulus/np': 'ae161613fdedcdf68b85',
    'hot/neg/i4(5, 1)/k5x5annulus/np': 'ae161613fdedcdf68b85',
    'hot/i4(5, 1)/k3x3nocentre/np': 'ae161613fdedcdf68b85',
    'hot/neg/i4(5, 1)/k3x3nocentre/np': 'ae161613fdedcdf68b85',
    'hot/i8(5, 1)/k1x1/np': 'cc9546c2ffa2a257f472',
    'hot/neg/i8(5, 1)/k1x1/np': '478ece67c56d30ec12f4',
    'hot/i8(5, 1)/k1x1/dask(5, 1)': '57d484d480657284e95e',
    'hot/i8(5, 1)/k1x1/dask(3, 1)': 'b72d21f7007d42526e4c',
    'hot/i8(5, 1)/k1x1/dask(1, 1)': '571cea9328e068b63638',
    'hot/i8(5, 1)/k1x1/dask(4, 1)': '6fbdc35c962876179819',
    'hot/i8(5, 1)/k3x3full/np': 'ae161613fdedcdf68b85',
    'hot/neg/i8(5, 1)/k3x3full/np': 'ae161613fdedcdf68b85',
    'hot/i8(5, 1)/k3x3cross/np': 'ae161613fdedcdf68b85',
    'hot/neg/i8(5, 1)/k3x3cross/np': 'ae161613fdedcdf68b85',
    'hot/i8(5, 1)/k1x3asym/np': 'ae161613fdedcdf68b85',
    'hot/neg/i8(5, 1)/k1x3asym/np': 'ae161613fdedcdf68b85',
    'hot/i8(5, 1)/k3x1asym/np': 'ae161613fdedcdf68b85',
    'hot/neg/i8(5, 1)/k3x1asym/np': 'ae161613fdedcdf68b85',
    'hot/i8(5, 1)/k3x1asym/dask(5, 1)': '8207e18c6b49c9c3c0cd',
    'hot/i8(5, 1)/k3x1asym/dask(3, 1)': '769b47fff32642a2d81b',
    'hot/i8(5, 1)/k3x1asym/dask(4, 1)': '0b7de7ae9235cd507f95',
    'hot/i8(5, 1)/k5x3rand/np': 'ae161613fdedcdf68b85',
    'hot/neg/i8(5, 1)/k5x3rand/np': 'ae161613fdedcdf68b85',
    'hot/i8(5, 1)/k3x5fortran/np': 'ae161613fdedcdf68b85',
    'hot/neg/i8(5, 1)/k3x5fortran/np': 'ae161613fdedcdf68b85',
    'hot/i8(5, 1)/k5x5annulus/np': 'ae161613fdedcdf68b85',
    'hot/neg/i8(5, 1)/k5x5annulus/np': 'ae161613fdedcdf68b85',
    'hot/i8(5, 1)/k3x3nocentre/np': 'ae161613fdedcdf68b85',
    'hot/neg/i8(5, 1)/k3x3nocentre/np': 'ae161613fdedcdf68b85',
    'hot/u1(5, 1)/k1x1/np': 'b0063f1bc0bba8e84073',
    'hot/u1(5, 1)/k1x1/dask(5, 1)': '12ae17fd2f0c3dd2d9f4',
    'hot/u1(5, 1)/k1x1/dask(3, 1)': '2b53b4f2670cd96a8f75',
    'hot/u1(5, 1)/k1x1/dask(1, 1)': 'ef3121f57ab5aa9e7cce',
    'hot/u1(5, 1)/k1x1/dask(4, 1)': 'd2472f1c294b6c8aeadc',
    'hot/u1(5, 1)/k3x3full/np': 'ae161613fdedcdf68b85',
    'hot/u1(5, 1)/k3x3cross/np': 'ae161613fdedcdf68b85',
    'hot/u1(5, 1)/k1x3asym/np': 'ae161613fdedcdf68b85',
    'hot/u1(5, 1)/k3x1asym/np': 'ae161613fdedcdf68b85',
    'hot/u1(5, 1)/k3x1asym/dask(5, 1)': '8207e18c6b49c9c3c0cd',
    'hot/u1(5, 1)/k3x1asym/dask(3, 1)': '769b47fff32642a2d81b',
    'hot/u1(5, 1)/k3x1asym/dask(4, 1)': '0b7de7ae9235cd507f95',
    'hot/u1(5, 1)/k5x3rand/np': 'ae161613fdedcdf68b85',
    'hot/u1(5, 1)/k3x5fortran/np': 'ae161613fdedcdf68b85',
    'hot/u1(5, 1)/k5x5annulus/np': 'ae161613fdedcdf68b85',
    'hot/u1(5, 1)/k3x3nocentre/np': 'ae161613fdedcdf68b85',
    'hot/f8nan(5, 1)/k1x1/np': 'ae161613fdedcdf68b85',
    'hot/neg/f8nan(5, 1)/k1x1/np': 'ae161613fdedcdf68b85',
    'hot/f8nan(5, 1)/k1x1/dask(5, 1)': '5d61617cf014f76a680c',
    'hot/f8nan(5, 1)/k1x1/dask(3, 1)': 'eb4800d85857e7d4c1ba',
    'hot/f8nan(5, 1)/k1x1/dask(1, 1)': '43a119e9a7c4924b123c',
    'hot/f8nan(5, 1)/k1x1/dask(4, 1)': '7e2d2c1104be1772b197',
    'hot/f8nan(5, 1)/k3x3full/np': 'ae161613fdedcdf68b85',
    'hot/neg/f8nan(5, 1)/k3x3full/np': 'ae161613fdedcdf68b85',
    'hot/f8nan(5, 1)/k3x3cross/np': 'ae161613fdedcdf68b85',
    'hot/neg/f8nan(5, 1)/k3x3cross/np': 'ae161613fdedcdf68b85',
    'hot/f8nan(5, 1)/k1x3asym/np': 'ae161613fdedcdf68b85',
    'hot/neg/f8nan(5, 1)/k1x3asym/np': 'ae161613fdedcdf68b85',
    'hot/f8nan(5, 1)/k3x1asym/np': 'ae161613fdedcdf68b85',
    'hot/neg/f8nan(5, 1)/k3x1asym/np': 'ae161613fdedcdf68b85',
    'hot/f8nan(5, 1)/k3x1asym/dask(5, 1)': '8207e18c6b49c9c3c0cd',
    'hot/f8nan(5, 1)/k3x1asym/dask(3, 1)': '769b47fff32642a2d81b',
    'hot/f8nan(5, 1)/k3x1asym/dask(4, 1)': '0b7de7ae9235cd507f95',
    'hot/f8nan(5, 1)/k5x3rand/np': 'ae161613fdedcdf68b85',
    'hot/neg/f8nan(5, 1)/k5x3rand/np': 'ae161613fdedcdf68b85',
    'hot/f8nan(5, 1)/k3x5fortran/np': 'ae161613fdedcdf68b85',
    'hot/neg/f8nan(5, 1)/k3x5fortran/np': 'ae161613fdedcdf68b85',
    'hot/f8nan(5, 1)/k5x5annulus/np': 'ae161613fdedcdf68b85',
    'hot/neg/f8nan(5, 1)/k5x5annulus/np': 'ae161613fdedcdf68b85',
    'hot/f8nan(5, 1)/k3x3nocentre/np': 'ae161613fdedcdf68b85',
    'hot/neg/f8nan(5, 1)/k3x3nocentre/np': 'ae161613fdedcdf68b85',
    'hot/f4nan(5, 1)/k1x1/np': 'ae161613fdedcdf68b85',
    'hot/neg/f4nan(5, 1)/k1x1/np': 'ae161613fdedcdf68b85',
    'hot/f4nan(5, 1)/k1x1/dask(5, 1)': '5d61617cf014f76a680c',
    'hot/f4nan(5, 1)/k1x1/dask(3, 1)': 'eb4800d85857e7d4c1ba',
    'hot/f4nan(5, 1)/k1x1/dask(1, 1)': '43a119e9a7c4924b123c',
    'hot/f4nan(5, 1)/k1x1/dask(4, 1)': '7e2d2c1104be1772b197',
    'hot/f4nan(5, 1)/k3x3full/np': 'ae161613fdedcdf68b85',
    'hot/neg/f4nan(5, 1)/k3x3full/np': 'ae161613fdedcdf68b85',
    'hot/f4nan(5, 1)/k3x3cross/np': 'ae161613fdedcdf68b85',
    'hot/neg/f4nan(5, 1)/k3x3cross/np': 'ae161613fdedcdf68b85',
    'hot/f4nan(5, 1)/k1x3asym/np': 'ae161613fdedcdf68b85',
    'hot/neg/f4nan(5, 1)/k1x3asym/np': 'ae161613fdedcdf68b85',
    'hot/f4nan(5, 1)/k3x1asym/np': 'ae161613fdedcdf68b85',
    'hot/neg/f4nan(5, 1)/k3x1asym/np': 'ae161613fdedcdf68b85',
    'hot/f4nan(5, 1)/k3x1asym/dask(5, 1)': '8207e18c6b49c9c3c0cd',
    'hot/f4nan(5, 1)/k3x1asym/dask(3, 1)': '769b47fff32642a2d81b',
    'hot/f4nan(5, 1)/k3x1asym/dask(4, 1)': '0b7de7ae9235cd507f95',
    'hot/f4nan(5, 1)/k5x3rand/np': 'ae161613fdedcdf68b85',
    'hot/neg/f4nan(5, 1)/k5x3rand/np': 'ae161613fdedcdf68b85',
    'hot/f4nan(5, 1)/k3x5fortran/np': 'ae161613fdedcdf68b85',
    'hot/neg/f4nan(5, 1)/k3x5fortran/np': 'ae161613fdedcdf68b85',
    'hot/f4nan(5, 1)/k5x5annulus/np': 'ae161613fdedcdf68b85',
    'hot/neg/f4nan(5, 1)/k5x5annulus/np': 'ae161613fdedcdf68b85',
    'hot/f4nan(5, 1)/k3x3nocentre/np': 'ae161613fdedcdf68b85',
    'hot/neg/f4nan(5, 1)/k3x3nocentre/np': 'ae161613fdedcdf68b85',
    'hot/f8(6, 7)/k1x1/np': '2716771a267ccf8da7ee',
    'hot/neg/f8(6, 7)/k1x1/np': '15802afdaed93321a5cb',
    'hot/f8(6, 7)/k1x1/dask(6, 7)': '372df79e954b9382bef7',
    'hot/f8(6, 7)/k1x1/dask(3, 4)': 'f76fc881113c88cd419b',
    'hot/f8(6, 7)/k1x1/dask(2, 7)': '148add20599a0b33a323',
    'hot/f8(6, 7)/k1x1/dask(4, 3)': 'd2162b79c2af09973ad6',
    'hot/f8(6, 7)/k3x3full/np': '968abcc41c95f7decf04',
    'hot/neg/f8(6, 7)/k3x3full/np': '968abcc41c95f7decf04',
    'hot/f8(6, 7)/k3x3full/dask(6, 7)': 'dfe4b7ccae20c279926c',
    'hot/f8(6, 7)/k3x3full/dask(3, 4)': 'ae7d7edb096b410d6e15',
    'hot/f8(6, 7)/k3x3full/dask(2, 7)': '9070f916683054ba84f7',
    'hot/f8(6, 7)/k3x3full/dask(4, 3)': '45b9fb3d6419013e8045',
    'hot/f8(6, 7)/k3x3cross/np': '968abcc41c95f7decf04',
    'hot/neg/f8(6, 7)/k3x3cross/np': '968abcc41c95f7decf04',
    'hot/f8(6, 7)/k3x3cross/dask(6, 7)': 'dfe4b7ccae20c279926c',
    'hot/f8(6, 7)/k3x3cross/dask(3, 4)': 'ae7d7edb096b410d6e15',
    'hot/f8(6, 7)/k3x3cross/dask(2, 7)': '9070f916683054ba84f7',
    'hot/f8(6, 7)/k3x3cross/dask(4, 3)': '45b9fb3d6419013e8045',
    'hot/f8(6, 7)/k1x3asym/np': '968abcc41c95f7decf04',
    'hot/neg/f8(6, 7)/k1x3asym/np': '968abcc41c95f7decf04',
    'hot/f8(6, 7)/k1x3asym/dask(6, 7)': 'dfe4b7ccae20c279926c',
    'hot/f8(6, 7)/k1x3asym/dask(3, 4)': 'ae7d7edb096b410d6e15',
    'hot/f8(6, 7)/k1x3asym/dask(2, 7)': '9070f916683054ba84f7',
    'hot/f8(6, 7)/k1x3asym/dask(4, 3)': '45b9fb3d6419013e8045',
    'hot/f8(6, 7)/k3x1asym/np': '968abcc41c95f7decf04',
    'hot/neg/f8(6, 7)/k3x1asym/np': '968abcc41c95f7decf04',
    'hot/f8(6, 7)/k3x1asym/dask(6, 7)': 'dfe4b7ccae20c279926c',
    'hot/f8(6, 7)/k3x1asym/dask(3, 4)': 'ae7d7edb096b410d6e15',
    'hot/f8(6, 7)/k3x1asym/dask(2, 7)': '9070f916683054ba84f7',
    'hot/f8(6, 7)/k3x1asym/dask(4, 3)': '45b9fb3d6419013e8045',
    'hot/f8(6, 7)/k5x3rand/np': '968abcc41c95f7decf04',
    'hot/neg/f8(6, 7)/k5x3rand/np': '968abcc41c95f7decf04',
    'hot/f8(6, 7)/k5x3rand/dask(6, 7)': 'dfe4b7ccae20c279926c',
    'hot/f8(6, 7)/k5x3rand/dask(3, 4)': 'ae7d7edb096b410d6e15',
    'hot/f8(6, 7)/k5x3rand/dask(4, 3)': '45b9fb3d6419013e8045',
    'hot/f8(6, 7)/k3x5fortran/np': '968abcc41c95f7decf04',
    'hot/neg/f8(6, 7)/k3x5fortran/np': '968abcc41c95f7decf04',
    'hot/f8(6, 7)/k3x5fortran/dask(6, 7)': 'dfe4b7ccae20c279926c',
    'hot/f8(6, 7)/k3x5fortran/dask(3, 4)': 'ae7d7edb096b410d6e15',
    'hot/f8(6, 7)/k3x5fortran/dask(2, 7)': '9070f916683054ba84f7',
    'hot/f8(6, 7)/k5x5annulus/np': '968abcc41c95f7decf04',
    'hot/neg/f8(6, 7)/k5x5annulus/np': '968abcc41c95f7decf04',
    'hot/f8(6, 7)/k5x5annulus/dask(6, 7)': 'dfe4b7ccae20c279926c',
    'hot/f8(6, 7)/k5x5annulus/dask(3, 4)': 'ae7d7edb096b410d6e15',
    'hot/f8(6, 7)/k3x3nocentre/np': '968abcc41c95f7decf04',
    'hot/neg/f8(6, 7)/k3x3nocentre/np': '968abcc41c95f7decf04',
    'hot/f8(6, 7)/k3x3nocentre/dask(6, 7)': 'dfe4b7ccae20c279926c',
    'hot/f8(6, 7)/k3x3nocentre/dask(3, 4)': 'ae7d7edb096b410d6e15',
    'hot/f8(6, 7)/k3x3nocentre/dask(2, 7)': '9070f916683054ba84f7',
    'hot/f8(6, 7)/k3x3nocentre/dask(4, 3)': '45b9fb3d6419013e8045',
    'hot/f4(6, 7)/k1x1/np': '2716771a267ccf8da7ee',
    'hot/neg/f4(6, 7)/k1x1/np': '15802afdaed93321a5cb',
    'hot/f4(6, 7)/k1x1/dask(6, 7)': '372df79e954b9382bef7',
    'hot/f4(6, 7)/k1x1/dask(3, 4)': 'f76fc881113c88cd419b',
    'hot/f4(6, 7)/k1x1/dask(2, 7)': '148add20599a0b33a323',
    'hot/f4(6, 7)/k1x1/dask(4, 3)': 'd2162b79c2af09973ad6',
    'hot/f4(6, 7)/k3x3full/np': '968abcc41c95f7decf04',
    'hot/neg/f4(6, 7)/k3x3full/np': '968abcc41c95f7decf04',
    'hot/f4(6, 7)/k3x3full/dask(6, 7)': 'dfe4b7ccae20c279926c',
    'hot/f4(6, 7)/k3x3full/dask(3, 4)': 'ae7d7edb096b410d6e15',
    'hot/f4(6, 7)/k3x3full/dask(2, 7)': '9070f916683054ba84f7',
    'hot/f4(6, 7)/k3x3full/dask(4, 3)': '45b9fb3d6419013e8045',
    'hot/f4(6, 7)/k3x3cross/np': '968abcc41c95f7decf04',
    'hot/neg/f4(6, 7)/k3x3cross/np': '968abcc41c95f7decf04',
    'hot/f4(6, 7)/k3x3cross/dask(6, 7)': 'dfe4b7ccae20c279926c',
    'hot/f4(6, 7)/k3x3cross/dask(3, 4)': 'ae7d7edb096b410d6e15',
    'hot/f4(6, 7)/k3x3cross/dask(2, 7)': '9070f916683054ba84f7',
    'hot/f4(6, 7)/k3x3cross/dask(4, 3)': '45b9fb3d6419013e8045',
    'hot/f4(6, 7)/k1x3asym/np': '968abcc41c95f7decf04',
    'hot/neg/f4(6, 7)/k1x3asym/np': '968abcc41c95f7decf04',
    'hot/f4(6, 7)/k1x3asym/dask(6, 7)': 'dfe4b7ccae20c279926c',
    'hot/f4(6, 7)/k1x3asym/dask(3, 4)': 'ae7d7edb096b410d6e15',
    'hot/f4(6, 7)/k1x3asym/dask(2, 7)': '9070f916683054ba84f7',
    'hot/f4(6, 7)/k1x3asym/dask(4, 3)': '45b9fb3d6419013e8045',
    'hot/f4(6, 7)/k3x1asym/np': '968abcc41c95f7decf04',
    'hot/neg/f4(6, 7)/k3x1asym/np': '968abcc41c95f7decf04',
    'hot/f4(6, 7)/k3x1asym/dask(6, 7)': 'dfe4b7ccae20c279926c',
    'hot/f4(6, 7)/k3x1asym/dask(3, 4)': 'ae7d7edb096b410d6e15',
    'hot/f4(6, 7)/k3x1asym/dask(2, 7)': '9070f916683054ba84f7',
    'hot/f4(6, 7)/k3x1asym/dask(4, 3)': '45b9fb3d6419013e8045',
    'hot/f4(6, 7)/k5x3rand/np': '968abcc41c95f7decf04',
    'hot/neg/f4(6, 7)/k5x3rand/np': '968abcc41c95f7decf04',
    'hot/f4(6, 7)/k5x3rand/dask(6, 7)': 'dfe4b7ccae20c279926c',
    'hot/f4(6, 7)/k5x3rand/dask(3, 4)': 'ae7d7edb096b410d6e15',
    'hot/f4(6, 7)/k5x3rand/dask(4, 3)': '45b9fb3d6419013e8045',
    'hot/f4(6, 7)/k3x5fortran/np': '968abcc41c95f7decf04',
    'hot/neg/f4(6, 7)/k3x5fortran/np': '968abcc41c95f7decf04',
    'hot/f4(6, 7)/k3x5fortran/dask(6, 7)': 'dfe4b7ccae20c279926c',
    'hot/f4(6, 7)/k3x5fortran/dask(3, 4)': 'ae7d7edb096b410d6e15',
    'hot/f4(6, 7)/k3x5fortran/dask(2, 7)': '9070f916683054ba84f7',
    'hot/f4(6, 7)/k5x5annulus/np': '968abcc41c95f7decf04',
    'hot/neg/f4(6, 7)/k5x5annulus/np': '968abcc41c95f7decf04',
    'hot/f4(6, 7)/k5x5annulus/dask(6, 7)': 'dfe4b7ccae20c279926c',
    'hot/f4(6, 7)/k5x5annulus/dask(3, 4)': 'ae7d7edb096b410d6e15',
    'hot/f4(6, 7)/k3x3nocentre/np': '968abcc41c95f7decf04',
    'hot/neg/f4(6, 7)/k3x3nocentre/np': '968abcc41c95f7decf04',
    'hot/f4(6, 7)/k3x3nocentre/dask(6, 7)': 'dfe4b7ccae20c279926c',
    'hot/f4(6, 7)/k3x3nocentre/dask(3, 4)': 'ae7d7edb096b410d6e15',
    'hot/f4(6, 7)/k3x3nocentre/dask(2, 7)': '9070f916683054ba84f7',
    'hot/f4(6, 7)/k3x3nocentre/dask(4, 3)': '45b9fb3d6419013e8045',
    'hot/i4(6, 7)/k1x1/np': 'af9c7a922d3c693b58fe',
    'hot/neg/i4(6, 7)/k1x1/np': 'bf1dc1c1abb79daf456e',
    'hot/i4(6, 7)/k1x1/dask(6, 7)': '664e873ec872e4d88d13',
    'hot/i4(6, 7)/k1x1/dask(3, 4)': '44762d5597536f3396d5',
    'hot/i4(6, 7)/k1x1/dask(2, 7)': '078d6ecb324a5966a006',
    'hot/i4(6, 7)/k1x1/dask(4, 3)': '3551b7537ca4a5d24432',
    'hot/i4(6, 7)/k3x3full/np': '968abcc41c95f7decf04',
    'hot/neg/i4(6, 7)/k3x3full/np': '968abcc41c95f7decf04',
    'hot/i4(6, 7)/k3x3full/dask(6, 7)': 'dfe4b7ccae20c279926c',
    'hot/i4(6, 7)/k3x3full/dask(3, 4)': 'ae7d7edb096b410d6e15',
    'hot/i4(6, 7)/k3x3full/dask(2, 7)': '9070f916683054ba84f7',
    'hot/i4(6, 7)/k3x3full/dask(4, 3)': '45b9fb3d6419013e8045',
    'hot/i4(6, 7)/k3x3cross/np': '968abcc41c95f7decf04',
    'hot/neg/i4(6, 7)/k3x3cross/np': '968abcc41c95f7decf04',
    'hot/i4(6, 7)/k3x3cross/dask(6, 7)': 'dfe4b7ccae20c279926c',
    'hot/i4(6, 7)/k3x3cross/dask(3, 4)': 'ae7d7edb096b410d6e15',
    'hot/i4(6, 7)/k3x3cross/dask(2, 7)': '9070f916683054ba84f7',
    'hot/i4(6, 7)/k3x3cross/dask(4, 3)': '45b9fb3d6419013e8045',
    'hot/i4(6, 7)/k1x3asym/np': '968abcc41c95f7decf04',
    'hot/neg/i4(6, 7)/k1x3asym/np': '968abcc41c95f7decf04',
    'hot/i4(6, 7)/k1x3asym/dask(6, 7)': 'dfe4b7ccae20c279926c',
    'hot/i4(6, 7)/k1x3asym/dask(3, 4)': 'ae7d7edb096b410d6e15',
    'hot/i4(6, 7)/k1x3asym/dask(2, 7)': '9070f916683054ba84f7',
    'hot/i4(6, 7)/k1x3asym/dask(4, 3)': '45b9fb3d6419013e8045',
    'hot/i4(6, 7)/k3x1asym/np': '968abcc41c95f7decf04',
    'hot/neg/i4(6, 7)/k3x1asym/np': '968abcc41c95f7decf04',
    'hot/i4(6, 7)/k3x1asym/dask(6, 7)': 'dfe4b7ccae20c279926c',
    'hot/i4(6, 7)/k3x1asym/dask(3, 4)': 'ae7d7edb096b410d6e15',
    'hot/i4(6, 7)/k3x1asym/dask(2, 7)': '9070f916683054ba84f7',
    'hot/i4(6, 7)/k3x1asym/dask(4, 3)': '45b9fb3d6419013e8045',
    'hot/i4(6, 7)/k5x3rand/np': '968abcc41c95f7decf04',
    'hot/neg/i4(6, 7)/k5x3rand/np': '968abcc41c95f7decf04',
    'hot/i4(6, 7)/k5x3rand/dask(6, 7)': 'dfe4b7ccae20c279926c',
    'hot/i4(6, 7)/k5x3rand/dask(3, 4)': 'ae7d7edb096b410d6e15',
    'hot/i4(6, 7)/k5x3rand/dask(4, 3)': '45b9fb3d6419013e8045',
    'hot/i4(6, 7)/k3x5fortran/np': '968abcc41c95f7decf04',
    'hot/neg/i4(6, 7)/k3x5fortran/np': '968abcc41c95f7decf04',
    'hot/i4(6, 7)/k3x5fortran/dask(6, 7)': 'dfe4b7ccae20c279926c',
    'hot/i4(6, 7)/k3x5fortran/dask(3, 4)': 'ae7d7edb096b410d6e15',
    'hot/i4(6, 7)/k3x5fortran/dask(2, 7)': '9070f916683054ba84f7',
    'hot/i4(6, 7)/k5x5annulus/np': '968abcc41c95f7decf04',
    'hot/neg/i4(6, 7)/k5x5annulus/np': '968abcc41c95f7decf04',
    'hot/i4(6, 7)/k5x5annulus/dask(6, 7)': 'dfe4b7ccae20c279926c',
    'hot/i4(6, 7)/k5x5annulus/dask(3, 4)': 'ae7d7edb096b410d6e15',
    'hot/i4(6, 7)/k3x3nocentre/np': '968abcc41c95f7decf04',
    'hot/neg/i4(6, 7)/k3x3nocentre/np': '968abcc41c95f7decf04',
    'hot/i4(6, 7)/k3x3nocentre/dask(6, 7)': 'dfe4b7ccae20c279926c',
    'hot/i4(6, 7)/k3x3nocentre/dask(3, 4)': 'ae7d7edb096b410d6e15',
    'hot/i4(6, 7)/k3x3nocentre/dask(2, 7)': '9070f916683054ba84f7',
    'hot/i4(6, 7)/k3x3nocentre/dask(4, 3)': '45b9fb3d6419013e8045',
    'hot/i8(6, 7)/k1x1/np': '2e152b8c5b8dea492544',
    'hot/neg/i8(6, 7)/k1x1/np': '32f987e1bbe02a2a3090',
    'hot/i8(6, 7)/k1x1/dask(6, 7)': '1e7bd2c10ed39f0b19eb',
    'hot/i8(6, 7)/k1x1/dask(3, 4)': 'f5f1fcfff94fb1825eb8',
    'hot/i8(6, 7)/k1x1/dask(2, 7)': '0c42b1085e151423d93b',
    'hot/i8(6, 7)/k1x1/dask(4, 3)': '4a477ffc227dcfb3a9c1',
    'hot/i8(6, 7)/k3x3full/np': '968abcc41c95f7decf04',
    'hot/neg/i8(6, 7)/k3x3full/np': '968abcc41c95f7decf04',
    'hot/i8(6, 7)/k3x3full/dask(6, 7)': 'dfe4b7ccae20c279926c',
    'hot/i8(6, 7)/k3x3full/dask(3, 4)': 'ae7d7edb096b410d6e15',
    'hot/i8(6, 7)/k3x3full/dask(2, 7)': '9070f916683054ba84f7',
    'hot/i8(6, 7)/k3x3full/dask(4, 3)': '45b9fb3d6419013e8045',
    'hot/i8(6, 7)/k3x3cross/np': '968abcc41c95f7decf04',
    'hot/neg/i8(6, 7)/k3x3cross/np': '968abcc41c95f7decf04',
    'hot/i8(6, 7)/k3x3cross/dask(6, 7)': 'dfe4b7ccae20c279926c',
    'hot/i8(6, 7)/k3x3cross/dask(3, 4)': 'ae7d7edb096b410d6e15',
    'hot/i8(6, 7)/k3x3cross/dask(2, 7)': '9070f916683054ba84f7',
    'hot/i8(6, 7)/k3x3cross/dask(4, 3)': '45b9fb3d6419013e8045',
    'hot/i8(6, 7)/k1x3asym/np': '879f95184b83d6545ea3',
    'hot/neg/i8(6, 7)/k1x3asym/np': '15d946450675ecea03f2',
    'hot/i8(6, 7)/k1x3asym/dask(6, 7)': 'd6b939aae5b52dcf1ddc',
    'hot/i8(6, 7)/k1x3asym/dask(3, 4)': '4b9e4b2406212eec7493',
    'hot/i8(6, 7)/k1x3asym/dask(2, 7)': '70357f07b3bbf07e512c',
    'hot/i8(6, 7)/k1x3asym/dask(4, 3)': '706d1e65585158c9350e',
    'hot/i8(6, 7)/k3x1asym/np': '968abcc41c95f7decf04',
    'hot/neg/i8(6, 7)/k3x1asym/np': '968abcc41c95f7decf04',
    'hot/i8(6, 7)/k3x1asym/dask(6, 7)': 'dfe4b7ccae20c279926c',
    'hot/i8(6, 7)/k3x1asym/dask(3, 4)': 'ae7d7edb096b410d6e15',
    'hot/i8(6, 7)/k3x1asym/dask(2, 7)': '9070f916683054ba84f7',
    'hot/i8(6, 7)/k3x1asym/dask(4, 3)': '45b9fb3d6419013e8045',
    'hot/i8(6, 7)/k5x3rand/np': '968abcc41c95f7decf04',
    'hot/neg/i8(6, 7)/k5x3rand/np': '968abcc41c95f7decf04',
    'hot/i8(6, 7)/k5x3rand/dask(6, 7)': 'dfe4b7ccae20c279926c',
    'hot/i8(6, 7)/k5x3rand/dask(3, 4)': 'ae7d7edb096b410d6e15',
    'hot/i8(6, 7)/k5x3rand/dask(4, 3)': '45b9fb3d6419013e8045',
    'hot/i8(6, 7)/k3x5fortran/np': '968abcc41c95f7decf04',
    'hot/neg/i8(6, 7)/k3x5fortran/np': '968abcc41c95f7decf04',
    'hot/i8(6, 7)/k3x5fortran/dask(6, 7)': 'dfe4b7ccae20c279926c',
    'hot/i8(6, 7)/k3x5fortran/dask(3, 4)': 'ae7d7edb096b410d6e15',
    'hot/i8(6, 7)/k3x5fortran/dask(2, 7)': '9070f916683054ba84f7',
    'hot/i8(6, 7)/k5x5annulus/np': '968abcc41c95f7decf04',
    'hot/neg/i8(6, 7)/k5x5annulus/np': '968abcc41c95f7decf04',
    'hot/i8(6, 7)/k5x5annulus/dask(6, 7)': 'dfe4b7ccae20c279926c',
    'hot/i8(6, 7)/k5x5annulus/dask(3, 4)': 'ae7d7edb096b410d6e15',
    'hot/i8(6, 7)/k3x3nocentre/np': '968abcc41c95f7decf04',
    'hot/neg/i8(6, 7)/k3x3nocentre/np': '968abcc41c95f7decf04',
    'hot/i8(6, 7)/k3x3nocentre/dask(6, 7)': 'dfe4b7ccae20c279926c',
    'hot/i8(6, 7)/k3x3nocentre/dask(3, 4)': 'ae7d7edb096b410d6e15',
    'hot/i8(6, 7)/k3x3nocentre/dask(2, 7)': '9070f916683054ba84f7',
    'hot/i8(6, 7)/k3x3nocentre/dask(4, 3)': '45b9fb3d6419013e8045',
    'hot/u1(6, 7)/k1x1/np': '968abcc41c95f7decf04',
    'hot/u1(6, 7)/k1x1/dask(6, 7)': '81a66bd9ff58b44ac11c',
    'hot/u1(6, 7)/k1x1/dask(3, 4)': '7e1b80d2ef484064d423',
    'hot/u1(6, 7)/k1x1/dask(2, 7)': '30e1a718e475916625e8',
    'hot/u1(6, 7)/k1x1/dask(4, 3)': 'f55f213bc52c2d154bcb',
    'hot/u1(6, 7)/k3x3full/np': '968abcc41c95f7decf04',
    'hot/u1(6, 7)/k3x3full/dask(6, 7)': 'dfe4b7ccae20c279926c',
    'hot/u1(6, 7)/k3x3full/dask(3, 4)': 'ae7d7edb096b410d6e15',
    'hot/u1(6, 7)/k3x3full/dask(2, 7)': '9070f916683054ba84f7',
    'hot/u1(6, 7)/k3x3full/dask(4, 3)': '45b9fb3d6419013e8045',
    'hot/u1(6, 7)/k3x3cross/np': '968abcc41c95f7decf04',
    'hot/u1(6, 7)/k3x3cross/dask(6, 7)': 'dfe4b7ccae20c279926c',
    'hot/u1(6, 7)/k3x3cross/dask(3, 4)': 'ae7d7edb096b410d6e15',
    'hot/u1(6, 7)/k3x3cross/dask(2, 7)': '9070f916683054ba84f7',
    'hot/u1(6, 7)/k3x3cross/dask(4, 3)': '45b9fb3d6419013e8045',
    'hot/u1(6, 7)/k1x3asym/np': '968abcc41c95f7decf04',
    'hot/u1(6, 7)/k1x3asym/dask(6, 7)': 'dfe4b7ccae20c279926c',
    'hot/u1(6, 7)/k1x3asym/dask(3, 4)': 'ae7d7edb096b410d6e15',
    'hot/u1(6, 7)/k1x3asym/dask(2, 7)': '9070f916683054ba84f7',
    'hot/u1(6, 7)/k1x3asym/dask(4, 3)': '45b9fb3d6419013e8045',
    'hot/u1(6, 7)/k3x1asym/np': '968abcc41c95f7decf04',
    'hot/u1(6, 7)/k3x1asym/dask(6, 7)': 'dfe4b7ccae20c279926c',
    'hot/u1(6, 7)/k3x1asym/dask(3, 4)': 'ae7d7edb096b410d6e15',
    'hot/u1(6, 7)/k3x1asym/dask(2, 7)': '9070f916683054ba84f7',
    'hot/u1(6, 7)/k3x1asym/dask(4, 3)': '45b9fb3d6419013e8045',
    'hot/u1(6, 7)/k5x3rand/np': '968abcc41c95f7decf04',
    'hot/u1(6, 7)/k5x3rand/dask(6, 7)': 'dfe4b7ccae20c279926c',
    'hot/u1(6, 7)/k5x3rand/dask(3, 4)': 'ae7d7edb096b410d6e15',
    'hot/u1(6, 7)/k5x3rand/dask(4, 3)': '45b9fb3d6419013e8045',
    'hot/u1(6, 7)/k3x5fortran/np': '968abcc41c95f7decf04',
    'hot/u1(6, 7)/k3x5fortran/dask(6, 7)': 'dfe4b7ccae20c279926c',
    'hot/u1(6, 7)/k3x5fortran/dask(3, 4)': 'ae7d7edb096b410d6e15',
    'hot/u1(6, 7)/k3x5fortran/dask(2, 7)': '9070f916683054ba84f7',
    'hot/u1(6, 7)/k5x5annulus/np': '968abcc41c95f7decf04',
    'hot/u1(6, 7)/k5x5annulus/dask(6, 7)': 'dfe4b7ccae20c279926c',
    'hot/u1(6, 7)/k5x5annulus/dask(3, 4)': 'ae7d7edb096b410d6e15',
    'hot/u1(6, 7)/k3x3nocentre/np': '968abcc41c95f7decf04',
    'hot/u1(6, 7)/k3x3nocentre/dask(6, 7)': 'dfe4b7ccae20c279926c',
    'hot/u1(6, 7)/k3x3nocentre/dask(3, 4)': 'ae7d7edb096b410d6e15',
    'hot/u1(6, 7)/k3x3nocentre/dask(2, 7)': '9070f916683054ba84f7',
    'hot/u1(6, 7)/k3x3nocentre/dask(4, 3)': '45b9fb3d6419013e8045',
    'hot/f8nan(6, 7)/k1x1/np': 'd6590723f28e60ab3e5f',
    'hot/neg/f8nan(6, 7)/k1x1/np': '9d10fe96cde37e1e69a2',
    'hot/f8nan(6, 7)/k1x1/dask(6, 7)': '7807b537697b3e952dcc',
    'hot/f8nan(6, 7)/k1x1/dask(3, 4)': 'ffa1857152cc415fa30a',
    'hot/f8nan(6, 7)/k1x1/dask(2, 7)': '00f36e515d7569034d2d',
    'hot/f8nan(6, 7)/k1x1/dask(4, 3)': '0331ec7644e725d7d4cd',
    'hot/f8nan(6, 7)/k3x3full/np': '968abcc41c95f7decf04',
    'hot/neg/f8nan(6, 7)/k3x3full/np': '968abcc41c95f7decf04',
    'hot/f8nan(6, 7)/k3x3full/dask(6, 7)': 'dfe4b7ccae20c279926c',
    'hot/f8nan(6, 7)/k3x3full/dask(3, 4)': 'ae7d7edb096b410d6e15',
    'hot/f8nan(6, 7)/k3x3full/dask(2, 7)': '9070f916683054ba84f7',
    'hot/f8nan(6, 7)/k3x3full/dask(4, 3)': '45b9fb3d6419013e8045',
    'hot/f8nan(6, 7)/k3x3cross/np': '968abcc41c95f7decf04',
    'hot/neg/f8nan(6, 7)/k3x3cross/np': '968abcc41c95f7decf04',
    'hot/f8nan(6, 7)/k3x3cross/dask(6, 7)': 'dfe4b7ccae20c279926c',
    'hot/f8nan(6, 7)/k3x3cross/dask(3, 4)': 'ae7d7edb096b410d6e15',
    'hot/f8nan(6, 7)/k3x3cross/dask(2, 7)': '9070f916683054ba84f7',
    'hot/f8nan(6, 7)/k3x3cross/dask(4, 3)': '45b9fb3d6419013e8045',
    'hot/f8nan(6, 7)/k1x3asym/np': '968abcc41c95f7decf04',
    'hot/neg/f8nan(6, 7)/k1x3asym/np': '968abcc41c95f7decf04',
    'hot/f8nan(6, 7)/k1x3asym/dask(6, 7)': 'dfe4b7ccae20c279926c',
    'hot/f8nan(6, 7)/k1x3asym/dask(3, 4)': 'ae7d7edb096b410d6e15',
    'hot/f8nan(6, 7)/k1x3asym/dask(2, 7)': '9070f916683054ba84f7',
    'hot/f8nan(6, 7)/k1x3asym/dask(4, 3)': '45b9fb3d6419013e8045',
    'hot/f8nan(6, 7)/k3x1asym/np': '968abcc41c95f7decf04',
    'hot/neg/f8nan(6, 7)/k3x1asym/np': '968abcc41c95f7decf04',
    'hot/f8nan(6, 7)/k3x1asym/dask(6, 7)': 'dfe4b7ccae20c279926c',
    'hot/f8nan(6, 7)/k3x1asym/dask(3, 4)': 'ae7d7edb096b410d6e15',
    'hot/f8nan(6, 7)/k3x1asym/dask(2, 7)': '9070f916683054ba84f7',
    'hot/f8nan(6, 7)/k3x1asym/dask(4, 3)': '45b9fb3d6419013e8045',
    'hot/f8nan(6, 7)/k5x3rand/np': '968abcc41c95f7decf04',
    'hot/neg/f8nan(6, 7)/k5x3rand/np': '968abcc41c95f7decf04',
    'hot/f8nan(6, 7)/k5x3rand/dask(6, 7)': 'dfe4b7ccae20c279926c',
    'hot/f8nan(6, 7)/k5x3rand/dask(3, 4)': 'ae7d7edb096b410d6e15',
    'hot/f8nan(6, 7)/k5x3rand/dask(4, 3)': '45b9fb3d6419013e8045',
    'hot/f8nan(6, 7)/k3x5fortran/np': '968abcc41c95f7decf04',
    'hot/neg/f8nan(6, 7)/k3x5fortran/np': '968abcc41c95f7decf04',
    'hot/f8nan(6, 7)/k3x5fortran/dask(6, 7)': 'dfe4b7ccae20c279926c',
    'hot/f8nan(6, 7)/k3x5fortran/dask(3, 4)': 'ae7d7edb096b410d6e15',
    'hot/f8nan(6, 7)/k3x5fortran/dask(2, 7)': '9070f916683054ba84f7',
    'hot/f8nan(6, 7)/k5x5annulus/np': '968abcc41c95f7decf04',
    'hot/neg/f8nan(6, 7)/k5x5annulus/np': '968abcc41c95f7decf04',
    'hot/f8nan(6, 7)/k5x5annulus/dask(6, 7)': 'dfe4b7ccae20c279926c',
    'hot/f8nan(6, 7)/k5x5annulus/dask(3, 4)': 'ae7d7edb096b410d6e15',
    'hot/f8nan(6, 7)/k3x3nocentre/np': '968abcc41c95f7decf04',
    'hot/neg/f8nan(6, 7)/k3x3nocentre/np': '968abcc41c95f7decf04',
    'hot/f8nan(6, 7)/k3x3nocentre/dask(6, 7)': 'dfe4b7ccae20c279926c',
    'hot/f8nan(6, 7)/k3x3nocentre/dask(3, 4)': 'ae7d7edb096b410d6e15',
    'hot/f8nan(6, 7)/k3x3nocentre/dask(2, 7)': '9070f916683054ba84f7',
    'hot/f8nan(6, 7)/k3x3nocentre/dask(4, 3)': '45b9fb3d6419013e8045',
    'hot/f4nan(6, 7)/k1x1/np': 'a0b5a6fb25c9b0e5d27c',
    'hot/neg/f4nan(6, 7)/k1x1/np': '5ea6d8fc9af963b28175',
    'hot/f4nan(6, 7)/k1x1/dask(6, 7)': '16f9a619a3ec446a18ad',
    'hot/f4nan(6, 7)/k1x1/dask(3, 4)': 'd81513c54a3e13d09b72',
    'hot/f4nan(6, 7)/k1x1/dask(2, 7)': 'f5d617d73cbd3486d448',
    'hot/f4nan(6, 7)/k1x1/dask(4, 3)': '9c881d5514a8f53725a7',
    'hot/f4nan(6, 7)/k3x3full/np': '968abcc41c95f7decf04',
    'hot/neg/f4nan(6, 7)/k3x3full/np': '968abcc41c95f7decf04',
    'hot/f4nan(6, 7)/k3x3full/dask(6, 7)': 'dfe4b7ccae20c279926c',
    'hot/f4nan(6, 7)/k3x3full/dask(3, 4)': 'ae7d7edb096b410d6e15',
    'hot/f4nan(6, 7)/k3x3full/dask(2, 7)': '9070f916683054ba84f7',
    'hot/f4nan(6, 7)/k3x3full/dask(4, 3)': '45b9fb3d6419013e8045',
    'hot/f4nan(6, 7)/k3x3cross/np': '968abcc41c95f7decf04',
    'hot/neg/f4nan(6, 7)/k3x3cross/np': '968abcc41c95f7decf04',
    'hot/f4nan(6, 7)/k3x3cross/dask(6, 7)': 'dfe4b7ccae20c279926c',
    'hot/f4nan(6, 7)/k3x3cross/dask(3, 4)': 'ae7d7edb096b410d6e15',
    'hot/f4nan(6, 7)/k3x3cross/dask(2, 7)': '9070f916683054ba84f7',
    'hot/f4nan(6, 7)/k3x3cross/dask(4, 3)': '45b9fb3d6419013e8045',
    'hot/f4nan(6, 7)/k1x3asym/np': '968abcc41c95f7decf04',
    'hot/neg/f4nan(6, 7)/k1x3asym/np': '968abcc41c95f7decf04',
    'hot/f4nan(6, 7)/k1x3asym/dask(6, 7)': 'dfe4b7ccae20c279926c',
    'hot/f4nan(6, 7)/k1x3asym/dask(3, 4)': 'ae7d7edb096b410d6e15',
    'hot/f4nan(6, 7)/k1x3asym/dask(2, 7)': '9070f916683054ba84f7',
    'hot/f4nan(6, 7)/k1x3asym/dask(4, 3)': '45b9fb3d6419013e8045',
    'hot/f4nan(6, 7)/k3x1asym/np': '968abcc41c95f7decf04',
    'hot/neg/f4nan(6, 7)/k3x1asym/np': '968abcc41c95f7decf04',
    'hot/f4nan(6, 7)/k3x1asym/dask(6, 7)': 'dfe4b7ccae20c279926c',
    'hot/f4nan(6, 7)/k3x1asym/dask(3, 4)': 'ae7d7edb096b410d6e15',
    'hot/f4nan(6, 7)/k3x1asym/dask(2, 7)': '9070f916683054ba84f7',
    'hot/f4nan(6, 7)/k3x1asym/dask(4, 3)': '45b9fb3d6419013e8045',
    'hot/f4nan(6, 7)/k5x3rand/np': '968abcc41c95f7decf04',
    'hot/neg/f4nan(6, 7)/k5x3rand/np': '968abcc41c95f7decf04',
    'hot/f4nan(6, 7)/k5x3rand/dask(6, 7)': 'dfe4b7ccae20c279926c',
    'hot/f4nan(6, 7)/k5x3rand/dask(3, 4)': 'ae7d7edb096b410d6e15',
    'hot/f4nan(6, 7)/k5x3rand/dask(4, 3)': '45b9fb3d6419013e8045',
    'hot/f4nan(6, 7)/k3x5fortran/np': '968abcc41c95f7decf04',
    'hot/neg/f4nan(6, 7)/k3x5fortran/np': '968abcc41c95f7decf04',
    'hot/f4nan(6, 7)/k3x5fortran/dask(6, 7)': 'dfe4b7ccae20c279926c',
    'hot/f4nan(6, 7)/k3x5fortran/dask(3, 4)': 'ae7d7edb096b410d6e15',
    'hot/f4nan(6, 7)/k3x5fortran/dask(2, 7)': '9070f916683054ba84f7',
    'hot/f4nan(6, 7)/k5x5annulus/np': '968abcc41c95f7decf04',
    'hot/neg/f4nan(6, 7)/k5x5annulus/np': '968abcc41c95f7decf04',
    'hot/f4nan(6, 7)/k5x5annulus/dask(6, 7)': 'dfe4b7ccae20c279926c',
    'hot/f4nan(6, 7)/k5x5annulus/dask(3, 4)': 'ae7d7edb096b410d6e15',
    'hot/f4nan(6, 7)/k3x3nocentre/np': '968abcc41c95f7decf04',
    'hot/neg/f4nan(6, 7)/k3x3nocentre/np': '968abcc41c95f7decf04',
    'hot/f4nan(6, 7)/k3x3nocentre/dask(6, 7)': 'dfe4b7ccae20c279926c',
    'hot/f4nan(6, 7)/k3x3nocentre/dask(3, 4)': 'ae7d7edb096b410d6e15',
    'hot/f4nan(6, 7)/k3x3nocentre/dask(2, 7)': '9070f916683054ba84f7',
    'hot/f4nan(6, 7)/k3x3nocentre/dask(4, 3)': '45b9fb3d6419013e8045',
    'hot/f8(9, 4)/k1x1/np': '1156549afaffb38879f4',
    'hot/neg/f8(9, 4)/k1x1/np': '1156549afaffb38879f4',
    'hot/f8(9, 4)/k1x1/dask(9, 4)': '944673a23a4143df88e9',
    'hot/f8(9, 4)/k1x1/dask(5, 2)': '1c59169ec05dc57f6929',
    'hot/f8(9, 4)/k1x1/dask(3, 4)': '52b7eef8b8ff04d1b83c',
    'hot/f8(9, 4)/k1x1/dask(4, 3)': 'c3b6e976f626003cc51b',
    'hot/f8(9, 4)/k3x3full/np': '1156549afaffb38879f4',
    'hot/neg/f8(9, 4)/k3x3full/np': '1156549afaffb38879f4',
    'hot/f8(9, 4)/k3x3full/dask(9, 4)': '2ec4eb159270e9cb4505',
    'hot/f8(9, 4)/k3x3full/dask(5, 2)': 'ae9acde9f586b99b573b',
    'hot/f8(9, 4)/k3x3full/dask(3, 4)': '7b6c35844f060b94f745',
    'hot/f8(9, 4)/k3x3full/dask(4, 3)': 'c425407beabe7b51aba6',
    'hot/f8(9, 4)/k3x3cross/np': '1156549afaffb38879f4',
    'hot/neg/f8(9, 4)/k3x3cross/np': '1156549afaffb38879f4',
    'hot/f8(9, 4)/k3x3cross/dask(9, 4)': '2ec4eb159270e9cb4505',
    'hot/f8(9, 4)/k3x3cross/dask(5, 2)': 'ae9acde9f586b99b573b',
    'hot/f8(9, 4)/k3x3cross/dask(3, 4)': '7b6c35844f060b94f745',
    'hot/f8(9, 4)/k3x3cross/dask(4, 3)': 'c425407beabe7b51aba6',
    'hot/f8(9, 4)/k1x3asym/np': '1156549afaffb38879f4',
    'hot/neg/f8(9, 4)/k1x3asym/np': '1156549afaffb38879f4',
    'hot/f8(9, 4)/k1x3asym/dask(9, 4)': '2ec4eb159270e9cb4505',
    'hot/f8(9, 4)/k1x3asym/dask(5, 2)': 'ae9acde9f586b99b573b',
    'hot/f8(9, 4)/k1x3asym/dask(3, 4)': '7b6c35844f060b94f745',
    'hot/f8(9, 4)/k1x3asym/dask(4, 3)': 'c425407beabe7b51aba6',
    'hot/f8(9, 4)/k3x1asym/np': '1156549afaffb38879f4',
    'hot/neg/f8(9, 4)/k3x1asym/np': '1156549afaffb38879f4',
    'hot/f8(9, 4)/k3x1asym/dask(9, 4)': '2ec4eb159270e9cb4505',
    'hot/f8(9, 4)/k3x1asym/dask(5, 2)': 'ae9acde9f586b99b573b',
    'hot/f8(9, 4)/k3x1asym/dask(3, 4)': '7b6c35844f060b94f745',
    'hot/f8(9, 4)/k3x1asym/dask(4, 3)': 'c425407beabe7b51aba6',
    'hot/f8(9, 4)/k5x3rand/np': '1156549afaffb38879f4',
    'hot/neg/f8(9, 4)/k5x3rand/np': '1156549afaffb38879f4',
    'hot/f8(9, 4)/k5x3rand/dask(9, 4)': '2ec4eb159270e9cb4505',
    'hot/f8(9, 4)/k5x3rand/dask(5, 2)': 'ae9acde9f586b99b573b',
    'hot/f8(9, 4)/k5x3rand/dask(3, 4)': '7b6c35844f060b94f745',
    'hot/f8(9, 4)/k3x5fortran/np': '1156549afaffb38879f4',
    'hot/neg/f8(9, 4)/k3x5fortran/np': '1156549afaffb38879f4',
    'hot/f8(9, 4)/k3x5fortran/dask(9, 4)': '2ec4eb159270e9cb4505',
    'hot/f8(9, 4)/k3x5fortran/dask(3, 4)': '7b6c35844f060b94f745',
    'hot/f8(9, 4)/k5x5annulus/np': '1156549afaffb38879f4',
    'hot/neg/f8(9, 4)/k5x5annulus/np': '1156549afaffb38879f4',
    'hot/f8(9, 4)/k5x5annulus/dask(9, 4)': '2ec4eb159270e9cb4505',
    'hot/f8(9, 4)/k5x5annulus/dask(3, 4)': '7b6c35844f060b94f745',
    'hot/f8(9, 4)/k3x3nocentre/np': '1156549afaffb38879f4',
    'hot/neg/f8(9, 4)/k3x3nocentre/np': '1156549afaffb38879f4',
    'hot/f8(9, 4)/k3x3nocentre/dask(9, 4)': '2ec4eb159270e9cb4505',
    'hot/f8(9, 4)/k3x3nocentre/dask(5, 2)': 'ae9acde9f586b99b573b',
    'hot/f8(9, 4)/k3x3nocentre/dask(3, 4)': '7b6c35844f060b94f745',
    'hot/f8(9, 4)/k3x3nocentre/dask(4, 3)': 'c425407beabe7b51aba6',
    'hot/f4(9, 4)/k1x1/np': '1156549afaffb38879f4',
    'hot/neg/f4(9, 4)/k1x1/np': '1156549afaffb38879f4',
    'hot/f4(9, 4)/k1x1/dask(9, 4)': '944673a23a4143df88e9',
    'hot/f4(9, 4)/k1x1/dask(5, 2)': '1c59169ec05dc57f6929',
    'hot/f4(9, 4)/k1x1/dask(3, 4)': '52b7eef8b8ff04d1b83c',
    'hot/f4(9, 4)/k1x1/dask(4, 3)': 'c3b6e976f626003cc51b',
    'hot/f4(9, 4)/k3x3full/np': '1156549afaffb38879f4',
    'hot/neg/f4(9, 4)/k3x3full/np': '1156549afaffb38879f4',
    'hot/f4(9, 4)/k3x3full/dask(9, 4)': '2ec4eb159270e9cb4505',
    'hot/f4(9, 4)/k3x3full/dask(5, 2)': 'ae9acde9f586b99b573b',
    'hot/f4(9, 4)/k3x3full/dask(3, 4)': '7b6c35844f060b94f745',
    'hot/f4(9, 4)/k3x3full/dask(4, 3)': 'c425407beabe7b51aba6',
    'hot/f4(9, 4)/k3x3cross/np': '1156549afaffb38879f4',
    'hot/neg/f4(9, 4)/k3x3cross/np': '1156549afaffb38879f4',
    'hot/f4(9, 4)/k3x3cross/dask(9, 4)': '2ec4eb159270e9cb4505',
    'hot/f4(9, 4)/k3x3cross/dask(5, 2)': 'ae9acde9f586b99b573b',
    'hot/f4(9, 4)/k3x3cross/dask(3, 4)': '7b6c35844f060b94f745',
    'hot/f4(9, 4)/k3x3cross/dask(4, 3)': 'c425407beabe7b51aba6',
    'hot/f4(9, 4)/k1x3asym/np': '1156549afaffb38879f4',
    'hot/neg/f4(9, 4)/k1x3asym/np': '1156549afaffb38879f4',
    'hot/f4(9, 4)/k1x3asym/dask(9, 4)': '2ec4eb159270e9cb4505',
    'hot/f4(9, 4)/k1x3asym/dask(5, 2)': 'ae9acde9f586b99b573b',
    'hot/f4(9, 4)/k1x3asym/dask(3, 4)': '7b6c35844f060b94f745',
    'hot/f4(9, 4)/k1x3asym/dask(4, 3)': 'c425407beabe7b51aba6',
    'hot/f4(9, 4)/k3x1asym/np': '1156549afaffb38879f4',
    'hot/neg/f4(9, 4)/k3x1asym/np': '1156549afaffb38879f4',
    'hot/f4(9, 4)/k3x1asym/dask(9, 4)': '2ec4eb159270e9cb4505',
    'hot/f4(9, 4)/k3x1asym/dask(5, 2)': 'ae9acde9f586b99b573b',
    'hot/f4(9, 4)/k3x1asym/dask(3, 4)': '7b6c35844f060b94f745',
    'hot/f4(9, 4)/k3x1asym/dask(4, 3)': 'c425407beabe7b51aba6',
    'hot/f4(9, 4)/k5x3rand/np': '1156549afaffb38879f4',
    'hot/neg/f4(9, 4)/k5x3rand/np': '1156549afaffb38879f4',
    'hot/f4(9, 4)/k5x3rand/dask(9, 4)': '2ec4eb159270e9cb4505',
    'hot/f4(9, 4)/k5x3rand/dask(5, 2)': 'ae9acde9f586b99b573b',
    'hot/f4(9, 4)/k5x3rand/dask(3, 4)': '7b6c35844f060b94f745',
    'hot/f4(9, 4)/k3x5fortran/np': '1156549afaffb38879f4',
    'hot/neg/f4(9, 4)/k3x5fortran/np': '1156549afaffb38879f4',
    'hot/f4(9, 4)/k3x5fortran/dask(9, 4)': '2ec4eb159270e9cb4505',
    'hot/f4(9, 4)/k3x5fortran/dask(3, 4)': '7b6c35844f060b94f745',
    'hot/f4(9, 4)/k5x5annulus/np': '1156549afaffb38879f4',
    'hot/neg/f4(9, 4)/k5x5annulus/np': '1156549afaffb38879f4',
    'hot/f4(9, 4)/k5x5annulus/dask(9, 4)': '2ec4eb159270e9cb4505',
    'hot/f4(9, 4)/k5x5annulus/dask(3, 4)': '7b6c35844f060b94f745',
    'hot/f4(9, 4)/k3x3nocentre/np': '1156549afaffb38879f4',
    'hot/neg/f4(9, 4)/k3x3nocentre/np': '1156549afaffb38879f4',
    'hot/f4(9, 4)/k3x3nocentre/dask(9, 4)': '2ec4eb159270e9cb4505',
    'hot/f4(9, 4)/k3x3nocentre/dask(5, 2)': 'ae9acde9f586b99b573b',
    'hot/f4(9, 4)/k3x3nocentre/dask(3, 4)': '7b6c35844f060b94f745',
    'hot/f4(9, 4)/k3x3nocentre/dask(4, 3)': 'c425407beabe7b51aba6',
    'hot/i4(9, 4)/k1x1/np': '400e3bbf8ce17c869cb5',
    'hot/neg/i4(9, 4)/k1x1/np': 'b3cf7652e8c25aaa8f49',
    'hot/i4(9, 4)/k1x1/dask(9, 4)': 'dac40c2cc3c14b153da4',
    'hot/i4(9, 4)/k1x1/dask(5, 2)': 'fae72894b29ff5ec1b81',
    'hot/i4(9, 4)/k1x1/dask(3, 4)': '0e894663fddce2fc5b54',
    'hot/i4(9, 4)/k1x1/dask(4, 3)': 'e449beb64b61efb778eb',
    'hot/i4(9, 4)/k3x3full/np': '1156549afaffb38879f4',
    'hot/neg/i4(9, 4)/k3x3full/np': '1156549afaffb38879f4',
    'hot/i4(9, 4)/k3x3full/dask(9, 4)': '2ec4eb159270e9cb4505',
    'hot/i4(9, 4)/k3x3full/dask(5, 2)': 'ae9acde9f586b99b573b',
    'hot/i4(9, 4)/k3x3full/dask(3, 4)': '7b6c35844f060b94f745',
    'hot/i4(9, 4)/k3x3full/dask(4, 3)': 'c425407beabe7b51aba6',
    'hot/i4(9, 4)/k3x3cross/np': '1156549afaffb38879f4',
    'hot/neg/i4(9, 4)/k3x3cross/np': '1156549afaffb38879f4',
    'hot/i4(9, 4)/k3x3cross/dask(9, 4)': '2ec4eb159270e9cb4505',
    'hot/i4(9, 4)/k3x3cross/dask(5, 2)': 'ae9acde9f586b99b573b',
    'hot/i4(9, 4)/k3x3cross/dask(3, 4)': '7b6c35844f060b94f745',
    'hot/i4(9, 4)/k3x3cross/dask(4, 3)': 'c425407beabe7b51aba6',
    'hot/i4(9, 4)/k1x3asym/np': '1156549afaffb38879f4',
    'hot/neg/i4(9, 4)/k1x3asym/np': '1156549afaffb38879f4',
    'hot/i4(9, 4)/k1x3asym/dask(9, 4)': '2ec4eb159270e9cb4505',
    'hot/i4(9, 4)/k1x3asym/dask(5, 2)': 'ae9acde9f586b99b573b',
    'hot/i4(9, 4)/k1x3asym/dask(3, 4)': '7b6c35844f060b94f745',
    'hot/i4(9, 4)/k1x3asym/dask(4, 3)': 'c425407beabe7b51aba6',
    'hot/i4(9, 4)/k3x1asym/np': '1156549afaffb38879f4',
    'hot/neg/i4(9, 4)/k3x1asym/np': '1156549afaffb38879f4',
    'hot/i4(9, 4)/k3x1asym/dask(9, 4)': '2ec4eb159270e9cb4505',
    'hot/i4(9, 4)/k3x1asym/dask(5, 2)': 'ae9acde9f586b99b573b',
    'hot/i4(9, 4)/k3x1asym/dask(3, 4)': '7b6c35844f060b94f745',
    'hot/i4(9, 4)/k3x1asym/dask(4, 3)': 'c425407beabe7b51aba6',
    'hot/i4(9, 4)/k5x3rand/np': '1156549afaffb38879f4',
    'hot/neg/i4(9, 4)/k5x3rand/np': '1156549afaffb38879f4',
    'hot/i4(9, 4)/k5x3rand/dask(9, 4)': '2ec4eb159270e9cb4505',
    'hot/i4(9, 4)/k5x3rand/dask(5, 2)': 'ae9acde9f586b99b573b',
    'hot/i4(9, 4)/k5x3rand/dask(3, 4)': '7b6c35844f060b94f745',
    'hot/i4(9, 4)/k3x5fortran/np': '1156549afaffb38879f4',
    'hot/neg/i4(9, 4)/k3x5fortran/np': '1156549afaffb38879f4',
    'hot/i4(9, 4)/k3x5fortran/dask(9, 4)': '2ec4eb159270e9cb4505',
    'hot/i4(9, 4)/k3x5fortran/dask(3, 4)': '7b6c35844f060b94f745',
    'hot/i4(9, 4)/k5x5annulus/np': '1156549afaffb38879f4',
    'hot/neg/i4(9, 4)/k5x5annulus/np': '1156549afaffb38879f4',
    'hot/i4(9, 4)/k5x5annulus/dask(9, 4)': '2ec4eb159270e9cb4505',
    'hot/i4(9, 4)/k5x5annulus/dask(3, 4)': '7b6c35844f060b94f745',
    'hot/i4(9, 4)/k3x3nocentre/np': '1156549afaffb38879f4',
    'hot/neg/i4(9, 4)/k3x3nocentre/np': '1156549afaffb38879f4',
    'hot/i4(9, 4)/k3x3nocentre/dask(9, 4)': '2ec4eb159270e9cb4505',
    'hot/i4(9, 4)/k3x3nocentre/dask(5, 2)': 'ae9acde9f586b99b573b',
    'hot/i4(9, 4)/k3x3nocentre/dask(3, 4)': '7b6c35844f060b94f745',
    'hot/i4(9, 4)/k3x3nocentre/dask(4, 3)': 'c425407beabe7b51aba6',
    'hot/i8(9, 4)/k1x1/np': '3faf79717b84d06e46b4',
    'hot/neg/i8(9, 4)/k1x1/np': '6e91bc64e56f99ec9c53',
    'hot/i8(9, 4)/k1x1/dask(9, 4)': 'a7b06471f0456901a0d5',
    'hot/i8(9, 4)/k1x1/dask(5, 2)': '912bcfdc058f6c379c36',
    'hot/i8(9, 4)/k1x1/dask(3, 4)': '64910aa2a64948bc7792',
    'hot/i8(9, 4)/k1x1/dask(4, 3)': '6033645a34a0f0e9343b',
    'hot/i8(9, 4)/k3x3full/np': '1156549afaffb38879f4',
    'hot/neg/i8(9, 4)/k3x3full/np': '1156549afaffb38879f4',
    'hot/i8(9, 4)/k3x3full/dask(9, 4)': '2ec4eb159270e9cb4505',
    'hot/i8(9, 4)/k3x3full/dask(5, 2)': 'ae9acde9f586b99b573b',
    'hot/i8(9, 4)/k3x3full/dask(3, 4)': '7b6c35844f060b94f745',
    'hot/i8(9, 4)/k3x3full/dask(4, 3)': 'c425407beabe7b51aba6',
    'hot/i8(9, 4)/k3x3cross/np': '1156549afaffb38879f4',
    'hot/neg/i8(9, 4)/k3x3cross/np': '1156549afaffb38879f4',
    'hot/i8(9, 4)/k3x3cross/dask(9, 4)': '2ec4eb159270e9cb4505',
    'hot/i8(9, 4)/k3x3cross/dask(5, 2)': 'ae9acde9f586b99b573b',
    'hot/i8(9, 4)/k3x3cross/dask(3, 4)': '7b6c35844f060b94f745',
    'hot/i8(9, 4)/k3x3cross/dask(4, 3)': 'c425407beabe7b51aba6',
    'hot/i8(9, 4)/k1x3asym/np': '1156549afaffb38879f4',
    'hot/neg/i8(9, 4)/k1x3asym/np': '1156549afaffb38879f4',
    'hot/i8(9, 4)/k1x3asym/dask(9, 4)': '2ec4eb159270e9cb4505',
    'hot/i8(9, 4)/k1x3asym/dask(5, 2)': 'ae9acde9f586b99b573b',
    'hot/i8(9, 4)/k1x3asym/dask(3, 4)': '7b6c35844f060b94f745',
    'hot/i8(9, 4)/k1x3asym/dask(4, 3)': 'c425407beabe7b51aba6',
    'hot/i8(9, 4)/k3x1asym/np': '4b87cf5327074955a8af',
    'hot/neg/i8(9, 4)/k3x1asym/np': '8d9a179664ef48d79cbf',
    'hot/i8(9, 4)/k3x1asym/dask(9, 4)': '4b97f951dfca5ce36125',
    'hot/i8(9, 4)/k3x1asym/dask(5, 2)': '40d0bf78cf2abc954b83',
    'hot/i8(9, 4)/k3x1asym/dask(3, 4)': 'da6afa70dcc24c117ea1',
    'hot/i8(9, 4)/k3x1asym/dask(4, 3)': '5ac9bc763d04f4cb45dd',
    'hot/i8(9, 4)/k5x3rand/np': '1156549afaffb38879f4',
    'hot/neg/i8(9, 4)/k5x3rand/np': '1156549afaffb38879f4',
    'hot/i8(9, 4)/k5x3rand/dask(9, 4)': '2ec4eb159270e9cb4505',
    'hot/i8(9, 4)/k5x3rand/dask(5, 2)': 'ae9acde9f586b99b573b',
    'hot/i8(9, 4)/k5x3rand/dask(3, 4)': '7b6c35844f060b94f745',
    'hot/i8(9, 4)/k3x5fortran/np': '1156549afaffb38879f4',
    'hot/neg/i8(9, 4)/k3x5fortran/np': '1156549afaffb38879f4',
    'hot/i8(9, 4)/k3x5fortran/dask(9, 4)': '2ec4eb159270e9cb4505',
    'hot/i8(9, 4)/k3x5fortran/dask(3, 4)': '7b6c35844f060b94f745',
    'hot/i8(9, 4)/k5x5annulus/np': '1156549afaffb38879f4',
    'hot/neg/i8(9, 4)/k5x5annulus/np': '1156549afaffb38879f4',
    'hot/i8(9, 4)/k5x5annulus/dask(9, 4)': '2ec4eb159270e9cb4505',
    'hot/i8(9, 4)/k5x5annulus/dask(3, 4)': '7b6c35844f060b94f745',
    'hot/i8(9, 4)/k3x3nocentre/np': '1156549afaffb38879f4',
    'hot/neg/i8(9, 4)/k3x3nocentre/np': '1156549afaffb38879f4',
    'hot/i8(9, 4)/k3x3nocentre/dask(9, 4)': '2ec4eb159270e9cb4505',
    'hot/i8(9, 4)/k3x3nocentre/dask(5, 2)': 'ae9acde9f586b99b573b',
    'hot/i8(9, 4)/k3x3nocentre/dask(3, 4)': '7b6c35844f060b94f745',
    'hot/i8(9, 4)/k3x3nocentre/dask(4, 3)': 'c425407beabe7b51aba6',
    'hot/u1(9, 4)/k1x1/np': '1156549afaffb38879f4',
    'hot/u1(9, 4)/k1x1/dask(9, 4)': '944673a23a4143df88e9',
    'hot/u1(9, 4)/k1x1/dask(5, 2)': '1c59169ec05dc57f6929',
    'hot/u1(9, 4)/k1x1/dask(3, 4)': '52b7eef8b8ff04d1b83c',
    'hot/u1(9, 4)/k1x1/dask(4, 3)': 'c3b6e976f626003cc51b',
    'hot/u1(9, 4)/k3x3full/np': '1156549afaffb38879f4',
    'hot/u1(9, 4)/k3x3full/dask(9, 4)': '2ec4eb159270e9cb4505',
    'hot/u1(9, 4)/k3x3full/dask(5, 2)': 'ae9acde9f586b99b573b',
    'hot/u1(9, 4)/k3x3full/dask(3, 4)': '7b6c35844f060b94f745',
    'hot/u1(9, 4)/k3x3full/dask(4, 3)': 'c425407beabe7b51aba6',
    'hot/u1(9, 4)/k3x3cross/np': '1156549afaffb38879f4',
    'hot/u1(9, 4)/k3x3cross/dask(9, 4)': '2ec4eb159270e9cb4505',
    'hot/u1(9, 4)/k3x3cross/dask(5, 2)': 'ae9acde9f586b99b573b',
    'hot/u1(9, 4)/k3x3cross/dask(3, 4)': '7b6c35844f060b94f745',
    'hot/u1(9, 4)/k3x3cross/dask(4, 3)': 'c425407beabe7b51aba6',
    'hot/u1(9, 4)/k1x3asym/np': '1156549afaffb38879f4',
    'hot/u1(9, 4)/k1x3asym/dask(9, 4)': '2ec4eb159270e9cb4505',
    'hot/u1(9, 4)/k1x3asym/dask(5, 2)': 'ae9acde9f586b99b573b',
    'hot/u1(9, 4)/k1x3asym/dask(3, 4)': '7b6c35844f060b94f745',
    'hot/u1(9, 4)/k1x3asym/dask(4, 3)': 'c425407beabe7b51aba6',
    'hot/u1(9, 4)/k3x1asym/np': '1156549afaffb38879f4',
    'hot/u1(9, 4)/k3x1asym/dask(9, 4)': '2ec4eb159270e9cb4505',
    'hot/u1(9, 4)/k3x1asym/dask(5, 2)': 'ae9acde9f586b99b573b',
    'hot/u1(9, 4)/k3x1asym/dask(3, 4)': '7b6c35844f060b94f745',
    'hot/u1(9, 4)/k3x1asym/dask(4, 3)': 'c425407beabe7b51aba6',
    'hot/u1(9, 4)/k5x3rand/np': '1156549afaffb38879f4',
    'hot/u1(9, 4)/k5x3rand/dask(9, 4)': '2ec4eb159270e9cb4505',
    'hot/u1(9, 4)/k5x3rand/dask(5, 2)': 'ae9acde9f586b99b573b',
    'hot/u1(9, 4)/k5x3rand/dask(3, 4)': '7b6c35844f060b94f745',
    'hot/u1(9, 4)/k3x5fortran/np': '1156549afaffb38879f4',
    'hot/u1(9, 4)/k3x5fortran/dask(9, 4)': '2ec4eb159270e9cb4505',
    'hot/u1(9, 4)/k3x5fortran/dask(3, 4)': '7b6c35844f060b94f745',
    'hot/u1(9, 4)/k5x5annulus/np': '1156549afaffb38879f4',
    'hot/u1(9, 4)/k5x5annulus/dask(9, 4)': '2ec4eb159270e9cb4505',
    'hot/u1(9, 4)/k5x5annulus/dask(3, 4)': '7b6c35844f060b94f745',
    'hot/u1(9, 4)/k3x3nocentre/np': '1156549afaffb38879f4',
    'hot/u1(9, 4)/k3x3nocentre/dask(9, 4)': '2ec4eb159270e9cb4505',
    'hot/u1(9, 4)/k3x3nocentre/dask(5, 2)': 'ae9acde9f586b99b573b',
    'hot/u1(9, 4)/k3x3nocentre/dask(3, 4)': '7b6c35844f060b94f745',
    'hot/u1(9, 4)/k3x3nocentre/dask(4, 3)': 'c425407beabe7b51aba6',
    'hot/f8nan(9, 4)/k1x1/np': '1156549afaffb38879f4',
    'hot/neg/f8nan(9, 4)/k1x1/np': '1156549afaffb38879f4',
    'hot/f8nan(9, 4)/k1x1/dask(9, 4)': '944673a23a4143df88e9',
    'hot/f8nan(9, 4)/k1x1/dask(5, 2)': '1c59169ec05dc57f6929',
    'hot/f8nan(9, 4)/k1x1/dask(3, 4)': '52b7eef8b8ff04d1b83c',
    'hot/f8nan(9, 4)/k1x1/dask(4, 3)': 'c3b6e976f626003cc51b',
    'hot/f8nan(9, 4)/k3x3full/np': '1156549afaffb38879f4',
    'hot/neg/f8nan(9, 4)/k3x3full/np': '1156549afaffb38879f4',
    'hot/f8nan(9, 4)/k3x3full/dask(9, 4)': '2ec4eb159270e9cb4505',
    'hot/f8nan(9, 4)/k3x3full/dask(5, 2)': 'ae9acde9f586b99b573b',
    'hot/f8nan(9, 4)/k3x3full/dask(3, 4)': '7b6c35844f060b94f745',
    'hot/f8nan(9, 4)/k3x3full/dask(4, 3)': 'c425407beabe7b51aba6',
    'hot/f8nan(9, 4)/k3x3cross/np': '1156549afaffb38879f4',
    'hot/neg/f8nan(9, 4)/k3x3cross/np': '1156549afaffb38879f4',
    'hot/f8nan(9, 4)/k3x3cross/dask(9, 4)': '2ec4eb159270e9cb4505',
    'hot/f8nan(9, 4)/k3x3cross/dask(5, 2)': 'ae9acde9f586b99b573b',
    'hot/f8nan(9, 4)/k3x3cross/dask(3, 4)': '7b6c35844f060b94f745',
    'hot/f8nan(9, 4)/k3x3cross/dask(4, 3)': 'c425407beabe7b51aba6',
    'hot/f8nan(9, 4)/k1x3asym/np': '1156549afaffb38879f4',
    'hot/neg/f8nan(9, 4)/k1x3asym/np': '1156549afaffb38879f4',
    'hot/f8nan(9, 4)/k1x3asym/dask(9, 4)': '2ec4eb159270e9cb4505',
    'hot/f8nan(9, 4)/k1x3asym/dask(5, 2)': 'ae9acde9f586b99b573b',
    'hot/f8nan(9, 4)/k1x3asym/dask(3, 4)': '7b6c35844f060b94f745',
    'hot/f8nan(9, 4)/k1x3asym/dask(4, 3)': 'c425407beabe7b51aba6',
    'hot/f8nan(9, 4)/k3x1asym/np': '1156549afaffb38879f4',
    'hot/neg/f8nan(9, 4)/k3x1asym/np': '1156549afaffb38879f4',
    'hot/f8nan(9, 4)/k3x1asym/dask(9, 4)': '2ec4eb159270e9cb4505',
    'hot/f8nan(9, 4)/k3x1asym/dask(5, 2)': 'ae9acde9f586b99b573b',
    'hot/f8nan(9, 4)/k3x1asym/dask(3, 4)': '7b6c35844f060b94f745',
    'hot/f8nan(9, 4)/k3x1asym/dask(4, 3)': 'c425407beabe7b51aba6',
    'hot/f8nan(9, 4)/k5x3rand/np': '1156549afaffb38879f4',
    'hot/neg/f8nan(9, 4)/k5x3rand/np': '1156549afaffb38879f4',
    'hot/f8nan(9, 4)/k5x3rand/dask(9, 4)': '2ec4eb159270e9cb4505',
    'hot/f8nan(9, 4)/k5x3rand/dask(5, 2)': 'ae9acde9f586b99b573b',
    'hot/f8nan(9, 4)/k5x3rand/dask(3, 4)': '7b6c35844f060b94f745',
    'hot/f8nan(9, 4)/k3x5fortran/np': '1156549afaffb38879f4',
    'hot/neg/f8nan(9, 4)/k3x5fortran/np': '1156549afaffb38879f4',
    'hot/f8nan(9, 4)/k3x5fortran/dask(9, 4)': '2ec4eb159270e9cb4505',
    'hot/f8nan(9, 4)/k3x5fortran/dask(3, 4)': '7b6c35844f060b94f745',
    'hot/f8nan(9, 4)/k5x5annulus/np': '1156549afaffb38879f4',
    'hot/neg/f8nan(9, 4)/k5x5annulus/np': '1156549afaffb38879f4',
    'hot/f8nan(9, 4)/k5x5annulus/dask(9, 4)': '2ec4eb159270e9cb4505',
    'hot/f8nan(9, 4)/k5x5annulus/dask(3, 4)': '7b6c35844f060b94f745',
    'hot/f8nan(9, 4)/k3x3nocentre/np': '1156549afaffb38879f4',
    'hot/neg/f8nan(9, 4)/k3x3nocentre/np': '1156549afaffb38879f4',
    'hot/f8nan(9, 4)/k3x3nocentre/dask(9, 4)': '2ec4eb159270e9cb4505',
    'hot/f8nan(9, 4)/k3x3nocentre/dask(5, 2)': 'ae9acde9f586b99b573b',
    'hot/f8nan(9, 4)/k3x3nocentre/dask(3, 4)': '7b6c35844f060b94f745',
    'hot/f8nan(9, 4)/k3x3nocentre/dask(4, 3)': 'c425407beabe7b51aba6',
    'hot/f4nan(9, 4)/k1x1/np': '1156549afaffb38879f4',
    'hot/neg/f4nan(9, 4)/k1x1/np': '1156549afaffb38879f4',
    'hot/f4nan(9, 4)/k1x1/dask(9, 4)': '944673a23a4143df88e9',
    'hot/f4nan(9, 4)/k1x1/dask(5, 2)': '1c59169ec05dc57f6929',
    'hot/f4nan(9, 4)/k1x1/dask(3, 4)': '52b7eef8b8ff04d1b83c',
    'hot/f4nan(9, 4)/k1x1/dask(4, 3)': 'c3b6e976f626003cc51b',
    'hot/f4nan(9, 4)/k3x3full/np': '1156549afaffb38879f4',
    'hot/neg/f4nan(9, 4)/k3x3full/np': '1156549afaffb38879f4',
    'hot/f4nan(9, 4)/k3x3full/dask(9, 4)': '2ec4eb159270e9cb4505',
    'hot/f4nan(9, 4)/k3x3full/dask(5, 2)': 'ae9acde9f586b99b573b',
    'hot/f4nan(9, 4)/k3x3full/dask(3, 4)': '7b6c35844f060b94f745',
    'hot/f4nan(9, 4)/k3x3full/dask(4, 3)': 'c425407beabe7b51aba6',
    'hot/f4nan(9, 4)/k3x3cross/np': '1156549afaffb38879f4',
    'hot/neg/f4nan(9, 4)/k3x3cross/np': '1156549afaffb38879f4',
    'hot/f4nan(9, 4)/k3x3cross/dask(9, 4)': '2ec4eb159270e9cb4505',
    'hot/f4nan(9, 4)/k3x3cross/dask(5, 2)': 'ae9acde9f586b99b573b',
    'hot/f4nan(9, 4)/k3x3cross/dask(3, 4)': '7b6c35844f060b94f745',
    'hot/f4nan(9, 4)/k3x3cross/dask(4, 3)': 'c425407beabe7b51aba6',
    'hot/f4nan(9, 4)/k1x3asym/np': '1156549afaffb38879f4',
    'hot/neg/f4nan(9, 4)/k1x3asym/np': '1156549afaffb38879f4',
    'hot/f4nan(9, 4)/k1x3asym/dask(9, 4)': '2ec4eb159270e9cb4505',
    'hot/f4nan(9, 4)/k1x3asym/dask(5, 2)': 'ae9acde9f586b99b573b',
    'hot/f4nan(9, 4)/k1x3asym/dask(3, 4)': '7b6c35844f060b94f745',
    'hot/f4nan(9, 4)/k1x3asym/dask(4, 3)': 'c425407beabe7b51aba6',
    'hot/f4nan(9, 4)/k3x1asym/np': '1156549afaffb38879f4',
    'hot/neg/f4nan(9, 4)/k3x1asym/np': '1156549afaffb38879f4',
    'hot/f4nan(9, 4)/k3x1asym/dask(9, 4)': '2ec4eb159270e9cb4505',
    'hot/f4nan(9, 4)/k3x1asym/dask(5, 2)': 'ae9acde9f586b99b573b',
    'hot/f4nan(9, 4)/k3x1asym/dask(3, 4)': '7b6c35844f060b94f745',
    'hot/f4nan(9, 4)/k3x1asym/dask(4, 3)': 'c425407beabe7b51aba6',
    'hot/f4nan(9, 4)/k5x3rand/np': '1156549afaffb38879f4',
    'hot/neg/f4nan(9, 4)/k5x3rand/np': '1156549afaffb38879f4',
    'hot/f4nan(9, 4)/k5x3rand/dask(9, 4)': '2ec4eb159270e9cb4505',
    'hot/f4nan(9, 4)/k5x3rand/dask(5, 2)': 'ae9acde9f586b99b573b',
    'hot/f4nan(9, 4)/k5x3rand/dask(3, 4)': '7b6c35844f060b94f745',
    'hot/f4nan(9, 4)/k3x5fortran/np': '1156549afaffb38879f4',
    'hot/neg/f4nan(9, 4)/k3x5fortran/np': '1156549afaffb38879f4',
    'hot/f4nan(9, 4)/k3x5fortran/dask(9, 4)': '2ec4eb159270e9cb4505',
    'hot/f4nan(9, 4)/k3x5fortran/dask(3, 4)': '7b6c35844f060b94f745',
    'hot/f4nan(9, 4)/k5x5annulus/np': '1156549afaffb38879f4',
    'hot/neg/f4nan(9, 4)/k5x5annulus/np': '1156549afaffb38879f4',
    'hot/f4nan(9, 4)/k5x5annulus/dask(9, 4)': '2ec4eb159270e9cb4505',
    'hot/f4nan(9, 4)/k5x5annulus/dask(3, 4)': '7b6c35844f060b94f745',
    'hot/f4nan(9, 4)/k3x3nocentre/np': '1156549afaffb38879f4',
    'hot/neg/f4nan(9, 4)/k3x3nocentre/np': '1156549afaffb38879f4',
    'hot/f4nan(9, 4)/k3x3nocentre/dask(9, 4)': '2ec4eb159270e9cb4505',
    'hot/f4nan(9, 4)/k3x3nocentre/dask(5, 2)': 'ae9acde9f586b99b573b',
    'hot/f4nan(9, 4)/k3x3nocentre/dask(3, 4)': '7b6c35844f060b94f745',
    'hot/f4nan(9, 4)/k3x3nocentre/dask(4, 3)': 'c425407beabe7b51aba6',
    'hot/f8(12, 11)/k1x1/np': '1e7bac4473f77746d4fb',
    'hot/neg/f8(12, 11)/k1x1/np': '1c0253e5a0ea6135dd9a',
    'hot/f8(12, 11)/k1x1/dask(12, 11)': 'b846c8ebf6e447ce69f8',
    'hot/f8(12, 11)/k1x1/dask(6, 6)': '1feed07ee795e4da3d02',
    'hot/f8(12, 11)/k1x1/dask(4, 11)': '02980b92d320a34ec5f6',
    'hot/f8(12, 11)/k1x1/dask(4, 3)': '4b0f11b88b72a3087b3d',
    'hot/f8(12, 11)/k3x3full/np': '4f1347c55933a3acf3fe',
    'hot/neg/f8(12, 11)/k3x3full/np': '4f1347c55933a3acf3fe',
    'hot/f8(12, 11)/k3x3full/dask(12, 11)': '511976949c48ae0f857e',
    'hot/f8(12, 11)/k3x3full/dask(6, 6)': '70bf5c05b8dcc9d4cc6a',
    'hot/f8(12, 11)/k3x3full/dask(4, 11)': '8f0ec9dd245aad846a0f',
    'hot/f8(12, 11)/k3x3full/dask(4, 3)': 'de88ec1ba5872ef7e6af',
    'hot/f8(12, 11)/k3x3cross/np': '4f1347c55933a3acf3fe',
    'hot/neg/f8(12, 11)/k3x3cross/np': '4f1347c55933a3acf3fe',
    'hot/f8(12, 11)/k3x3cross/dask(12, 11)': '511976949c48ae0f857e',
    'hot/f8(12, 11)/k3x3cross/dask(6, 6)': '70bf5c05b8dcc9d4cc6a',
    'hot/f8(12, 11)/k3x3cross/dask(4, 11)': '8f0ec9dd245aad846a0f',
    'hot/f8(12, 11)/k3x3cross/dask(4, 3)': 'de88ec1ba5872ef7e6af',
    'hot/f8(12, 11)/k1x3asym/np': '4f1347c55933a3acf3fe',
    'hot/neg/f8(12, 11)/k1x3asym/np': '4f1347c55933a3acf3fe',
    'hot/f8(12, 11)/k1x3asym/dask(12, 11)': '511976949c48ae0f857e',
    'hot/f8(12, 11)/k1x3asym/dask(6, 6)': '70bf5c05b8dcc9d4cc6a',
    'hot/f8(12, 11)/k1x3asym/dask(4, 11)': '8f0ec9dd245aad846a0f',
    'hot/f8(12, 11)/k1x3asym/dask(4, 3)': 'de88ec1ba5872ef7e6af',
    'hot/f8(12, 11)/k3x1asym/np': 'b51de622110fad6a98a0',
    'hot/neg/f8(12, 11)/k3x1asym/np': 'b39b848dcf579556877b',
    'hot/f8(12, 11)/k3x1asym/dask(12, 11)': '365e9c8cfa334bfc9f66',
    'hot/f8(12, 11)/k3x1asym/dask(6, 6)': 'aed0e3dbe831d4f3162e',
    'hot/f8(12, 11)/k3x1asym/dask(4, 11)': '8af6f9738dd70ea0e282',
    'hot/f8(12, 11)/k3x1asym/dask(4, 3)': 'fd4bbe9089f61c012978',
    'hot/f8(12, 11)/k5x3rand/np': '4f1347c55933a3acf3fe',
    'hot/neg/f8(12, 11)/k5x3rand/np': '4f1347c55933a3acf3fe',
    'hot/f8(12, 11)/k5x3rand/dask(12, 11)': '511976949c48ae0f857e',
    'hot/f8(12, 11)/k5x3rand/dask(6, 6)': '70bf5c05b8dcc9d4cc6a',
    'hot/f8(12, 11)/k5x3rand/dask(4, 11)': '8f0ec9dd245aad846a0f',
    'hot/f8(12, 11)/k5x3rand/dask(4, 3)': 'de88ec1ba5872ef7e6af',
    'hot/f8(12, 11)/k3x5fortran/np': '4f1347c55933a3acf3fe',
    'hot/neg/f8(12, 11)/k3x5fortran/np': '4f1347c55933a3acf3fe',
    'hot/f8(12, 11)/k3x5fortran/dask(12, 11)': '511976949c48ae0f857e',
    'hot/f8(12, 11)/k3x5fortran/dask(6, 6)': '70bf5c05b8dcc9d4cc6a',
    'hot/f8(12, 11)/k3x5fortran/dask(4, 11)': '8f0ec9dd245aad846a0f',
    'hot/f8(12, 11)/k3x5fortran/dask(4, 3)': 'de88ec1ba5872ef7e6af',
    'hot/f8(12, 11)/k5x5annulus/np': '4f1347c55933a3acf3fe',
    'hot/neg/f8(12, 11)/k5x5annulus/np': '4f1347c55933a3acf3fe',
    'hot/f8(12, 11)/k5x5annulus/dask(12, 11)': '511976949c48ae0f857e',
    'hot/f8(12, 11)/k5x5annulus/dask(6, 6)': '70bf5c05b8dcc9d4cc6a',
    'hot/f8(12, 11)/k5x5annulus/dask(4, 11)': '8f0ec9dd245aad846a0f',
    'hot/f8(12, 11)/k5x5annulus/dask(4, 3)': 'de88ec1ba5872ef7e6af',
    'hot/f8(12, 11)/k3x3nocentre/np': '4f1347c55933a3acf3fe',
    'hot/neg/f8(12, 11)/k3x3nocentre/np': '4f1347c55933a3acf3fe',
    'hot/f8(12, 11)/k3x3nocentre/dask(12, 11)': '511976949c48ae0f857e',
    'hot/f8(12, 11)/k3x3nocentre/dask(6, 6)': '70bf5c05b8dcc9d4cc6a',
    'hot/f8(12, 11)/k3x3nocentre/dask(4, 11)': '8f0ec9dd245aad846a0f',
    'hot/f8(12, 11)/k3x3nocentre/dask(4, 3)': 'de88ec1ba5872ef7e6af',
    'hot/f4(12, 11)/k1x1/np': '1e7bac4473f77746d4fb',
    'hot/neg/f4(12, 11)/k1x1/np': '1c0253e5a0ea6135dd9a',
    'hot/f4(12, 11)/k1x1/dask(12, 11)': 'b846c8ebf6e447ce69f8',
    'hot/f4(12, 11)/k1x1/dask(6, 6)': '1feed07ee795e4da3d02',
    'hot/f4(12, 11)/k1x1/dask(4, 11)': '02980b92d320a34ec5f6',
    'hot/f4(12, 11)/k1x1/dask(4, 3)': '4b0f11b88b72a3087b3d',
    'hot/f4(12, 11)/k3x3full/np': '4f1347c55933a3acf3fe',
    'hot/neg/f4(12, 11)/k3x3full/np': '4f1347c55933a3acf3fe',
    'hot/f4(12, 11)/k3x3full/dask(12, 11)': '511976949c48ae0f857e',
    'hot/f4(12, 11)/k3x3full/dask(6, 6)': '70bf5c05b8dcc9d4cc6a',
    'hot/f4(12, 11)/k3x3full/dask(4, 11)': '8f0ec9dd245aad846a0f',
    'hot/f4(12, 11)/k3x3full/dask(4, 3)': 'de88ec1ba5872ef7e6af',
    'hot/f4(12, 11)/k3x3cross/np': '4f1347c55933a3acf3fe',
    'hot/neg/f4(12, 11)/k3x3cross/np': '4f1347c55933a3acf3fe',
    'hot/f4(12, 11)/k3x3cross/dask(12, 11)': '511976949c48ae0f857e',
    'hot/f4(12, 11)/k3x3cross/dask(6, 6)': '70bf5c05b8dcc9d4cc6a',
    'hot/f4(12, 11)/k3x3cross/dask(4, 11)': '8f0ec9dd245aad846a0f',
    'hot/f4(12, 11)/k3x3cross/dask(4, 3)': 'de88ec1ba5872ef7e6af',
    'hot/f4(12, 11)/k1x3asym/np': '4f1347c55933a3acf3fe',
    'hot/neg/f4(12, 11)/k1x3asym/np': '4f1347c55933a3acf3fe',
    'hot/f4(12, 11)/k1x3asym/dask(12, 11)': '511976949c48ae0f857e',
    'hot/f4(12, 11)/k1x3asym/dask(6, 6)': '70bf5c05b8dcc9d4cc6a',
    'hot/f4(12, 11)/k1x3asym/dask(4, 11)': '8f0ec9dd245aad846a0f',
    'hot/f4(12, 11)/k1x3asym/dask(4, 3)': 'de88ec1ba5872ef7e6af',
    'hot/f4(12, 11)/k3x1asym/np': 'b51de622110fad6a98a0',
    'hot/neg/f4(12, 11)/k3x1asym/np': 'b39b848dcf579556877b',
    'hot/f4(12, 11)/k3x1asym/dask(12, 11)': '365e9c8cfa334bfc9f66',
    'hot/f4(12, 11)/k3x1asym/dask(6, 6)': 'aed0e3dbe831d4f3162e',
    'hot/f4(12, 11)/k3x1asym/dask(4, 11)': '8af6f9738dd70ea0e282',
    'hot/f4(12, 11)/k3x1asym/dask(4, 3)': 'fd4bbe9089f61c012978',
    'hot/f4(12, 11)/k5x3rand/np': '4f1347c55933a3acf3fe',
    'hot/neg/f4(12, 11)/k5x3rand/np': '4f1347c55933a3acf3fe',
    'hot/f4(12, 11)/k5x3rand/dask(12, 11)': '511976949c48ae0f857e',
    'hot/f4(12, 11)/k5x3rand/dask(6, 6)': '70bf5c05b8dcc9d4cc6a',
    'hot/f4(12, 11)/k5x3rand/dask(4, 11)': '8f0ec9dd245aad846a0f',
    'hot/f4(12, 11)/k5x3rand/dask(4, 3)': 'de88ec1ba5872ef7e6af',
    'hot/f4(12, 11)/k3x5fortran/np': '4f1347c55933a3acf3fe',
    'hot/neg/f4(12, 11)/k3x5fortran/np': '4f1347c55933a3acf3fe',
    'hot/f4(12, 11)/k3x5fortran/dask(12, 11)': '511976949c48ae0f857e',
    'hot/f4(12, 11)/k3x5fortran/dask(6, 6)': '70bf5c05b8dcc9d4cc6a',
    'hot/f4(12, 11)/k3x5fortran/dask(4, 11)': '8f0ec9dd245aad846a0f',
    'hot/f4(12, 11)/k3x5fortran/dask(4, 3)': 'de88ec1ba5872ef7e6af',
    'hot/f4(12, 11)/k5x5annulus/np': '4f1347c55933a3acf3fe',
    'hot/neg/f4(12, 11)/k5x5annulus/np': '4f1347c55933a3acf3fe',
    'hot/f4(12, 11)/k5x5annulus/dask(12, 11)': '511976949c48ae0f857e',
    'hot/f4(12, 11)/k5x5annulus/dask(6, 6)': '70bf5c05b8dcc9d4cc6a',
    'hot/f4(12, 11)/k5x5annulus/dask(4, 11)': '8f0ec9dd245aad846a0f',
    'hot/f4(12, 11)/k5x5annulus/dask(4, 3)': 'de88ec1ba5872ef7e6af',
    'hot/f4(12, 11)/k3x3nocentre/np': '4f1347c55933a3acf3fe',
    'hot/neg/f4(12, 11)/k3x3nocentre/np': '4f1347c55933a3acf3fe',
    'hot/f4(12, 11)/k3x3nocentre/dask(12, 11)': '511976949c48ae0f857e',
    'hot/f4(12, 11)/k3x3nocentre/dask(6, 6)': '70bf5c05b8dcc9d4cc6a',
    'hot/f4(12, 11)/k3x3nocentre/dask(4, 11)': '8f0ec9dd245aad846a0f',
    'hot/f4(12, 11)/k3x3nocentre/dask(4, 3)': 'de88ec1ba5872ef7e6af',
    'hot/i4(12, 11)/k1x1/np': 'bc8c0fc2f1ac3b8bce52',
    'hot/neg/i4(12, 11)/k1x1/np': '680114b4f5bae81472c3',
    'hot/i4(12, 11)/k1x1/dask(12, 11)': 'a8ac9790367bfa798da5',
    'hot/i4(12, 11)/k1x1/dask(6, 6)': 'd9536e3325afb7ed0284',
    'hot/i4(12, 11)/k1x1/dask(4, 11)': '56f8d79c73c10848a686',
    'hot/i4(12, 11)/k1x1/dask(4, 3)': '6153fc887c0c64fb03c0',
    'hot/i4(12, 11)/k3x3full/np': '4f1347c55933a3acf3fe',
    'hot/neg/i4(12, 11)/k3x3full/np': '4f1347c55933a3acf3fe',
    'hot/i4(12, 11)/k3x3full/dask(12, 11)': '511976949c48ae0f857e',
    'hot/i4(12, 11)/k3x3full/dask(6, 6)': '70bf5c05b8dcc9d4cc6a',
    'hot/i4(12, 11)/k3x3full/dask(4, 11)': '8f0ec9dd245aad846a0f',
    'hot/i4(12, 11)/k3x3full/dask(4, 3)': 'de88ec1ba5872ef7e6af',
    'hot/i4(12, 11)/k3x3cross/np': '4f1347c55933a3acf3fe',
    'hot/neg/i4(12, 11)/k3x3cross/np': '4f1347c55933a3acf3fe',
    'hot/i4(12, 11)/k3x3cross/dask(12, 11)': '511976949c48ae0f857e',
    'hot/i4(12, 11)/k3x3cross/dask(6, 6)': '70bf5c05b8dcc9d4cc6a',
    'hot/i4(12, 11)/k3x3cross/dask(4, 11)': '8f0ec9dd245aad846a0f',
    'hot/i4(12, 11)/k3x3cross/dask(4, 3)': 'de88ec1ba5872ef7e6af',
    'hot/i4(12, 11)/k1x3asym/np': 'f3efb83ce61bd80c1580',
    'hot/neg/i4(12, 11)/k1x3asym/np': 'd6c1ff48d237b8d6cf11',
    'hot/i4(12, 11)/k1x3asym/dask(12, 11)': '804d259b7631f79e88ee',
    'hot/i4(12, 11)/k1x3asym/dask(6, 6)': '21b0b3b3fdddf365ddf4',
    'hot/i4(12, 11)/k1x3asym/dask(4, 11)': '5d63eddce84e14fad29a',
    'hot/i4(12, 11)/k1x3asym/dask(4, 3)': 'bbdae294de7772f7cd01',
    'hot/i4(12, 11)/k3x1asym/np': 'e1c00d44baf48733fa8e',
    'hot/neg/i4(12, 11)/k3x1asym/np': '888b4d79e0f81ebf9fe0',
    'hot/i4(12, 11)/k3x1asym/dask(12, 11)': '71dba11a9b96fa7016fa',
    'hot/i4(12, 11)/k3x1asym/dask(6, 6)': 'f1739c358fe3de120dc7',
    'hot/i4(12, 11)/k3x1asym/dask(4, 11)': '65073cf7281c56548171',
    'hot/i4(12, 11)/k3x1asym/dask(4, 3)': '15c8f8ba0de85be72c23',
    'hot/i4(12, 11)/k5x3rand/np': '4f1347c55933a3acf3fe',
    'hot/neg/i4(12, 11)/k5x3rand/np': '4f1347c55933a3acf3fe',
    'hot/i4(12, 11)/k5x3rand/dask(12, 11)': '511976949c48ae0f857e',
    'hot/i4(12, 11)/k5x3rand/dask(6, 6)': '70bf5c05b8dcc9d4cc6a',
    'hot/i4(12, 11)/k5x3rand/dask(4, 11)': '8f0ec9dd245aad846a0f',
    'hot/i4(12, 11)/k5x3rand/dask(4, 3)': 'de88ec1ba5872ef7e6af',
    'hot/i4(12, 11)/k3x5fortran/np': '4f1347c55933a3acf3fe',
    'hot/neg/i4(12, 11)/k3x5fortran/np': '4f1347c55933a3acf3fe',
    'hot/i4(12, 11)/k3x5fortran/dask(12, 11)': '511976949c48ae0f857e',
    'hot/i4(12, 11)/k3x5fortran/dask(6, 6)': '70bf5c05b8dcc9d4cc6a',
    'hot/i4(12, 11)/k3x5fortran/dask(4, 11)': '8f0ec9dd245aad846a0f',
    'hot/i4(12, 11)/k3x5fortran/dask(4, 3)': 'de88ec1ba5872ef7e6af',
    'hot/i4(12, 11)/k5x5annulus/np': '4f1347c55933a3acf3fe',
    'hot/neg/i4(12, 11)/k5x5annulus/np': '4f1347c55933a3acf3fe',
    'hot/i4(12, 11)/k5x5annulus/dask(12, 11)': '511976949c48ae0f857e',
    'hot/i4(12, 11)/k5x5annulus/dask(6, 6)': '70bf5c05b8dcc9d4cc6a',
    'hot/i4(12, 11)/k5x5annulus/dask(4, 11)': '8f0ec9dd245aad846a0f',
    'hot/i4(12, 11)/k5x5annulus/dask(4, 3)': 'de88ec1ba5872ef7e6af',
    'hot/i4(12, 11)/k3x3nocentre/np': '4f1347c55933a3acf3fe',
    'hot/neg/i4(12, 11)/k3x3nocentre/np': '4f1347c55933a3acf3fe',
    'hot/i4(12, 11)/k3x3nocentre/dask(12, 11)': '511976949c48ae0f857e',
    'hot/i4(12, 11)/k3x3nocentre/dask(6, 6)': '70bf5c05b8dcc9d4cc6a',
    'hot/i4(12, 11)/k3x3nocentre/dask(4, 11)': '8f0ec9dd245aad846a0f',
    'hot/i4(12, 11)/k3x3nocentre/dask(4, 3)': 'de88ec1ba5872ef7e6af',
    'hot/i8(12, 11)/k1x1/np': '0b7c61fcfeac1dbbaff5',
    'hot/neg/i8(12, 11)/k1x1/np': '0762efecb78cfc33dbad',
    'hot/i8(12, 11)/k1x1/dask(12, 11)': 'cf08d28bd071f742d8dd',
    'hot/i8(12, 11)/k1x1/dask(6, 6)': '0c08682acfe62980a0c2',
    'hot/i8(12, 11)/k1x1/dask(4, 11)': 'a3cc6e94369cd273c537',
    'hot/i8(12, 11)/k1x1/dask(4, 3)': '3732ac96e059ce16b344',
    'hot/i8(12, 11)/k3x3full/np': '4f1347c55933a3acf3fe',
    'hot/neg/i8(12, 11)/k3x3full/np': '4f1347c55933a3acf3fe',
    'hot/i8(12, 11)/k3x3full/dask(12, 11)': '511976949c48ae0f857e',
    'hot/i8(12, 11)/k3x3full/dask(6, 6)': '70bf5c05b8dcc9d4cc6a',
    'hot/i8(12, 11)/k3x3full/dask(4, 11)': '8f0ec9dd245aad846a0f',
    'hot/i8(12, 11)/k3x3full/dask(4, 3)': 'de88ec1ba5872ef7e6af',
    'hot/i8(12, 11)/k3x3cross/np': '4f1347c55933a3acf3fe',
    'hot/neg/i8(12, 11)/k3x3cross/np': '4f1347c55933a3acf3fe',
    'hot/i8(12, 11)/k3x3cross/dask(12, 11)': '511976949c48ae0f857e',
    'hot/i8(12, 11)/k3x3cross/dask(6, 6)': '70bf5c05b8dcc9d4cc6a',
    'hot/i8(12, 11)/k3x3cross/dask(4, 11)': '8f0ec9dd245aad846a0f',
    'hot/i8(12, 11)/k3x3cross/dask(4, 3)': 'de88ec1ba5872ef7e6af',
    'hot/i8(12, 11)/k1x3asym/np': 'd3f708f5126924f11e0c',
    'hot/neg/i8(12, 11)/k1x3asym/np': '3733235251574655daf3',
    'hot/i8(12, 11)/k1x3asym/dask(12, 11)': 'ac19625e7ed32ab10913',
    'hot/i8(12, 11)/k1x3asym/dask(6, 6)': 'fd0bc65f3dd180798fb8',
    'hot/i8(12, 11)/k1x3asym/dask(4, 11)': '356f1e8cbd3bae745883',
    'hot/i8(12, 11)/k1x3asym/dask(4, 3)': '4a4864ac7ae821a5a2df',
    'hot/i8(12, 11)/k3x1asym/np': '206ffc75811a33863d44',
    'hot/neg/i8(12, 11)/k3x1asym/np': '30d872ae9d30f7409401',
    'hot/i8(12, 11)/k3x1asym/dask(12, 11)': '43cd2f180ff8c04a0be5',
    'hot/i8(12, 11)/k3x1asym/dask(6, 6)': '95c97240204ae2f20ea9',
    'hot/i8(12, 11)/k3x1asym/dask(4, 11)': 'df8141b675af14f16657',
    'hot/i8(12, 11)/k3x1asym/dask(4, 3)': 'f4ed2e913f1c5a387ce9',
    'hot/i8(12, 11)/k5x3rand/np': '4f1347c55933a3acf3fe',
    'hot/neg/i8(12, 11)/k5x3rand/np': '4f1347c55933a3acf3fe',
    'hot/i8(12, 11)/k5x3rand/dask(12, 11)': '511976949c48ae0f857e',
    'hot/i8(12, 11)/k5x3rand/dask(6, 6)': '70bf5c05b8dcc9d4cc6a',
    'hot/i8(12, 11)/k5x3rand/dask(4, 11)': '8f0ec9dd245aad846a0f',
    'hot/i8(12, 11)/k5x3rand/dask(4, 3)': 'de88ec1ba5872ef7e6af',
    'hot/i8(12, 11)/k3x5fortran/np': '4f1347c55933a3acf3fe',
    'hot/neg/i8(12, 11)/k3x5fortran/np': '4f1347c55933a3acf3fe',
    'hot/i8(12, 11)/k3x5fortran/dask(12, 11)': '511976949c48ae0f857e',
    'hot/i8(12, 11)/k3x5fortran/dask(6, 6)': '70bf5c05b8dcc9d4cc6a',
    'hot/i8(12, 11)/k3x5fortran/dask(4, 11)': '8f0ec9dd245aad846a0f',
    'hot/i8(12, 11)/k3x5fortran/dask(4, 3)': 'de88ec1ba5872ef7e6af',
    'hot/i8(12, 11)/k5x5annulus/np': '4f1347c55933a3acf3fe',
    'hot/neg/i8(12, 11)/k5x5annulus/np': '4f1347c55933a3acf3fe',
    'hot/i8(12, 11)/k5x5annulus/dask(12, 11)': '511976949c48ae0f857e',
    'hot/i8(12, 11)/k5x5annulus/dask(6, 6)': '70bf5c05b8dcc9d4cc6a',
    'hot/i8(12, 11)/k5x5annulus/dask(4, 11)': '8f0ec9dd245aad846a0f',
    'hot/i8(12, 11)/k5x5annulus/dask(4, 3)': 'de88ec1ba5872ef7e6af',
    'hot/i8(12, 11)/k3x3nocentre/np': '4f1347c55933a3acf3fe',
    'hot/neg/i8(12, 11)/k3x3nocentre/np': '4f1347c55933a3acf3fe',
    'hot/i8(12, 11)/k3x3nocentre/dask(12, 11)': '511976949c48ae0f857e',
    'hot/i8(12, 11)/k3x3nocentre/dask(6, 6)': '70bf5c05b8dcc9d4cc6a',
    'hot/i8(12, 11)/k3x3nocentre/dask(4, 11)': '8f0ec9dd245aad846a0f',
    'hot/i8(12, 11)/k3x3nocentre/dask(4, 3)': 'de88ec1ba5872ef7e6af',
    'hot/u1(12, 11)/k1x1/np': '4f1347c55933a3acf3fe',
    'hot/u1(12, 11)/k1x1/dask(12, 11)': 'fdf597f3926461989c42',
    'hot/u1(12, 11)/k1x1/dask(6, 6)': '55e313e78786cba084d9',
    'hot/u1(12, 11)/k1x1/dask(4, 11)': 'e19aa63b9081761f0827',
    'hot/u1(12, 11)/k1x1/dask(4, 3)': 'b7c37ac444a52c591ccc',
    'hot/u1(12, 11)/k3x3full/np': '4f1347c55933a3acf3fe',
    'hot/u1(12, 11)/k3x3full/dask(12, 11)': '511976949c48ae0f857e',
    'hot/u1(12, 11)/k3x3full/dask(6, 6)': '70bf5c05b8dcc9d4cc6a',
    'hot/u1(12, 11)/k3x3full/dask(4, 11)': '8f0ec9dd245aad846a0f',
    'hot/u1(12, 11)/k3x3full/dask(4, 3)': 'de88ec1ba5872ef7e6af',
    'hot/u1(12, 11)/k3x3cross/np': '4f1347c55933a3acf3fe',
    'hot/u1(12, 11)/k3x3cross/dask(12, 11)': '511976949c48ae0f857e',
    'hot/u1(12, 11)/k3x3cross/dask(6, 6)': '70bf5c05b8dcc9d4cc6a',
    'hot/u1(12, 11)/k3x3cross/dask(4, 11)': '8f0ec9dd245aad846a0f',
    'hot/u1(12, 11)/k3x3cross/dask(4, 3)': 'de88ec1ba5872ef7e6af',
    'hot/u1(12, 11)/k1x3asym/np': '4f1347c55933a3acf3fe',
    'hot/u1(12, 11)/k1x3asym/dask(12, 11)': '511976949c48ae0f857e',
    'hot/u1(12, 11)/k1x3asym/dask(6, 6)': '70bf5c05b8dcc9d4cc6a',
    'hot/u1(12, 11)/k1x3asym/dask(4, 11)': '8f0ec9dd245aad846a0f',
    'hot/u1(12, 11)/k1x3asym/dask(4, 3)': 'de88ec1ba5872ef7e6af',
    'hot/u1(12, 11)/k3x1asym/np': '4f1347c55933a3acf3fe',
    'hot/u1(12, 11)/k3x1asym/dask(12, 11)': '511976949c48ae0f857e',
    'hot/u1(12, 11)/k3x1asym/dask(6, 6)': '70bf5c05b8dcc9d4cc6a',
    'hot/u1(12, 11)/k3x1asym/dask(4, 11)': '8f0ec9dd245aad846a0f',
    'hot/u1(12, 11)/k3x1asym/dask(4, 3)': 'de88ec1ba5872ef7e6af',
    'hot/u1(12, 11)/k5x3rand/np': '4f1347c55933a3acf3fe',
    'hot/u1(12, 11)/k5x3rand/dask(12, 11)': '511976949c48ae0f857e',
    'hot/u1(12, 11)/k5x3rand/dask(6, 6)': '70bf5c05b8dcc9d4cc6a',
    'hot/u1(12, 11)/k5x3rand/dask(4, 11)': '8f0ec9dd245aad846a0f',
    'hot/u1(12, 11)/k5x3rand/dask(4, 3)': 'de88ec1ba5872ef7e6af',
    'hot/u1(12, 11)/k3x5fortran/np': '4f1347c55933a3acf3fe',
    'hot/u1(12, 11)/k3x5fortran/dask(12, 11)': '511976949c48ae0f857e',
    'hot/u1(12, 11)/k3x5fortran/dask(6, 6)': '70bf5c05b8dcc9d4cc6a',
    'hot/u1(12, 11)/k3x5fortran/dask(4, 11)': '8f0ec9dd245aad846a0f',
    'hot/u1(12, 11)/k3x5fortran/dask(4, 3)': 'de88ec1ba5872ef7e6af',
    'hot/u1(12, 11)/k5x5annulus/np': '4f1347c55933a3acf3fe',
    'hot/u1(12, 11)/k5x5annulus/dask(12, 11)': '511976949c48ae0f857e',
    'hot/u1(12, 11)/k5x5annulus/dask(6, 6)': '70bf5c05b8dcc9d4cc6a',
    'hot/u1(12, 11)/k5x5annulus/dask(4, 11)': '8f0ec9dd245aad846a0f',
    'hot/u1(12, 11)/k5x5annulus/dask(4, 3)': 'de88ec1ba5872ef7e6af',
    'hot/u1(12, 11)/k3x3nocentre/np': '4f1347c55933a3acf3fe',
    'hot/u1(12, 11)/k3x3nocentre/dask(12, 11)': '511976949c48ae0f857e',
    'hot/u1(12, 11)/k3x3nocentre/dask(6, 6)': '70bf5c05b8dcc9d4cc6a',
    'hot/u1(12, 11)/k3x3nocentre/dask(4, 11)': '8f0ec9dd245aad846a0f',
    'hot/u1(12, 11)/k3x3nocentre/dask(4, 3)': 'de88ec1ba5872ef7e6af',
    'hot/f8nan(12, 11)/k1x1/np': '374a035b51d67c0f270d',
    'hot/neg/f8nan(12, 11)/k1x1/np': '090462093879647e1662',
    'hot/f8nan(12, 11)/k1x1/dask(12, 11)': '42412ebc4cfd273cefc1',
    'hot/f8nan(12, 11)/k1x1/dask(6, 6)': '49ecd7596b07dae77313',
    'hot/f8nan(12, 11)/k1x1/dask(4, 11)': '0775b8e21bc06d7e8c94',
    'hot/f8nan(12, 11)/k1x1/dask(4, 3)': '01234c2d220b21af8883',
    'hot/f8nan(12, 11)/k3x3full/np': '4f1347c55933a3acf3fe',
    'hot/neg/f8nan(12, 11)/k3x3full/np': '4f1347c55933a3acf3fe',
    'hot/f8nan(12, 11)/k3x3full/dask(12, 11)': '511976949c48ae0f857e',
    'hot/f8nan(12, 11)/k3x3full/dask(6, 6)': '70bf5c05b8dcc9d4cc6a',
    'hot/f8nan(12, 11)/k3x3full/dask(4, 11)': '8f0ec9dd245aad846a0f',
    'hot/f8nan(12, 11)/k3x3full/dask(4, 3)': 'de88ec1ba5872ef7e6af',
    'hot/f8nan(12, 11)/k3x3cross/np': '4f1347c55933a3acf3fe',
    'hot/neg/f8nan(12, 11)/k3x3cross/np': '4f1347c55933a3acf3fe',
    'hot/f8nan(12, 11)/k3x3cross/dask(12, 11)': '511976949c48ae0f857e',
    'hot/f8nan(12, 11)/k3x3cross/dask(6, 6)': '70bf5c05b8dcc9d4cc6a',
    'hot/f8nan(12, 11)/k3x3cross/dask(4, 11)': '8f0ec9dd245aad846a0f',
    'hot/f8nan(12, 11)/k3x3cross/dask(4, 3)': 'de88ec1ba5872ef7e6af',
    'hot/f8nan(12, 11)/k1x3asym/np': '4f1347c55933a3acf3fe',
    'hot/neg/f8nan(12, 11)/k1x3asym/np': '4f1347c55933a3acf3fe',
    'hot/f8nan(12, 11)/k1x3asym/dask(12, 11)': '511976949c48ae0f857e',
    'hot/f8nan(12, 11)/k1x3asym/dask(6, 6)': '70bf5c05b8dcc9d4cc6a',
    'hot/f8nan(12, 11)/k1x3asym/dask(4, 11)': '8f0ec9dd245aad846a0f',
    'hot/f8nan(12, 11)/k1x3asym/dask(4, 3)': 'de88ec1ba5872ef7e6af',
    'hot/f8nan(12, 11)/k3x1asym/np': 'b9a4af66bb85f4f6a2f6',
    'hot/neg/f8nan(12, 11)/k3x1asym/np': '6bb7744c1562a9d907b3',
    'hot/f8nan(12, 11)/k3x1asym/dask(12, 11)': '27734f1c87da5ca024ce',
    'hot/f8nan(12, 11)/k3x1asym/dask(6, 6)': 'fc8e242719e60f8bc9fd',
    'hot/f8nan(12, 11)/k3x1asym/dask(4, 11)': '86ab11e012505e23e0b3',
    'hot/f8nan(12, 11)/k3x1asym/dask(4, 3)': '9dde3f24b2461f294c06',
    'hot/f8nan(12, 11)/k5x3rand/np': '4f1347c55933a3acf3fe',
    'hot/neg/f8nan(12, 11)/k5x3rand/np': '4f1347c55933a3acf3fe',
    'hot/f8nan(12, 11)/k5x3rand/dask(12, 11)': '511976949c48ae0f857e',
    'hot/f8nan(12, 11)/k5x3rand/dask(6, 6)': '70bf5c05b8dcc9d4cc6a',
    'hot/f8nan(12, 11)/k5x3rand/dask(4, 11)': '8f0ec9dd245aad846a0f',
    'hot/f8nan(12, 11)/k5x3rand/dask(4, 3)': 'de88ec1ba5872ef7e6af',
    'hot/f8nan(12, 11)/k3x5fortran/np': '4f1347c55933a3acf3fe',
    'hot/neg/f8nan(12, 11)/k3x5fortran/np': '4f1347c55933a3acf3fe',
    'hot/f8nan(12, 11)/k3x5fortran/dask(12, 11)': '511976949c48ae0f857e',
    'hot/f8nan(12, 11)/k3x5fortran/dask(6, 6)': '70bf5c05b8dcc9d4cc6a',
    'hot/f8nan(12, 11)/k3x5fortran/dask(4, 11)': '8f0ec9dd245aad846a0f',
    'hot/f8nan(12, 11)/k3x5fortran/dask(4, 3)': 'de88ec1ba5872ef7e6af',
    'hot/f8nan(12, 11)/k5x5annulus/np': '4f1347c55933a3acf3fe',
    'hot/neg/f8nan(12, 11)/k5x5annulus/np': '4f1347c55933a3acf3fe',
    'hot/f8nan(12, 11)/k5x5annulus/dask(12, 11)': '511976949c48ae0f857e',
    'hot/f8nan(12, 11)/k5x5annulus/dask(6, 6)': '70bf5c05b8dcc9d4cc6a',
    'hot/f8nan(12, 11)/k5x5annulus/dask(4, 11)': '8f0ec9dd245aad846a0f',
    'hot/f8nan(12, 11)/k5x5annulus/dask(4, 3)': 'de88ec1ba5872ef7e6af',
    'hot/f8nan(12, 11)/k3x3nocentre/np': '4f1347c55933a3acf3fe',
    'hot/neg/f8nan(12, 11)/k3x3nocentre/np': '4f1347c55933a3acf3fe',
    'hot/f8nan(12, 11)/k3x3nocentre/dask(12, 11)': '511976949c48ae0f857e',
    'hot/f8nan(12, 11)/k3x3nocentre/dask(6, 6)': '70bf5c05b8dcc9d4cc6a',
    'hot/f8nan(12, 11)/k3x3nocentre/dask(4, 11)': '8f0ec9dd245aad846a0f',
    'hot/f8nan(12, 11)/k3x3nocentre/dask(4, 3)': 'de88ec1ba5872ef7e6af',
    'hot/f4nan(12, 11)/k1x1/np': 'c6c62be786c9f704575e',
    'hot/neg/f4nan(12, 11)/k1x1/np': 'fdc835c121a4c9e7927d',
    'hot/f4nan(12, 11)/k1x1/dask(12, 11)': '0d5b534feac01e05f8dd',
    'hot/f4nan(12, 11)/k1x1/dask(6, 6)': '67cb5399b329900ff9ec',
    'hot/f4nan(12, 11)/k1x1/dask(4, 11)': '697382857560eb89361c',
    'hot/f4nan(12, 11)/k1x1/dask(4, 3)': 'd2a512af3575e604e0c6',
    'hot/f4nan(12, 11)/k3x3full/np': '4f1347c55933a3acf3fe',
    'hot/neg/f4nan(12, 11)/k3x3full/np': '4f1347c55933a3acf3fe',
    'hot/f4nan(12, 11)/k3x3full/dask(12, 11)': '511976949c48ae0f857e',
    'hot/f4nan(12, 11)/k3x3full/dask(6, 6)': '70bf5c05b8dcc9d4cc6a',
    'hot/f4nan(12, 11)/k3x3full/dask(4, 11)': '8f0ec9dd245aad846a0f',
    'hot/f4nan(12, 11)/k3x3full/dask(4, 3)': 'de88ec1ba5872ef7e6af',
    'hot/f4nan(12, 11)/k3x3cross/np': '4f1347c55933a3acf3fe',
    'hot/neg/f4nan(12, 11)/k3x3cross/np': '4f1347c55933a3acf3fe',
    'hot/f4nan(12, 11)/k3x3cross/dask(12, 11)': '511976949c48ae0f857e',
    'hot/f4nan(12, 11)/k3x3cross/dask(6, 6)': '70bf5c05b8dcc9d4cc6a',
    'hot/f4nan(12, 11)/k3x3cross/dask(4, 11)': '8f0ec9dd245aad846a0f',
    'hot/f4nan(12, 11)/k3x3cross/dask(4, 3)': 'de88ec1ba5872ef7e6af',
    'hot/f4nan(12, 11)/k1x3asym/np': '4f1347c55933a3acf3fe',
    'hot/neg/f4nan(12, 11)/k1x3asym/np': '4f1347c55933a3acf3fe',
    'hot/f4nan(12, 11)/k1x3asym/dask(12, 11)': '511976949c48ae0f857e',
    'hot/f4nan(12, 11)/k1x3asym/dask(6, 6)': '70bf5c05b8dcc9d4cc6a',
    'hot/f4nan(12, 11)/k1x3asym/dask(4, 11)': '8f0ec9dd245aad846a0f',
    'hot/f4nan(12, 11)/k1x3asym/dask(4, 3)': 'de88ec1ba5872ef7e6af',
    'hot/f4nan(12, 11)/k3x1asym/np': 'd801ef076aee083efb33',
    'hot/neg/f4nan(12, 11)/k3x1asym/np': 'dea83ecd6d4d52728902',
    'hot/f4nan(12, 11)/k3x1asym/dask(12, 11)': '741b5fb0911c02737c29',
    'hot/f4nan(12, 11)/k3x1asym/dask(6, 6)': '349c8b529dfdfc81c7ea',
    'hot/f4nan(12, 11)/k3x1asym/dask(4, 11)': 'c18849f81d2ff84ffdef',
    'hot/f4nan(12, 11)/k3x1asym/dask(4, 3)': '6877746dbac0435f1903',
    'hot/f4nan(12, 11)/k5x3rand/np': '4f1347c55933a3acf3fe',
    'hot/neg/f4nan(12, 11)/k5x3rand/np': '4f1347c55933a3acf3fe',
    'hot/f4nan(12, 11)/k5x3rand/dask(12, 11)': '511976949c48ae0f857e',
    'hot/f4nan(12, 11)/k5x3rand/dask(6, 6)': '70bf5c05b8dcc9d4cc6a',
    'hot/f4nan(12, 11)/k5x3rand/dask(4, 11)': '8f0ec9dd245aad846a0f',
    'hot/f4nan(12, 11)/k5x3rand/dask(4, 3)': 'de88ec1ba5872ef7e6af',
    'hot/f4nan(12, 11)/k3x5fortran/np': '4f1347c55933a3acf3fe',
    'hot/neg/f4nan(12, 11)/k3x5fortran/np': '4f1347c55933a3acf3fe',
    'hot/f4nan(12, 11)/k3x5fortran/dask(12, 11)': '511976949c48ae0f857e',
    'hot/f4nan(12, 11)/k3x5fortran/dask(6, 6)': '70bf5c05b8dcc9d4cc6a',
    'hot/f4nan(12, 11)/k3x5fortran/dask(4, 11)': '8f0ec9dd245aad846a0f',
    'hot/f4nan(12, 11)/k3x5fortran/dask(4, 3)': 'de88ec1ba5872ef7e6af',
    'hot/f4nan(12, 11)/k5x5annulus/np': '4f1347c55933a3acf3fe',
    'hot/neg/f4nan(12, 11)/k5x5annulus/np': '4f1347c55933a3acf3fe',
    'hot/f4nan(12, 11)/k5x5annulus/dask(12, 11)': '511976949c48ae0f857e',
    'hot/f4nan(12, 11)/k5x5annulus/dask(6, 6)': '70bf5c05b8dcc9d4cc6a',
    'hot/f4nan(12, 11)/k5x5annulus/dask(4, 11)': '8f0ec9dd245aad846a0f',
    'hot/f4nan(12, 11)/k5x5annulus/dask(4, 3)': 'de88ec1ba5872ef7e6af',
    'hot/f4nan(12, 11)/k3x3nocentre/np': '4f1347c55933a3acf3fe',
    'hot/neg/f4nan(12, 11)/k3x3nocentre/np': '4f1347c55933a3acf3fe',
    'hot/f4nan(12, 11)/k3x3nocentre/dask(12, 11)': '511976949c48ae0f857e',
    'hot/f4nan(12, 11)/k3x3nocentre/dask(6, 6)': '70bf5c05b8dcc9d4cc6a',
    'hot/f4nan(12, 11)/k3x3nocentre/dask(4, 11)': '8f0ec9dd245aad846a0f',
    'hot/f4nan(12, 11)/k3x3nocentre/dask(4, 3)': 'de88ec1ba5872ef7e6af',
    'hot/allnan(4, 5)/k1x1/np': '0a2a70e1232962862b40',
    'hot/neg/allnan(4, 5)/k1x1/np': '0a2a70e1232962862b40',
    'hot/allnan(4, 5)/k1x1/dask(4, 5)': '781a64ce081d01d00576',
    'hot/allnan(4, 5)/k1x1/dask(2, 3)': '6902f63ec1a10a80bb54',
    'hot/allnan(4, 5)/k1x1/dask(1, 5)': '49b57a96905a67254e52',
    'hot/allnan(4, 5)/k1x1/dask(4, 3)': '07833cc9c9df484fdefa',
    'hot/allnan(4, 5)/k3x3full/np': '0a2a70e1232962862b40',
    'hot/neg/allnan(4, 5)/k3x3full/np': '0a2a70e1232962862b40',
    'hot/allnan(4, 5)/k3x3full/dask(4, 5)': '4915393735a12f27bf63',
    'hot/allnan(4, 5)/k3x3full/dask(2, 3)': '6c143f766e4730ffd0eb',
    'hot/allnan(4, 5)/k3x3full/dask(4, 3)': '10f390b733f74bedf303',
    'hot/allnan(4, 5)/k3x3cross/np': '0a2a70e1232962862b40',
    'hot/neg/allnan(4, 5)/k3x3cross/np': '0a2a70e1232962862b40',
    'hot/allnan(4, 5)/k3x3cross/dask(4, 5)': '4915393735a12f27bf63',
    'hot/allnan(4, 5)/k3x3cross/dask(2, 3)': '6c143f766e4730ffd0eb',
    'hot/allnan(4, 5)/k3x3cross/dask(4, 3)': '10f390b733f74bedf303',
    'hot/allnan(4, 5)/k1x3asym/np': '0a2a70e1232962862b40',
    'hot/neg/allnan(4, 5)/k1x3asym/np': '0a2a70e1232962862b40',
    'hot/allnan(4, 5)/k1x3asym/dask(4, 5)': '4915393735a12f27bf63',
    'hot/allnan(4, 5)/k1x3asym/dask(2, 3)': '6c143f766e4730ffd0eb',
    'hot/allnan(4, 5)/k1x3asym/dask(1, 5)': 'f5bd5057bc4ac05e45d0',
    'hot/allnan(4, 5)/k1x3asym/dask(4, 3)': '10f390b733f74bedf303',
    'hot/allnan(4, 5)/k3x1asym/np': '0a2a70e1232962862b40',
    'hot/neg/allnan(4, 5)/k3x1asym/np': '0a2a70e1232962862b40',
    'hot/allnan(4, 5)/k3x1asym/dask(4, 5)': '4915393735a12f27bf63',
    'hot/allnan(4, 5)/k3x1asym/dask(2, 3)': '6c143f766e4730ffd0eb',
    'hot/allnan(4, 5)/k3x1asym/dask(4, 3)': '10f390b733f74bedf303',
    'hot/allnan(4, 5)/k5x3rand/np': '0a2a70e1232962862b40',
    'hot/neg/allnan(4, 5)/k5x3rand/np': '0a2a70e1232962862b40',
    'hot/allnan(4, 5)/k5x3rand/dask(4, 5)': '4915393735a12f27bf63',
    'hot/allnan(4, 5)/k5x3rand/dask(4, 3)': '10f390b733f74bedf303',
    'hot/allnan(4, 5)/k3x5fortran/np': '0a2a70e1232962862b40',
    'hot/neg/allnan(4, 5)/k3x5fortran/np': '0a2a70e1232962862b40',
    'hot/allnan(4, 5)/k3x5fortran/dask(4, 5)': '4915393735a12f27bf63',
    'hot/allnan(4, 5)/k3x5fortran/dask(2, 3)': '6c143f766e4730ffd0eb',
    'hot/allnan(4, 5)/k3x5fortran/dask(4, 3)': '10f390b733f74bedf303',
    'hot/allnan(4, 5)/k5x5annulus/np': '0a2a70e1232962862b40',
    'hot/neg/allnan(4, 5)/k5x5annulus/np': '0a2a70e1232962862b40',
    'hot/allnan(4, 5)/k5x5annulus/dask(4, 5)': '4915393735a12f27bf63',
    'hot/allnan(4, 5)/k5x5annulus/dask(4, 3)': '10f390b733f74bedf303',
    'hot/allnan(4, 5)/k3x3nocentre/np': '0a2a70e1232962862b40',
    'hot/neg/allnan(4, 5)/k3x3nocentre/np': '0a2a70e1232962862b40',
    'hot/allnan(4, 5)/k3x3nocentre/dask(4, 5)': '4915393735a12f27bf63',
    'hot/allnan(4, 5)/k3x3nocentre/dask(2, 3)': '6c143f766e4730ffd0eb',
    'hot/allnan(4, 5)/k3x3nocentre/dask(4, 3)': '10f390b733f74bedf303',
    'hot/const(4, 5)/k1x1/np': 'EXC:ZeroDivisionError',
    'hot/neg/const(4, 5)/k1x1/np': 'EXC:ZeroDivisionError',
    'hot/const(4, 5)/k1x1/dask(4, 5)': '781a64ce081d01d00576',
    'hot/const(4, 5)/k1x1/dask(2, 3)': '6902f63ec1a10a80bb54',
    'hot/const(4, 5)/k1x1/dask(1, 5)': '49b57a96905a67254e52',
    'hot/const(4, 5)/k1x1/dask(4, 3)': '07833cc9c9df484fdefa',
    'hot/const(4, 5)/k3x3full/np': 'EXC:ZeroDivisionError',
    'hot/neg/const(4, 5)/k3x3full/np': 'EXC:ZeroDivisionError',
    'hot/const(4, 5)/k3x3full/dask(4, 5)': '4915393735a12f27bf63',
    'hot/const(4, 5)/k3x3full/dask(2, 3)': '6c143f766e4730ffd0eb',
    'hot/const(4, 5)/k3x3full/dask(4, 3)': '10f390b733f74bedf303',
    'hot/const(4, 5)/k3x3cross/np': 'EXC:ZeroDivisionError',
    'hot/neg/const(4, 5)/k3x3cross/np': 'EXC:ZeroDivisionError',
    'hot/const(4, 5)/k3x3cross/dask(4, 5)': '4915393735a12f27bf63',
    'hot/const(4, 5)/k3x3cross/dask(2, 3)': '6c143f766e4730ffd0eb',
    'hot/const(4, 5)/k3x3cross/dask(4, 3)': '10f390b733f74bedf303',
    'hot/const(4, 5)/k1x3asym/np': 'EXC:ZeroDivisionError',
    'hot/neg/const(4, 5)/k1x3asym/np': 'EXC:ZeroDivisionError',
    'hot/const(4, 5)/k1x3asym/dask(4, 5)': '4915393735a12f27bf63',
    'hot/const(4, 5)/k1x3asym/dask(2, 3)': '6c143f766e4730ffd0eb',
    'hot/const(4, 5)/k1x3asym/dask(1, 5)': 'f5bd5057bc4ac05e45d0',
    'hot/const(4, 5)/k1x3asym/dask(4, 3)': '10f390b733f74bedf303',
    'hot/const(4, 5)/k3x1asym/np': 'EXC:ZeroDivisionError',
    'hot/neg/const(4, 5)/k3x1asym/np': 'EXC:ZeroDivisionError',
    'hot/const(4, 5)/k3x1asym/dask(4, 5)': '4915393735a12f27bf63',
    'hot/const(4, 5)/k3x1asym/dask(2, 3)': '6c143f766e4730ffd0eb',
    'hot/const(4, 5)/k3x1asym/dask(4, 3)': '10f390b733f74bedf303',
    'hot/const(4, 5)/k5x3rand/np': 'EXC:ZeroDivisionError',
    'hot/neg/const(4, 5)/k5x3rand/np': 'EXC:ZeroDivisionError',
    'hot/const(4, 5)/k5x3rand/dask(4, 5)': '4915393735a12f27bf63',
    'hot/const(4, 5)/k5x3rand/dask(4, 3)': '10f390b733f74bedf303',
    'hot/const(4, 5)/k3x5fortran/np': 'EXC:ZeroDivisionError',
    'hot/neg/const(4, 5)/k3x5fortran/np': 'EXC:ZeroDivisionError',
    'hot/const(4, 5)/k3x5fortran/dask(4, 5)': '4915393735a12f27bf63',
    'hot/const(4, 5)/k3x5fortran/dask(2, 3)': '6c143f766e4730ffd0eb',
    'hot/const(4, 5)/k3x5fortran/dask(4, 3)': '10f390b733f74bedf303',
    'hot/const(4, 5)/k5x5annulus/np': 'EXC:ZeroDivisionError',
    'hot/neg/const(4, 5)/k5x5annulus/np': 'EXC:ZeroDivisionError',
    'hot/const(4, 5)/k5x5annulus/dask(4, 5)': '4915393735a12f27bf63',
    'hot/const(4, 5)/k5x5annulus/dask(4, 3)': '10f390b733f74bedf303',
    'hot/const(4, 5)/k3x3nocentre/np': 'EXC:ZeroDivisionError',
    'hot/neg/const(4, 5)/k3x3nocentre/np': 'EXC:ZeroDivisionError',
    'hot/const(4, 5)/k3x3nocentre/dask(4, 5)': '4915393735a12f27bf63',
    'hot/const(4, 5)/k3x3nocentre/dask(2, 3)': '6c143f766e4730ffd0eb',
    'hot/const(4, 5)/k3x3nocentre/dask(4, 3)': '10f390b733f74bedf303',
    'hot/cat(7, 8)/k1x1/np': 'eeef8c2c7ccc90d28b7b',
    'hot/neg/cat(7, 8)/k1x1/np': 'eeef8c2c7ccc90d28b7b',
    'hot/cat(7, 8)/k1x1/dask(7, 8)': '31a1137f346d0522006f',
    'hot/cat(7, 8)/k1x1/dask(4, 4)': 'b58df42bce743aaeb599',
    'hot/cat(7, 8)/k1x1/dask(2, 8)': '72408911ccb14cd1f0ea',
    'hot/cat(7, 8)/k1x1/dask(4, 3)': 'fc62dd9906222d84dd0d',
    'hot/cat(7, 8)/k3x3full/np': 'eeef8c2c7ccc90d28b7b',
    'hot/neg/cat(7, 8)/k3x3full/np': 'eeef8c2c7ccc90d28b7b',
    'hot/cat(7, 8)/k3x3full/dask(7, 8)': '30961f982a4db49cf5e5',
    'hot/cat(7, 8)/k3x3full/dask(4, 4)': '818a222f16760d9f0539',
    'hot/cat(7, 8)/k3x3full/dask(2, 8)': 'bb40ef93dbeaae44c4cf',
    'hot/cat(7, 8)/k3x3full/dask(4, 3)': 'd3cb5001b0f905eddbc0',
    'hot/cat(7, 8)/k3x3cross/np': 'eeef8c2c7ccc90d28b7b',
    'hot/neg/cat(7, 8)/k3x3cross/np': 'eeef8c2c7ccc90d28b7b',
    'hot/cat(7, 8)/k3x3cross/dask(7, 8)': '30961f982a4db49cf5e5',
    'hot/cat(7, 8)/k3x3cross/dask(4, 4)': '818a222f16760d9f0539',
    'hot/cat(7, 8)/k3x3cross/dask(2, 8)': 'bb40ef93dbeaae44c4cf',
    'hot/cat(7, 8)/k3x3cross/dask(4, 3)': 'd3cb5001b0f905eddbc0',
    'hot/cat(7, 8)/k1x3asym/np': 'eeef8c2c7ccc90d28b7b',
    'hot/neg/cat(7, 8)/k1x3asym/np': 'eeef8c2c7ccc90d28b7b',
    'hot/cat(7, 8)/k1x3asym/dask(7, 8)': '30961f982a4db49cf5e5',
    'hot/cat(7, 8)/k1x3asym/dask(4, 4)': '818a222f16760d9f0539',
    'hot/cat(7, 8)/k1x3asym/dask(2, 8)': 'bb40ef93dbeaae44c4cf',
    'hot/cat(7, 8)/k1x3asym/dask(4, 3)': 'd3cb5001b0f905eddbc0',
    'hot/cat(7, 8)/k3x1asym/np': 'eeef8c2c7ccc90d28b7b',
    'hot/neg/cat(7, 8)/k3x1asym/np': 'eeef8c2c7ccc90d28b7b',
    'hot/cat(7, 8)/k3x1asym/dask(7, 8)': '30961f982a4db49cf5e5',
    'hot/cat(7, 8)/k3x1asym/dask(4, 4)': '818a222f16760d9f0539',
    'hot/cat(7, 8)/k3x1asym/dask(2, 8)': 'bb40ef93dbeaae44c4cf',
    'hot/cat(7, 8)/k3x1asym/dask(4, 3)': 'd3cb5001b0f905eddbc0',
    'hot/cat(7, 8)/k5x3rand/np': 'eeef8c2c7ccc90d28b7b',
    'hot/neg/cat(7, 8)/k5x3rand/np': 'eeef8c2c7ccc90d28b7b',
    'hot/cat(7, 8)/k5x3rand/dask(7, 8)': '30961f982a4db49cf5e5',
    'hot/cat(7, 8)/k5x3rand/dask(4, 4)': '818a222f16760d9f0539',
    'hot/cat(7, 8)/k5x3rand/dask(4, 3)': 'd3cb5001b0f905eddbc0',
    'hot/cat(7, 8)/k3x5fortran/np': 'eeef8c2c7ccc90d28b7b',
    'hot/neg/cat(7, 8)/k3x5fortran/np': 'eeef8c2c7ccc90d28b7b',
    'hot/cat(7, 8)/k3x5fortran/dask(7, 8)': '30961f982a4db49cf5e5',
    'hot/cat(7, 8)/k3x5fortran/dask(4, 4)': '818a222f16760d9f0539',
    'hot/cat(7, 8)/k3x5fortran/dask(2, 8)': 'bb40ef93dbeaae44c4cf',
    'hot/cat(7, 8)/k3x5fortran/dask(4, 3)': 'd3cb5001b0f905eddbc0',
    'hot/cat(7, 8)/k5x5annulus/np': 'eeef8c2c7ccc90d28b7b',
    'hot/neg/cat(7, 8)/k5x5annulus/np': 'eeef8c2c7ccc90d28b7b',
    'hot/cat(7, 8)/k5x5annulus/dask(7, 8)': '30961f982a4db49cf5e5',
    'hot/cat(7, 8)/k5x5annulus/dask(4, 4)': '818a222f16760d9f0539',
    'hot/cat(7, 8)/k5x5annulus/dask(4, 3)': 'd3cb5001b0f905eddbc0',
    'hot/cat(7, 8)/k3x3nocentre/np': 'eeef8c2c7ccc90d28b7b',
    'hot/neg/cat(7, 8)/k3x3nocentre/np': 'eeef8c2c7ccc90d28b7b',
    'hot/cat(7, 8)/k3x3nocentre/dask(7, 8)': '30961f982a4db49cf5e5',
    'hot/cat(7, 8)/k3x3nocentre/dask(4, 4)': '818a222f16760d9f0539',
    'hot/cat(7, 8)/k3x3nocentre/dask(2, 8)': 'bb40ef93dbeaae44c4cf',
    'hot/cat(7, 8)/k3x3nocentre/dask(4, 3)': 'd3cb5001b0f905eddbc0',
    'hot/spike(10, 9)/k1x1/np': 'f89514830a003beccce3',
    'hot/neg/spike(10, 9)/k1x1/np': '072aa74fc3a958118591',
    'hot/spike(10, 9)/k1x1/dask(10, 9)': '19b45daab8298b2d76b7',
    'hot/spike(10, 9)/k1x1/dask(5, 5)': '0ccc93d3ad255496e389',
    'hot/spike(10, 9)/k1x1/dask(3, 9)': '09dd26b564220b5f8f6c',
    'hot/spike(10, 9)/k1x1/dask(4, 3)': 'a2440b291ab808d4ce93',
    'hot/spike(10, 9)/k3x3full/np': '5185bb8ec13cf7638509',
    'hot/neg/spike(10, 9)/k3x3full/np': 'b9ff4905c88ae7ec88d7',
    'hot/spike(10, 9)/k3x3full/dask(10, 9)': 'fb71d70ea793d3e8fe60',
    'hot/spike(10, 9)/k3x3full/dask(5, 5)': 'fa4019ad077d1438d33c',
    'hot/spike(10, 9)/k3x3full/dask(3, 9)': '9fc9e37371bb5b54e226',
    'hot/spike(10, 9)/k3x3full/dask(4, 3)': '9a32bed82a8173bf2b09',
    'hot/spike(10, 9)/k3x3cross/np': '5cdd21b1ea414b071de1',
    'hot/neg/spike(10, 9)/k3x3cross/np': '04db2e7855f3e5a008f2',
    'hot/spike(10, 9)/k3x3cross/dask(10, 9)': '87165c5f013da8cb3319',
    'hot/spike(10, 9)/k3x3cross/dask(5, 5)': '0be563cd5545616be855',
    'hot/spike(10, 9)/k3x3cross/dask(3, 9)': 'ff4c18f3665aaabcfa28',
    'hot/spike(10, 9)/k3x3cross/dask(4, 3)': '4bd3cfd6939136d0bf85',
    'hot/spike(10, 9)/k1x3asym/np': '1914be30e7aeffb06700',
    'hot/neg/spike(10, 9)/k1x3asym/np': 'c06de20e2cb48659c1c1',
    'hot/spike(10, 9)/k1x3asym/dask(10, 9)': '7c13d7ea348b3074a529',
    'hot/spike(10, 9)/k1x3asym/dask(5, 5)': 'e785f47ad7dcbfbceb55',
    'hot/spike(10, 9)/k1x3asym/dask(3, 9)': '056c7a63c558f025347f',
    'hot/spike(10, 9)/k1x3asym/dask(4, 3)': '9b453ad444df685ee134',
    'hot/spike(10, 9)/k3x1asym/np': 'fa8337932f816bd7d64d',
    'hot/neg/spike(10, 9)/k3x1asym/np': '0dc3dc868647b641da1a',
    'hot/spike(10, 9)/k3x1asym/dask(10, 9)': '8e653144ef080cbd98ca',
    'hot/spike(10, 9)/k3x1asym/dask(5, 5)': 'e3428c4c69f088e0161b',
    'hot/spike(10, 9)/k3x1asym/dask(3, 9)': 'e566f30c9fce85cdd0bb',
    'hot/spike(10, 9)/k3x1asym/dask(4, 3)': 'c6104058362f4bdf5561',
    'hot/spike(10, 9)/k5x3rand/np': '887885da97fa80fe9d62',
    'hot/neg/spike(10, 9)/k5x3rand/np': '887885da97fa80fe9d62',
    'hot/spike(10, 9)/k5x3rand/dask(10, 9)': 'd692b83cce08051e6d4f',
    'hot/spike(10, 9)/k5x3rand/dask(5, 5)': 'a09c2a0c3ded1e90aac4',
    'hot/spike(10, 9)/k5x3rand/dask(4, 3)': 'bbc4095e2c054f4f62bf',
    'hot/spike(10, 9)/k3x5fortran/np': '887885da97fa80fe9d62',
    'hot/neg/spike(10, 9)/k3x5fortran/np': '887885da97fa80fe9d62',
    'hot/spike(10, 9)/k3x5fortran/dask(10, 9)': 'd692b83cce08051e6d4f',
    'hot/spike(10, 9)/k3x5fortran/dask(5, 5)': 'a09c2a0c3ded1e90aac4',
    'hot/spike(10, 9)/k3x5fortran/dask(3, 9)': 'adcb9147993f88b526a4',
    'hot/spike(10, 9)/k3x5fortran/dask(4, 3)': 'bbc4095e2c054f4f62bf',
    'hot/spike(10, 9)/k5x5annulus/np': '887885da97fa80fe9d62',
    'hot/neg/spike(10, 9)/k5x5annulus/np': '887885da97fa80fe9d62',
    'hot/spike(10, 9)/k5x5annulus/dask(10, 9)': 'd692b83cce08051e6d4f',
    'hot/spike(10, 9)/k5x5annulus/dask(5, 5)': 'a09c2a0c3ded1e90aac4',
    'hot/spike(10, 9)/k5x5annulus/dask(4, 3)': 'bbc4095e2c054f4f62bf',
    'hot/spike(10, 9)/k3x3nocentre/np': '5185bb8ec13cf7638509',
    'hot/neg/spike(10, 9)/k3x3nocentre/np': 'b9ff4905c88ae7ec88d7',
    'hot/spike(10, 9)/k3x3nocentre/dask(10, 9)': 'fb71d70ea793d3e8fe60',
    'hot/spike(10, 9)/k3x3nocentre/dask(5, 5)': 'fa4019ad077d1438d33c',
    'hot/spike(10, 9)/k3x3nocentre/dask(3, 9)': '9fc9e37371bb5b54e226',
    'hot/spike(10, 9)/k3x3nocentre/dask(4, 3)': '9a32bed82a8173bf2b09',
    'hot/spikei(10, 9)/k1x1/np': 'f89514830a003beccce3',
    'hot/neg/spikei(10, 9)/k1x1/np': '072aa74fc3a958118591',
    'hot/spikei(10, 9)/k1x1/dask(10, 9)': '19b45daab8298b2d76b7',
    'hot/spikei(10, 9)/k1x1/dask(5, 5)': '0ccc93d3ad255496e389',
    'hot/spikei(10, 9)/k1x1/dask(3, 9)': '09dd26b564220b5f8f6c',
    'hot/spikei(10, 9)/k1x1/dask(4, 3)': 'a2440b291ab808d4ce93',
    'hot/spikei(10, 9)/k3x3full/np': '5185bb8ec13cf7638509',
    'hot/neg/spikei(10, 9)/k3x3full/np': 'b9ff4905c88ae7ec88d7',
    'hot/spikei(10, 9)/k3x3full/dask(10, 9)': 'fb71d70ea793d3e8fe60',
    'hot/spikei(10, 9)/k3x3full/dask(5, 5)': 'fa4019ad077d1438d33c',
    'hot/spikei(10, 9)/k3x3full/dask(3, 9)': '9fc9e37371bb5b54e226',
    'hot/spikei(10, 9)/k3x3full/dask(4, 3)': '9a32bed82a8173bf2b09',
    'hot/spikei(10, 9)/k3x3cross/np': '5cdd21b1ea414b071de1',
    'hot/neg/spikei(10, 9)/k3x3cross/np': '04db2e7855f3e5a008f2',
    'hot/spikei(10, 9)/k3x3cross/dask(10, 9)': '87165c5f013da8cb3319',
    'hot/spikei(10, 9)/k3x3cross/dask(5, 5)': '0be563cd5545616be855',
    'hot/spikei(10, 9)/k3x3cross/dask(3, 9)': 'ff4c18f3665aaabcfa28',
    'hot/spikei(10, 9)/k3x3cross/dask(4, 3)': '4bd3cfd6939136d0bf85',
    'hot/spikei(10, 9)/k1x3asym/np': '1914be30e7aeffb06700',
    'hot/neg/spikei(10, 9)/k1x3asym/np': 'c06de20e2cb48659c1c1',
    'hot/spikei(10, 9)/k1x3asym/dask(10, 9)': '7c13d7ea348b3074a529',
    'hot/spikei(10, 9)/k1x3asym/dask(5, 5)': 'e785f47ad7dcbfbceb55',
    'hot/spikei(10, 9)/k1x3asym/dask(3, 9)': '056c7a63c558f025347f',
    'hot/spikei(10, 9)/k1x3asym/dask(4, 3)': '9b453ad444df685ee134',
    'hot/spikei(10, 9)/k3x1asym/np': 'fa8337932f816bd7d64d',
    'hot/neg/spikei(10, 9)/k3x1asym/np': '0dc3dc868647b641da1a',
    'hot/spikei(10, 9)/k3x1asym/dask(10, 9)': '8e653144ef080cbd98ca',
    'hot/spikei(10, 9)/k3x1asym/dask(5, 5)': 'e3428c4c69f088e0161b',
    'hot/spikei(10, 9)/k3x1asym/dask(3, 9)': 'e566f30c9fce85cdd0bb',
    'hot/spikei(10, 9)/k3x1asym/dask(4, 3)': 'c6104058362f4bdf5561',
    'hot/spikei(10, 9)/k5x3rand/np': '887885da97fa80fe9d62',
    'hot/neg/spikei(10, 9)/k5x3rand/np': '887885da97fa80fe9d62',
    'hot/spikei(10, 9)/k5x3rand/dask(10, 9)': 'd692b83cce08051e6d4f',
    'hot/spikei(10, 9)/k5x3rand/dask(5, 5)': 'a09c2a0c3ded1e90aac4',
    'hot/spikei(10, 9)/k5x3rand/dask(4, 3)': 'bbc4095e2c054f4f62bf',
    'hot/spikei(10, 9)/k3x5fortran/np': '887885da97fa80fe9d62',
    'hot/neg/spikei(10, 9)/k3x5fortran/np': '887885da97fa80fe9d62',
    'hot/spikei(10, 9)/k3x5fortran/dask(10, 9)': 'd692b83cce08051e6d4f',
    'hot/spikei(10, 9)/k3x5fortran/dask(5, 5)': 'a09c2a0c3ded1e90aac4',
    'hot/spikei(10, 9)/k3x5fortran/dask(3, 9)': 'adcb9147993f88b526a4',
    'hot/spikei(10, 9)/k3x5fortran/dask(4, 3)': 'bbc4095e2c054f4f62bf',
    'hot/spikei(10, 9)/k5x5annulus/np': '887885da97fa80fe9d62',
    'hot/neg/spikei(10, 9)/k5x5annulus/np': '887885da97fa80fe9d62',
    'hot/spikei(10, 9)/k5x5annulus/dask(10, 9)': 'd692b83cce08051e6d4f',
    'hot/spikei(10, 9)/k5x5annulus/dask(5, 5)': 'a09c2a0c3ded1e90aac4',
    'hot/spikei(10, 9)/k5x5annulus/dask(4, 3)': 'bbc4095e2c054f4f62bf',
    'hot/spikei(10, 9)/k3x3nocentre/np': '5185bb8ec13cf7638509',
    'hot/neg/spikei(10, 9)/k3x3nocentre/np': 'b9ff4905c88ae7ec88d7',
    'hot/spikei(10, 9)/k3x3nocentre/dask(10, 9)': 'fb71d70ea793d3e8fe60',
    'hot/spikei(10, 9)/k3x3nocentre/dask(5, 5)': 'fa4019ad077d1438d33c',
    'hot/spikei(10, 9)/k3x3nocentre/dask(3, 9)': '9fc9e37371bb5b54e226',
    'hot/spikei(10, 9)/k3x3nocentre/dask(4, 3)': '9a32bed82a8173bf2b09',
    'hot/spikenan(10, 9)/k1x1/np': 'f89514830a003beccce3',
    'hot/neg/spikenan(10, 9)/k1x1/np': '072aa74fc3a958118591',
    'hot/spikenan(10, 9)/k1x1/dask(10, 9)': '19b45daab8298b2d76b7',
    'hot/spikenan(10, 9)/k1x1/dask(5, 5)': '0ccc93d3ad255496e389',
    'hot/spikenan(10, 9)/k1x1/dask(3, 9)': '09dd26b564220b5f8f6c',
    'hot/spikenan(10, 9)/k1x1/dask(4, 3)': 'a2440b291ab808d4ce93',
    'hot/spikenan(10, 9)/k3x3full/np': '5185bb8ec13cf7638509',
    'hot/neg/spikenan(10, 9)/k3x3full/np': 'b9ff4905c88ae7ec88d7',
    'hot/spikenan(10, 9)/k3x3full/dask(10, 9)': 'fb71d70ea793d3e8fe60',
    'hot/spikenan(10, 9)/k3x3full/dask(5, 5)': 'fa4019ad077d1438d33c',
    'hot/spikenan(10, 9)/k3x3full/dask(3, 9)': '9fc9e37371bb5b54e226',
    'hot/spikenan(10, 9)/k3x3full/dask(4, 3)': '9a32bed82a8173bf2b09',
    'hot/spikenan(10, 9)/k3x3cross/np': '5cdd21b1ea414b071de1',
    'hot/neg/spikenan(10, 9)/k3x3cross/np': '04db2e7855f3e5a008f2',
    'hot/spikenan(10, 9)/k3x3cross/dask(10, 9)': '87165c5f013da8cb3319',
    'hot/spikenan(10, 9)/k3x3cross/dask(5, 5)': '0be563cd5545616be855',
    'hot/spikenan(10, 9)/k3x3cross/dask(3, 9)': 'ff4c18f3665aaabcfa28',
    'hot/spikenan(10, 9)/k3x3cross/dask(4, 3)': '4bd3cfd6939136d0bf85',
    'hot/spikenan(10, 9)/k1x3asym/np': '1914be30e7aeffb06700',
    'hot/neg/spikenan(10, 9)/k1x3asym/np': 'c06de20e2cb48659c1c1',
    'hot/spikenan(10, 9)/k1x3asym/dask(10, 9)': '7c13d7ea348b3074a529',
    'hot/spikenan(10, 9)/k1x3asym/dask(5, 5)': 'e785f47ad7dcbfbceb55',
    'hot/spikenan(10, 9)/k1x3asym/dask(3, 9)': '056c7a63c558f025347f',
    'hot/spikenan(10, 9)/k1x3asym/dask(4, 3)': '9b453ad444df685ee134',
    'hot/spikenan(10, 9)/k3x1asym/np': 'fa8337932f816bd7d64d',
    'hot/neg/spikenan(10, 9)/k3x1asym/np': '0dc3dc868647b641da1a',
    'hot/spikenan(10, 9)/k3x1asym/dask(10, 9)': '8e653144ef080cbd98ca',
    'hot/spikenan(10, 9)/k3x1asym/dask(5, 5)': 'e3428c4c69f088e0161b',
    'hot/spikenan(10, 9)/k3x1asym/dask(3, 9)': 'e566f30c9fce85cdd0bb',
    'hot/spikenan(10, 9)/k3x1asym/dask(4, 3)': 'c6104058362f4bdf5561',
    'hot/spikenan(10, 9)/k5x3rand/np': '887885da97fa80fe9d62',
    'hot/neg/spikenan(10, 9)/k5x3rand/np': '887885da97fa80fe9d62',
    'hot/spikenan(10, 9)/k5x3rand/dask(10, 9)': 'd692b83cce08051e6d4f',
    'hot/spikenan(10, 9)/k5x3rand/dask(5, 5)': 'a09c2a0c3ded1e90aac4',
    'hot/spikenan(10, 9)/k5x3rand/dask(4, 3)': 'bbc4095e2c054f4f62bf',
    'hot/spikenan(10, 9)/k3x5fortran/np': '887885da97fa80fe9d62',
    'hot/neg/spikenan(10, 9)/k3x5fortran/np': '887885da97fa80fe9d62',
    'hot/spikenan(10, 9)/k3x5fortran/dask(10, 9)': 'd692b83cce08051e6d4f',
    'hot/spikenan(10, 9)/k3x5fortran/dask(5, 5)': 'a09c2a0c3ded1e90aac4',
    'hot/spikenan(10, 9)/k3x5fortran/dask(3, 9)': 'adcb9147993f88b526a4',
    'hot/spikenan(10, 9)/k3x5fortran/dask(4, 3)': 'bbc4095e2c054f4f62bf',
    'hot/spikenan(10, 9)/k5x5annulus/np': '887885da97fa80fe9d62',
    'hot/neg/spikenan(10, 9)/k5x5annulus/np': '887885da97fa80fe9d62',
    'hot/spikenan(10, 9)/k5x5annulus/dask(10, 9)': 'd692b83cce08051e6d4f',
    'hot/spikenan(10, 9)/k5x5annulus/dask(5, 5)': 'a09c2a0c3ded1e90aac4',
    'hot/spikenan(10, 9)/k5x5annulus/dask(4, 3)': 'bbc4095e2c054f4f62bf',
    'hot/spikenan(10, 9)/k3x3nocentre/np': '5185bb8ec13cf7638509',
    'hot/neg/spikenan(10, 9)/k3x3nocentre/np': 'b9ff4905c88ae7ec88d7',
    'hot/spikenan(10, 9)/k3x3nocentre/dask(10, 9)': 'fb71d70ea793d3e8fe60',
    'hot/spikenan(10, 9)/k3x3nocentre/dask(5, 5)': 'fa4019ad077d1438d33c',
    'hot/spikenan(10, 9)/k3x3nocentre/dask(3, 9)': '9fc9e37371bb5b54e226',
    'hot/spikenan(10, 9)/k3x3nocentre/dask(4, 3)': '9a32bed82a8173bf2b09',
    'hot/zkernel/float32': 'fb784e346563fa3e3f42',
    'hot/zkernel/T/float32': '1461bd53ad08f142c22d',
    'hot/zkernel/float64': '8f6051c987b4a85dc38e',
    'hot/zkernel/T/float64': '5a80b2bd680ac2c15418',
    'hot/err/notda': 'EXC:TypeError',
    'hot/err/3d': 'EXC:ValueError',
    'hot/err/const': 'EXC:ZeroDivisionError',
    'hot/err/bool': 'EXC:ValueError',
    'hot/err/bool/dask': '6c60cd12521d1ba8f164',
    'hot/err/complex': 'EXC:ValueError',
    'hot/err/listkernel': 'EXC:AttributeError',
    'hot/err/listkernel/bool': 'EXC:ValueError',
    'hot/err/listkernel/dask': 'EXC:AttributeError',
    'hot/zerokernel': '887885da97fa80fe9d62',
    'hot/evenkernel': 'e7a757b0ebaea9493a13',
    'hot/evenkernel/dask': 'c2fae0497de4bf0e6f25',
}


# --------------------------------------------------------------------------
# inputs
# --------------------------------------------------------------------------
def rasters():
    rng = np.random.RandomState(90210)
    out = {}
    for shape in [(1, 1), (1, 7), (5, 1), (6, 7), (9, 4), (12, 11)]:
        n = shape[0] * shape[1]
        base = rng.uniform(-50, 50, size=shape)
        out['f8%s' % (shape,)] = base.astype(np.float64)
        out['f4%s' % (shape,)] = (base * 3).astype(np.float32)
        out['i4%s' % (shape,)] = rng.randint(-9, 10, size=shape).astype(np.int32)
        out['i8%s' % (shape,)] = rng.randint(0, 1000, size=shape).astype(np.int64)
        out['u1%s' % (shape,)] = rng.randint(0, 4, size=shape).astype(np.uint8)
        nan = base.copy()
        nan.flat[rng.choice(n, size=max(1, n // 4), replace=False)] = np.nan
        out['f8nan%s' % (shape,)] = nan
        nan4 = nan.astype(np.float32)
        nan4.flat[rng.choice(n, size=max(1, n // 3), replace=False)] = np.nan
        out['f4nan%s' % (shape,)] = nan4
    out['allnan(4, 5)'] = np.full((4, 5), np.nan)
    out['const(4, 5)'] = np.full((4, 5), 3.0)
    small = rng.randint(0, 3, size=(7, 8)).astype(np.float64)
    small[2, 3] = np.nan
    small[0, 0] = np.nan
    out['cat(7, 8)'] = small
    spike = np.zeros((10, 9))
    spike[2:4, 2:4] = 1000.
    spike[6:8, 5:8] = -1000.
    spike[9, 0] = 400.
    out['spike(10, 9)'] = spike
    spikei = spike.astype(np.int64)
    out['spikei(10, 9)'] = spikei
    spiken = spike.copy()
    spiken[0, 5] = np.nan
    out['spikenan(10, 9)'] = spiken
    return out


def kernels01():
    rng = np.random.RandomState(7)
    ks = {
        'k1x1': np.array([[1.]]),
        'k3x3full': np.ones((3, 3)),
        'k3x3cross': np.array([[0, 1, 0], [1, 1, 1], [0, 1, 0]], dtype=np.float64),
        'k1x3asym': np.array([[1, 1, 0]]),
        'k3x1asym': np.array([[0], [1], [1]], dtype=np.int32),
        'k3x3corner': np.array([[1, 0, 0], [0, 0, 0], [0, 0, 1]], dtype=np.float32),
        'k5x3rand': (rng.uniform(size=(5, 3)) < .5).astype(np.float64),
        'k3x5rand': (rng.uniform(size=(3, 5)) < .6).astype(np.int64),
        'k7x7circle': circle_kernel(1, 1, 3),
        'k5x5annulus': annulus_kernel(1, 1, 2, 1),
        'k3x5fortran': np.asfortranarray((rng.uniform(size=(3, 5)) < .6).astype(np.float64)),
        'k3x3nocentre': np.array([[1, 1, 1], [1, 0, 1], [1, 1, 1]], dtype=np.float64),
    }
    ks['k5x3rand'][0, 0] = 1
    return ks


def weighted_kernels():
    rng = np.random.RandomState(11)
    return {
        'w3x3': rng.uniform(-2, 2, size=(3, 3)),
        'w1x3': np.array([[.25, .5, -1.]]),
        'w5x3': rng.uniform(-1, 1, size=(5, 3)).astype(np.float32),
        'w3x5i': rng.randint(-3, 4, size=(3, 5)),
        'w1x1': np.array([[2.5]]),
        'w7x7': rng.uniform(size=(7, 7)),
    }


def chunkings(shape):
    r, c = shape
    cands = [(r, c), (max(1, (r + 1) // 2), max(1, (c + 1) // 2)), (max(1, r // 3), c), (4, 3)]
    seen = []
    for ch in cands:
        ch = (min(ch[0], r), min(ch[1], c))
        if ch not in seen:
            seen.append(ch)
    return seen


def as_agg(arr, chunks=None):
    data = arr if chunks is None else da.from_array(arr, chunks=chunks)
    h, w = arr.shape
    return xr.DataArray(data, dims=['y', 'x'], name='ras',
                        coords={'y': np.arange(h)[::-1] * 2., 'x': np.arange(w) * 3.},
                        attrs={'res': (3., 2.), 'unit': 'km', 'foo': [1, 2]})


# --------------------------------------------------------------------------
# hashing
# --------------------------------------------------------------------------
def digest(res):
    h = hashlib.sha256()
    if isinstance(res, xr.DataArray):
        kind = 'dask' if isinstance(res.data, da.Array) else type(res.data).__name__
        name = str(res.name)
        if isinstance(res.data, da.Array) and name == res.data.name:
            # unnamed result: xarray adopts the dask key "<funcname>-<token>"; the token is
            # not stable across processes, keep the function-name prefix only
            name = 'DASKNAME:' + name.rsplit('-', 1)[0]
        meta = [kind, name, tuple(res.dims), sorted(res.attrs.items(), key=str),
                [(k, np.asarray(v).tolist()) for k, v in sorted(res.coords.items())]]
        if isinstance(res.data, da.Array):
            meta.append(res.data.chunks)
        h.update(repr(meta).encode())
        arr = np.asarray(res.compute().data if isinstance(res.data, da.Array) else res.data)
    else:
        kind = 'dask' if isinstance(res, da.Array) else type(res).__name__
        h.update(kind.encode())
        arr = np.asarray(res.compute() if isinstance(res, da.Array) else res)
    if arr.dtype.kind == 'f':
        arr = np.where(np.isnan(arr), np.array(np.nan, dtype=arr.dtype), arr).astype(arr.dtype)
    h.update(repr((arr.dtype.str, arr.shape)).encode())
    h.update(np.ascontiguousarray(arr).tobytes())
    return h.hexdigest()[:20], arr


RESULTS = {}
FAIL = []


def run(key, fn, ref=None, rtol=2e-4, atol=1e-3):
    try:
        res = fn()
        d, arr = digest(res)
    except Exception as e:  # noqa
        d, arr = 'EXC:' + type(e).__name__, None
    RESULTS[key] = d
    if os.environ.get('RECORD'):
        return arr
    if key not in EXPECTED:
        FAIL.append('%s: no recorded digest' % key)
    elif EXPECTED[key] != d:
        FAIL.append('%s: digest %s != recorded %s' % (key, d, EXPECTED[key]))
    if ref is not None and arr is not None:
        want = ref()
        if want.shape != arr.shape or not np.allclose(arr, want, rtol=rtol, atol=atol,
                                                      equal_nan=True):
            FAIL.append('%s: differs from independent reference' % key)
    return arr


# --------------------------------------------------------------------------
# independent references (pure numpy, float64)
# --------------------------------------------------------------------------
def window_cells(a, kernel, y, x):
    """values of `a` under the non-zero kernel entries centred on (y, x), clipped"""
    kr, kc = kernel.shape
    vals = []
    pos = []
    for i in range(kr):
        for j in range(kc):
            yy, xx = y + i - kr // 2, x + j - kc // 2
            if 0 <= yy < a.shape[0] and 0 <= xx < a.shape[1] and kernel[i, j] == 1:
                vals.append(a[yy, xx])
                pos.append((i, j))
    return np.array(vals, dtype=np.float64), pos


def ref_stat(a, kernel, stat):
    a = a.astype(np.float32).astype(np.float64)
    out = np.full(a.shape, np.nan)
    for y in range(a.shape[0]):
        for x in range(a.shape[1]):
            v, _ = window_cells(a, kernel, y, x)
            v = v[~np.isnan(v)]
            if stat == 'sum':
                out[y, x] = v.sum()
            elif stat == 'count':
                out[y, x] = len(v)
            elif len(v) == 0:
                out[y, x] = np.nan
            elif stat == 'mean':
                out[y, x] = v.mean()
            elif stat == 'min':
                out[y, x] = v.min()
            elif stat == 'max':
                out[y, x] = v.max()
            elif stat == 'range':
                out[y, x] = v.max() - v.min()
            elif stat == 'std':
                out[y, x] = v.std()
            elif stat == 'var':
                out[y, x] = v.var()
    return out


def ref_poswsum(a, kernel):
    a = a.astype(np.float32).astype(np.float64)
    out = np.zeros(a.shape)
    kc = kernel.shape[1]
    for y in range(a.shape[0]):
        for x in range(a.shape[1]):
            v, pos = window_cells(a, kernel, y, x)
            s = 0.
            for val, (i, j) in zip(v, pos):
                if not np.isnan(val):
                    s += val * (1 + i * kc + j)
            out[y, x] = s
    return out


def ref_mean(a, passes, excludes):
    out = a.astype(np.float64)
    for _ in range(passes):
        new = out.copy()
        for y in range(out.shape[0]):
            for x in range(out.shape[1]):
                v = out[y, x]
                if any((v == e) or (np.isnan(v) and np.isnan(e)) for e in excludes):
                    continue
                w = out[max(y - 1, 0):y + 2, max(x - 1, 0):x + 2]
                w = w[~np.isnan(w)]
                new[y, x] = w.mean() if len(w) else np.nan
        out = new
    return out


def ref_conv(a, kernel):
    a = a.astype(np.float32).astype(np.float64)
    kr, kc = kernel.shape
    hr, hc = kr // 2, kc // 2
    out = np.full(a.shape, np.nan)
    for y in range(hr, a.shape[0] - hr):
        for x in range(hc, a.shape[1] - hc):
            out[y, x] = (a[y - hr:y + hr + 1, x - hc:x + hc + 1] * kernel).sum()
    return out


def check_hotspots(key, a, kernel, got):
    """allowed values, sign/threshold against an independent z-score, antisymmetry is
    checked by the caller"""
    if got is None:
        return
    if not set(np.unique(got).tolist()) <= {0, 90, 95, 99, -90, -95, -99}:
        FAIL.append('%s: illegal hotspot value' % key)
    a32 = a.astype(np.float32).astype(np.float64)
    z = (ref_conv(a, kernel / kernel.sum()) - np.nanmean(a32)) / np.nanstd(a32)
    want = np.zeros(a.shape, dtype=np.int64)
    az = np.abs(z)
    want[az > 1.65] = 90
    want[az > 1.96] = 95
    want[az > 2.58] = 99
    want = want * np.where(z > 0, 1, np.where(z < 0, -1, 0))
    near = np.zeros(a.shape, dtype=bool)
    for t in (1.65, 1.96, 2.58):
        near |= np.abs(az - t) < 1e-3
    if not np.array_equal(np.where(near, 0, got), np.where(near, 0, want)):
        FAIL.append('%s: differs from independent hotspot reference' % key)


# --------------------------------------------------------------------------
# user reducers
# --------------------------------------------------------------------------
@ngjit
def red_count(w):
    n = 0
    for i in range(w.shape[0]):
        for j in range(w.shape[1]):
            if not np.isnan(w[i, j]):
                n += 1
    return n


@ngjit
def red_poswsum(w):
    # depends on WHERE in the window every value sits
    s = 0.0
    for i in range(w.shape[0]):
        for j in range(w.shape[1]):
            if not np.isnan(w[i, j]):
                s += w[i, j] * (1 + i * w.shape[1] + j)
    return s


@ngjit
def red_flatsum(w):
    # order-sensitive float32 accumulation over the flattened window
    s = np.float32(0)
    for v in w.ravel():
        if not np.isnan(v):
            s = np.float32(s * np.float32(1.0001) + v)
    return s


# --------------------------------------------------------------------------
# sections
# --------------------------------------------------------------------------
def section_apply():
    R, K = rasters(), kernels01()
    stats = {'mean': focal._calc_mean, 'max': focal._calc_max, 'min': focal._calc_min,
             'range': focal._calc_range, 'std': focal._calc_std, 'var': focal._calc_var,
             'sum': focal._calc_sum}
    for rname, a in R.items():
        for kname, k in K.items():
            big = k.shape[0] // 2 >= a.shape[0] or k.shape[1] // 2 >= a.shape[1]
            run('apply/default/%s/%s/np' % (rname, kname),
                lambda: focal.apply(as_agg(a), k),
                lambda: ref_stat(a, k, 'mean'))
            if rname.startswith(('i8', 'u1', 'f8(', 'spikei')):
                continue
            run('apply/poswsum/%s/%s/np' % (rname, kname),
                lambda: focal.apply(as_agg(a), k, red_poswsum, name='pw'),
                lambda: ref_poswsum(a, k), rtol=1e-3, atol=.5)
            run('apply/flatsum/%s/%s/np' % (rname, kname),
                lambda: focal.apply(as_agg(a), k, red_flatsum))
            run('apply/count/%s/%s/np' % (rname, kname),
                lambda: focal.apply(as_agg(a), k, func=red_count),
                lambda: ref_stat(a, k, 'count'))
            if rname.startswith(('f4nan', 'i4', 'cat', 'allnan')):
                for sname, f in stats.items():
                    run('apply/%s/%s/%s/np' % (sname, rname, kname),
                        lambda: focal.apply(as_agg(a), k, f),
                        lambda: ref_stat(a, k, sname), atol=.05 if sname == 'var' else 1e-2)
            if big:
                continue
            for ch in chunkings(a.shape):
                if ch[0] < k.shape[0] // 2 or ch[1] < k.shape[1] // 2:
                    continue
                if a.shape[0] % ch[0] and a.shape[0] % ch[0] < k.shape[0] // 2:
                    continue
                if a.shape[1] % ch[1] and a.shape[1] % ch[1] < k.shape[1] // 2:
                    continue
                run('apply/default/%s/%s/dask%s' % (rname, kname, ch),
                    lambda: focal.apply(as_agg(a, ch), k),
                    lambda: ref_stat(a, k, 'mean'))
                run('apply/poswsum/%s/%s/dask%s' % (rname, kname, ch),
                    lambda: focal.apply(as_agg(a, ch), k, red_poswsum),
                    lambda: ref_poswsum(a, k), rtol=1e-3, atol=.5)
    a = R['f8(6, 7)']
    k = K['k3x3cross']
    run('apply/err/notda', lambda: focal.apply(a, k))
    run('apply/err/3d', lambda: focal.apply(xr.DataArray(np.zeros((2, 3, 3))), k))
    run('apply/err/evenkernel', lambda: focal.apply(as_agg(a), np.ones((2, 3))))
    run('apply/err/listkernel', lambda: focal.apply(as_agg(a), [[1]]))
    run('apply/err/kernel1d', lambda: focal.apply(as_agg(a), np.ones(3)))
    run('apply/kernel2', lambda: focal.apply(as_agg(a), np.full((3, 3), 2.)))
    run('apply/kernelweights', lambda: focal.apply(as_agg(a), np.array([[.5, 1., 1.]])))


def section_focal_stats():
    R, K = rasters(), kernels01()
    allstats = ['mean', 'max', 'min', 'range', 'std', 'var', 'sum']
    for rname, a in R.items():
        for kname in ['k1x1', 'k3x3cross', 'k1x3asym', 'k5x3rand', 'k3x5fortran', 'k7x7circle']:
            k = K[kname]
            if rname.startswith(('i8', 'f8(', 'f4(')) and kname in ('k1x1', 'k7x7circle'):
                continue

            def ref():
                return np.stack([ref_stat(a, k, s) for s in allstats])
            run('fstats/all/%s/%s/np' % (rname, kname),
                lambda: focal.focal_stats(as_agg(a), k), ref, atol=.05)
            run('fstats/sub/%s/%s/np' % (rname, kname),
                lambda: focal.focal_stats(as_agg(a), k, stats_funcs=['sum', 'min', 'sum']),
                lambda: np.stack([ref_stat(a, k, s) for s in ['sum', 'min', 'sum']]))
            if k.shape[0] // 2 >= a.shape[0] or k.shape[1] // 2 >= a.shape[1]:
                continue
            ch = chunkings(a.shape)[-1]
            if ch[0] <= k.shape[0] // 2 or ch[1] <= k.shape[1] // 2:
                ch = a.shape
            run('fstats/all/%s/%s/dask%s' % (rname, kname, ch),
                lambda: focal.focal_stats(as_agg(a, ch), k), ref, atol=.05)
    a = R['f8nan(6, 7)']
    k = K['k3x3cross']
    run('fstats/err/unknown', lambda: focal.focal_stats(as_agg(a), k, ['sum', 'median']))
    run('fstats/err/notda', lambda: focal.focal_stats(a, k))
    run('fstats/err/3d', lambda: focal.focal_stats(xr.DataArray(np.zeros((2, 3, 3))), k))
    run('fstats/err/even', lambda: focal.focal_stats(as_agg(a), np.ones((3, 4))))
    run('fstats/err/empty', lambda: focal.focal_stats(as_agg(a), k, []))
    run('fstats/tuple', lambda: focal.focal_stats(as_agg(a), k, ('var',)))


def section_mean():
    R = rasters()
    exs = {'nan': [np.nan], 'zero': [0], 'nan2': [np.nan, 2.0], 'tup1': (1.,),
           'three': [0., 1., np.nan], 'big': [1e9]}
    for rname, a in R.items():
        for ename, ex in exs.items():
            for passes in (0, 1, 2, 5):
                run('mean/%s/%s/p%d/np' % (rname, ename, passes),
                    lambda: focal.mean(as_agg(a), passes=passes, excludes=ex),
                    lambda: ref_mean(a, passes, ex), rtol=1e-9, atol=1e-9)
                if passes in (1, 2) and ename in ('nan', 'nan2', 'zero'):
                    for ch in chunkings(a.shape):
                        if a.shape[0] % ch[0] and a.shape[0] % ch[0] < 1:
                            continue
                        run('mean/%s/%s/p%d/dask%s' % (rname, ename, passes, ch),
                            lambda: focal.mean(as_agg(a, ch), passes=passes, excludes=ex,
                                               name='m'),
                            lambda: ref_mean(a, passes, ex), rtol=1e-9, atol=1e-9)
        run('mean/%s/defaults' % rname, lambda: focal.mean(as_agg(a)),
            lambda: ref_mean(a, 1, [np.nan]), rtol=1e-9, atol=1e-9)
        run('mean/%s/toplevel' % rname, lambda: xrspatial.mean(as_agg(a), 3),
            lambda: ref_mean(a, 3, [np.nan]), rtol=1e-9, atol=1e-9)
    a = R['cat(7, 8)']
    run('mean/err/negpasses', lambda: focal.mean(as_agg(a), passes=-1))
    run('mean/err/floatpasses', lambda: focal.mean(as_agg(a), passes=1.5))
    run('mean/err/noexcl', lambda: focal.mean(as_agg(a), excludes=None))
    run('mean/err/noexcl0', lambda: focal.mean(as_agg(a), passes=0, excludes=None))
    run('mean/err/ndarray', lambda: focal.mean(a))


def section_convolution():
    R, W, K = rasters(), weighted_kernels(), kernels01()
    kk = dict(W)
    kk.update({n: K[n] for n in ('k3x3cross', 'k1x3asym', 'k3x5fortran', 'k5x3rand')})
    for rname, a in R.items():
        for kname, k in kk.items():
            run('conv/%s/%s/np' % (rname, kname), lambda: convolution_2d(as_agg(a), k),
                lambda: ref_conv(a, k), rtol=1e-3, atol=.5)
            run('conv2/%s/%s/np' % (rname, kname), lambda: convolve_2d(a, k))
            if k.shape[0] // 2 >= a.shape[0] or k.shape[1] // 2 >= a.shape[1]:
                continue
            for ch in chunkings(a.shape):
                if ch[0] <= k.shape[0] // 2 or ch[1] <= k.shape[1] // 2:
                    continue
                if a.shape[0] % ch[0] and a.shape[0] % ch[0] < k.shape[0] // 2:
                    continue
                if a.shape[1] % ch[1] and a.shape[1] % ch[1] < k.shape[1] // 2:
                    continue
                run('conv/%s/%s/dask%s' % (rname, kname, ch),
                    lambda: convolution_2d(as_agg(a, ch), k, name='c'),
                    lambda: ref_conv(a, k), rtol=1e-3, atol=.5)
    run('customkernel/even', lambda: custom_kernel(np.ones((2, 2))))
    run('customkernel/list', lambda: custom_kernel([[1]]))


def section_hotspots():
    R, K = rasters(), kernels01()
    for rname, a in R.items():
        for kname in ['k1x1', 'k3x3full', 'k3x3cross', 'k1x3asym', 'k3x1asym', 'k5x3rand',
                      'k3x5fortran', 'k5x5annulus', 'k3x3nocentre']:
            k = K[kname]
            key = 'hot/%s/%s/np' % (rname, kname)
            got = run(key, lambda: focal.hotspots(as_agg(a), k))
            if got is not None:
                check_hotspots(key, a, k, got)
            if a.dtype.kind != 'u':
                neg = run('hot/neg/%s/%s/np' % (rname, kname),
                          lambda: focal.hotspots(as_agg(-a), k))
                if got is not None and neg is not None and not np.array_equal(neg, -got):
                    FAIL.append(key + ': hotspots(-x) != -hotspots(x)')
            if k.shape[0] // 2 >= a.shape[0] or k.shape[1] // 2 >= a.shape[1]:
                continue
            for ch in chunkings(a.shape):
                if ch[0] <= k.shape[0] // 2 or ch[1] <= k.shape[1] // 2:
                    continue
                if a.shape[0] % ch[0] and a.shape[0] % ch[0] < k.shape[0] // 2:
                    continue
                if a.shape[1] % ch[1] and a.shape[1] % ch[1] < k.shape[1] // 2:
                    continue
                key = 'hot/%s/%s/dask%s' % (rname, kname, ch)
                got = run(key, lambda: focal.hotspots(as_agg(a, ch), k))
                if got is not None and not rname.startswith(('const', 'allnan', 'f8(1, 1)',
                                                             'f4(1, 1)', 'i', 'u')):
                    check_hotspots(key, a, k, got)
    a = R['spike(10, 9)']
    k = K['k3x3cross']
    # z-scores placed exactly around the thresholds through the internal kernel
    z = np.array([[-3, -2.59, -2.58, -2.57, -1.97, -1.96, -1.95, -1.66, -1.65, -1.64, -1, -0.0,
                   0, 1, 1.64, 1.65, 1.66, 1.95, 1.96, 1.97, 2.57, 2.58, 2.59, 3, np.nan,
                   np.inf, -np.inf, 2.33, -2.33, 1.29]])
    for dt in (np.float32, np.float64):
        run('hot/zkernel/%s' % np.dtype(dt).name,
            lambda: focal._calc_hotspots_numpy(z.astype(dt)))
        run('hot/zkernel/T/%s' % np.dtype(dt).name,
            lambda: focal._calc_hotspots_numpy(np.ascontiguousarray(z.astype(dt).T)))
    run('hot/err/notda', lambda: focal.hotspots(a, k))
    run('hot/err/3d', lambda: focal.hotspots(xr.DataArray(np.zeros((2, 3, 3))), k))
    run('hot/err/const', lambda: focal.hotspots(as_agg(R['const(4, 5)']), k))
    run('hot/err/bool', lambda: focal.hotspots(as_agg(a > 0), k))
    run('hot/err/bool/dask', lambda: focal.hotspots(as_agg(a > 0, (5, 5)), k))
    run('hot/err/complex', lambda: focal.hotspots(as_agg(a.astype(complex)), k))
    run('hot/err/listkernel', lambda: focal.hotspots(as_agg(a), [[1, 1, 1]]))
    run('hot/err/listkernel/bool', lambda: focal.hotspots(as_agg(a > 0), [[1, 1, 1]]))
    run('hot/err/listkernel/dask', lambda: focal.hotspots(as_agg(a, (5, 5)), [[1, 1, 1]]))
    run('hot/zerokernel', lambda: focal.hotspots(as_agg(a), np.zeros((3, 3))))
    run('hot/evenkernel', lambda: focal.hotspots(as_agg(a), np.ones((2, 2))))
    run('hot/evenkernel/dask', lambda: focal.hotspots(as_agg(a, (5, 5)), np.ones((2, 2))))


def main():
    here = os.path.realpath(os.getcwd())
    if not os.path.realpath(xrspatial.__file__).startswith(here + os.sep):
        print('xrspatial imported from %s, not from cwd %s' % (xrspatial.__file__, here))
        return 2
    for s in SECTIONS:
        globals()['section_' + s]()
    if os.environ.get('RECORD'):
        print('EXPECTED = {')
        for k in RESULTS:
            print('    %r: %r,' % (k, RESULTS[k]))
        print('}')
        return 0
    missing = [k for k in EXPECTED if k not in RESULTS]
    for k in missing:
        FAIL.append('%s: case did not run' % k)
    if FAIL:
        print('%d FAILURES (of %d cases)' % (len(FAIL), len(RESULTS)))
        for f in FAIL[:40]:
            print('  ' + f)
        return 1
    print('OK: %d cases identical to the recorded results of the unmodified tree' % len(RESULTS))
    return 0


if __name__ == '__main__':
    sys.exit(main())
