"""Differential test for C17 local operators (xrspatial.local).

Expected values are computed by an independent per-cell reference written
with plain Python / NumPy; results must match bit-for-bit (values, NaN
positions, dtype, and the combine key in attrs). Exit 0 when identical.
"""
import itertools
import math
import sys
import warnings

import numpy as np
import xarray as xr

try:
    import dask.array as da
except Exception:  # pragma: no cover
    da = None

import xrspatial
from xrspatial import local as L

FAIL = []
warnings.simplefilter('ignore')


def same(got, exp, label):
    got = np.asarray(got)
    exp = np.asarray(exp)
    if got.dtype != exp.dtype or got.shape != exp.shape:
        FAIL.append(f'{label}: dtype/shape {got.dtype}{got.shape} != {exp.dtype}{exp.shape}')
        return
    if got.dtype.kind == 'f':
        ok = got.tobytes() == exp.tobytes() or (
            np.array_equal(np.isnan(got), np.isnan(exp))
            and np.array_equal(got[~np.isnan(got)], exp[~np.isnan(exp)])
            and np.array_equal(np.signbit(got[~np.isnan(got)]), np.signbit(exp[~np.isnan(exp)])))
    else:
        ok = np.array_equal(got, exp)
    if not ok:
        FAIL.append(f'{label}: values differ\n got={got.tolist()}\n exp={exp.tolist()}')


def cells(layers):
    """list of per-cell tuples of python scalars in C order"""
    flat = [np.asarray(a).ravel(order='C').tolist() for a in layers]
    return list(zip(*flat))


def has_nan(t):
    return any(isinstance(v, float) and math.isnan(v) for v in t)


def finish(out, shape):
    return np.array(out).reshape(-1, shape[1])


STAT = {
    'max': np.max, 'mean': np.mean, 'median': np.median,
    'min': np.min, 'std': np.std, 'sum': np.sum,
}


def ref_cell_stats(layers, func):
    return finish([STAT[func](t) for t in cells(layers)], layers[0].shape)


def ref_freq(layers, ref, op):
    out = []
    for r, t in zip(np.asarray(ref).ravel().tolist(), cells(layers)):
        if has_nan(t):
            out.append(np.nan)
        else:
            out.append(len([v for v in t if op(r, v)]))
    return finish(out, layers[0].shape)


def ref_position(layers, lowest):
    out = []
    for t in cells(layers):
        if has_nan(t):
            out.append(np.nan)
            continue
        best = 0
        for i in range(1, len(t)):
            if (t[i] < t[best]) if lowest else (t[i] > t[best]):
                best = i
        out.append(best + 1)
    return finish(out, layers[0].shape)


def ref_rank(layers, ref):
    out = []
    for r, t in zip(np.asarray(ref).ravel().tolist(), cells(layers)):
        if has_nan(t) or r - 1 >= len(t):
            out.append(np.nan)
        else:
            out.append(sorted(t)[r - 1])
    return finish(out, layers[0].shape)


def ref_combine(layers):
    ids = {}
    key = {}
    out = []
    for t in cells(layers):
        if has_nan(t):
            out.append(np.nan)
            continue
        if t not in ids:
            ids[t] = len(ids) + 1
            key[ids[t]] = t
        out.append(ids[t])
    return finish(out, layers[0].shape), key


def key_same(got, exp, label):
    if list(got.keys()) != list(exp.keys()):
        FAIL.append(f'{label}: key ids {list(got)} != {list(exp)}')
        return
    for k in exp:
        g, e = got[k], exp[k]
        if (type(g) is not tuple or len(g) != len(e)
                or any(type(a) is not type(b) or a != b
                       or (isinstance(a, float) and math.copysign(1, a) != math.copysign(1, b))
                       for a, b in zip(g, e))):
            FAIL.append(f'{label}: key[{k}] {g!r} != {e!r}')


def make_cases():
    rng = np.random.RandomState(1717)
    cases = []
    shapes = [(1, 1), (1, 5), (5, 1), (3, 4), (5, 3)]
    for n, shape in itertools.product(range(2, 7), shapes):
        for mode in ('int_ties', 'float_ties', 'float_nan', 'mixed', 'signed_zero', 'allsame'):
            layers = []
            for i in range(n):
                if mode == 'int_ties':
                    a = rng.randint(-2, 3, size=shape).astype(
                        [np.int64, np.int32, np.int16, np.uint8][i % 4] if i % 4 != 3 else np.int8)
                elif mode == 'float_ties':
                    a = rng.randint(-2, 3, size=shape).astype([np.float64, np.float32][i % 2]) / 2
                elif mode == 'float_nan':
                    a = rng.randint(0, 4, size=shape).astype(np.float64)
                    a[rng.rand(*shape) < 0.2] = np.nan
                elif mode == 'mixed':
                    if i % 2:
                        a = rng.randint(0, 3, size=shape).astype(np.int32)
                    else:
                        a = rng.randint(0, 3, size=shape).astype(np.float32)
                        a[rng.rand(*shape) < 0.1] = np.nan
                elif mode == 'signed_zero':
                    a = rng.choice([0.0, -0.0, 1.0, -1.0, np.inf, -np.inf], size=shape)
                else:
                    a = np.full(shape, 3.0)
                layers.append(a)
            ref = rng.randint(1, n + 1, size=shape).astype([np.int64, np.int32][n % 2])
            cases.append((f'n{n}-{shape}-{mode}', layers, ref))
    return cases


def build(layers, ref, use_dask):
    d = {}
    for i, a in enumerate(layers):
        data = a
        if use_dask:
            data = da.from_array(a, chunks=(max(1, a.shape[0] // 2), max(1, a.shape[1] // 2)))
        d[f'v{i}'] = (('y', 'x'), data)
    r = ref
    if use_dask:
        r = da.from_array(ref, chunks=(max(1, ref.shape[0] // 2), max(1, ref.shape[1] // 2)))
    d['ref'] = (('y', 'x'), r)
    return xr.Dataset(d)


def main():
    print('testing', xrspatial.__file__)
    rng = np.random.RandomState(99)
    ncase = 0
    for label, layers, ref in make_cases():
        n = len(layers)
        names = [f'v{i}' for i in range(n)]
        # full set in order, a random permuted subset, and the reversed order
        subsets = [names, list(reversed(names))]
        k = rng.randint(2, n + 1)  # a single operand makes np.nditer yield 0-d items
        subsets.append([names[j] for j in rng.permutation(n)[:k]])
        # the kernels are pure python, so a dask-backed twin for every third case is plenty
        for use_dask in ((False, True) if da is not None and ncase % 3 == 0 else (False,)):
            ds = build(layers, ref, use_dask)
            for dv in subsets:
                sel = [layers[int(v[1:])] for v in dv]
                tag = f'{label}-{"dask" if use_dask else "np"}-{dv}'
                same(L.lowest_position(ds, dv).data, ref_position(sel, True), tag + ' lowest')
                same(L.highest_position(ds, dv).data, ref_position(sel, False), tag + ' highest')
                lf = L.lesser_frequency(ds, 'ref', dv).data
                ef = L.equal_frequency(ds, 'ref', dv).data
                gf = L.greater_frequency(ds, 'ref', dv).data
                same(lf, ref_freq(sel, ref, lambda r, v: r > v), tag + ' lesser')
                same(ef, ref_freq(sel, ref, lambda r, v: r == v), tag + ' equal')
                same(gf, ref_freq(sel, ref, lambda r, v: r < v), tag + ' greater')
                tot = lf + ef + gf
                if not np.array_equal(tot[~np.isnan(tot)], np.full(tot.shape, len(dv))[~np.isnan(tot)]):
                    FAIL.append(tag + ' freq sum')
                # rank reference layer must be within 1..len(dv)
                rk = np.minimum(ref, len(dv)).astype(ref.dtype)
                ds2 = ds.assign(ref=(('y', 'x'), rk))
                same(L.rank(ds2, 'ref', dv).data, ref_rank(sel, rk), tag + ' rank')
                res = L.combine(ds, dv)
                exp, key = ref_combine(sel)
                same(res.data, exp, tag + ' combine')
                if list(res.attrs) != ['key']:
                    FAIL.append(tag + ' combine attrs')
                else:
                    key_same(res.attrs['key'], key, tag + ' combine key')
                for f in (STAT if dv is names and not use_dask else ()):
                    same(L.cell_stats(ds, dv, f).data, ref_cell_stats(sel, f), tag + ' cell_stats ' + f)
            # default data_vars (None): all vars incl. ref for the no-ref operators
            alln = layers + [ref]
            tag = f'{label}-{"dask" if use_dask else "np"}-default'
            same(L.lowest_position(ds).data, ref_position(alln, True), tag + ' lowest')
            same(L.highest_position(ds).data, ref_position(alln, False), tag + ' highest')
            res = L.combine(ds)
            exp, key = ref_combine(alln)
            same(res.data, exp, tag + ' combine')
            key_same(res.attrs['key'], key, tag + ' combine key')
            same(L.lesser_frequency(ds, 'ref').data, ref_freq(layers, ref, lambda r, v: r > v), tag + ' lesser')
            same(L.equal_frequency(ds, 'ref').data, ref_freq(layers, ref, lambda r, v: r == v), tag + ' equal')
            same(L.greater_frequency(ds, 'ref').data, ref_freq(layers, ref, lambda r, v: r < v), tag + ' greater')
            same(L.rank(ds, 'ref').data, ref_rank(layers, ref), tag + ' rank')
        ncase += 1

    # hand-written anchors (values written down by hand, not computed)
    a = np.array([[1., 5., np.nan], [2., 2., 0.]])
    b = np.array([[1., 4., 7.], [3., 2., -0.]])
    c = np.array([[0., 5., 7.], [2., 2., 0.]])
    r = np.array([[1, 2, 3], [3, 1, 2]])
    ds = xr.Dataset({k: (('y', 'x'), v) for k, v in dict(a=a, b=b, c=c, r=r).items()})
    dv = ['a', 'b', 'c']
    same(L.lowest_position(ds, dv).data, np.array([[3., 2., np.nan], [1., 1., 1.]]), 'anchor lowest')
    same(L.highest_position(ds, dv).data, np.array([[1., 1., np.nan], [2., 1., 1.]]), 'anchor highest')
    same(L.lesser_frequency(ds, 'r', dv).data, np.array([[1., 0., np.nan], [2., 0., 3.]]), 'anchor lesser')
    same(L.equal_frequency(ds, 'r', dv).data, np.array([[2., 0., np.nan], [1., 0., 0.]]), 'anchor equal')
    same(L.greater_frequency(ds, 'r', dv).data, np.array([[0., 3., np.nan], [0., 3., 0.]]), 'anchor greater')
    same(L.rank(ds, 'r', dv).data, np.array([[0., 5., np.nan], [3., 2., -0.]]), 'anchor rank')
    res = L.combine(ds, dv)
    same(res.data, np.array([[1., 2., np.nan], [3., 4., 5.]]), 'anchor combine')
    key_same(res.attrs['key'], {1: (1., 1., 0.), 2: (5., 4., 5.), 3: (2., 3., 2.),
                                4: (2., 2., 2.), 5: (0., -0., 0.)}, 'anchor combine key')
    ints = xr.Dataset({'p': (('y', 'x'), np.array([[1, 2], [1, 2]])),
                       'q': (('y', 'x'), np.array([[3, 3], [3, 4]]))})
    res = L.combine(ints)
    same(res.data, np.array([[1, 2], [1, 3]]), 'anchor combine int')
    key_same(res.attrs['key'], {1: (1, 3), 2: (2, 3), 3: (2, 4)}, 'anchor combine int key')
    same(L.lowest_position(ints).data, np.array([[1, 1], [1, 1]]), 'anchor lowest int')
    same(L.highest_position(ints).data, np.array([[2, 2], [2, 2]]), 'anchor highest int')

    if FAIL:
        print(f'{len(FAIL)} FAILURES')
        for f in FAIL[:20]:
            print(' ', f)
        return 1
    print(f'OK ({ncase} dataset cases)')
    return 0


if __name__ == '__main__':
    sys.exit(main())
