"""Differential test for TC13-t20 (normalised-difference wrappers ndvi / nbr /
nbr2 / ndmi: named single-precision intermediates, module-level dtype constant,
named dask block meta).

Run from inside the worktree:
    cd /tmp/t5/TC13 && PYTHONPATH=/tmp/t5/TC13 /venv/bin/python /tmp/t8/out/TC13-t20/equiv.py
Exit code 0 = identical to the digests recorded on the unmodified tree and to
the independently computed single-precision band formula.
`--record` prints the digest table.
"""
import hashlib
import sys
import warnings

import dask.array as da
import numpy as np
import xarray as xr

import xrspatial
from xrspatial import multispectral as ms

EXPECTED = {
    'err-nbr-shape': 'ValueError: input arrays must have equal shapes',
    'err-nbr-type': 'ValueError: input arrays must have same type',
    'err-nbr-type2': 'ValueError: input arrays must have same type',
    'err-nbr2-shape': 'ValueError: input arrays must have equal shapes',
    'err-nbr2-type': 'ValueError: input arrays must have same type',
    'err-nbr2-type2': 'ValueError: input arrays must have same type',
    'err-ndmi-shape': 'ValueError: input arrays must have equal shapes',
    'err-ndmi-type': 'ValueError: input arrays must have same type',
    'err-ndmi-type2': 'ValueError: input arrays must have same type',
    'err-ndvi-shape': 'ValueError: input arrays must have equal shapes',
    'err-ndvi-type': 'ValueError: input arrays must have same type',
    'err-ndvi-type2': 'ValueError: input arrays must have same type',
    'nbr-004-dask': '0fa622fd6525827388ea2af0',
    'nbr-004-numpy': 'a0ae388cc9d6298204419b6d',
    'nbr-008-dask': 'ded0da5c9f7729b4ea2f13b3',
    'nbr-008-numpy': 'f254df0349c94df8fc24e4ee',
    'nbr-012-dask': '1d93f4e7825bcee201bf0092',
    'nbr-012-numpy': 'ff83ed31c21354cf73857fe0',
    'nbr-016-dask': '2f5f8899fe336992dff80447',
    'nbr-016-numpy': '39321f700ea533de05e206f7',
    'nbr-020-dask': '8b8b824553e213b637ca359f',
    'nbr-020-numpy': 'c47cb8225c793726f6c8fc19',
    'nbr-024-dask': 'd558f1606c0393bec5e14cdf',
    'nbr-024-numpy': 'd7d5e08e2bc6d71f11718ceb',
    'nbr-028-dask': '2d83b78edf1a2bec81746485',
    'nbr-028-numpy': '9d63d927b4a3e1f2746a62fd',
    'nbr-032-dask': 'b9ccd649c5c2acfe757a84f8',
    'nbr-032-numpy': 'd0ca4c718780b2bcb40c9703',
    'nbr-036-dask': 'f89b303ea817f201e4d4436d',
    'nbr-036-numpy': 'cc454689417a8ac91af80144',
    'nbr-040-dask': '2259eb99e3311ad0bc02c2ad',
    'nbr-040-numpy': '55651f31af6fd314bfb1d1dc',
    'nbr-044-dask': '44203740e8fb2215537f4b66',
    'nbr-044-numpy': 'aa2e1716b4fc0a84bf6c6e33',
    'nbr-048-dask': 'fc4e8f220ab42526823a7eb7',
    'nbr-048-numpy': '9e179fa52e5847587c7945a2',
    'nbr-052-dask': '933f68bb9be76e4709aad1bb',
    'nbr-052-numpy': '956e33287c4b4a2aa50eb47e',
    'nbr-056-dask': 'cc738f28869ad1a0442adbe8',
    'nbr-056-numpy': '41d5c45ee63e652b8538f299',
    'nbr-060-dask': 'a0cbf4304526501e2241249d',
    'nbr-060-numpy': '4488956ebe3762164e246280',
    'nbr-064-dask': '37ff9f92b1b9636b8c884ac5',
    'nbr-064-numpy': 'bd13e5095f0ac07e0275bfb2',
    'nbr-068-dask': '5a773738cd63093ae03b64ba',
    'nbr-068-numpy': 'c950f73fdb711d627b3eba5a',
    'nbr-072-dask': 'b598d6955515fc7dc9fe9bb9',
    'nbr-072-numpy': 'efedeee78a7f872cb0becfa7',
    'nbr-076-dask': '74425276a46e981506626a8e',
    'nbr-076-numpy': 'd44dae3aac56b3e2acb7fece',
    'nbr-080-dask': 'fc9da8c1c6e0fcd0732296a0',
    'nbr-080-numpy': '7000fa5a3b1ddc3acf298ceb',
    'nbr-084-dask': 'a3648e7beb645998271268f5',
    'nbr-084-numpy': 'b8b4b152d724f2e377bc737d',
    'nbr-088-dask': '8c87418a3df2b959f7c79db9',
    'nbr-088-numpy': 'd022144f4b98223ed3304fb6',
    'nbr-092-dask': 'a479ac2cb41a74ad4019581b',
    'nbr-092-numpy': '8895c7162eff182f3c821c45',
    'nbr-096-dask': '8f031cb18c7cb6aa03dc8f3d',
    'nbr-096-numpy': 'd812f8a0b28cda63239ad7cd',
    'nbr-100-dask': '6b552492e1cb6c044f7bb767',
    'nbr-100-numpy': 'cb3e293af38fd0ba022c8dc0',
    'nbr-104-dask': '05389bad34ed5ed2c7e489ba',
    'nbr-104-numpy': '6341e6b2a7cf00e0ce1dfdb7',
    'nbr-108-dask': '6db2ff5f870e95b6379e3ee9',
    'nbr-108-numpy': '6e999637b4115c67b131effd',
    'nbr-112-dask': '46a33efc6a97808c88f89025',
    'nbr-112-numpy': 'b52cf20e81deef1b198ffbc5',
    'nbr-116-dask': 'aa3a46a54ae67f9501d3cf6f',
    'nbr-116-numpy': '06faa92c1e476912fdfabf8d',
    'nbr-120-dask': '23de53e556eff18d96be13e6',
    'nbr-120-numpy': '53bca43708b53861be036b36',
    'nbr-124-dask': 'aab0e18b09e69073b806774d',
    'nbr-124-numpy': 'a33b1ef4898a1075453387bc',
    'nbr-128-dask': '1f39ca085f46dbc1e49d0106',
    'nbr-128-numpy': '7cc4ba5c03c869cddac05a36',
    'nbr-132-dask': 'ceb89c44f7bec460a557cf09',
    'nbr-132-numpy': '7b10a2ce6422f18b44382eb0',
    'nbr-136-dask': '3b0081138e9db5376644e0d6',
    'nbr-136-numpy': '427a9015a27aac4f5240fb71',
    'nbr-140-dask': '08d09522346bd0e2da2858e5',
    'nbr-140-numpy': 'db98f21fb43625502bdc4db7',
    'nbr-144-dask': '1ada85ae88da02d1b93eba06',
    'nbr-144-numpy': '27325fb54b5e800372e0de6c',
    'nbr-148-dask': '94ff7bd7c02660d18c6871fe',
    'nbr-148-numpy': 'c39376af956868102e15e955',
    'nbr-152-dask': '802a9f09a15f01574e89a070',
    'nbr-152-numpy': 'd58491f0340890043bf0951b',
    'nbr-156-dask': '9b2be418aeba2cb94bbfa8e9',
    'nbr-156-numpy': '1bf688e5a174b73cdf185180',
    'nbr-160-dask': 'ebcdd252facae1ea124057f3',
    'nbr-160-numpy': '2e4ef538118c3387502241fe',
    'nbr-164-dask': '9064c6a96fc6d0e7efef3ad5',
    'nbr-164-numpy': '1b6a22a57cc5491a7b5b9a0e',
    'nbr-168-dask': '22b22903e7d5fa1d7a902d97',
    'nbr-168-numpy': 'c04e588f7ffb5cfec0bee105',
    'nbr-172-dask': 'ff3ab1ec4bdb2e018653a231',
    'nbr-172-numpy': '3c6a26afe2b9fbd86aace76a',
    'nbr-176-dask': '2fb04439496c7e80c368c940',
    'nbr-176-numpy': '5a3b6dd3bc362d79e1614575',
    'nbr-180-dask': 'd789e0e0e74046bba4d0ac45',
    'nbr-180-numpy': 'dab52f8f5356d2d4e8d281c8',
    'nbr-184-dask': 'b9b2ded16f823f2eda7c108d',
    'nbr-184-numpy': 'f8610de0eb7be9a13273c4f5',
    'nbr-188-dask': '9781344d59c67a09bf0d41ac',
    'nbr-188-numpy': '5ce74273ac1dec9e9de1da94',
    'nbr-192-dask': 'de36f90f38f925aa9024832a',
    'nbr-192-numpy': '301d813d20d0a74750b32283',
    'nbr-196-dask': 'a4557b1297b2bf2edb71e5f8',
    'nbr-196-numpy': '68ff8111b4336708b7b68f7b',
    'nbr-200-dask': 'fcc4ab1b3a33882c57cb40ee',
    'nbr-200-numpy': 'c2e6a3067bfa5f7554dbd1be',
    'nbr-204-dask': '3f4854d80758669965546e48',
    'nbr-204-numpy': 'ecea3b1d579936002b0347b0',
    'nbr-208-dask': '251f1b9f950872c7e0db1ce8',
    'nbr-208-numpy': 'b7eedc97e21b293f133d95c7',
    'nbr-212-dask': 'c57e0f89f4b79bbd6528f1c5',
    'nbr-212-numpy': 'c0fe964287e14252d80f684d',
    'nbr-216-dask': 'ad5636ebdc63bb8db8c5f3d1',
    'nbr-216-numpy': '82448885ea9f984a4ab181c3',
    'nbr-220-dask': '83b3f624ebef94e289e6cde5',
    'nbr-220-numpy': '07dffe05277405dde048627e',
    'nbr-224-dask': 'd832880cbc592a7919b34c01',
    'nbr-224-numpy': 'bb22dfcdca69ae9759f7a2c7',
    'nbr-228-dask': '549641ae4cdb7aea2047ef6b',
    'nbr-228-numpy': '7b05fcdf78731886c862c638',
    'nbr-232-dask': '3b1b71871696eaa962379e22',
    'nbr-232-numpy': 'e8193e1e10bb5266995f8995',
    'nbr-236-dask': 'e5bbbf53c5760312e6b25084',
    'nbr-236-numpy': '517474ea2911860a7d3ba51c',
    'nbr-240-dask': '1ca38811b5f39843af2d811c',
    'nbr-240-numpy': 'e1ba5dfb11a3a3f6988a5f17',
    'nbr-244-dask': '9ae0f4b4c0ec7ed33d5ebe7f',
    'nbr-244-numpy': 'c621fc84fb2ad0ab76cbbac1',
    'nbr-248-dask': 'c7d45b679d3f7585c147cc27',
    'nbr-248-numpy': 'd46b6ecffdf4a2c64d13c224',
    'nbr2-001-dask': 'f721ce84e6137f7b65dc33c4',
    'nbr2-001-numpy': '2c4dcacb1af682e881b230d4',
    'nbr2-005-dask': 'cdee18e140ef2b487f6f8284',
    'nbr2-005-numpy': '54ce222a21b17ce5d8eac57f',
    'nbr2-009-dask': '8bc2f0675319437100816669',
    'nbr2-009-numpy': '98ee9eb4c7a8ee774d4d0d5f',
    'nbr2-013-dask': '51a548630a60bf63141f2034',
    'nbr2-013-numpy': 'e29da8393b8346ea9c5e7813',
    'nbr2-017-dask': '5494b1808479c43ef29a56ec',
    'nbr2-017-numpy': '24779187bc07db6592348b15',
    'nbr2-021-dask': 'c27f14e380fbd82eddbf8908',
    'nbr2-021-numpy': 'f28750fd66868ea29f343ec0',
    'nbr2-025-dask': 'd8b7dc9513c9ffa0050f6ed3',
    'nbr2-025-numpy': '18c8816ebf5b741d6e916c39',
    'nbr2-029-dask': '3edbb6ddbf003da5bc70adcb',
    'nbr2-029-numpy': '1e4fd43696920f9160ab581f',
    'nbr2-033-dask': 'a6ce93d25d6df6fdf41590ae',
    'nbr2-033-numpy': '496b224fb8db35442b01ee72',
    'nbr2-037-dask': '50ae058ac64f653b0c79b708',
    'nbr2-037-numpy': '27fd9cf45f602c1f06f063f9',
    'nbr2-041-dask': '8a6a21c4c8f1b21ed30a1fea',
    'nbr2-041-numpy': 'c9e4a8e9f62cc6cf2f415606',
    'nbr2-045-dask': '33ff46a2310b495b6d0456f8',
    'nbr2-045-numpy': '4ea02a5998b4583c75783841',
    'nbr2-049-dask': '43510287c33ccc70c695549d',
    'nbr2-049-numpy': '186bb8998c9130d2ec8277d8',
    'nbr2-053-dask': '82af5b59b3776a282b898456',
    'nbr2-053-numpy': '6af82ba6b0b7904dc2d44a55',
    'nbr2-057-dask': '2b0d0b9d383de0c0728fc673',
    'nbr2-057-numpy': 'e7145122c30eca1d59c95916',
    'nbr2-061-dask': 'a22d7ddd04c144f9aacdd85b',
    'nbr2-061-numpy': '4ebb21138b15a0996eae70a3',
    'nbr2-065-dask': '938e1f5d7dc0e6751bf8ebe8',
    'nbr2-065-numpy': '85a0aefbff3a55966c1e4ef1',
    'nbr2-069-dask': 'a55e7b653225e97e4676f56b',
    'nbr2-069-numpy': 'fc9cbf52bed3a4e9070864ae',
    'nbr2-073-dask': '74423fb0787ac757a11f9310',
    'nbr2-073-numpy': 'd22bc865fbc94405439ef2c1',
    'nbr2-077-dask': '970b2c65c234e5815ebf8ca2',
    'nbr2-077-numpy': 'cf4209e4eec1fa0f1001eb93',
    'nbr2-081-dask': '72dbbad6af6a785f7790daec',
    'nbr2-081-numpy': 'cfb8365d3310ba961f3fccb0',
    'nbr2-085-dask': 'd59650336907d2e13f63a9d3',
    'nbr2-085-numpy': '68f5cbf04964bbf6128ff5dd',
    'nbr2-089-dask': '2a9c318f232da6c6f35b6781',
    'nbr2-089-numpy': '018dc26a3d9486a5bac049a4',
    'nbr2-093-dask': 'ac6b7791bc086bf9db0341fa',
    'nbr2-093-numpy': 'b16e2d3a48d794f7008bd929',
    'nbr2-097-dask': 'e4c7472d0d65af58754bd87a',
    'nbr2-097-numpy': '978799aa90f7541002887ee9',
    'nbr2-101-dask': 'c37c0ae45f19a9f62b856193',
    'nbr2-101-numpy': 'ac9d1f5ae0d5b411f8dcc866',
    'nbr2-105-dask': '2f3b3defba06be9905adb202',
    'nbr2-105-numpy': '59e3507d7b88893f3b834eca',
    'nbr2-109-dask': '18c25158f050a1700b0c8deb',
    'nbr2-109-numpy': 'd5445caadeb61075a7125744',
    'nbr2-113-dask': '25ea3370d6b81b4922b75f3a',
    'nbr2-113-numpy': '8efb6470a502a3e66b08e785',
    'nbr2-117-dask': '43a740937195b1fae320b2bb',
    'nbr2-117-numpy': '7ad26a4a28d059feab5c3e43',
    'nbr2-121-dask': '52da6e1214a0cf4053cea44a',
    'nbr2-121-numpy': '84728aca90baa22065652649',
    'nbr2-125-dask': 'e8cf9c0c4d7df48621c718dc',
    'nbr2-125-numpy': 'e65210e36cd5245f8ce7e8da',
    'nbr2-129-dask': '68aaec7e59d70bcb53693fd7',
    'nbr2-129-numpy': '4e3d89a82d2354cfa5981b96',
    'nbr2-133-dask': '1f48ee1779d442343282fba5',
    'nbr2-133-numpy': '595e2e7b94cb8aed16c8e3ce',
    'nbr2-137-dask': '40a5e838bdde12d9e9547bee',
    'nbr2-137-numpy': '227a3ff7b918900e56dec171',
    'nbr2-141-dask': '1f524a512dd19d7aee0d9920',
    'nbr2-141-numpy': 'f3839b62fc84a0f781fff865',
    'nbr2-145-dask': 'bc261e089491c6b82b08f936',
    'nbr2-145-numpy': '608b873c73a2ad226df72667',
    'nbr2-149-dask': 'c00a66788201cd1a6b4f3079',
    'nbr2-149-numpy': '94f608b0218fe3a1ae59c592',
    'nbr2-153-dask': '7c00c549f6b041baa1f6e711',
    'nbr2-153-numpy': '9debc32419c571f0ce7752ba',
    'nbr2-157-dask': '7a810fac1769dfd9096f3358',
    'nbr2-157-numpy': '2eedbeb8658573db653e679d',
    'nbr2-161-dask': 'c3961342cc99c723a1b945df',
    'nbr2-161-numpy': '83755619ac998a43816d2831',
    'nbr2-165-dask': 'f3e0b83d27973ba52a2ec3c2',
    'nbr2-165-numpy': '397a27e47f7b630f7b77fa53',
    'nbr2-169-dask': '4364dba0ed4a4d1295dac138',
    'nbr2-169-numpy': '298dd23d5235c7af23ac0411',
    'nbr2-173-dask': '82676e9e3549e699548452cb',
    'nbr2-173-numpy': 'ac94c3459ed93eae81d3bb69',
    'nbr2-177-dask': '893a61776948f680528016f4',
    'nbr2-177-numpy': '25ab22d12399a94587d22f68',
    'nbr2-181-dask': '8f8fbe02dd92abc8435a6ebf',
    'nbr2-181-numpy': 'eb9b0a1d24193e45d77c0897',
    'nbr2-185-dask': '34a3081c373b3f320901ffe8',
    'nbr2-185-numpy': 'cc55bd7dd4fdd356cecafe2d',
    'nbr2-189-dask': 'd6527c3dafc485a403cf0b31',
    'nbr2-189-numpy': '91b5be79504aceb08132ce00',
    'nbr2-193-dask': 'eb4bc0d91002b1f347d07062',
    'nbr2-193-numpy': '2ce52fa5774f175027c87b79',
    'nbr2-197-dask': '65fbd107f1802009747ff5f9',
    'nbr2-197-numpy': '75d7ce2aa281d041b42a196b',
    'nbr2-201-dask': '0022e5ebbb4c1e7a79439dda',
    'nbr2-201-numpy': 'b7883ea1af40f455491ddcfb',
    'nbr2-205-dask': '5692d7d96e4f2a85581eb74b',
    'nbr2-205-numpy': 'b86cf87c7f1cc5ce4b991dc8',
    'nbr2-209-dask': '2230961fc8dd07d1f7734dc0',
    'nbr2-209-numpy': '3a9ab50d3ad94b0f348aa28d',
    'nbr2-213-dask': 'f697a83abbc69fa3f5af34d1',
    'nbr2-213-numpy': 'd8aefc7caa3398221165a26e',
    'nbr2-217-dask': '0a3d76aa7cc38fd86ce98eb9',
    'nbr2-217-numpy': '90f91a1bd3854a2a4ba2f143',
    'nbr2-221-dask': '6ebf44df781239fb8db92420',
    'nbr2-221-numpy': 'e8d9f27114f58952af30dfc3',
    'nbr2-225-dask': 'a38a06d32acb3e08dd183898',
    'nbr2-225-numpy': '5e5282a52eca4e312cb447f1',
    'nbr2-229-dask': 'e7c4aa4fef1c1611d3951212',
    'nbr2-229-numpy': '36fa5fb163dfb82ad045d616',
    'nbr2-233-dask': '7fd29aa0a4ff9016fbe63cae',
    'nbr2-233-numpy': '280dfab5786ec3459d8168f0',
    'nbr2-237-dask': 'f18e8a66a6de73e9fad47816',
    'nbr2-237-numpy': '28d046467054ef98be31ecc8',
    'nbr2-241-dask': '654da9246e2e3cb0833abb14',
    'nbr2-241-numpy': '914dfe2bcd4882c8ba7a1171',
    'nbr2-245-dask': '0b36012d8529b7fc67c29516',
    'nbr2-245-numpy': '3489c68e695266f67b1cade7',
    'nbr2-249-dask': '6a927f8cd87f31dd09891796',
    'nbr2-249-numpy': 'f939de93cfeb661394efb337',
    'ndmi-002-dask': '9e8dd30ac454f656ea4f3b01',
    'ndmi-002-numpy': 'ae31746c74a9e738722c49d0',
    'ndmi-006-dask': '39ee458a7f3c04c687d9e910',
    'ndmi-006-numpy': '94e3b8b8f18fd145437cef36',
    'ndmi-010-dask': '35f21b47b3a454dedbcd11b7',
    'ndmi-010-numpy': '9d75c2e38a37e05f09f9598c',
    'ndmi-014-dask': 'deac385caaf2bace9bd92456',
    'ndmi-014-numpy': 'fa862f71609cf15db5856290',
    'ndmi-018-dask': '796f896d39104ff256d7ba4d',
    'ndmi-018-numpy': '97e3320eb7fdfc06d3418306',
    'ndmi-022-dask': 'e954cf8e0cdef6788f4f38f2',
    'ndmi-022-numpy': 'f147d2d2b758e33f5fc48c1f',
    'ndmi-026-dask': 'c6929b7691d6cce1f9893d92',
    'ndmi-026-numpy': '77552a290da930c9fa1e6621',
    'ndmi-030-dask': 'dbda2d21bec2c8e197541444',
    'ndmi-030-numpy': '8dd8eea4d0a0ebd4ea2fd884',
    'ndmi-034-dask': '79011b8687058f5746b9193f',
    'ndmi-034-numpy': '2c6b70459897044d50f0db76',
    'ndmi-038-dask': '4b4b376f982c0772be73c14c',
    'ndmi-038-numpy': '1fb5be6b25fbefef14d10c47',
    'ndmi-042-dask': '6d1172368b32a219c6ea82a3',
    'ndmi-042-numpy': '1d59f563a8390f28eebda8fb',
    'ndmi-046-dask': '0d959be6fc027660ab663bca',
    'ndmi-046-numpy': '4129c7e14a73e7bea4ab1fb6',
    'ndmi-050-dask': '115a4e4fa6f94ad0a3397341',
    'ndmi-050-numpy': 'ba17c6cf1daa38df7361072d',
    'ndmi-054-dask': '38709f63a50f9f1ecb9ea0c1',
    'ndmi-054-numpy': 'ba80fcebc417f8b84393ad8e',
    'ndmi-058-dask': 'e377d937ba7f5f47fd2defd3',
    'ndmi-058-numpy': 'ed3be1b71f089f407e131b37',
    'ndmi-062-dask': '0a9870bc364d94e1555cb1d8',
    'ndmi-062-numpy': '3c34a4b13133f18a944d9935',
    'ndmi-066-dask': '05cf4e99dac7013d674a406d',
    'ndmi-066-numpy': 'd6a47626bd6432fa3e5e25df',
    'ndmi-070-dask': 'cea93fd65605190b9acbfc42',
    'ndmi-070-numpy': '376be423ab94b2cc58b964da',
    'ndmi-074-dask': '6a2252da9727970e70b0285c',
    'ndmi-074-numpy': '4f6bd904dff587ba69adfa15',
    'ndmi-078-dask': 'ef737b8a3fb7ed1c4bcc9d2b',
    'ndmi-078-numpy': '26f4ae42762f618c080e5258',
    'ndmi-082-dask': 'ba57be6c4d1a46384e9a6634',
    'ndmi-082-numpy': '6d3febd2e3498b956432cc76',
    'ndmi-086-dask': 'd02aa345a82e0cc0cfb91b94',
    'ndmi-086-numpy': 'f5dfab6140b3444cc58800bc',
    'ndmi-090-dask': 'c2f5f8fc8fed04092c7e39b0',
    'ndmi-090-numpy': '84af983af09d4f2e7756da5d',
    'ndmi-094-dask': '1909408137146c6b75f3c50d',
    'ndmi-094-numpy': '159efbd64dfbce5bb1048830',
    'ndmi-098-dask': '4f004efb3fda65545f4e640f',
    'ndmi-098-numpy': '357d6c6fc26b117765a3a82d',
    'ndmi-102-dask': '879e2e1785bc484a7cd34f3c',
    'ndmi-102-numpy': 'f1650bbfc20f524299be61b0',
    'ndmi-106-dask': '8aa38cb26675dd5faa976654',
    'ndmi-106-numpy': 'dc904482b36aa1c83a0cb0c5',
    'ndmi-110-dask': '66b1ebff1cec2c1201e9e56f',
    'ndmi-110-numpy': '2815a5781e75e59d9d28afb9',
    'ndmi-114-dask': '9b695a6a84a70b046ffe8852',
    'ndmi-114-numpy': 'a46b154903e31178d58a5e42',
    'ndmi-118-dask': '0bdee69b9df1fc91e4c4bb9e',
    'ndmi-118-numpy': 'ed8cd51de516b8817db97e03',
    'ndmi-122-dask': 'f2ea0822704f3440982b292c',
    'ndmi-122-numpy': '70689ac26b053c7dba881a6f',
    'ndmi-126-dask': 'fd5e5b9648aa1c0c14ce4a86',
    'ndmi-126-numpy': 'c86036cae50325f85ecaf27e',
    'ndmi-130-dask': '3c8eac08a722297f3fa1a241',
    'ndmi-130-numpy': 'ce97ca21e7bc2ca2b437fb3f',
    'ndmi-134-dask': '4040c579a75abd4dcee5b23e',
    'ndmi-134-numpy': '6ebf5b4fa1f87c7360043616',
    'ndmi-138-dask': '6363bf9fb53ba83bca791b86',
    'ndmi-138-numpy': 'c0bb3dd2eb3aacc21797e8f7',
    'ndmi-142-dask': '2a3d7584b18626cb9231ea78',
    'ndmi-142-numpy': 'b7d5ee5981757b5c2748561f',
    'ndmi-146-dask': '65fd34825741412ea32db8d7',
    'ndmi-146-numpy': '59096a434e7b4dce1e9e28df',
    'ndmi-150-dask': '51a9e19d734f873a01cbe108',
    'ndmi-150-numpy': '943d46ee361ef58b1e6e6065',
    'ndmi-154-dask': '00006702498840199c6c0619',
    'ndmi-154-numpy': '24395b5db2561795e4a1abb7',
    'ndmi-158-dask': '301c43da768628f4d2771079',
    'ndmi-158-numpy': 'fd5140d1880a775c91bdafeb',
    'ndmi-162-dask': '8184237ff28d8ab4f5e8fdbc',
    'ndmi-162-numpy': '707bf9fd8535c053aa5b31be',
    'ndmi-166-dask': '825791d40bc793f7b669263e',
    'ndmi-166-numpy': 'bff1c2034e5187ca226a1e81',
    'ndmi-170-dask': 'de61596920c5d561b4705995',
    'ndmi-170-numpy': 'dbcc76b8b6198af555b57e48',
    'ndmi-174-dask': '475d1bcf01fee383cbd86037',
    'ndmi-174-numpy': '423c275c053411e7fc7a77c6',
    'ndmi-178-dask': '458b0f41cc7ba75e917682aa',
    'ndmi-178-numpy': '52cee69a8cc547adf26c7481',
    'ndmi-182-dask': '74e87131f2fb3f5fbeba5879',
    'ndmi-182-numpy': '149b2d0bb95ae8d38ba3503f',
    'ndmi-186-dask': 'e0710944164527b0a8e371b8',
    'ndmi-186-numpy': '1af85adaeffbacea537176e3',
    'ndmi-190-dask': 'd92a6212ea48555222d58bc5',
    'ndmi-190-numpy': '05cb48beeb9c3bb24fde8684',
    'ndmi-194-dask': '814607ce7775ea9bd2de8484',
    'ndmi-194-numpy': '1f7c93cd81f330ba3442e3e5',
    'ndmi-198-dask': '5104fa7c6be40df74cc39159',
    'ndmi-198-numpy': '625692c49fbf3163df7f740c',
    'ndmi-202-dask': '2b86d16a3f545290e3615af3',
    'ndmi-202-numpy': '145557c09e295cf4e6705e45',
    'ndmi-206-dask': 'e54f675625e7ff168eba78cc',
    'ndmi-206-numpy': 'eda209a908878967504a822a',
    'ndmi-210-dask': '513d05306c56d20e3b2e7b69',
    'ndmi-210-numpy': '487ac2fe0350d3c5a7828371',
    'ndmi-214-dask': 'c2591bce88cd34870711d1f2',
    'ndmi-214-numpy': 'a6e8204a542c055f7c6b5b65',
    'ndmi-218-dask': '11f668194b39203edb99fa00',
    'ndmi-218-numpy': '18df37afdcaf618dd59a4f5f',
    'ndmi-222-dask': '697071bd472b90f76c8740d9',
    'ndmi-222-numpy': '616f2322e136326c8bc88d11',
    'ndmi-226-dask': 'afef06466442ee29ad87c4d0',
    'ndmi-226-numpy': '08fb421942c3889b63bca348',
    'ndmi-230-dask': '7b43ddc524e269eefdb8c323',
    'ndmi-230-numpy': '56feabe684e646982424b730',
    'ndmi-234-dask': '35b7f3e8d595f7d55f0fe725',
    'ndmi-234-numpy': '23b6144d8ec1583fcdb2a9c2',
    'ndmi-238-dask': '7075523b28536049e06f850d',
    'ndmi-238-numpy': '624543607211300de6e9165a',
    'ndmi-242-dask': 'd5402fbd6000917cd2595253',
    'ndmi-242-numpy': '444d47a2e662274093e99453',
    'ndmi-246-dask': '90a51b627cdfab383f7aee1e',
    'ndmi-246-numpy': '1a530f29e5ce4b939a580c4d',
    'ndmi-250-dask': '58b71682f6d4c4208e638c7d',
    'ndmi-250-numpy': '1304b5926f5b0c0a6e9b525f',
    'ndvi-003-dask': '74d41376241cf56eb184bf34',
    'ndvi-003-numpy': 'aa66d1d5eb1cb847cd61e763',
    'ndvi-007-dask': '7f8e151a97af7c4f17353cf1',
    'ndvi-007-numpy': '39d6170f37f47f7aebcbbb2b',
    'ndvi-011-dask': '06f7ad8b4e86811c2740ccc2',
    'ndvi-011-numpy': '7e8031e3de09fface58550c4',
    'ndvi-015-dask': '610d06460cd17ff88aea8d79',
    'ndvi-015-numpy': 'beb11e2b29a2899fa2b95dfe',
    'ndvi-019-dask': 'cd19c7c25a403d5cd3cbec47',
    'ndvi-019-numpy': '86450270981a87661e84d2f5',
    'ndvi-023-dask': 'f06b2402ec6b8fa907545e42',
    'ndvi-023-numpy': '492ae72d6b8ea7ff545a2130',
    'ndvi-027-dask': '9f7e0fe909ebf958d8bbc5de',
    'ndvi-027-numpy': '3756d7383ddaab5085501d36',
    'ndvi-031-dask': '696d2e97e666c5c5179d3159',
    'ndvi-031-numpy': '8c32d040bb8e129ad19c9147',
    'ndvi-035-dask': '62bcb8f4d1692ba72b2c345a',
    'ndvi-035-numpy': '7739892efe56d96afd781862',
    'ndvi-039-dask': '800fb24626fabdb268c04def',
    'ndvi-039-numpy': 'a2d097c7b5908b427ab1c0af',
    'ndvi-043-dask': 'f134d6cf0e39e1c6f46e3622',
    'ndvi-043-numpy': 'e338a0f61a485098b7561ec7',
    'ndvi-047-dask': '8a4af944adb1b3aaf9ea8fb2',
    'ndvi-047-numpy': '8787b4b055a27b52899bc2ed',
    'ndvi-051-dask': 'a1ec658f5d3de398f3509b3d',
    'ndvi-051-numpy': '905efeecd0e2512bbc82bf2b',
    'ndvi-055-dask': '58499659bae647d63a7aa128',
    'ndvi-055-numpy': 'e104fef363ba7cafe91b0a79',
    'ndvi-059-dask': '2cc090dd8440dcf695a564f3',
    'ndvi-059-numpy': 'fe7d4644cdc53097609122bc',
    'ndvi-063-dask': 'dc4089e8953992ebb63adf54',
    'ndvi-063-numpy': 'bb4e111fb6b3e6101ee24a94',
    'ndvi-067-dask': 'ef4537329efdcadef406dea5',
    'ndvi-067-numpy': '31f4ebbd1cb8f130a07ba92f',
    'ndvi-071-dask': '55dfd075c7467f1463fbb3d1',
    'ndvi-071-numpy': '50aebab05f3e5dcc0981bf19',
    'ndvi-075-dask': '8320c6f53ae5218c070c6e4d',
    'ndvi-075-numpy': 'bf6c17b2b934c9d020930671',
    'ndvi-079-dask': '1b2b9fecb6b71248dffa9855',
    'ndvi-079-numpy': 'e5768e4f5b9ebf9a8390acc1',
    'ndvi-083-dask': '9f4d1ac470b70f30bbd7f8c7',
    'ndvi-083-numpy': 'c1babdb07109f8495f7d5df6',
    'ndvi-087-dask': 'a7d5bca69c6f9c20a4119860',
    'ndvi-087-numpy': '2d67081289160c808e43831e',
    'ndvi-091-dask': '895fcaed2407a6958fd8b97b',
    'ndvi-091-numpy': 'd645254e7fa4929439c35167',
    'ndvi-095-dask': '26c4dc80bb6386dfca724d9f',
    'ndvi-095-numpy': 'b2f4db604c019f7f511c7f80',
    'ndvi-099-dask': 'c15acc593ea8b0f916029d23',
    'ndvi-099-numpy': '148d8211ee4f0237810910a6',
    'ndvi-103-dask': '82261a576da62a9a72f02fe4',
    'ndvi-103-numpy': 'c04d8d974658f38ae30a5e06',
    'ndvi-107-dask': '09ead0e7312f8e96def41734',
    'ndvi-107-numpy': '0ff630b3fb1a34ada6a93c6a',
    'ndvi-111-dask': '78c049d7c8106dfdaef0e577',
    'ndvi-111-numpy': 'c7f1910edc341eccb19517eb',
    'ndvi-115-dask': '6c874edf7bd1b774ad540e41',
    'ndvi-115-numpy': '1635be4d56508634a2af1c30',
    'ndvi-119-dask': '2c73cbd18a6e1dacc440ceb8',
    'ndvi-119-numpy': 'a4980964a9c0a2ccadbecbd3',
    'ndvi-123-dask': '673787183c851b14f5e742ec',
    'ndvi-123-numpy': '698e925261639fedc0724e0a',
    'ndvi-127-dask': 'e70c6cfdd6a3f9041ea3260c',
    'ndvi-127-numpy': '210b9414186d78180345eced',
    'ndvi-131-dask': 'abd32315df6aeee0ea659a3c',
    'ndvi-131-numpy': 'f5b6f6505223056d2f0e537f',
    'ndvi-135-dask': 'f6dcdef14e16f901e1f54553',
    'ndvi-135-numpy': '456ed08492e1e2a75efe5e42',
    'ndvi-139-dask': 'bfb0f327d76ab00a2d7ed944',
    'ndvi-139-numpy': 'fdb0f665f75ceddad8ac6ca8',
    'ndvi-143-dask': '560192f53ef989ad3f43e7dd',
    'ndvi-143-numpy': 'ceb9e38704dfb44f0b240a3a',
    'ndvi-147-dask': 'd6e9b1206e090d5f780cdf6f',
    'ndvi-147-numpy': 'b66ff8ca458f4041f0cf2063',
    'ndvi-151-dask': 'f92f9cac35417e907a2e76f1',
    'ndvi-151-numpy': '01fdd365d5530866c59c75fe',
    'ndvi-155-dask': 'd7600263f075cfdaefedd70c',
    'ndvi-155-numpy': '5efc05fb6737bad995f53220',
    'ndvi-159-dask': '0ff1241f96d26f3903341fc3',
    'ndvi-159-numpy': '4077095aafae97162f10c477',
    'ndvi-163-dask': '2592a060c0905e1b94260919',
    'ndvi-163-numpy': '134b1adf2db69f7f8a6b45e6',
    'ndvi-167-dask': '099a9c8918170556fd89e231',
    'ndvi-167-numpy': '0aecef44317e0682473bd9a5',
    'ndvi-171-dask': '37ed534804a8ed50eb7608d6',
    'ndvi-171-numpy': '1bb6d35378002c2da1b0e7b0',
    'ndvi-175-dask': '05bcd5745f86f112a2259173',
    'ndvi-175-numpy': '76db9cb849c981ecc74ead9a',
    'ndvi-179-dask': '8c65c5f66d727c18e8584de7',
    'ndvi-179-numpy': '404e8e6190547c0a84440801',
    'ndvi-183-dask': '16ec04b300d94ae2918f41e0',
    'ndvi-183-numpy': 'b1514f699a20d000f1d298c3',
    'ndvi-187-dask': '584041eec5450632a586f509',
    'ndvi-187-numpy': 'dc542d460003854066b188b8',
    'ndvi-191-dask': '46b418e8e95db96d6e16b348',
    'ndvi-191-numpy': '706837f7ce25f488af4cd471',
    'ndvi-195-dask': 'fcdf26c41e0627fbb889f68e',
    'ndvi-195-numpy': 'ade69d2a65d4487c871afc97',
    'ndvi-199-dask': 'cbcea4d2fe5d0f14926644ad',
    'ndvi-199-numpy': 'f6d232a128798e5ef5f2dab7',
    'ndvi-203-dask': 'bad5c03ce9fdc44ef03f4d18',
    'ndvi-203-numpy': 'a474b3f7debdf86ab9cdd6d5',
    'ndvi-207-dask': 'f462ff2df7cd97788c6a0283',
    'ndvi-207-numpy': 'da2d66da3843300419a56927',
    'ndvi-211-dask': '6d1f9dab1af05fedaa01415f',
    'ndvi-211-numpy': '6132132a79db14cf968a7d6d',
    'ndvi-215-dask': 'b1e2a70467a8fb595c8cae75',
    'ndvi-215-numpy': '989bfc93fbefc8d8e34f3525',
    'ndvi-219-dask': '3ebb1c0a041271b1be1a9cec',
    'ndvi-219-numpy': 'b69db4e9ba5ce3b36dab6220',
    'ndvi-223-dask': '71f73e42a81e6575afb7db4a',
    'ndvi-223-numpy': '52f419dcaee0caeeb7137f15',
    'ndvi-227-dask': 'a768eda71093b86d615c110a',
    'ndvi-227-numpy': 'dd28ec3bbc8dad9e022b65c3',
    'ndvi-231-dask': '3399b510dc06086cafcd9656',
    'ndvi-231-numpy': '44b2ad7efb843e70ab3e91b2',
    'ndvi-235-dask': '9cef1dc57b12160df367e5d4',
    'ndvi-235-numpy': '508b140e3b3fd0dce09d1249',
    'ndvi-239-dask': '34f107a7a509a903fcb9ce0e',
    'ndvi-239-numpy': '49acef7dd7d8ba5f3943886e',
    'ndvi-243-dask': 'e5434c7855707f9220649e4e',
    'ndvi-243-numpy': 'c2fd6c756b798c2871d99848',
    'ndvi-247-dask': 'b2cfb6da33ef746214237229',
    'ndvi-247-numpy': '17e2c291e63e0351052b6c7f',
}

FUNCS = {
    'ndvi': (ms.ndvi, ('nir_agg', 'red_agg')),
    'nbr': (ms.nbr, ('nir_agg', 'swir2_agg')),
    'nbr2': (ms.nbr2, ('swir1_agg', 'swir2_agg')),
    'ndmi': (ms.ndmi, ('nir_agg', 'swir1_agg')),
}


def digest(arr, extra=''):
    arr = np.ascontiguousarray(arr)
    h = hashlib.sha256()
    h.update(str(arr.dtype).encode())
    h.update(str(arr.shape).encode())
    h.update(arr.tobytes())
    h.update(extra.encode())
    return h.hexdigest()[:24]


def make_band(rng, shape, dtype, nan_frac, kind):
    info_max = 200 if np.dtype(dtype).itemsize == 1 else 30000
    if kind == 'zeros':
        data = np.zeros(shape)
    elif kind == 'small':
        data = rng.randint(0, 3, size=shape).astype(float)
    elif kind == 'signed':
        data = rng.uniform(-50, 50, size=shape)
        if np.dtype(dtype).kind == 'u':
            data = np.abs(data)
    elif kind == 'huge':
        data = rng.uniform(0, 1, size=shape) * (3e38 if np.dtype(dtype) == np.float64 else info_max)
    else:
        data = rng.uniform(0, info_max, size=shape)
    data = data.astype(dtype)
    if nan_frac and data.dtype.kind == 'f':
        data[rng.uniform(size=shape) < nan_frac] = np.nan
    return data


def as_agg(data, backend, chunks, attrs):
    h, w = data.shape
    if backend == 'dask':
        data = da.from_array(data, chunks=chunks)
    return xr.DataArray(data, dims=['lat', 'lon'],
                        coords={'lat': np.linspace(5, 6, h), 'lon': np.linspace(-3, 3, w)},
                        attrs=attrs)


def formula(a, b):
    """Published formula (a - b) / (a + b), per cell in single precision,
    NaN where the denominator is zero."""
    a = a.astype(np.float32)
    b = b.astype(np.float32)
    out = np.full(a.shape, np.nan, dtype=np.float32)
    for idx in np.ndindex(*a.shape):
        num = np.float32(a[idx] - b[idx])
        den = np.float32(a[idx] + b[idx])
        if den != 0:
            out[idx] = np.float32(num / den)
    return out


def same(x, y):
    return x.dtype == y.dtype and x.shape == y.shape and np.array_equal(x, y, equal_nan=True)


def main(record):
    rng = np.random.RandomState(2020)
    results = {}
    failures = []
    shapes = [(1, 1), (1, 9), (6, 1), (5, 7), (11, 8)]
    dtypes = [np.uint8, np.uint16, np.uint32, np.int8, np.int16, np.int32, np.int64,
              np.float16, np.float32, np.float64]
    kinds = ['uniform', 'small', 'zeros', 'signed', 'huge']
    names = sorted(FUNCS)
    case = 0
    with warnings.catch_warnings():
        warnings.simplefilter('ignore')
        for shape in shapes:
            for dtype in dtypes:
                for kind in kinds:
                    case += 1
                    fname = names[case % 4]
                    func, argnames = FUNCS[fname]
                    nan_frac = [0.0, 0.25, 1.0][case % 3]
                    a = make_band(rng, shape, dtype, nan_frac, kind)
                    if case % 5 == 0:
                        b = a.copy()                      # equal bands -> 0 or NaN
                    elif case % 7 == 0:
                        b = (-a.astype(np.float64)).astype(np.float64)   # a + b == 0 everywhere
                    else:
                        b = make_band(rng, shape, dtype, nan_frac / 2, kind)
                    exp = formula(a, b)
                    vals = {}
                    for backend in ('numpy', 'dask'):
                        ca = (max(1, shape[0] // 2), max(1, shape[1] // 3))
                        cb = ca if case % 2 else (max(1, shape[0] // 3), shape[1])  # forces rechunk
                        A = as_agg(a, backend, ca, {'res': 2.0, 'id': case})
                        B = as_agg(b, backend, cb, {'other': True})
                        kwargs = {argnames[0]: A, argnames[1]: B}
                        if case % 3 == 0:
                            kwargs['name'] = 'custom_%d' % case
                            res = func(**kwargs)
                        elif case % 3 == 1:
                            res = func(A, B)
                        else:
                            res = func(A, **{argnames[1]: B})
                        lazy_dtype = ''
                        if backend == 'dask':
                            if not isinstance(res.data, da.Array):
                                failures.append((case, fname, 'not lazy'))
                            lazy_dtype = '%s|%s|%s' % (res.data.dtype, res.data.chunks, type(res.data._meta).__name__)
                            val = res.data.compute()
                        else:
                            if not isinstance(res.data, np.ndarray):
                                failures.append((case, fname, 'not numpy'))
                            val = res.data
                        key = '%s-%03d-%s' % (fname, case, backend)
                        meta = '%s|%s|%s|%s' % (res.name, res.dims, sorted(res.attrs.items()), lazy_dtype)
                        results[key] = digest(val, meta)
                        vals[backend] = val
                        if res.name != kwargs.get('name', fname):
                            failures.append((key, 'name', res.name))
                        if res.attrs != A.attrs or res.dims != A.dims:
                            failures.append((key, 'attrs/dims'))
                        if not all(np.array_equal(res[d].values, A[d].values) for d in A.dims):
                            failures.append((key, 'coords'))
                        if not same(val, exp):
                            failures.append((key, 'formula'))
                        if np.isinf(val).any():
                            failures.append((key, 'inf'))
                        # inputs must not be modified
                        if not np.array_equal(np.asarray(A.data), a, equal_nan=True):
                            failures.append((key, 'input modified'))
                    if not same(vals['numpy'], vals['dask']):
                        failures.append((case, fname, 'numpy != dask'))

        # error behaviour is part of the wrapper, keep it pinned
        A = as_agg(np.ones((3, 4)), 'numpy', None, {})
        B = as_agg(np.ones((4, 3)), 'numpy', None, {})
        C = as_agg(np.ones((3, 4)), 'dask', (2, 2), {})
        for fname in names:
            func = FUNCS[fname][0]
            for label, args in (('shape', (A, B)), ('type', (A, C)), ('type2', (C, A))):
                try:
                    func(*args)
                    msg = 'no error'
                except Exception as e:  # noqa
                    msg = '%s: %s' % (type(e).__name__, e)
                results['err-%s-%s' % (fname, label)] = msg

    if record:
        print('EXPECTED = {')
        for k in sorted(results):
            print('    %r: %r,' % (k, results[k]))
        print('}')
        return 0

    for k, v in results.items():
        if EXPECTED.get(k) != v:
            failures.append((k, 'digest', v, EXPECTED.get(k)))
    if set(EXPECTED) != set(results):
        failures.append(('key sets differ',))
    if failures:
        print('xrspatial from', xrspatial.__file__)
        for f in failures[:20]:
            print('FAIL', f)
        print('%d failures' % len(failures))
        return 1
    print('OK: %d results identical (%s)' % (len(results), xrspatial.__file__))
    return 0


if __name__ == '__main__':
    sys.exit(main('--record' in sys.argv))
