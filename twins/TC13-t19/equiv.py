"""Differential test for TC13-t19 (true_color numpy path: alpha via boolean
mask fill, colour channels filled in a loop).

Run from inside the worktree:
    cd /tmp/t5/TC13 && PYTHONPATH=/tmp/t5/TC13 /venv/bin/python /tmp/t8/out/TC13-t19/equiv.py
Exit code 0 = identical to the values recorded on the unmodified tree and to
the independently computed expectations.  `--record` prints the digest table.
"""
import hashlib
import sys
import warnings

import dask.array as da
import numpy as np
import xarray as xr

import xrspatial
from xrspatial.multispectral import true_color

EXPECTED = {
    'special--0.0-dask': 'b864f94a7d04d885a510b3fe',
    'special--0.0-numpy': 'b864f94a7d04d885a510b3fe',
    'special--5.0-dask': 'c4417bd481505643da8eb702',
    'special--5.0-numpy': 'c4417bd481505643da8eb702',
    'special-0.0-dask': 'b864f94a7d04d885a510b3fe',
    'special-0.0-numpy': 'b864f94a7d04d885a510b3fe',
    'special-1.0-dask': 'db0c1d994b9897e975d83aa1',
    'special-1.0-numpy': 'db0c1d994b9897e975d83aa1',
    'special-1.0000001-dask': '72063532f71f428980e68bdb',
    'special-1.0000001-numpy': '72063532f71f428980e68bdb',
    'special-1e+30-dask': '8f63c60e3efefb29c4ae026a',
    'special-1e+30-numpy': '8f63c60e3efefb29c4ae026a',
    'tc-001-dask': 'f8790b091027ae22f94c1fc4',
    'tc-001-numpy': 'f8790b091027ae22f94c1fc4',
    'tc-002-dask': 'f8790b091027ae22f94c1fc4',
    'tc-002-numpy': 'f8790b091027ae22f94c1fc4',
    'tc-003-dask': 'f8790b091027ae22f94c1fc4',
    'tc-003-numpy': 'f8790b091027ae22f94c1fc4',
    'tc-004-dask': 'a6ab1aa09ccdbd2abc492f46',
    'tc-004-numpy': 'a6ab1aa09ccdbd2abc492f46',
    'tc-005-dask': 'f8790b091027ae22f94c1fc4',
    'tc-005-numpy': 'f8790b091027ae22f94c1fc4',
    'tc-006-dask': 'f8790b091027ae22f94c1fc4',
    'tc-006-numpy': 'f8790b091027ae22f94c1fc4',
    'tc-007-dask': 'a6ab1aa09ccdbd2abc492f46',
    'tc-007-numpy': 'a6ab1aa09ccdbd2abc492f46',
    'tc-008-dask': 'f8790b091027ae22f94c1fc4',
    'tc-008-numpy': 'f8790b091027ae22f94c1fc4',
    'tc-009-dask': 'a6ab1aa09ccdbd2abc492f46',
    'tc-009-numpy': 'a6ab1aa09ccdbd2abc492f46',
    'tc-010-dask': 'f8790b091027ae22f94c1fc4',
    'tc-010-numpy': 'f8790b091027ae22f94c1fc4',
    'tc-011-dask': 'a6ab1aa09ccdbd2abc492f46',
    'tc-011-numpy': 'a6ab1aa09ccdbd2abc492f46',
    'tc-012-dask': 'f8790b091027ae22f94c1fc4',
    'tc-012-numpy': 'f8790b091027ae22f94c1fc4',
    'tc-013-dask': 'f8790b091027ae22f94c1fc4',
    'tc-013-numpy': 'f8790b091027ae22f94c1fc4',
    'tc-014-dask': 'a6ab1aa09ccdbd2abc492f46',
    'tc-014-numpy': 'a6ab1aa09ccdbd2abc492f46',
    'tc-015-dask': 'a6ab1aa09ccdbd2abc492f46',
    'tc-015-numpy': 'a6ab1aa09ccdbd2abc492f46',
    'tc-016-dask': 'f8790b091027ae22f94c1fc4',
    'tc-016-numpy': 'f8790b091027ae22f94c1fc4',
    'tc-017-dask': 'f8790b091027ae22f94c1fc4',
    'tc-017-numpy': 'f8790b091027ae22f94c1fc4',
    'tc-018-dask': 'f8790b091027ae22f94c1fc4',
    'tc-018-numpy': 'f8790b091027ae22f94c1fc4',
    'tc-019-dask': 'a6ab1aa09ccdbd2abc492f46',
    'tc-019-numpy': 'a6ab1aa09ccdbd2abc492f46',
    'tc-020-dask': 'f8790b091027ae22f94c1fc4',
    'tc-020-numpy': 'f8790b091027ae22f94c1fc4',
    'tc-021-dask': 'f8790b091027ae22f94c1fc4',
    'tc-021-numpy': 'f8790b091027ae22f94c1fc4',
    'tc-022-dask': 'a6ab1aa09ccdbd2abc492f46',
    'tc-022-numpy': 'a6ab1aa09ccdbd2abc492f46',
    'tc-023-dask': 'f8790b091027ae22f94c1fc4',
    'tc-023-numpy': 'f8790b091027ae22f94c1fc4',
    'tc-024-dask': 'a6ab1aa09ccdbd2abc492f46',
    'tc-024-numpy': 'a6ab1aa09ccdbd2abc492f46',
    'tc-025-dask': 'a6ab1aa09ccdbd2abc492f46',
    'tc-025-numpy': 'a6ab1aa09ccdbd2abc492f46',
    'tc-026-dask': 'f8790b091027ae22f94c1fc4',
    'tc-026-numpy': 'f8790b091027ae22f94c1fc4',
    'tc-027-dask': 'a6ab1aa09ccdbd2abc492f46',
    'tc-027-numpy': 'a6ab1aa09ccdbd2abc492f46',
    'tc-028-dask': 'f8790b091027ae22f94c1fc4',
    'tc-028-numpy': 'f8790b091027ae22f94c1fc4',
    'tc-029-dask': 'c9e5cb954ef6c4010e214b95',
    'tc-029-numpy': 'c9e5cb954ef6c4010e214b95',
    'tc-030-dask': '7d7fbb09aaf53b0a3fccfb6e',
    'tc-030-numpy': '7d7fbb09aaf53b0a3fccfb6e',
    'tc-031-dask': '7d6cf52904ea7d50ac3b058c',
    'tc-031-numpy': '7d6cf52904ea7d50ac3b058c',
    'tc-032-dask': 'b504bf1f41c6add7d26e620d',
    'tc-032-numpy': 'b504bf1f41c6add7d26e620d',
    'tc-033-dask': '4fa66a6d53f17013d77a6894',
    'tc-033-numpy': '4fa66a6d53f17013d77a6894',
    'tc-034-dask': '30bbb3c29596d67c2ff0b100',
    'tc-034-numpy': '30bbb3c29596d67c2ff0b100',
    'tc-035-dask': '5a0d68991cb8b1ca481d2179',
    'tc-035-numpy': '5a0d68991cb8b1ca481d2179',
    'tc-036-dask': 'a8058bbb8744eed00bbcca38',
    'tc-036-numpy': 'a8058bbb8744eed00bbcca38',
    'tc-037-dask': '1463d228f6c7d61fd811d9bb',
    'tc-037-numpy': '1463d228f6c7d61fd811d9bb',
    'tc-038-dask': '4fa66a6d53f17013d77a6894',
    'tc-038-numpy': '4fa66a6d53f17013d77a6894',
    'tc-039-dask': 'd2609ed8237d464e391b3ebe',
    'tc-039-numpy': 'd2609ed8237d464e391b3ebe',
    'tc-040-dask': '668bb6862d0d998f0ca319c2',
    'tc-040-numpy': '668bb6862d0d998f0ca319c2',
    'tc-041-dask': '7b32c3f36b9e3a358059ada9',
    'tc-041-numpy': '7b32c3f36b9e3a358059ada9',
    'tc-042-dask': 'c2a98443bafc90ee07b6f55c',
    'tc-042-numpy': 'c2a98443bafc90ee07b6f55c',
    'tc-043-dask': '384d4ff8704fa98c94556cd4',
    'tc-043-numpy': '384d4ff8704fa98c94556cd4',
    'tc-044-dask': 'bf583c0ee1e7709791229354',
    'tc-044-numpy': 'bf583c0ee1e7709791229354',
    'tc-045-dask': '860b3df2b5ea475fb319e81a',
    'tc-045-numpy': '860b3df2b5ea475fb319e81a',
    'tc-046-dask': '3e8fb1b893f5d657aa0c1553',
    'tc-046-numpy': '3e8fb1b893f5d657aa0c1553',
    'tc-047-dask': 'b98446aca58a0770f5547cd9',
    'tc-047-numpy': 'b98446aca58a0770f5547cd9',
    'tc-048-dask': '384d4ff8704fa98c94556cd4',
    'tc-048-numpy': '384d4ff8704fa98c94556cd4',
    'tc-049-dask': '36d250e10dca9e7b3a4264a8',
    'tc-049-numpy': '36d250e10dca9e7b3a4264a8',
    'tc-050-dask': '29c551059c20eb01612e644b',
    'tc-050-numpy': '29c551059c20eb01612e644b',
    'tc-051-dask': '02f871a1596018ce0c624a68',
    'tc-051-numpy': '02f871a1596018ce0c624a68',
    'tc-052-dask': 'f8af050910a0ba3bd2c8a48f',
    'tc-052-numpy': 'f8af050910a0ba3bd2c8a48f',
    'tc-053-dask': '2d565531d7b2c127daca1c8c',
    'tc-053-numpy': '2d565531d7b2c127daca1c8c',
    'tc-054-dask': '120e497e4beaf646da396fb2',
    'tc-054-numpy': '120e497e4beaf646da396fb2',
    'tc-055-dask': 'e7a96a7ad9ab2371f436602e',
    'tc-055-numpy': 'e7a96a7ad9ab2371f436602e',
    'tc-056-dask': '3d880d12e2dae7f1b551a76e',
    'tc-056-numpy': '3d880d12e2dae7f1b551a76e',
    'tc-057-dask': '7afb9a3ce08159a3a071145c',
    'tc-057-numpy': '7afb9a3ce08159a3a071145c',
    'tc-058-dask': 'df4f7b114bd05e7e45e6c37b',
    'tc-058-numpy': 'df4f7b114bd05e7e45e6c37b',
    'tc-059-dask': '4f5b3f249c43899a024210df',
    'tc-059-numpy': '4f5b3f249c43899a024210df',
    'tc-060-dask': '4d762d28a3e9c9ffa39fe13c',
    'tc-060-numpy': '4d762d28a3e9c9ffa39fe13c',
    'tc-061-dask': '051310882446dc7c2c6f3219',
    'tc-061-numpy': '051310882446dc7c2c6f3219',
    'tc-062-dask': 'abb286494b919791ede5db46',
    'tc-062-numpy': 'abb286494b919791ede5db46',
    'tc-063-dask': 'dad84ae47c3e09d6d1c4a0df',
    'tc-063-numpy': 'dad84ae47c3e09d6d1c4a0df',
    'tc-064-dask': '82df657520c8363049c0a3de',
    'tc-064-numpy': '82df657520c8363049c0a3de',
    'tc-065-dask': '22dd31915b4e2e568408386a',
    'tc-065-numpy': '22dd31915b4e2e568408386a',
    'tc-066-dask': 'a12b4bb0645eda33057e352a',
    'tc-066-numpy': 'a12b4bb0645eda33057e352a',
    'tc-067-dask': '149e7f6c34a9785c9bf951e6',
    'tc-067-numpy': '149e7f6c34a9785c9bf951e6',
    'tc-068-dask': 'dad84ae47c3e09d6d1c4a0df',
    'tc-068-numpy': 'dad84ae47c3e09d6d1c4a0df',
    'tc-069-dask': 'ab54f0d6407d049503b8507c',
    'tc-069-numpy': 'ab54f0d6407d049503b8507c',
    'tc-070-dask': '40f8cf39bda237461a1b5025',
    'tc-070-numpy': '40f8cf39bda237461a1b5025',
    'tc-071-dask': '1c129717505bdc19d10e8ff4',
    'tc-071-numpy': '1c129717505bdc19d10e8ff4',
    'tc-072-dask': 'd4bf4b01147bbc77e6def1b3',
    'tc-072-numpy': 'd4bf4b01147bbc77e6def1b3',
    'tc-073-dask': 'df4f7b114bd05e7e45e6c37b',
    'tc-073-numpy': 'df4f7b114bd05e7e45e6c37b',
    'tc-074-dask': '61d1c7ca7414566f0c3e3728',
    'tc-074-numpy': '61d1c7ca7414566f0c3e3728',
    'tc-075-dask': '4232ddd029d49dba6eff015b',
    'tc-075-numpy': '4232ddd029d49dba6eff015b',
    'tc-076-dask': '54b2bfde984aaf33c4c58d2a',
    'tc-076-numpy': '54b2bfde984aaf33c4c58d2a',
    'tc-077-dask': 'e71d9e97f14cfe5e701ecfbb',
    'tc-077-numpy': 'e71d9e97f14cfe5e701ecfbb',
    'tc-078-dask': 'df4f7b114bd05e7e45e6c37b',
    'tc-078-numpy': 'df4f7b114bd05e7e45e6c37b',
    'tc-079-dask': 'd8efa75b5ca4918b53bb16c8',
    'tc-079-numpy': 'd8efa75b5ca4918b53bb16c8',
    'tc-080-dask': 'f59ae5841baa837935e19279',
    'tc-080-numpy': 'f59ae5841baa837935e19279',
    'tc-081-dask': 'da67fe9a304410e599abda97',
    'tc-081-numpy': 'da67fe9a304410e599abda97',
    'tc-082-dask': '0b07711d5744c1f9cf495210',
    'tc-082-numpy': '0b07711d5744c1f9cf495210',
    'tc-083-dask': '155d8b2624d4ffc1117edada',
    'tc-083-numpy': '155d8b2624d4ffc1117edada',
    'tc-084-dask': '870844fb890e590bdd0d242f',
    'tc-084-numpy': '870844fb890e590bdd0d242f',
    'tc-085-dask': '2cefa91ce84018dbd92f50b5',
    'tc-085-numpy': '2cefa91ce84018dbd92f50b5',
    'tc-086-dask': '1eb1056d89d3e47d27285c97',
    'tc-086-numpy': '1eb1056d89d3e47d27285c97',
    'tc-087-dask': 'b4eca3a983838987e5f88bd1',
    'tc-087-numpy': 'b4eca3a983838987e5f88bd1',
    'tc-088-dask': '70c4fda2dd1d97b0a7805dd4',
    'tc-088-numpy': '70c4fda2dd1d97b0a7805dd4',
    'tc-089-dask': '37a1ab4f034944cba3cdabd8',
    'tc-089-numpy': '37a1ab4f034944cba3cdabd8',
    'tc-090-dask': '33f2710ea0ca33043a1fed16',
    'tc-090-numpy': '33f2710ea0ca33043a1fed16',
    'tc-091-dask': '14e62fc2d2c4647dd8a8af48',
    'tc-091-numpy': '14e62fc2d2c4647dd8a8af48',
    'tc-092-dask': '2ef1f6185ad8984facf59dc5',
    'tc-092-numpy': '2ef1f6185ad8984facf59dc5',
    'tc-093-dask': '4ad597f44d4dec7e479f52c7',
    'tc-093-numpy': '4ad597f44d4dec7e479f52c7',
    'tc-094-dask': 'a0b4d1d13e3f1fb880a13dad',
    'tc-094-numpy': 'a0b4d1d13e3f1fb880a13dad',
    'tc-095-dask': '0c0eec8a3d03b6ecedb7fd15',
    'tc-095-numpy': '0c0eec8a3d03b6ecedb7fd15',
    'tc-096-dask': 'd42694c908ef07318eef7e6a',
    'tc-096-numpy': 'd42694c908ef07318eef7e6a',
    'tc-097-dask': 'cd85ee8b4c33828a7fe47613',
    'tc-097-numpy': 'cd85ee8b4c33828a7fe47613',
    'tc-098-dask': '4ad597f44d4dec7e479f52c7',
    'tc-098-numpy': '4ad597f44d4dec7e479f52c7',
    'tc-099-dask': 'd615a774f64cd31b68392b85',
    'tc-099-numpy': 'd615a774f64cd31b68392b85',
    'tc-100-dask': '1516256d0747c2e2d1624b6d',
    'tc-100-numpy': '1516256d0747c2e2d1624b6d',
    'tc-101-dask': '510834a26d50a9b78913ae41',
    'tc-101-numpy': '510834a26d50a9b78913ae41',
    'tc-102-dask': '6f68750e25d1703cc95ebe03',
    'tc-102-numpy': '6f68750e25d1703cc95ebe03',
    'tc-103-dask': '70c4fda2dd1d97b0a7805dd4',
    'tc-103-numpy': '70c4fda2dd1d97b0a7805dd4',
    'tc-104-dask': 'b5e655997dd016bd58714766',
    'tc-104-numpy': 'b5e655997dd016bd58714766',
    'tc-105-dask': '5ca6c6057adab549b496ff85',
    'tc-105-numpy': '5ca6c6057adab549b496ff85',
    'tc-106-dask': '6f795dfbcfe0d750e9bcc5d0',
    'tc-106-numpy': '6f795dfbcfe0d750e9bcc5d0',
    'tc-107-dask': 'ed4789c9c8f2c707fbb6be15',
    'tc-107-numpy': 'ed4789c9c8f2c707fbb6be15',
    'tc-108-dask': '70c4fda2dd1d97b0a7805dd4',
    'tc-108-numpy': '70c4fda2dd1d97b0a7805dd4',
    'tc-109-dask': '2dac158f11babae0429de796',
    'tc-109-numpy': '2dac158f11babae0429de796',
    'tc-110-dask': '688116ccb9b6105ce7080eb7',
    'tc-110-numpy': '688116ccb9b6105ce7080eb7',
    'tc-111-dask': '8229af4cbb0cff8932c47ea4',
    'tc-111-numpy': '8229af4cbb0cff8932c47ea4',
    'tc-112-dask': '82e9ab4725993502c99bbf95',
    'tc-112-numpy': '82e9ab4725993502c99bbf95',
    'tc-113-dask': '345af1dc214c95e9878aadca',
    'tc-113-numpy': '345af1dc214c95e9878aadca',
    'tc-114-dask': 'b9fa21e2f5da2a750a0285da',
    'tc-114-numpy': 'b9fa21e2f5da2a750a0285da',
    'tc-115-dask': 'c21190fa4df474733ba1899c',
    'tc-115-numpy': 'c21190fa4df474733ba1899c',
    'tc-116-dask': '1f280bb091ab317ab95fd38a',
    'tc-116-numpy': '1f280bb091ab317ab95fd38a',
    'tc-117-dask': '29251aade028db6fb243b432',
    'tc-117-numpy': '29251aade028db6fb243b432',
    'tc-118-dask': '345af1dc214c95e9878aadca',
    'tc-118-numpy': '345af1dc214c95e9878aadca',
    'tc-119-dask': 'd0209d58180070de1c308c68',
    'tc-119-numpy': 'd0209d58180070de1c308c68',
    'tc-120-dask': 'e463d8b8234d94a1f1093925',
    'tc-120-numpy': 'e463d8b8234d94a1f1093925',
    'tc-121-dask': '2551e05422a992a20d862062',
    'tc-121-numpy': '2551e05422a992a20d862062',
    'tc-122-dask': '0976dad415168c475842a3c9',
    'tc-122-numpy': '0976dad415168c475842a3c9',
    'tc-123-dask': '74660f693f067275f412b080',
    'tc-123-numpy': '74660f693f067275f412b080',
    'tc-124-dask': 'ea294f981d26408e2fe556f9',
    'tc-124-numpy': 'ea294f981d26408e2fe556f9',
    'tc-125-dask': '04c1c28eada33cb22664a5b5',
    'tc-125-numpy': '04c1c28eada33cb22664a5b5',
    'tc-126-dask': '8ddf1249b6a64468af24344c',
    'tc-126-numpy': '8ddf1249b6a64468af24344c',
    'tc-127-dask': 'c3361e9a57208707a7cd5bf5',
    'tc-127-numpy': 'c3361e9a57208707a7cd5bf5',
    'tc-128-dask': '74660f693f067275f412b080',
    'tc-128-numpy': '74660f693f067275f412b080',
    'tc-129-dask': 'a0e1ff8288ef52a76c2d49e9',
    'tc-129-numpy': 'a0e1ff8288ef52a76c2d49e9',
    'tc-130-dask': 'c36b2874dbe3d30a1d3cbe8d',
    'tc-130-numpy': 'c36b2874dbe3d30a1d3cbe8d',
    'tc-131-dask': 'ef49aa65765c28f7f3f89a9e',
    'tc-131-numpy': 'ef49aa65765c28f7f3f89a9e',
    'tc-132-dask': 'e1133c0d6ca1591c6e061f17',
    'tc-132-numpy': 'e1133c0d6ca1591c6e061f17',
    'tc-133-dask': 'e9a115bfeab59c7a872f1801',
    'tc-133-numpy': 'e9a115bfeab59c7a872f1801',
    'tc-134-dask': 'f85b2f6bb2e864f4b27f84db',
    'tc-134-numpy': 'f85b2f6bb2e864f4b27f84db',
    'tc-135-dask': 'fabb6916cc41eec5cbf5c78f',
    'tc-135-numpy': 'fabb6916cc41eec5cbf5c78f',
    'tc-136-dask': '034fddc83f9e4bf378694e20',
    'tc-136-numpy': '034fddc83f9e4bf378694e20',
    'tc-137-dask': '551c777073cc88921073e06b',
    'tc-137-numpy': '551c777073cc88921073e06b',
    'tc-138-dask': '345af1dc214c95e9878aadca',
    'tc-138-numpy': '345af1dc214c95e9878aadca',
    'tc-139-dask': '5a57ae761d37fc785aec3fb3',
    'tc-139-numpy': '5a57ae761d37fc785aec3fb3',
    'tc-140-dask': '3f7ea812e054647fa1c4eb6b',
    'tc-140-numpy': '3f7ea812e054647fa1c4eb6b',
}


def digest(arr):
    arr = np.ascontiguousarray(arr)
    h = hashlib.sha256()
    h.update(str(arr.dtype).encode())
    h.update(str(arr.shape).encode())
    h.update(arr.tobytes())
    return h.hexdigest()[:24]


def make_band(rng, shape, dtype, nan_frac, kind):
    if kind == 'zeros':
        data = np.zeros(shape)
    elif kind == 'const':
        data = np.full(shape, 7.0)
    elif kind == 'small':
        data = rng.randint(0, 4, size=shape).astype(float)
    else:
        data = rng.uniform(0, 3000, size=shape)
    data = data.astype(dtype)
    if nan_frac and np.issubdtype(data.dtype, np.floating):
        mask = rng.uniform(size=shape) < nan_frac
        data[mask] = np.nan
    return data


def as_agg(data, backend, chunks):
    h, w = data.shape
    if backend == 'dask':
        data = da.from_array(data, chunks=chunks)
    return xr.DataArray(data, dims=['y', 'x'],
                        coords={'y': np.arange(h)[::-1] * 1.5, 'x': np.arange(w) * 0.5},
                        attrs={'res': 1, 'nodata': -1})


def expected_alpha(red, nodata):
    """Independent per-cell alpha: 0 where red is NaN or <= nodata else 255."""
    out = np.empty(red.shape, dtype=np.uint8)
    for idx in np.ndindex(*red.shape):
        v = float(red[idx])
        out[idx] = 0 if (v != v or v <= nodata) else 255
    return out


def main(record):
    rng = np.random.RandomState(1313)
    results = {}
    failures = []
    shapes = [(1, 1), (1, 7), (5, 1), (4, 6), (9, 13)]
    dtypes = [np.uint8, np.uint16, np.int16, np.int32, np.int64, np.float32, np.float64]
    kinds = ['uniform', 'small', 'zeros', 'const']
    params = [dict(), dict(nodata=0), dict(nodata=2.5, c=5.0, th=0.3),
              dict(nodata=-1, c=0.0, th=0.0), dict(nodata=1500, c=20.0, th=0.5)]
    case = 0
    for shape in shapes:
        for dtype in dtypes:
            for kind in kinds:
                case += 1
                nan_frac = [0.0, 0.3, 1.0][case % 3] if kind == 'uniform' else [0.0, 0.4][case % 2]
                r = make_band(rng, shape, dtype, nan_frac, kind)
                g = make_band(rng, shape, dtype, nan_frac / 2, 'uniform')
                b = make_band(rng, shape, dtype, 0.0, kind)
                kw = params[case % len(params)]
                per_backend = {}
                for backend in ('numpy', 'dask'):
                    chunks = (max(1, shape[0] // 2), max(1, shape[1] // 3))
                    ra, ga, ba = (as_agg(x, backend, chunks) for x in (r, g, b))
                    with warnings.catch_warnings():
                        warnings.simplefilter('ignore')
                        res = true_color(ra, ga, ba, **kw)
                        if backend == 'dask':
                            if not isinstance(res.data, da.Array):
                                failures.append((case, backend, 'not lazy'))
                            val = res.data.compute()
                        else:
                            if not isinstance(res.data, np.ndarray):
                                failures.append((case, backend, 'not numpy'))
                            val = res.data
                    key = 'tc-%03d-%s' % (case, backend)
                    results[key] = digest(val)
                    per_backend[backend] = val
                    # structural checks
                    if val.dtype != np.uint8 or val.shape != shape + (4,):
                        failures.append((key, 'dtype/shape', val.dtype, val.shape))
                    if res.dims != ('y', 'x', 'band') or res.name != 'true_color':
                        failures.append((key, 'dims/name'))
                    if list(res['band'].values) != [0, 1, 2, 3] or res.attrs != ra.attrs:
                        failures.append((key, 'coords/attrs'))
                    if not (np.array_equal(res['y'].values, ra['y'].values)
                            and np.array_equal(res['x'].values, ra['x'].values)):
                        failures.append((key, 'yx coords'))
                    # independent alpha check
                    nodata = kw.get('nodata', 1)
                    if not np.array_equal(val[..., 3], expected_alpha(r, nodata)):
                        failures.append((key, 'alpha'))
                if not np.array_equal(per_backend['numpy'], per_backend['dask']):
                    failures.append((case, 'numpy != dask'))

    # float nodata / negative values / inf in red
    special = np.array([[np.nan, -np.inf, np.inf, 0.0, -0.0],
                        [1.0, 1.0000001, 0.9999999, 255.0, 1e30]], dtype=np.float64)
    for nd in (1, 0, -0.0, 1.0000001, np.float32(1.0), -5, 1e30):
        for backend in ('numpy', 'dask'):
            ra = as_agg(special, backend, (1, 2))
            ga = as_agg(special[:, ::-1].copy(), backend, (1, 2))
            ba = as_agg(np.abs(np.nan_to_num(special, posinf=9.0, neginf=3.0)), backend, (1, 2))
            with warnings.catch_warnings():
                warnings.simplefilter('ignore')
                val = np.asarray(true_color(ra, ga, ba, nodata=nd, name='tc2').data)
            key = 'special-%r-%s' % (float(nd), backend)
            results[key] = digest(val)
            if not np.array_equal(val[..., 3], expected_alpha(special, nd)):
                failures.append((key, 'alpha'))

    if record:
        print('EXPECTED = {')
        for k in sorted(results):
            print('    %r: %r,' % (k, results[k]))
        print('}')
        return 0

    for k, v in results.items():
        if EXPECTED.get(k) != v:
            failures.append((k, 'digest', v, EXPECTED.get(k)))
    if set(EXPECTED) != set(results):
        failures.append(('key sets differ',))
    if failures:
        print('xrspatial from', xrspatial.__file__)
        for f in failures[:20]:
            print('FAIL', f)
        print('%d failures' % len(failures))
        return 1
    print('OK: %d results identical (%s)' % (len(results), xrspatial.__file__))
    return 0


if __name__ == '__main__':
    sys.exit(main('--record' in sys.argv))
