"""Differential test for TC13-t21 (evi split into validate / compute / wrap
phases).

Run from inside the worktree:
    cd /tmp/t5/TC13 && PYTHONPATH=/tmp/t5/TC13 /venv/bin/python /tmp/t8/out/TC13-t21/equiv.py
Exit code 0 = identical to the digests recorded on the unmodified tree and to
the independently computed band formula.  `--record` prints the digest table.
"""
import hashlib
import sys
import warnings

import dask.array as da
import numpy as np
import xarray as xr

import xrspatial
from xrspatial import evi as evi_top
from xrspatial.multispectral import evi

EXPECTED = {
    'err-c1+c2': 'ValueError: c1 must be numeric',
    'err-c1-none': 'ValueError: c1 must be numeric',
    'err-c1-npfloat32': 'ValueError: c1 must be numeric',
    'err-c1-npfloat64': 'ok fd04be91b2b2505495858e0f',
    'err-c1-npint': 'ValueError: c1 must be numeric',
    'err-c1-str': 'ValueError: c1 must be numeric',
    'err-c2+soil': 'ValueError: c2 must be numeric',
    'err-c2-npint': 'ValueError: c2 must be numeric',
    'err-c2-str': 'ValueError: c2 must be numeric',
    'err-gain+type': 'ValueError: gain must be greater than 0',
    'err-gain-nan': 'ok b627778b404e96c4a0f482b2',
    'err-gain-neg': 'ValueError: gain must be greater than 0',
    'err-gain-negzero': 'ok dac2a30c52912cfd88420b28',
    'err-shape+c1': 'ValueError: input layers expected to have equal shapes',
    'err-shape-blue': 'ValueError: input layers expected to have equal shapes',
    'err-shape-nir': 'ValueError: input layers expected to have equal shapes',
    'err-shape-red': 'ValueError: input layers expected to have equal shapes',
    'err-soil+gain': 'ValueError: soil factor must be between [-1.0, 1.0]',
    'err-soil-hi': 'ValueError: soil factor must be between [-1.0, 1.0]',
    'err-soil-lo': 'ValueError: soil factor must be between [-1.0, 1.0]',
    'err-soil-nan': 'ok b627778b404e96c4a0f482b2',
    'err-soil-str': "TypeError: '>' not supported between instances of 'str' and 'float'",
    'err-type-blue': 'ValueError: input arrays must have same type',
    'err-type-nir': 'ValueError: input arrays must have same type',
    'err-type-red': 'ValueError: input arrays must have same type',
    'evi-001-dask': '2705bc46b5bf839e9ed65cf6',
    'evi-001-numpy': '0715d68d158a4d0614f370e6',
    'evi-002-dask': '9929f1c37f303effd861be99',
    'evi-002-numpy': '6dd3e4b5a3f3a242518e55ff',
    'evi-003-dask': '935bd5ef567e7b8e1ae59b78',
    'evi-003-numpy': '29deebdb8640ba9f32e05521',
    'evi-004-dask': '51dc81454b7e73170951cb01',
    'evi-004-numpy': 'a5f39a168e16ff584177586b',
    'evi-005-dask': '8f9369bf688b290bd38ef668',
    'evi-005-numpy': 'daa309b2355a34f4c0881375',
    'evi-006-dask': '909de9570097d09233724be8',
    'evi-006-numpy': '28aec1f4afe3e688380ce2f0',
    'evi-007-dask': '8cc81262fd8e1db4611b2d63',
    'evi-007-numpy': '451ce52bbd5c31c340a70d33',
    'evi-008-dask': 'bd0574b3d06105ee2a53a97b',
    'evi-008-numpy': 'eec83e91559763c8c7d16af8',
    'evi-009-dask': 'd12b5c6f7d7c3d84688bd2fc',
    'evi-009-numpy': '3c49295b632509265e196b85',
    'evi-010-dask': 'e6f83b35718193b81533e9ed',
    'evi-010-numpy': 'de503c10ddf634cddeb67c3c',
    'evi-011-dask': '074e240be64205f310a6904c',
    'evi-011-numpy': 'f2bdacf9b00c5f83863dab90',
    'evi-012-dask': 'ad3054e9124541e235cbef86',
    'evi-012-numpy': '806d640eb34566921dbcea6b',
    'evi-013-dask': '3e8ddf9b6132c7569c574419',
    'evi-013-numpy': '1411548174d2d45d0df37ef6',
    'evi-014-dask': '53705d61b346cea11f5653a6',
    'evi-014-numpy': '8d9d651e163419db3bd3039e',
    'evi-015-dask': '6a3bc01a5023acbbfb01db32',
    'evi-015-numpy': '44d48b4bf0cda9ffa95f7dfa',
    'evi-016-dask': '3baebf974040e189d0e6135b',
    'evi-016-numpy': '8cd30078b287fec0cdeac8c4',
    'evi-017-dask': '0f896c1a28ee41f48a177294',
    'evi-017-numpy': 'dc17f786b84984eb1dfe6f23',
    'evi-018-dask': 'c3a2ad88698d865bb4bd1762',
    'evi-018-numpy': '1190944eb4e73fc248499d53',
    'evi-019-dask': '63d38389de023a30d073b5e8',
    'evi-019-numpy': 'fb16ebdf48e2c503a50c7b83',
    'evi-020-dask': 'bc7c1f17f725b5d205912b50',
    'evi-020-numpy': '1bc519f5fd9614358f86b483',
    'evi-021-dask': '0b14a6ca404f27240a1435a2',
    'evi-021-numpy': '4859731dc7588c3eb9aebdc5',
    'evi-022-dask': 'd16dcb36240d73416a3e5d43',
    'evi-022-numpy': 'ce3739077f6fa18c8b8ca495',
    'evi-023-dask': 'd330ce192a9cb3f7773c7817',
    'evi-023-numpy': 'fb6b728bc5e1d918ad8ad3c6',
    'evi-024-dask': 'c78a612ef4616726b27f9579',
    'evi-024-numpy': '478f94edc917544b676f7a37',
    'evi-025-dask': '3af0fc089b1797636cba9eed',
    'evi-025-numpy': '7309f4ba58517f39f873e24c',
    'evi-026-dask': '4c16e2c5f51fb754528c2989',
    'evi-026-numpy': '243a56e2f5ee010911c78182',
    'evi-027-dask': 'fc89b28919588119bb8cf4c1',
    'evi-027-numpy': '6fb5f02eb27962ecb7125982',
    'evi-028-dask': '4e6b7893fff54f45659e7a76',
    'evi-028-numpy': 'f748ff118b72b496b269a666',
    'evi-029-dask': '8f46a6d7458731661e8d555a',
    'evi-029-numpy': 'e6fb707133a46853db1702f8',
    'evi-030-dask': 'b1850a280f67c0932dac30e4',
    'evi-030-numpy': '8aa8b3337b013508c145df94',
    'evi-031-dask': 'e61a9f8af3d60cb71c58a8d9',
    'evi-031-numpy': '7060acdf92da66c89c4496c2',
    'evi-032-dask': '73272b75d7fb9ca6cc1a7410',
    'evi-032-numpy': '4c1eb7387bf80aef20941ce5',
    'evi-033-dask': '823813fb03190ca302e5e910',
    'evi-033-numpy': '417ae76a8fcd1c84aa9b5301',
    'evi-034-dask': 'd963561d1cc6fefbd712cf92',
    'evi-034-numpy': '5625e34587610f74dcd125b3',
    'evi-035-dask': '10fd193199c2f9ee9dc714f7',
    'evi-035-numpy': 'fbe6d921e8688ce70b833601',
    'evi-036-dask': '71ae49804f9c55fdc7908f7f',
    'evi-036-numpy': '77d6ea3fe3878c82dc2d5d70',
    'evi-037-dask': 'd04bd0d9b4fc18ff62365541',
    'evi-037-numpy': 'c7c91f0d77bf368608fe0546',
    'evi-038-dask': '4667049131b1b830a0fb11ea',
    'evi-038-numpy': '55fc278b60df582f535ea611',
    'evi-039-dask': '29879c6fedd858ec42e217ed',
    'evi-039-numpy': '918403f983d7fd8843d10c63',
    'evi-040-dask': 'a8841319f08bb1d23c0f508d',
    'evi-040-numpy': '25e8bee9663620b5fa9f4f18',
    'evi-041-dask': '79a51ce27ae452185f68e61e',
    'evi-041-numpy': '98311993627fd176abe6a713',
    'evi-042-dask': 'b41041b3dbb808329273b1bd',
    'evi-042-numpy': 'b40b7bf391ff41c313e049b4',
    'evi-043-dask': 'bbcf868cb20711179f3cb6e9',
    'evi-043-numpy': '66235b219c24075db8eb52cd',
    'evi-044-dask': '1ce26a292362a89bd7b6ef42',
    'evi-044-numpy': '0d65f03496daac8837b9860d',
    'evi-045-dask': '661aedd333b22c7bf8f407b8',
    'evi-045-numpy': 'f5affa38c0abf2dee5351319',
    'evi-046-dask': 'f3e6b1d5a3ae77fce2be1c7b',
    'evi-046-numpy': '5f44f3417a7370abe638e341',
    'evi-047-dask': '59b135c8ae09ba3056ef0ff9',
    'evi-047-numpy': '8f72e1bb64f0232803b961a3',
    'evi-048-dask': '411d450b873cb5e50957217f',
    'evi-048-numpy': '3478011f49511f275375eb8e',
    'evi-049-dask': '53493f308f9bdc674427ae3c',
    'evi-049-numpy': '4c2da2fe509bde72af91dbbc',
    'evi-050-dask': '4901298b7c93adfdda0d7c54',
    'evi-050-numpy': '938ea5c5d34deb4ab2b5e07b',
    'evi-051-dask': 'f0c5c1f558e89191eeb2aec4',
    'evi-051-numpy': 'cab65ee8016b2cb59a0645b7',
    'evi-052-dask': 'db964d7065f8e288a6912cfa',
    'evi-052-numpy': '6cb35570fb3cac9bb6ce1153',
    'evi-053-dask': 'fcc52231381e9c43bd4ce6a3',
    'evi-053-numpy': 'a9cc81f159cce63793a3c946',
    'evi-054-dask': '628f8df78bf2cbb671943482',
    'evi-054-numpy': '4b276af13e4c2a514f95de71',
    'evi-055-dask': '9d0f96f76ea01cfe53141c37',
    'evi-055-numpy': 'bb001070e2259f916dce9712',
    'evi-056-dask': '77643ed29fb84cfd5f9cd45d',
    'evi-056-numpy': '059e019c31a16070507f37ec',
    'evi-057-dask': '72d3e568262bef3548683485',
    'evi-057-numpy': 'c77d7c86921c42b7c0d5026e',
    'evi-058-dask': '25e86bfe6b1228d0120447a4',
    'evi-058-numpy': '7fb070a1dbad3ed3f419193c',
    'evi-059-dask': 'efb40b80eafcfe0dc33effd3',
    'evi-059-numpy': '2e1b446bd2409abaf633b410',
    'evi-060-dask': '43ca80dd698912fd8da754b0',
    'evi-060-numpy': '7e34a84260460c6eb0c74a06',
    'evi-061-dask': 'a67fdfaa3eb322d11f830c0a',
    'evi-061-numpy': 'b265e054555f7ed80c09065c',
    'evi-062-dask': '57986fc2469598285e7bf424',
    'evi-062-numpy': '6bf3609fae63bee12e8cf850',
    'evi-063-dask': '9e8f781925441b6091587fd6',
    'evi-063-numpy': 'c1bc792c4a420c790e25828e',
    'evi-064-dask': '0ca588628a781c64b99b7850',
    'evi-064-numpy': 'ad28948252a2dda899d2bfa8',
    'evi-065-dask': '58e80a9c73a8bda0c776a369',
    'evi-065-numpy': '1989bbfe33b06e59d3a2ee9a',
    'evi-066-dask': 'a2a9f59e0ee3dc76a858e72e',
    'evi-066-numpy': '25ec270a083e8bd7bf0f872c',
    'evi-067-dask': 'f00827e7fdf7c93843c551de',
    'evi-067-numpy': 'e5e186a01626f43c139e4da4',
    'evi-068-dask': '362b9c0a8ba38c13242a76e9',
    'evi-068-numpy': '51d0a1d68c2b2440aa404465',
    'evi-069-dask': 'ca83c52bd5303c857d901a8d',
    'evi-069-numpy': '22b409fb493eac73676c3d3e',
    'evi-070-dask': '13199e0531a58fffb3ce1dc1',
    'evi-070-numpy': 'b8f739bea2760c5aad00cffe',
    'evi-071-dask': '978eae226f46daadde774a9d',
    'evi-071-numpy': '4a47e4b1f5673129858ae297',
    'evi-072-dask': 'd34a2c6c570cf41b65502c0c',
    'evi-072-numpy': 'ce973e01d9b3045951b50f82',
    'evi-073-dask': '9a43fc2dc349e11e57dd9922',
    'evi-073-numpy': '611a55bd885eb1931ef5a863',
    'evi-074-dask': '54f385db2e21a2cfcceb62db',
    'evi-074-numpy': 'c7e5dfcbc25e3463cae82f93',
    'evi-075-dask': '5dcb0f6b4b011ee50f0be952',
    'evi-075-numpy': 'd006b4651841f0f8de9a1887',
    'evi-076-dask': 'b2ad9bc55c7293061042ca84',
    'evi-076-numpy': 'cbfc2cb0a6b4519798cb4f36',
    'evi-077-dask': '4b2a5bb8c9281c735819ecb3',
    'evi-077-numpy': 'de01ecd7a92ea21c53bca0cf',
    'evi-078-dask': 'e73b1b67699a1f3949214fa0',
    'evi-078-numpy': 'ba35a457c490408dd6ebdcf4',
    'evi-079-dask': '6841fe475825a84f189dbfcf',
    'evi-079-numpy': '9f41f48e7da8fe3b88c1509c',
    'evi-080-dask': '2d40d3fdea069057de90a4af',
    'evi-080-numpy': 'be490b38d5a73c4da3b32fc4',
    'evi-081-dask': '31684aeebba7c74c4bad7087',
    'evi-081-numpy': 'e2cd79cbbfaffee44333ef84',
    'evi-082-dask': 'e9c7eb18167b08d736601bb5',
    'evi-082-numpy': '786d0fe0d3c2186adfda067a',
    'evi-083-dask': '0bc75b92e36a6d54c9cf58ed',
    'evi-083-numpy': 'd72af884fcbcac95a9311c2d',
    'evi-084-dask': 'ae16835b773e4c568432df34',
    'evi-084-numpy': '6a7c30efc7bb84aaffb8c203',
    'evi-085-dask': '67a851d55c86c178cb5076b5',
    'evi-085-numpy': '3fb5237d535b332b64b32825',
    'evi-086-dask': 'a3bb35267c63288bc9529ede',
    'evi-086-numpy': 'e50680b3ab9ae1280f766ef7',
    'evi-087-dask': '244d8006515fc7109b6d4c01',
    'evi-087-numpy': '48e631089bb31baeee2b64b9',
    'evi-088-dask': 'ca142fef5a05eecdb9f79f50',
    'evi-088-numpy': '4a161ebf22076729431c4702',
    'evi-089-dask': '1c6a1b0469bb35758d43e09f',
    'evi-089-numpy': 'e3335bb3c506b0d72c4e1ac1',
    'evi-090-dask': 'ead69624107eb9bdba360d57',
    'evi-090-numpy': '278f9de32d6bc2fb3c8a0353',
    'evi-091-dask': '78294059c906c41a3e8a6685',
    'evi-091-numpy': 'ddcf203eb7d9672276fd8e94',
    'evi-092-dask': '73333548255fc1fe99bd30a1',
    'evi-092-numpy': 'a1a00a6b04c63f8cb19b48ad',
    'evi-093-dask': '23c764d9d28f7cd3c5849013',
    'evi-093-numpy': '85254593a52a8a34c2a0d032',
    'evi-094-dask': '47455d50b17dd8ad821a7cc4',
    'evi-094-numpy': 'b9664b8f34a934353ae2e2e1',
    'evi-095-dask': '3eb037777891df97e64380d4',
    'evi-095-numpy': '4a87ad5ef55f5386df2f5dfb',
    'evi-096-dask': '8bfb0a9892970c1b0cdd66ea',
    'evi-096-numpy': 'a9184feb2aaa5e6e9c774ab7',
    'evi-097-dask': '77b72db5b8b2e6f1ac8a341c',
    'evi-097-numpy': '9c85d5d67b84456a5e7f9b6a',
    'evi-098-dask': '2c8ab03f0c6ee7c14d1354b2',
    'evi-098-numpy': 'd231472d58171521d700c7b4',
    'evi-099-dask': 'ade62419824c2e31b9248018',
    'evi-099-numpy': '20666e6d92282a3ce6de5a64',
    'evi-100-dask': '2221f282a5ca22f7b692633f',
    'evi-100-numpy': '531dae7838179cf655608d7f',
    'evi-101-dask': '96dd7b52baa452d9ae1451ce',
    'evi-101-numpy': '10783f28d8140d1cd22bf454',
    'evi-102-dask': '641ee2f43956dd838849a876',
    'evi-102-numpy': 'b60133ca684355906acf5b52',
    'evi-103-dask': '3aee8640bd291719e2f08d81',
    'evi-103-numpy': '1385bf4355a0d82a4f4f3687',
    'evi-104-dask': 'ef6c93feeb8a683cc5e4158e',
    'evi-104-numpy': 'd01afbaf86b4de5ca8733ffb',
    'evi-105-dask': 'e9fd34497177115af57ff5c6',
    'evi-105-numpy': '5c2fddc1ad197d81ce1f9ceb',
    'evi-106-dask': '3954230d14ac98a688526dc3',
    'evi-106-numpy': 'db630511ec0f0200df3a7a9c',
    'evi-107-dask': '2062488db17eab059a4abc5e',
    'evi-107-numpy': '623c8367d84a485fed622132',
    'evi-108-dask': 'a8b4c46ce3d44065d073b188',
    'evi-108-numpy': '662494989d1d0e329a93d9e2',
    'evi-109-dask': '91e7f3d3cf98d8380927508c',
    'evi-109-numpy': 'f9965b25b6cf6ba84c921d41',
    'evi-110-dask': '7b00768d71a81c2802471bf8',
    'evi-110-numpy': 'ee1e7b22cd8cbf99140d5d84',
    'evi-111-dask': '7d9692af1947f653800b76b6',
    'evi-111-numpy': 'f84edcbfc7a84456e5c4f527',
    'evi-112-dask': 'd21ba5de977f0b699d401a89',
    'evi-112-numpy': '1e5034eb00fbdd49633fc1b5',
    'evi-113-dask': '1fd46a2e4b4ab2e657b89867',
    'evi-113-numpy': 'dfff6d1c61604bfc3d84f34f',
    'evi-114-dask': 'd80bf3fe50a3dfef8f4929c0',
    'evi-114-numpy': '089b110d779d899065bd3dc4',
    'evi-115-dask': 'acb2ba82d88b0c77013758db',
    'evi-115-numpy': 'e60b19d7972fd915c3ae22eb',
    'evi-116-dask': 'd4abbb583a60ae08e0b0f188',
    'evi-116-numpy': '6c1e24a64017ad6d13191a9b',
    'evi-117-dask': 'f634c80145f2062f3efb022b',
    'evi-117-numpy': 'b3c0daf457f8808b35e4ac30',
    'evi-118-dask': '32e733d7adc90abdf74da4f4',
    'evi-118-numpy': '8340e27c6cd3fd7f3b478847',
    'evi-119-dask': '94effaa2e5f0353ed99319b8',
    'evi-119-numpy': '6900cabc4be048fb7a650430',
    'evi-120-dask': 'eb151fea5905f99062d57f05',
    'evi-120-numpy': 'f58a2f77e48b060369f2b2b4',
    'evi-121-dask': '3297cdffa867571592b81250',
    'evi-121-numpy': 'e5df210cef80c1dfb2485be6',
    'evi-122-dask': 'eb78e7e301a678febcba049a',
    'evi-122-numpy': '45bb17c00cdbe384d80a00f6',
    'evi-123-dask': 'c99cffd48b307fe1eb31a9b7',
    'evi-123-numpy': '8d93409742ad21513436ec1a',
    'evi-124-dask': '063f55d5295cc0ac871ff1a3',
    'evi-124-numpy': '8a95532fd9ca2af3973ce999',
    'evi-125-dask': '7a0f9a6124ea80f9bcaa79b0',
    'evi-125-numpy': '3f22b7e87f0a68a87c64d5c4',
    'evi-126-dask': 'e872c330629cf73de02400e3',
    'evi-126-numpy': 'af01bc2dd4ec0b5b1cbed3c8',
    'evi-127-dask': '4d8556917e4d2ed5084a052b',
    'evi-127-numpy': '0d3a8816d201aa0eff6c522a',
    'evi-128-dask': '8b58557a05c7ca5d85181db9',
    'evi-128-numpy': '14e7a4fe790a5819665450e0',
    'evi-129-dask': 'c33f1bfc6a12663d912d56f3',
    'evi-129-numpy': 'e0abdcbc809e521d87262f62',
    'evi-130-dask': '5a8e56963c3670a91f379cc4',
    'evi-130-numpy': 'a3b00cca2c7a71e81b57950e',
    'evi-131-dask': '08adc07b2c4350b5bbc7d50f',
    'evi-131-numpy': '0478ceb12841b0bba95dfbc8',
    'evi-132-dask': '8bcc449346948e75a99c605c',
    'evi-132-numpy': '3cb5ae3dd3251dd26ee53471',
    'evi-133-dask': '10ad8811521aa73884b607a9',
    'evi-133-numpy': '9759821cef1702085a9b4e0d',
    'evi-134-dask': '8de865f8b942ab3c370b1dba',
    'evi-134-numpy': '1f9aa4ea2c7cdfec886b41d0',
    'evi-135-dask': '7e978ff207ae4cdcb9509375',
    'evi-135-numpy': '21524c65c2478ee4d0b144f0',
    'evi-136-dask': '51d4c26c1ab2e4736e5c68c5',
    'evi-136-numpy': 'c5ca5187fa7c89aff4a62a84',
    'evi-137-dask': '7f0780d5ab4127af88132577',
    'evi-137-numpy': '3875081f48b8258f75a70625',
    'evi-138-dask': 'a365082255649f793d2d3e8f',
    'evi-138-numpy': '078b4338b66e096780b619a2',
    'evi-139-dask': '3beb88db922b649a19ef1f0e',
    'evi-139-numpy': '5f96b79d158e477ccc864dea',
    'evi-140-dask': '572eff1710dd58a0fc10487e',
    'evi-140-numpy': '1caad1ab5f41a05499400dcd',
}


def digest(arr, extra=''):
    arr = np.ascontiguousarray(arr)
    h = hashlib.sha256()
    h.update(str(arr.dtype).encode())
    h.update(str(arr.shape).encode())
    h.update(arr.tobytes())
    h.update(extra.encode())
    return h.hexdigest()[:24]


def make_band(rng, shape, dtype, nan_frac, kind):
    top = 200 if np.dtype(dtype).itemsize == 1 else 20000
    if kind == 'zeros':
        data = np.zeros(shape)
    elif kind == 'small':
        data = rng.randint(0, 3, size=shape).astype(float)
    elif kind == 'unit':
        data = rng.uniform(0, 1, size=shape)
    else:
        data = rng.uniform(0, top, size=shape)
    data = data.astype(dtype)
    if nan_frac and data.dtype.kind == 'f':
        data[rng.uniform(size=shape) < nan_frac] = np.nan
    return data


def as_agg(data, backend, chunks, attrs):
    h, w = data.shape
    if backend == 'dask':
        data = da.from_array(data, chunks=chunks)
    return xr.DataArray(data, dims=['y', 'x'],
                        coords={'y': np.arange(h) * -2.0, 'x': np.arange(w) + 0.5},
                        attrs=attrs)


def formula(nir, red, blue, c1, c2, soil, gain):
    """gain * (nir - red) / (nir + c1*red - c2*blue + L): bands rounded to single
    precision, coefficient arithmetic in double, result stored in single."""
    nir = nir.astype(np.float32)
    red = red.astype(np.float32)
    blue = blue.astype(np.float32)
    out = np.full(nir.shape, np.nan, dtype=np.float32)
    for idx in np.ndindex(*nir.shape):
        num = float(np.float32(nir[idx] - red[idx]))
        den = float(nir[idx]) + c1 * float(red[idx]) - c2 * float(blue[idx]) + soil
        if den != 0.0:
            out[idx] = np.float32(gain * (num / den))
    return out


def same(x, y):
    return x.dtype == y.dtype and x.shape == y.shape and np.array_equal(x, y, equal_nan=True)


PARAMS = [
    dict(),
    dict(c1=6, c2=7, soil_factor=1, gain=2),
    dict(c1=0.0, c2=0.0, soil_factor=0.0, gain=1.0),
    dict(c1=2.5, c2=1.25, soil_factor=-1.0, gain=0),
    dict(c1=1, c2=2.0, soil_factor=-0.5, gain=0.0),
    dict(c1=0, c2=1, soil_factor=0, gain=3.5),
    dict(c1=7.5, c2=6.0, soil_factor=0.25, gain=10),
    dict(c1=True, c2=False, soil_factor=0.5, gain=1.5),
]


def main(record):
    rng = np.random.RandomState(2121)
    results = {}
    failures = []
    shapes = [(1, 1), (1, 8), (7, 1), (5, 6), (10, 9)]
    dtypes = [np.uint8, np.uint16, np.int16, np.int32, np.int64, np.float32, np.float64]
    kinds = ['uniform', 'small', 'zeros', 'unit']
    case = 0
    with warnings.catch_warnings():
        warnings.simplefilter('ignore')
        for shape in shapes:
            for dtype in dtypes:
                for kind in kinds:
                    case += 1
                    nan_frac = [0.0, 0.25, 1.0][case % 3]
                    nir = make_band(rng, shape, dtype, nan_frac, kind)
                    red = nir.copy() if case % 5 == 0 else make_band(rng, shape, dtype, nan_frac / 2, kind)
                    blue = nir.copy() if case % 11 == 0 else make_band(rng, shape, dtype, 0.0, kind)
                    kw = dict(PARAMS[case % len(PARAMS)])
                    full = dict(c1=6.0, c2=7.5, soil_factor=1.0, gain=2.5)
                    full.update(kw)
                    exp = formula(nir, red, blue, full['c1'], full['c2'], full['soil_factor'], full['gain'])
                    vals = {}
                    for backend in ('numpy', 'dask'):
                        ca = (max(1, shape[0] // 2), max(1, shape[1] // 3))
                        cb = ca if case % 2 else (shape[0], max(1, shape[1] // 2))   # forces rechunk
                        N = as_agg(nir, backend, ca, {'res': 10, 'id': case})
                        R = as_agg(red, backend, cb, {'r': 1})
                        B = as_agg(blue, backend, cb, {'b': 1})
                        if case % 3 == 0:
                            kw2 = dict(kw, name='evi_%d' % case)
                            res = evi(nir_agg=N, red_agg=R, blue_agg=B, **kw2)
                        elif case % 3 == 1:
                            kw2 = kw
                            res = evi_top(N, R, B, **kw)
                        else:
                            kw2 = kw
                            res = evi(N, R, B, full['c1'], full['c2'], full['soil_factor'], full['gain'])
                        lazy = ''
                        if backend == 'dask':
                            if not isinstance(res.data, da.Array):
                                failures.append((case, 'not lazy'))
                            lazy = '%s|%s|%s' % (res.data.dtype, res.data.chunks, type(res.data._meta).__name__)
                            # validate_arrays re-chunks the later bands in place: keep that visible
                            lazy += '|%s|%s' % (R.chunks, B.chunks)
                            val = res.data.compute()
                        else:
                            if not isinstance(res.data, np.ndarray):
                                failures.append((case, 'not numpy'))
                            val = res.data
                        key = 'evi-%03d-%s' % (case, backend)
                        meta = '%s|%s|%s|%s' % (res.name, res.dims, sorted(res.attrs.items()), lazy)
                        results[key] = digest(val, meta)
                        vals[backend] = val
                        if res.name != kw2.get('name', 'evi'):
                            failures.append((key, 'name', res.name))
                        if res.attrs != N.attrs or res.dims != N.dims:
                            failures.append((key, 'attrs/dims'))
                        if not all(np.array_equal(res[d].values, N[d].values) for d in N.dims):
                            failures.append((key, 'coords'))
                        if not same(val, exp):
                            failures.append((key, 'formula'))
                        if np.isinf(val).any():
                            failures.append((key, 'inf'))
                    if not same(vals['numpy'], vals['dask']):
                        failures.append((case, 'numpy != dask'))

        # argument checking: messages and precedence between checks
        ok = as_agg(np.ones((3, 4)), 'numpy', None, {})
        bad_shape = as_agg(np.ones((4, 3)), 'numpy', None, {})
        lazy_ok = as_agg(np.ones((3, 4)), 'dask', (2, 2), {})
        err_cases = {
            'shape-nir': ((bad_shape, ok, ok), {}),
            'shape-red': ((ok, bad_shape, ok), {}),
            'shape-blue': ((ok, ok, bad_shape), {}),
            'shape+c1': ((ok, bad_shape, ok), dict(c1='6')),
            'c1-str': ((ok, ok, ok), dict(c1='6')),
            'c1-none': ((ok, ok, ok), dict(c1=None)),
            'c1-npfloat32': ((ok, ok, ok), dict(c1=np.float32(6))),
            'c1-npfloat64': ((ok, ok, ok), dict(c1=np.float64(6))),
            'c1-npint': ((ok, ok, ok), dict(c1=np.int64(6))),
            'c2-str': ((ok, ok, ok), dict(c2='7.5')),
            'c2-npint': ((ok, ok, ok), dict(c2=np.int32(7))),
            'c1+c2': ((ok, ok, ok), dict(c1=[6], c2='x')),
            'c2+soil': ((ok, ok, ok), dict(c2='x', soil_factor=3)),
            'soil-hi': ((ok, ok, ok), dict(soil_factor=1.0000001)),
            'soil-lo': ((ok, ok, ok), dict(soil_factor=-1.5)),
            'soil-nan': ((ok, ok, ok), dict(soil_factor=float('nan'))),
            'soil-str': ((ok, ok, ok), dict(soil_factor='1')),
            'soil+gain': ((ok, ok, ok), dict(soil_factor=2, gain=-1)),
            'gain-neg': ((ok, ok, ok), dict(gain=-0.001)),
            'gain-negzero': ((ok, ok, ok), dict(gain=-0.0)),
            'gain-nan': ((ok, ok, ok), dict(gain=float('nan'))),
            'gain+type': ((ok, lazy_ok, ok), dict(gain=-1)),
            'type-red': ((ok, lazy_ok, ok), {}),
            'type-blue': ((ok, ok, lazy_ok), {}),
            'type-nir': ((lazy_ok, ok, ok), {}),
        }
        for label, (args, kw) in err_cases.items():
            try:
                res = evi(*args, **kw)
                msg = 'ok ' + digest(np.asarray(res.data))
            except Exception as e:  # noqa
                msg = '%s: %s' % (type(e).__name__, e)
            results['err-' + label] = msg

    if record:
        print('EXPECTED = {')
        for k in sorted(results):
            print('    %r: %r,' % (k, results[k]))
        print('}')
        return 0

    for k, v in results.items():
        if EXPECTED.get(k) != v:
            failures.append((k, 'digest', v, EXPECTED.get(k)))
    if set(EXPECTED) != set(results):
        failures.append(('key sets differ',))
    if failures:
        print('xrspatial from', xrspatial.__file__)
        for f in failures[:20]:
            print('FAIL', f)
        print('%d failures' % len(failures))
        return 1
    print('OK: %d results identical (%s)' % (len(results), xrspatial.__file__))
    return 0


if __name__ == '__main__':
    sys.exit(main('--record' in sys.argv))
