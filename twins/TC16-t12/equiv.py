"""Differential test for xrspatial.zonal.regions (property C16).

Run from inside the worktree:
    cd /tmp/t5/TC16 && PYTHONPATH=/tmp/t5/TC16 /venv/bin/python <this file>

Checks, over a deterministic battery of rasters (exhaustive small ones, random
larger ones, many dtypes, NaN / inf / nearly-equal floats, 1xN, Nx1, 0-size):
  1. bit-exact output (values, dtype, shape) against a SHA-256 digest recorded
     from the unmodified tree (EXPECTED below);
  2. for integer-valued rasters, an independent flood-fill reference: labels
     induce exactly the partition into connected components of equal value,
     labels positive, NaN stays NaN, dims/coords/attrs/name preserved;
  3. error behaviour: bad neighbourhood -> ValueError (same message),
     dask-backed input -> numba TypingError (as on the unmodified tree).
Exit 0 when everything is identical, 1 otherwise.  `--record` prints digest.
"""
import hashlib
import itertools
import sys

import numpy as np
import xarray as xr

import xrspatial
from xrspatial.zonal import regions

EXPECTED = "410c8ed60f7cc176f7edf20f3d7e133941e84a6dd7f171fffc19ea3a744c67c9"

INT_DTYPES = [np.int8, np.uint8, np.int16, np.int32, np.int64, np.uint64]
FLT_DTYPES = [np.float32, np.float64]


def ref_components(vals, n):
    """Independent flood fill: component id per cell (-1 for NaN)."""
    rows, cols = vals.shape
    comp = -np.ones((rows, cols), dtype=np.int64)
    if n == 4:
        nbrs = [(-1, 0), (1, 0), (0, -1), (0, 1)]
    else:
        nbrs = [(dy, dx) for dy in (-1, 0, 1) for dx in (-1, 0, 1)
                if (dy, dx) != (0, 0)]
    cur = 0
    for y in range(rows):
        for x in range(cols):
            if comp[y, x] >= 0 or np.isnan(vals[y, x]):
                continue
            comp[y, x] = cur
            stack = [(y, x)]
            while stack:
                cy, cx = stack.pop()
                for dy, dx in nbrs:
                    yy, xx = cy + dy, cx + dx
                    if 0 <= yy < rows and 0 <= xx < cols and comp[yy, xx] < 0 \
                            and vals[yy, xx] == vals[cy, cx]:
                        comp[yy, xx] = cur
                        stack.append((yy, xx))
            cur += 1
    return comp


def same_partition(lab, comp):
    m = comp >= 0
    a = lab[m]
    b = comp[m]
    if a.size == 0:
        return True
    pairs = set(zip(a.tolist(), b.tolist()))
    return len(pairs) == len(set(a.tolist())) == len(set(b.tolist()))


def make_inputs():
    rng = np.random.default_rng(160016)
    cases = []  # (tag, array, integer_valued)
    # exhaustive: binary alphabet, all shapes with <= 9 cells (subset of shapes)
    for shape in [(1, 1), (1, 4), (4, 1), (2, 2), (2, 3), (3, 2), (3, 3), (1, 7), (7, 1)]:
        k = shape[0] * shape[1]
        for bits in itertools.product((0, 1), repeat=k):
            cases.append(("ex2", np.array(bits, dtype=np.int64).reshape(shape), True))
    # exhaustive: ternary alphabet incl. NaN on 2x3 / 3x2 / 1x5 (float)
    for shape in [(2, 3), (3, 2), (1, 5), (5, 1)]:
        k = shape[0] * shape[1]
        for v in itertools.product((0.0, 1.0, np.nan), repeat=k):
            cases.append(("ex3nan", np.array(v, dtype=np.float64).reshape(shape), True))
    # random larger, all integer dtypes
    for dt in INT_DTYPES:
        for shape in [(6, 7), (9, 5), (1, 23), (19, 1), (12, 12), (17, 11)]:
            for alpha in (2, 3, 5):
                a = rng.integers(0, alpha, size=shape).astype(dt)
                cases.append(("rint", a, True))
    # signed values / extremes
    a = rng.integers(-2, 2, size=(10, 9)).astype(np.int8)
    cases.append(("signed", a, True))
    a = rng.choice(np.array([0, 255], dtype=np.uint8), size=(8, 8))
    cases.append(("u8ext", a, True))
    a = rng.choice(np.array([np.iinfo(np.int64).max, np.iinfo(np.int64).min, 0]), size=(8, 8))
    cases.append(("i64ext", a, True))
    a = rng.choice(np.array([2**64 - 1, 2**63, 0], dtype=np.uint64), size=(7, 9))
    cases.append(("u64ext", a, True))
    # random float (integer valued) with NaNs
    for dt in FLT_DTYPES:
        for shape in [(6, 7), (1, 23), (19, 1), (13, 12), (16, 15)]:
            for alpha in (2, 3, 4):
                a = rng.integers(0, alpha, size=shape).astype(dt)
                a[rng.random(shape) < 0.2] = np.nan
                cases.append(("rflt", a, True))
    # spirals / snakes that force many label merges
    for nn in (5, 8, 11):
        a = np.zeros((nn, nn), dtype=np.int32)
        a[::2, :] = 1
        a[1::4, -1] = 1
        a[3::4, 0] = 1
        cases.append(("snake", a, True))
        cases.append(("snakeT", np.ascontiguousarray(a.T), True))
        cases.append(("snakeF", np.asfortranarray(a), True))
        cases.append(("snakeflip", a[::-1, ::-1], True))
    cb = (np.indices((9, 10)).sum(axis=0) % 2).astype(np.int16)
    cases.append(("checker", cb, True))
    cases.append(("const", np.full((7, 6), 3, dtype=np.int32), True))
    # non-integer-valued floats: tolerance matching, inf, tiny, bool (digest only)
    for dt in FLT_DTYPES:
        a = (1.0 + rng.integers(0, 4, size=(9, 9)) * 4e-6).astype(dt)
        cases.append(("close", a, False))
        a = (rng.integers(0, 3, size=(8, 9)) * 1e-9).astype(dt)
        cases.append(("tiny", a, False))
        a = rng.choice(np.array([np.inf, -np.inf, np.nan, 0.0, 1e30, 1.00001e30]), size=(8, 8)).astype(dt)
        cases.append(("inf", a, False))
        a = rng.random((10, 6)).astype(dt)
        cases.append(("unif", a, False))
    cases.append(("bool", rng.integers(0, 2, size=(7, 8)).astype(bool), False))
    cases.append(("empty0", np.zeros((0, 3), dtype=np.float64), False))
    cases.append(("empty1", np.zeros((3, 0), dtype=np.int32), False))
    return cases


def main():
    record = "--record" in sys.argv
    print("xrspatial from", xrspatial.__file__)
    h = hashlib.sha256()
    ok = True
    ncase = 0
    for tag, arr, intval in make_inputs():
        rows, cols = arr.shape
        da_in = xr.DataArray(
            arr, dims=("lat", "lon"),
            coords={"lat": np.arange(rows) * 2.0 + 1, "lon": np.arange(cols) * -0.5},
            attrs={"res": (1, 2), "unit": "m"}, name="src")
        before = arr.copy()
        for n in (4, 8):
            ncase += 1
            res = regions(da_in, neighborhood=n, name="lbl%d" % n) if n == 8 \
                else regions(da_in, n)
            out = res.data
            if not isinstance(out, np.ndarray):
                print("FAIL not ndarray", tag); ok = False; continue
            h.update(("%s|%s|%s|%s|%d|" % (tag, arr.dtype, arr.shape, out.dtype, n)).encode())
            h.update(np.ascontiguousarray(out).tobytes())
            # wrapper contract
            exp_name = "lbl8" if n == 8 else "regions"
            exp_dt = np.int64 if np.issubdtype(arr.dtype, np.integer) else np.float64
            if (res.name != exp_name or res.dims != da_in.dims or res.attrs != da_in.attrs
                    or out.dtype != exp_dt or out.shape != arr.shape
                    or not all(np.array_equal(res[c].values, da_in[c].values) for c in ("lat", "lon"))):
                print("FAIL wrapper contract", tag, arr.dtype, n); ok = False
            if not np.array_equal(arr, before, equal_nan=(arr.dtype.kind == "f")):
                print("FAIL input mutated", tag); ok = False
            if intval and arr.size:
                fv = arr.astype(np.float64) if arr.dtype.kind == "f" else arr
                isn = np.isnan(fv) if arr.dtype.kind == "f" else np.zeros(arr.shape, bool)
                comp = ref_components(fv if arr.dtype.kind == "f" else arr.astype(object).astype(np.float64)
                                      if arr.dtype.itemsize < 8 else _rank(arr), n)
                of = out.astype(np.float64)
                if not np.array_equal(np.isnan(of), isn):
                    print("FAIL nan mask", tag, arr.dtype, n); ok = False
                if not (of[~isn] > 0).all():
                    print("FAIL non-positive label", tag, arr.dtype, n); ok = False
                if not same_partition(of, comp):
                    print("FAIL partition", tag, arr.dtype, arr.shape, n); ok = False

    # error behaviour
    good = xr.DataArray(np.zeros((3, 3)))
    for bad in (0, 5, 6, "4", None, 4.5):
        try:
            regions(good, neighborhood=bad)
            print("FAIL no error for neighbourhood", bad); ok = False
        except ValueError as e:
            h.update(("VE:" + str(e)).encode())
        except Exception as e:  # noqa
            print("FAIL wrong exception", bad, type(e)); ok = False
    # 8.0 passes the `in (4, 8)` check but is rejected by the numba kernel
    try:
        regions(good, neighborhood=8.0)
        h.update(b"8.0-accepted")
    except Exception as e:  # noqa
        h.update(("N8.0:" + type(e).__name__).encode())
    r = regions(good, neighborhood=np.int64(4))
    h.update(r.data.tobytes())
    try:
        import dask.array as da
        regions(xr.DataArray(da.from_array(np.zeros((4, 4)), chunks=2)))
        print("FAIL dask input unexpectedly accepted"); ok = False
    except ImportError:
        pass
    except Exception as e:  # noqa
        h.update(("DASK:" + type(e).__name__).encode())
    # bad neighbourhood is reported before the dask backend error
    try:
        import dask.array as da
        regions(xr.DataArray(da.from_array(np.zeros((4, 4)), chunks=2)), neighborhood=3)
        print("FAIL"); ok = False
    except ValueError:
        h.update(b"order-ok")
    except Exception as e:  # noqa
        print("FAIL error order", type(e)); ok = False

    digest = h.hexdigest()
    print("cases:", ncase, "digest:", digest)
    if record:
        return 0 if ok else 1
    if digest != EXPECTED:
        print("FAIL digest differs from the one recorded on the unmodified tree")
        ok = False
    print("OK" if ok else "NOT IDENTICAL")
    return 0 if ok else 1


def _rank(arr):
    """Map 64-bit integers to small floats without losing distinctness."""
    u, inv = np.unique(arr, return_inverse=True)
    return inv.reshape(arr.shape).astype(np.float64)


if __name__ == "__main__":
    sys.exit(main())
