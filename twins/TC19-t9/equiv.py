"""Differential test for the convolution kernel helpers (C19).

Runs circle_kernel / annulus_kernel / calc_cellsize (and the focal wrappers that
consume them) on many inputs, compares against an independent pure-python
reference and against a digest recorded on the unmodified tree.
Exit 0 if identical.
"""
import hashlib
import sys
import warnings

import numpy as np
import xarray as xr
import dask.array as da

import xrspatial
from xrspatial.convolution import (annulus_kernel, calc_cellsize, circle_kernel,
                                   convolution_2d, custom_kernel)
from xrspatial.focal import focal_stats, apply

warnings.filterwarnings('ignore')
print('xrspatial from', xrspatial.__file__)

RECORDED = '3adea5e54a6661db1af88f70864fc3dabff92fdfa84df55af48311fc711093f2'

UNIT = {'meter': 1, 'meters': 1, 'm': 1, 'feet': 0.3048, 'foot': 0.3048, 'ft': 0.3048,
        'miles': 1609.344, 'mls': 1609.344, 'ml': 1609.344,
        'kilometer': 1000, 'kilometers': 1000, 'km': 1000}

fails = []
log = []


def enc(v):
    if isinstance(v, np.ndarray):
        return ('arr', str(v.dtype), v.shape, v.tobytes().hex())
    if isinstance(v, tuple):
        return tuple(enc(x) for x in v)
    if isinstance(v, (float, np.floating, int, np.integer)):
        return (type(v).__name__, repr(v))
    return repr(v)


def run(tag, f, *a, **k):
    try:
        r = f(*a, **k)
        out = ('ok', enc(r))
    except Exception as e:  # noqa
        r = e
        out = ('exc', type(e).__name__, str(e))
    log.append((tag, out))
    return r


# ---------- independent reference ----------
def ref_meters(radius):
    """returns metres or None if the library must raise ValueError"""
    import re
    s = str(radius)
    m = re.fullmatch(r'(-?\d*\.?\d+)([^\d].*)?', s, flags=re.S)
    return m


def ref_circle(hw, hh):
    out = np.zeros((2 * hh + 1, 2 * hw + 1), dtype=np.float64)
    for i in range(2 * hh + 1):
        for j in range(2 * hw + 1):
            y = i - hh
            x = j - hw
            if (x * hh) ** 2 + (y * hw) ** 2 <= (hw * hh) ** 2:
                out[i, j] = 1.0
    return out


radii = [1, 2, 3, 5, 7, 2.5, 0.9, 10.0, np.float32(2.5), np.int64(4), '3', '2.5', '10m', '1km',
         '0.5 km', '3ft', '2 Miles', '1ml', '100 feet', '30 FT', '.5km', '0.01mls', '12 meters',
         '2kilometers', '1 kilometer', '7 foot', '1mile',
         '1e3', '-3', '0', '0.0', 'abc', 'm5', '5xx', '', '3.m', '--3', 'nan', 'inf', '-0.5km',
         '3 m m', '3m4', 0, -1, -2.5, None, True, 1e3, 1e-5]
cells = [(1, 1), (1, 2), (2, 1), (0.5, 0.5), (0.3, 0.7), (3, 3), (1.0, 1.0), (10, 10),
         (np.float32(0.1), np.float32(0.1)), (0.25, 4), (30, 30), (100.0, 50.0),
         (0, 1), (np.float64(0.0), 1.0), (-1, 1), (1, -2.0), (-1, -2)]

for r in radii:
    for cx, cy in cells:
        if isinstance(r, float) and r >= 1e3 and min(abs(cx), abs(cy)) < 1 and cx > 0 and cy > 0:
            continue
        if isinstance(r, str) and r in ('1km', '2kilometers', '1 kilometer', '2 Miles', '1mile',
                                        '1ml', '.5km', '0.5 km') \
                and (not (cx >= 3 and cy >= 3)):
            continue
        k = run(('circle', repr(r), repr(cx), repr(cy)), circle_kernel, cx, cy, r)
        if isinstance(k, np.ndarray):
            # independent check
            s = str(r)
            num = ''
            import re
            mm = re.match(r'-?\d*\.?\d+', s)
            num = mm.group(0)
            unit = s[len(num):].lower().replace(' ', '') or 'meter'
            metres = float(num) * UNIT[unit]
            hw, hh = int(metres / cx), int(metres / cy)
            exp = ref_circle(hw, hh)
            if k.dtype != np.float64 or k.shape != exp.shape or not np.array_equal(k, exp):
                fails.append(('circle-ref', r, cx, cy))
            if k.shape[0] % 2 != 1 or k.shape[1] % 2 != 1:
                fails.append(('odd', r, cx, cy))
            if not (np.array_equal(k, k[::-1]) and np.array_equal(k, k[:, ::-1])):
                fails.append(('flip', r, cx, cy))

ann = [(1, 1, 3, 1), (1, 2, 5, 2), (1, 1, 5, 5), (1, 1, 2, 4), (0.5, 0.5, 4, 1.5), (2, 1, '10m', '3m'),
       (1, 1, '30ft', '2m'), (3, 3, '0.02km', 5), (1, 1, 3, 0), (1, 1, 0, 1), (1, 1, 3, -1),
       (1, 1, 'x', 1), (1, 1, 4, 'y'), (1, 1, 6, 0.5), (0.3, 0.7, 3, 1), (10, 10, 5, 1), (1, 3, 9, 4),
       (1, 1, '5 m', '2 M'), (2, 2, 7, 3.9), (1, 1, 8, 7.99), (1, 1, '1e1', 1), (0, 1, 3, 1),
       (1, 1, 'nan', 1), (1, 1, 3, 'inf')]
for cx, cy, ro, ri in ann:
    k = run(('annulus', repr((cx, cy, ro, ri))), annulus_kernel, cx, cy, ro, ri)
    if isinstance(k, np.ndarray):
        o = circle_kernel(cx, cy, ro)
        i = circle_kernel(cx, cy, ri)
        exp = o.copy()
        r0 = (o.shape[0] - i.shape[0]) // 2
        c0 = (o.shape[1] - i.shape[1]) // 2
        exp[r0:r0 + i.shape[0], c0:c0 + i.shape[1]] -= i
        if k.dtype != np.float64 or not np.array_equal(k, exp) or k.min() < 0:
            fails.append(('annulus-ref', cx, cy, ro, ri))

# calc_cellsize on rasters with various units / coords
rng = np.random.RandomState(0)
h, w = 7, 9
data = rng.rand(h, w)
data[2, 3] = np.nan
rasters = []
for unit in [None, 'm', 'km', 'ft', 'feet', 'miles', 'mls', 'kilometers', 'foot', 'bogus', 'KM']:
    for ys, xs in [(np.linspace(1, h, h), np.linspace(1, w, w)),
                   (np.linspace(h, 1, h) * 0.5, np.linspace(0, 3, w)),
                   (np.arange(h) * 30.0, np.arange(w) * -10.0)]:
        attrs = {} if unit is None else {'unit': unit}
        rasters.append(xr.DataArray(data, dims=['y', 'x'], coords={'y': ys, 'x': xs}, attrs=attrs))
rasters.append(xr.DataArray(data, attrs={'res': (0.5, 0.25)}))
rasters.append(xr.DataArray(data, attrs={'res': 2.0, 'unit': 'km'}))
rasters.append(xr.DataArray(data.astype(np.float32), dims=['lat', 'lon'],
                            coords={'lat': np.linspace(5, -5, h), 'lon': np.linspace(-3, 3, w)},
                            attrs={'unit': 'ft'}))
for n, ras in enumerate(rasters):
    cs = run(('cellsize', n), calc_cellsize, ras)
    if isinstance(cs, tuple):
        unit = ras.attrs.get('unit', 'meter')
        from xrspatial.utils import get_dataarray_resolution
        a, b = get_dataarray_resolution(ras)
        exp = (a * UNIT[unit], np.abs(b * UNIT[unit]))
        if repr(exp) != repr(cs):
            fails.append(('cellsize-ref', n, cs, exp))

# consumers: convolution / focal on numpy and dask, several dtypes
for dt in [np.float64, np.float32, np.int32, np.int64, np.uint8]:
    arr = (rng.rand(11, 13) * 50).astype(dt)
    if np.issubdtype(dt, np.floating):
        arr[0, 0] = np.nan
        arr[5, 6] = np.nan
    for chunks in [None, (4, 5), (11, 13)]:
        d = arr if chunks is None else da.from_array(arr, chunks=chunks)
        agg = xr.DataArray(d, dims=['y', 'x'],
                           coords={'y': np.arange(11)[::-1] * 0.5, 'x': np.arange(13) * 0.5},
                           attrs={'unit': 'm'})
        cx, cy = calc_cellsize(agg)
        for kern in [circle_kernel(cx, cy, 1), circle_kernel(cx, cy, '2ft'),
                     annulus_kernel(cx, cy, 1.5, 0.5)]:
            custom_kernel(kern)
            run(('conv', str(dt), chunks, kern.shape), lambda: convolution_2d(agg, kern).values)
            if np.issubdtype(dt, np.floating):
                run(('fstats', str(dt), chunks, kern.shape),
                    lambda: focal_stats(agg, kern, stats_funcs=['mean', 'max', 'sum']).values)

digest = hashlib.sha256(repr(log).encode()).hexdigest()
print('cases', len(log), 'ok', sum(1 for _, o in log if o[0] == 'ok'), 'digest', digest)
if fails:
    print('REFERENCE MISMATCHES', fails[:10])
    sys.exit(1)
if digest != RECORDED:
    print('DIGEST MISMATCH, expected', RECORDED)
    sys.exit(2)
print('OK')
