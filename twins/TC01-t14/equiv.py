"""Differential test for refactoring TC01-t14 (data-representation spellings in the
focal / convolution kernels: focal._apply_numpy, focal._apply_dask_numpy,
focal._calc_hotspots_numpy, convolution._convolve_2d_numpy).

Run from inside the worktree:
    cd <worktree> && PYTHONPATH=<worktree> python equiv.py            # check
    cd <worktree> && PYTHONPATH=<worktree> python equiv.py --record   # print digests
Exit status 0 iff every result is identical (values, dtype, shape, chunks) to what was
recorded on the unmodified tree, dask == numpy, and the independent numpy reference
implementations below agree.
"""
import hashlib
import sys
import warnings

import dask
import dask.array as da
import numpy as np
import xarray as xr

import xrspatial
from xrspatial import focal
from xrspatial.convolution import (annulus_kernel, circle_kernel, convolution_2d, convolve_2d,
                                   custom_kernel)
from xrspatial.utils import ngjit

warnings.simplefilter('ignore')
FAILS = []
RESULTS = {}


def check(cond, msg):
    if not cond:
        FAILS.append(msg)
        print('FAIL:', msg)


def digest(a):
    a = np.asarray(a)
    if a.dtype.kind == 'f':
        a = np.where(np.isnan(a), np.array(np.nan, dtype=a.dtype), a).astype(a.dtype)
    h = hashlib.sha256()
    h.update(str(a.dtype).encode())
    h.update(str(a.shape).encode())
    h.update(np.ascontiguousarray(a).tobytes())
    return h.hexdigest()[:16]


def raster(data, chunks=None):
    if chunks is not None:
        data = da.from_array(data, chunks=chunks)
    h, w = data.shape
    return xr.DataArray(data, dims=['y', 'x'],
                        coords={'y': np.arange(h)[::-1] * 2.0, 'x': np.arange(w) * 3.0},
                        attrs={'res': (3.0, 2.0), 'unit': 'm'})


def make(shape, dtype, seed):
    r = np.random.RandomState(seed)
    a = (r.rand(*shape) * 50 - 10)
    if np.dtype(dtype).kind == 'u':
        a = np.abs(a)
    a = a.astype(dtype)
    if np.dtype(dtype).kind == 'f' and a.size > 4:
        flat = a.reshape(-1)
        flat[r.randint(0, a.size, size=max(1, a.size // 8))] = np.nan
        flat[r.randint(0, a.size)] = np.inf
        flat[r.randint(0, a.size)] = -np.inf
    return a


@ngjit
def _weighted(kernel_data):
    return np.nansum(kernel_data * 0.5) + 1.0


KERNELS = {
    'k3x3': custom_kernel(np.array([[0, 1, 0], [1, 1, 1], [0, 1, 0]], dtype=np.float64)),
    'k1x3': custom_kernel(np.array([[1, 1, 0]])),
    'k5x1': custom_kernel(np.ones((5, 1))),
    'k3x5F': custom_kernel(np.asfortranarray(
        np.array([[1, 0, 1, 1, 0], [0, 1, 1, 0, 1], [1, 1, 0, 0, 1]], dtype=np.float64))),
    'k1x1': custom_kernel(np.ones((1, 1))),
    'circle': circle_kernel(1, 1, 2),
    'annulus': annulus_kernel(1, 2, 4, 1),
    'weights': custom_kernel(np.array([[0.25, 2, -1], [0, 1, 0.5], [3, 1, 1]])),
}
SHAPES = [(1, 1), (1, 6), (4, 1), (5, 8)]
DTYPES = ['float64', 'float32', 'int32', 'uint8']
SCHEDULERS = [dict(scheduler='synchronous'), dict(scheduler='threads', num_workers=4)]


def chunkings(shape):
    h, w = shape
    out = [(h, w), (1, 1), (2, 3), (max(1, h - 1), max(1, w // 2))]
    if h >= 5 and w >= 6:
        out.append(((1, 2, h - 3), (3, 1, w - 4)))
    return out


def same(a, b):
    return (a.dtype == b.dtype and a.shape == b.shape and
            np.array_equal(a, b, equal_nan=(a.dtype.kind == 'f')))


def run_both(tag, fn, data):
    """fn(raster) -> DataArray ; numpy reference, then every chunking / scheduler."""
    try:
        ref = fn(raster(data))
        ref_v = ref.values
        RESULTS[tag] = digest(ref_v)
        check(isinstance(ref.data, np.ndarray), tag + ' numpy stays numpy')
    except Exception as e:  # recorded as behaviour, too
        ref = None
        RESULTS[tag] = 'EXC %s' % type(e).__name__
    for ci, ch in enumerate(chunkings(data.shape)):
        try:
            res = fn(raster(data, ch))
        except Exception as e:
            RESULTS['%s/c%d' % (tag, ci)] = 'EXC %s' % type(e).__name__
            continue
        check(isinstance(res.data, da.Array), tag + ' dask stays dask')
        RESULTS['%s/c%d' % (tag, ci)] = '%s %s' % (res.data.dtype, res.data.chunks)
        for si, sched in enumerate(SCHEDULERS):
            if si > 0 and ci not in (1, 2):
                continue  # threaded scheduler on the 1-cell and the (2, 3) chunkings only
            try:
                with dask.config.set(**sched):
                    got = res.compute()
            except Exception as e:
                RESULTS['%s/c%d/s%d' % (tag, ci, si)] = 'EXC %s' % type(e).__name__
                continue
            RESULTS['%s/c%d/s%d' % (tag, ci, si)] = digest(got.values)
            if ref is not None:
                check(same(got.values, ref_v), '%s chunking %d sched %d: dask == numpy'
                      % (tag, ci, si))
                # (an unnamed dask result takes the name of its dask graph: not compared)
                check(got.dims == ref.dims and got.attrs == ref.attrs and
                      (ref.name is None or got.name == ref.name), tag + ' metadata')
    return ref


# ------------------------------------------------------------------ independent references
def ref_apply_mean(data, kernel):
    data = data.astype(np.float32)
    rows, cols = data.shape
    kr, kc = kernel.shape
    hr, hc = kr // 2, kc // 2
    out = np.zeros(data.shape, dtype=np.float32)
    for y in range(rows):
        for x in range(cols):
            vals = np.full(kernel.shape, np.nan, dtype=np.float32)
            for i in range(kr):
                for j in range(kc):
                    yy, xx = y + i - hr, x + j - hc
                    if 0 <= yy < rows and 0 <= xx < cols and kernel[i, j] == 1:
                        vals[i, j] = data[yy, xx]
            with np.errstate(all='ignore'):
                out[y, x] = np.nanmean(vals) if not np.all(np.isnan(vals)) else np.nan
    return out


def ref_convolve(data, kernel):
    data = data.astype(np.float32)
    rows, cols = data.shape
    kr, kc = kernel.shape
    hr, hc = kr // 2, kc // 2
    out = np.full(data.shape, np.nan, dtype=np.float32)
    for y in range(hr, rows - hr):
        for x in range(hc, cols - hc):
            num = 0.0
            for i in range(kr):
                for j in range(kc):
                    with np.errstate(all='ignore'):
                        num += kernel[i, j] * data[y + i - hr, x + j - hc]
            out[y, x] = num
    return out


# ------------------------------------------------------------------ cases
for si_, shape in enumerate(SHAPES):
    for dtype in DTYPES:
        data = make(shape, dtype, 100 + si_)
        for kname, kernel in KERNELS.items():
            if kname in ('annulus', 'weights') and dtype not in ('float64', 'int32'):
                continue
            tag = '%s/%s/%s' % (shape, dtype, kname)
            # focal.apply, default function
            ref = run_both('apply/' + tag, lambda r: focal.apply(r, kernel), data)
            if ref is not None and shape[0] * shape[1] <= 48:
                exp = ref_apply_mean(data, kernel)
                check(ref.values.dtype == np.float32 and
                      np.allclose(ref.values, exp, rtol=1e-5, atol=1e-6, equal_nan=True),
                      'apply/%s vs independent reference' % tag)
            # convolution_2d
            ref = run_both('conv/' + tag, lambda r: convolution_2d(r, kernel), data)
            if ref is not None:
                exp = ref_convolve(data, kernel)
                check(ref.values.dtype == np.float32 and
                      np.allclose(ref.values, exp, rtol=1e-5, atol=1e-5, equal_nan=True),
                      'conv/%s vs independent reference' % tag)
        if dtype in ('float64', 'int32'):
            k = KERNELS['k3x5F']
            tag = '%s/%s' % (shape, dtype)
            run_both('apply_custom/' + tag, lambda r: focal.apply(r, k, _weighted, name='w'), data)
            run_both('apply_sum/' + tag, lambda r: focal.apply(r, k, focal._calc_sum), data)
            run_both('focal_stats/' + tag,
                     lambda r: focal.focal_stats(r, KERNELS['k3x3']), data)
            run_both('focal_stats2/' + tag,
                     lambda r: focal.focal_stats(r, KERNELS['k1x3'], stats_funcs=['std', 'sum']),
                     data)
            run_both('mean/' + tag, lambda r: focal.mean(r, passes=2), data)

# hotspots: finite data (NaN-free so that the global statistics are meaningful) and NaN data
for si_, shape in enumerate([(4, 6), (7, 6), (1, 6)]):
    for dtype in ['float64', 'float32', 'int32', 'uint8']:
        r = np.random.RandomState(5 + si_)
        data = (r.rand(*shape) * 100).astype(dtype)
        data[r.rand(*shape) < 0.25] = 90
        data[r.rand(*shape) < 0.25] = 2
        for kname in ('k3x3', 'k1x3', 'k5x1', 'k3x5F', 'circle', 'k1x1'):
            tag = 'hotspots/%s/%s/%s' % (shape, dtype, kname)
            run_both(tag, lambda rr: focal.hotspots(rr, KERNELS[kname]), data)
        if np.dtype(dtype).kind == 'f':
            d2 = data.copy()
            d2[0, 0] = np.nan
            run_both('hotspots_nan/%s/%s' % (shape, dtype),
                     lambda rr: focal.hotspots(rr, KERNELS['k1x3']), d2)

# constant raster -> ZeroDivisionError on numpy
try:
    focal.hotspots(raster(np.ones((4, 4))), KERNELS['k3x3'])
    RESULTS['hotspots/const'] = 'no exception'
except Exception as e:
    RESULTS['hotspots/const'] = 'EXC %s' % type(e).__name__
check(RESULTS['hotspots/const'] == 'EXC ZeroDivisionError', 'constant raster raises')

# the per-cell classification at and around every threshold, float32 and float64
edge = [0.0, -0.0, np.nan, np.inf, -np.inf]
for t in (1.29, 1.65, 1.96, 2.33, 2.58):
    for dt in (np.float32, np.float64):
        v = dt(t)
        edge += [float(v), float(np.nextafter(v, dt(10))), float(np.nextafter(v, dt(-10))),
                 -float(v), -float(np.nextafter(v, dt(10))), -float(np.nextafter(v, dt(-10)))]
for dt in (np.float32, np.float64):
    z = np.array(edge, dtype=dt).reshape(1, -1)
    out = focal._calc_hotspots_numpy(z)
    RESULTS['calc_hotspots/%s' % np.dtype(dt).name] = digest(out)
    exp = np.zeros(z.shape, dtype=np.int8)
    for j, zs in enumerate(z[0].astype(np.float64)):
        conf = 99 if abs(zs) > 2.58 else 95 if abs(zs) > 1.96 else 90 if abs(zs) > 1.65 else 0
        exp[0, j] = (1 if zs > 0 else -1 if zs < 0 else 0) * conf
    check(same(out, exp), 'per-cell hotspot classification vs independent reference (%s)'
          % np.dtype(dt).name)

# the raw (non-DataArray) entry point
for dtype in ('float64', 'int32'):
    data = make((6, 7), dtype, 42)
    for kname in ('k3x5F', 'weights', 'k5x1'):
        a = convolve_2d(data, KERNELS[kname])
        b = convolve_2d(da.from_array(data, chunks=(2, 3)), KERNELS[kname])
        check(isinstance(b, da.Array) and same(np.asarray(b.compute()), a),
              'convolve_2d dask == numpy %s %s' % (dtype, kname))
        RESULTS['convolve_2d/%s/%s' % (dtype, kname)] = digest(a)

# validation of apply/focal_stats/hotspots is untouched but cheap to pin down
for nm, fn in [('apply', lambda x: focal.apply(x, KERNELS['k3x3'])),
               ('focal_stats', lambda x: focal.focal_stats(x, KERNELS['k3x3'])),
               ('hotspots', lambda x: focal.hotspots(x, KERNELS['k3x3']))]:
    for bad, label in [(np.ones((3, 3)), 'ndarray'), (xr.DataArray(np.ones((2, 3, 3))), '3d')]:
        try:
            fn(bad)
            RESULTS['validate/%s/%s' % (nm, label)] = 'no exception'
        except Exception as e:
            RESULTS['validate/%s/%s' % (nm, label)] = 'EXC %s %s' % (type(e).__name__, e)
try:
    focal.apply(raster(np.ones((3, 3))), np.ones((2, 3)))
    RESULTS['validate/apply/evenkernel'] = 'no exception'
except Exception as e:
    RESULTS['validate/apply/evenkernel'] = 'EXC %s' % type(e).__name__


def grouped(results):
    """Collapse the per-case results into one digest per '<function>/<shape-or-dtype>' group."""
    groups = {}
    for k in sorted(results):
        g = '/'.join(k.split('/')[:2])
        groups.setdefault(g, hashlib.sha256()).update(('%s=%s;' % (k, results[k])).encode())
    return {g: '%d:%s' % (sum(1 for k in results if '/'.join(k.split('/')[:2]) == g),
                          h.hexdigest()[:20]) for g, h in groups.items()}


GROUPS = grouped(RESULTS)

# --- recorded on the unmodified tree (number of cases : digest of all case results) ---
EXPECTED = {
    'apply/(1, 1)': '224:3d6efac44066d2a7ad1e',
    'apply/(1, 6)': '248:ea4e4570b8b1add73ce2',
    'apply/(4, 1)': '248:8e688763f5513780cf04',
    'apply/(5, 8)': '364:c1c35b5a170bcf7e31e4',
    'apply_custom/(1, 1)': '10:63b9b3df1f4bc6f28202',
    'apply_custom/(1, 6)': '22:9cb24f66b6c1473c2407',
    'apply_custom/(4, 1)': '10:8bb8602e36951730789e',
    'apply_custom/(5, 8)': '26:a4ce2d814a2acb26e35f',
    'apply_sum/(1, 1)': '10:568ba13035611a6d6027',
    'apply_sum/(1, 6)': '22:2ebf75d5572c7adb4f1d',
    'apply_sum/(4, 1)': '10:e37cd74687e325157885',
    'apply_sum/(5, 8)': '26:e62ee30f8ee498f9bb8f',
    'calc_hotspots/float32': '1:d23d5ed8fe2af67905e4',
    'calc_hotspots/float64': '1:e8099e1526f172dcae28',
    'conv/(1, 1)': '224:a9b453efa69e3e80541e',
    'conv/(1, 6)': '248:8dfdacb00dc3428542d1',
    'conv/(4, 1)': '248:912830ae52fbbd007229',
    'conv/(5, 8)': '364:388f115ae6120ed6f740',
    'convolve_2d/float64': '3:7151b57c8cfd7ec3edb7',
    'convolve_2d/int32': '3:cdff5a64115e0fcb4cbf',
    'focal_stats/(1, 1)': '22:d68d83a018e909366c60',
    'focal_stats/(1, 6)': '22:afd5784afa6069eefbde',
    'focal_stats/(4, 1)': '22:3da5018a160cf8b0eab8',
    'focal_stats/(5, 8)': '26:2db8779571c27d14523c',
    'focal_stats2/(1, 1)': '22:d6ffef1a3bb501db868e',
    'focal_stats2/(1, 6)': '22:fe3b03ff8853749a6b41',
    'focal_stats2/(4, 1)': '22:7de9882d8c38fabbc253',
    'focal_stats2/(5, 8)': '26:e9eb9a5ce3adb3c04851',
    'hotspots/(1, 6)': '216:129f19a03ecd601ad332',
    'hotspots/(4, 6)': '264:21080e2c92c4110bcb4e',
    'hotspots/(7, 6)': '312:0f8bb54d56ea110c8b6f',
    'hotspots/const': '1:67f81681bc03fd9b76c1',
    'hotspots_nan/(1, 6)': '22:48abe73065bb7673a544',
    'hotspots_nan/(4, 6)': '22:fd01d42f30653536359f',
    'hotspots_nan/(7, 6)': '26:2bb9f0a6f0913a8cbda1',
    'mean/(1, 1)': '22:12fe5c17c5943c44b5bd',
    'mean/(1, 6)': '22:d60ed725e87e4347ca03',
    'mean/(4, 1)': '22:230544ca70b494abb356',
    'mean/(5, 8)': '26:bb3dcaf8080641fedeac',
    'validate/apply': '3:520ec3412801770f9ae4',
    'validate/focal_stats': '2:e2df31a2770d8d427bcb',
    'validate/hotspots': '2:7d42f5df6b96aa25e5b2',
}

if '--record' in sys.argv:
    print('EXPECTED = {')
    for k in sorted(GROUPS):
        print('    %r: %r,' % (k, GROUPS[k]))
    print('}')
    sys.exit(1 if FAILS else 0)

check(set(EXPECTED) == set(GROUPS), 'same set of recorded groups')
for k in sorted(GROUPS):
    check(EXPECTED.get(k) == GROUPS[k], 'recorded results differ in group: %s' % k)

print('xrspatial from', xrspatial.__file__)
print('cases: %d in %d groups, failures: %d' % (len(RESULTS), len(GROUPS), len(FAILS)))
sys.exit(1 if FAILS else 0)
