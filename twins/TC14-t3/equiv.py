"""Differential test for xrspatial.pathfinding.a_star_search (property C14).

Two independent checks:
  1. a SHA-256 digest over the full observable outcome (values, dtype, shape,
     dims, coords, attrs, warnings, exception types) of a fixed battery of
     calls is compared with the digest recorded on the unmodified tree;
  2. every successful result is validated against an independent pure-python
     Dijkstra reference (chain validity, step lengths, optimal goal cost,
     all-NaN when unreachable, nearest-centre end points, snapping).

Usage:  python equiv.py            -> exit 0 iff identical / valid
        python equiv.py --record   -> print digest of the current tree
"""
import hashlib
import heapq
import itertools
import math
import sys
import warnings

import numpy as np
import xarray as xr

import xrspatial
from xrspatial import a_star_search

EXPECTED_DIGEST = "68442927a549a43db0964005e89230ad0410949b4058e96e579434f46014c1e2"
EXPECTED_NCASES = 61786

SQRT2 = math.sqrt(2.0)


# --------------------------------------------------------------------------
# independent reference
# --------------------------------------------------------------------------
def crossable(v, barriers):
    if isinstance(v, (float, np.floating)) and math.isnan(v):
        return False
    for b in barriers:
        if v == b:
            return False
    return True


def ref_mask(data, barriers):
    h, w = data.shape
    m = np.zeros((h, w), dtype=bool)
    for i in range(h):
        for j in range(w):
            m[i, j] = crossable(data[i, j], barriers)
    return m


def offsets(conn):
    if conn == 4:
        return [(-1, 0), (1, 0), (0, -1), (0, 1)]
    return [(a, b) for a in (-1, 0, 1) for b in (-1, 0, 1) if (a, b) != (0, 0)]


def ref_dijkstra(mask, s, g, conn):
    h, w = mask.shape
    if not mask[s] or not mask[g]:
        return None
    dist = {s: 0.0}
    pq = [(0.0, s)]
    done = set()
    while pq:
        d, u = heapq.heappop(pq)
        if u in done:
            continue
        done.add(u)
        if u == g:
            return d
        for dy, dx in offsets(conn):
            v = (u[0] + dy, u[1] + dx)
            if not (0 <= v[0] < h and 0 <= v[1] < w) or not mask[v]:
                continue
            nd = d + (1.0 if dy == 0 or dx == 0 else SQRT2)
            if nd < dist.get(v, math.inf):
                dist[v] = nd
                heapq.heappush(pq, (nd, v))
    return None


def nearest_index(coords, value):
    return int(np.argmin(np.abs(np.asarray(coords, dtype=float) - value)))


def ref_snap_candidates(mask, p):
    if mask[p]:
        return {p}
    ys, xs = np.nonzero(mask)
    if len(ys) == 0:
        return set()
    d2 = (ys - p[0]) ** 2 + (xs - p[1]) ** 2
    m = d2.min()
    return {(int(a), int(b)) for a, b, q in zip(ys, xs, d2) if q == m}


def validate(label, surf, start, goal, kw, out):
    """Return None if `out` satisfies C14, else a message."""
    data = surf.values
    barriers = list(kw.get('barriers', []))
    conn = kw.get('connectivity', 8)
    mask = ref_mask(data, barriers)
    ydim, xdim = surf.dims
    sp = (nearest_index(surf[ydim].values, start[0]),
          nearest_index(surf[xdim].values, start[1]))
    gp = (nearest_index(surf[ydim].values, goal[0]),
          nearest_index(surf[xdim].values, goal[1]))
    s_cands = ref_snap_candidates(mask, sp) if kw.get('snap_start') else {sp}
    g_cands = ref_snap_candidates(mask, gp) if kw.get('snap_goal') else {gp}
    res = out.values
    if res.dtype != np.float64 or res.shape != data.shape:
        return "dtype/shape"
    cells = [(int(a), int(b)) for a, b in zip(*np.nonzero(~np.isnan(res)))]
    if not cells:
        # must be unreachable for some admissible end point pair (snapping
        # ties may be broken either way)
        for s in s_cands:
            for g in g_cands:
                if ref_dijkstra(mask, s, g, conn) is None:
                    return None
        if not s_cands or not g_cands:
            return None
        return "all-NaN although a route exists"
    zeros = [c for c in cells if res[c] == 0.0]
    if len(zeros) != 1 or zeros[0] not in s_cands:
        return "start cell wrong: %r not in %r" % (zeros, s_cands)
    s = zeros[0]
    order = sorted(cells, key=lambda c: res[c])
    if order[0] != s:
        return "start not first"
    g = order[-1]
    if g not in g_cands:
        return "goal cell wrong: %r not in %r" % (g, g_cands)
    for c in cells:
        if not mask[c]:
            return "path enters non-crossable cell"
    for a, b in zip(order[:-1], order[1:]):
        dy, dx = abs(a[0] - b[0]), abs(a[1] - b[1])
        if max(dy, dx) != 1:
            return "not a neighbour step"
        if conn == 4 and dy + dx != 1:
            return "diagonal step under 4-connectivity"
        step = 1.0 if dy + dx == 1 else SQRT2
        if abs((res[b] - res[a]) - step) > 1e-9:
            return "step length wrong"
    best = ref_dijkstra(mask, s, g, conn)
    if best is None or abs(best - res[g]) > 1e-9:
        return "goal value %r is not the minimum %r" % (res[g], best)
    return None


# --------------------------------------------------------------------------
# battery of calls
# --------------------------------------------------------------------------
def make_surface(arr, ycoords, xcoords, dims=('y', 'x'), attrs=None):
    return xr.DataArray(arr, dims=list(dims),
                        coords={dims[0]: ycoords, dims[1]: xcoords},
                        attrs=attrs or {})


def exhaustive_cases():
    # every barrier layout, every start/goal pair
    for (h, w), snaps in (((2, 3), True), ((3, 2), True), ((3, 3), False),
                          ((1, 4), True), ((4, 1), True), ((1, 1), True)):
        ncell = h * w
        pix = [(i, j) for i in range(h) for j in range(w)]
        for bits in range(2 ** ncell):
            layout = np.array([(bits >> k) & 1 for k in range(ncell)])
            layout = layout.reshape(h, w)
            variant = bits % 3
            if variant == 0:
                arr = layout.astype(np.int64)           # 0 = barrier
                barriers = [0]
            elif variant == 1:
                arr = np.where(layout == 1, 1.0, np.nan)  # NaN = obstacle
                barriers = []
            else:
                arr = np.where(layout == 1, 5, 7).astype(np.float32)
                arr[0, 0] = 5 if layout[0, 0] else 9
                barriers = [7, 9]
            # coordinate flavour depends on layout too
            flavour = bits % 4
            if flavour == 0:
                yc, xc = np.arange(h, dtype=float), np.arange(w, dtype=float)
            elif flavour == 1:
                yc = (np.arange(h)[::-1] * 0.1 + 3.3) if h > 1 else np.array([3.3])
                xc = np.arange(w) * 0.3 - 1.7
            elif flavour == 2:
                yc = np.arange(h) * 2.5 + 100.0
                xc = (np.arange(w)[::-1] * 0.7 + 0.05) if w > 1 else np.array([0.05])
            else:
                yc = (np.arange(h)[::-1] * 30.0 - 45.0) if h > 1 else np.array([-45.0])
                xc = (np.arange(w)[::-1] * 1e-3 + 10.0) if w > 1 else np.array([10.0])
            surf = make_surface(arr, yc, xc)
            snap_opts = ([(False, False), (True, False), (False, True),
                          (True, True)] if snaps else [(False, False)])
            for k, (s, g) in enumerate(itertools.product(pix, pix)):
                if ncell == 9 and (k + bits) % 5 != 0:
                    continue          # 3x3: every layout, a fifth of the pairs
                for conn in (4, 8):
                    for ss, sg in snap_opts:
                        kw = dict(barriers=barriers, connectivity=conn,
                                  snap_start=ss, snap_goal=sg)
                        yield ("ex", surf, (yc[s[0]], xc[s[1]]),
                               (yc[g[0]], xc[g[1]]), kw)


def random_cases():
    rng = np.random.RandomState(20240914)
    shapes = [(1, 7), (7, 1), (5, 7), (8, 6), (11, 13), (4, 9), (16, 3)]
    dtypes = [np.float64, np.float32, np.int32, np.int64, np.uint8, np.int16]
    for rep in range(700):
        h, w = shapes[rep % len(shapes)]
        dt = dtypes[(rep // 3) % len(dtypes)]
        arr = rng.randint(0, 5, size=(h, w)).astype(dt)
        if np.issubdtype(dt, np.floating):
            arr[rng.rand(h, w) < 0.15] = np.nan
        if rep % 5 == 0:
            arr = np.asfortranarray(arr)
        barriers = [[], [0], [0, 3], [1, 2, 4], [0.0, 2.0]][rep % 5]
        ystep = [1.0, 0.1, 0.3, 2.5, 1e-3, 30.0][rep % 6]
        xstep = [1.0, 0.7, 0.1, 1 / 3.0, 12.5][rep % 5]
        yoff = [0.0, -3.7, 1e4, 0.05][rep % 4]
        xoff = [0.0, 17.3, -0.45][rep % 3]
        yc = np.arange(h) * ystep + yoff
        xc = np.arange(w) * xstep + xoff
        if rep % 2 and h > 1:
            yc = yc[::-1].copy()
        if rep % 3 == 0 and w > 1:
            xc = xc[::-1].copy()
        dims = ('y', 'x') if rep % 4 else ('lat', 'lon')
        attrs = {'nodata': -1, 'name': 'r%d' % rep} if rep % 2 else {}
        surf = make_surface(arr, yc, xc, dims, attrs)
        for _ in range(6):
            sy, gy = rng.randint(0, h, 2)
            sx, gx = rng.randint(0, w, 2)
            jit = (rng.rand(4) - 0.5) * 0.8      # stay inside own cell
            if rng.rand() < 0.4:
                jit[:] = 0.0                      # exactly on the centre
            start = (yc[sy] + jit[0] * ystep, xc[sx] + jit[1] * xstep)
            goal = (yc[gy] + jit[2] * ystep, xc[gx] + jit[3] * xstep)
            if h == 1:
                start, goal = (yc[sy], start[1]), (yc[gy], goal[1])
            if w == 1:
                start, goal = (start[0], xc[sx]), (goal[0], xc[gx])
            kw = dict(barriers=barriers, x=dims[1], y=dims[0],
                      connectivity=(4, 8)[rng.randint(2)],
                      snap_start=bool(rng.randint(2)),
                      snap_goal=bool(rng.randint(2)))
            yield ("rnd", surf, start, goal, kw)


def special_cases():
    a = np.array([[0, 1, 0, 0],
                  [1, 1, 0, 0],
                  [0, 1, 2, 2],
                  [1, 0, 2, 0],
                  [0, 2, 2, 2]])
    s = make_surface(a, np.linspace(4, 0, 5), np.linspace(0, 3, 4),
                     ('lat', 'lon'))
    # positional arguments, docstring example
    yield ("pos", s, (3, 0), (0, 1), dict(_positional=([0], 'lon', 'lat')))
    yield ("list", s, [3, 0], np.array([0, 1]),
           dict(barriers=(0,), x='lon', y='lat'))
    # defaults for everything
    d = make_surface(np.ones((4, 5)), np.arange(4.), np.arange(5.))
    yield ("dflt", d, (0, 0), (3, 4), {})
    # everything non-crossable + snapping
    z = make_surface(np.zeros((3, 4)), np.arange(3.), np.arange(4.))
    for ss, sg in itertools.product((False, True), repeat=2):
        yield ("allbar", z, (1, 1), (2, 3),
               dict(barriers=[0], snap_start=ss, snap_goal=sg))
    n = make_surface(np.full((3, 4), np.nan), np.arange(3.), np.arange(4.))
    for ss, sg in itertools.product((False, True), repeat=2):
        yield ("allnan", n, (1, 1), (2, 3), dict(snap_start=ss, snap_goal=sg))
    # error paths
    yield ("err3d", xr.DataArray(np.ones((2, 3, 4)), dims=['b', 'y', 'x']),
           (0, 0), (1, 1), {})
    yield ("errdims", d, (0, 0), (1, 1), dict(x='lon', y='lat'))
    yield ("errswap", d, (0, 0), (1, 1), dict(x='y', y='x'))
    yield ("errconn", d, (0, 0), (1, 1), dict(connectivity=6))
    yield ("errout1", d, (9, 0), (1, 1), {})
    yield ("errout2", d, (0, 0), (1, 11), {})
    yield ("errout3", d, (0, -4), (1, 1), {})
    try:
        import dask.array as da
        dd = make_surface(da.from_array(np.ones((4, 5)), chunks=(2, 3)),
                          np.arange(4.), np.arange(5.))
        yield ("dask", dd, (0, 0), (3, 4), {})
        yield ("dasksnap", dd, (0, 0), (3, 4),
               dict(snap_start=True, barriers=[2]))
    except ImportError:
        pass


def all_cases():
    return itertools.chain(special_cases(), random_cases(), exhaustive_cases())


# --------------------------------------------------------------------------
def run_case(surf, start, goal, kw):
    kw = dict(kw)
    pos = kw.pop('_positional', ())
    with warnings.catch_warnings(record=True) as rec:
        warnings.simplefilter("always")
        try:
            out = a_star_search(surf, start, goal, *pos, **kw)
            exc = None
        except Exception as e:  # noqa
            out = None
            exc = type(e).__name__
            if isinstance(e, ValueError):
                exc += ":" + str(e)
    msgs = tuple(sorted((w.category.__name__, str(w.message)) for w in rec
                        if "rossable" in str(w.message)))
    return out, exc, msgs


EXPECTED_LAYOUT = [
    ('C', 'float64', True, False, (32, 8), 'pathfinding.py'),
    ('C', 'int32', True, False, (16, 8), 'pathfinding.py'),
    ('F', 'float64', True, False, (32, 8), 'pathfinding.py'),
    ('F', 'int32', True, False, (16, 8), 'pathfinding.py'),
]


def layout_check():
    # memory layout of the result and attribution of the warning, recorded
    # on the unmodified tree (C/F-ordered and non-contiguous inputs)
    got = []
    for order in 'CF':
        for dt in (np.float64, np.int32):
            a = np.array(np.arange(12).reshape(3, 4) % 5, dtype=dt,
                         order=order)
            s = make_surface(a, np.arange(3.), np.arange(4.))
            if dt is np.int32:
                s = s[:, ::2]
            with warnings.catch_warnings(record=True) as rec:
                warnings.simplefilter('always')
                r = a_star_search(s, (0, 0), (2, 2), barriers=[0],
                                  snap_start=True)
            files = {w.filename.split('/')[-1] for w in rec
                     if 'rossable' in str(w.message)}
            got.append((order, dt.__name__, bool(r.data.flags.c_contiguous),
                        bool(r.data.flags.f_contiguous), r.data.strides,
                        ','.join(sorted(files))))
    if got != EXPECTED_LAYOUT:
        print("layout/warning attribution differs:", got)
        return False
    return True


def main():
    record = "--record" in sys.argv
    assert xrspatial.__file__.startswith("/tmp/seed/TC14/"), xrspatial.__file__
    hsh = hashlib.sha256()
    n = 0
    bad = 0 if layout_check() else 1
    for label, surf, start, goal, kw in all_cases():
        n += 1
        before = None
        if isinstance(surf.data, np.ndarray):
            before = surf.data.copy()
        out, exc, msgs = run_case(surf, start, goal, kw)
        hsh.update(repr((label, exc, msgs)).encode())
        if before is not None:
            # input must not be modified
            if not np.array_equal(before, surf.data, equal_nan=True):
                print("input mutated in case", n, label)
                bad += 1
        if out is None:
            continue
        v = out.data
        hsh.update(repr((type(out).__name__, type(v).__name__, str(v.dtype),
                         v.shape, out.dims, sorted(out.attrs.items()),
                         out.name)).encode())
        hsh.update(np.ascontiguousarray(v).tobytes())
        for dname in out.dims:
            hsh.update(np.ascontiguousarray(out[dname].values).tobytes())
        if out.attrs != surf.attrs or out.dims != surf.dims:
            print("attrs/dims differ in case", n, label)
            bad += 1
        pos = kw.get('_positional')
        vkw = dict(kw)
        if pos:
            vkw = dict(barriers=pos[0])
        if label.startswith("err"):
            continue      # out-of-range points: digest only
        msg = validate(label, surf, tuple(np.asarray(start, dtype=float)),
                       tuple(np.asarray(goal, dtype=float)), vkw, out)
        if msg is not None:
            bad += 1
            if bad < 10:
                print("C14 violated in case", n, label, start, goal, kw, msg)
                print(surf.values)
                print(out.values)
    digest = hsh.hexdigest()
    if record:
        print(digest, n)
        return 0 if bad == 0 else 2
    print("cases:", n, "reference failures:", bad)
    print("digest:", digest)
    if bad:
        return 2
    if n != EXPECTED_NCASES or digest != EXPECTED_DIGEST:
        print("MISMATCH: expected", EXPECTED_DIGEST, EXPECTED_NCASES)
        return 1
    print("OK: identical to the unmodified tree")
    return 0


if __name__ == "__main__":
    sys.exit(main())
