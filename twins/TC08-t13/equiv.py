"""Differential test for TC08-t13 (cell-size argument handling in utils.py,
hillshade() argument handling).

Run from inside the worktree:
    cd /tmp/t5/TC08 && PYTHONPATH=/tmp/t5/TC08 /venv/bin/python /tmp/t6/out/TC08-t13/equiv.py
`--record` prints the signature table of the tree it runs on (used once, on
the unmodified tree, to fill EXPECTED below).
"""
import hashlib
import json
import os
import sys
import warnings

import dask.array as da
import numpy as np
import xarray as xr

import xrspatial
from xrspatial import aspect, curvature, hillshade, slope
from xrspatial.utils import calc_res, get_dataarray_resolution, get_xy_range

warnings.simplefilter('ignore')
HERE = os.getcwd()
assert os.path.dirname(os.path.dirname(os.path.abspath(xrspatial.__file__))) == HERE, \
    (xrspatial.__file__, HERE)


def sig_array(a):
    a = np.asarray(a)
    h = hashlib.sha1(np.ascontiguousarray(a).tobytes()).hexdigest()[:16]
    return '%s|%s|%s' % (a.dtype.str, a.shape, h)


def sig_value(v):
    """type-exact signature of a python / numpy scalar or tuple of them"""
    if isinstance(v, tuple):
        return '(' + ', '.join(sig_value(x) for x in v) + ')'
    if isinstance(v, (np.ndarray,)):
        return 'nd:' + sig_array(v)
    return '%s:%r' % (type(v).__name__, v)


def norm_name(n):
    # name=None on a dask input makes xarray adopt the dask key, whose token
    # depends on the task graph: keep the prefix only
    if isinstance(n, str) and n.startswith('_trim-'):
        return '_trim-*'
    return n


def sig_result(r):
    lazy = isinstance(r.data, da.Array)
    s = ['lazy=%s' % lazy, 'decl=%s' % r.dtype.str, 'name=%r' % (norm_name(r.name),),
         'dims=%r' % (r.dims,), 'attrs=%s' % sorted((k, type(v).__name__) for k, v in r.attrs.items()),
         'coords=%s' % [(k, sig_array(r.coords[k].values)) for k in sorted(r.coords)]]
    if lazy:
        s.append('chunks=%r' % (r.data.chunks,))
    s.append(sig_array(r.values))
    return ' '.join(s)


def attempt(f, *a, **k):
    try:
        out = f(*a, **k)
    except BaseException as e:  # noqa
        return 'EXC %s: %s' % (type(e).__name__, e)
    if isinstance(out, xr.DataArray):
        try:
            return sig_result(out)
        except BaseException as e:  # noqa  (error raised when the lazy result is computed)
            return 'LAZY decl=%s chunks=%r EXC %s: %s' % (out.dtype.str, getattr(out.data, 'chunks', None),
                                                         type(e).__name__, e)
    return sig_value(out)


rng = np.random.default_rng(813)
Z = (rng.random((7, 9)) * 100).astype(np.float64)
Z[2, 3] = np.nan


def raster(z=Z, res='absent', xs=None, ys=None, dims=('y', 'x'), extra_attrs=None):
    r = xr.DataArray(z.copy(), dims=dims)
    if xs is not None:
        r[dims[-1]] = xs
    if ys is not None:
        r[dims[-2]] = ys
    if not (isinstance(res, str) and res == 'absent'):
        r.attrs['res'] = res
    if extra_attrs:
        r.attrs.update(extra_attrs)
    return r


class Weird:
    """res object whose len() blows up"""
    def __len__(self):
        raise RuntimeError('no len')


class TupleSub(tuple):
    pass


class BadTuple(tuple):
    def __len__(self):
        raise ValueError('bad len')


class BadGet(tuple):
    def __getitem__(self, i):
        raise KeyError('bad item')


XS = np.linspace(10.0, 50.0, 9)
YS = np.linspace(7.0, -2.0, 7)
RES_VALUES = [
    ('absent', 'absent'), ('none', None), ('int', 3), ('float', 2.5), ('bool', True),
    ('npf64', np.float64(4.0)), ('npf32', np.float32(4.0)), ('npi64', np.int64(4)),
    ('zero', 0), ('neg', -2.0), ('nan', float('nan')), ('inf', float('inf')),
    ('str', '30'), ('tup_ii', (2, 3)), ('tup_ff', (0.5, 0.25)), ('tup_if', (2, 0.5)),
    ('tup_bool', (True, False)), ('list', [3.0, 7]), ('tup3', (1, 2, 3)), ('tup1', (5,)), ('tup0', ()),
    ('tup_str', (1, '2')), ('tup_str0', ('1', 2)), ('tup_none', (None, 2.0)), ('tup_npf32', (np.float32(2), np.float32(3))),
    ('tup_npf64', (np.float64(2), np.float64(3))), ('tup_npi', (np.int32(2), np.int32(3))),
    ('tup_nested', ((1, 2), (3, 4))), ('nd_f64', np.array([2.0, 8.0])), ('nd_f32', np.array([2.0, 8.0], dtype='f4')),
    ('nd_i64', np.array([2, 8])), ('nd_0d', np.array(3.0)), ('nd_2d', np.array([[1.0, 2.0], [3.0, 4.0]])),
    ('nd_3', np.array([1.0, 2.0, 3.0])), ('nd_obj', np.array([2, 3.5], dtype=object)), ('nd_bool', np.array([True, True])),
    ('dict', {'x': 1, 'y': 2}), ('set', {1, 2}), ('complex', 2 + 0j), ('tupsub', TupleSub((6, 7))),
    ('weird', Weird()), ('badtuple', BadTuple((1, 2))), ('badget', BadGet((1, 2))), ('range', range(2)),
    ('tup_cplx', (1j, 2)), ('list_nan', [float('nan'), 1.0]),
]


class NoAttrs:
    """an `agg` without usable attrs: resolution must come from calc_res"""
    def __init__(self, r):
        self._r = r
        self.shape = r.shape
        self.dims = r.dims

    @property
    def attrs(self):
        raise AttributeError('attrs')

    def __getitem__(self, k):
        return self._r[k]


class FakeAgg:
    def __init__(self, data):
        self.data = data
        self.coords = {}
        self.dims = ('y', 'x')
        self.attrs = {}


def cases():
    out = {}
    # ---- resolution look-up: res attribute forms x coordinates present / absent
    for label, res in RES_VALUES:
        for with_coords in (True, False):
            kw = dict(xs=XS, ys=YS) if with_coords else {}
            key = 'res/%s/%s' % (label, 'coords' if with_coords else 'nocoords')
            r = raster(res=res, **kw)
            out[key + '/get'] = attempt(get_dataarray_resolution, r)
            out[key + '/slope'] = attempt(slope, r)
            out[key + '/curv'] = attempt(curvature, r)
            if with_coords:
                rd = raster(res=res, **kw).chunk({'y': 3, 'x': 4})
                out[key + '/slope_dask'] = attempt(slope, rd)
                out[key + '/curv_dask'] = attempt(curvature, rd)
    # ---- xdim / ydim arguments
    r = raster(xs=XS, ys=YS, dims=('lat', 'lon'))
    r3 = xr.DataArray(np.zeros((2, 5, 6)), dims=('band', 'row', 'col'),
                      coords={'band': [0, 1], 'row': np.arange(5) * 2.0, 'col': np.arange(6) * 3.0})
    for label, agg in (('2d', r), ('3d', r3)):
        for xd in (None, agg.dims[-1], agg.dims[-2], 'nope'):
            for yd in (None, agg.dims[-2], agg.dims[-1], 'nope'):
                key = 'dims/%s/%s/%s' % (label, xd, yd)
                out[key + '/get'] = attempt(get_dataarray_resolution, agg, xd, yd)
                out[key + '/getkw'] = attempt(get_dataarray_resolution, agg, ydim=yd, xdim=xd)
                out[key + '/calc'] = attempt(calc_res, agg, xd, yd)
                out[key + '/range'] = attempt(get_xy_range, agg, xdim=xd, ydim=yd)
    # res attribute wins over the coordinates even with xdim/ydim given
    out['dims/res_wins'] = attempt(get_dataarray_resolution, raster(res=(9, 8), xs=XS, ys=YS), 'nope', 'nope')
    # degenerate shapes, odd coordinates
    for shp in ((1, 1), (1, 5), (5, 1), (2, 2), (3, 4)):
        z = np.arange(shp[0] * shp[1], dtype='f8').reshape(shp)
        rr = raster(z, xs=np.arange(shp[1]) * 2.0, ys=np.arange(shp[0])[::-1] * 3.0)
        out['shape/%s/get' % (shp,)] = attempt(get_dataarray_resolution, rr)
        out['shape/%s/slope' % (shp,)] = attempt(slope, rr)
        out['shape/%s/curv' % (shp,)] = attempt(curvature, rr)
    out['intcoords/get'] = attempt(get_dataarray_resolution, raster(xs=np.arange(9), ys=np.arange(7)))
    out['datecoords/get'] = attempt(get_dataarray_resolution, raster(xs=XS, ys=np.arange(7).astype('datetime64[D]')))
    out['strcoords/get'] = attempt(get_dataarray_resolution, raster(xs=XS, ys=list('abcdefg')))
    out['noattrs/get'] = attempt(get_dataarray_resolution, NoAttrs(raster(xs=XS, ys=YS)))
    out['noattrs/nocoords'] = attempt(get_dataarray_resolution, NoAttrs(raster()))
    out['notadataarray/get'] = attempt(get_dataarray_resolution, Z)
    out['dataset/get'] = attempt(get_dataarray_resolution, raster(res=(1, 2)).to_dataset(name='a'))
    # ---- hillshade argument handling
    base = raster(res=(1, 1), xs=XS, ys=YS, extra_attrs={'unit': 'm'})
    for zlabel, z in (('f64', Z), ('i32', np.nan_to_num(Z).astype('i4')), ('f32', Z.astype('f4')),
                      ('u8', np.nan_to_num(Z).astype('u1')), ('3x3', Z[:3, :3]), ('2x5', Z[:2, :5]), ('1x4', Z[:1, :4])):
        rz = raster(z, res=(1, 1), extra_attrs={'unit': 'm'})
        out['hs/%s/default' % zlabel] = attempt(hillshade, rz)
        for az, alt in ((0, 0), (90, 45), (225, 25), (359.5, 90), (-45, 10.5), (720, -30), (np.float32(33), np.int64(60))):
            out['hs/%s/pos/%r/%r' % (zlabel, az, alt)] = attempt(hillshade, rz, az, alt)
            out['hs/%s/kw/%r/%r' % (zlabel, az, alt)] = attempt(hillshade, rz, angle_altitude=alt, azimuth=az, name='h')
        if z.shape[0] >= 2:
            rd = rz.chunk({'y': 2, 'x': 3})
            out['hs/%s/dask' % zlabel] = attempt(hillshade, rd, 100, 40, None)
            out['hs/%s/dask_default' % zlabel] = attempt(hillshade, rd)
    out['hs/name_none'] = attempt(hillshade, base, name=None)
    out['hs/shadows_numpy'] = attempt(hillshade, base, shadows=True)
    out['hs/shadows_dask'] = attempt(hillshade, base.chunk({'y': 3}), 1, 2, 'n', True)
    out['hs/shadows_truthy'] = attempt(hillshade, base, shadows=1)
    out['hs/shadows_falsy'] = attempt(hillshade, base, shadows=0)
    out['hs/shadows_none'] = attempt(hillshade, base, shadows=None)
    out['hs/bad_type'] = attempt(hillshade, FakeAgg([[1, 2], [3, 4]]))
    out['hs/bad_type_shadows'] = attempt(hillshade, FakeAgg([[1, 2], [3, 4]]), shadows=True)
    out['hs/ndarray_direct'] = attempt(hillshade, Z)
    out['hs/list_direct'] = attempt(hillshade, [[1.0]])
    out['hs/list_direct_shadows'] = attempt(hillshade, [[1.0]], shadows=True)
    out['hs/azimuth_str'] = attempt(hillshade, base, azimuth='a')
    out['hs/azimuth_none'] = attempt(hillshade, base, azimuth=None)
    out['hs/alt_none_dask'] = attempt(hillshade, base.chunk({'y': 3}), angle_altitude=None)
    out['hs/azimuth_array'] = attempt(hillshade, base, azimuth=np.array([10.0]))
    out['hs/3d'] = attempt(hillshade, xr.DataArray(np.zeros((2, 3, 4))))
    out['hs/1d'] = attempt(hillshade, xr.DataArray(np.zeros(4)))
    try:
        hillshade(base, 1, 2, 'n', False, 5)
        out['hs/too_many'] = 'no error'
    except TypeError as e:
        out['hs/too_many'] = 'TypeError'
    out['aspect/untouched'] = attempt(aspect, base)
    return out


def independent_checks():
    """formula checks that do not depend on recorded values"""
    bad = []
    for (cx, cy) in ((1, 1), (2.0, 0.5), (30, 10)):
        r = raster(np.nan_to_num(Z), res=(cx, cy))
        s = slope(r).values
        c = curvature(r).values
        z = np.nan_to_num(Z).astype('f4')
        for y in range(1, 6):
            for x in range(1, 8):
                a, b, cc = z[y + 1, x - 1], z[y + 1, x], z[y + 1, x + 1]
                d, f = z[y, x - 1], z[y, x + 1]
                g, h, i = z[y - 1, x - 1], z[y - 1, x], z[y - 1, x + 1]
                dzdx = ((cc + 2 * f + i) - (a + 2 * d + g)) / (8 * cx)
                dzdy = ((g + 2 * h + i) - (a + 2 * b + cc)) / (8 * cy)
                want = np.float32(np.arctan(np.sqrt(float(dzdx) ** 2 + float(dzdy) ** 2)) * 57.29578)
                if not np.isclose(s[y, x], want, rtol=1e-5, atol=1e-5):
                    bad.append(('slope', cx, cy, y, x, s[y, x], want))
                cs = (cx + cy) / 2
                dd = (z[y + 1, x] + z[y - 1, x]) / 2 - z[y, x]
                ee = (z[y, x + 1] + z[y, x - 1]) / 2 - z[y, x]
                wantc = -2 * (float(dd) + float(ee)) * 100 / (cs * cs)
                if not np.isclose(c[y, x], wantc, rtol=1e-4, atol=1e-4):
                    bad.append(('curv', cx, cy, y, x, c[y, x], wantc))
        if not (np.isnan(s[0]).all() and np.isnan(s[-1]).all() and np.isnan(s[:, 0]).all() and np.isnan(s[:, -1]).all()):
            bad.append(('slope border', cx, cy))
    return bad


EXPECTED = json.loads(r"""{
"aspect/untouched": "lazy=False decl=<f4 name='aspect' dims=('y', 'x') attrs=[('res', 'tuple'), ('unit', 'str')] coords=[('x', '<f8|(9,)|d0096e0944585532'), ('y', '<f8|(7,)|f65031d9303cf7e7')] <f4|(7, 9)|b27e5a6095ec2dce",
"dataset/get": "EXC AttributeError: 'Dataset' object has no attribute 'shape'",
"datecoords/get": "(float:5.0, timedelta:datetime.timedelta(days=1))",
"dims/2d/None/None/calc": "(float:5.0, float:1.5)",
"dims/2d/None/None/get": "(float:5.0, float:1.5)",
"dims/2d/None/None/getkw": "(float:5.0, float:1.5)",
"dims/2d/None/None/range": "((float:10.0, float:50.0), (float:-2.0, float:7.0))",
"dims/2d/None/lat/calc": "(float:5.0, float:1.5)",
"dims/2d/None/lat/get": "(float:5.0, float:1.5)",
"dims/2d/None/lat/getkw": "(float:5.0, float:1.5)",
"dims/2d/None/lat/range": "((float:10.0, float:50.0), (float:-2.0, float:7.0))",
"dims/2d/None/lon/calc": "(float:5.0, float:6.666666666666667)",
"dims/2d/None/lon/get": "(float:5.0, float:6.666666666666667)",
"dims/2d/None/lon/getkw": "(float:5.0, float:6.666666666666667)",
"dims/2d/None/lon/range": "((float:10.0, float:50.0), (float:10.0, float:50.0))",
"dims/2d/None/nope/calc": "EXC KeyError: 'nope'",
"dims/2d/None/nope/get": "EXC KeyError: 'nope'",
"dims/2d/None/nope/getkw": "EXC KeyError: 'nope'",
"dims/2d/None/nope/range": "EXC KeyError: 'nope'",
"dims/2d/lat/None/calc": "(float:1.125, float:1.5)",
"dims/2d/lat/None/get": "(float:1.125, float:1.5)",
"dims/2d/lat/None/getkw": "(float:1.125, float:1.5)",
"dims/2d/lat/None/range": "((float:-2.0, float:7.0), (float:-2.0, float:7.0))",
"dims/2d/lat/lat/calc": "(float:1.125, float:1.5)",
"dims/2d/lat/lat/get": "(float:1.125, float:1.5)",
"dims/2d/lat/lat/getkw": "(float:1.125, float:1.5)",
"dims/2d/lat/lat/range": "((float:-2.0, float:7.0), (float:-2.0, float:7.0))",
"dims/2d/lat/lon/calc": "(float:1.125, float:6.666666666666667)",
"dims/2d/lat/lon/get": "(float:1.125, float:6.666666666666667)",
"dims/2d/lat/lon/getkw": "(float:1.125, float:6.666666666666667)",
"dims/2d/lat/lon/range": "((float:-2.0, float:7.0), (float:10.0, float:50.0))",
"dims/2d/lat/nope/calc": "EXC KeyError: 'nope'",
"dims/2d/lat/nope/get": "EXC KeyError: 'nope'",
"dims/2d/lat/nope/getkw": "EXC KeyError: 'nope'",
"dims/2d/lat/nope/range": "EXC KeyError: 'nope'",
"dims/2d/lon/None/calc": "(float:5.0, float:1.5)",
"dims/2d/lon/None/get": "(float:5.0, float:1.5)",
"dims/2d/lon/None/getkw": "(float:5.0, float:1.5)",
"dims/2d/lon/None/range": "((float:10.0, float:50.0), (float:-2.0, float:7.0))",
"dims/2d/lon/lat/calc": "(float:5.0, float:1.5)",
"dims/2d/lon/lat/get": "(float:5.0, float:1.5)",
"dims/2d/lon/lat/getkw": "(float:5.0, float:1.5)",
"dims/2d/lon/lat/range": "((float:10.0, float:50.0), (float:-2.0, float:7.0))",
"dims/2d/lon/lon/calc": "(float:5.0, float:6.666666666666667)",
"dims/2d/lon/lon/get": "(float:5.0, float:6.666666666666667)",
"dims/2d/lon/lon/getkw": "(float:5.0, float:6.666666666666667)",
"dims/2d/lon/lon/range": "((float:10.0, float:50.0), (float:10.0, float:50.0))",
"dims/2d/lon/nope/calc": "EXC KeyError: 'nope'",
"dims/2d/lon/nope/get": "EXC KeyError: 'nope'",
"dims/2d/lon/nope/getkw": "EXC KeyError: 'nope'",
"dims/2d/lon/nope/range": "EXC KeyError: 'nope'",
"dims/2d/nope/None/calc": "EXC KeyError: 'nope'",
"dims/2d/nope/None/get": "EXC KeyError: 'nope'",
"dims/2d/nope/None/getkw": "EXC KeyError: 'nope'",
"dims/2d/nope/None/range": "EXC KeyError: 'nope'",
"dims/2d/nope/lat/calc": "EXC KeyError: 'nope'",
"dims/2d/nope/lat/get": "EXC KeyError: 'nope'",
"dims/2d/nope/lat/getkw": "EXC KeyError: 'nope'",
"dims/2d/nope/lat/range": "EXC KeyError: 'nope'",
"dims/2d/nope/lon/calc": "EXC KeyError: 'nope'",
"dims/2d/nope/lon/get": "EXC KeyError: 'nope'",
"dims/2d/nope/lon/getkw": "EXC KeyError: 'nope'",
"dims/2d/nope/lon/range": "EXC KeyError: 'nope'",
"dims/2d/nope/nope/calc": "EXC KeyError: 'nope'",
"dims/2d/nope/nope/get": "EXC KeyError: 'nope'",
"dims/2d/nope/nope/getkw": "EXC KeyError: 'nope'",
"dims/2d/nope/nope/range": "EXC KeyError: 'nope'",
"dims/3d/None/None/calc": "(float:3.0, float:2.0)",
"dims/3d/None/None/get": "(float:3.0, float:2.0)",
"dims/3d/None/None/getkw": "(float:3.0, float:2.0)",
"dims/3d/None/None/range": "((float:0.0, float:15.0), (float:0.0, float:8.0))",
"dims/3d/None/col/calc": "(float:3.0, float:3.75)",
"dims/3d/None/col/get": "(float:3.0, float:3.75)",
"dims/3d/None/col/getkw": "(float:3.0, float:3.75)",
"dims/3d/None/col/range": "((float:0.0, float:15.0), (float:0.0, float:15.0))",
"dims/3d/None/nope/calc": "EXC KeyError: 'nope'",
"dims/3d/None/nope/get": "EXC KeyError: 'nope'",
"dims/3d/None/nope/getkw": "EXC KeyError: 'nope'",
"dims/3d/None/nope/range": "EXC KeyError: 'nope'",
"dims/3d/None/row/calc": "(float:3.0, float:2.0)",
"dims/3d/None/row/get": "(float:3.0, float:2.0)",
"dims/3d/None/row/getkw": "(float:3.0, float:2.0)",
"dims/3d/None/row/range": "((float:0.0, float:15.0), (float:0.0, float:8.0))",
"dims/3d/col/None/calc": "(float:3.0, float:2.0)",
"dims/3d/col/None/get": "(float:3.0, float:2.0)",
"dims/3d/col/None/getkw": "(float:3.0, float:2.0)",
"dims/3d/col/None/range": "((float:0.0, float:15.0), (float:0.0, float:8.0))",
"dims/3d/col/col/calc": "(float:3.0, float:3.75)",
"dims/3d/col/col/get": "(float:3.0, float:3.75)",
"dims/3d/col/col/getkw": "(float:3.0, float:3.75)",
"dims/3d/col/col/range": "((float:0.0, float:15.0), (float:0.0, float:15.0))",
"dims/3d/col/nope/calc": "EXC KeyError: 'nope'",
"dims/3d/col/nope/get": "EXC KeyError: 'nope'",
"dims/3d/col/nope/getkw": "EXC KeyError: 'nope'",
"dims/3d/col/nope/range": "EXC KeyError: 'nope'",
"dims/3d/col/row/calc": "(float:3.0, float:2.0)",
"dims/3d/col/row/get": "(float:3.0, float:2.0)",
"dims/3d/col/row/getkw": "(float:3.0, float:2.0)",
"dims/3d/col/row/range": "((float:0.0, float:15.0), (float:0.0, float:8.0))",
"dims/3d/nope/None/calc": "EXC KeyError: 'nope'",
"dims/3d/nope/None/get": "EXC KeyError: 'nope'",
"dims/3d/nope/None/getkw": "EXC KeyError: 'nope'",
"dims/3d/nope/None/range": "EXC KeyError: 'nope'",
"dims/3d/nope/col/calc": "EXC KeyError: 'nope'",
"dims/3d/nope/col/get": "EXC KeyError: 'nope'",
"dims/3d/nope/col/getkw": "EXC KeyError: 'nope'",
"dims/3d/nope/col/range": "EXC KeyError: 'nope'",
"dims/3d/nope/nope/calc": "EXC KeyError: 'nope'",
"dims/3d/nope/nope/get": "EXC KeyError: 'nope'",
"dims/3d/nope/nope/getkw": "EXC KeyError: 'nope'",
"dims/3d/nope/nope/range": "EXC KeyError: 'nope'",
"dims/3d/nope/row/calc": "EXC KeyError: 'nope'",
"dims/3d/nope/row/get": "EXC KeyError: 'nope'",
"dims/3d/nope/row/getkw": "EXC KeyError: 'nope'",
"dims/3d/nope/row/range": "EXC KeyError: 'nope'",
"dims/3d/row/None/calc": "(float:1.6, float:2.0)",
"dims/3d/row/None/get": "(float:1.6, float:2.0)",
"dims/3d/row/None/getkw": "(float:1.6, float:2.0)",
"dims/3d/row/None/range": "((float:0.0, float:8.0), (float:0.0, float:8.0))",
"dims/3d/row/col/calc": "(float:1.6, float:3.75)",
"dims/3d/row/col/get": "(float:1.6, float:3.75)",
"dims/3d/row/col/getkw": "(float:1.6, float:3.75)",
"dims/3d/row/col/range": "((float:0.0, float:8.0), (float:0.0, float:15.0))",
"dims/3d/row/nope/calc": "EXC KeyError: 'nope'",
"dims/3d/row/nope/get": "EXC KeyError: 'nope'",
"dims/3d/row/nope/getkw": "EXC KeyError: 'nope'",
"dims/3d/row/nope/range": "EXC KeyError: 'nope'",
"dims/3d/row/row/calc": "(float:1.6, float:2.0)",
"dims/3d/row/row/get": "(float:1.6, float:2.0)",
"dims/3d/row/row/getkw": "(float:1.6, float:2.0)",
"dims/3d/row/row/range": "((float:0.0, float:8.0), (float:0.0, float:8.0))",
"dims/res_wins": "(int:9, int:8)",
"hs/1d": "EXC ValueError: too many values to unpack (expected 2)",
"hs/1x4/default": "EXC ValueError: Shape of array too small to calculate a numerical gradient, at least (edge_order + 1) elements are required.",
"hs/1x4/kw/-45/10.5": "EXC ValueError: Shape of array too small to calculate a numerical gradient, at least (edge_order + 1) elements are required.",
"hs/1x4/kw/0/0": "EXC ValueError: Shape of array too small to calculate a numerical gradient, at least (edge_order + 1) elements are required.",
"hs/1x4/kw/225/25": "EXC ValueError: Shape of array too small to calculate a numerical gradient, at least (edge_order + 1) elements are required.",
"hs/1x4/kw/359.5/90": "EXC ValueError: Shape of array too small to calculate a numerical gradient, at least (edge_order + 1) elements are required.",
"hs/1x4/kw/720/-30": "EXC ValueError: Shape of array too small to calculate a numerical gradient, at least (edge_order + 1) elements are required.",
"hs/1x4/kw/90/45": "EXC ValueError: Shape of array too small to calculate a numerical gradient, at least (edge_order + 1) elements are required.",
"hs/1x4/kw/np.float32(33.0)/np.int64(60)": "EXC ValueError: Shape of array too small to calculate a numerical gradient, at least (edge_order + 1) elements are required.",
"hs/1x4/pos/-45/10.5": "EXC ValueError: Shape of array too small to calculate a numerical gradient, at least (edge_order + 1) elements are required.",
"hs/1x4/pos/0/0": "EXC ValueError: Shape of array too small to calculate a numerical gradient, at least (edge_order + 1) elements are required.",
"hs/1x4/pos/225/25": "EXC ValueError: Shape of array too small to calculate a numerical gradient, at least (edge_order + 1) elements are required.",
"hs/1x4/pos/359.5/90": "EXC ValueError: Shape of array too small to calculate a numerical gradient, at least (edge_order + 1) elements are required.",
"hs/1x4/pos/720/-30": "EXC ValueError: Shape of array too small to calculate a numerical gradient, at least (edge_order + 1) elements are required.",
"hs/1x4/pos/90/45": "EXC ValueError: Shape of array too small to calculate a numerical gradient, at least (edge_order + 1) elements are required.",
"hs/1x4/pos/np.float32(33.0)/np.int64(60)": "EXC ValueError: Shape of array too small to calculate a numerical gradient, at least (edge_order + 1) elements are required.",
"hs/2x5/dask": "lazy=True decl=<f8 name='_trim-*' dims=('y', 'x') attrs=[('res', 'tuple'), ('unit', 'str')] coords=[] chunks=((2,), (3, 2)) <f8|(2, 5)|d07aa61760988ddb",
"hs/2x5/dask_default": "lazy=True decl=<f8 name='hillshade' dims=('y', 'x') attrs=[('res', 'tuple'), ('unit', 'str')] coords=[] chunks=((2,), (3, 2)) <f8|(2, 5)|d07aa61760988ddb",
"hs/2x5/default": "lazy=False decl=<f8 name='hillshade' dims=('y', 'x') attrs=[('res', 'tuple'), ('unit', 'str')] coords=[] <f8|(2, 5)|d07aa61760988ddb",
"hs/2x5/kw/-45/10.5": "lazy=False decl=<f8 name='h' dims=('y', 'x') attrs=[('res', 'tuple'), ('unit', 'str')] coords=[] <f8|(2, 5)|d07aa61760988ddb",
"hs/2x5/kw/0/0": "lazy=False decl=<f8 name='h' dims=('y', 'x') attrs=[('res', 'tuple'), ('unit', 'str')] coords=[] <f8|(2, 5)|d07aa61760988ddb",
"hs/2x5/kw/225/25": "lazy=False decl=<f8 name='h' dims=('y', 'x') attrs=[('res', 'tuple'), ('unit', 'str')] coords=[] <f8|(2, 5)|d07aa61760988ddb",
"hs/2x5/kw/359.5/90": "lazy=False decl=<f8 name='h' dims=('y', 'x') attrs=[('res', 'tuple'), ('unit', 'str')] coords=[] <f8|(2, 5)|d07aa61760988ddb",
"hs/2x5/kw/720/-30": "lazy=False decl=<f8 name='h' dims=('y', 'x') attrs=[('res', 'tuple'), ('unit', 'str')] coords=[] <f8|(2, 5)|d07aa61760988ddb",
"hs/2x5/kw/90/45": "lazy=False decl=<f8 name='h' dims=('y', 'x') attrs=[('res', 'tuple'), ('unit', 'str')] coords=[] <f8|(2, 5)|d07aa61760988ddb",
"hs/2x5/kw/np.float32(33.0)/np.int64(60)": "lazy=False decl=<f8 name='h' dims=('y', 'x') attrs=[('res', 'tuple'), ('unit', 'str')] coords=[] <f8|(2, 5)|d07aa61760988ddb",
"hs/2x5/pos/-45/10.5": "lazy=False decl=<f8 name='hillshade' dims=('y', 'x') attrs=[('res', 'tuple'), ('unit', 'str')] coords=[] <f8|(2, 5)|d07aa61760988ddb",
"hs/2x5/pos/0/0": "lazy=False decl=<f8 name='hillshade' dims=('y', 'x') attrs=[('res', 'tuple'), ('unit', 'str')] coords=[] <f8|(2, 5)|d07aa61760988ddb",
"hs/2x5/pos/225/25": "lazy=False decl=<f8 name='hillshade' dims=('y', 'x') attrs=[('res', 'tuple'), ('unit', 'str')] coords=[] <f8|(2, 5)|d07aa61760988ddb",
"hs/2x5/pos/359.5/90": "lazy=False decl=<f8 name='hillshade' dims=('y', 'x') attrs=[('res', 'tuple'), ('unit', 'str')] coords=[] <f8|(2, 5)|d07aa61760988ddb",
"hs/2x5/pos/720/-30": "lazy=False decl=<f8 name='hillshade' dims=('y', 'x') attrs=[('res', 'tuple'), ('unit', 'str')] coords=[] <f8|(2, 5)|d07aa61760988ddb",
"hs/2x5/pos/90/45": "lazy=False decl=<f8 name='hillshade' dims=('y', 'x') attrs=[('res', 'tuple'), ('unit', 'str')] coords=[] <f8|(2, 5)|d07aa61760988ddb",
"hs/2x5/pos/np.float32(33.0)/np.int64(60)": "lazy=False decl=<f8 name='hillshade' dims=('y', 'x') attrs=[('res', 'tuple'), ('unit', 'str')] coords=[] <f8|(2, 5)|d07aa61760988ddb",
"hs/3d": "EXC ValueError: too many values to unpack (expected 2)",
"hs/3x3/dask": "lazy=True decl=<f8 name='_trim-*' dims=('y', 'x') attrs=[('res', 'tuple'), ('unit', 'str')] coords=[] chunks=((2, 1), (3,)) <f8|(3, 3)|adb64dff11d8a609",
"hs/3x3/dask_default": "lazy=True decl=<f8 name='hillshade' dims=('y', 'x') attrs=[('res', 'tuple'), ('unit', 'str')] coords=[] chunks=((2, 1), (3,)) <f8|(3, 3)|6dd6160228b5cb7c",
"hs/3x3/default": "lazy=False decl=<f8 name='hillshade' dims=('y', 'x') attrs=[('res', 'tuple'), ('unit', 'str')] coords=[] <f8|(3, 3)|6dd6160228b5cb7c",
"hs/3x3/kw/-45/10.5": "lazy=False decl=<f8 name='h' dims=('y', 'x') attrs=[('res', 'tuple'), ('unit', 'str')] coords=[] <f8|(3, 3)|37cdd4e691d2540a",
"hs/3x3/kw/0/0": "lazy=False decl=<f8 name='h' dims=('y', 'x') attrs=[('res', 'tuple'), ('unit', 'str')] coords=[] <f8|(3, 3)|75af616c980b988f",
"hs/3x3/kw/225/25": "lazy=False decl=<f8 name='h' dims=('y', 'x') attrs=[('res', 'tuple'), ('unit', 'str')] coords=[] <f8|(3, 3)|6dd6160228b5cb7c",
"hs/3x3/kw/359.5/90": "lazy=False decl=<f8 name='h' dims=('y', 'x') attrs=[('res', 'tuple'), ('unit', 'str')] coords=[] <f8|(3, 3)|9a0f5f44936aa790",
"hs/3x3/kw/720/-30": "lazy=False decl=<f8 name='h' dims=('y', 'x') attrs=[('res', 'tuple'), ('unit', 'str')] coords=[] <f8|(3, 3)|7c7b3584db4f8b19",
"hs/3x3/kw/90/45": "lazy=False decl=<f8 name='h' dims=('y', 'x') attrs=[('res', 'tuple'), ('unit', 'str')] coords=[] <f8|(3, 3)|f7680a5f4b940f01",
"hs/3x3/kw/np.float32(33.0)/np.int64(60)": "lazy=False decl=<f8 name='h' dims=('y', 'x') attrs=[('res', 'tuple'), ('unit', 'str')] coords=[] <f8|(3, 3)|c500628fa27533be",
"hs/3x3/pos/-45/10.5": "lazy=False decl=<f8 name='hillshade' dims=('y', 'x') attrs=[('res', 'tuple'), ('unit', 'str')] coords=[] <f8|(3, 3)|37cdd4e691d2540a",
"hs/3x3/pos/0/0": "lazy=False decl=<f8 name='hillshade' dims=('y', 'x') attrs=[('res', 'tuple'), ('unit', 'str')] coords=[] <f8|(3, 3)|75af616c980b988f",
"hs/3x3/pos/225/25": "lazy=False decl=<f8 name='hillshade' dims=('y', 'x') attrs=[('res', 'tuple'), ('unit', 'str')] coords=[] <f8|(3, 3)|6dd6160228b5cb7c",
"hs/3x3/pos/359.5/90": "lazy=False decl=<f8 name='hillshade' dims=('y', 'x') attrs=[('res', 'tuple'), ('unit', 'str')] coords=[] <f8|(3, 3)|9a0f5f44936aa790",
"hs/3x3/pos/720/-30": "lazy=False decl=<f8 name='hillshade' dims=('y', 'x') attrs=[('res', 'tuple'), ('unit', 'str')] coords=[] <f8|(3, 3)|7c7b3584db4f8b19",
"hs/3x3/pos/90/45": "lazy=False decl=<f8 name='hillshade' dims=('y', 'x') attrs=[('res', 'tuple'), ('unit', 'str')] coords=[] <f8|(3, 3)|f7680a5f4b940f01",
"hs/3x3/pos/np.float32(33.0)/np.int64(60)": "lazy=False decl=<f8 name='hillshade' dims=('y', 'x') attrs=[('res', 'tuple'), ('unit', 'str')] coords=[] <f8|(3, 3)|c500628fa27533be",
"hs/alt_none_dask": "LAZY decl=<f8 chunks=((3, 3, 1), (9,)) EXC TypeError: unsupported operand type(s) for *: 'NoneType' and 'float'",
"hs/azimuth_array": "lazy=False decl=<f8 name='hillshade' dims=('y', 'x') attrs=[('res', 'tuple'), ('unit', 'str')] coords=[('x', '<f8|(9,)|d0096e0944585532'), ('y', '<f8|(7,)|f65031d9303cf7e7')] <f8|(7, 9)|3ba78dd6050d7e7f",
"hs/azimuth_none": "EXC TypeError: unsupported operand type(s) for -: 'float' and 'NoneType'",
"hs/azimuth_str": "EXC TypeError: unsupported operand type(s) for -: 'float' and 'str'",
"hs/bad_type": "EXC TypeError: Unsupported Array Type: <class 'list'>",
"hs/bad_type_shadows": "EXC RuntimeError: Can only calculate shadows if cupy and rtxpy are available",
"hs/f32/dask": "lazy=True decl=<f8 name='_trim-*' dims=('y', 'x') attrs=[('res', 'tuple'), ('unit', 'str')] coords=[] chunks=((2, 2, 2, 1), (3, 3, 3)) <f8|(7, 9)|4a918d4cf54ddfc4",
"hs/f32/dask_default": "lazy=True decl=<f8 name='hillshade' dims=('y', 'x') attrs=[('res', 'tuple'), ('unit', 'str')] coords=[] chunks=((2, 2, 2, 1), (3, 3, 3)) <f8|(7, 9)|19446b05b0850915",
"hs/f32/default": "lazy=False decl=<f8 name='hillshade' dims=('y', 'x') attrs=[('res', 'tuple'), ('unit', 'str')] coords=[] <f8|(7, 9)|19446b05b0850915",
"hs/f32/kw/-45/10.5": "lazy=False decl=<f8 name='h' dims=('y', 'x') attrs=[('res', 'tuple'), ('unit', 'str')] coords=[] <f8|(7, 9)|74af8df8def1a3d9",
"hs/f32/kw/0/0": "lazy=False decl=<f8 name='h' dims=('y', 'x') attrs=[('res', 'tuple'), ('unit', 'str')] coords=[] <f8|(7, 9)|4c98ca314bfa736c",
"hs/f32/kw/225/25": "lazy=False decl=<f8 name='h' dims=('y', 'x') attrs=[('res', 'tuple'), ('unit', 'str')] coords=[] <f8|(7, 9)|19446b05b0850915",
"hs/f32/kw/359.5/90": "lazy=False decl=<f8 name='h' dims=('y', 'x') attrs=[('res', 'tuple'), ('unit', 'str')] coords=[] <f8|(7, 9)|e88521e7b06ae4bf",
"hs/f32/kw/720/-30": "lazy=False decl=<f8 name='h' dims=('y', 'x') attrs=[('res', 'tuple'), ('unit', 'str')] coords=[] <f8|(7, 9)|62db31d9f28f5324",
"hs/f32/kw/90/45": "lazy=False decl=<f8 name='h' dims=('y', 'x') attrs=[('res', 'tuple'), ('unit', 'str')] coords=[] <f8|(7, 9)|03fcbd6dd920039e",
"hs/f32/kw/np.float32(33.0)/np.int64(60)": "lazy=False decl=<f8 name='h' dims=('y', 'x') attrs=[('res', 'tuple'), ('unit', 'str')] coords=[] <f8|(7, 9)|d697342bbd2a2796",
"hs/f32/pos/-45/10.5": "lazy=False decl=<f8 name='hillshade' dims=('y', 'x') attrs=[('res', 'tuple'), ('unit', 'str')] coords=[] <f8|(7, 9)|74af8df8def1a3d9",
"hs/f32/pos/0/0": "lazy=False decl=<f8 name='hillshade' dims=('y', 'x') attrs=[('res', 'tuple'), ('unit', 'str')] coords=[] <f8|(7, 9)|4c98ca314bfa736c",
"hs/f32/pos/225/25": "lazy=False decl=<f8 name='hillshade' dims=('y', 'x') attrs=[('res', 'tuple'), ('unit', 'str')] coords=[] <f8|(7, 9)|19446b05b0850915",
"hs/f32/pos/359.5/90": "lazy=False decl=<f8 name='hillshade' dims=('y', 'x') attrs=[('res', 'tuple'), ('unit', 'str')] coords=[] <f8|(7, 9)|e88521e7b06ae4bf",
"hs/f32/pos/720/-30": "lazy=False decl=<f8 name='hillshade' dims=('y', 'x') attrs=[('res', 'tuple'), ('unit', 'str')] coords=[] <f8|(7, 9)|62db31d9f28f5324",
"hs/f32/pos/90/45": "lazy=False decl=<f8 name='hillshade' dims=('y', 'x') attrs=[('res', 'tuple'), ('unit', 'str')] coords=[] <f8|(7, 9)|03fcbd6dd920039e",
"hs/f32/pos/np.float32(33.0)/np.int64(60)": "lazy=False decl=<f8 name='hillshade' dims=('y', 'x') attrs=[('res', 'tuple'), ('unit', 'str')] coords=[] <f8|(7, 9)|d697342bbd2a2796",
"hs/f64/dask": "lazy=True decl=<f8 name='_trim-*' dims=('y', 'x') attrs=[('res', 'tuple'), ('unit', 'str')] coords=[] chunks=((2, 2, 2, 1), (3, 3, 3)) <f8|(7, 9)|4a918d4cf54ddfc4",
"hs/f64/dask_default": "lazy=True decl=<f8 name='hillshade' dims=('y', 'x') attrs=[('res', 'tuple'), ('unit', 'str')] coords=[] chunks=((2, 2, 2, 1), (3, 3, 3)) <f8|(7, 9)|19446b05b0850915",
"hs/f64/default": "lazy=False decl=<f8 name='hillshade' dims=('y', 'x') attrs=[('res', 'tuple'), ('unit', 'str')] coords=[] <f8|(7, 9)|19446b05b0850915",
"hs/f64/kw/-45/10.5": "lazy=False decl=<f8 name='h' dims=('y', 'x') attrs=[('res', 'tuple'), ('unit', 'str')] coords=[] <f8|(7, 9)|74af8df8def1a3d9",
"hs/f64/kw/0/0": "lazy=False decl=<f8 name='h' dims=('y', 'x') attrs=[('res', 'tuple'), ('unit', 'str')] coords=[] <f8|(7, 9)|4c98ca314bfa736c",
"hs/f64/kw/225/25": "lazy=False decl=<f8 name='h' dims=('y', 'x') attrs=[('res', 'tuple'), ('unit', 'str')] coords=[] <f8|(7, 9)|19446b05b0850915",
"hs/f64/kw/359.5/90": "lazy=False decl=<f8 name='h' dims=('y', 'x') attrs=[('res', 'tuple'), ('unit', 'str')] coords=[] <f8|(7, 9)|e88521e7b06ae4bf",
"hs/f64/kw/720/-30": "lazy=False decl=<f8 name='h' dims=('y', 'x') attrs=[('res', 'tuple'), ('unit', 'str')] coords=[] <f8|(7, 9)|62db31d9f28f5324",
"hs/f64/kw/90/45": "lazy=False decl=<f8 name='h' dims=('y', 'x') attrs=[('res', 'tuple'), ('unit', 'str')] coords=[] <f8|(7, 9)|03fcbd6dd920039e",
"hs/f64/kw/np.float32(33.0)/np.int64(60)": "lazy=False decl=<f8 name='h' dims=('y', 'x') attrs=[('res', 'tuple'), ('unit', 'str')] coords=[] <f8|(7, 9)|d697342bbd2a2796",
"hs/f64/pos/-45/10.5": "lazy=False decl=<f8 name='hillshade' dims=('y', 'x') attrs=[('res', 'tuple'), ('unit', 'str')] coords=[] <f8|(7, 9)|74af8df8def1a3d9",
"hs/f64/pos/0/0": "lazy=False decl=<f8 name='hillshade' dims=('y', 'x') attrs=[('res', 'tuple'), ('unit', 'str')] coords=[] <f8|(7, 9)|4c98ca314bfa736c",
"hs/f64/pos/225/25": "lazy=False decl=<f8 name='hillshade' dims=('y', 'x') attrs=[('res', 'tuple'), ('unit', 'str')] coords=[] <f8|(7, 9)|19446b05b0850915",
"hs/f64/pos/359.5/90": "lazy=False decl=<f8 name='hillshade' dims=('y', 'x') attrs=[('res', 'tuple'), ('unit', 'str')] coords=[] <f8|(7, 9)|e88521e7b06ae4bf",
"hs/f64/pos/720/-30": "lazy=False decl=<f8 name='hillshade' dims=('y', 'x') attrs=[('res', 'tuple'), ('unit', 'str')] coords=[] <f8|(7, 9)|62db31d9f28f5324",
"hs/f64/pos/90/45": "lazy=False decl=<f8 name='hillshade' dims=('y', 'x') attrs=[('res', 'tuple'), ('unit', 'str')] coords=[] <f8|(7, 9)|03fcbd6dd920039e",
"hs/f64/pos/np.float32(33.0)/np.int64(60)": "lazy=False decl=<f8 name='hillshade' dims=('y', 'x') attrs=[('res', 'tuple'), ('unit', 'str')] coords=[] <f8|(7, 9)|d697342bbd2a2796",
"hs/i32/dask": "lazy=True decl=<f8 name='_trim-*' dims=('y', 'x') attrs=[('res', 'tuple'), ('unit', 'str')] coords=[] chunks=((2, 2, 2, 1), (3, 3, 3)) <f8|(7, 9)|3f725e392e7e02dc",
"hs/i32/dask_default": "lazy=True decl=<f8 name='hillshade' dims=('y', 'x') attrs=[('res', 'tuple'), ('unit', 'str')] coords=[] chunks=((2, 2, 2, 1), (3, 3, 3)) <f8|(7, 9)|67fbb0dfbe9cb70f",
"hs/i32/default": "lazy=False decl=<f8 name='hillshade' dims=('y', 'x') attrs=[('res', 'tuple'), ('unit', 'str')] coords=[] <f8|(7, 9)|67fbb0dfbe9cb70f",
"hs/i32/kw/-45/10.5": "lazy=False decl=<f8 name='h' dims=('y', 'x') attrs=[('res', 'tuple'), ('unit', 'str')] coords=[] <f8|(7, 9)|68ff457c90b867af",
"hs/i32/kw/0/0": "lazy=False decl=<f8 name='h' dims=('y', 'x') attrs=[('res', 'tuple'), ('unit', 'str')] coords=[] <f8|(7, 9)|5c6936eeeeb93124",
"hs/i32/kw/225/25": "lazy=False decl=<f8 name='h' dims=('y', 'x') attrs=[('res', 'tuple'), ('unit', 'str')] coords=[] <f8|(7, 9)|67fbb0dfbe9cb70f",
"hs/i32/kw/359.5/90": "lazy=False decl=<f8 name='h' dims=('y', 'x') attrs=[('res', 'tuple'), ('unit', 'str')] coords=[] <f8|(7, 9)|e3d294282a3d8da6",
"hs/i32/kw/720/-30": "lazy=False decl=<f8 name='h' dims=('y', 'x') attrs=[('res', 'tuple'), ('unit', 'str')] coords=[] <f8|(7, 9)|2cb06d08e31b219f",
"hs/i32/kw/90/45": "lazy=False decl=<f8 name='h' dims=('y', 'x') attrs=[('res', 'tuple'), ('unit', 'str')] coords=[] <f8|(7, 9)|55a8ce8313820893",
"hs/i32/kw/np.float32(33.0)/np.int64(60)": "lazy=False decl=<f8 name='h' dims=('y', 'x') attrs=[('res', 'tuple'), ('unit', 'str')] coords=[] <f8|(7, 9)|db38612f6bd1c053",
"hs/i32/pos/-45/10.5": "lazy=False decl=<f8 name='hillshade' dims=('y', 'x') attrs=[('res', 'tuple'), ('unit', 'str')] coords=[] <f8|(7, 9)|68ff457c90b867af",
"hs/i32/pos/0/0": "lazy=False decl=<f8 name='hillshade' dims=('y', 'x') attrs=[('res', 'tuple'), ('unit', 'str')] coords=[] <f8|(7, 9)|5c6936eeeeb93124",
"hs/i32/pos/225/25": "lazy=False decl=<f8 name='hillshade' dims=('y', 'x') attrs=[('res', 'tuple'), ('unit', 'str')] coords=[] <f8|(7, 9)|67fbb0dfbe9cb70f",
"hs/i32/pos/359.5/90": "lazy=False decl=<f8 name='hillshade' dims=('y', 'x') attrs=[('res', 'tuple'), ('unit', 'str')] coords=[] <f8|(7, 9)|e3d294282a3d8da6",
"hs/i32/pos/720/-30": "lazy=False decl=<f8 name='hillshade' dims=('y', 'x') attrs=[('res', 'tuple'), ('unit', 'str')] coords=[] <f8|(7, 9)|2cb06d08e31b219f",
"hs/i32/pos/90/45": "lazy=False decl=<f8 name='hillshade' dims=('y', 'x') attrs=[('res', 'tuple'), ('unit', 'str')] coords=[] <f8|(7, 9)|55a8ce8313820893",
"hs/i32/pos/np.float32(33.0)/np.int64(60)": "lazy=False decl=<f8 name='hillshade' dims=('y', 'x') attrs=[('res', 'tuple'), ('unit', 'str')] coords=[] <f8|(7, 9)|db38612f6bd1c053",
"hs/list_direct": "EXC AttributeError: 'list' object has no attribute 'data'",
"hs/list_direct_shadows": "EXC RuntimeError: Can only calculate shadows if cupy and rtxpy are available",
"hs/name_none": "lazy=False decl=<f8 name=None dims=('y', 'x') attrs=[('res', 'tuple'), ('unit', 'str')] coords=[('x', '<f8|(9,)|d0096e0944585532'), ('y', '<f8|(7,)|f65031d9303cf7e7')] <f8|(7, 9)|19446b05b0850915",
"hs/ndarray_direct": "EXC TypeError: Unsupported Array Type: <class 'memoryview'>",
"hs/shadows_dask": "EXC RuntimeError: Can only calculate shadows if cupy and rtxpy are available",
"hs/shadows_falsy": "lazy=False decl=<f8 name='hillshade' dims=('y', 'x') attrs=[('res', 'tuple'), ('unit', 'str')] coords=[('x', '<f8|(9,)|d0096e0944585532'), ('y', '<f8|(7,)|f65031d9303cf7e7')] <f8|(7, 9)|19446b05b0850915",
"hs/shadows_none": "lazy=False decl=<f8 name='hillshade' dims=('y', 'x') attrs=[('res', 'tuple'), ('unit', 'str')] coords=[('x', '<f8|(9,)|d0096e0944585532'), ('y', '<f8|(7,)|f65031d9303cf7e7')] <f8|(7, 9)|19446b05b0850915",
"hs/shadows_numpy": "EXC RuntimeError: Can only calculate shadows if cupy and rtxpy are available",
"hs/shadows_truthy": "EXC RuntimeError: Can only calculate shadows if cupy and rtxpy are available",
"hs/too_many": "TypeError",
"hs/u8/dask": "lazy=True decl=<f8 name='_trim-*' dims=('y', 'x') attrs=[('res', 'tuple'), ('unit', 'str')] coords=[] chunks=((2, 2, 2, 1), (3, 3, 3)) <f8|(7, 9)|3f725e392e7e02dc",
"hs/u8/dask_default": "lazy=True decl=<f8 name='hillshade' dims=('y', 'x') attrs=[('res', 'tuple'), ('unit', 'str')] coords=[] chunks=((2, 2, 2, 1), (3, 3, 3)) <f8|(7, 9)|67fbb0dfbe9cb70f",
"hs/u8/default": "lazy=False decl=<f8 name='hillshade' dims=('y', 'x') attrs=[('res', 'tuple'), ('unit', 'str')] coords=[] <f8|(7, 9)|67fbb0dfbe9cb70f",
"hs/u8/kw/-45/10.5": "lazy=False decl=<f8 name='h' dims=('y', 'x') attrs=[('res', 'tuple'), ('unit', 'str')] coords=[] <f8|(7, 9)|68ff457c90b867af",
"hs/u8/kw/0/0": "lazy=False decl=<f8 name='h' dims=('y', 'x') attrs=[('res', 'tuple'), ('unit', 'str')] coords=[] <f8|(7, 9)|5c6936eeeeb93124",
"hs/u8/kw/225/25": "lazy=False decl=<f8 name='h' dims=('y', 'x') attrs=[('res', 'tuple'), ('unit', 'str')] coords=[] <f8|(7, 9)|67fbb0dfbe9cb70f",
"hs/u8/kw/359.5/90": "lazy=False decl=<f8 name='h' dims=('y', 'x') attrs=[('res', 'tuple'), ('unit', 'str')] coords=[] <f8|(7, 9)|e3d294282a3d8da6",
"hs/u8/kw/720/-30": "lazy=False decl=<f8 name='h' dims=('y', 'x') attrs=[('res', 'tuple'), ('unit', 'str')] coords=[] <f8|(7, 9)|2cb06d08e31b219f",
"hs/u8/kw/90/45": "lazy=False decl=<f8 name='h' dims=('y', 'x') attrs=[('res', 'tuple'), ('unit', 'str')] coords=[] <f8|(7, 9)|55a8ce8313820893",
"hs/u8/kw/np.float32(33.0)/np.int64(60)": "lazy=False decl=<f8 name='h' dims=('y', 'x') attrs=[('res', 'tuple'), ('unit', 'str')] coords=[] <f8|(7, 9)|db38612f6bd1c053",
"hs/u8/pos/-45/10.5": "lazy=False decl=<f8 name='hillshade' dims=('y', 'x') attrs=[('res', 'tuple'), ('unit', 'str')] coords=[] <f8|(7, 9)|68ff457c90b867af",
"hs/u8/pos/0/0": "lazy=False decl=<f8 name='hillshade' dims=('y', 'x') attrs=[('res', 'tuple'), ('unit', 'str')] coords=[] <f8|(7, 9)|5c6936eeeeb93124",
"hs/u8/pos/225/25": "lazy=False decl=<f8 name='hillshade' dims=('y', 'x') attrs=[('res', 'tuple'), ('unit', 'str')] coords=[] <f8|(7, 9)|67fbb0dfbe9cb70f",
"hs/u8/pos/359.5/90": "lazy=False decl=<f8 name='hillshade' dims=('y', 'x') attrs=[('res', 'tuple'), ('unit', 'str')] coords=[] <f8|(7, 9)|e3d294282a3d8da6",
"hs/u8/pos/720/-30": "lazy=False decl=<f8 name='hillshade' dims=('y', 'x') attrs=[('res', 'tuple'), ('unit', 'str')] coords=[] <f8|(7, 9)|2cb06d08e31b219f",
"hs/u8/pos/90/45": "lazy=False decl=<f8 name='hillshade' dims=('y', 'x') attrs=[('res', 'tuple'), ('unit', 'str')] coords=[] <f8|(7, 9)|55a8ce8313820893",
"hs/u8/pos/np.float32(33.0)/np.int64(60)": "lazy=False decl=<f8 name='hillshade' dims=('y', 'x') attrs=[('res', 'tuple'), ('unit', 'str')] coords=[] <f8|(7, 9)|db38612f6bd1c053",
"intcoords/get": "(float:1.0, float:1.0)",
"noattrs/get": "(float:5.0, float:1.5)",
"noattrs/nocoords": "(float:1.0, float:1.0)",
"notadataarray/get": "EXC AttributeError: 'numpy.ndarray' object has no attribute 'dims'",
"res/absent/coords/curv": "lazy=False decl=<f4 name='curvature' dims=('y', 'x') attrs=[] coords=[('x', '<f8|(9,)|d0096e0944585532'), ('y', '<f8|(7,)|f65031d9303cf7e7')] <f4|(7, 9)|0505aad81bf3157a",
"res/absent/coords/curv_dask": "lazy=True decl=<f8 name='curvature' dims=('y', 'x') attrs=[] coords=[('x', '<f8|(9,)|d0096e0944585532'), ('y', '<f8|(7,)|f65031d9303cf7e7')] chunks=((3, 3, 1), (4, 4, 1)) <f4|(7, 9)|0505aad81bf3157a",
"res/absent/coords/get": "(float:5.0, float:1.5)",
"res/absent/coords/slope": "lazy=False decl=<f4 name='slope' dims=('y', 'x') attrs=[] coords=[('x', '<f8|(9,)|d0096e0944585532'), ('y', '<f8|(7,)|f65031d9303cf7e7')] <f4|(7, 9)|d7abe95c85ebd5e7",
"res/absent/coords/slope_dask": "lazy=True decl=<f8 name='slope' dims=('y', 'x') attrs=[] coords=[('x', '<f8|(9,)|d0096e0944585532'), ('y', '<f8|(7,)|f65031d9303cf7e7')] chunks=((3, 3, 1), (4, 4, 1)) <f4|(7, 9)|d7abe95c85ebd5e7",
"res/absent/nocoords/curv": "lazy=False decl=<f4 name='curvature' dims=('y', 'x') attrs=[] coords=[] <f4|(7, 9)|24f2c351417cd9e8",
"res/absent/nocoords/get": "(float:1.0, float:1.0)",
"res/absent/nocoords/slope": "lazy=False decl=<f4 name='slope' dims=('y', 'x') attrs=[] coords=[] <f4|(7, 9)|37cc8343f17d8c52",
"res/badget/coords/curv": "lazy=False decl=<f4 name='curvature' dims=('y', 'x') attrs=[('res', 'BadGet')] coords=[('x', '<f8|(9,)|d0096e0944585532'), ('y', '<f8|(7,)|f65031d9303cf7e7')] <f4|(7, 9)|0505aad81bf3157a",
"res/badget/coords/curv_dask": "lazy=True decl=<f8 name='curvature' dims=('y', 'x') attrs=[('res', 'BadGet')] coords=[('x', '<f8|(9,)|d0096e0944585532'), ('y', '<f8|(7,)|f65031d9303cf7e7')] chunks=((3, 3, 1), (4, 4, 1)) <f4|(7, 9)|0505aad81bf3157a",
"res/badget/coords/get": "(float:5.0, float:1.5)",
"res/badget/coords/slope": "lazy=False decl=<f4 name='slope' dims=('y', 'x') attrs=[('res', 'BadGet')] coords=[('x', '<f8|(9,)|d0096e0944585532'), ('y', '<f8|(7,)|f65031d9303cf7e7')] <f4|(7, 9)|d7abe95c85ebd5e7",
"res/badget/coords/slope_dask": "lazy=True decl=<f8 name='slope' dims=('y', 'x') attrs=[('res', 'BadGet')] coords=[('x', '<f8|(9,)|d0096e0944585532'), ('y', '<f8|(7,)|f65031d9303cf7e7')] chunks=((3, 3, 1), (4, 4, 1)) <f4|(7, 9)|d7abe95c85ebd5e7",
"res/badget/nocoords/curv": "lazy=False decl=<f4 name='curvature' dims=('y', 'x') attrs=[('res', 'BadGet')] coords=[] <f4|(7, 9)|24f2c351417cd9e8",
"res/badget/nocoords/get": "(float:1.0, float:1.0)",
"res/badget/nocoords/slope": "lazy=False decl=<f4 name='slope' dims=('y', 'x') attrs=[('res', 'BadGet')] coords=[] <f4|(7, 9)|37cc8343f17d8c52",
"res/badtuple/coords/curv": "lazy=False decl=<f4 name='curvature' dims=('y', 'x') attrs=[('res', 'BadTuple')] coords=[('x', '<f8|(9,)|d0096e0944585532'), ('y', '<f8|(7,)|f65031d9303cf7e7')] <f4|(7, 9)|0505aad81bf3157a",
"res/badtuple/coords/curv_dask": "lazy=True decl=<f8 name='curvature' dims=('y', 'x') attrs=[('res', 'BadTuple')] coords=[('x', '<f8|(9,)|d0096e0944585532'), ('y', '<f8|(7,)|f65031d9303cf7e7')] chunks=((3, 3, 1), (4, 4, 1)) <f4|(7, 9)|0505aad81bf3157a",
"res/badtuple/coords/get": "(float:5.0, float:1.5)",
"res/badtuple/coords/slope": "lazy=False decl=<f4 name='slope' dims=('y', 'x') attrs=[('res', 'BadTuple')] coords=[('x', '<f8|(9,)|d0096e0944585532'), ('y', '<f8|(7,)|f65031d9303cf7e7')] <f4|(7, 9)|d7abe95c85ebd5e7",
"res/badtuple/coords/slope_dask": "lazy=True decl=<f8 name='slope' dims=('y', 'x') attrs=[('res', 'BadTuple')] coords=[('x', '<f8|(9,)|d0096e0944585532'), ('y', '<f8|(7,)|f65031d9303cf7e7')] chunks=((3, 3, 1), (4, 4, 1)) <f4|(7, 9)|d7abe95c85ebd5e7",
"res/badtuple/nocoords/curv": "lazy=False decl=<f4 name='curvature' dims=('y', 'x') attrs=[('res', 'BadTuple')] coords=[] <f4|(7, 9)|24f2c351417cd9e8",
"res/badtuple/nocoords/get": "(float:1.0, float:1.0)",
"res/badtuple/nocoords/slope": "lazy=False decl=<f4 name='slope' dims=('y', 'x') attrs=[('res', 'BadTuple')] coords=[] <f4|(7, 9)|37cc8343f17d8c52",
"res/bool/coords/curv": "lazy=False decl=<f4 name='curvature' dims=('y', 'x') attrs=[('res', 'bool')] coords=[('x', '<f8|(9,)|d0096e0944585532'), ('y', '<f8|(7,)|f65031d9303cf7e7')] <f4|(7, 9)|24f2c351417cd9e8",
"res/bool/coords/curv_dask": "lazy=True decl=<f8 name='curvature' dims=('y', 'x') attrs=[('res', 'bool')] coords=[('x', '<f8|(9,)|d0096e0944585532'), ('y', '<f8|(7,)|f65031d9303cf7e7')] chunks=((3, 3, 1), (4, 4, 1)) <f4|(7, 9)|24f2c351417cd9e8",
"res/bool/coords/get": "(bool:True, bool:True)",
"res/bool/coords/slope": "lazy=False decl=<f4 name='slope' dims=('y', 'x') attrs=[('res', 'bool')] coords=[('x', '<f8|(9,)|d0096e0944585532'), ('y', '<f8|(7,)|f65031d9303cf7e7')] <f4|(7, 9)|37cc8343f17d8c52",
"res/bool/coords/slope_dask": "lazy=True decl=<f8 name='slope' dims=('y', 'x') attrs=[('res', 'bool')] coords=[('x', '<f8|(9,)|d0096e0944585532'), ('y', '<f8|(7,)|f65031d9303cf7e7')] chunks=((3, 3, 1), (4, 4, 1)) <f4|(7, 9)|37cc8343f17d8c52",
"res/bool/nocoords/curv": "lazy=False decl=<f4 name='curvature' dims=('y', 'x') attrs=[('res', 'bool')] coords=[] <f4|(7, 9)|24f2c351417cd9e8",
"res/bool/nocoords/get": "(bool:True, bool:True)",
"res/bool/nocoords/slope": "lazy=False decl=<f4 name='slope' dims=('y', 'x') attrs=[('res', 'bool')] coords=[] <f4|(7, 9)|37cc8343f17d8c52",
"res/complex/coords/curv": "lazy=False decl=<f4 name='curvature' dims=('y', 'x') attrs=[('res', 'complex')] coords=[('x', '<f8|(9,)|d0096e0944585532'), ('y', '<f8|(7,)|f65031d9303cf7e7')] <f4|(7, 9)|0505aad81bf3157a",
"res/complex/coords/curv_dask": "lazy=True decl=<f8 name='curvature' dims=('y', 'x') attrs=[('res', 'complex')] coords=[('x', '<f8|(9,)|d0096e0944585532'), ('y', '<f8|(7,)|f65031d9303cf7e7')] chunks=((3, 3, 1), (4, 4, 1)) <f4|(7, 9)|0505aad81bf3157a",
"res/complex/coords/get": "(float:5.0, float:1.5)",
"res/complex/coords/slope": "lazy=False decl=<f4 name='slope' dims=('y', 'x') attrs=[('res', 'complex')] coords=[('x', '<f8|(9,)|d0096e0944585532'), ('y', '<f8|(7,)|f65031d9303cf7e7')] <f4|(7, 9)|d7abe95c85ebd5e7",
"res/complex/coords/slope_dask": "lazy=True decl=<f8 name='slope' dims=('y', 'x') attrs=[('res', 'complex')] coords=[('x', '<f8|(9,)|d0096e0944585532'), ('y', '<f8|(7,)|f65031d9303cf7e7')] chunks=((3, 3, 1), (4, 4, 1)) <f4|(7, 9)|d7abe95c85ebd5e7",
"res/complex/nocoords/curv": "lazy=False decl=<f4 name='curvature' dims=('y', 'x') attrs=[('res', 'complex')] coords=[] <f4|(7, 9)|24f2c351417cd9e8",
"res/complex/nocoords/get": "(float:1.0, float:1.0)",
"res/complex/nocoords/slope": "lazy=False decl=<f4 name='slope' dims=('y', 'x') attrs=[('res', 'complex')] coords=[] <f4|(7, 9)|37cc8343f17d8c52",
"res/dict/coords/curv": "lazy=False decl=<f4 name='curvature' dims=('y', 'x') attrs=[('res', 'dict')] coords=[('x', '<f8|(9,)|d0096e0944585532'), ('y', '<f8|(7,)|f65031d9303cf7e7')] <f4|(7, 9)|0505aad81bf3157a",
"res/dict/coords/curv_dask": "lazy=True decl=<f8 name='curvature' dims=('y', 'x') attrs=[('res', 'dict')] coords=[('x', '<f8|(9,)|d0096e0944585532'), ('y', '<f8|(7,)|f65031d9303cf7e7')] chunks=((3, 3, 1), (4, 4, 1)) <f4|(7, 9)|0505aad81bf3157a",
"res/dict/coords/get": "(float:5.0, float:1.5)",
"res/dict/coords/slope": "lazy=False decl=<f4 name='slope' dims=('y', 'x') attrs=[('res', 'dict')] coords=[('x', '<f8|(9,)|d0096e0944585532'), ('y', '<f8|(7,)|f65031d9303cf7e7')] <f4|(7, 9)|d7abe95c85ebd5e7",
"res/dict/coords/slope_dask": "lazy=True decl=<f8 name='slope' dims=('y', 'x') attrs=[('res', 'dict')] coords=[('x', '<f8|(9,)|d0096e0944585532'), ('y', '<f8|(7,)|f65031d9303cf7e7')] chunks=((3, 3, 1), (4, 4, 1)) <f4|(7, 9)|d7abe95c85ebd5e7",
"res/dict/nocoords/curv": "lazy=False decl=<f4 name='curvature' dims=('y', 'x') attrs=[('res', 'dict')] coords=[] <f4|(7, 9)|24f2c351417cd9e8",
"res/dict/nocoords/get": "(float:1.0, float:1.0)",
"res/dict/nocoords/slope": "lazy=False decl=<f4 name='slope' dims=('y', 'x') attrs=[('res', 'dict')] coords=[] <f4|(7, 9)|37cc8343f17d8c52",
"res/float/coords/curv": "lazy=False decl=<f4 name='curvature' dims=('y', 'x') attrs=[('res', 'float')] coords=[('x', '<f8|(9,)|d0096e0944585532'), ('y', '<f8|(7,)|f65031d9303cf7e7')] <f4|(7, 9)|74fdc83845316a7e",
"res/float/coords/curv_dask": "lazy=True decl=<f8 name='curvature' dims=('y', 'x') attrs=[('res', 'float')] coords=[('x', '<f8|(9,)|d0096e0944585532'), ('y', '<f8|(7,)|f65031d9303cf7e7')] chunks=((3, 3, 1), (4, 4, 1)) <f4|(7, 9)|74fdc83845316a7e",
"res/float/coords/get": "(float:2.5, float:2.5)",
"res/float/coords/slope": "lazy=False decl=<f4 name='slope' dims=('y', 'x') attrs=[('res', 'float')] coords=[('x', '<f8|(9,)|d0096e0944585532'), ('y', '<f8|(7,)|f65031d9303cf7e7')] <f4|(7, 9)|69930a69878b068f",
"res/float/coords/slope_dask": "lazy=True decl=<f8 name='slope' dims=('y', 'x') attrs=[('res', 'float')] coords=[('x', '<f8|(9,)|d0096e0944585532'), ('y', '<f8|(7,)|f65031d9303cf7e7')] chunks=((3, 3, 1), (4, 4, 1)) <f4|(7, 9)|69930a69878b068f",
"res/float/nocoords/curv": "lazy=False decl=<f4 name='curvature' dims=('y', 'x') attrs=[('res', 'float')] coords=[] <f4|(7, 9)|74fdc83845316a7e",
"res/float/nocoords/get": "(float:2.5, float:2.5)",
"res/float/nocoords/slope": "lazy=False decl=<f4 name='slope' dims=('y', 'x') attrs=[('res', 'float')] coords=[] <f4|(7, 9)|69930a69878b068f",
"res/inf/coords/curv": "lazy=False decl=<f4 name='curvature' dims=('y', 'x') attrs=[('res', 'float')] coords=[('x', '<f8|(9,)|d0096e0944585532'), ('y', '<f8|(7,)|f65031d9303cf7e7')] <f4|(7, 9)|191b93cc00d9f8c4",
"res/inf/coords/curv_dask": "lazy=True decl=<f8 name='curvature' dims=('y', 'x') attrs=[('res', 'float')] coords=[('x', '<f8|(9,)|d0096e0944585532'), ('y', '<f8|(7,)|f65031d9303cf7e7')] chunks=((3, 3, 1), (4, 4, 1)) <f4|(7, 9)|191b93cc00d9f8c4",
"res/inf/coords/get": "(float:inf, float:inf)",
"res/inf/coords/slope": "lazy=False decl=<f4 name='slope' dims=('y', 'x') attrs=[('res', 'float')] coords=[('x', '<f8|(9,)|d0096e0944585532'), ('y', '<f8|(7,)|f65031d9303cf7e7')] <f4|(7, 9)|323bdb877f282324",
"res/inf/coords/slope_dask": "lazy=True decl=<f8 name='slope' dims=('y', 'x') attrs=[('res', 'float')] coords=[('x', '<f8|(9,)|d0096e0944585532'), ('y', '<f8|(7,)|f65031d9303cf7e7')] chunks=((3, 3, 1), (4, 4, 1)) <f4|(7, 9)|323bdb877f282324",
"res/inf/nocoords/curv": "lazy=False decl=<f4 name='curvature' dims=('y', 'x') attrs=[('res', 'float')] coords=[] <f4|(7, 9)|191b93cc00d9f8c4",
"res/inf/nocoords/get": "(float:inf, float:inf)",
"res/inf/nocoords/slope": "lazy=False decl=<f4 name='slope' dims=('y', 'x') attrs=[('res', 'float')] coords=[] <f4|(7, 9)|323bdb877f282324",
"res/int/coords/curv": "lazy=False decl=<f4 name='curvature' dims=('y', 'x') attrs=[('res', 'int')] coords=[('x', '<f8|(9,)|d0096e0944585532'), ('y', '<f8|(7,)|f65031d9303cf7e7')] <f4|(7, 9)|95b992c06758a64e",
"res/int/coords/curv_dask": "lazy=True decl=<f8 name='curvature' dims=('y', 'x') attrs=[('res', 'int')] coords=[('x', '<f8|(9,)|d0096e0944585532'), ('y', '<f8|(7,)|f65031d9303cf7e7')] chunks=((3, 3, 1), (4, 4, 1)) <f4|(7, 9)|95b992c06758a64e",
"res/int/coords/get": "(int:3, int:3)",
"res/int/coords/slope": "lazy=False decl=<f4 name='slope' dims=('y', 'x') attrs=[('res', 'int')] coords=[('x', '<f8|(9,)|d0096e0944585532'), ('y', '<f8|(7,)|f65031d9303cf7e7')] <f4|(7, 9)|49ce5f814e8b1fd9",
"res/int/coords/slope_dask": "lazy=True decl=<f8 name='slope' dims=('y', 'x') attrs=[('res', 'int')] coords=[('x', '<f8|(9,)|d0096e0944585532'), ('y', '<f8|(7,)|f65031d9303cf7e7')] chunks=((3, 3, 1), (4, 4, 1)) <f4|(7, 9)|49ce5f814e8b1fd9",
"res/int/nocoords/curv": "lazy=False decl=<f4 name='curvature' dims=('y', 'x') attrs=[('res', 'int')] coords=[] <f4|(7, 9)|95b992c06758a64e",
"res/int/nocoords/get": "(int:3, int:3)",
"res/int/nocoords/slope": "lazy=False decl=<f4 name='slope' dims=('y', 'x') attrs=[('res', 'int')] coords=[] <f4|(7, 9)|49ce5f814e8b1fd9",
"res/list/coords/curv": "lazy=False decl=<f4 name='curvature' dims=('y', 'x') attrs=[('res', 'list')] coords=[('x', '<f8|(9,)|d0096e0944585532'), ('y', '<f8|(7,)|f65031d9303cf7e7')] <f4|(7, 9)|098d0915c7099cd1",
"res/list/coords/curv_dask": "lazy=True decl=<f8 name='curvature' dims=('y', 'x') attrs=[('res', 'list')] coords=[('x', '<f8|(9,)|d0096e0944585532'), ('y', '<f8|(7,)|f65031d9303cf7e7')] chunks=((3, 3, 1), (4, 4, 1)) <f4|(7, 9)|098d0915c7099cd1",
"res/list/coords/get": "(float:3.0, int:7)",
"res/list/coords/slope": "lazy=False decl=<f4 name='slope' dims=('y', 'x') attrs=[('res', 'list')] coords=[('x', '<f8|(9,)|d0096e0944585532'), ('y', '<f8|(7,)|f65031d9303cf7e7')] <f4|(7, 9)|e031fe90ca59a123",
"res/list/coords/slope_dask": "lazy=True decl=<f8 name='slope' dims=('y', 'x') attrs=[('res', 'list')] coords=[('x', '<f8|(9,)|d0096e0944585532'), ('y', '<f8|(7,)|f65031d9303cf7e7')] chunks=((3, 3, 1), (4, 4, 1)) <f4|(7, 9)|e031fe90ca59a123",
"res/list/nocoords/curv": "lazy=False decl=<f4 name='curvature' dims=('y', 'x') attrs=[('res', 'list')] coords=[] <f4|(7, 9)|098d0915c7099cd1",
"res/list/nocoords/get": "(float:3.0, int:7)",
"res/list/nocoords/slope": "lazy=False decl=<f4 name='slope' dims=('y', 'x') attrs=[('res', 'list')] coords=[] <f4|(7, 9)|e031fe90ca59a123",
"res/list_nan/coords/curv": "lazy=False decl=<f4 name='curvature' dims=('y', 'x') attrs=[('res', 'list')] coords=[('x', '<f8|(9,)|d0096e0944585532'), ('y', '<f8|(7,)|f65031d9303cf7e7')] <f4|(7, 9)|ffceec1f684868b3",
"res/list_nan/coords/curv_dask": "lazy=True decl=<f8 name='curvature' dims=('y', 'x') attrs=[('res', 'list')] coords=[('x', '<f8|(9,)|d0096e0944585532'), ('y', '<f8|(7,)|f65031d9303cf7e7')] chunks=((3, 3, 1), (4, 4, 1)) <f4|(7, 9)|ffceec1f684868b3",
"res/list_nan/coords/get": "(float:nan, float:1.0)",
"res/list_nan/coords/slope": "lazy=False decl=<f4 name='slope' dims=('y', 'x') attrs=[('res', 'list')] coords=[('x', '<f8|(9,)|d0096e0944585532'), ('y', '<f8|(7,)|f65031d9303cf7e7')] <f4|(7, 9)|ffceec1f684868b3",
"res/list_nan/coords/slope_dask": "lazy=True decl=<f8 name='slope' dims=('y', 'x') attrs=[('res', 'list')] coords=[('x', '<f8|(9,)|d0096e0944585532'), ('y', '<f8|(7,)|f65031d9303cf7e7')] chunks=((3, 3, 1), (4, 4, 1)) <f4|(7, 9)|ffceec1f684868b3",
"res/list_nan/nocoords/curv": "lazy=False decl=<f4 name='curvature' dims=('y', 'x') attrs=[('res', 'list')] coords=[] <f4|(7, 9)|ffceec1f684868b3",
"res/list_nan/nocoords/get": "(float:nan, float:1.0)",
"res/list_nan/nocoords/slope": "lazy=False decl=<f4 name='slope' dims=('y', 'x') attrs=[('res', 'list')] coords=[] <f4|(7, 9)|ffceec1f684868b3",
"res/nan/coords/curv": "lazy=False decl=<f4 name='curvature' dims=('y', 'x') attrs=[('res', 'float')] coords=[('x', '<f8|(9,)|d0096e0944585532'), ('y', '<f8|(7,)|f65031d9303cf7e7')] <f4|(7, 9)|ffceec1f684868b3",
"res/nan/coords/curv_dask": "lazy=True decl=<f8 name='curvature' dims=('y', 'x') attrs=[('res', 'float')] coords=[('x', '<f8|(9,)|d0096e0944585532'), ('y', '<f8|(7,)|f65031d9303cf7e7')] chunks=((3, 3, 1), (4, 4, 1)) <f4|(7, 9)|ffceec1f684868b3",
"res/nan/coords/get": "(float:nan, float:nan)",
"res/nan/coords/slope": "lazy=False decl=<f4 name='slope' dims=('y', 'x') attrs=[('res', 'float')] coords=[('x', '<f8|(9,)|d0096e0944585532'), ('y', '<f8|(7,)|f65031d9303cf7e7')] <f4|(7, 9)|ffceec1f684868b3",
"res/nan/coords/slope_dask": "lazy=True decl=<f8 name='slope' dims=('y', 'x') attrs=[('res', 'float')] coords=[('x', '<f8|(9,)|d0096e0944585532'), ('y', '<f8|(7,)|f65031d9303cf7e7')] chunks=((3, 3, 1), (4, 4, 1)) <f4|(7, 9)|ffceec1f684868b3",
"res/nan/nocoords/curv": "lazy=False decl=<f4 name='curvature' dims=('y', 'x') attrs=[('res', 'float')] coords=[] <f4|(7, 9)|ffceec1f684868b3",
"res/nan/nocoords/get": "(float:nan, float:nan)",
"res/nan/nocoords/slope": "lazy=False decl=<f4 name='slope' dims=('y', 'x') attrs=[('res', 'float')] coords=[] <f4|(7, 9)|ffceec1f684868b3",
"res/nd_0d/coords/curv": "lazy=False decl=<f4 name='curvature' dims=('y', 'x') attrs=[('res', 'ndarray')] coords=[('x', '<f8|(9,)|d0096e0944585532'), ('y', '<f8|(7,)|f65031d9303cf7e7')] <f4|(7, 9)|0505aad81bf3157a",
"res/nd_0d/coords/curv_dask": "lazy=True decl=<f8 name='curvature' dims=('y', 'x') attrs=[('res', 'ndarray')] coords=[('x', '<f8|(9,)|d0096e0944585532'), ('y', '<f8|(7,)|f65031d9303cf7e7')] chunks=((3, 3, 1), (4, 4, 1)) <f4|(7, 9)|0505aad81bf3157a",
"res/nd_0d/coords/get": "(float:5.0, float:1.5)",
"res/nd_0d/coords/slope": "lazy=False decl=<f4 name='slope' dims=('y', 'x') attrs=[('res', 'ndarray')] coords=[('x', '<f8|(9,)|d0096e0944585532'), ('y', '<f8|(7,)|f65031d9303cf7e7')] <f4|(7, 9)|d7abe95c85ebd5e7",
"res/nd_0d/coords/slope_dask": "lazy=True decl=<f8 name='slope' dims=('y', 'x') attrs=[('res', 'ndarray')] coords=[('x', '<f8|(9,)|d0096e0944585532'), ('y', '<f8|(7,)|f65031d9303cf7e7')] chunks=((3, 3, 1), (4, 4, 1)) <f4|(7, 9)|d7abe95c85ebd5e7",
"res/nd_0d/nocoords/curv": "lazy=False decl=<f4 name='curvature' dims=('y', 'x') attrs=[('res', 'ndarray')] coords=[] <f4|(7, 9)|24f2c351417cd9e8",
"res/nd_0d/nocoords/get": "(float:1.0, float:1.0)",
"res/nd_0d/nocoords/slope": "lazy=False decl=<f4 name='slope' dims=('y', 'x') attrs=[('res', 'ndarray')] coords=[] <f4|(7, 9)|37cc8343f17d8c52",
"res/nd_2d/coords/curv": "lazy=False decl=<f4 name='curvature' dims=('y', 'x') attrs=[('res', 'ndarray')] coords=[('x', '<f8|(9,)|d0096e0944585532'), ('y', '<f8|(7,)|f65031d9303cf7e7')] <f4|(7, 9)|0505aad81bf3157a",
"res/nd_2d/coords/curv_dask": "lazy=True decl=<f8 name='curvature' dims=('y', 'x') attrs=[('res', 'ndarray')] coords=[('x', '<f8|(9,)|d0096e0944585532'), ('y', '<f8|(7,)|f65031d9303cf7e7')] chunks=((3, 3, 1), (4, 4, 1)) <f4|(7, 9)|0505aad81bf3157a",
"res/nd_2d/coords/get": "(float:5.0, float:1.5)",
"res/nd_2d/coords/slope": "lazy=False decl=<f4 name='slope' dims=('y', 'x') attrs=[('res', 'ndarray')] coords=[('x', '<f8|(9,)|d0096e0944585532'), ('y', '<f8|(7,)|f65031d9303cf7e7')] <f4|(7, 9)|d7abe95c85ebd5e7",
"res/nd_2d/coords/slope_dask": "lazy=True decl=<f8 name='slope' dims=('y', 'x') attrs=[('res', 'ndarray')] coords=[('x', '<f8|(9,)|d0096e0944585532'), ('y', '<f8|(7,)|f65031d9303cf7e7')] chunks=((3, 3, 1), (4, 4, 1)) <f4|(7, 9)|d7abe95c85ebd5e7",
"res/nd_2d/nocoords/curv": "lazy=False decl=<f4 name='curvature' dims=('y', 'x') attrs=[('res', 'ndarray')] coords=[] <f4|(7, 9)|24f2c351417cd9e8",
"res/nd_2d/nocoords/get": "(float:1.0, float:1.0)",
"res/nd_2d/nocoords/slope": "lazy=False decl=<f4 name='slope' dims=('y', 'x') attrs=[('res', 'ndarray')] coords=[] <f4|(7, 9)|37cc8343f17d8c52",
"res/nd_3/coords/curv": "lazy=False decl=<f4 name='curvature' dims=('y', 'x') attrs=[('res', 'ndarray')] coords=[('x', '<f8|(9,)|d0096e0944585532'), ('y', '<f8|(7,)|f65031d9303cf7e7')] <f4|(7, 9)|0505aad81bf3157a",
"res/nd_3/coords/curv_dask": "lazy=True decl=<f8 name='curvature' dims=('y', 'x') attrs=[('res', 'ndarray')] coords=[('x', '<f8|(9,)|d0096e0944585532'), ('y', '<f8|(7,)|f65031d9303cf7e7')] chunks=((3, 3, 1), (4, 4, 1)) <f4|(7, 9)|0505aad81bf3157a",
"res/nd_3/coords/get": "(float:5.0, float:1.5)",
"res/nd_3/coords/slope": "lazy=False decl=<f4 name='slope' dims=('y', 'x') attrs=[('res', 'ndarray')] coords=[('x', '<f8|(9,)|d0096e0944585532'), ('y', '<f8|(7,)|f65031d9303cf7e7')] <f4|(7, 9)|d7abe95c85ebd5e7",
"res/nd_3/coords/slope_dask": "lazy=True decl=<f8 name='slope' dims=('y', 'x') attrs=[('res', 'ndarray')] coords=[('x', '<f8|(9,)|d0096e0944585532'), ('y', '<f8|(7,)|f65031d9303cf7e7')] chunks=((3, 3, 1), (4, 4, 1)) <f4|(7, 9)|d7abe95c85ebd5e7",
"res/nd_3/nocoords/curv": "lazy=False decl=<f4 name='curvature' dims=('y', 'x') attrs=[('res', 'ndarray')] coords=[] <f4|(7, 9)|24f2c351417cd9e8",
"res/nd_3/nocoords/get": "(float:1.0, float:1.0)",
"res/nd_3/nocoords/slope": "lazy=False decl=<f4 name='slope' dims=('y', 'x') attrs=[('res', 'ndarray')] coords=[] <f4|(7, 9)|37cc8343f17d8c52",
"res/nd_bool/coords/curv": "lazy=False decl=<f4 name='curvature' dims=('y', 'x') attrs=[('res', 'ndarray')] coords=[('x', '<f8|(9,)|d0096e0944585532'), ('y', '<f8|(7,)|f65031d9303cf7e7')] <f4|(7, 9)|0505aad81bf3157a",
"res/nd_bool/coords/curv_dask": "lazy=True decl=<f8 name='curvature' dims=('y', 'x') attrs=[('res', 'ndarray')] coords=[('x', '<f8|(9,)|d0096e0944585532'), ('y', '<f8|(7,)|f65031d9303cf7e7')] chunks=((3, 3, 1), (4, 4, 1)) <f4|(7, 9)|0505aad81bf3157a",
"res/nd_bool/coords/get": "(float:5.0, float:1.5)",
"res/nd_bool/coords/slope": "lazy=False decl=<f4 name='slope' dims=('y', 'x') attrs=[('res', 'ndarray')] coords=[('x', '<f8|(9,)|d0096e0944585532'), ('y', '<f8|(7,)|f65031d9303cf7e7')] <f4|(7, 9)|d7abe95c85ebd5e7",
"res/nd_bool/coords/slope_dask": "lazy=True decl=<f8 name='slope' dims=('y', 'x') attrs=[('res', 'ndarray')] coords=[('x', '<f8|(9,)|d0096e0944585532'), ('y', '<f8|(7,)|f65031d9303cf7e7')] chunks=((3, 3, 1), (4, 4, 1)) <f4|(7, 9)|d7abe95c85ebd5e7",
"res/nd_bool/nocoords/curv": "lazy=False decl=<f4 name='curvature' dims=('y', 'x') attrs=[('res', 'ndarray')] coords=[] <f4|(7, 9)|24f2c351417cd9e8",
"res/nd_bool/nocoords/get": "(float:1.0, float:1.0)",
"res/nd_bool/nocoords/slope": "lazy=False decl=<f4 name='slope' dims=('y', 'x') attrs=[('res', 'ndarray')] coords=[] <f4|(7, 9)|37cc8343f17d8c52",
"res/nd_f32/coords/curv": "lazy=False decl=<f4 name='curvature' dims=('y', 'x') attrs=[('res', 'ndarray')] coords=[('x', '<f8|(9,)|d0096e0944585532'), ('y', '<f8|(7,)|f65031d9303cf7e7')] <f4|(7, 9)|0505aad81bf3157a",
"res/nd_f32/coords/curv_dask": "lazy=True decl=<f8 name='curvature' dims=('y', 'x') attrs=[('res', 'ndarray')] coords=[('x', '<f8|(9,)|d0096e0944585532'), ('y', '<f8|(7,)|f65031d9303cf7e7')] chunks=((3, 3, 1), (4, 4, 1)) <f4|(7, 9)|0505aad81bf3157a",
"res/nd_f32/coords/get": "(float:5.0, float:1.5)",
"res/nd_f32/coords/slope": "lazy=False decl=<f4 name='slope' dims=('y', 'x') attrs=[('res', 'ndarray')] coords=[('x', '<f8|(9,)|d0096e0944585532'), ('y', '<f8|(7,)|f65031d9303cf7e7')] <f4|(7, 9)|d7abe95c85ebd5e7",
"res/nd_f32/coords/slope_dask": "lazy=True decl=<f8 name='slope' dims=('y', 'x') attrs=[('res', 'ndarray')] coords=[('x', '<f8|(9,)|d0096e0944585532'), ('y', '<f8|(7,)|f65031d9303cf7e7')] chunks=((3, 3, 1), (4, 4, 1)) <f4|(7, 9)|d7abe95c85ebd5e7",
"res/nd_f32/nocoords/curv": "lazy=False decl=<f4 name='curvature' dims=('y', 'x') attrs=[('res', 'ndarray')] coords=[] <f4|(7, 9)|24f2c351417cd9e8",
"res/nd_f32/nocoords/get": "(float:1.0, float:1.0)",
"res/nd_f32/nocoords/slope": "lazy=False decl=<f4 name='slope' dims=('y', 'x') attrs=[('res', 'ndarray')] coords=[] <f4|(7, 9)|37cc8343f17d8c52",
"res/nd_f64/coords/curv": "lazy=False decl=<f4 name='curvature' dims=('y', 'x') attrs=[('res', 'ndarray')] coords=[('x', '<f8|(9,)|d0096e0944585532'), ('y', '<f8|(7,)|f65031d9303cf7e7')] <f4|(7, 9)|098d0915c7099cd1",
"res/nd_f64/coords/curv_dask": "lazy=True decl=<f8 name='curvature' dims=('y', 'x') attrs=[('res', 'ndarray')] coords=[('x', '<f8|(9,)|d0096e0944585532'), ('y', '<f8|(7,)|f65031d9303cf7e7')] chunks=((3, 3, 1), (4, 4, 1)) <f4|(7, 9)|098d0915c7099cd1",
"res/nd_f64/coords/get": "(float64:np.float64(2.0), float64:np.float64(8.0))",
"res/nd_f64/coords/slope": "lazy=False decl=<f4 name='slope' dims=('y', 'x') attrs=[('res', 'ndarray')] coords=[('x', '<f8|(9,)|d0096e0944585532'), ('y', '<f8|(7,)|f65031d9303cf7e7')] <f4|(7, 9)|fe38cc784dd48fe4",
"res/nd_f64/coords/slope_dask": "lazy=True decl=<f8 name='slope' dims=('y', 'x') attrs=[('res', 'ndarray')] coords=[('x', '<f8|(9,)|d0096e0944585532'), ('y', '<f8|(7,)|f65031d9303cf7e7')] chunks=((3, 3, 1), (4, 4, 1)) <f4|(7, 9)|fe38cc784dd48fe4",
"res/nd_f64/nocoords/curv": "lazy=False decl=<f4 name='curvature' dims=('y', 'x') attrs=[('res', 'ndarray')] coords=[] <f4|(7, 9)|098d0915c7099cd1",
"res/nd_f64/nocoords/get": "(float64:np.float64(2.0), float64:np.float64(8.0))",
"res/nd_f64/nocoords/slope": "lazy=False decl=<f4 name='slope' dims=('y', 'x') attrs=[('res', 'ndarray')] coords=[] <f4|(7, 9)|fe38cc784dd48fe4",
"res/nd_i64/coords/curv": "lazy=False decl=<f4 name='curvature' dims=('y', 'x') attrs=[('res', 'ndarray')] coords=[('x', '<f8|(9,)|d0096e0944585532'), ('y', '<f8|(7,)|f65031d9303cf7e7')] <f4|(7, 9)|0505aad81bf3157a",
"res/nd_i64/coords/curv_dask": "lazy=True decl=<f8 name='curvature' dims=('y', 'x') attrs=[('res', 'ndarray')] coords=[('x', '<f8|(9,)|d0096e0944585532'), ('y', '<f8|(7,)|f65031d9303cf7e7')] chunks=((3, 3, 1), (4, 4, 1)) <f4|(7, 9)|0505aad81bf3157a",
"res/nd_i64/coords/get": "(float:5.0, float:1.5)",
"res/nd_i64/coords/slope": "lazy=False decl=<f4 name='slope' dims=('y', 'x') attrs=[('res', 'ndarray')] coords=[('x', '<f8|(9,)|d0096e0944585532'), ('y', '<f8|(7,)|f65031d9303cf7e7')] <f4|(7, 9)|d7abe95c85ebd5e7",
"res/nd_i64/coords/slope_dask": "lazy=True decl=<f8 name='slope' dims=('y', 'x') attrs=[('res', 'ndarray')] coords=[('x', '<f8|(9,)|d0096e0944585532'), ('y', '<f8|(7,)|f65031d9303cf7e7')] chunks=((3, 3, 1), (4, 4, 1)) <f4|(7, 9)|d7abe95c85ebd5e7",
"res/nd_i64/nocoords/curv": "lazy=False decl=<f4 name='curvature' dims=('y', 'x') attrs=[('res', 'ndarray')] coords=[] <f4|(7, 9)|24f2c351417cd9e8",
"res/nd_i64/nocoords/get": "(float:1.0, float:1.0)",
"res/nd_i64/nocoords/slope": "lazy=False decl=<f4 name='slope' dims=('y', 'x') attrs=[('res', 'ndarray')] coords=[] <f4|(7, 9)|37cc8343f17d8c52",
"res/nd_obj/coords/curv": "lazy=False decl=<f4 name='curvature' dims=('y', 'x') attrs=[('res', 'ndarray')] coords=[('x', '<f8|(9,)|d0096e0944585532'), ('y', '<f8|(7,)|f65031d9303cf7e7')] <f4|(7, 9)|36db0d1f8a6eed22",
"res/nd_obj/coords/curv_dask": "lazy=True decl=<f8 name='curvature' dims=('y', 'x') attrs=[('res', 'ndarray')] coords=[('x', '<f8|(9,)|d0096e0944585532'), ('y', '<f8|(7,)|f65031d9303cf7e7')] chunks=((3, 3, 1), (4, 4, 1)) <f4|(7, 9)|36db0d1f8a6eed22",
"res/nd_obj/coords/get": "(int:2, float:3.5)",
"res/nd_obj/coords/slope": "lazy=False decl=<f4 name='slope' dims=('y', 'x') attrs=[('res', 'ndarray')] coords=[('x', '<f8|(9,)|d0096e0944585532'), ('y', '<f8|(7,)|f65031d9303cf7e7')] <f4|(7, 9)|9ea7ecdb0c165044",
"res/nd_obj/coords/slope_dask": "lazy=True decl=<f8 name='slope' dims=('y', 'x') attrs=[('res', 'ndarray')] coords=[('x', '<f8|(9,)|d0096e0944585532'), ('y', '<f8|(7,)|f65031d9303cf7e7')] chunks=((3, 3, 1), (4, 4, 1)) <f4|(7, 9)|9ea7ecdb0c165044",
"res/nd_obj/nocoords/curv": "lazy=False decl=<f4 name='curvature' dims=('y', 'x') attrs=[('res', 'ndarray')] coords=[] <f4|(7, 9)|36db0d1f8a6eed22",
"res/nd_obj/nocoords/get": "(int:2, float:3.5)",
"res/nd_obj/nocoords/slope": "lazy=False decl=<f4 name='slope' dims=('y', 'x') attrs=[('res', 'ndarray')] coords=[] <f4|(7, 9)|9ea7ecdb0c165044",
"res/neg/coords/curv": "lazy=False decl=<f4 name='curvature' dims=('y', 'x') attrs=[('res', 'float')] coords=[('x', '<f8|(9,)|d0096e0944585532'), ('y', '<f8|(7,)|f65031d9303cf7e7')] <f4|(7, 9)|3bc6fbc4dfece2c9",
"res/neg/coords/curv_dask": "lazy=True decl=<f8 name='curvature' dims=('y', 'x') attrs=[('res', 'float')] coords=[('x', '<f8|(9,)|d0096e0944585532'), ('y', '<f8|(7,)|f65031d9303cf7e7')] chunks=((3, 3, 1), (4, 4, 1)) <f4|(7, 9)|3bc6fbc4dfece2c9",
"res/neg/coords/get": "(float:-2.0, float:-2.0)",
"res/neg/coords/slope": "lazy=False decl=<f4 name='slope' dims=('y', 'x') attrs=[('res', 'float')] coords=[('x', '<f8|(9,)|d0096e0944585532'), ('y', '<f8|(7,)|f65031d9303cf7e7')] <f4|(7, 9)|b15bc2ad09867559",
"res/neg/coords/slope_dask": "lazy=True decl=<f8 name='slope' dims=('y', 'x') attrs=[('res', 'float')] coords=[('x', '<f8|(9,)|d0096e0944585532'), ('y', '<f8|(7,)|f65031d9303cf7e7')] chunks=((3, 3, 1), (4, 4, 1)) <f4|(7, 9)|b15bc2ad09867559",
"res/neg/nocoords/curv": "lazy=False decl=<f4 name='curvature' dims=('y', 'x') attrs=[('res', 'float')] coords=[] <f4|(7, 9)|3bc6fbc4dfece2c9",
"res/neg/nocoords/get": "(float:-2.0, float:-2.0)",
"res/neg/nocoords/slope": "lazy=False decl=<f4 name='slope' dims=('y', 'x') attrs=[('res', 'float')] coords=[] <f4|(7, 9)|b15bc2ad09867559",
"res/none/coords/curv": "lazy=False decl=<f4 name='curvature' dims=('y', 'x') attrs=[('res', 'NoneType')] coords=[('x', '<f8|(9,)|d0096e0944585532'), ('y', '<f8|(7,)|f65031d9303cf7e7')] <f4|(7, 9)|0505aad81bf3157a",
"res/none/coords/curv_dask": "lazy=True decl=<f8 name='curvature' dims=('y', 'x') attrs=[('res', 'NoneType')] coords=[('x', '<f8|(9,)|d0096e0944585532'), ('y', '<f8|(7,)|f65031d9303cf7e7')] chunks=((3, 3, 1), (4, 4, 1)) <f4|(7, 9)|0505aad81bf3157a",
"res/none/coords/get": "(float:5.0, float:1.5)",
"res/none/coords/slope": "lazy=False decl=<f4 name='slope' dims=('y', 'x') attrs=[('res', 'NoneType')] coords=[('x', '<f8|(9,)|d0096e0944585532'), ('y', '<f8|(7,)|f65031d9303cf7e7')] <f4|(7, 9)|d7abe95c85ebd5e7",
"res/none/coords/slope_dask": "lazy=True decl=<f8 name='slope' dims=('y', 'x') attrs=[('res', 'NoneType')] coords=[('x', '<f8|(9,)|d0096e0944585532'), ('y', '<f8|(7,)|f65031d9303cf7e7')] chunks=((3, 3, 1), (4, 4, 1)) <f4|(7, 9)|d7abe95c85ebd5e7",
"res/none/nocoords/curv": "lazy=False decl=<f4 name='curvature' dims=('y', 'x') attrs=[('res', 'NoneType')] coords=[] <f4|(7, 9)|24f2c351417cd9e8",
"res/none/nocoords/get": "(float:1.0, float:1.0)",
"res/none/nocoords/slope": "lazy=False decl=<f4 name='slope' dims=('y', 'x') attrs=[('res', 'NoneType')] coords=[] <f4|(7, 9)|37cc8343f17d8c52",
"res/npf32/coords/curv": "lazy=False decl=<f4 name='curvature' dims=('y', 'x') attrs=[('res', 'float32')] coords=[('x', '<f8|(9,)|d0096e0944585532'), ('y', '<f8|(7,)|f65031d9303cf7e7')] <f4|(7, 9)|0505aad81bf3157a",
"res/npf32/coords/curv_dask": "lazy=True decl=<f8 name='curvature' dims=('y', 'x') attrs=[('res', 'float32')] coords=[('x', '<f8|(9,)|d0096e0944585532'), ('y', '<f8|(7,)|f65031d9303cf7e7')] chunks=((3, 3, 1), (4, 4, 1)) <f4|(7, 9)|0505aad81bf3157a",
"res/npf32/coords/get": "(float:5.0, float:1.5)",
"res/npf32/coords/slope": "lazy=False decl=<f4 name='slope' dims=('y', 'x') attrs=[('res', 'float32')] coords=[('x', '<f8|(9,)|d0096e0944585532'), ('y', '<f8|(7,)|f65031d9303cf7e7')] <f4|(7, 9)|d7abe95c85ebd5e7",
"res/npf32/coords/slope_dask": "lazy=True decl=<f8 name='slope' dims=('y', 'x') attrs=[('res', 'float32')] coords=[('x', '<f8|(9,)|d0096e0944585532'), ('y', '<f8|(7,)|f65031d9303cf7e7')] chunks=((3, 3, 1), (4, 4, 1)) <f4|(7, 9)|d7abe95c85ebd5e7",
"res/npf32/nocoords/curv": "lazy=False decl=<f4 name='curvature' dims=('y', 'x') attrs=[('res', 'float32')] coords=[] <f4|(7, 9)|24f2c351417cd9e8",
"res/npf32/nocoords/get": "(float:1.0, float:1.0)",
"res/npf32/nocoords/slope": "lazy=False decl=<f4 name='slope' dims=('y', 'x') attrs=[('res', 'float32')] coords=[] <f4|(7, 9)|37cc8343f17d8c52",
"res/npf64/coords/curv": "lazy=False decl=<f4 name='curvature' dims=('y', 'x') attrs=[('res', 'float64')] coords=[('x', '<f8|(9,)|d0096e0944585532'), ('y', '<f8|(7,)|f65031d9303cf7e7')] <f4|(7, 9)|c65ace4839ca0054",
"res/npf64/coords/curv_dask": "lazy=True decl=<f8 name='curvature' dims=('y', 'x') attrs=[('res', 'float64')] coords=[('x', '<f8|(9,)|d0096e0944585532'), ('y', '<f8|(7,)|f65031d9303cf7e7')] chunks=((3, 3, 1), (4, 4, 1)) <f4|(7, 9)|c65ace4839ca0054",
"res/npf64/coords/get": "(float64:np.float64(4.0), float64:np.float64(4.0))",
"res/npf64/coords/slope": "lazy=False decl=<f4 name='slope' dims=('y', 'x') attrs=[('res', 'float64')] coords=[('x', '<f8|(9,)|d0096e0944585532'), ('y', '<f8|(7,)|f65031d9303cf7e7')] <f4|(7, 9)|fcc662cb1a8c7b2d",
"res/npf64/coords/slope_dask": "lazy=True decl=<f8 name='slope' dims=('y', 'x') attrs=[('res', 'float64')] coords=[('x', '<f8|(9,)|d0096e0944585532'), ('y', '<f8|(7,)|f65031d9303cf7e7')] chunks=((3, 3, 1), (4, 4, 1)) <f4|(7, 9)|fcc662cb1a8c7b2d",
"res/npf64/nocoords/curv": "lazy=False decl=<f4 name='curvature' dims=('y', 'x') attrs=[('res', 'float64')] coords=[] <f4|(7, 9)|c65ace4839ca0054",
"res/npf64/nocoords/get": "(float64:np.float64(4.0), float64:np.float64(4.0))",
"res/npf64/nocoords/slope": "lazy=False decl=<f4 name='slope' dims=('y', 'x') attrs=[('res', 'float64')] coords=[] <f4|(7, 9)|fcc662cb1a8c7b2d",
"res/npi64/coords/curv": "lazy=False decl=<f4 name='curvature' dims=('y', 'x') attrs=[('res', 'int64')] coords=[('x', '<f8|(9,)|d0096e0944585532'), ('y', '<f8|(7,)|f65031d9303cf7e7')] <f4|(7, 9)|0505aad81bf3157a",
"res/npi64/coords/curv_dask": "lazy=True decl=<f8 name='curvature' dims=('y', 'x') attrs=[('res', 'int64')] coords=[('x', '<f8|(9,)|d0096e0944585532'), ('y', '<f8|(7,)|f65031d9303cf7e7')] chunks=((3, 3, 1), (4, 4, 1)) <f4|(7, 9)|0505aad81bf3157a",
"res/npi64/coords/get": "(float:5.0, float:1.5)",
"res/npi64/coords/slope": "lazy=False decl=<f4 name='slope' dims=('y', 'x') attrs=[('res', 'int64')] coords=[('x', '<f8|(9,)|d0096e0944585532'), ('y', '<f8|(7,)|f65031d9303cf7e7')] <f4|(7, 9)|d7abe95c85ebd5e7",
"res/npi64/coords/slope_dask": "lazy=True decl=<f8 name='slope' dims=('y', 'x') attrs=[('res', 'int64')] coords=[('x', '<f8|(9,)|d0096e0944585532'), ('y', '<f8|(7,)|f65031d9303cf7e7')] chunks=((3, 3, 1), (4, 4, 1)) <f4|(7, 9)|d7abe95c85ebd5e7",
"res/npi64/nocoords/curv": "lazy=False decl=<f4 name='curvature' dims=('y', 'x') attrs=[('res', 'int64')] coords=[] <f4|(7, 9)|24f2c351417cd9e8",
"res/npi64/nocoords/get": "(float:1.0, float:1.0)",
"res/npi64/nocoords/slope": "lazy=False decl=<f4 name='slope' dims=('y', 'x') attrs=[('res', 'int64')] coords=[] <f4|(7, 9)|37cc8343f17d8c52",
"res/range/coords/curv": "lazy=False decl=<f4 name='curvature' dims=('y', 'x') attrs=[('res', 'range')] coords=[('x', '<f8|(9,)|d0096e0944585532'), ('y', '<f8|(7,)|f65031d9303cf7e7')] <f4|(7, 9)|0505aad81bf3157a",
"res/range/coords/curv_dask": "lazy=True decl=<f8 name='curvature' dims=('y', 'x') attrs=[('res', 'range')] coords=[('x', '<f8|(9,)|d0096e0944585532'), ('y', '<f8|(7,)|f65031d9303cf7e7')] chunks=((3, 3, 1), (4, 4, 1)) <f4|(7, 9)|0505aad81bf3157a",
"res/range/coords/get": "(float:5.0, float:1.5)",
"res/range/coords/slope": "lazy=False decl=<f4 name='slope' dims=('y', 'x') attrs=[('res', 'range')] coords=[('x', '<f8|(9,)|d0096e0944585532'), ('y', '<f8|(7,)|f65031d9303cf7e7')] <f4|(7, 9)|d7abe95c85ebd5e7",
"res/range/coords/slope_dask": "lazy=True decl=<f8 name='slope' dims=('y', 'x') attrs=[('res', 'range')] coords=[('x', '<f8|(9,)|d0096e0944585532'), ('y', '<f8|(7,)|f65031d9303cf7e7')] chunks=((3, 3, 1), (4, 4, 1)) <f4|(7, 9)|d7abe95c85ebd5e7",
"res/range/nocoords/curv": "lazy=False decl=<f4 name='curvature' dims=('y', 'x') attrs=[('res', 'range')] coords=[] <f4|(7, 9)|24f2c351417cd9e8",
"res/range/nocoords/get": "(float:1.0, float:1.0)",
"res/range/nocoords/slope": "lazy=False decl=<f4 name='slope' dims=('y', 'x') attrs=[('res', 'range')] coords=[] <f4|(7, 9)|37cc8343f17d8c52",
"res/set/coords/curv": "lazy=False decl=<f4 name='curvature' dims=('y', 'x') attrs=[('res', 'set')] coords=[('x', '<f8|(9,)|d0096e0944585532'), ('y', '<f8|(7,)|f65031d9303cf7e7')] <f4|(7, 9)|0505aad81bf3157a",
"res/set/coords/curv_dask": "lazy=True decl=<f8 name='curvature' dims=('y', 'x') attrs=[('res', 'set')] coords=[('x', '<f8|(9,)|d0096e0944585532'), ('y', '<f8|(7,)|f65031d9303cf7e7')] chunks=((3, 3, 1), (4, 4, 1)) <f4|(7, 9)|0505aad81bf3157a",
"res/set/coords/get": "(float:5.0, float:1.5)",
"res/set/coords/slope": "lazy=False decl=<f4 name='slope' dims=('y', 'x') attrs=[('res', 'set')] coords=[('x', '<f8|(9,)|d0096e0944585532'), ('y', '<f8|(7,)|f65031d9303cf7e7')] <f4|(7, 9)|d7abe95c85ebd5e7",
"res/set/coords/slope_dask": "lazy=True decl=<f8 name='slope' dims=('y', 'x') attrs=[('res', 'set')] coords=[('x', '<f8|(9,)|d0096e0944585532'), ('y', '<f8|(7,)|f65031d9303cf7e7')] chunks=((3, 3, 1), (4, 4, 1)) <f4|(7, 9)|d7abe95c85ebd5e7",
"res/set/nocoords/curv": "lazy=False decl=<f4 name='curvature' dims=('y', 'x') attrs=[('res', 'set')] coords=[] <f4|(7, 9)|24f2c351417cd9e8",
"res/set/nocoords/get": "(float:1.0, float:1.0)",
"res/set/nocoords/slope": "lazy=False decl=<f4 name='slope' dims=('y', 'x') attrs=[('res', 'set')] coords=[] <f4|(7, 9)|37cc8343f17d8c52",
"res/str/coords/curv": "lazy=False decl=<f4 name='curvature' dims=('y', 'x') attrs=[('res', 'str')] coords=[('x', '<f8|(9,)|d0096e0944585532'), ('y', '<f8|(7,)|f65031d9303cf7e7')] <f4|(7, 9)|0505aad81bf3157a",
"res/str/coords/curv_dask": "lazy=True decl=<f8 name='curvature' dims=('y', 'x') attrs=[('res', 'str')] coords=[('x', '<f8|(9,)|d0096e0944585532'), ('y', '<f8|(7,)|f65031d9303cf7e7')] chunks=((3, 3, 1), (4, 4, 1)) <f4|(7, 9)|0505aad81bf3157a",
"res/str/coords/get": "(float:5.0, float:1.5)",
"res/str/coords/slope": "lazy=False decl=<f4 name='slope' dims=('y', 'x') attrs=[('res', 'str')] coords=[('x', '<f8|(9,)|d0096e0944585532'), ('y', '<f8|(7,)|f65031d9303cf7e7')] <f4|(7, 9)|d7abe95c85ebd5e7",
"res/str/coords/slope_dask": "lazy=True decl=<f8 name='slope' dims=('y', 'x') attrs=[('res', 'str')] coords=[('x', '<f8|(9,)|d0096e0944585532'), ('y', '<f8|(7,)|f65031d9303cf7e7')] chunks=((3, 3, 1), (4, 4, 1)) <f4|(7, 9)|d7abe95c85ebd5e7",
"res/str/nocoords/curv": "lazy=False decl=<f4 name='curvature' dims=('y', 'x') attrs=[('res', 'str')] coords=[] <f4|(7, 9)|24f2c351417cd9e8",
"res/str/nocoords/get": "(float:1.0, float:1.0)",
"res/str/nocoords/slope": "lazy=False decl=<f4 name='slope' dims=('y', 'x') attrs=[('res', 'str')] coords=[] <f4|(7, 9)|37cc8343f17d8c52",
"res/tup0/coords/curv": "lazy=False decl=<f4 name='curvature' dims=('y', 'x') attrs=[('res', 'tuple')] coords=[('x', '<f8|(9,)|d0096e0944585532'), ('y', '<f8|(7,)|f65031d9303cf7e7')] <f4|(7, 9)|0505aad81bf3157a",
"res/tup0/coords/curv_dask": "lazy=True decl=<f8 name='curvature' dims=('y', 'x') attrs=[('res', 'tuple')] coords=[('x', '<f8|(9,)|d0096e0944585532'), ('y', '<f8|(7,)|f65031d9303cf7e7')] chunks=((3, 3, 1), (4, 4, 1)) <f4|(7, 9)|0505aad81bf3157a",
"res/tup0/coords/get": "(float:5.0, float:1.5)",
"res/tup0/coords/slope": "lazy=False decl=<f4 name='slope' dims=('y', 'x') attrs=[('res', 'tuple')] coords=[('x', '<f8|(9,)|d0096e0944585532'), ('y', '<f8|(7,)|f65031d9303cf7e7')] <f4|(7, 9)|d7abe95c85ebd5e7",
"res/tup0/coords/slope_dask": "lazy=True decl=<f8 name='slope' dims=('y', 'x') attrs=[('res', 'tuple')] coords=[('x', '<f8|(9,)|d0096e0944585532'), ('y', '<f8|(7,)|f65031d9303cf7e7')] chunks=((3, 3, 1), (4, 4, 1)) <f4|(7, 9)|d7abe95c85ebd5e7",
"res/tup0/nocoords/curv": "lazy=False decl=<f4 name='curvature' dims=('y', 'x') attrs=[('res', 'tuple')] coords=[] <f4|(7, 9)|24f2c351417cd9e8",
"res/tup0/nocoords/get": "(float:1.0, float:1.0)",
"res/tup0/nocoords/slope": "lazy=False decl=<f4 name='slope' dims=('y', 'x') attrs=[('res', 'tuple')] coords=[] <f4|(7, 9)|37cc8343f17d8c52",
"res/tup1/coords/curv": "lazy=False decl=<f4 name='curvature' dims=('y', 'x') attrs=[('res', 'tuple')] coords=[('x', '<f8|(9,)|d0096e0944585532'), ('y', '<f8|(7,)|f65031d9303cf7e7')] <f4|(7, 9)|0505aad81bf3157a",
"res/tup1/coords/curv_dask": "lazy=True decl=<f8 name='curvature' dims=('y', 'x') attrs=[('res', 'tuple')] coords=[('x', '<f8|(9,)|d0096e0944585532'), ('y', '<f8|(7,)|f65031d9303cf7e7')] chunks=((3, 3, 1), (4, 4, 1)) <f4|(7, 9)|0505aad81bf3157a",
"res/tup1/coords/get": "(float:5.0, float:1.5)",
"res/tup1/coords/slope": "lazy=False decl=<f4 name='slope' dims=('y', 'x') attrs=[('res', 'tuple')] coords=[('x', '<f8|(9,)|d0096e0944585532'), ('y', '<f8|(7,)|f65031d9303cf7e7')] <f4|(7, 9)|d7abe95c85ebd5e7",
"res/tup1/coords/slope_dask": "lazy=True decl=<f8 name='slope' dims=('y', 'x') attrs=[('res', 'tuple')] coords=[('x', '<f8|(9,)|d0096e0944585532'), ('y', '<f8|(7,)|f65031d9303cf7e7')] chunks=((3, 3, 1), (4, 4, 1)) <f4|(7, 9)|d7abe95c85ebd5e7",
"res/tup1/nocoords/curv": "lazy=False decl=<f4 name='curvature' dims=('y', 'x') attrs=[('res', 'tuple')] coords=[] <f4|(7, 9)|24f2c351417cd9e8",
"res/tup1/nocoords/get": "(float:1.0, float:1.0)",
"res/tup1/nocoords/slope": "lazy=False decl=<f4 name='slope' dims=('y', 'x') attrs=[('res', 'tuple')] coords=[] <f4|(7, 9)|37cc8343f17d8c52",
"res/tup3/coords/curv": "lazy=False decl=<f4 name='curvature' dims=('y', 'x') attrs=[('res', 'tuple')] coords=[('x', '<f8|(9,)|d0096e0944585532'), ('y', '<f8|(7,)|f65031d9303cf7e7')] <f4|(7, 9)|0505aad81bf3157a",
"res/tup3/coords/curv_dask": "lazy=True decl=<f8 name='curvature' dims=('y', 'x') attrs=[('res', 'tuple')] coords=[('x', '<f8|(9,)|d0096e0944585532'), ('y', '<f8|(7,)|f65031d9303cf7e7')] chunks=((3, 3, 1), (4, 4, 1)) <f4|(7, 9)|0505aad81bf3157a",
"res/tup3/coords/get": "(float:5.0, float:1.5)",
"res/tup3/coords/slope": "lazy=False decl=<f4 name='slope' dims=('y', 'x') attrs=[('res', 'tuple')] coords=[('x', '<f8|(9,)|d0096e0944585532'), ('y', '<f8|(7,)|f65031d9303cf7e7')] <f4|(7, 9)|d7abe95c85ebd5e7",
"res/tup3/coords/slope_dask": "lazy=True decl=<f8 name='slope' dims=('y', 'x') attrs=[('res', 'tuple')] coords=[('x', '<f8|(9,)|d0096e0944585532'), ('y', '<f8|(7,)|f65031d9303cf7e7')] chunks=((3, 3, 1), (4, 4, 1)) <f4|(7, 9)|d7abe95c85ebd5e7",
"res/tup3/nocoords/curv": "lazy=False decl=<f4 name='curvature' dims=('y', 'x') attrs=[('res', 'tuple')] coords=[] <f4|(7, 9)|24f2c351417cd9e8",
"res/tup3/nocoords/get": "(float:1.0, float:1.0)",
"res/tup3/nocoords/slope": "lazy=False decl=<f4 name='slope' dims=('y', 'x') attrs=[('res', 'tuple')] coords=[] <f4|(7, 9)|37cc8343f17d8c52",
"res/tup_bool/coords/curv": "lazy=False decl=<f4 name='curvature' dims=('y', 'x') attrs=[('res', 'tuple')] coords=[('x', '<f8|(9,)|d0096e0944585532'), ('y', '<f8|(7,)|f65031d9303cf7e7')] <f4|(7, 9)|39ad9a34aae3e284",
"res/tup_bool/coords/curv_dask": "lazy=True decl=<f8 name='curvature' dims=('y', 'x') attrs=[('res', 'tuple')] coords=[('x', '<f8|(9,)|d0096e0944585532'), ('y', '<f8|(7,)|f65031d9303cf7e7')] chunks=((3, 3, 1), (4, 4, 1)) <f4|(7, 9)|39ad9a34aae3e284",
"res/tup_bool/coords/get": "(bool:True, bool:False)",
"res/tup_bool/coords/slope": "EXC ZeroDivisionError: division by zero",
"res/tup_bool/coords/slope_dask": "LAZY decl=<f8 chunks=((3, 3, 1), (4, 4, 1)) EXC ZeroDivisionError: division by zero",
"res/tup_bool/nocoords/curv": "lazy=False decl=<f4 name='curvature' dims=('y', 'x') attrs=[('res', 'tuple')] coords=[] <f4|(7, 9)|39ad9a34aae3e284",
"res/tup_bool/nocoords/get": "(bool:True, bool:False)",
"res/tup_bool/nocoords/slope": "EXC ZeroDivisionError: division by zero",
"res/tup_cplx/coords/curv": "lazy=False decl=<f4 name='curvature' dims=('y', 'x') attrs=[('res', 'tuple')] coords=[('x', '<f8|(9,)|d0096e0944585532'), ('y', '<f8|(7,)|f65031d9303cf7e7')] <f4|(7, 9)|0505aad81bf3157a",
"res/tup_cplx/coords/curv_dask": "lazy=True decl=<f8 name='curvature' dims=('y', 'x') attrs=[('res', 'tuple')] coords=[('x', '<f8|(9,)|d0096e0944585532'), ('y', '<f8|(7,)|f65031d9303cf7e7')] chunks=((3, 3, 1), (4, 4, 1)) <f4|(7, 9)|0505aad81bf3157a",
"res/tup_cplx/coords/get": "(float:5.0, float:1.5)",
"res/tup_cplx/coords/slope": "lazy=False decl=<f4 name='slope' dims=('y', 'x') attrs=[('res', 'tuple')] coords=[('x', '<f8|(9,)|d0096e0944585532'), ('y', '<f8|(7,)|f65031d9303cf7e7')] <f4|(7, 9)|d7abe95c85ebd5e7",
"res/tup_cplx/coords/slope_dask": "lazy=True decl=<f8 name='slope' dims=('y', 'x') attrs=[('res', 'tuple')] coords=[('x', '<f8|(9,)|d0096e0944585532'), ('y', '<f8|(7,)|f65031d9303cf7e7')] chunks=((3, 3, 1), (4, 4, 1)) <f4|(7, 9)|d7abe95c85ebd5e7",
"res/tup_cplx/nocoords/curv": "lazy=False decl=<f4 name='curvature' dims=('y', 'x') attrs=[('res', 'tuple')] coords=[] <f4|(7, 9)|24f2c351417cd9e8",
"res/tup_cplx/nocoords/get": "(float:1.0, float:1.0)",
"res/tup_cplx/nocoords/slope": "lazy=False decl=<f4 name='slope' dims=('y', 'x') attrs=[('res', 'tuple')] coords=[] <f4|(7, 9)|37cc8343f17d8c52",
"res/tup_ff/coords/curv": "lazy=False decl=<f4 name='curvature' dims=('y', 'x') attrs=[('res', 'tuple')] coords=[('x', '<f8|(9,)|d0096e0944585532'), ('y', '<f8|(7,)|f65031d9303cf7e7')] <f4|(7, 9)|c4b902562791ce93",
"res/tup_ff/coords/curv_dask": "lazy=True decl=<f8 name='curvature' dims=('y', 'x') attrs=[('res', 'tuple')] coords=[('x', '<f8|(9,)|d0096e0944585532'), ('y', '<f8|(7,)|f65031d9303cf7e7')] chunks=((3, 3, 1), (4, 4, 1)) <f4|(7, 9)|c4b902562791ce93",
"res/tup_ff/coords/get": "(float:0.5, float:0.25)",
"res/tup_ff/coords/slope": "lazy=False decl=<f4 name='slope' dims=('y', 'x') attrs=[('res', 'tuple')] coords=[('x', '<f8|(9,)|d0096e0944585532'), ('y', '<f8|(7,)|f65031d9303cf7e7')] <f4|(7, 9)|8083b103b434d1c2",
"res/tup_ff/coords/slope_dask": "lazy=True decl=<f8 name='slope' dims=('y', 'x') attrs=[('res', 'tuple')] coords=[('x', '<f8|(9,)|d0096e0944585532'), ('y', '<f8|(7,)|f65031d9303cf7e7')] chunks=((3, 3, 1), (4, 4, 1)) <f4|(7, 9)|8083b103b434d1c2",
"res/tup_ff/nocoords/curv": "lazy=False decl=<f4 name='curvature' dims=('y', 'x') attrs=[('res', 'tuple')] coords=[] <f4|(7, 9)|c4b902562791ce93",
"res/tup_ff/nocoords/get": "(float:0.5, float:0.25)",
"res/tup_ff/nocoords/slope": "lazy=False decl=<f4 name='slope' dims=('y', 'x') attrs=[('res', 'tuple')] coords=[] <f4|(7, 9)|8083b103b434d1c2",
"res/tup_if/coords/curv": "lazy=False decl=<f4 name='curvature' dims=('y', 'x') attrs=[('res', 'tuple')] coords=[('x', '<f8|(9,)|d0096e0944585532'), ('y', '<f8|(7,)|f65031d9303cf7e7')] <f4|(7, 9)|6ac45a1b890eb17a",
"res/tup_if/coords/curv_dask": "lazy=True decl=<f8 name='curvature' dims=('y', 'x') attrs=[('res', 'tuple')] coords=[('x', '<f8|(9,)|d0096e0944585532'), ('y', '<f8|(7,)|f65031d9303cf7e7')] chunks=((3, 3, 1), (4, 4, 1)) <f4|(7, 9)|6ac45a1b890eb17a",
"res/tup_if/coords/get": "(int:2, float:0.5)",
"res/tup_if/coords/slope": "lazy=False decl=<f4 name='slope' dims=('y', 'x') attrs=[('res', 'tuple')] coords=[('x', '<f8|(9,)|d0096e0944585532'), ('y', '<f8|(7,)|f65031d9303cf7e7')] <f4|(7, 9)|e41605391df4a76d",
"res/tup_if/coords/slope_dask": "lazy=True decl=<f8 name='slope' dims=('y', 'x') attrs=[('res', 'tuple')] coords=[('x', '<f8|(9,)|d0096e0944585532'), ('y', '<f8|(7,)|f65031d9303cf7e7')] chunks=((3, 3, 1), (4, 4, 1)) <f4|(7, 9)|e41605391df4a76d",
"res/tup_if/nocoords/curv": "lazy=False decl=<f4 name='curvature' dims=('y', 'x') attrs=[('res', 'tuple')] coords=[] <f4|(7, 9)|6ac45a1b890eb17a",
"res/tup_if/nocoords/get": "(int:2, float:0.5)",
"res/tup_if/nocoords/slope": "lazy=False decl=<f4 name='slope' dims=('y', 'x') attrs=[('res', 'tuple')] coords=[] <f4|(7, 9)|e41605391df4a76d",
"res/tup_ii/coords/curv": "lazy=False decl=<f4 name='curvature' dims=('y', 'x') attrs=[('res', 'tuple')] coords=[('x', '<f8|(9,)|d0096e0944585532'), ('y', '<f8|(7,)|f65031d9303cf7e7')] <f4|(7, 9)|74fdc83845316a7e",
"res/tup_ii/coords/curv_dask": "lazy=True decl=<f8 name='curvature' dims=('y', 'x') attrs=[('res', 'tuple')] coords=[('x', '<f8|(9,)|d0096e0944585532'), ('y', '<f8|(7,)|f65031d9303cf7e7')] chunks=((3, 3, 1), (4, 4, 1)) <f4|(7, 9)|74fdc83845316a7e",
"res/tup_ii/coords/get": "(int:2, int:3)",
"res/tup_ii/coords/slope": "lazy=False decl=<f4 name='slope' dims=('y', 'x') attrs=[('res', 'tuple')] coords=[('x', '<f8|(9,)|d0096e0944585532'), ('y', '<f8|(7,)|f65031d9303cf7e7')] <f4|(7, 9)|c19912eae1f7f7b2",
"res/tup_ii/coords/slope_dask": "lazy=True decl=<f8 name='slope' dims=('y', 'x') attrs=[('res', 'tuple')] coords=[('x', '<f8|(9,)|d0096e0944585532'), ('y', '<f8|(7,)|f65031d9303cf7e7')] chunks=((3, 3, 1), (4, 4, 1)) <f4|(7, 9)|c19912eae1f7f7b2",
"res/tup_ii/nocoords/curv": "lazy=False decl=<f4 name='curvature' dims=('y', 'x') attrs=[('res', 'tuple')] coords=[] <f4|(7, 9)|74fdc83845316a7e",
"res/tup_ii/nocoords/get": "(int:2, int:3)",
"res/tup_ii/nocoords/slope": "lazy=False decl=<f4 name='slope' dims=('y', 'x') attrs=[('res', 'tuple')] coords=[] <f4|(7, 9)|c19912eae1f7f7b2",
"res/tup_nested/coords/curv": "lazy=False decl=<f4 name='curvature' dims=('y', 'x') attrs=[('res', 'tuple')] coords=[('x', '<f8|(9,)|d0096e0944585532'), ('y', '<f8|(7,)|f65031d9303cf7e7')] <f4|(7, 9)|0505aad81bf3157a",
"res/tup_nested/coords/curv_dask": "lazy=True decl=<f8 name='curvature' dims=('y', 'x') attrs=[('res', 'tuple')] coords=[('x', '<f8|(9,)|d0096e0944585532'), ('y', '<f8|(7,)|f65031d9303cf7e7')] chunks=((3, 3, 1), (4, 4, 1)) <f4|(7, 9)|0505aad81bf3157a",
"res/tup_nested/coords/get": "(float:5.0, float:1.5)",
"res/tup_nested/coords/slope": "lazy=False decl=<f4 name='slope' dims=('y', 'x') attrs=[('res', 'tuple')] coords=[('x', '<f8|(9,)|d0096e0944585532'), ('y', '<f8|(7,)|f65031d9303cf7e7')] <f4|(7, 9)|d7abe95c85ebd5e7",
"res/tup_nested/coords/slope_dask": "lazy=True decl=<f8 name='slope' dims=('y', 'x') attrs=[('res', 'tuple')] coords=[('x', '<f8|(9,)|d0096e0944585532'), ('y', '<f8|(7,)|f65031d9303cf7e7')] chunks=((3, 3, 1), (4, 4, 1)) <f4|(7, 9)|d7abe95c85ebd5e7",
"res/tup_nested/nocoords/curv": "lazy=False decl=<f4 name='curvature' dims=('y', 'x') attrs=[('res', 'tuple')] coords=[] <f4|(7, 9)|24f2c351417cd9e8",
"res/tup_nested/nocoords/get": "(float:1.0, float:1.0)",
"res/tup_nested/nocoords/slope": "lazy=False decl=<f4 name='slope' dims=('y', 'x') attrs=[('res', 'tuple')] coords=[] <f4|(7, 9)|37cc8343f17d8c52",
"res/tup_none/coords/curv": "lazy=False decl=<f4 name='curvature' dims=('y', 'x') attrs=[('res', 'tuple')] coords=[('x', '<f8|(9,)|d0096e0944585532'), ('y', '<f8|(7,)|f65031d9303cf7e7')] <f4|(7, 9)|0505aad81bf3157a",
"res/tup_none/coords/curv_dask": "lazy=True decl=<f8 name='curvature' dims=('y', 'x') attrs=[('res', 'tuple')] coords=[('x', '<f8|(9,)|d0096e0944585532'), ('y', '<f8|(7,)|f65031d9303cf7e7')] chunks=((3, 3, 1), (4, 4, 1)) <f4|(7, 9)|0505aad81bf3157a",
"res/tup_none/coords/get": "(float:5.0, float:1.5)",
"res/tup_none/coords/slope": "lazy=False decl=<f4 name='slope' dims=('y', 'x') attrs=[('res', 'tuple')] coords=[('x', '<f8|(9,)|d0096e0944585532'), ('y', '<f8|(7,)|f65031d9303cf7e7')] <f4|(7, 9)|d7abe95c85ebd5e7",
"res/tup_none/coords/slope_dask": "lazy=True decl=<f8 name='slope' dims=('y', 'x') attrs=[('res', 'tuple')] coords=[('x', '<f8|(9,)|d0096e0944585532'), ('y', '<f8|(7,)|f65031d9303cf7e7')] chunks=((3, 3, 1), (4, 4, 1)) <f4|(7, 9)|d7abe95c85ebd5e7",
"res/tup_none/nocoords/curv": "lazy=False decl=<f4 name='curvature' dims=('y', 'x') attrs=[('res', 'tuple')] coords=[] <f4|(7, 9)|24f2c351417cd9e8",
"res/tup_none/nocoords/get": "(float:1.0, float:1.0)",
"res/tup_none/nocoords/slope": "lazy=False decl=<f4 name='slope' dims=('y', 'x') attrs=[('res', 'tuple')] coords=[] <f4|(7, 9)|37cc8343f17d8c52",
"res/tup_npf32/coords/curv": "lazy=False decl=<f4 name='curvature' dims=('y', 'x') attrs=[('res', 'tuple')] coords=[('x', '<f8|(9,)|d0096e0944585532'), ('y', '<f8|(7,)|f65031d9303cf7e7')] <f4|(7, 9)|0505aad81bf3157a",
"res/tup_npf32/coords/curv_dask": "lazy=True decl=<f8 name='curvature' dims=('y', 'x') attrs=[('res', 'tuple')] coords=[('x', '<f8|(9,)|d0096e0944585532'), ('y', '<f8|(7,)|f65031d9303cf7e7')] chunks=((3, 3, 1), (4, 4, 1)) <f4|(7, 9)|0505aad81bf3157a",
"res/tup_npf32/coords/get": "(float:5.0, float:1.5)",
"res/tup_npf32/coords/slope": "lazy=False decl=<f4 name='slope' dims=('y', 'x') attrs=[('res', 'tuple')] coords=[('x', '<f8|(9,)|d0096e0944585532'), ('y', '<f8|(7,)|f65031d9303cf7e7')] <f4|(7, 9)|d7abe95c85ebd5e7",
"res/tup_npf32/coords/slope_dask": "lazy=True decl=<f8 name='slope' dims=('y', 'x') attrs=[('res', 'tuple')] coords=[('x', '<f8|(9,)|d0096e0944585532'), ('y', '<f8|(7,)|f65031d9303cf7e7')] chunks=((3, 3, 1), (4, 4, 1)) <f4|(7, 9)|d7abe95c85ebd5e7",
"res/tup_npf32/nocoords/curv": "lazy=False decl=<f4 name='curvature' dims=('y', 'x') attrs=[('res', 'tuple')] coords=[] <f4|(7, 9)|24f2c351417cd9e8",
"res/tup_npf32/nocoords/get": "(float:1.0, float:1.0)",
"res/tup_npf32/nocoords/slope": "lazy=False decl=<f4 name='slope' dims=('y', 'x') attrs=[('res', 'tuple')] coords=[] <f4|(7, 9)|37cc8343f17d8c52",
"res/tup_npf64/coords/curv": "lazy=False decl=<f4 name='curvature' dims=('y', 'x') attrs=[('res', 'tuple')] coords=[('x', '<f8|(9,)|d0096e0944585532'), ('y', '<f8|(7,)|f65031d9303cf7e7')] <f4|(7, 9)|74fdc83845316a7e",
"res/tup_npf64/coords/curv_dask": "lazy=True decl=<f8 name='curvature' dims=('y', 'x') attrs=[('res', 'tuple')] coords=[('x', '<f8|(9,)|d0096e0944585532'), ('y', '<f8|(7,)|f65031d9303cf7e7')] chunks=((3, 3, 1), (4, 4, 1)) <f4|(7, 9)|74fdc83845316a7e",
"res/tup_npf64/coords/get": "(float64:np.float64(2.0), float64:np.float64(3.0))",
"res/tup_npf64/coords/slope": "lazy=False decl=<f4 name='slope' dims=('y', 'x') attrs=[('res', 'tuple')] coords=[('x', '<f8|(9,)|d0096e0944585532'), ('y', '<f8|(7,)|f65031d9303cf7e7')] <f4|(7, 9)|c19912eae1f7f7b2",
"res/tup_npf64/coords/slope_dask": "lazy=True decl=<f8 name='slope' dims=('y', 'x') attrs=[('res', 'tuple')] coords=[('x', '<f8|(9,)|d0096e0944585532'), ('y', '<f8|(7,)|f65031d9303cf7e7')] chunks=((3, 3, 1), (4, 4, 1)) <f4|(7, 9)|c19912eae1f7f7b2",
"res/tup_npf64/nocoords/curv": "lazy=False decl=<f4 name='curvature' dims=('y', 'x') attrs=[('res', 'tuple')] coords=[] <f4|(7, 9)|74fdc83845316a7e",
"res/tup_npf64/nocoords/get": "(float64:np.float64(2.0), float64:np.float64(3.0))",
"res/tup_npf64/nocoords/slope": "lazy=False decl=<f4 name='slope' dims=('y', 'x') attrs=[('res', 'tuple')] coords=[] <f4|(7, 9)|c19912eae1f7f7b2",
"res/tup_npi/coords/curv": "lazy=False decl=<f4 name='curvature' dims=('y', 'x') attrs=[('res', 'tuple')] coords=[('x', '<f8|(9,)|d0096e0944585532'), ('y', '<f8|(7,)|f65031d9303cf7e7')] <f4|(7, 9)|0505aad81bf3157a",
"res/tup_npi/coords/curv_dask": "lazy=True decl=<f8 name='curvature' dims=('y', 'x') attrs=[('res', 'tuple')] coords=[('x', '<f8|(9,)|d0096e0944585532'), ('y', '<f8|(7,)|f65031d9303cf7e7')] chunks=((3, 3, 1), (4, 4, 1)) <f4|(7, 9)|0505aad81bf3157a",
"res/tup_npi/coords/get": "(float:5.0, float:1.5)",
"res/tup_npi/coords/slope": "lazy=False decl=<f4 name='slope' dims=('y', 'x') attrs=[('res', 'tuple')] coords=[('x', '<f8|(9,)|d0096e0944585532'), ('y', '<f8|(7,)|f65031d9303cf7e7')] <f4|(7, 9)|d7abe95c85ebd5e7",
"res/tup_npi/coords/slope_dask": "lazy=True decl=<f8 name='slope' dims=('y', 'x') attrs=[('res', 'tuple')] coords=[('x', '<f8|(9,)|d0096e0944585532'), ('y', '<f8|(7,)|f65031d9303cf7e7')] chunks=((3, 3, 1), (4, 4, 1)) <f4|(7, 9)|d7abe95c85ebd5e7",
"res/tup_npi/nocoords/curv": "lazy=False decl=<f4 name='curvature' dims=('y', 'x') attrs=[('res', 'tuple')] coords=[] <f4|(7, 9)|24f2c351417cd9e8",
"res/tup_npi/nocoords/get": "(float:1.0, float:1.0)",
"res/tup_npi/nocoords/slope": "lazy=False decl=<f4 name='slope' dims=('y', 'x') attrs=[('res', 'tuple')] coords=[] <f4|(7, 9)|37cc8343f17d8c52",
"res/tup_str/coords/curv": "lazy=False decl=<f4 name='curvature' dims=('y', 'x') attrs=[('res', 'tuple')] coords=[('x', '<f8|(9,)|d0096e0944585532'), ('y', '<f8|(7,)|f65031d9303cf7e7')] <f4|(7, 9)|0505aad81bf3157a",
"res/tup_str/coords/curv_dask": "lazy=True decl=<f8 name='curvature' dims=('y', 'x') attrs=[('res', 'tuple')] coords=[('x', '<f8|(9,)|d0096e0944585532'), ('y', '<f8|(7,)|f65031d9303cf7e7')] chunks=((3, 3, 1), (4, 4, 1)) <f4|(7, 9)|0505aad81bf3157a",
"res/tup_str/coords/get": "(float:5.0, float:1.5)",
"res/tup_str/coords/slope": "lazy=False decl=<f4 name='slope' dims=('y', 'x') attrs=[('res', 'tuple')] coords=[('x', '<f8|(9,)|d0096e0944585532'), ('y', '<f8|(7,)|f65031d9303cf7e7')] <f4|(7, 9)|d7abe95c85ebd5e7",
"res/tup_str/coords/slope_dask": "lazy=True decl=<f8 name='slope' dims=('y', 'x') attrs=[('res', 'tuple')] coords=[('x', '<f8|(9,)|d0096e0944585532'), ('y', '<f8|(7,)|f65031d9303cf7e7')] chunks=((3, 3, 1), (4, 4, 1)) <f4|(7, 9)|d7abe95c85ebd5e7",
"res/tup_str/nocoords/curv": "lazy=False decl=<f4 name='curvature' dims=('y', 'x') attrs=[('res', 'tuple')] coords=[] <f4|(7, 9)|24f2c351417cd9e8",
"res/tup_str/nocoords/get": "(float:1.0, float:1.0)",
"res/tup_str/nocoords/slope": "lazy=False decl=<f4 name='slope' dims=('y', 'x') attrs=[('res', 'tuple')] coords=[] <f4|(7, 9)|37cc8343f17d8c52",
"res/tup_str0/coords/curv": "lazy=False decl=<f4 name='curvature' dims=('y', 'x') attrs=[('res', 'tuple')] coords=[('x', '<f8|(9,)|d0096e0944585532'), ('y', '<f8|(7,)|f65031d9303cf7e7')] <f4|(7, 9)|0505aad81bf3157a",
"res/tup_str0/coords/curv_dask": "lazy=True decl=<f8 name='curvature' dims=('y', 'x') attrs=[('res', 'tuple')] coords=[('x', '<f8|(9,)|d0096e0944585532'), ('y', '<f8|(7,)|f65031d9303cf7e7')] chunks=((3, 3, 1), (4, 4, 1)) <f4|(7, 9)|0505aad81bf3157a",
"res/tup_str0/coords/get": "(float:5.0, float:1.5)",
"res/tup_str0/coords/slope": "lazy=False decl=<f4 name='slope' dims=('y', 'x') attrs=[('res', 'tuple')] coords=[('x', '<f8|(9,)|d0096e0944585532'), ('y', '<f8|(7,)|f65031d9303cf7e7')] <f4|(7, 9)|d7abe95c85ebd5e7",
"res/tup_str0/coords/slope_dask": "lazy=True decl=<f8 name='slope' dims=('y', 'x') attrs=[('res', 'tuple')] coords=[('x', '<f8|(9,)|d0096e0944585532'), ('y', '<f8|(7,)|f65031d9303cf7e7')] chunks=((3, 3, 1), (4, 4, 1)) <f4|(7, 9)|d7abe95c85ebd5e7",
"res/tup_str0/nocoords/curv": "lazy=False decl=<f4 name='curvature' dims=('y', 'x') attrs=[('res', 'tuple')] coords=[] <f4|(7, 9)|24f2c351417cd9e8",
"res/tup_str0/nocoords/get": "(float:1.0, float:1.0)",
"res/tup_str0/nocoords/slope": "lazy=False decl=<f4 name='slope' dims=('y', 'x') attrs=[('res', 'tuple')] coords=[] <f4|(7, 9)|37cc8343f17d8c52",
"res/tupsub/coords/curv": "lazy=False decl=<f4 name='curvature' dims=('y', 'x') attrs=[('res', 'TupleSub')] coords=[('x', '<f8|(9,)|d0096e0944585532'), ('y', '<f8|(7,)|f65031d9303cf7e7')] <f4|(7, 9)|6102e7bb4594aa4c",
"res/tupsub/coords/curv_dask": "lazy=True decl=<f8 name='curvature' dims=('y', 'x') attrs=[('res', 'TupleSub')] coords=[('x', '<f8|(9,)|d0096e0944585532'), ('y', '<f8|(7,)|f65031d9303cf7e7')] chunks=((3, 3, 1), (4, 4, 1)) <f4|(7, 9)|6102e7bb4594aa4c",
"res/tupsub/coords/get": "(int:6, int:7)",
"res/tupsub/coords/slope": "lazy=False decl=<f4 name='slope' dims=('y', 'x') attrs=[('res', 'TupleSub')] coords=[('x', '<f8|(9,)|d0096e0944585532'), ('y', '<f8|(7,)|f65031d9303cf7e7')] <f4|(7, 9)|23607ecd9364d77d",
"res/tupsub/coords/slope_dask": "lazy=True decl=<f8 name='slope' dims=('y', 'x') attrs=[('res', 'TupleSub')] coords=[('x', '<f8|(9,)|d0096e0944585532'), ('y', '<f8|(7,)|f65031d9303cf7e7')] chunks=((3, 3, 1), (4, 4, 1)) <f4|(7, 9)|23607ecd9364d77d",
"res/tupsub/nocoords/curv": "lazy=False decl=<f4 name='curvature' dims=('y', 'x') attrs=[('res', 'TupleSub')] coords=[] <f4|(7, 9)|6102e7bb4594aa4c",
"res/tupsub/nocoords/get": "(int:6, int:7)",
"res/tupsub/nocoords/slope": "lazy=False decl=<f4 name='slope' dims=('y', 'x') attrs=[('res', 'TupleSub')] coords=[] <f4|(7, 9)|23607ecd9364d77d",
"res/weird/coords/curv": "lazy=False decl=<f4 name='curvature' dims=('y', 'x') attrs=[('res', 'Weird')] coords=[('x', '<f8|(9,)|d0096e0944585532'), ('y', '<f8|(7,)|f65031d9303cf7e7')] <f4|(7, 9)|0505aad81bf3157a",
"res/weird/coords/curv_dask": "lazy=True decl=<f8 name='curvature' dims=('y', 'x') attrs=[('res', 'Weird')] coords=[('x', '<f8|(9,)|d0096e0944585532'), ('y', '<f8|(7,)|f65031d9303cf7e7')] chunks=((3, 3, 1), (4, 4, 1)) <f4|(7, 9)|0505aad81bf3157a",
"res/weird/coords/get": "(float:5.0, float:1.5)",
"res/weird/coords/slope": "lazy=False decl=<f4 name='slope' dims=('y', 'x') attrs=[('res', 'Weird')] coords=[('x', '<f8|(9,)|d0096e0944585532'), ('y', '<f8|(7,)|f65031d9303cf7e7')] <f4|(7, 9)|d7abe95c85ebd5e7",
"res/weird/coords/slope_dask": "lazy=True decl=<f8 name='slope' dims=('y', 'x') attrs=[('res', 'Weird')] coords=[('x', '<f8|(9,)|d0096e0944585532'), ('y', '<f8|(7,)|f65031d9303cf7e7')] chunks=((3, 3, 1), (4, 4, 1)) <f4|(7, 9)|d7abe95c85ebd5e7",
"res/weird/nocoords/curv": "lazy=False decl=<f4 name='curvature' dims=('y', 'x') attrs=[('res', 'Weird')] coords=[] <f4|(7, 9)|24f2c351417cd9e8",
"res/weird/nocoords/get": "(float:1.0, float:1.0)",
"res/weird/nocoords/slope": "lazy=False decl=<f4 name='slope' dims=('y', 'x') attrs=[('res', 'Weird')] coords=[] <f4|(7, 9)|37cc8343f17d8c52",
"res/zero/coords/curv": "EXC ZeroDivisionError: division by zero",
"res/zero/coords/curv_dask": "LAZY decl=<f8 chunks=((3, 3, 1), (4, 4, 1)) EXC ZeroDivisionError: division by zero",
"res/zero/coords/get": "(int:0, int:0)",
"res/zero/coords/slope": "EXC ZeroDivisionError: division by zero",
"res/zero/coords/slope_dask": "LAZY decl=<f8 chunks=((3, 3, 1), (4, 4, 1)) EXC ZeroDivisionError: division by zero",
"res/zero/nocoords/curv": "EXC ZeroDivisionError: division by zero",
"res/zero/nocoords/get": "(int:0, int:0)",
"res/zero/nocoords/slope": "EXC ZeroDivisionError: division by zero",
"shape/(1, 1)/curv": "EXC ZeroDivisionError: float division by zero",
"shape/(1, 1)/get": "EXC ZeroDivisionError: float division by zero",
"shape/(1, 1)/slope": "EXC ZeroDivisionError: float division by zero",
"shape/(1, 5)/curv": "EXC ZeroDivisionError: float division by zero",
"shape/(1, 5)/get": "EXC ZeroDivisionError: float division by zero",
"shape/(1, 5)/slope": "EXC ZeroDivisionError: float division by zero",
"shape/(2, 2)/curv": "lazy=False decl=<f4 name='curvature' dims=('y', 'x') attrs=[] coords=[('x', '<f8|(2,)|0def799455297f8f'), ('y', '<f8|(2,)|0b97e7636b34bcc1')] <f4|(2, 2)|4aa9db5f602d397c",
"shape/(2, 2)/get": "(float:2.0, float:3.0)",
"shape/(2, 2)/slope": "lazy=False decl=<f4 name='slope' dims=('y', 'x') attrs=[] coords=[('x', '<f8|(2,)|0def799455297f8f'), ('y', '<f8|(2,)|0b97e7636b34bcc1')] <f4|(2, 2)|4aa9db5f602d397c",
"shape/(3, 4)/curv": "lazy=False decl=<f4 name='curvature' dims=('y', 'x') attrs=[] coords=[('x', '<f8|(4,)|542f074204a85863'), ('y', '<f8|(3,)|591b66f65ce4e1d5')] <f4|(3, 4)|7662173b08862f12",
"shape/(3, 4)/get": "(float:2.0, float:3.0)",
"shape/(3, 4)/slope": "lazy=False decl=<f4 name='slope' dims=('y', 'x') attrs=[] coords=[('x', '<f8|(4,)|542f074204a85863'), ('y', '<f8|(3,)|591b66f65ce4e1d5')] <f4|(3, 4)|270571933322e817",
"shape/(5, 1)/curv": "EXC ZeroDivisionError: float division by zero",
"shape/(5, 1)/get": "EXC ZeroDivisionError: float division by zero",
"shape/(5, 1)/slope": "EXC ZeroDivisionError: float division by zero",
"strcoords/get": "EXC TypeError: unsupported operand type(s) for -: 'str' and 'str'"
}""")  # @@EXPECTED@@

if __name__ == '__main__':
    got = cases()
    if '--record' in sys.argv:
        json.dump(got, sys.stdout, sort_keys=True)
        sys.exit(0)
    bad = [k for k in sorted(set(got) | set(EXPECTED)) if got.get(k) != EXPECTED.get(k)]
    for k in bad[:20]:
        print('MISMATCH', k, '\n   got     ', got.get(k), '\n   expected', EXPECTED.get(k))
    ind = independent_checks()
    for b in ind[:20]:
        print('FORMULA', b)
    print('%d cases, %d mismatches, %d formula failures' % (len(got), len(bad), len(ind)))
    sys.exit(1 if (bad or ind or not EXPECTED) else 0)
