"""Differential test for property C05 (viewshed), refactoring t19.

Runs xrspatial.viewshed on a deterministic family of terrains / observers /
heights / cell sizes and compares the raw bytes of every result (sha256 of
dtype + shape + buffer, so NaN payloads, signed zeros and dtypes count) with
digests recorded from the UNMODIFIED tree.  In addition every result is checked
against an independent NumPy model of the output encoding (observer cell 180,
visible cells hold the vertical angle computed from elevation difference and
horizontal distance, everything else -1).

Usage:  cd <worktree> && PYTHONPATH=<worktree> /venv/bin/python equiv.py
Exit status 0 = identical, 1 = mismatch.
"""
import hashlib
import json
import math
import os
import sys
import warnings

import numpy as np
import xarray as xr

import xrspatial
from xrspatial import viewshed
import xrspatial.viewshed as vs_mod

warnings.filterwarnings("ignore")

RECORD = len(sys.argv) > 1 and sys.argv[1] == "--record"

EXPECTED = json.loads(r"""{
"bigvals_f64_5x5|intcoord": "20:39a645a4c9c99a0342a7812e",
"bigvals_f64_5x5|nonsq": "20:e855a1d823a86a8a88d41a81",
"bigvals_f64_5x5|offgrid": "1:d85d8b4b31f6e44c6dccd697",
"bigvals_f64_5x5|unit": "20:26cb2aca1cfc7263c977dc9e",
"bigvals_f64_5x5|ydesc": "20:8b3995680b60149a88689f62",
"cone_f64_8x9|intcoord": "20:aae68e58c2b66837fe30afd3",
"cone_f64_8x9|nonsq": "20:770ec471c618368256754761",
"cone_f64_8x9|offgrid": "1:afe8debf590d4ac4d3239a87",
"cone_f64_8x9|unit": "20:b3025e4692090710696eee51",
"cone_f64_8x9|ydesc": "20:fac754bbc39f3b55c8b4f227",
"docstring": "1:da9a68ae5cbe3224a6b86424",
"error|both": "1:1a5e7d028e8f4c3e1e2fb541",
"error|type": "1:52a8b73aad0fa6ea1b9a13ef",
"error|x_high": "1:c703847772d77cd89de729eb",
"error|x_low": "1:d8eae6cb21b8230d85e727b9",
"error|y_high": "1:b417ed92476161657ffcf58e",
"error|y_low": "1:8c47f2c2db562e119624f807",
"flat_f64_5x5|intcoord": "20:52eb29c18ae32d7095d92966",
"flat_f64_5x5|nonsq": "20:83d2d48359dc52c85d3cec6f",
"flat_f64_5x5|offgrid": "1:f73b9c7d6c6c5fd8e46205c4",
"flat_f64_5x5|unit": "20:7416088a3a95284bf8bff867",
"flat_f64_5x5|ydesc": "20:0def8fca43c2d382bbc983eb",
"nan_f32_5x7|intcoord": "20:2753b1e12fa7ede40ca4dff8",
"nan_f32_5x7|nonsq": "20:6fd138996dae2429e3b4680f",
"nan_f32_5x7|offgrid": "1:9e20ab30ed6f392aa42f0a88",
"nan_f32_5x7|unit": "20:5b1280df767b0f4c8f1319b4",
"nan_f32_5x7|ydesc": "20:fa807bc7bdd7c84bdd27a19d",
"nan_f64_6x6|intcoord": "20:bef5b1aa0685b3278d7a0496",
"nan_f64_6x6|nonsq": "20:399a6c69d0a0a6953b23cffb",
"nan_f64_6x6|offgrid": "1:3568b6ab48d30480f2c7682a",
"nan_f64_6x6|unit": "20:f7bfb26960bb5311f290eaf0",
"nan_f64_6x6|ydesc": "20:bd6abb2c8f78bbe3779df5e3",
"plateau_f32_6x7|intcoord": "20:ebde27d4dd3f8f7c6ae4c9a6",
"plateau_f32_6x7|nonsq": "20:aa5d2fc05344009619f494ca",
"plateau_f32_6x7|offgrid": "1:7f6fe5218cfa8d4cfbb1260d",
"plateau_f32_6x7|unit": "20:dd0a93faaeac90626d1cab7d",
"plateau_f32_6x7|ydesc": "20:8a19dca7754c07d3081866f1",
"rand_f32_5x6|intcoord": "20:0c18f3b788bb7e03f6739806",
"rand_f32_5x6|nonsq": "20:026d12ccfb8fa11478607524",
"rand_f32_5x6|offgrid": "1:284ce4dcadf95aca24645302",
"rand_f32_5x6|unit": "20:16dace32f2d0c1cba69ed3b0",
"rand_f32_5x6|ydesc": "20:0c83c280187454eb20436033",
"rand_f64_2x2|intcoord": "4:8ab3bcdb0c7111623348bfe6",
"rand_f64_2x2|nonsq": "4:d45313b2efbced57f6478ad0",
"rand_f64_2x2|offgrid": "1:b98fb97aaba68ed3c15da4fd",
"rand_f64_2x2|unit": "16:2cabcf086236664698c31d54",
"rand_f64_2x2|ydesc": "4:0ad9093a3a67b039e45e2c47",
"rand_f64_2x5|intcoord": "10:a4a3ada99ce581facb2b0a52",
"rand_f64_2x5|nonsq": "10:8d21ef16c0dd0c11902f403e",
"rand_f64_2x5|offgrid": "1:3b99c745cc49934968b43c3e",
"rand_f64_2x5|unit": "40:a917d42dbea16f03a7025a62",
"rand_f64_2x5|ydesc": "10:e99e12595b4f54792171e81f",
"rand_f64_3x3|intcoord": "9:cd41233e69a3f0f4b9b88913",
"rand_f64_3x3|nonsq": "9:65898fabb64e167eaa57398f",
"rand_f64_3x3|offgrid": "1:c852032d6b6bb9674e06acba",
"rand_f64_3x3|unit": "36:efb2be26d3fe03a4c646863e",
"rand_f64_3x3|ydesc": "9:51722eca6d4c93039f5c3bbf",
"rand_f64_4x5|intcoord": "20:94696cd26ddf931b5b9bb9b3",
"rand_f64_4x5|nonsq": "20:f010726de14cb7d29a60b459",
"rand_f64_4x5|offgrid": "1:da62e483f1015e035f603865",
"rand_f64_4x5|unit": "80:f5925a996e2e068ebb4c25d2",
"rand_f64_4x5|ydesc": "20:d3f62d331d555d5924abd17d",
"rand_f64_5x2|intcoord": "10:34b9c773facb45550cb89594",
"rand_f64_5x2|nonsq": "10:61d1b81ecd083143d952285a",
"rand_f64_5x2|offgrid": "1:dfe88d25bc00459daa916af7",
"rand_f64_5x2|unit": "40:6216c865b806d436366b2375",
"rand_f64_5x2|ydesc": "10:5f7850aa8a3741e56415e9e7",
"rand_f64_6x6|intcoord": "20:d750eb9ab6ee420111796394",
"rand_f64_6x6|nonsq": "20:56626e8e470900deca4c9d39",
"rand_f64_6x6|offgrid": "1:3a9ef709e3bc8c6ae8268e69",
"rand_f64_6x6|unit": "20:3e7aafd6940d77a32ae1787f",
"rand_f64_6x6|ydesc": "20:3d3835a4ec8fb282aa209595",
"rand_f64_7x4|intcoord": "20:4ae8d6923b215542f3dc792a",
"rand_f64_7x4|nonsq": "20:b7f2d6a8f4059fca34d94435",
"rand_f64_7x4|offgrid": "1:1213ec7c3161fb7e9e3ded7b",
"rand_f64_7x4|unit": "20:a4eb479dbfbc4c1cc4601962",
"rand_f64_7x4|ydesc": "20:fa4c9d544e53a1dc6130e1e1",
"rand_f64_9x11|intcoord": "20:1d7ce743a79252e8350d01ff",
"rand_f64_9x11|nonsq": "20:b5bf2a13871ac859b09faaa5",
"rand_f64_9x11|offgrid": "1:141ed6ab6f89b9f8e6bcca11",
"rand_f64_9x11|unit": "20:d78b5250a2da92c9f1c6259b",
"rand_f64_9x11|ydesc": "20:66c96c3b821e2119e1c34785",
"rand_i16_8x3|intcoord": "20:f37149d9141716ca9741515d",
"rand_i16_8x3|nonsq": "20:f70ca0dc9dd3e6138c7fc322",
"rand_i16_8x3|offgrid": "1:687f7ae1f30723886aea69ac",
"rand_i16_8x3|unit": "20:a7dded289abf2a893aac2ec2",
"rand_i16_8x3|ydesc": "20:1e0383ac2853465fe3786d64",
"rand_i32_6x5|intcoord": "20:ba98a8326f52b9fa368eb19b",
"rand_i32_6x5|nonsq": "20:bdc119379352f90181edc2fc",
"rand_i32_6x5|offgrid": "1:60499ff200766946f1a92f77",
"rand_i32_6x5|unit": "20:fd84241d1e9410478b89cb31",
"rand_i32_6x5|ydesc": "20:edfe0f6b33860c23c3358c6c",
"rand_u8_4x7|intcoord": "20:6aadd9e21d8692d3629491ac",
"rand_u8_4x7|nonsq": "20:6899f867d4b0d34a2369eeaf",
"rand_u8_4x7|offgrid": "1:fd0785681e5b6c65d9e17abc",
"rand_u8_4x7|unit": "20:bb83ef71f4d007ba50afe396",
"rand_u8_4x7|ydesc": "20:c4d35f383ad71d726c879829",
"ridge_f64_7x9|intcoord": "20:518ef839c4ee4b085651587a",
"ridge_f64_7x9|nonsq": "20:31dc53a6d1e559af4d817031",
"ridge_f64_7x9|offgrid": "1:ff484750f2a3d95b4afb6e5c",
"ridge_f64_7x9|unit": "20:478372552d2de63331e0f7ac",
"ridge_f64_7x9|ydesc": "20:526fe3e80a6e3ee6a086f67e",
"ties_i64_2x2|intcoord": "4:0655ba22543d91703040a86d",
"ties_i64_2x2|nonsq": "4:7d96fbd2979355c45161d0d5",
"ties_i64_2x2|offgrid": "1:c1e2c913679c9f918ef77323",
"ties_i64_2x2|unit": "16:376f838e88d61e96d664b576",
"ties_i64_2x2|ydesc": "4:f952e3afd19141bca5a62a0a",
"ties_i64_2x5|intcoord": "10:4c04968a4db30001e5f37622",
"ties_i64_2x5|nonsq": "10:83da2a69fef33f121ec53417",
"ties_i64_2x5|offgrid": "1:9637bbc98f2322a4eb61dff8",
"ties_i64_2x5|unit": "40:9e7c7d47ac5a7f355b254e91",
"ties_i64_2x5|ydesc": "10:bf97f9d86793e8b6a1df65be",
"ties_i64_3x3|intcoord": "9:5043d53a126dcb5ad49bf74e",
"ties_i64_3x3|nonsq": "9:ead157ff77c52434a28e2bd0",
"ties_i64_3x3|offgrid": "1:1aa571a0782c2419e394b05c",
"ties_i64_3x3|unit": "36:121f810fc7dda80176d3aa76",
"ties_i64_3x3|ydesc": "9:aec5b5c368c500878bbad271",
"ties_i64_4x5|intcoord": "20:4d264a3a37cad6755e4c9ce6",
"ties_i64_4x5|nonsq": "20:f8b88400d1e30beebe714a14",
"ties_i64_4x5|offgrid": "1:10b34cc63be7de94f1f0603c",
"ties_i64_4x5|unit": "80:457ac0294bcd5ee92965a161",
"ties_i64_4x5|ydesc": "20:ec677899956c9219b7eb5e2c",
"ties_i64_5x2|intcoord": "10:81c8d6d2eb00f60412ee0069",
"ties_i64_5x2|nonsq": "10:de56ec25bc46defd68f4e7bf",
"ties_i64_5x2|offgrid": "1:2957a5ae853ad7e1d4ff478b",
"ties_i64_5x2|unit": "40:ca73736295e1217f50bc6c51",
"ties_i64_5x2|ydesc": "10:8203ba36837bcce021010bdd",
"ties_i64_6x6|intcoord": "20:9af66403e9a7afeb3304a573",
"ties_i64_6x6|nonsq": "20:b5123d2f7765890c7247acb0",
"ties_i64_6x6|offgrid": "1:da59340e51693b6bbae86c6b",
"ties_i64_6x6|unit": "20:141b6705ea1460f3a9c76351",
"ties_i64_6x6|ydesc": "20:8c75b6a9fd4d63b74a528cad",
"ties_i64_7x4|intcoord": "20:03f1d5546e421d3bd1d6e402",
"ties_i64_7x4|nonsq": "20:f9fc80ebd6d7ca27ca2b7335",
"ties_i64_7x4|offgrid": "1:be8cc0e2bc0bd2ee234980ae",
"ties_i64_7x4|unit": "20:bd37090c7885f139b75be26e",
"ties_i64_7x4|ydesc": "20:ac1ddbafcffaaa448cbfccd9",
"ties_i64_9x11|intcoord": "20:e576c8f5f367c528a9c42b9e",
"ties_i64_9x11|nonsq": "20:55b6ed2836ade8a5f805b1fa",
"ties_i64_9x11|offgrid": "1:58e5303955ee9edaab56df6c",
"ties_i64_9x11|unit": "20:265ea192911a35c4e0f958b2",
"ties_i64_9x11|ydesc": "20:6e47678affe0e6f92ef912d2",
"tiny_f64_5x4|intcoord": "20:018f8b7a830197187145bab4",
"tiny_f64_5x4|nonsq": "20:4f96f5f96aabc7e4d33eda40",
"tiny_f64_5x4|offgrid": "1:d438551fe3dfd1e7127ac6b2",
"tiny_f64_5x4|unit": "80:b4b69b215b3f07a9e662d541",
"tiny_f64_5x4|ydesc": "20:7fe2dba32242e084e4640d33"
}""") if not RECORD else {}


def digest(arr):
    arr = np.ascontiguousarray(arr)
    h = hashlib.sha256()
    h.update(str(arr.dtype).encode())
    h.update(str(arr.shape).encode())
    h.update(arr.tobytes())
    return h.hexdigest()[:20]


def make_raster(data, xs, ys, attrs=None):
    r = xr.DataArray(data.copy(), dims=["y", "x"], attrs=attrs or {"res": 1, "k": "v"})
    r["y"] = ys
    r["x"] = xs
    return r


def terrains():
    rng = np.random.RandomState(20251003)
    out = []
    shapes = [(2, 2), (2, 5), (3, 3), (5, 2), (4, 5), (7, 4), (6, 6), (9, 11)]
    for (h, w) in shapes:
        out.append(("rand_f64_%dx%d" % (h, w), rng.uniform(-5, 20, (h, w))))
        out.append(("ties_i64_%dx%d" % (h, w), rng.randint(0, 3, (h, w)).astype(np.int64)))
    out.append(("flat_f64_5x5", np.zeros((5, 5))))
    out.append(("plateau_f32_6x7", np.repeat(np.repeat(
        rng.randint(0, 4, (3, 4)), 2, axis=0), 2, axis=1)[:, :7].astype(np.float32)))
    out.append(("rand_f32_5x6", rng.uniform(0, 100, (5, 6)).astype(np.float32)))
    out.append(("rand_i32_6x5", rng.randint(-50, 50, (6, 5)).astype(np.int32)))
    out.append(("rand_u8_4x7", rng.randint(0, 255, (4, 7)).astype(np.uint8)))
    out.append(("rand_i16_8x3", rng.randint(-300, 300, (8, 3)).astype(np.int16)))
    out.append(("bigvals_f64_5x5", rng.uniform(-1e6, 1e6, (5, 5))))
    out.append(("tiny_f64_5x4", rng.uniform(-1e-9, 1e-9, (5, 4))))
    ridge = np.zeros((7, 9))
    ridge[:, 4] = 5.0
    ridge[3, 4] = 0.0
    out.append(("ridge_f64_7x9", ridge))
    cone = -np.hypot(*np.meshgrid(np.arange(9) - 4.0, np.arange(8) - 3.0))
    out.append(("cone_f64_8x9", cone))
    nan1 = rng.uniform(0, 10, (6, 6))
    nan1[1, 2] = np.nan
    nan1[4, 4] = np.nan
    nan1[0, 0] = np.nan
    out.append(("nan_f64_6x6", nan1))
    nan2 = rng.uniform(0, 10, (5, 7)).astype(np.float32)
    nan2[2, :3] = np.nan
    out.append(("nan_f32_5x7", nan2))
    return out


def coord_sets(h, w):
    # (label, xs, ys)
    return [
        ("unit", np.arange(w, dtype=np.float64), np.arange(h, dtype=np.float64)),
        ("nonsq", np.linspace(10.0, 10.0 + 2.5 * (w - 1), w),
         np.linspace(-3.0, -3.0 + 0.75 * (h - 1), h)),
        ("ydesc", np.linspace(0.0, 30.0 * (w - 1), w),
         np.linspace(10.0 * (h - 1), 0.0, h)),
        ("intcoord", np.arange(1, w + 1, dtype=np.int64),
         np.arange(1, h + 1, dtype=np.int64)),
    ]


HEIGHTS = [(0, 0), (1.5, 0), (-2.0, 0), (10, 3), (0, 0.7), (0.25, -1.0), (-0.5, 2)]


def cases():
    for name, data in terrains():
        h, w = data.shape
        small = h * w <= 20
        csets = coord_sets(h, w)
        for ci, (clabel, xs, ys) in enumerate(csets):
            if small:
                cells = [(r, c) for r in range(h) for c in range(w)]
            else:
                cells = sorted(set([(0, 0), (0, w - 1), (h - 1, 0), (h - 1, w - 1),
                                    (0, w // 2), (h // 2, 0), (h - 1, w // 3),
                                    (h // 2, w - 1), (h // 2, w // 2),
                                    (h // 3, (2 * w) // 3)]))
            for k, (r, c) in enumerate(cells):
                if small and ci > 0:
                    hs = [HEIGHTS[(k + ci) % len(HEIGHTS)]]
                elif small:
                    hs = HEIGHTS[:4]
                else:
                    hs = [HEIGHTS[(k + j + ci) % len(HEIGHTS)] for j in range(2)]
                for (oe, te) in hs:
                    yield ("%s|%s|r%dc%d|o%s|t%s" % (name, clabel, r, c, oe, te),
                           data, xs, ys, r, c, oe, te, 0.0, 0.0)
        # observer given off-grid: nearest cell must be selected
        xs, ys = csets[1][1], csets[1][2]
        yield ("%s|offgrid" % name, data, xs, ys, h // 2, w // 2, 1.0, 0.5,
               0.3 * (xs[1] - xs[0]), -0.3 * (ys[1] - ys[0]))


def model_check(label, data, xs, ys, r, c, oe, te, out):
    """Independent check of the output encoding."""
    errs = []
    o = out.values
    if o.dtype != np.float64:
        errs.append("dtype %s" % o.dtype)
    if o[r, c] != 180:
        errs.append("observer cell %r" % o[r, c])
    d = data.astype(np.float64)
    h, w = d.shape
    ew = (float(xs[-1]) - float(xs[0])) / (w - 1)
    ns = (float(ys[-1]) - float(ys[0])) / (h - 1)
    vp = float(data[r, c]) + oe
    tgt = te if te > 0 else 0.0
    for i in range(h):
        for j in range(w):
            if (i, j) == (r, c):
                continue
            v = o[i, j]
            if v == -1:
                continue
            if np.isnan(d[i, j]) or np.isnan(vp):
                continue
            dist = math.hypot((j - c) * ew, (i - r) * ns)
            ang = 90.0 + math.degrees(math.atan2((d[i, j] + tgt) - vp, dist))
            if not (0 <= v <= 180) or abs(v - ang) > 1e-9:
                errs.append("cell (%d,%d) holds %r, vertical angle %r" % (i, j, v, ang))
    return errs


def run_case(label, data, xs, ys, r, c, oe, te, dx, dy):
    raster = make_raster(data, xs, ys)
    coords_before = {k: v.values.copy() for k, v in raster.coords.items()}
    out = viewshed(raster, x=xs[c] + dx, y=ys[r] + dy, observer_elev=oe, target_elev=te)
    errs = []
    if not isinstance(out, xr.DataArray) or not isinstance(out.data, np.ndarray):
        errs.append("result type")
    if out.dims != raster.dims or out.attrs != raster.attrs or out.name is not None:
        errs.append("dims/attrs/name")
    for k, v in coords_before.items():
        if k not in out.coords or not np.array_equal(out.coords[k].values, v) \
                or out.coords[k].dtype != v.dtype:
            errs.append("coord %s" % k)
    # documented side effect of the numpy path: input values become float64
    if raster.dtype != np.float64 or not np.array_equal(
            raster.values, data.astype(np.float64), equal_nan=True):
        errs.append("input raster after the call: %s" % raster.dtype)
    errs += model_check(label, data, xs, ys, r, c, oe, te, out)
    return digest(out.values), errs


def error_cases():
    """Validation behaviour (exception type + message) must be unchanged."""
    res = {}
    data = np.arange(12, dtype=np.int32).reshape(3, 4)
    xs = np.arange(4.0)
    ys = np.arange(3.0)
    for lab, kw in [("x_low", dict(x=-0.5, y=1)), ("x_high", dict(x=3.01, y=1)),
                    ("y_low", dict(x=1, y=-1e-9)), ("y_high", dict(x=1, y=5)),
                    ("both", dict(x=9, y=9))]:
        raster = make_raster(data, xs, ys)
        try:
            viewshed(raster, **kw)
            res[lab] = "no error"
        except Exception as e:  # noqa
            res[lab] = "%s:%s|dtype_after=%s" % (type(e).__name__, e, raster.dtype)
    try:
        viewshed(_FakeRaster(), 0, 0)
        res["type"] = "no error"
    except Exception as e:  # noqa
        res["type"] = "%s:%s" % (type(e).__name__, e)
    return res


class _FakeRaster:
    data = [[1, 2], [3, 4]]


def group(got):
    """Fold the per-case digests into one digest per terrain/coordinate set."""
    groups = {}
    for label in sorted(got):
        parts = label.split("|")
        key = "|".join(parts[:2])
        groups.setdefault(key, []).append("%s=%s" % (label, got[label]))
    return {k: "%d:%s" % (len(v), hashlib.sha256("\n".join(v).encode()).hexdigest()[:24])
            for k, v in groups.items()}


def main():
    if "/tmp/t5/TC05" not in os.path.abspath(xrspatial.__file__):
        print("WARNING: xrspatial imported from", xrspatial.__file__)
    got = {}
    failures = []
    n = 0
    for case in cases():
        label = case[0]
        try:
            dg, errs = run_case(*case)
        except Exception as e:  # noqa
            dg, errs = "EXC:%s:%s" % (type(e).__name__, e), []
        got[label] = dg
        n += 1
        for e in errs:
            failures.append("%s: model check: %s" % (label, e))
    for k, v in error_cases().items():
        got["error|" + k] = v
    # docstring example, values spelled out
    data = np.array([[0, 0, 1, 0, 0], [1, 3, 0, 0, 0], [10, 2, 5, 2, -1], [11, 1, 2, 9, 0]])
    terrain = make_raster(data, np.linspace(1, 5, 5), np.linspace(1, 4, 4))
    doc = viewshed(terrain, x=3, y=2).values
    doc_expected = np.array(
        [[-1., 90., 135., 90., -1.],
         [-1., 161.56505118, 180., 90., 90.],
         [167.39561735, 144.73561032, 168.69006753, 144.73561032, -1.],
         [165.57993189, -1., -1., 166.0472636, -1.]])
    if not np.allclose(doc, doc_expected, rtol=0, atol=1e-8):
        failures.append("docstring example differs:\n%r" % doc)
    got["docstring"] = digest(doc)

    if RECORD:
        print(json.dumps(group(got), indent=0, sort_keys=True))
        return 0 if not failures else 1

    n_valid = len(got) - n - 1
    got = group(got)
    for k in sorted(set(got) | set(EXPECTED)):
        if got.get(k) != EXPECTED.get(k):
            failures.append("%s: got %r expected %r" % (k, got.get(k), EXPECTED.get(k)))
    print("xrspatial from", os.path.dirname(xrspatial.__file__))
    print("%d viewshed cases + %d validation cases compared" % (n, n_valid))
    if failures:
        print("MISMATCH (%d):" % len(failures))
        for f in failures[:40]:
            print("  ", f)
        return 1
    print("OK: all results bit-identical to the recorded baseline")
    return 0


if __name__ == "__main__":
    sys.exit(main())
