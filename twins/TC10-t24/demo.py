"""Demo for C10 refactoring of xrspatial.classify (_cpu_bin / _find_bin).

Compares reclassify() and binary() with brute-force oracles on unusual inputs
and checks that inputs are left untouched and identity (dims/coords/attrs/backend)
is kept.
"""
import sys
import numpy as np
import xarray as xr
import dask.array as da

from xrspatial.classify import reclassify, binary

fails = []


def check(cond, msg):
    if not cond:
        fails.append(msg)
        print("FAIL:", msg)


def oracle_reclassify(data, bins, new_values):
    out = np.full(data.shape, np.nan, dtype=np.float32)
    for idx in np.ndindex(*data.shape):
        v = data[idx]
        if not np.isfinite(v):
            continue
        for i, b in enumerate(bins):       # first bin whose upper edge holds v
            if v <= b:
                out[idx] = np.float32(new_values[i])
                break
    return out


def oracle_binary(data, values):
    out = np.zeros(data.shape, dtype=data.dtype)
    isfloat = np.issubdtype(data.dtype, np.floating)
    for idx in np.ndindex(*data.shape):
        v = data[idx]
        if any(v == w for w in values):
            out[idx] = 1
        elif np.isfinite(v):
            out[idx] = 0
        elif isfloat:
            out[idx] = np.nan
    return out


def same(a, b):
    return a.dtype == b.dtype and a.shape == b.shape and np.array_equal(a, b, equal_nan=True)


def make_agg(arr, chunks=None):
    h, w = arr.shape
    data = arr if chunks is None else da.from_array(arr, chunks=chunks)
    return xr.DataArray(
        data, dims=['lat', 'lon'],
        coords={'lat': np.linspace(10, 20, h), 'lon': np.linspace(-5, 5, w), 'band': 7},
        attrs={'res': (0.5, 0.5), 'crs': 'EPSG:4326', 'nested': {'a': [1, 2]}},
        name='src')


def run_case(label, arr, bins, new_values, bin_values, chunks=None):
    agg = make_agg(arr, chunks)
    before = np.array(arr, copy=True)
    coords_before = {k: np.array(v.values, copy=True) for k, v in agg.coords.items()}
    attrs_before = dict(agg.attrs)
    bins_before = list(bins)
    nv_before = list(new_values)

    for fname, res, exp in (
        ('reclassify', reclassify(agg, bins=bins, new_values=new_values),
         oracle_reclassify(before, bins, new_values)),
        ('binary', binary(agg, bin_values), oracle_binary(before, bin_values)),
    ):
        tag = "%s/%s" % (label, fname)
        check(isinstance(res.data, da.Array) == (chunks is not None), tag + " backend kept")
        got = np.asarray(res.data.compute() if chunks is not None else res.data)
        check(same(got, exp), tag + " values/dtype match oracle")
        check(res.dims == agg.dims and res.shape == agg.shape, tag + " dims/shape")
        check(set(res.coords) == set(agg.coords), tag + " coord names (scalar incl.)")
        for k in agg.coords:
            check(np.array_equal(res.coords[k].values, coords_before[k]), tag + " coord " + k)
        check(res.attrs == attrs_before, tag + " attrs")
        # input untouched
        check(np.array_equal(arr, before, equal_nan=True), tag + " input values untouched")
        check(agg.attrs == attrs_before, tag + " input attrs untouched")
        check(list(bins) == bins_before and list(new_values) == nv_before, tag + " bins untouched")
        # no shared writable memory
        if chunks is None:
            check(not np.shares_memory(res.data, arr), tag + " no shared memory")
            if res.data.flags.writeable:
                res.data[...] = 99
                check(np.array_equal(arr, before, equal_nan=True), tag + " write to output leaks")


rng = np.random.RandomState(42)

# 1. float64, non-square, NaN/inf, ties exactly on the bin edges, values outside all bins
a = rng.uniform(-5, 25, size=(7, 13))
a[0, 0] = np.nan; a[1, 2] = np.inf; a[2, 3] = -np.inf
a[3, :5] = [0., 5., 10., 15., 20.]          # ties with edges
a[4, :3] = [20.0000001, -1e300, 1e300]
bins = [0, 5, 10, 15, 20]
newv = [1, 2, 3, 4, 5]
run_case("f64", a, bins, newv, [5., 10., 99.])
run_case("f64-dask", a.copy(), bins, newv, [5., 10., 99.], chunks=(3, 4))

# 2. float32 Fortran order, single bin, two bins, non-integer new values
b = np.asfortranarray(rng.uniform(0, 4, size=(5, 3)).astype(np.float32))
b[1, 1] = np.nan; b[0, 2] = 2.0
run_case("f32-F-1bin", b, [2], [7.5], [2.0])
run_case("f32-F-2bin", b.copy(order='F'), [1, 2], [-3.25, 1e10], [2.0])

# 3. non-contiguous view
base = rng.uniform(-3, 12, size=(12, 10))
view = base[::2, 1::3]
run_case("f64-view", view, [-1, 0, 2.5, 7, 11], [10, 20, 30, 40, 50], [view[0, 0]])

# 4. read-only input
ro = rng.uniform(0, 10, size=(4, 9)); ro[2, 2] = np.nan
ro.setflags(write=False)
run_case("f64-readonly", ro, [3, 6, 9], [0, 1, 2], [ro[0, 1], ro[3, 8]])

# 5. integer dtypes, with ties and many equal cells
for dt in (np.int8, np.int16, np.int32, np.int64, np.uint8, np.uint16, np.uint32):
    lo = -20 if np.issubdtype(dt, np.signedinteger) else 0
    c = rng.randint(lo, 40, size=(3, 11)).astype(dt)
    c[0, :4] = [0, 10, 20, 30]
    run_case(np.dtype(dt).name, c, [0, 10, 20, 30], [4, 3, 2, 1], [10, 30, 39])
    run_case(np.dtype(dt).name + "-dask", c.copy(), [0, 10, 20, 30], [4, 3, 2, 1], [10, 30, 39],
             chunks=(2, 5))

# 6. one row / one column / all NaN, many bins (odd and even count)
many = list(np.arange(-10, 11, 1.5))
run_case("1row", rng.uniform(-12, 12, size=(1, 17)), many, list(range(len(many))), [0.])
run_case("1col", rng.uniform(-12, 12, size=(17, 1)), many[:-1], list(range(len(many) - 1)), [0.])
run_case("allnan", np.full((2, 5), np.nan), [1, 2, 3], [1, 2, 3], [1.])

if fails:
    print("%d check(s) failed" % len(fails))
    sys.exit(1)
print("all checks passed")
sys.exit(0)
