"""Differential test for perlin / generate_terrain (C11).

Run from inside the worktree:
    cd /tmp/t3/TC11 && PYTHONPATH=/tmp/t3/TC11 /venv/bin/python <this file>
Digests in EXPECTED were recorded on the unmodified tree (``--record``).  Besides the
values, the digest covers dtype, shape, output coords/attrs and the state np.random is
left in after the call (the library seeds the global generator).  Independent checks:
seeded generators are pure functions of (seed, shape, extent): results do not depend on
the template values, on call order / the position of the global RNG, on the dask chunking
or on the number of dask worker threads; numpy and dask agree to float tolerance.
"""
import hashlib
import json
import sys

import dask
import dask.array as da
import numpy as np
import xarray as xr

import xrspatial
from xrspatial import generate_terrain, perlin

assert xrspatial.__file__.startswith('/tmp/t3/TC11/'), xrspatial.__file__


def digest(res, with_rng=True):
    data = res.data
    meta_dtype = str(data.dtype)
    if isinstance(data, da.Array):
        data = data.compute()
    a = np.asarray(data)
    h = hashlib.sha256()
    h.update(meta_dtype.encode())
    h.update(str(a.dtype).encode())
    h.update(str(a.shape).encode())
    h.update(np.ascontiguousarray(a).tobytes())
    h.update(repr(res.dims).encode())
    h.update(repr(res.name).encode())
    h.update(repr(sorted(res.attrs.items())).encode())
    for c in res.coords:
        h.update(c.encode())
        h.update(np.asarray(res[c].data, dtype=np.float64).tobytes())
    if with_rng:
        st = np.random.get_state()
        h.update(np.asarray(st[1]).tobytes())
        h.update(str(st[2]).encode())
    return h.hexdigest()[:20]


def template(shape, dtype, backend, chunks=None, fill=0):
    if backend == 'numpy':
        data = np.full(shape, fill, dtype=dtype)
    else:
        data = da.full(shape, fill, dtype=dtype, chunks=chunks)
    return xr.DataArray(data, dims=['y', 'x'], attrs={'a': 1})


SHAPES = [((2, 2), (1, 2)), ((3, 4), (2, 3)), ((7, 5), (7, 2)), ((16, 9), (5, 4)),
          ((1, 6), (1, 4))]
DTYPES = [np.float64, np.float32, np.int32, np.uint8]

PERLIN_PARAMS = [dict(), dict(seed=0), dict(freq=(3, 2), seed=11), dict(freq=(0.5, 7.25), seed=5,
                                                                        name='n')]
TERRAIN_PARAMS = [
    dict(),
    dict(seed=3, zfactor=10),
    dict(x_range=(-20e6, 20e6), y_range=(-10e6, 20e6), seed=2, zfactor=100),
    dict(x_range=(100, 250), y_range=(0, 125), full_extent=(0, 0, 500, 500), seed=10),
    dict(x_range=(100, 250), y_range=(0, 125), full_extent=[-50, -10, 700, 900], seed=7,
         zfactor=1, name='t'),
]


def run_all():
    out = {}
    np.seterr(all='ignore')
    k = 0
    for shape, chunks in SHAPES:
        for dtype in DTYPES:
            k += 1
            for backend in ('numpy', 'dask'):
                tag = '%dx%d/%s/%s' % (shape[0], shape[1], np.dtype(dtype).name, backend)
                pp = PERLIN_PARAMS[k % len(PERLIN_PARAMS)]
                t = template(shape, dtype, backend, chunks)
                res = perlin(t, **pp)
                assert type(res.data) is type(t.data)
                out['perlin/%s/%d' % (tag, k % len(PERLIN_PARAMS))] = digest(res)
                if shape[0] > 1:
                    for j in (k % len(TERRAIN_PARAMS), (k + 2) % len(TERRAIN_PARAMS)):
                        t = template(shape, dtype, backend, chunks)
                        res = generate_terrain(t, **TERRAIN_PARAMS[j])
                        assert type(res.data) is type(t.data)
                        out['terrain/%s/%d' % (tag, j)] = digest(res)
    # all parameter sets on one float template, both backends
    for backend in ('numpy', 'dask'):
        for j, pp in enumerate(PERLIN_PARAMS):
            t = template((9, 14), np.float64, backend, (4, 5))
            out['perlin/all/%s/%d' % (backend, j)] = digest(perlin(t, **pp))
        for j, tp in enumerate(TERRAIN_PARAMS):
            t = template((9, 14), np.float64, backend, (4, 5))
            out['terrain/all/%s/%d' % (backend, j)] = digest(generate_terrain(t, **tp))

    # --- independent checks (no recorded values needed) -------------------------------
    # template values are irrelevant, the input is not modified
    t0 = template((9, 14), np.float64, 'numpy')
    t5 = template((9, 14), np.float64, 'numpy', fill=5)
    for j, pp in enumerate(PERLIN_PARAMS):
        assert digest(perlin(t5, **pp)) == out['perlin/all/numpy/%d' % j]
    for j, tp in enumerate(TERRAIN_PARAMS):
        assert digest(generate_terrain(t5, **tp)) == out['terrain/all/numpy/%d' % j]
    assert np.all(t5.data == 5) and np.all(t0.data == 0)
    # call order / preceding calls / global RNG position are irrelevant
    for j in reversed(range(len(TERRAIN_PARAMS))):
        np.random.seed(1234 + j)
        np.random.rand(j + 1)
        assert digest(generate_terrain(t0, **TERRAIN_PARAMS[j])) == out['terrain/all/numpy/%d' % j]
        assert digest(perlin(t0, **PERLIN_PARAMS[j % 4])) == out['perlin/all/numpy/%d' % (j % 4)]
    # number of dask worker threads / scheduler is irrelevant
    for cfg in (dict(scheduler='synchronous'), dict(scheduler='threads', num_workers=1),
                dict(scheduler='threads', num_workers=7)):
        with dask.config.set(**cfg):
            t = template((9, 14), np.float64, 'dask', (4, 5))
            assert digest(perlin(t, **PERLIN_PARAMS[2])) == out['perlin/all/dask/2']
            t = template((9, 14), np.float64, 'dask', (4, 5))
            assert digest(generate_terrain(t, **TERRAIN_PARAMS[3])) == out['terrain/all/dask/3']
    # dask chunking is irrelevant
    t = template((9, 14), np.float64, 'dask', (9, 14))
    assert digest(generate_terrain(t, **TERRAIN_PARAMS[3])) == out['terrain/all/dask/3']
    t = template((9, 14), np.float64, 'dask', (2, 3))
    assert digest(perlin(t, **PERLIN_PARAMS[2])) == out['perlin/all/dask/2']
    # numpy and dask agree to float tolerance (float32 coordinates in both)
    a = generate_terrain(template((9, 14), np.float64, 'numpy'), **TERRAIN_PARAMS[2]).data
    b = generate_terrain(template((9, 14), np.float64, 'dask', (4, 5)),
                         **TERRAIN_PARAMS[2]).data.compute()
    np.testing.assert_allclose(a, b, rtol=1e-5, atol=1e-3)
    # bad full_extent is still rejected / handled identically
    for bad in ((0, 0, 1), 5):
        try:
            generate_terrain(t0, full_extent=bad)
            out['err/%r' % (bad,)] = 'no error'
        except Exception as e:  # noqa
            out['err/%r' % (bad,)] = type(e).__name__ + ':' + str(e)
    return out


EXPECTED = {'err/(0, 0, 1)': 'IndexError:tuple index out of range',
 'err/5': "TypeError:object of type 'int' has no len()",
 'perlin/16x9/float32/dask/2': 'a644152fcf6b9313eb28',
 'perlin/16x9/float32/numpy/2': '8044a690b6daff1bf5d1',
 'perlin/16x9/float64/dask/1': '4832c76120921247ab08',
 'perlin/16x9/float64/numpy/1': '73f9f973cc841a921cf5',
 'perlin/16x9/int32/dask/3': 'b78261aa7cd5ff0f5f9f',
 'perlin/16x9/int32/numpy/3': 'e3add3810feef7907b71',
 'perlin/16x9/uint8/dask/0': '992dd360f8dcc9346681',
 'perlin/16x9/uint8/numpy/0': '37e38ebd5f8f991923e4',
 'perlin/1x6/float32/dask/2': '918435c540f1f5522a50',
 'perlin/1x6/float32/numpy/2': '59bdd13ff37c275b00d8',
 'perlin/1x6/float64/dask/1': 'e7adfb3aa3a181da9b91',
 'perlin/1x6/float64/numpy/1': 'b9af1de873be92701936',
 'perlin/1x6/int32/dask/3': 'ddd651b80d2622cd6eac',
 'perlin/1x6/int32/numpy/3': 'e8ccd5b98577b0bbb4d2',
 'perlin/1x6/uint8/dask/0': 'd9f69a22bbc0b5d96454',
 'perlin/1x6/uint8/numpy/0': 'ada97ba654e835356c43',
 'perlin/2x2/float32/dask/2': '8f37a157daa299389c62',
 'perlin/2x2/float32/numpy/2': 'eace339d60cc55308783',
 'perlin/2x2/float64/dask/1': 'b4a0d68b5063aac05ed9',
 'perlin/2x2/float64/numpy/1': 'b6b18fae8394b5bb382e',
 'perlin/2x2/int32/dask/3': '9d8335ed8515a7b7f78f',
 'perlin/2x2/int32/numpy/3': 'bb1724a4a5cafab62c19',
 'perlin/2x2/uint8/dask/0': 'e71a2faed667a58eb09d',
 'perlin/2x2/uint8/numpy/0': '2be49014adba91c8a030',
 'perlin/3x4/float32/dask/2': '2ddf56f72e435bb17d72',
 'perlin/3x4/float32/numpy/2': '4ef0ffd7059eb71825cd',
 'perlin/3x4/float64/dask/1': 'dc71dfead2220a84a058',
 'perlin/3x4/float64/numpy/1': '42c12a3eb6462fb80974',
 'perlin/3x4/int32/dask/3': 'f6b2b8f6c25cf88d36b5',
 'perlin/3x4/int32/numpy/3': 'f982b63ca31ab3ec7095',
 'perlin/3x4/uint8/dask/0': '45eb5a54853deb0dd9cb',
 'perlin/3x4/uint8/numpy/0': '027a1e85cfa449250688',
 'perlin/7x5/float32/dask/2': '83327117219ccf1d7112',
 'perlin/7x5/float32/numpy/2': '24ca5d5aac4ad0ff9d93',
 'perlin/7x5/float64/dask/1': 'e61a5dc84e8f8affa52a',
 'perlin/7x5/float64/numpy/1': '551ae720f97f93f6bfa6',
 'perlin/7x5/int32/dask/3': '8a21f82d0687733634b7',
 'perlin/7x5/int32/numpy/3': '4cef2d7cbaae609e2f5b',
 'perlin/7x5/uint8/dask/0': '558b04fa37421a34f332',
 'perlin/7x5/uint8/numpy/0': '9034b34fd31e82fd52fa',
 'perlin/all/dask/0': '75ce4b0e048614457f9e',
 'perlin/all/dask/1': 'cfbbf54ba8d1a72c330a',
 'perlin/all/dask/2': 'b82f40c6b27ace6cfdae',
 'perlin/all/dask/3': 'd4d60f896b4a42af022e',
 'perlin/all/numpy/0': '556927183cdbe45c02e6',
 'perlin/all/numpy/1': 'dede43fc374e0513f117',
 'perlin/all/numpy/2': 'b347e2b1c481deca6004',
 'perlin/all/numpy/3': '142b2408d3a841169660',
 'terrain/16x9/float32/dask/1': 'a67ec069cb8c603b067c',
 'terrain/16x9/float32/dask/4': '612184cb5f8741461031',
 'terrain/16x9/float32/numpy/1': 'b6b4fd7eb9b693e4bc2b',
 'terrain/16x9/float32/numpy/4': '5f2dd79dba634454c72b',
 'terrain/16x9/float64/dask/0': '9bc35a8e7980e811bc81',
 'terrain/16x9/float64/dask/3': 'd70cdcf5dad2bc6d1545',
 'terrain/16x9/float64/numpy/0': '9bc35a8e7980e811bc81',
 'terrain/16x9/float64/numpy/3': 'd70cdcf5dad2bc6d1545',
 'terrain/16x9/int32/dask/0': '9bc35a8e7980e811bc81',
 'terrain/16x9/int32/dask/2': '6f52c8c5d3ce4faf8cae',
 'terrain/16x9/int32/numpy/0': '9bc35a8e7980e811bc81',
 'terrain/16x9/int32/numpy/2': '6f52c8c5d3ce4faf8cae',
 'terrain/16x9/uint8/dask/1': 'a67ec069cb8c603b067c',
 'terrain/16x9/uint8/dask/3': 'a06ccc647d36ed46253b',
 'terrain/16x9/uint8/numpy/1': 'b6b4fd7eb9b693e4bc2b',
 'terrain/16x9/uint8/numpy/3': '55b48a367059dc7ee48a',
 'terrain/2x2/float32/dask/2': 'c44854cee38b7f564549',
 'terrain/2x2/float32/dask/4': '305c8e3c33b463ec8e4d',
 'terrain/2x2/float32/numpy/2': 'c44854cee38b7f564549',
 'terrain/2x2/float32/numpy/4': 'db60d5df698efc860dbc',
 'terrain/2x2/float64/dask/1': 'cb18ecb62536d2067317',
 'terrain/2x2/float64/dask/3': '3b405fdd45b784a32c76',
 'terrain/2x2/float64/numpy/1': 'cb18ecb62536d2067317',
 'terrain/2x2/float64/numpy/3': '3b405fdd45b784a32c76',
 'terrain/2x2/int32/dask/0': 'a4f36a16059710b52ae2',
 'terrain/2x2/int32/dask/3': '3b405fdd45b784a32c76',
 'terrain/2x2/int32/numpy/0': 'a4f36a16059710b52ae2',
 'terrain/2x2/int32/numpy/3': '3b405fdd45b784a32c76',
 'terrain/2x2/uint8/dask/1': '0d9f463fd8f2009846f0',
 'terrain/2x2/uint8/dask/4': '305c8e3c33b463ec8e4d',
 'terrain/2x2/uint8/numpy/1': '0d9f463fd8f2009846f0',
 'terrain/2x2/uint8/numpy/4': 'db60d5df698efc860dbc',
 'terrain/3x4/float32/dask/1': '339d52a5fccc7f9b29e2',
 'terrain/3x4/float32/dask/3': 'c0bbe647c825c1dd836f',
 'terrain/3x4/float32/numpy/1': '14de4235ccd2eb11ab17',
 'terrain/3x4/float32/numpy/3': 'e731363dcd1198cc90e4',
 'terrain/3x4/float64/dask/0': '7895b08d710b9e6b21ab',
 'terrain/3x4/float64/dask/2': '2b3967f7d9d211320562',
 'terrain/3x4/float64/numpy/0': '7895b08d710b9e6b21ab',
 'terrain/3x4/float64/numpy/2': '2b3967f7d9d211320562',
 'terrain/3x4/int32/dask/2': '2b3967f7d9d211320562',
 'terrain/3x4/int32/dask/4': '03d44f495aa1f5f73b63',
 'terrain/3x4/int32/numpy/2': '2b3967f7d9d211320562',
 'terrain/3x4/int32/numpy/4': '03d44f495aa1f5f73b63',
 'terrain/3x4/uint8/dask/0': '3bf6c5b74ca24ca82afe',
 'terrain/3x4/uint8/dask/3': 'c0bbe647c825c1dd836f',
 'terrain/3x4/uint8/numpy/0': '7d0beb52963f4790ed61',
 'terrain/3x4/uint8/numpy/3': 'e731363dcd1198cc90e4',
 'terrain/7x5/float32/dask/0': 'dfa76ad033fec7a56ade',
 'terrain/7x5/float32/dask/2': '178edb40032ec6735580',
 'terrain/7x5/float32/numpy/0': '75be4d21b53236b7e91e',
 'terrain/7x5/float32/numpy/2': 'fa93cbf12a56b902a1f2',
 'terrain/7x5/float64/dask/1': '1646faed7b1641eb1089',
 'terrain/7x5/float64/dask/4': '61e82a8bb7f4c3ac472f',
 'terrain/7x5/float64/numpy/1': '1646faed7b1641eb1089',
 'terrain/7x5/float64/numpy/4': '61e82a8bb7f4c3ac472f',
 'terrain/7x5/int32/dask/1': '1646faed7b1641eb1089',
 'terrain/7x5/int32/dask/3': '0f0fb9829abdeb5bc79d',
 'terrain/7x5/int32/numpy/1': '1646faed7b1641eb1089',
 'terrain/7x5/int32/numpy/3': '0f0fb9829abdeb5bc79d',
 'terrain/7x5/uint8/dask/2': '178edb40032ec6735580',
 'terrain/7x5/uint8/dask/4': '1b5173a351b9ba9fa099',
 'terrain/7x5/uint8/numpy/2': 'fa93cbf12a56b902a1f2',
 'terrain/7x5/uint8/numpy/4': 'aecfbcd5efec9065492a',
 'terrain/all/dask/0': '4c068336d5b8ac0a2d71',
 'terrain/all/dask/1': '728fe5905f8752b031a4',
 'terrain/all/dask/2': 'af50f65e4d3977ba2e50',
 'terrain/all/dask/3': '057b27a91b82675bf654',
 'terrain/all/dask/4': '9c06e27de5b1eb286890',
 'terrain/all/numpy/0': '4c068336d5b8ac0a2d71',
 'terrain/all/numpy/1': '728fe5905f8752b031a4',
 'terrain/all/numpy/2': 'af50f65e4d3977ba2e50',
 'terrain/all/numpy/3': '057b27a91b82675bf654',
 'terrain/all/numpy/4': '9c06e27de5b1eb286890'}


if __name__ == '__main__':
    got = run_all()
    if '--record' in sys.argv:
        print(json.dumps(got, sort_keys=True))
        sys.exit(0)
    bad = [k for k in sorted(set(got) | set(EXPECTED)) if got.get(k) != EXPECTED.get(k)]
    if bad:
        print('MISMATCH in %d / %d cases, e.g. %s' % (len(bad), len(EXPECTED), bad[:10]))
        sys.exit(1)
    print('OK: %d cases identical' % len(got))
    sys.exit(0)
