"""Differential test for a_star_search (property C14).

Run from inside the worktree:
    cd /tmp/t3/TC14 && PYTHONPATH=/tmp/t3/TC14 /venv/bin/python /tmp/t3/out/TC14-tK/equiv.py

Two kinds of checks:
  (a) independent oracle: a pure-python Dijkstra gives the optimal goal cost;
      the returned image must be a valid chain from start (0) to goal, or be
      all-NaN when no route exists;
  (b) bit-exact digest of every output (values, dtype, shape, coords, attrs,
      warnings, exceptions) recorded from the UNMODIFIED tree.
Exit status 0 iff everything matches.  `--record` prints the digest.
"""
import hashlib
import heapq
import itertools
import math
import sys
import warnings

import numpy as np
import xarray as xr

import xrspatial
from xrspatial import a_star_search

EXPECTED_DIGEST = "4963335f02255973deeabc0caf0d8562d38e108b9bb1db55a63c86b5ffe395c3"
EXPECTED_NCASES = 14840

SQRT2 = math.sqrt(2.0)
N8 = [(-1, -1), (-1, 0), (-1, 1), (0, -1), (0, 1), (1, -1), (1, 0), (1, 1)]
N4 = [(-1, 0), (1, 0), (0, -1), (0, 1)]

failures = []
digest = hashlib.sha256()
ncases = 0


def crossable(v, barriers):
    if isinstance(v, (float, np.floating)) and math.isnan(v):
        return False
    return not any(v == b for b in barriers)


def dijkstra(data, s, g, barriers, conn):
    h, w = data.shape
    ok = [[crossable(data[i, j].item(), barriers) for j in range(w)]
          for i in range(h)]
    if not ok[s[0]][s[1]] or not ok[g[0]][g[1]]:
        return None
    nb = N8 if conn == 8 else N4
    dist = {s: 0.0}
    pq = [(0.0, s)]
    while pq:
        d, (i, j) = heapq.heappop(pq)
        if d > dist[(i, j)]:
            continue
        for di, dj in nb:
            a, b = i + di, j + dj
            if 0 <= a < h and 0 <= b < w and ok[a][b]:
                nd = d + (SQRT2 if di and dj else 1.0)
                if nd < dist.get((a, b), math.inf) - 1e-12:
                    dist[(a, b)] = nd
                    heapq.heappush(pq, (nd, (a, b)))
    return dist.get(g)


def nearest_crossable(data, p, barriers):
    # row-major first minimum of euclidean distance
    if crossable(data[p].item(), barriers):
        return p
    best, bd = None, math.inf
    h, w = data.shape
    for i in range(h):
        for j in range(w):
            if crossable(data[i, j].item(), barriers):
                d = math.sqrt((i - p[0]) ** 2 + (j - p[1]) ** 2)
                if d < bd:
                    bd, best = d, (i, j)
    return best


def check_chain(tag, data, out, s, g, barriers, conn):
    """out must be a valid optimal chain s->g or all NaN."""
    opt = None if (s is None or g is None) else dijkstra(data, s, g,
                                                          barriers, conn)
    cells = [tuple(c) for c in np.argwhere(~np.isnan(out))]
    if opt is None:
        if cells:
            failures.append((tag, "expected all-NaN", cells))
        return
    if not cells:
        failures.append((tag, "expected a path, got all-NaN"))
        return
    if out[s] != 0.0:
        failures.append((tag, "start value not 0", out[s]))
        return
    if abs(out[g] - opt) > 1e-9:
        failures.append((tag, "goal value not optimal", out[g], opt))
        return
    # walk the chain by increasing value
    order = sorted(cells, key=lambda c: out[c])
    if order[0] != s or order[-1] != g:
        failures.append((tag, "chain end points wrong", order))
        return
    for a, b in zip(order[:-1], order[1:]):
        di, dj = abs(a[0] - b[0]), abs(a[1] - b[1])
        if max(di, dj) != 1 or (conn == 4 and di + dj != 1):
            failures.append((tag, "non-neighbour step", a, b))
            return
        step = SQRT2 if di and dj else 1.0
        if abs(out[b] - out[a] - step) > 1e-9:
            failures.append((tag, "bad step length", a, b))
            return
    for c in cells:
        if not crossable(data[c].item(), barriers):
            failures.append((tag, "path enters barrier/NaN", c))
            return


def run(tag, surface, start, goal, barriers=None, conn=8, snap_start=False,
        snap_goal=False, x='x', y='y', oracle=None):
    """Call the library, feed everything observable into the digest."""
    global ncases
    ncases += 1
    digest.update(repr(tag).encode())
    kwargs = dict(x=x, y=y, connectivity=conn, snap_start=snap_start,
                  snap_goal=snap_goal)
    with warnings.catch_warnings(record=True) as rec:
        warnings.simplefilter("always")
        try:
            if barriers is None:
                res = a_star_search(surface, start, goal, **kwargs)
            else:
                res = a_star_search(surface, start, goal, barriers, **kwargs)
        except Exception as e:  # noqa
            digest.update(("EXC %s %s" % (type(e).__name__, e)).encode())
            if oracle is not None:
                failures.append((tag, "unexpected exception", repr(e)))
            return None
    msgs = [(w.category.__name__, str(w.message)) for w in rec
            if w.category is Warning or "crossable" in str(w.message)]
    digest.update(repr(msgs).encode())
    if not isinstance(res, xr.DataArray):
        failures.append((tag, "result is not a DataArray", type(res)))
        return None
    out = res.data
    if not isinstance(out, np.ndarray):
        failures.append((tag, "result data is not numpy", type(out)))
        return None
    digest.update(str(out.dtype).encode())
    digest.update(repr(out.shape).encode())
    digest.update(np.ascontiguousarray(out).tobytes())
    digest.update(repr(res.dims).encode())
    digest.update(repr(sorted(res.attrs.items())).encode())
    for d in res.dims:
        if d in res.coords:
            digest.update(np.asarray(res.coords[d].data).tobytes())
            if not np.array_equal(res.coords[d].data, surface.coords[d].data):
                failures.append((tag, "coords changed"))
    if out.dtype != np.float64 or out.shape != surface.shape:
        failures.append((tag, "dtype/shape", out.dtype, out.shape))
    if res.attrs != surface.attrs:
        failures.append((tag, "attrs changed"))
    if oracle is not None:
        s, g = oracle
        bl = [] if barriers is None else list(barriers)
        data = surface.data
        if snap_start:
            s = nearest_crossable(data, s, bl)
        if snap_goal:
            g = nearest_crossable(data, g, bl)
        check_chain(tag, data, out, s, g, bl, conn)
        # warnings: exactly when an end point is not crossable after snapping
        exp = []
        if s is None or not crossable(data[s].item(), bl):
            exp.append(("Warning", "Start at a non crossable location"))
        if g is None or not crossable(data[g].item(), bl):
            exp.append(("Warning", "End at a non crossable location"))
        if msgs != exp:
            failures.append((tag, "warnings differ", msgs, exp))
    return res


def make(data, ys=None, xs=None, dims=('y', 'x'), attrs=None):
    h, w = data.shape
    if ys is None:
        ys = np.arange(h, dtype=float)[::-1]
    if xs is None:
        xs = np.arange(w, dtype=float)
    return xr.DataArray(data, dims=list(dims),
                        coords={dims[0]: np.asarray(ys),
                                dims[1]: np.asarray(xs)},
                        attrs=attrs or {'unit': 'm', 'note': 'keep me'})


def coord_of(arr, cell):
    return (arr.coords[arr.dims[0]].data[cell[0]],
            arr.coords[arr.dims[1]].data[cell[1]])


# --------------------------------------------------------------------------
# 1. exhaustive: every barrier layout x every start/goal pair on 2x3 and 3x2,
#    connectivity 4/8, snap off; snapping on for every layout with a subset
# --------------------------------------------------------------------------
for (h, w) in [(2, 3), (3, 2)]:
    cells = [(i, j) for i in range(h) for j in range(w)]
    for bits in range(2 ** (h * w)):
        data = np.array([(bits >> k) & 1 for k in range(h * w)],
                        dtype=np.float64).reshape(h, w)
        arr = make(data)
        for s in cells:
            for g in cells:
                for conn in (4, 8):
                    run(("ex", h, w, bits, s, g, conn), arr, coord_of(arr, s),
                        coord_of(arr, g), [0], conn, oracle=(s, g))
        for s, g in [(cells[0], cells[-1]), (cells[2], cells[3])]:
            for ss, sg in [(True, True), (True, False), (False, True)]:
                run(("exsnap", h, w, bits, s, g, ss, sg), arr,
                    coord_of(arr, s), coord_of(arr, g), [0], 8, ss, sg,
                    oracle=(s, g))

# --------------------------------------------------------------------------
# 2. every 3x3 barrier layout, a few start/goal pairs, connectivity 4/8
#    (barrier value 1 this time, free cells 0, integer dtype)
# --------------------------------------------------------------------------
pairs33 = [((0, 0), (2, 2)), ((0, 2), (2, 0)), ((0, 1), (2, 1)),
           ((1, 1), (0, 0))]
for bits in range(512):
    data = np.array([(bits >> k) & 1 for k in range(9)],
                    dtype=np.int32).reshape(3, 3)
    arr = make(data, ys=[10.0, 20.0, 30.0], xs=[-3.0, -1.0, 1.0])
    for s, g in pairs33:
        for conn in (4, 8):
            run(("33", bits, s, g, conn), arr, coord_of(arr, s),
                coord_of(arr, g), [1], conn, oracle=(s, g))

# --------------------------------------------------------------------------
# 3. random surfaces: dtypes, NaNs, several barrier values, odd shapes,
#    ascending / descending / fractional-step coordinates with offsets,
#    points given off-centre (nearest centre), snapping on/off
# --------------------------------------------------------------------------
rng = np.random.RandomState(20240614)
shapes = [(1, 1), (1, 7), (6, 1), (4, 5), (7, 5), (9, 12), (13, 8), (16, 16)]
dtypes = [np.float64, np.float32, np.int64, np.int32, np.uint8, np.int16]
coordspecs = [  # (y0, dy, x0, dx)
    (0.0, 1.0, 0.0, 1.0), (50.0, -1.0, 0.0, 1.0), (0.3, 0.1, -7.7, 0.3),
    (1000.5, -2.5, 33.25, 0.125), (-4.0, 0.7, 9.0, -1.3),
    (5e5, 30.0, 4e6, 30.0)]
k = 0
for shape in shapes:
    for dt in dtypes:
        for rep in range(3):
            k += 1
            h, w = shape
            vals = rng.randint(0, 5, size=shape)
            data = vals.astype(dt)
            if np.issubdtype(dt, np.floating) and rep:
                m = rng.rand(h, w) < 0.15
                data[m] = np.nan
            y0, dy, x0, dx = coordspecs[k % len(coordspecs)]
            ys = y0 + dy * np.arange(h)
            xs = x0 + dx * np.arange(w)
            dims = ('y', 'x') if k % 2 else ('lat', 'lon')
            arr = make(data, ys, xs, dims)
            barriers = [None, [], [0], [0, 3], [1, 2, 4], (2,),
                        np.array([0.0, 4.0])][k % 7]
            for q in range(4):
                s = (rng.randint(h), rng.randint(w))
                g = (rng.randint(h), rng.randint(w))
                conn = (4, 8)[(k + q) % 2]
                ss = bool((k + q) % 3 == 0)
                sg = bool((k + q) % 4 < 2)
                # perturb the point inside its cell (up to +-0.4 of a step);
                # with a single row / column resolution is degenerate: exact
                fy = rng.uniform(-0.4, 0.4) if (h > 1 and q % 2) else 0.0
                fx = rng.uniform(-0.4, 0.4) if (w > 1 and q % 2) else 0.0
                start = (ys[s[0]] + fy * dy, xs[s[1]] + fx * dx)
                goal = (ys[g[0]] - fy * dy, xs[g[1]] - fx * dx)
                # single-row / single-column rasters have no resolution: the
                # library's behaviour there is only recorded in the digest
                orc = (s, g) if (h > 1 and w > 1) else None
                run(("rnd", k, q), arr, start, goal, barriers, conn, ss, sg,
                    x=dims[1], y=dims[0], oracle=orc)
                # list / ndarray forms of the points
                if q == 0:
                    run(("rndl", k), arr, list(start), np.array(goal),
                        barriers, conn, ss, sg, x=dims[1], y=dims[0],
                        oracle=orc)

# mazes: long winding optimal routes
for n in (5, 9, 15):
    data = np.ones((n, n))
    for r in range(1, n, 2):
        data[r, :] = 0
        data[r, (n - 1) if (r // 2) % 2 == 0 else 0] = 1
    arr = make(data, ys=np.linspace(3.0, 3.0 + 0.25 * (n - 1), n),
               xs=np.linspace(-1.0, -1.0 + 0.5 * (n - 1), n))
    for conn in (4, 8):
        run(("maze", n, conn), arr, coord_of(arr, (0, 0)),
            coord_of(arr, (n - 1, n - 1 if (n // 2) % 2 == 0 else 0)),
            [0], conn, oracle=((0, 0),
                               (n - 1, n - 1 if (n // 2) % 2 == 0 else 0)))
    # plateau with many ties (tie-breaking is covered by the digest)
    arr2 = make(np.full((n, n + 2), 7, dtype=np.int64))
    for conn in (4, 8):
        run(("open", n, conn), arr2, coord_of(arr2, (n - 1, 0)),
            coord_of(arr2, (0, n + 1)), None, conn,
            oracle=((n - 1, 0), (0, n + 1)))
        run(("open2", n, conn), arr2, coord_of(arr2, (n // 2, 1)),
            coord_of(arr2, (n // 2, n)), [3], conn,
            oracle=((n // 2, 1), (n // 2, n)))

# all-barrier / all-NaN rasters with snapping (no crossable cell at all)
for data in (np.zeros((3, 4)), np.full((3, 4), np.nan)):
    arr = make(data)
    for ss, sg in itertools.product((False, True), repeat=2):
        run(("none", ss, sg, bool(np.isnan(data[0, 0]))), arr, (2.0, 0.0),
            (0.0, 3.0), [0], 8, ss, sg, oracle=((0, 0), (2, 3)))

# the docstring example and the default arguments (x='x', y='y', barriers=[])
doc = xr.DataArray(np.array([[0, 1, 0, 0], [1, 1, 0, 0], [0, 1, 2, 2],
                             [1, 0, 2, 0], [0, 2, 2, 2]]),
                   dims=['lat', 'lon'])
doc['lon'] = np.linspace(0, 3, 4)
doc['lat'] = np.linspace(4, 0, 5)
r = run(("doc",), doc, (3, 0), (0, 1), [0], 8, x='lon', y='lat',
        oracle=((1, 0), (4, 1)))
if r is not None:
    exp = np.full((5, 4), np.nan)
    exp[1, 0] = 0.0
    exp[2, 1] = SQRT2
    exp[3, 2] = 2 * SQRT2
    exp[4, 1] = 3 * SQRT2
    if not np.allclose(r.data, exp, equal_nan=True, rtol=0, atol=1e-12):
        failures.append(("doc", "docstring example differs"))
dflt = make(np.arange(12.0).reshape(3, 4))
with warnings.catch_warnings(record=True):
    warnings.simplefilter("always")
    r1 = a_star_search(dflt, (2.0, 0.0), (0.0, 3.0))
    r2 = a_star_search(surface=dflt, start=(2.0, 0.0), goal=(0.0, 3.0),
                       barriers=[], x='x', y='y', connectivity=8,
                       snap_start=False, snap_goal=False)
if not np.array_equal(r1.data, r2.data, equal_nan=True):
    failures.append(("defaults", "keyword call differs"))
run(("dflt",), dflt, (2.0, 0.0), (0.0, 3.0), oracle=((0, 0), (2, 3)))

# --------------------------------------------------------------------------
# 4. error behaviour (type and message are part of the digest)
# --------------------------------------------------------------------------
e = make(np.ones((4, 5)))
run(("err", "start-out"), e, (9.0, 0.0), (0.0, 0.0))
run(("err", "goal-out"), e, (0.0, 0.0), (0.0, 17.0))
run(("err", "both-out"), e, (0.0, 44.0), (99.0, 0.0))
run(("err", "conn"), e, (0.0, 0.0), (1.0, 1.0), conn=5)
run(("err", "conn+out"), e, (0.0, 44.0), (1.0, 1.0), conn=6)
run(("err", "dims"), e, (0.0, 0.0), (1.0, 1.0), x='lon', y='lat')
run(("err", "swapped"), e, (0.0, 0.0), (1.0, 1.0), x='y', y='x')
run(("err", "3d"), xr.DataArray(np.ones((2, 3, 4)), dims=['b', 'y', 'x']),
    (0.0, 0.0), (1.0, 1.0))
run(("err", "1d"), xr.DataArray(np.ones(4), dims=['x']), (0.0, 0.0),
    (1.0, 1.0))
run(("err", "start-out+goal-bad"), e, (9.0, 0.0), (0.0,))
run(("err", "goal-bad"), e, (0.0, 0.0), (0.0,))
run(("err", "start-bad"), e, (0.0,), (0.0, 0.0))

# --------------------------------------------------------------------------
if "xrspatial/__init__" not in xrspatial.__file__.replace("\\", "/"):
    failures.append(("import", xrspatial.__file__))
got = digest.hexdigest()
if "--record" in sys.argv:
    print("library:", xrspatial.__file__)
    print("ncases:", ncases)
    print("digest:", got)
    print("oracle failures:", len(failures))
    for f in failures[:20]:
        print("   ", f)
    sys.exit(1 if failures else 0)
if got != EXPECTED_DIGEST:
    failures.append(("digest", got, EXPECTED_DIGEST))
if ncases != EXPECTED_NCASES:
    failures.append(("ncases", ncases, EXPECTED_NCASES))
print("library:", xrspatial.__file__)
print("cases:", ncases, "digest:", got)
if failures:
    print("FAIL: %d mismatches" % len(failures))
    for f in failures[:25]:
        print("   ", f)
    sys.exit(1)
print("OK: identical to recorded baseline and to the independent oracle")
sys.exit(0)
