"""Differential test for refactoring t8 (split a kernel into helper functions):
  xrspatial/focal.py: the per-cell classification inside the numba kernel
  _calc_hotspots_numpy was split into two private @ngjit helpers
  (_zscore_p_value, _zscore_confidence) called from the loop.

Checks for hotspots():
  1. the private kernel focal._calc_hotspots_numpy equals an independent pure-python
     re-implementation on z-score arrays that hit every threshold exactly
     (float32 and float64, NaN, +-inf, +-0),
  2. sha256 digests of hotspots() results (numpy backend and dask backend with several
     chunkings) equal digests recorded on the UNMODIFIED tree,
  3. dask results are identical for both schedulers and stay lazy until computed
     (their digests, per chunking, are part of the recorded table in 2.),
  4. error behaviour (ZeroDivisionError for constant raster on numpy, ValueError for
     bool dtype, TypeError / ValueError on bad input) is unchanged.

Run:  cd <worktree> && PYTHONPATH=<worktree> python equiv.py          (exit 0 == identical)
"""
import hashlib
import sys
import warnings

import dask
import dask.array as da
import numpy as np
import xarray as xr

import xrspatial
from xrspatial import focal
from xrspatial.convolution import annulus_kernel, circle_kernel, custom_kernel
from xrspatial.focal import hotspots

warnings.simplefilter('ignore')

FAILS = []
DIGESTS = {}


def digest(arr):
    arr = np.ascontiguousarray(arr)
    h = hashlib.sha256()
    h.update(str(arr.dtype).encode())
    h.update(str(arr.shape).encode())
    h.update(arr.tobytes())
    return h.hexdigest()[:24]


def check(cond, msg):
    if not cond:
        FAILS.append(msg)
        print('FAIL', msg)


def ref_cell(z):
    z = float(z)
    p = 1.0
    if abs(z) >= 2.33:
        p = 0.0099
    elif abs(z) >= 1.65:
        p = 0.0495
    elif abs(z) >= 1.29:
        p = 0.0985
    conf = 0
    if abs(z) > 2.58 and p < 0.01:
        conf = 99
    elif abs(z) > 1.96 and p < 0.05:
        conf = 95
    elif abs(z) > 1.65 and p < 0.1:
        conf = 90
    hc = 0
    if z > 0:
        hc = 1
    elif z < 0:
        hc = -1
    return hc * conf


def ref_kernel(zarr):
    out = np.zeros(zarr.shape, dtype=np.int8)
    for idx in np.ndindex(*zarr.shape):
        out[idx] = ref_cell(zarr[idx])
    return out


def run_kernel_direct():
    th = [0.0, 1.29, 1.65, 1.96, 2.33, 2.58, 1.2899999, 1.6500001, 1.9600001, 2.3299999,
          2.5800001, 2.57, 2.59, 3.0, 10.0, 1e30, 0.5, 1.0, 1.3, 1.7, 2.0, 2.4]
    vals = []
    for t in th:
        vals += [t, -t, np.nextafter(t, 10), np.nextafter(t, -10),
                 -np.nextafter(t, 10), -np.nextafter(t, -10)]
    vals += [np.nan, np.inf, -np.inf, -0.0]
    rng = np.random.RandomState(7)
    vals += list(rng.normal(0, 2, size=200 - len(vals) % 200))
    z = np.array(vals, dtype=np.float64)
    z = z[: (len(z) // 8) * 8].reshape(-1, 8)
    for dt in (np.float64, np.float32):
        zz = z.astype(dt)
        got = focal._calc_hotspots_numpy(zz)
        exp = ref_kernel(zz)
        key = 'kernel/%s' % np.dtype(dt).name
        check(got.dtype == np.int8 and got.shape == zz.shape, key + ' dtype/shape')
        check(np.array_equal(got, exp), key + ' vs python reference')
        DIGESTS[key] = digest(got)
    # odd shapes
    for shape in ((1, 1), (1, 7), (5, 1), (0, 3)):
        zz = rng.normal(0, 2, size=shape)
        got = focal._calc_hotspots_numpy(zz)
        check(np.array_equal(got, ref_kernel(zz)) and got.dtype == np.int8,
              'kernel shape %s' % (shape,))


def rasters():
    rng = np.random.RandomState(2024)
    out = {}
    a = rng.normal(100, 5, size=(12, 10))
    a[2:5, 2:5] += 60       # hot cluster
    a[8:11, 5:9] -= 60      # cold cluster
    out['f64_12x10'] = a
    out['f32_12x10'] = a.astype(np.float32)
    out['i32_12x10'] = np.round(a * 10).astype(np.int32)
    out['i64_12x10'] = np.round(a).astype(np.int64)
    out['u16_12x10'] = np.round(a * 3).astype(np.uint16)
    b = a.copy()
    b[0, 0] = np.nan
    b[6, 6] = np.nan
    out['f64_nan_12x10'] = b
    c = rng.normal(0, 1, size=(7, 9))
    c[3, 4] = 40
    out['f64_7x9_spike'] = c
    d = np.array([[0, 1000, 1000, 0, 0, 0],
                  [0, 0, 0, -1000, -1000, 0],
                  [0, -900, -900, 0, 0, 0],
                  [0, 100, 1000, 0, 0, 0]])
    out['doc_i64_4x6'] = d
    return out


def kernels():
    return {
        'circle3x3': circle_kernel(1, 1, 1),
        'row1x3': custom_kernel(np.array([[1., 1., 0.]])),
        'col3x1': custom_kernel(np.array([[1.], [1.], [1.]])),
        'rect3x5': custom_kernel(np.ones((3, 5))),
        'annulus5x5': annulus_kernel(1, 1, 2, 1),
        'one1x1': custom_kernel(np.array([[1.]])),
    }


CHUNKS = [(4, 5), (3, 3), (12, 10), (5, 4), (6, 2)]


def run_hotspots():
    for rname, data in rasters().items():
        for kname, kernel in kernels().items():
            key = 'hotspots/%s/%s' % (rname, kname)
            agg = xr.DataArray(data, dims=['y', 'x'], attrs={'foo': 1})
            r = hotspots(agg, kernel)
            rn = r.data
            check(isinstance(rn, np.ndarray) and rn.dtype == np.int8, key + ' numpy/int8')
            check(r.attrs == {'foo': 1, 'unit': '%'}, key + ' attrs')
            DIGESTS[key] = digest(rn)
            for ch in CHUNKS:
                dagg = xr.DataArray(da.from_array(data, chunks=ch), dims=['y', 'x'])
                rd = hotspots(dagg, kernel)
                check(isinstance(rd.data, da.Array), key + ' dask stays lazy')
                with dask.config.set(scheduler='synchronous'):
                    g1 = rd.data.compute()
                with dask.config.set(scheduler='threads', num_workers=3):
                    g2 = rd.data.compute()
                check(g1.dtype == np.int8 and np.array_equal(g1, g2),
                      '%s dask schedulers agree chunks=%s' % (key, ch))
                DIGESTS['%s/dask%s' % (key, ch)] = digest(g1)


def run_errors():
    k = circle_kernel(1, 1, 1)
    try:
        hotspots(xr.DataArray(np.full((4, 4), 2.0)), k)
        check(False, 'constant raster should raise ZeroDivisionError')
    except ZeroDivisionError:
        pass
    try:
        hotspots(xr.DataArray(np.ones((4, 4), dtype=bool)), k)
        check(False, 'bool raster should raise ValueError')
    except ValueError:
        pass
    try:
        hotspots(np.ones((4, 4)), k)
        check(False, 'ndarray should raise TypeError')
    except TypeError:
        pass
    try:
        hotspots(xr.DataArray(np.ones((4, 4, 2))), k)
        check(False, '3D should raise ValueError')
    except ValueError:
        pass


EXPECTED = {
'hotspots/doc_i64_4x6/annulus5x5': '116dda84f010528a6dcb404a',
    'hotspots/doc_i64_4x6/annulus5x5/dask(12, 10)': '116dda84f010528a6dcb404a',
    'hotspots/doc_i64_4x6/annulus5x5/dask(3, 3)': '116dda84f010528a6dcb404a',
    'hotspots/doc_i64_4x6/annulus5x5/dask(4, 5)': '116dda84f010528a6dcb404a',
    'hotspots/doc_i64_4x6/annulus5x5/dask(5, 4)': '116dda84f010528a6dcb404a',
    'hotspots/doc_i64_4x6/annulus5x5/dask(6, 2)': '116dda84f010528a6dcb404a',
    'hotspots/doc_i64_4x6/circle3x3': '116dda84f010528a6dcb404a',
    'hotspots/doc_i64_4x6/circle3x3/dask(12, 10)': '116dda84f010528a6dcb404a',
    'hotspots/doc_i64_4x6/circle3x3/dask(3, 3)': '116dda84f010528a6dcb404a',
    'hotspots/doc_i64_4x6/circle3x3/dask(4, 5)': '116dda84f010528a6dcb404a',
    'hotspots/doc_i64_4x6/circle3x3/dask(5, 4)': '116dda84f010528a6dcb404a',
    'hotspots/doc_i64_4x6/circle3x3/dask(6, 2)': '116dda84f010528a6dcb404a',
    'hotspots/doc_i64_4x6/col3x1': '116dda84f010528a6dcb404a',
    'hotspots/doc_i64_4x6/col3x1/dask(12, 10)': '116dda84f010528a6dcb404a',
    'hotspots/doc_i64_4x6/col3x1/dask(3, 3)': '116dda84f010528a6dcb404a',
    'hotspots/doc_i64_4x6/col3x1/dask(4, 5)': '116dda84f010528a6dcb404a',
    'hotspots/doc_i64_4x6/col3x1/dask(5, 4)': '116dda84f010528a6dcb404a',
    'hotspots/doc_i64_4x6/col3x1/dask(6, 2)': '116dda84f010528a6dcb404a',
    'hotspots/doc_i64_4x6/one1x1': 'aee941ece7ce0d179e3cb5e8',
    'hotspots/doc_i64_4x6/one1x1/dask(12, 10)': 'aee941ece7ce0d179e3cb5e8',
    'hotspots/doc_i64_4x6/one1x1/dask(3, 3)': 'aee941ece7ce0d179e3cb5e8',
    'hotspots/doc_i64_4x6/one1x1/dask(4, 5)': 'aee941ece7ce0d179e3cb5e8',
    'hotspots/doc_i64_4x6/one1x1/dask(5, 4)': 'aee941ece7ce0d179e3cb5e8',
    'hotspots/doc_i64_4x6/one1x1/dask(6, 2)': 'aee941ece7ce0d179e3cb5e8',
    'hotspots/doc_i64_4x6/rect3x5': '116dda84f010528a6dcb404a',
    'hotspots/doc_i64_4x6/rect3x5/dask(12, 10)': '116dda84f010528a6dcb404a',
    'hotspots/doc_i64_4x6/rect3x5/dask(3, 3)': '116dda84f010528a6dcb404a',
    'hotspots/doc_i64_4x6/rect3x5/dask(4, 5)': '116dda84f010528a6dcb404a',
    'hotspots/doc_i64_4x6/rect3x5/dask(5, 4)': '116dda84f010528a6dcb404a',
    'hotspots/doc_i64_4x6/rect3x5/dask(6, 2)': '116dda84f010528a6dcb404a',
    'hotspots/doc_i64_4x6/row1x3': '3c24f201f556f7e92630f5b1',
    'hotspots/doc_i64_4x6/row1x3/dask(12, 10)': '3c24f201f556f7e92630f5b1',
    'hotspots/doc_i64_4x6/row1x3/dask(3, 3)': '3c24f201f556f7e92630f5b1',
    'hotspots/doc_i64_4x6/row1x3/dask(4, 5)': '3c24f201f556f7e92630f5b1',
    'hotspots/doc_i64_4x6/row1x3/dask(5, 4)': '3c24f201f556f7e92630f5b1',
    'hotspots/doc_i64_4x6/row1x3/dask(6, 2)': '3c24f201f556f7e92630f5b1',
    'hotspots/f32_12x10/annulus5x5': '6f49fcdbfc2b2bb135fa6495',
    'hotspots/f32_12x10/annulus5x5/dask(12, 10)': '6f49fcdbfc2b2bb135fa6495',
    'hotspots/f32_12x10/annulus5x5/dask(3, 3)': '6f49fcdbfc2b2bb135fa6495',
    'hotspots/f32_12x10/annulus5x5/dask(4, 5)': '6f49fcdbfc2b2bb135fa6495',
    'hotspots/f32_12x10/annulus5x5/dask(5, 4)': '6f49fcdbfc2b2bb135fa6495',
    'hotspots/f32_12x10/annulus5x5/dask(6, 2)': '6f49fcdbfc2b2bb135fa6495',
    'hotspots/f32_12x10/circle3x3': 'c50c3f6731843ac63842ac66',
    'hotspots/f32_12x10/circle3x3/dask(12, 10)': 'c50c3f6731843ac63842ac66',
    'hotspots/f32_12x10/circle3x3/dask(3, 3)': 'c50c3f6731843ac63842ac66',
    'hotspots/f32_12x10/circle3x3/dask(4, 5)': 'c50c3f6731843ac63842ac66',
    'hotspots/f32_12x10/circle3x3/dask(5, 4)': 'c50c3f6731843ac63842ac66',
    'hotspots/f32_12x10/circle3x3/dask(6, 2)': 'c50c3f6731843ac63842ac66',
    'hotspots/f32_12x10/col3x1': '8e91653f857902beaf86869b',
    'hotspots/f32_12x10/col3x1/dask(12, 10)': '8e91653f857902beaf86869b',
    'hotspots/f32_12x10/col3x1/dask(3, 3)': '8e91653f857902beaf86869b',
    'hotspots/f32_12x10/col3x1/dask(4, 5)': '8e91653f857902beaf86869b',
    'hotspots/f32_12x10/col3x1/dask(5, 4)': '8e91653f857902beaf86869b',
    'hotspots/f32_12x10/col3x1/dask(6, 2)': '8e91653f857902beaf86869b',
    'hotspots/f32_12x10/one1x1': '718f2bc4ec49716493f83d6e',
    'hotspots/f32_12x10/one1x1/dask(12, 10)': '718f2bc4ec49716493f83d6e',
    'hotspots/f32_12x10/one1x1/dask(3, 3)': '718f2bc4ec49716493f83d6e',
    'hotspots/f32_12x10/one1x1/dask(4, 5)': '718f2bc4ec49716493f83d6e',
    'hotspots/f32_12x10/one1x1/dask(5, 4)': '718f2bc4ec49716493f83d6e',
    'hotspots/f32_12x10/one1x1/dask(6, 2)': '718f2bc4ec49716493f83d6e',
    'hotspots/f32_12x10/rect3x5': 'fd5460544e044722cd56fa8e',
    'hotspots/f32_12x10/rect3x5/dask(12, 10)': 'fd5460544e044722cd56fa8e',
    'hotspots/f32_12x10/rect3x5/dask(3, 3)': 'fd5460544e044722cd56fa8e',
    'hotspots/f32_12x10/rect3x5/dask(4, 5)': 'fd5460544e044722cd56fa8e',
    'hotspots/f32_12x10/rect3x5/dask(5, 4)': 'fd5460544e044722cd56fa8e',
    'hotspots/f32_12x10/rect3x5/dask(6, 2)': 'fd5460544e044722cd56fa8e',
    'hotspots/f32_12x10/row1x3': '0dfa2c1d6fcd32d40f2d4563',
    'hotspots/f32_12x10/row1x3/dask(12, 10)': '0dfa2c1d6fcd32d40f2d4563',
    'hotspots/f32_12x10/row1x3/dask(3, 3)': '0dfa2c1d6fcd32d40f2d4563',
    'hotspots/f32_12x10/row1x3/dask(4, 5)': '0dfa2c1d6fcd32d40f2d4563',
    'hotspots/f32_12x10/row1x3/dask(5, 4)': '0dfa2c1d6fcd32d40f2d4563',
    'hotspots/f32_12x10/row1x3/dask(6, 2)': '0dfa2c1d6fcd32d40f2d4563',
    'hotspots/f64_12x10/annulus5x5': '6f49fcdbfc2b2bb135fa6495',
    'hotspots/f64_12x10/annulus5x5/dask(12, 10)': '6f49fcdbfc2b2bb135fa6495',
    'hotspots/f64_12x10/annulus5x5/dask(3, 3)': '6f49fcdbfc2b2bb135fa6495',
    'hotspots/f64_12x10/annulus5x5/dask(4, 5)': '6f49fcdbfc2b2bb135fa6495',
    'hotspots/f64_12x10/annulus5x5/dask(5, 4)': '6f49fcdbfc2b2bb135fa6495',
    'hotspots/f64_12x10/annulus5x5/dask(6, 2)': '6f49fcdbfc2b2bb135fa6495',
    'hotspots/f64_12x10/circle3x3': 'c50c3f6731843ac63842ac66',
    'hotspots/f64_12x10/circle3x3/dask(12, 10)': 'c50c3f6731843ac63842ac66',
    'hotspots/f64_12x10/circle3x3/dask(3, 3)': 'c50c3f6731843ac63842ac66',
    'hotspots/f64_12x10/circle3x3/dask(4, 5)': 'c50c3f6731843ac63842ac66',
    'hotspots/f64_12x10/circle3x3/dask(5, 4)': 'c50c3f6731843ac63842ac66',
    'hotspots/f64_12x10/circle3x3/dask(6, 2)': 'c50c3f6731843ac63842ac66',
    'hotspots/f64_12x10/col3x1': '8e91653f857902beaf86869b',
    'hotspots/f64_12x10/col3x1/dask(12, 10)': '8e91653f857902beaf86869b',
    'hotspots/f64_12x10/col3x1/dask(3, 3)': '8e91653f857902beaf86869b',
    'hotspots/f64_12x10/col3x1/dask(4, 5)': '8e91653f857902beaf86869b',
    'hotspots/f64_12x10/col3x1/dask(5, 4)': '8e91653f857902beaf86869b',
    'hotspots/f64_12x10/col3x1/dask(6, 2)': '8e91653f857902beaf86869b',
    'hotspots/f64_12x10/one1x1': '718f2bc4ec49716493f83d6e',
    'hotspots/f64_12x10/one1x1/dask(12, 10)': '718f2bc4ec49716493f83d6e',
    'hotspots/f64_12x10/one1x1/dask(3, 3)': '718f2bc4ec49716493f83d6e',
    'hotspots/f64_12x10/one1x1/dask(4, 5)': '718f2bc4ec49716493f83d6e',
    'hotspots/f64_12x10/one1x1/dask(5, 4)': '718f2bc4ec49716493f83d6e',
    'hotspots/f64_12x10/one1x1/dask(6, 2)': '718f2bc4ec49716493f83d6e',
    'hotspots/f64_12x10/rect3x5': 'fd5460544e044722cd56fa8e',
    'hotspots/f64_12x10/rect3x5/dask(12, 10)': 'fd5460544e044722cd56fa8e',
    'hotspots/f64_12x10/rect3x5/dask(3, 3)': 'fd5460544e044722cd56fa8e',
    'hotspots/f64_12x10/rect3x5/dask(4, 5)': 'fd5460544e044722cd56fa8e',
    'hotspots/f64_12x10/rect3x5/dask(5, 4)': 'fd5460544e044722cd56fa8e',
    'hotspots/f64_12x10/rect3x5/dask(6, 2)': 'fd5460544e044722cd56fa8e',
    'hotspots/f64_12x10/row1x3': '0dfa2c1d6fcd32d40f2d4563',
    'hotspots/f64_12x10/row1x3/dask(12, 10)': '0dfa2c1d6fcd32d40f2d4563',
    'hotspots/f64_12x10/row1x3/dask(3, 3)': '0dfa2c1d6fcd32d40f2d4563',
    'hotspots/f64_12x10/row1x3/dask(4, 5)': '0dfa2c1d6fcd32d40f2d4563',
    'hotspots/f64_12x10/row1x3/dask(5, 4)': '0dfa2c1d6fcd32d40f2d4563',
    'hotspots/f64_12x10/row1x3/dask(6, 2)': '0dfa2c1d6fcd32d40f2d4563',
    'hotspots/f64_7x9_spike/annulus5x5': '90f73da7fa25dd640ed5f0cd',
    'hotspots/f64_7x9_spike/annulus5x5/dask(12, 10)': '90f73da7fa25dd640ed5f0cd',
    'hotspots/f64_7x9_spike/annulus5x5/dask(3, 3)': '90f73da7fa25dd640ed5f0cd',
    'hotspots/f64_7x9_spike/annulus5x5/dask(4, 5)': '90f73da7fa25dd640ed5f0cd',
    'hotspots/f64_7x9_spike/annulus5x5/dask(5, 4)': '90f73da7fa25dd640ed5f0cd',
    'hotspots/f64_7x9_spike/annulus5x5/dask(6, 2)': '90f73da7fa25dd640ed5f0cd',
    'hotspots/f64_7x9_spike/circle3x3': '90f73da7fa25dd640ed5f0cd',
    'hotspots/f64_7x9_spike/circle3x3/dask(12, 10)': '90f73da7fa25dd640ed5f0cd',
    'hotspots/f64_7x9_spike/circle3x3/dask(3, 3)': '90f73da7fa25dd640ed5f0cd',
    'hotspots/f64_7x9_spike/circle3x3/dask(4, 5)': '90f73da7fa25dd640ed5f0cd',
    'hotspots/f64_7x9_spike/circle3x3/dask(5, 4)': '90f73da7fa25dd640ed5f0cd',
    'hotspots/f64_7x9_spike/circle3x3/dask(6, 2)': '90f73da7fa25dd640ed5f0cd',
    'hotspots/f64_7x9_spike/col3x1': '313112f079fcd9afd3b99c6b',
    'hotspots/f64_7x9_spike/col3x1/dask(12, 10)': '313112f079fcd9afd3b99c6b',
    'hotspots/f64_7x9_spike/col3x1/dask(3, 3)': '313112f079fcd9afd3b99c6b',
    'hotspots/f64_7x9_spike/col3x1/dask(4, 5)': '313112f079fcd9afd3b99c6b',
    'hotspots/f64_7x9_spike/col3x1/dask(5, 4)': '313112f079fcd9afd3b99c6b',
    'hotspots/f64_7x9_spike/col3x1/dask(6, 2)': '313112f079fcd9afd3b99c6b',
    'hotspots/f64_7x9_spike/one1x1': '57d99b64692546303a9fe599',
    'hotspots/f64_7x9_spike/one1x1/dask(12, 10)': '57d99b64692546303a9fe599',
    'hotspots/f64_7x9_spike/one1x1/dask(3, 3)': '57d99b64692546303a9fe599',
    'hotspots/f64_7x9_spike/one1x1/dask(4, 5)': '57d99b64692546303a9fe599',
    'hotspots/f64_7x9_spike/one1x1/dask(5, 4)': '57d99b64692546303a9fe599',
    'hotspots/f64_7x9_spike/one1x1/dask(6, 2)': '57d99b64692546303a9fe599',
    'hotspots/f64_7x9_spike/rect3x5': '90f73da7fa25dd640ed5f0cd',
    'hotspots/f64_7x9_spike/rect3x5/dask(12, 10)': '90f73da7fa25dd640ed5f0cd',
    'hotspots/f64_7x9_spike/rect3x5/dask(3, 3)': '90f73da7fa25dd640ed5f0cd',
    'hotspots/f64_7x9_spike/rect3x5/dask(4, 5)': '90f73da7fa25dd640ed5f0cd',
    'hotspots/f64_7x9_spike/rect3x5/dask(5, 4)': '90f73da7fa25dd640ed5f0cd',
    'hotspots/f64_7x9_spike/rect3x5/dask(6, 2)': '90f73da7fa25dd640ed5f0cd',
    'hotspots/f64_7x9_spike/row1x3': 'daf10860934a1d835bb43d45',
    'hotspots/f64_7x9_spike/row1x3/dask(12, 10)': 'daf10860934a1d835bb43d45',
    'hotspots/f64_7x9_spike/row1x3/dask(3, 3)': 'daf10860934a1d835bb43d45',
    'hotspots/f64_7x9_spike/row1x3/dask(4, 5)': 'daf10860934a1d835bb43d45',
    'hotspots/f64_7x9_spike/row1x3/dask(5, 4)': 'daf10860934a1d835bb43d45',
    'hotspots/f64_7x9_spike/row1x3/dask(6, 2)': 'daf10860934a1d835bb43d45',
    'hotspots/f64_nan_12x10/annulus5x5': '6f49fcdbfc2b2bb135fa6495',
    'hotspots/f64_nan_12x10/annulus5x5/dask(12, 10)': '6f49fcdbfc2b2bb135fa6495',
    'hotspots/f64_nan_12x10/annulus5x5/dask(3, 3)': '6f49fcdbfc2b2bb135fa6495',
    'hotspots/f64_nan_12x10/annulus5x5/dask(4, 5)': '6f49fcdbfc2b2bb135fa6495',
    'hotspots/f64_nan_12x10/annulus5x5/dask(5, 4)': '6f49fcdbfc2b2bb135fa6495',
    'hotspots/f64_nan_12x10/annulus5x5/dask(6, 2)': '6f49fcdbfc2b2bb135fa6495',
    'hotspots/f64_nan_12x10/circle3x3': 'c50c3f6731843ac63842ac66',
    'hotspots/f64_nan_12x10/circle3x3/dask(12, 10)': 'c50c3f6731843ac63842ac66',
    'hotspots/f64_nan_12x10/circle3x3/dask(3, 3)': 'c50c3f6731843ac63842ac66',
    'hotspots/f64_nan_12x10/circle3x3/dask(4, 5)': 'c50c3f6731843ac63842ac66',
    'hotspots/f64_nan_12x10/circle3x3/dask(5, 4)': 'c50c3f6731843ac63842ac66',
    'hotspots/f64_nan_12x10/circle3x3/dask(6, 2)': 'c50c3f6731843ac63842ac66',
    'hotspots/f64_nan_12x10/col3x1': '8e91653f857902beaf86869b',
    'hotspots/f64_nan_12x10/col3x1/dask(12, 10)': '8e91653f857902beaf86869b',
    'hotspots/f64_nan_12x10/col3x1/dask(3, 3)': '8e91653f857902beaf86869b',
    'hotspots/f64_nan_12x10/col3x1/dask(4, 5)': '8e91653f857902beaf86869b',
    'hotspots/f64_nan_12x10/col3x1/dask(5, 4)': '8e91653f857902beaf86869b',
    'hotspots/f64_nan_12x10/col3x1/dask(6, 2)': '8e91653f857902beaf86869b',
    'hotspots/f64_nan_12x10/one1x1': '718f2bc4ec49716493f83d6e',
    'hotspots/f64_nan_12x10/one1x1/dask(12, 10)': '718f2bc4ec49716493f83d6e',
    'hotspots/f64_nan_12x10/one1x1/dask(3, 3)': '718f2bc4ec49716493f83d6e',
    'hotspots/f64_nan_12x10/one1x1/dask(4, 5)': '718f2bc4ec49716493f83d6e',
    'hotspots/f64_nan_12x10/one1x1/dask(5, 4)': '718f2bc4ec49716493f83d6e',
    'hotspots/f64_nan_12x10/one1x1/dask(6, 2)': '718f2bc4ec49716493f83d6e',
    'hotspots/f64_nan_12x10/rect3x5': 'fd5460544e044722cd56fa8e',
    'hotspots/f64_nan_12x10/rect3x5/dask(12, 10)': 'fd5460544e044722cd56fa8e',
    'hotspots/f64_nan_12x10/rect3x5/dask(3, 3)': 'fd5460544e044722cd56fa8e',
    'hotspots/f64_nan_12x10/rect3x5/dask(4, 5)': 'fd5460544e044722cd56fa8e',
    'hotspots/f64_nan_12x10/rect3x5/dask(5, 4)': 'fd5460544e044722cd56fa8e',
    'hotspots/f64_nan_12x10/rect3x5/dask(6, 2)': 'fd5460544e044722cd56fa8e',
    'hotspots/f64_nan_12x10/row1x3': '0dfa2c1d6fcd32d40f2d4563',
    'hotspots/f64_nan_12x10/row1x3/dask(12, 10)': '0dfa2c1d6fcd32d40f2d4563',
    'hotspots/f64_nan_12x10/row1x3/dask(3, 3)': '0dfa2c1d6fcd32d40f2d4563',
    'hotspots/f64_nan_12x10/row1x3/dask(4, 5)': '0dfa2c1d6fcd32d40f2d4563',
    'hotspots/f64_nan_12x10/row1x3/dask(5, 4)': '0dfa2c1d6fcd32d40f2d4563',
    'hotspots/f64_nan_12x10/row1x3/dask(6, 2)': '0dfa2c1d6fcd32d40f2d4563',
    'hotspots/i32_12x10/annulus5x5': '6f49fcdbfc2b2bb135fa6495',
    'hotspots/i32_12x10/annulus5x5/dask(12, 10)': '6f49fcdbfc2b2bb135fa6495',
    'hotspots/i32_12x10/annulus5x5/dask(3, 3)': '6f49fcdbfc2b2bb135fa6495',
    'hotspots/i32_12x10/annulus5x5/dask(4, 5)': '6f49fcdbfc2b2bb135fa6495',
    'hotspots/i32_12x10/annulus5x5/dask(5, 4)': '6f49fcdbfc2b2bb135fa6495',
    'hotspots/i32_12x10/annulus5x5/dask(6, 2)': '6f49fcdbfc2b2bb135fa6495',
    'hotspots/i32_12x10/circle3x3': 'a50257f477c341700f6feffe',
    'hotspots/i32_12x10/circle3x3/dask(12, 10)': 'a50257f477c341700f6feffe',
    'hotspots/i32_12x10/circle3x3/dask(3, 3)': 'a50257f477c341700f6feffe',
    'hotspots/i32_12x10/circle3x3/dask(4, 5)': 'a50257f477c341700f6feffe',
    'hotspots/i32_12x10/circle3x3/dask(5, 4)': 'a50257f477c341700f6feffe',
    'hotspots/i32_12x10/circle3x3/dask(6, 2)': 'a50257f477c341700f6feffe',
    'hotspots/i32_12x10/col3x1': '8e91653f857902beaf86869b',
    'hotspots/i32_12x10/col3x1/dask(12, 10)': '8e91653f857902beaf86869b',
    'hotspots/i32_12x10/col3x1/dask(3, 3)': '8e91653f857902beaf86869b',
    'hotspots/i32_12x10/col3x1/dask(4, 5)': '8e91653f857902beaf86869b',
    'hotspots/i32_12x10/col3x1/dask(5, 4)': '8e91653f857902beaf86869b',
    'hotspots/i32_12x10/col3x1/dask(6, 2)': '8e91653f857902beaf86869b',
    'hotspots/i32_12x10/one1x1': '718f2bc4ec49716493f83d6e',
    'hotspots/i32_12x10/one1x1/dask(12, 10)': '718f2bc4ec49716493f83d6e',
    'hotspots/i32_12x10/one1x1/dask(3, 3)': '718f2bc4ec49716493f83d6e',
    'hotspots/i32_12x10/one1x1/dask(4, 5)': '718f2bc4ec49716493f83d6e',
    'hotspots/i32_12x10/one1x1/dask(5, 4)': '718f2bc4ec49716493f83d6e',
    'hotspots/i32_12x10/one1x1/dask(6, 2)': '718f2bc4ec49716493f83d6e',
    'hotspots/i32_12x10/rect3x5': 'fd5460544e044722cd56fa8e',
    'hotspots/i32_12x10/rect3x5/dask(12, 10)': 'fd5460544e044722cd56fa8e',
    'hotspots/i32_12x10/rect3x5/dask(3, 3)': 'fd5460544e044722cd56fa8e',
    'hotspots/i32_12x10/rect3x5/dask(4, 5)': 'fd5460544e044722cd56fa8e',
    'hotspots/i32_12x10/rect3x5/dask(5, 4)': 'fd5460544e044722cd56fa8e',
    'hotspots/i32_12x10/rect3x5/dask(6, 2)': 'fd5460544e044722cd56fa8e',
    'hotspots/i32_12x10/row1x3': '0dfa2c1d6fcd32d40f2d4563',
    'hotspots/i32_12x10/row1x3/dask(12, 10)': '0dfa2c1d6fcd32d40f2d4563',
    'hotspots/i32_12x10/row1x3/dask(3, 3)': '0dfa2c1d6fcd32d40f2d4563',
    'hotspots/i32_12x10/row1x3/dask(4, 5)': '0dfa2c1d6fcd32d40f2d4563',
    'hotspots/i32_12x10/row1x3/dask(5, 4)': '0dfa2c1d6fcd32d40f2d4563',
    'hotspots/i32_12x10/row1x3/dask(6, 2)': '0dfa2c1d6fcd32d40f2d4563',
    'hotspots/i64_12x10/annulus5x5': '6f49fcdbfc2b2bb135fa6495',
    'hotspots/i64_12x10/annulus5x5/dask(12, 10)': '6f49fcdbfc2b2bb135fa6495',
    'hotspots/i64_12x10/annulus5x5/dask(3, 3)': '6f49fcdbfc2b2bb135fa6495',
    'hotspots/i64_12x10/annulus5x5/dask(4, 5)': '6f49fcdbfc2b2bb135fa6495',
    'hotspots/i64_12x10/annulus5x5/dask(5, 4)': '6f49fcdbfc2b2bb135fa6495',
    'hotspots/i64_12x10/annulus5x5/dask(6, 2)': '6f49fcdbfc2b2bb135fa6495',
    'hotspots/i64_12x10/circle3x3': 'c50c3f6731843ac63842ac66',
    'hotspots/i64_12x10/circle3x3/dask(12, 10)': 'c50c3f6731843ac63842ac66',
    'hotspots/i64_12x10/circle3x3/dask(3, 3)': 'c50c3f6731843ac63842ac66',
    'hotspots/i64_12x10/circle3x3/dask(4, 5)': 'c50c3f6731843ac63842ac66',
    'hotspots/i64_12x10/circle3x3/dask(5, 4)': 'c50c3f6731843ac63842ac66',
    'hotspots/i64_12x10/circle3x3/dask(6, 2)': 'c50c3f6731843ac63842ac66',
    'hotspots/i64_12x10/col3x1': '8e91653f857902beaf86869b',
    'hotspots/i64_12x10/col3x1/dask(12, 10)': '8e91653f857902beaf86869b',
    'hotspots/i64_12x10/col3x1/dask(3, 3)': '8e91653f857902beaf86869b',
    'hotspots/i64_12x10/col3x1/dask(4, 5)': '8e91653f857902beaf86869b',
    'hotspots/i64_12x10/col3x1/dask(5, 4)': '8e91653f857902beaf86869b',
    'hotspots/i64_12x10/col3x1/dask(6, 2)': '8e91653f857902beaf86869b',
    'hotspots/i64_12x10/one1x1': '718f2bc4ec49716493f83d6e',
    'hotspots/i64_12x10/one1x1/dask(12, 10)': '718f2bc4ec49716493f83d6e',
    'hotspots/i64_12x10/one1x1/dask(3, 3)': '718f2bc4ec49716493f83d6e',
    'hotspots/i64_12x10/one1x1/dask(4, 5)': '718f2bc4ec49716493f83d6e',
    'hotspots/i64_12x10/one1x1/dask(5, 4)': '718f2bc4ec49716493f83d6e',
    'hotspots/i64_12x10/one1x1/dask(6, 2)': '718f2bc4ec49716493f83d6e',
    'hotspots/i64_12x10/rect3x5': 'fd5460544e044722cd56fa8e',
    'hotspots/i64_12x10/rect3x5/dask(12, 10)': 'fd5460544e044722cd56fa8e',
    'hotspots/i64_12x10/rect3x5/dask(3, 3)': 'fd5460544e044722cd56fa8e',
    'hotspots/i64_12x10/rect3x5/dask(4, 5)': 'fd5460544e044722cd56fa8e',
    'hotspots/i64_12x10/rect3x5/dask(5, 4)': 'fd5460544e044722cd56fa8e',
    'hotspots/i64_12x10/rect3x5/dask(6, 2)': 'fd5460544e044722cd56fa8e',
    'hotspots/i64_12x10/row1x3': '0dfa2c1d6fcd32d40f2d4563',
    'hotspots/i64_12x10/row1x3/dask(12, 10)': '0dfa2c1d6fcd32d40f2d4563',
    'hotspots/i64_12x10/row1x3/dask(3, 3)': '0dfa2c1d6fcd32d40f2d4563',
    'hotspots/i64_12x10/row1x3/dask(4, 5)': '0dfa2c1d6fcd32d40f2d4563',
    'hotspots/i64_12x10/row1x3/dask(5, 4)': '0dfa2c1d6fcd32d40f2d4563',
    'hotspots/i64_12x10/row1x3/dask(6, 2)': '0dfa2c1d6fcd32d40f2d4563',
    'hotspots/u16_12x10/annulus5x5': '6f49fcdbfc2b2bb135fa6495',
    'hotspots/u16_12x10/annulus5x5/dask(12, 10)': '6f49fcdbfc2b2bb135fa6495',
    'hotspots/u16_12x10/annulus5x5/dask(3, 3)': '6f49fcdbfc2b2bb135fa6495',
    'hotspots/u16_12x10/annulus5x5/dask(4, 5)': '6f49fcdbfc2b2bb135fa6495',
    'hotspots/u16_12x10/annulus5x5/dask(5, 4)': '6f49fcdbfc2b2bb135fa6495',
    'hotspots/u16_12x10/annulus5x5/dask(6, 2)': '6f49fcdbfc2b2bb135fa6495',
    'hotspots/u16_12x10/circle3x3': 'c50c3f6731843ac63842ac66',
    'hotspots/u16_12x10/circle3x3/dask(12, 10)': 'c50c3f6731843ac63842ac66',
    'hotspots/u16_12x10/circle3x3/dask(3, 3)': 'c50c3f6731843ac63842ac66',
    'hotspots/u16_12x10/circle3x3/dask(4, 5)': 'c50c3f6731843ac63842ac66',
    'hotspots/u16_12x10/circle3x3/dask(5, 4)': 'c50c3f6731843ac63842ac66',
    'hotspots/u16_12x10/circle3x3/dask(6, 2)': 'c50c3f6731843ac63842ac66',
    'hotspots/u16_12x10/col3x1': '8e91653f857902beaf86869b',
    'hotspots/u16_12x10/col3x1/dask(12, 10)': '8e91653f857902beaf86869b',
    'hotspots/u16_12x10/col3x1/dask(3, 3)': '8e91653f857902beaf86869b',
    'hotspots/u16_12x10/col3x1/dask(4, 5)': '8e91653f857902beaf86869b',
    'hotspots/u16_12x10/col3x1/dask(5, 4)': '8e91653f857902beaf86869b',
    'hotspots/u16_12x10/col3x1/dask(6, 2)': '8e91653f857902beaf86869b',
    'hotspots/u16_12x10/one1x1': '718f2bc4ec49716493f83d6e',
    'hotspots/u16_12x10/one1x1/dask(12, 10)': '718f2bc4ec49716493f83d6e',
    'hotspots/u16_12x10/one1x1/dask(3, 3)': '718f2bc4ec49716493f83d6e',
    'hotspots/u16_12x10/one1x1/dask(4, 5)': '718f2bc4ec49716493f83d6e',
    'hotspots/u16_12x10/one1x1/dask(5, 4)': '718f2bc4ec49716493f83d6e',
    'hotspots/u16_12x10/one1x1/dask(6, 2)': '718f2bc4ec49716493f83d6e',
    'hotspots/u16_12x10/rect3x5': 'fd5460544e044722cd56fa8e',
    'hotspots/u16_12x10/rect3x5/dask(12, 10)': 'fd5460544e044722cd56fa8e',
    'hotspots/u16_12x10/rect3x5/dask(3, 3)': 'fd5460544e044722cd56fa8e',
    'hotspots/u16_12x10/rect3x5/dask(4, 5)': 'fd5460544e044722cd56fa8e',
    'hotspots/u16_12x10/rect3x5/dask(5, 4)': 'fd5460544e044722cd56fa8e',
    'hotspots/u16_12x10/rect3x5/dask(6, 2)': 'fd5460544e044722cd56fa8e',
    'hotspots/u16_12x10/row1x3': '0dfa2c1d6fcd32d40f2d4563',
    'hotspots/u16_12x10/row1x3/dask(12, 10)': '0dfa2c1d6fcd32d40f2d4563',
    'hotspots/u16_12x10/row1x3/dask(3, 3)': '0dfa2c1d6fcd32d40f2d4563',
    'hotspots/u16_12x10/row1x3/dask(4, 5)': '0dfa2c1d6fcd32d40f2d4563',
    'hotspots/u16_12x10/row1x3/dask(5, 4)': '0dfa2c1d6fcd32d40f2d4563',
    'hotspots/u16_12x10/row1x3/dask(6, 2)': '0dfa2c1d6fcd32d40f2d4563',
    'kernel/float32': 'bd64ac0298591890b1f76a1d',
    'kernel/float64': '8c816003793b83155534c6ee',
}


def main():
    print('xrspatial from', xrspatial.__file__)
    run_kernel_direct()
    run_hotspots()
    run_errors()
    if '--record' in sys.argv:
        for k in sorted(DIGESTS):
            print("    %r: %r," % (k, DIGESTS[k]))
        return 1 if FAILS else 0
    check(set(EXPECTED) == set(DIGESTS), 'digest key sets differ')
    for k in sorted(DIGESTS):
        check(EXPECTED.get(k) == DIGESTS[k], 'digest mismatch vs unmodified tree: ' + k)
    print('%d cases, %d failures' % (len(DIGESTS), len(FAILS)))
    return 1 if FAILS else 0


if __name__ == '__main__':
    sys.exit(main())
