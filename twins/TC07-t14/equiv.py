"""Differential test for proximity / allocation / direction (property C07).

Runs the public functions on a fixed family of inputs (numpy and dask, several
dtypes, NaN/inf cells, odd shapes, several chunkings, schedulers, max_distance
values, metrics, target lists, argument-handling corner cases) and compares a
digest of every outcome (dtype, shape, raw bytes, chunks of the dask result,
chunks of the input raster after the call, or the exception type) with the
digests recorded on the unmodified tree.  Also checks dask == numpy directly
inside the documented domain.

    RECORD=1 python equiv.py   prints the digest table (used once, on the
                               unmodified tree, to fill EXPECTED below)
Exit status 0 if everything is identical, 1 otherwise.
"""
import hashlib
import os
import sys

import dask
import dask.array as da
import numpy as np
import xarray as xr

import xrspatial
from xrspatial import allocation, direction, proximity

FUNCS = {"proximity": proximity, "allocation": allocation, "direction": direction}


def make_raster(shape, dtype, seed, xres=0.5, yres=2.0, x0=-3.0, y0=10.0,
                dims=("y", "x"), density=0.2, specials=True, res=None):
    rng = np.random.RandomState(seed)
    h, w = shape
    data = np.zeros(shape, dtype="f8")
    mask = rng.rand(h, w) < density
    data[mask] = rng.randint(1, 5, size=int(mask.sum()))
    if specials and np.dtype(dtype).kind == "f" and h * w >= 12:
        flat = data.reshape(-1)
        flat[rng.randint(0, h * w)] = np.nan
        flat[rng.randint(0, h * w)] = np.inf
        flat[rng.randint(0, h * w)] = -2.5
    data = data.astype(dtype)
    r = xr.DataArray(data, dims=dims, name="src", attrs={"res": res or (xres, yres), "k": 1})
    r[dims[1]] = x0 + xres * np.arange(w)
    r[dims[0]] = y0 - yres * np.arange(h)
    return r


def to_dask(r, chunks):
    d = r.copy()
    d.data = da.from_array(r.data, chunks=chunks)
    return d


def digest(a):
    a = np.ascontiguousarray(a)
    m = hashlib.sha256()
    m.update(str(a.dtype).encode())
    m.update(str(a.shape).encode())
    m.update(a.tobytes())
    return m.hexdigest()[:20]


def outcome(fname, raster, kwargs, scheduler=None):
    """digest of the result (or exception type) + observable side data"""
    fn = FUNCS[fname]
    is_dask = isinstance(raster.data, da.Array)
    try:
        res = fn(raster, **kwargs)
        parts = [type(res.data).__module__.split(".")[0]]
        if is_dask:
            parts.append("rc" + str(res.chunks))
            parts.append("ic" + str(raster.chunks))
            with dask.config.set(scheduler=scheduler or "synchronous"):
                val = res.compute().data
        else:
            val = res.data
        meta_ok = (res.dims == raster.dims and res.attrs == raster.attrs
                   and all(np.array_equal(res[c].data, raster[c].data) for c in raster.dims))
        parts.append("meta" + str(int(meta_ok)))
        parts.append(digest(val))
        return "|".join(parts), val
    except Exception as e:  # noqa
        return "EXC:" + type(e).__name__ + ":" + str(e)[:60].replace("\n", " "), None


def cases():
    """yield (key, fname, raster_factory, kwargs, scheduler, compare_with_numpy_key)"""
    out = []

    def add(key, fname, mk, kwargs, sched=None):
        out.append((key, fname, mk, kwargs, sched))

    base = lambda dt="f8", shape=(7, 9), seed=1: make_raster(shape, dt, seed)  # noqa

    # --- numpy: modes x metrics x max_distance, dtypes, shapes
    for fname in FUNCS:
        add("np/%s/default" % fname, fname, lambda: base(), {})
        add("np/%s/md1.2" % fname, fname, lambda: base(), {"max_distance": 1.2})
        add("np/%s/manh-md3" % fname, fname, lambda: base(),
            {"max_distance": 3, "distance_metric": "MANHATTAN"})
        add("np/%s/gc" % fname, fname, lambda: base(),
            {"distance_metric": "GREAT_CIRCLE", "max_distance": 400000.0})
        add("np/%s/targets" % fname, fname, lambda: base(), {"target_values": [2, 4]})
    for dt in ("f4", "i4", "i8", "u1"):
        add("np/allocation/dt-%s" % dt, "allocation", lambda dt=dt: base(dt), {"max_distance": 2.6})
        add("np/proximity/dt-%s" % dt, "proximity", lambda dt=dt: base(dt), {})
    for shape in ((1, 6), (5, 1), (1, 1), (2, 13)):
        add("np/direction/shape-%s" % (shape,), "direction",
            lambda shape=shape: base("f8", shape, 3), {})
        add("np/proximity/shape-%s" % (shape,), "proximity",
            lambda shape=shape: base("f4", shape, 3), {"max_distance": 1.0})

    # --- argument handling
    add("arg/md-none", "proximity", lambda: base(), {"max_distance": None})
    add("arg/md-int", "allocation", lambda: base(), {"max_distance": 2})
    add("arg/md-npf32", "proximity", lambda: base(), {"max_distance": np.float32(2.5)})
    add("arg/md-zero", "proximity", lambda: base(), {"max_distance": 0})
    add("arg/md-neg", "proximity", lambda: base(), {"max_distance": -1.0})
    add("arg/md-nan", "proximity", lambda: base(), {"max_distance": np.nan})
    add("arg/metric-bogus", "direction", lambda: base(), {"distance_metric": "bogus"})
    add("arg/metric-lower", "proximity", lambda: base(), {"distance_metric": "manhattan"})
    add("arg/metric-none", "proximity", lambda: base(), {"distance_metric": None})
    add("arg/metric-int", "proximity", lambda: base(), {"distance_metric": 2})
    add("arg/metric-unhashable", "proximity", lambda: base(), {"distance_metric": ["EUCLIDEAN"]})
    add("arg/targets-tuple", "allocation", lambda: base(), {"target_values": (3,)})
    add("arg/targets-arr", "allocation", lambda: base(), {"target_values": np.array([2.0, 1.0])})
    add("arg/targets-nan", "proximity", lambda: base(), {"target_values": [np.nan]})
    add("arg/targets-absent", "proximity", lambda: base(), {"target_values": [77]})
    add("arg/targets-ragged", "proximity", lambda: base(), {"target_values": [[1, 2], [3]]})
    add("arg/targets-str", "proximity", lambda: base(), {"target_values": ["a"]})
    add("arg/dims-wrong", "proximity", lambda: base(), {"x": "lon", "y": "lat"})
    add("arg/dims-swapped", "proximity", lambda: base(), {"x": "y", "y": "x"})
    add("arg/dims-wrong+unhashable", "proximity", lambda: base(),
        {"x": "lon", "distance_metric": ["E"]})
    add("arg/dims-wrong+ragged", "proximity", lambda: base(),
        {"x": "lon", "target_values": [[1, 2], [3]]})
    add("arg/unhashable+ragged", "proximity", lambda: base(),
        {"distance_metric": ["E"], "target_values": [[1, 2], [3]]})
    add("arg/dims-named", "direction",
        lambda: make_raster((6, 5), "f8", 5, dims=("lat", "lon")), {"x": "lon", "y": "lat"})
    add("arg/gc-out-of-range", "proximity",
        lambda: make_raster((6, 5), "f8", 5, x0=170.0, xres=5.0), {"distance_metric": "GREAT_CIRCLE"})
    add("arg/gc-out-of-range+ragged", "proximity",
        lambda: make_raster((6, 5), "f8", 5, x0=170.0, xres=5.0),
        {"distance_metric": "GREAT_CIRCLE", "target_values": [[1, 2], [3]]})
    add("arg/3d", "proximity",
        lambda: xr.DataArray(np.zeros((2, 3, 4)), dims=("b", "y", "x")), {})
    add("arg/dask-dims-wrong", "proximity", lambda: to_dask(base(), (3, 4)), {"x": "lon"})
    add("arg/dask-md-none", "allocation", lambda: to_dask(base(), (3, 4)), {"max_distance": None})
    add("arg/dask-md-nan", "allocation", lambda: to_dask(base(), (3, 4)), {"max_distance": np.nan})
    add("arg/dask-metric-bogus", "proximity", lambda: to_dask(base(), (3, 4)),
        {"distance_metric": "bogus", "max_distance": 1.0})
    # representation corner cases: 0-d / 2-d target arrays, empty ndarray, bool/float16 rasters
    add("rep/targets-0d", "proximity", lambda: base(), {"target_values": 3})
    add("rep/targets-2d", "allocation", lambda: base(), {"target_values": [[1, 2], [3, 4]]})
    add("rep/targets-empty-arr", "direction", lambda: base(), {"target_values": np.array([], dtype="i4")})
    add("rep/dt-bool", "allocation", lambda: base("?"), {})
    add("rep/dt-f2", "allocation", lambda: base("f2"), {"max_distance": 3.0})
    add("rep/dask-dt-f4-alloc", "allocation", lambda: to_dask(base("f4", (9, 8), 21), (4, 3)),
        {"max_distance": 1.5})
    add("rep/direction-all-angles", "direction",
        lambda: make_raster((11, 11), "f8", 22, xres=1.0, yres=1.0, density=0.02, specials=False), {})
    # halo (in cells) larger than the raster: outside the domain, outcome recorded only
    add("dom/halo-gt-width", "proximity", lambda: to_dask(make_raster((12, 10), "f8", 11), (5, 4)),
        {"max_distance": 22.4})
    add("dom/halo-gc-metres", "proximity", lambda: to_dask(make_raster((12, 10), "f8", 11), (6, 5)),
        {"max_distance": 150000.0, "distance_metric": "GREAT_CIRCLE"})
    return out


# dask cases that are also compared with the numpy result directly
# (fname, shape, dtype, seed, chunks, kwargs, scheduler[, res attribute])
DASK_CASES = [
    ("proximity", (12, 10), "f8", 11, (5, 4), {}, "synchronous"),
    ("allocation", (12, 10), "f8", 11, (5, 4), {"max_distance": np.inf}, "threads"),
    ("direction", (12, 10), "f4", 11, (12, 10), {}, "synchronous"),
    ("proximity", (12, 10), "f8", 11, (5, 4), {"max_distance": 0.3}, "synchronous"),
    ("proximity", (12, 10), "f8", 11, (5, 4), {"max_distance": 0.5}, "threads"),
    ("allocation", (12, 10), "f8", 11, (5, 4), {"max_distance": 1.0}, "synchronous"),
    ("direction", (12, 10), "f8", 11, (6, 5), {"max_distance": 2.0}, "synchronous"),
    ("proximity", (12, 10), "f4", 11, (4, 5), {"max_distance": 2.2}, "synchronous"),
    ("allocation", (12, 10), "f8", 11, ((5, 7), (3, 3, 4)), {"max_distance": 3.0}, "threads"),
    ("direction", (12, 10), "f8", 11, (6, 10), {"max_distance": 4.1}, "synchronous"),
    ("proximity", (12, 10), "f8", 11, (6, 5),
     {"max_distance": 3, "distance_metric": "MANHATTAN"}, "synchronous"),
    ("allocation", (12, 10), "f8", 11, (6, 5),
     {"max_distance": 2.0, "target_values": [1, 3]}, "synchronous"),
    ("proximity", (12, 10), "f8", 11, (6, 5),
     {"max_distance": 150000.0, "distance_metric": "GREAT_CIRCLE"}, "synchronous", (55000.0, 220000.0)),
    ("direction", (12, 10), "f8", 11, (6, 5),
     {"max_distance": 5.0e7, "distance_metric": "GREAT_CIRCLE"}, "threads"),
    ("proximity", (12, 10), "f8", 11, (5, 4), {"max_distance": 23.0}, "synchronous"),
    ("proximity", (12, 10), "f8", 11, (5, 4), {"max_distance": 5.0}, "synchronous"),
    ("allocation", (12, 10), "f8", 11, (5, 4), {"max_distance": 1.0e9}, "synchronous"),
    ("proximity", (9, 7), "i4", 12, (3, 7), {}, "synchronous"),
    ("allocation", (9, 7), "i8", 12, (4, 3), {"max_distance": 1.0}, "synchronous"),
    ("direction", (1, 8), "f8", 13, (1, 3), {"max_distance": 1.0}, "synchronous"),
    ("proximity", (8, 1), "f8", 13, (3, 1), {}, "synchronous"),
    ("proximity", (6, 6), "f8", 14, (1, 1), {"max_distance": 0.4}, "synchronous"),
]


def halo_target_case():
    """single target just inside / just outside the halo of the neighbouring chunk"""
    res = []
    for col, md in ((3, 2.0), (3, 2.49), (3, 2.5), (2, 2.0), (2, 3.0), (2, 3.2)):
        data = np.zeros((6, 12))
        data[2, col] = 7.0
        r = xr.DataArray(data, dims=("y", "x"), attrs={"res": (1.0, 1.0)})
        r["x"] = np.arange(12.0)
        r["y"] = np.arange(6.0)[::-1]
        res.append((col, md, r))
    return res


def main():
    record = bool(os.environ.get("RECORD"))
    got = {}
    direct_failures = []

    for key, fname, mk, kwargs, sched in cases():
        got[key], _ = outcome(fname, mk(), kwargs, sched)

    for i, case in enumerate(DASK_CASES):
        fname, shape, dt, seed, chunks, kwargs, sched = case[:7]
        r = make_raster(shape, dt, seed, res=case[7] if len(case) > 7 else None)
        key = "dask/%02d/%s" % (i, fname)
        o_np, v_np = outcome(fname, r, kwargs)
        o_da, v_da = outcome(fname, to_dask(r, chunks), kwargs, sched)
        got[key + "/np"] = o_np
        got[key + "/da"] = o_da
        if np.dtype(dt).kind == "f":
            if v_np is None or v_da is None or v_np.dtype != v_da.dtype \
                    or not np.array_equal(v_np, v_da, equal_nan=True):
                direct_failures.append(key)

    for col, md, r in halo_target_case():
        for fname in ("proximity", "allocation", "direction"):
            key = "halo/c%d/md%s/%s" % (col, md, fname)
            o_np, v_np = outcome(fname, r, {"max_distance": md})
            o_da, v_da = outcome(fname, to_dask(r, (3, 6)), {"max_distance": md})
            got[key + "/np"] = o_np
            got[key + "/da"] = o_da
            if v_np is None or v_da is None or not np.array_equal(v_np, v_da, equal_nan=True):
                direct_failures.append(key)

    if record:
        print("EXPECTED = {")
        for k in sorted(got):
            print("    %r: %r," % (k, got[k]))
        print("}")
        print("# direct failures:", direct_failures, file=sys.stderr)
        return 0

    bad = 0
    for k in sorted(set(got) | set(EXPECTED)):
        if got.get(k) != EXPECTED.get(k):
            bad += 1
            print("MISMATCH %s: expected %r got %r" % (k, EXPECTED.get(k), got.get(k)))
    for k in direct_failures:
        bad += 1
        print("DASK != NUMPY:", k)
    print("xrspatial from", os.path.dirname(xrspatial.__file__))
    print("%d outcomes compared, %d mismatches" % (len(got), bad))
    return 1 if bad else 0


# recorded on the unmodified tree
EXPECTED = {
    'arg/3d': 'EXC:ValueError:raster.coords should be named as coordinates:(y, x)',
    'arg/dask-dims-wrong': 'EXC:ValueError:raster.coords should be named as coordinates:(y, lon)',
    'arg/dask-md-nan': 'EXC:ValueError:cannot convert float NaN to integer',
    'arg/dask-md-none': 'dask|rc((7,), (9,))|ic((7,), (9,))|meta1|0bc6f59758831125ba5a',
    'arg/dask-metric-bogus': 'dask|rc((3, 3, 1), (4, 3, 2))|ic((3, 3, 1), (4, 4, 1))|meta1|ffefdfe76aefc0ccb3ff',
    'arg/dims-named': 'numpy|meta1|b682908bdf660d87fa92',
    'arg/dims-swapped': 'EXC:ValueError:raster.coords should be named as coordinates:(x, y)',
    'arg/dims-wrong': 'EXC:ValueError:raster.coords should be named as coordinates:(lat, lon)',
    'arg/dims-wrong+ragged': 'EXC:ValueError:raster.coords should be named as coordinates:(y, lon)',
    'arg/dims-wrong+unhashable': 'EXC:ValueError:raster.coords should be named as coordinates:(y, lon)',
    'arg/gc-out-of-range': 'EXC:ValueError:Invalid x-coordinate of the second point.Must be in the rang',
    'arg/gc-out-of-range+ragged': 'EXC:ValueError:setting an array element with a sequence. The requested arra',
    'arg/md-int': 'numpy|meta1|0bc6f59758831125ba5a',
    'arg/md-nan': 'numpy|meta1|9a97b2b3537f540604b8',
    'arg/md-neg': 'numpy|meta1|ffefdfe76aefc0ccb3ff',
    'arg/md-none': 'numpy|meta1|e219d42f590d51dac450',
    'arg/md-npf32': 'numpy|meta1|e219d42f590d51dac450',
    'arg/md-zero': 'numpy|meta1|9a97b2b3537f540604b8',
    'arg/metric-bogus': 'numpy|meta1|52e6891ee72df9a67110',
    'arg/metric-int': 'numpy|meta1|e219d42f590d51dac450',
    'arg/metric-lower': 'numpy|meta1|e219d42f590d51dac450',
    'arg/metric-none': 'numpy|meta1|e219d42f590d51dac450',
    'arg/metric-unhashable': "EXC:TypeError:unhashable type: 'list'",
    'arg/targets-absent': 'numpy|meta1|fb2084599d74322f2842',
    'arg/targets-arr': 'numpy|meta1|ad546f3536aed7524248',
    'arg/targets-nan': 'numpy|meta1|fb2084599d74322f2842',
    'arg/targets-ragged': 'EXC:ValueError:setting an array element with a sequence. The requested arra',
    'arg/targets-str': 'numpy|meta1|fb2084599d74322f2842',
    'arg/targets-tuple': 'numpy|meta1|f8758e1ab45ce6095f1a',
    'arg/unhashable+ragged': "EXC:TypeError:unhashable type: 'list'",
    'dask/00/proximity/da': 'dask|rc((12,), (10,))|ic((12,), (10,))|meta1|ccd3d162c694d4561809',
    'dask/00/proximity/np': 'numpy|meta1|ccd3d162c694d4561809',
    'dask/01/allocation/da': 'dask|rc((12,), (10,))|ic((12,), (10,))|meta1|8f72fe42e5e33d34e1cf',
    'dask/01/allocation/np': 'numpy|meta1|8f72fe42e5e33d34e1cf',
    'dask/02/direction/da': 'dask|rc((12,), (10,))|ic((12,), (10,))|meta1|4e0be277a540bdf0665d',
    'dask/02/direction/np': 'numpy|meta1|4e0be277a540bdf0665d',
    'dask/03/proximity/da': 'dask|rc((5, 5, 2), (4, 4, 2))|ic((5, 5, 2), (4, 4, 2))|meta1|618d2797e08915916c96',
    'dask/03/proximity/np': 'numpy|meta1|618d2797e08915916c96',
    'dask/04/proximity/da': 'dask|rc((5, 5, 2), (4, 4, 2))|ic((5, 5, 2), (4, 4, 2))|meta1|2fefcdfb224ba6575689',
    'dask/04/proximity/np': 'numpy|meta1|2fefcdfb224ba6575689',
    'dask/05/allocation/da': 'dask|rc((5, 5, 2), (4, 4, 2))|ic((5, 5, 2), (4, 4, 2))|meta1|f719788faf650fbef7e8',
    'dask/05/allocation/np': 'numpy|meta1|f719788faf650fbef7e8',
    'dask/06/direction/da': 'dask|rc((6, 6), (5, 5))|ic((6, 6), (5, 5))|meta1|40e598ec9f2f1c23f22d',
    'dask/06/direction/np': 'numpy|meta1|40e598ec9f2f1c23f22d',
    'dask/07/proximity/da': 'dask|rc((4, 4, 4), (5, 5))|ic((4, 4, 4), (5, 5))|meta1|491c57c7a1d1803a5f47',
    'dask/07/proximity/np': 'numpy|meta1|491c57c7a1d1803a5f47',
    'dask/08/allocation/da': 'dask|rc((5, 7), (10,))|ic((5, 7), (3, 3, 4))|meta1|7611ec63a930c0b8150c',
    'dask/08/allocation/np': 'numpy|meta1|7611ec63a930c0b8150c',
    'dask/09/direction/da': 'dask|rc((6, 6), (10,))|ic((6, 6), (10,))|meta1|4e0be277a540bdf0665d',
    'dask/09/direction/np': 'numpy|meta1|4e0be277a540bdf0665d',
    'dask/10/proximity/da': 'dask|rc((6, 6), (10,))|ic((6, 6), (5, 5))|meta1|7d1ba011fbe5860bc16c',
    'dask/10/proximity/np': 'numpy|meta1|7d1ba011fbe5860bc16c',
    'dask/11/allocation/da': 'dask|rc((6, 6), (5, 5))|ic((6, 6), (5, 5))|meta1|e9b58b3dcd141c7adf5a',
    'dask/11/allocation/np': 'numpy|meta1|e9b58b3dcd141c7adf5a',
    'dask/12/proximity/da': 'dask|rc((6, 6), (5, 5))|ic((6, 6), (5, 5))|meta1|a67cc9fcc16868f50583',
    'dask/12/proximity/np': 'numpy|meta1|a67cc9fcc16868f50583',
    'dask/13/direction/da': 'dask|rc((12,), (10,))|ic((12,), (10,))|meta1|4e0be277a540bdf0665d',
    'dask/13/direction/np': 'numpy|meta1|4e0be277a540bdf0665d',
    'dask/14/proximity/da': 'dask|rc((12,), (10,))|ic((12,), (10,))|meta1|ccd3d162c694d4561809',
    'dask/14/proximity/np': 'numpy|meta1|ccd3d162c694d4561809',
    'dask/15/proximity/da': 'dask|rc((5, 4, 3), (10,))|ic((5, 5, 2), (4, 4, 2))|meta1|ccd3d162c694d4561809',
    'dask/15/proximity/np': 'numpy|meta1|ccd3d162c694d4561809',
    'dask/16/allocation/da': 'dask|rc((12,), (10,))|ic((12,), (10,))|meta1|8f72fe42e5e33d34e1cf',
    'dask/16/allocation/np': 'numpy|meta1|8f72fe42e5e33d34e1cf',
    'dask/17/proximity/da': 'dask|rc((9,), (7,))|ic((9,), (7,))|meta1|f5e6bc3f1f3d24465abb',
    'dask/17/proximity/np': 'numpy|meta1|f5e6bc3f1f3d24465abb',
    'dask/18/allocation/da': 'dask|rc((4, 4, 1), (3, 4))|ic((4, 4, 1), (3, 3, 1))|meta1|1d6db2ddf6802277ce9c',
    'dask/18/allocation/np': 'numpy|meta1|1d6db2ddf6802277ce9c',
    'dask/19/direction/da': 'dask|rc((1,), (3, 3, 2))|ic((1,), (3, 3, 2))|meta1|025b015a19e07b77fa94',
    'dask/19/direction/np': 'numpy|meta1|025b015a19e07b77fa94',
    'dask/20/proximity/da': 'dask|rc((8,), (1,))|ic((8,), (1,))|meta1|9000a381126e4a957c28',
    'dask/20/proximity/np': 'numpy|meta1|9000a381126e4a957c28',
    'dask/21/proximity/da': 'dask|rc((1, 1, 1, 1, 1, 1), (1, 1, 1, 1, 1, 1))|ic((1, 1, 1, 1, 1, 1), (1, 1, 1, 1, 1, 1))|meta1|fc8aa87a20e60a4bd757',
    'dask/21/proximity/np': 'numpy|meta1|fc8aa87a20e60a4bd757',
    'dom/halo-gc-metres': 'EXC:ValueError:The overlapping depth 75000 is larger than your array 12.',
    'dom/halo-gt-width': 'EXC:ValueError:The overlapping depth 45 is larger than your array 10.',
    'halo/c2/md2.0/allocation/da': 'dask|rc((3, 3), (6, 6))|ic((3, 3), (6, 6))|meta1|43e8d073b07e5011c9a8',
    'halo/c2/md2.0/allocation/np': 'numpy|meta1|43e8d073b07e5011c9a8',
    'halo/c2/md2.0/direction/da': 'dask|rc((3, 3), (6, 6))|ic((3, 3), (6, 6))|meta1|907985424f4d835fda3a',
    'halo/c2/md2.0/direction/np': 'numpy|meta1|907985424f4d835fda3a',
    'halo/c2/md2.0/proximity/da': 'dask|rc((3, 3), (6, 6))|ic((3, 3), (6, 6))|meta1|4742e6538e7d0dc231e0',
    'halo/c2/md2.0/proximity/np': 'numpy|meta1|4742e6538e7d0dc231e0',
    'halo/c2/md3.0/allocation/da': 'dask|rc((3, 3), (6, 6))|ic((3, 3), (6, 6))|meta1|449dc2d720fbc49e607d',
    'halo/c2/md3.0/allocation/np': 'numpy|meta1|449dc2d720fbc49e607d',
    'halo/c2/md3.0/direction/da': 'dask|rc((3, 3), (6, 6))|ic((3, 3), (6, 6))|meta1|2a166ecef71e266fcd24',
    'halo/c2/md3.0/direction/np': 'numpy|meta1|2a166ecef71e266fcd24',
    'halo/c2/md3.0/proximity/da': 'dask|rc((3, 3), (6, 6))|ic((3, 3), (6, 6))|meta1|1e25a53763e81b7878b7',
    'halo/c2/md3.0/proximity/np': 'numpy|meta1|1e25a53763e81b7878b7',
    'halo/c2/md3.2/allocation/da': 'dask|rc((3, 3), (6, 6))|ic((3, 3), (6, 6))|meta1|51870e37faad2fcd0541',
    'halo/c2/md3.2/allocation/np': 'numpy|meta1|51870e37faad2fcd0541',
    'halo/c2/md3.2/direction/da': 'dask|rc((3, 3), (6, 6))|ic((3, 3), (6, 6))|meta1|f5dd3b9a67d0d8a0834f',
    'halo/c2/md3.2/direction/np': 'numpy|meta1|f5dd3b9a67d0d8a0834f',
    'halo/c2/md3.2/proximity/da': 'dask|rc((3, 3), (6, 6))|ic((3, 3), (6, 6))|meta1|88bad9bf449c76bf5f53',
    'halo/c2/md3.2/proximity/np': 'numpy|meta1|88bad9bf449c76bf5f53',
    'halo/c3/md2.0/allocation/da': 'dask|rc((3, 3), (6, 6))|ic((3, 3), (6, 6))|meta1|d0b1398d754652aa2626',
    'halo/c3/md2.0/allocation/np': 'numpy|meta1|d0b1398d754652aa2626',
    'halo/c3/md2.0/direction/da': 'dask|rc((3, 3), (6, 6))|ic((3, 3), (6, 6))|meta1|10c6cb419ff5e06ea7b8',
    'halo/c3/md2.0/direction/np': 'numpy|meta1|10c6cb419ff5e06ea7b8',
    'halo/c3/md2.0/proximity/da': 'dask|rc((3, 3), (6, 6))|ic((3, 3), (6, 6))|meta1|0fd95d56f491653d315e',
    'halo/c3/md2.0/proximity/np': 'numpy|meta1|0fd95d56f491653d315e',
    'halo/c3/md2.49/allocation/da': 'dask|rc((3, 3), (6, 6))|ic((3, 3), (6, 6))|meta1|b6f65d3a51ad53f89848',
    'halo/c3/md2.49/allocation/np': 'numpy|meta1|b6f65d3a51ad53f89848',
    'halo/c3/md2.49/direction/da': 'dask|rc((3, 3), (6, 6))|ic((3, 3), (6, 6))|meta1|a6b72794f59d5024f383',
    'halo/c3/md2.49/direction/np': 'numpy|meta1|a6b72794f59d5024f383',
    'halo/c3/md2.49/proximity/da': 'dask|rc((3, 3), (6, 6))|ic((3, 3), (6, 6))|meta1|09c025b26a5c2bd2a197',
    'halo/c3/md2.49/proximity/np': 'numpy|meta1|09c025b26a5c2bd2a197',
    'halo/c3/md2.5/allocation/da': 'dask|rc((3, 3), (6, 6))|ic((3, 3), (6, 6))|meta1|b6f65d3a51ad53f89848',
    'halo/c3/md2.5/allocation/np': 'numpy|meta1|b6f65d3a51ad53f89848',
    'halo/c3/md2.5/direction/da': 'dask|rc((3, 3), (6, 6))|ic((3, 3), (6, 6))|meta1|a6b72794f59d5024f383',
    'halo/c3/md2.5/direction/np': 'numpy|meta1|a6b72794f59d5024f383',
    'halo/c3/md2.5/proximity/da': 'dask|rc((3, 3), (6, 6))|ic((3, 3), (6, 6))|meta1|09c025b26a5c2bd2a197',
    'halo/c3/md2.5/proximity/np': 'numpy|meta1|09c025b26a5c2bd2a197',
    'np/allocation/default': 'numpy|meta1|0bc6f59758831125ba5a',
    'np/allocation/dt-f4': 'numpy|meta1|0bc6f59758831125ba5a',
    'np/allocation/dt-i4': 'numpy|meta1|7a05ea03536fb37b778b',
    'np/allocation/dt-i8': 'numpy|meta1|7a05ea03536fb37b778b',
    'np/allocation/dt-u1': 'numpy|meta1|7a05ea03536fb37b778b',
    'np/allocation/gc': 'numpy|meta1|0bc6f59758831125ba5a',
    'np/allocation/manh-md3': 'numpy|meta1|0bc6f59758831125ba5a',
    'np/allocation/md1.2': 'numpy|meta1|4d3115deec1e18c76dcb',
    'np/allocation/targets': 'numpy|meta1|f241785049d3b5339cb5',
    'np/direction/default': 'numpy|meta1|52e6891ee72df9a67110',
    'np/direction/gc': 'numpy|meta1|52e6891ee72df9a67110',
    'np/direction/manh-md3': 'numpy|meta1|52e6891ee72df9a67110',
    'np/direction/md1.2': 'numpy|meta1|b26250f3ecf6c86923bd',
    'np/direction/shape-(1, 1)': 'numpy|meta1|3d8106d92e9af40a7249',
    'np/direction/shape-(1, 6)': 'numpy|meta1|e739b214884fbc158e0f',
    'np/direction/shape-(2, 13)': 'numpy|meta1|1c07b397d2aa1fccf480',
    'np/direction/shape-(5, 1)': 'numpy|meta1|1e59735f4d4cf8f278ed',
    'np/direction/targets': 'numpy|meta1|a3c414de675e670ace4e',
    'np/proximity/default': 'numpy|meta1|e219d42f590d51dac450',
    'np/proximity/dt-f4': 'numpy|meta1|e219d42f590d51dac450',
    'np/proximity/dt-i4': 'numpy|meta1|a9de7f814f37279fa918',
    'np/proximity/dt-i8': 'numpy|meta1|a9de7f814f37279fa918',
    'np/proximity/dt-u1': 'numpy|meta1|a9de7f814f37279fa918',
    'np/proximity/gc': 'numpy|meta1|d2b569d77e5a9b14e7a1',
    'np/proximity/manh-md3': 'numpy|meta1|e219d42f590d51dac450',
    'np/proximity/md1.2': 'numpy|meta1|ffefdfe76aefc0ccb3ff',
    'np/proximity/shape-(1, 1)': 'numpy|meta1|3d8106d92e9af40a7249',
    'np/proximity/shape-(1, 6)': 'numpy|meta1|e739b214884fbc158e0f',
    'np/proximity/shape-(2, 13)': 'numpy|meta1|237d11a80723120f5d89',
    'np/proximity/shape-(5, 1)': 'numpy|meta1|1e59735f4d4cf8f278ed',
    'np/proximity/targets': 'numpy|meta1|e56b248c22c9169721dc',
    'rep/dask-dt-f4-alloc': 'dask|rc((4, 4, 1), (3, 5))|ic((4, 4, 1), (3, 3, 2))|meta1|3e73595fc9056dc72d50',
    'rep/direction-all-angles': 'numpy|meta1|490ea938a79ec58c1cf3',
    'rep/dt-bool': 'numpy|meta1|8d04d14934d17d09ed20',
    'rep/dt-f2': 'EXC:NotImplementedError:float16',
    'rep/targets-0d': 'EXC:TypingError:Failed in nopython mode pipeline (step: nopython frontend) \x1b',
    'rep/targets-2d': 'EXC:ValueError:The truth value of an array with more than one element is am',
    'rep/targets-empty-arr': 'numpy|meta1|52e6891ee72df9a67110',
}

if __name__ == "__main__":
    sys.exit(main())
