"""Differential test for TC10-t12 (multispectral.py: _true_color_numpy, alpha channel
by boolean-mask assignment instead of np.where, band loop instead of three
statements).

Runs xrspatial.multispectral.true_color on numpy and dask rasters (all integer /
float dtypes, NaNs, several nodata / contrast settings, odd shapes, C / F /
strided / read-only layouts) and compares

  * the bit pattern (dtype, shape, bytes) of every result - or the type and
    message of the exception raised - with what was recorded on the unmodified
    tree (EXPECTED below),
  * the alpha channel with an independent re-computation and the colour channels
    with an independent float64 sigmoid stretch (+-1 grey level),
  * dask results with numpy results,
  * the C10 side conditions (inputs unchanged, no shared memory, y / x coords and
    the red band's attrs kept, backend kept).

usage: equiv.py            compare, exit 0 if identical
       equiv.py --record   print the table of the current tree
"""
import hashlib
import sys
import warnings

import dask.array as da
import numpy as np
import xarray as xr

import xrspatial
from xrspatial.multispectral import true_color

EXPECTED = {
    '(1, 1)|float32|C|o0|da-whole': 'a6ab1aa09ccdbd2abc49/((1,), (1,), (1, 1, 1, 1))',
    '(1, 1)|float32|C|o0|np': 'a6ab1aa09ccdbd2abc49',
    '(1, 1)|uint16|C|o0|da-whole': 'a6ab1aa09ccdbd2abc49/((1,), (1,), (1, 1, 1, 1))',
    '(1, 1)|uint16|C|o0|np': 'a6ab1aa09ccdbd2abc49',
    '(1, 5)|float32|C|o0|da-whole': 'c489d53f6860c20cf7f1/((1,), (5,), (1, 1, 1, 1))',
    '(1, 5)|float32|C|o0|np': 'c489d53f6860c20cf7f1',
    '(1, 5)|uint16|C|o0|da-whole': '25e738adc01751f66204/((1,), (5,), (1, 1, 1, 1))',
    '(1, 5)|uint16|C|o0|np': '25e738adc01751f66204',
    '(2, 9)|float32|C|o0|da-whole': 'c330b19c681b5d7d8f68/((2,), (9,), (1, 1, 1, 1))',
    '(2, 9)|float32|C|o0|np': 'c330b19c681b5d7d8f68',
    '(2, 9)|uint16|C|o0|da-whole': '8f86eb04792b254b2f19/((2,), (9,), (1, 1, 1, 1))',
    '(2, 9)|uint16|C|o0|np': '8f86eb04792b254b2f19',
    '(3, 3)|float32|C|o0|da-whole': 'eb7f7040dee6c29391e9/((3,), (3,), (1, 1, 1, 1))',
    '(3, 3)|float32|C|o0|np': 'eb7f7040dee6c29391e9',
    '(3, 3)|uint16|C|o0|da-whole': 'c53b451d03b27bbd2b2a/((3,), (3,), (1, 1, 1, 1))',
    '(3, 3)|uint16|C|o0|np': 'c53b451d03b27bbd2b2a',
    '(4, 1)|float32|C|o0|da-whole': 'c13d6444865d89a6058f/((4,), (1,), (1, 1, 1, 1))',
    '(4, 1)|float32|C|o0|np': 'c13d6444865d89a6058f',
    '(4, 1)|uint16|C|o0|da-whole': 'b3affeb9de62a429bcad/((4,), (1,), (1, 1, 1, 1))',
    '(4, 1)|uint16|C|o0|np': 'b3affeb9de62a429bcad',
    '(6, 7)|float32|C|o0|da-split': '69652dddcfa9fff9edbb/((3, 3), (2, 2, 2, 1), (1, 1, 1, 1))',
    '(6, 7)|float32|C|o0|da-whole': '69652dddcfa9fff9edbb/((6,), (7,), (1, 1, 1, 1))',
    '(6, 7)|float32|C|o0|np': '69652dddcfa9fff9edbb',
    '(6, 7)|float32|C|o1|da-split': '95203d852831c867e5ea/((3, 3), (2, 2, 2, 1), (1, 1, 1, 1))',
    '(6, 7)|float32|C|o1|da-whole': '95203d852831c867e5ea/((6,), (7,), (1, 1, 1, 1))',
    '(6, 7)|float32|C|o1|np': '95203d852831c867e5ea',
    '(6, 7)|float32|F|o0|np': '206ee375f7b159049566',
    '(6, 7)|float32|readonly|o0|np': '206ee375f7b159049566',
    '(6, 7)|float32|strided|o0|np': '206ee375f7b159049566',
    '(6, 7)|float64|C|o0|da-split': '69652dddcfa9fff9edbb/((3, 3), (2, 2, 2, 1), (1, 1, 1, 1))',
    '(6, 7)|float64|C|o0|da-whole': '69652dddcfa9fff9edbb/((6,), (7,), (1, 1, 1, 1))',
    '(6, 7)|float64|C|o0|np': '69652dddcfa9fff9edbb',
    '(6, 7)|float64|C|o1|da-split': '95203d852831c867e5ea/((3, 3), (2, 2, 2, 1), (1, 1, 1, 1))',
    '(6, 7)|float64|C|o1|da-whole': '95203d852831c867e5ea/((6,), (7,), (1, 1, 1, 1))',
    '(6, 7)|float64|C|o1|np': '95203d852831c867e5ea',
    '(6, 7)|float64|C|x0|da-split': '681b047500319cc9839b/((3, 3), (2, 2, 2, 1), (1, 1, 1, 1))',
    '(6, 7)|float64|C|x0|da-whole': '681b047500319cc9839b/((6,), (7,), (1, 1, 1, 1))',
    '(6, 7)|float64|C|x0|np': '681b047500319cc9839b',
    '(6, 7)|float64|C|x1|da-split': 'c8cf3e0a285bad57a601/((3, 3), (2, 2, 2, 1), (1, 1, 1, 1))',
    '(6, 7)|float64|C|x1|da-whole': 'c8cf3e0a285bad57a601/((6,), (7,), (1, 1, 1, 1))',
    '(6, 7)|float64|C|x1|np': 'c8cf3e0a285bad57a601',
    '(6, 7)|float64|C|x2|da-split': '681b047500319cc9839b/((3, 3), (2, 2, 2, 1), (1, 1, 1, 1))',
    '(6, 7)|float64|C|x2|da-whole': '681b047500319cc9839b/((6,), (7,), (1, 1, 1, 1))',
    '(6, 7)|float64|C|x2|np': '681b047500319cc9839b',
    '(6, 7)|float64|C|x3|da-split': '7c8f38742bcda5f51d55/((3, 3), (2, 2, 2, 1), (1, 1, 1, 1))',
    '(6, 7)|float64|C|x3|da-whole': '7c8f38742bcda5f51d55/((6,), (7,), (1, 1, 1, 1))',
    '(6, 7)|float64|C|x3|np': '7c8f38742bcda5f51d55',
    '(6, 7)|float64|C|x4|da-split': '55b9b035e857ef4e8c43/((3, 3), (2, 2, 2, 1), (1, 1, 1, 1))',
    '(6, 7)|float64|C|x4|da-whole': '55b9b035e857ef4e8c43/((6,), (7,), (1, 1, 1, 1))',
    '(6, 7)|float64|C|x4|np': '55b9b035e857ef4e8c43',
    '(6, 7)|float64|C|x5|da-split': '5ed5be0b5baa27767fae/((3, 3), (2, 2, 2, 1), (1, 1, 1, 1))',
    '(6, 7)|float64|C|x5|da-whole': '5ed5be0b5baa27767fae/((6,), (7,), (1, 1, 1, 1))',
    '(6, 7)|float64|C|x5|np': '5ed5be0b5baa27767fae',
    '(6, 7)|float64|F|o0|np': '206ee375f7b159049566',
    '(6, 7)|float64|readonly|o0|np': '206ee375f7b159049566',
    '(6, 7)|float64|strided|o0|np': '206ee375f7b159049566',
    '(6, 7)|int16|C|o0|da-split': '0a40f4aa09c6bb0dc008/((3, 3), (2, 2, 2, 1), (1, 1, 1, 1))',
    '(6, 7)|int16|C|o0|da-whole': '0a40f4aa09c6bb0dc008/((6,), (7,), (1, 1, 1, 1))',
    '(6, 7)|int16|C|o0|np': '0a40f4aa09c6bb0dc008',
    '(6, 7)|int16|C|o1|da-split': '8c6f5c70590296e482fd/((3, 3), (2, 2, 2, 1), (1, 1, 1, 1))',
    '(6, 7)|int16|C|o1|da-whole': '8c6f5c70590296e482fd/((6,), (7,), (1, 1, 1, 1))',
    '(6, 7)|int16|C|o1|np': '8c6f5c70590296e482fd',
    '(6, 7)|int32|C|o0|da-split': '0a40f4aa09c6bb0dc008/((3, 3), (2, 2, 2, 1), (1, 1, 1, 1))',
    '(6, 7)|int32|C|o0|da-whole': '0a40f4aa09c6bb0dc008/((6,), (7,), (1, 1, 1, 1))',
    '(6, 7)|int32|C|o0|np': '0a40f4aa09c6bb0dc008',
    '(6, 7)|int32|C|o1|da-split': '8c6f5c70590296e482fd/((3, 3), (2, 2, 2, 1), (1, 1, 1, 1))',
    '(6, 7)|int32|C|o1|da-whole': '8c6f5c70590296e482fd/((6,), (7,), (1, 1, 1, 1))',
    '(6, 7)|int32|C|o1|np': '8c6f5c70590296e482fd',
    '(6, 7)|int64|C|o0|da-split': '0a40f4aa09c6bb0dc008/((3, 3), (2, 2, 2, 1), (1, 1, 1, 1))',
    '(6, 7)|int64|C|o0|da-whole': '0a40f4aa09c6bb0dc008/((6,), (7,), (1, 1, 1, 1))',
    '(6, 7)|int64|C|o0|np': '0a40f4aa09c6bb0dc008',
    '(6, 7)|int64|C|o1|da-split': '8c6f5c70590296e482fd/((3, 3), (2, 2, 2, 1), (1, 1, 1, 1))',
    '(6, 7)|int64|C|o1|da-whole': '8c6f5c70590296e482fd/((6,), (7,), (1, 1, 1, 1))',
    '(6, 7)|int64|C|o1|np': '8c6f5c70590296e482fd',
    '(6, 7)|int8|C|o0|da-split': '99674fc9a0675e33cc11/((3, 3), (2, 2, 2, 1), (1, 1, 1, 1))',
    '(6, 7)|int8|C|o0|da-whole': '99674fc9a0675e33cc11/((6,), (7,), (1, 1, 1, 1))',
    '(6, 7)|int8|C|o0|np': '99674fc9a0675e33cc11',
    '(6, 7)|int8|C|o1|da-split': 'f47c68a7c433a3f81bdf/((3, 3), (2, 2, 2, 1), (1, 1, 1, 1))',
    '(6, 7)|int8|C|o1|da-whole': 'f47c68a7c433a3f81bdf/((6,), (7,), (1, 1, 1, 1))',
    '(6, 7)|int8|C|o1|np': 'f47c68a7c433a3f81bdf',
    '(6, 7)|uint16|C|o0|da-split': '0a40f4aa09c6bb0dc008/((3, 3), (2, 2, 2, 1), (1, 1, 1, 1))',
    '(6, 7)|uint16|C|o0|da-whole': '0a40f4aa09c6bb0dc008/((6,), (7,), (1, 1, 1, 1))',
    '(6, 7)|uint16|C|o0|np': '0a40f4aa09c6bb0dc008',
    '(6, 7)|uint16|C|o1|da-split': '8c6f5c70590296e482fd/((3, 3), (2, 2, 2, 1), (1, 1, 1, 1))',
    '(6, 7)|uint16|C|o1|da-whole': '8c6f5c70590296e482fd/((6,), (7,), (1, 1, 1, 1))',
    '(6, 7)|uint16|C|o1|np': '8c6f5c70590296e482fd',
    '(6, 7)|uint16|F|o0|np': '1acf281d5dc6a93ccd0a',
    '(6, 7)|uint16|readonly|o0|np': '1acf281d5dc6a93ccd0a',
    '(6, 7)|uint16|strided|o0|np': '1acf281d5dc6a93ccd0a',
    '(6, 7)|uint32|C|o0|da-split': '0a40f4aa09c6bb0dc008/((3, 3), (2, 2, 2, 1), (1, 1, 1, 1))',
    '(6, 7)|uint32|C|o0|da-whole': '0a40f4aa09c6bb0dc008/((6,), (7,), (1, 1, 1, 1))',
    '(6, 7)|uint32|C|o0|np': '0a40f4aa09c6bb0dc008',
    '(6, 7)|uint32|C|o1|da-split': '8c6f5c70590296e482fd/((3, 3), (2, 2, 2, 1), (1, 1, 1, 1))',
    '(6, 7)|uint32|C|o1|da-whole': '8c6f5c70590296e482fd/((6,), (7,), (1, 1, 1, 1))',
    '(6, 7)|uint32|C|o1|np': '8c6f5c70590296e482fd',
    '(6, 7)|uint64|C|o0|da-split': '0a40f4aa09c6bb0dc008/((3, 3), (2, 2, 2, 1), (1, 1, 1, 1))',
    '(6, 7)|uint64|C|o0|da-whole': '0a40f4aa09c6bb0dc008/((6,), (7,), (1, 1, 1, 1))',
    '(6, 7)|uint64|C|o0|np': '0a40f4aa09c6bb0dc008',
    '(6, 7)|uint64|C|o1|da-split': '8c6f5c70590296e482fd/((3, 3), (2, 2, 2, 1), (1, 1, 1, 1))',
    '(6, 7)|uint64|C|o1|da-whole': '8c6f5c70590296e482fd/((6,), (7,), (1, 1, 1, 1))',
    '(6, 7)|uint64|C|o1|np': '8c6f5c70590296e482fd',
    '(6, 7)|uint8|C|o0|da-split': '26548438c298549baf46/((3, 3), (2, 2, 2, 1), (1, 1, 1, 1))',
    '(6, 7)|uint8|C|o0|da-whole': '26548438c298549baf46/((6,), (7,), (1, 1, 1, 1))',
    '(6, 7)|uint8|C|o0|np': '26548438c298549baf46',
    '(6, 7)|uint8|C|o1|da-split': 'e9eb37ab0fa655fd1211/((3, 3), (2, 2, 2, 1), (1, 1, 1, 1))',
    '(6, 7)|uint8|C|o1|da-whole': 'e9eb37ab0fa655fd1211/((6,), (7,), (1, 1, 1, 1))',
    '(6, 7)|uint8|C|o1|np': 'e9eb37ab0fa655fd1211',
    'allnan-red|float32|da-split': '868209323e01e8308f68/((3, 3), (2, 2, 2, 1), (1, 1, 1, 1))',
    'allnan-red|float32|da-whole': '868209323e01e8308f68/((6,), (7,), (1, 1, 1, 1))',
    'allnan-red|float32|np': '868209323e01e8308f68',
    'bad|3d|np': 'ValueError: too many values to unpack (expected 2)',
    'bad|mismatch|np': 'ValueError: could not broadcast input array from shape (5,4) into shape (4,5)',
    'const|uint16|da-split': 'fe67b587bae5cef8080c/((3, 3), (2, 2, 2, 1), (1, 1, 1, 1))',
    'const|uint16|da-whole': 'fe67b587bae5cef8080c/((6,), (7,), (1, 1, 1, 1))',
    'const|uint16|np': 'fe67b587bae5cef8080c',
    'mixed|da-split': 'e9168f27af1a8cdc9aab/((3, 3), (2, 2, 2, 1), (1, 1, 1, 1))',
    'mixed|da-whole': 'e9168f27af1a8cdc9aab/((6,), (7,), (1, 1, 1, 1))',
    'mixed|np': 'e9168f27af1a8cdc9aab',
}


def digest(arr):
    arr = np.asarray(arr)
    h = hashlib.sha256()
    h.update(str(arr.dtype).encode())
    h.update(str(arr.shape).encode())
    h.update(np.ascontiguousarray(arr).tobytes())
    return h.hexdigest()[:20]


def reference(r, g, b, nodata, c, th):
    """independent computation: alpha exactly, colours in float64."""
    h, w = r.shape
    out = np.zeros((h, w, 4), dtype=np.int64)
    for k, band in enumerate((r, g, b)):
        v = band.astype(np.float32).astype(np.float64)
        lo, hi = np.nanmin(v), np.nanmax(v)
        if hi - lo == 0:
            out[:, :, k] = -1          # not checked
            continue
        n = (v - lo) / (hi - lo)
        s = 255.0 / (1.0 + np.exp(c * (th - n)))
        out[:, :, k] = np.where(np.isnan(s), -1, np.floor(np.nan_to_num(s)))
    rf = r.astype(np.float64) if r.dtype.kind != 'f' else r
    alpha = np.empty((h, w), dtype=np.int64)
    for i in range(h):
        for j in range(w):
            x = rf[i, j]
            alpha[i, j] = 0 if (x != x or x <= nodata) else 255
    out[:, :, 3] = alpha
    return out


def layouts(values, dtype):
    v = values.astype(dtype)
    yield 'C', np.ascontiguousarray(v)
    yield 'F', np.asfortranarray(v)
    big = np.zeros((v.shape[0] * 3, v.shape[1] * 2), dtype=dtype)
    big[::3, ::2] = v
    yield 'strided', big[::3, ::2]
    ro = v.copy()
    ro.setflags(write=False)
    yield 'readonly', ro


def make(data, tag):
    h, w = data.shape
    agg = xr.DataArray(data, dims=['y', 'x'],
                       coords={'y': np.arange(h)[::-1] * 10.0 + 5,
                               'x': np.arange(w) * 10.0 - 40},
                       attrs={'res': (10.0, 10.0), 'band': tag, 'nested': {'a': [1, 2]}},
                       name=tag)
    return agg


def snapshot(agg):
    return dict(values=np.array(agg.values, copy=True),
                coords={k: np.array(v.values, copy=True) for k, v in agg.coords.items()},
                attrs=repr(agg.attrs), dims=agg.dims, dtype=agg.dtype, shape=agg.shape,
                name=agg.name)


def unchanged(agg, before):
    ok = np.array_equal(before['values'], agg.values, equal_nan=True)
    ok &= agg.dtype == before['dtype'] and agg.shape == before['shape']
    ok &= repr(agg.attrs) == before['attrs'] and agg.dims == before['dims']
    ok &= agg.name == before['name']
    for k, v in before['coords'].items():
        ok &= k in agg.coords and np.array_equal(agg.coords[k].values, v)
    return bool(ok)


def check_output(label, aggs, out, is_dask, name):
    errs = []
    r = aggs[0]
    if out.shape != r.shape + (4,) or out.dims != ('y', 'x', 'band'):
        errs.append('output shape/dims: %r %r' % (out.shape, out.dims))
    for k in ('y', 'x'):
        if not np.array_equal(out.coords[k].values, r.coords[k].values):
            errs.append('output coord %s differs' % k)
    if list(out.coords['band'].values) != [0, 1, 2, 3]:
        errs.append('band coord')
    if out.attrs != r.attrs:
        errs.append('output attrs differ')
    if out.name != name:
        errs.append('output name %r' % (out.name,))
    if is_dask != isinstance(out.data, da.Array):
        errs.append('backend changed')
    if out.dtype != np.uint8:
        errs.append('dtype %s' % out.dtype)
    if not is_dask:
        for a in aggs:
            if np.shares_memory(out.data, a.data):
                errs.append('output shares memory with an input')
    return ['%s: %s' % (label, e) for e in errs]


def bands(shape, seed, dtype, with_nan):
    rng = np.random.RandomState(seed)
    out = []
    for k in range(3):
        if np.dtype(dtype).kind == 'f':
            v = rng.rand(*shape) * 3000 - 200 * k
        else:
            hi = min(np.iinfo(dtype).max, 4000)
            v = rng.randint(0, hi, size=shape).astype(np.float64)
        v.flat[k % v.size] = 0
        v.flat[(k + 3) % v.size] = 1
        if v.size > 8:
            v.flat[7] = 2
        if with_nan and np.dtype(dtype).kind == 'f' and v.size > 6:
            v.flat[4 + k] = np.nan
            v.flat[-1] = np.nan
        out.append(v.astype(dtype))
    return out


def cases():
    dtypes = ['int8', 'uint8', 'int16', 'uint16', 'int32', 'uint32', 'int64',
              'uint64', 'float32', 'float64']
    shape = (6, 7)
    for dt in dtypes:
        rgb = bands(shape, 5, dt, True)
        for oi, opts in enumerate([dict(), dict(nodata=2, c=4.0, th=0.5, name='tc')]):
            yield '%s|%s|C|o%d' % (shape, dt, oi), rgb, opts, True
    for dt in ('uint16', 'float32', 'float64'):
        rgb = bands(shape, 6, dt, True)
        lays = [dict(layouts(v, dt)) for v in rgb]
        for lname in ('F', 'strided', 'readonly'):
            yield ('%s|%s|%s|o0' % (shape, dt, lname), [lay[lname] for lay in lays],
                   dict(nodata=1), False)
    rgb = bands(shape, 7, 'float64', True)
    extra = [dict(nodata=-1e9), dict(nodata=1e9), dict(nodata=np.nan), dict(nodata=0.5, c=0.0),
             dict(c=-3.0, th=2.0), dict(nodata=np.float32(1.5), c=25, th=0)]
    for oi, opts in enumerate(extra):
        yield '%s|float64|C|x%d' % (shape, oi), rgb, opts, True
    for si, shp in enumerate([(1, 5), (4, 1), (1, 1), (2, 9), (3, 3)]):
        for dt in ('uint16', 'float32'):
            yield '%s|%s|C|o0' % (shp, dt), bands(shp, 30 + si, dt, si % 2 == 1), dict(), True
    # constant band (zero range), all-NaN red band, mixed dtypes
    const = [np.full(shape, 7, dtype='uint16'), bands(shape, 8, 'uint16', False)[1],
             np.zeros(shape, dtype='uint16')]
    yield 'const|uint16', const, dict(), True
    nanred = bands(shape, 9, 'float32', True)
    nanred[0] = np.full(shape, np.nan, dtype='float32')
    yield 'allnan-red|float32', nanred, dict(), True
    mixed = [bands(shape, 10, 'int16', False)[0], bands(shape, 10, 'float64', True)[1],
             bands(shape, 10, 'uint8', False)[2]]
    yield 'mixed', mixed, dict(nodata=3), True
    # invalid: 3-D band, shape mismatch
    yield 'bad|3d', [np.zeros((2, 3, 4))] * 3, dict(), False
    yield 'bad|mismatch', [np.ones((4, 5)), np.ones((5, 4)), np.ones((4, 5))], dict(), False


def run(func):
    try:
        return func(), None
    except Exception as e:  # noqa
        return None, '%s: %s' % (type(e).__name__, str(e)[:120])


def make_any(v, tag):
    if v.ndim == 2:
        return make(v, tag)
    return xr.DataArray(v, dims=['y', 'x', 'z'][:v.ndim], name=tag,
                        coords={'y': np.arange(v.shape[0]), 'x': np.arange(v.shape[1])})


def chunkings(shape):
    h, w = shape
    yield 'whole', (h, w)
    if h >= 4 and w >= 4:
        yield 'split', (max(2, h // 2), max(2, w // 3))


def main(record):
    assert xrspatial.__file__.startswith('/tmp/t5/TC10/'), xrspatial.__file__
    warnings.simplefilter('ignore')
    np.seterr(all='ignore')
    table = {}
    errors = []
    for label, rgb, opts, with_dask in cases():
        name = opts.get('name', 'true_color')
        aggs = [make_any(v, t) for v, t in zip(rgb, 'rgb')]
        before = [snapshot(a) for a in aggs]
        out, exc = run(lambda: true_color(*aggs, **opts))
        np_res = None
        if exc is not None:
            table[label + '|np'] = exc
        else:
            errors += check_output(label + '|np', aggs, out, False, name)
            np_res = np.array(out.data)
            table[label + '|np'] = digest(np_res)
            nodata = opts.get('nodata', 1)
            ref = reference(rgb[0], rgb[1], rgb[2], nodata, opts.get('c', 10.0),
                            opts.get('th', 0.125))
            if not np.array_equal(ref[:, :, 3], np_res[:, :, 3]):
                errors.append(label + ': alpha differs from the independent reference')
            col = ref[:, :, :3]
            checked = col >= 0
            delta = np.abs(col - np_res[:, :, :3].astype(np.int64))
            if (delta[checked] > 1).any():
                errors.append(label + ': colour differs from the independent reference')
            out.data[...] = 9
        for a, bf in zip(aggs, before):
            if not unchanged(a, bf):
                errors.append(label + ': an input changed')
        if not with_dask:
            continue
        for cname, chunks in chunkings(rgb[0].shape):
            key = label + '|da-' + cname
            daggs = [make_any(da.from_array(v, chunks=chunks), t) for v, t in zip(rgb, 'rgb')]
            before = [snapshot(a) for a in daggs]

            def call():
                o = true_color(*daggs, **opts)
                return o, o.data.compute()
            got, exc = run(call)
            if exc is not None:
                table[key] = exc
                continue
            dout, res = got
            errors += check_output(key, daggs, dout, True, name)
            table[key] = '%s/%r' % (digest(res), dout.data.chunks)
            if np_res is not None and digest(res) != digest(np_res):
                errors.append(key + ': dask result differs from numpy result')
            for a, bf in zip(daggs, before):
                if not unchanged(a, bf):
                    errors.append(key + ': an input changed')

    if record:
        for key in sorted(table):
            print('    %r: %r,' % (key, table[key]))
        return 0
    for key in sorted(set(table) | set(EXPECTED)):
        if table.get(key) != EXPECTED.get(key):
            errors.append('%s: got %s expected %s' % (key, table.get(key), EXPECTED.get(key)))
    for e in errors[:40]:
        print('DIFF', e)
    print('%d cases, %d differences' % (len(table), len(errors)))
    return 1 if errors else 0


if __name__ == '__main__':
    sys.exit(main('--record' in sys.argv))
