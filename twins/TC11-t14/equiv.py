"""Differential test for TC11-t14 (focal.py: array allocation / shape / half
window / dtype spellings in _apply_numpy, _calc_hotspots_numpy, mean()).

Runs mean / apply / focal_stats / hotspots over several dtypes, NaNs / infs,
odd shapes, kernel shapes, memory orders, numpy and dask, repeated and in
reverse order, and compares bit-level digests (plus memory layout, chunks, dims) with values recorded on the
unmodified tree.  apply() with the mean / sum / max functions is also checked
against a plain numpy implementation.

    python equiv.py            -> compare with EXPECTED, exit 0 if identical
    python equiv.py --record   -> print the digests (run on the unmodified tree)
"""
import hashlib
import sys
import warnings

import dask.array as da
import numpy as np
import xarray as xr

import xrspatial
from xrspatial import focal
from xrspatial.focal import apply, focal_stats, hotspots, mean

warnings.filterwarnings('ignore')


def digest(arr):
    a = np.ascontiguousarray(np.asarray(arr))
    h = hashlib.sha256()
    h.update(str(a.dtype).encode())
    h.update(str(a.shape).encode())
    h.update(a.tobytes())
    return h.hexdigest()[:16]


def make_raster(shape, dtype, seed, chunks=None, order='C'):
    rng = np.random.RandomState(seed)
    data = (rng.rand(*shape) * 200 - 50)
    if np.issubdtype(np.dtype(dtype), np.unsignedinteger):
        data = np.abs(data)
    data = data.astype(dtype)
    if np.issubdtype(data.dtype, np.floating):
        data[rng.rand(*shape) < 0.15] = np.nan
        data[rng.rand(*shape) < 0.03] = np.inf
        data[rng.rand(*shape) < 0.05] = 0.0
    if order == 'F':
        data = np.asfortranarray(data)
    h, w = shape
    if chunks is not None:
        data = da.from_array(data, chunks=chunks)
    return xr.DataArray(data, dims=['y', 'x'],
                        coords={'y': np.arange(h)[::-1] * 1.0, 'x': np.arange(w) * 1.0},
                        attrs={'res': (1.0, 1.0), 'k': seed})


KERNELS = {
    'k1x1': np.ones((1, 1)),
    'k3x3': np.array([[0, 1, 0], [1, 1, 1], [0, 1, 0]], dtype=np.float64),
    'k3x5': np.array([[1, 0, 1, 0, 1], [0, 1, 1, 1, 0], [1, 0, 0, 0, 1]], dtype=np.int64),
    'k5x1': np.array([[1], [0], [1], [1], [1]], dtype=np.float32),
    'k5x5': np.ones((5, 5)),
    'k7x3': (np.arange(21).reshape(7, 3) % 2).astype(np.float64),
    'k5x3F': np.asfortranarray(np.ones((5, 3))),
}
APPLY_FUNCS = ['_calc_mean', '_calc_sum', '_calc_min', '_calc_max', '_calc_std',
               '_calc_range', '_calc_var']
SHAPES = [((6, 8), (3, 4)), ((1, 7), (1, 4)), ((9, 1), (5, 1)), ((11, 10), (6, 5)),
          ((2, 2), (2, 2))]
DTYPES = [np.int16, np.int32, np.int64, np.uint8, np.float32, np.float64]


def cases():
    out = []
    k = 0
    for shape, chunks in SHAPES:
        for dt in DTYPES:
            for backend in ('numpy', 'dask', 'numpyF'):
                k += 1
                kname = sorted(KERNELS)[k % len(KERNELS)]
                fname = APPLY_FUNCS[k % len(APPLY_FUNCS)]
                out.append(('apply', shape, chunks, dt, backend, kname, fname))
                out.append(('mean', shape, chunks, dt, backend,
                            [(1, [np.nan]), (2, [np.nan, 0.0]), (3, [np.inf])][k % 3], None))
                if k % 3 == 0:
                    out.append(('focal_stats', shape, chunks, dt, backend, kname,
                                [['mean', 'max', 'min', 'range', 'std', 'var', 'sum'],
                                 ['sum', 'min']][k % 2]))
                if k % 2 == 0:
                    out.append(('hotspots', shape, chunks, dt, backend, kname, None))
    return out


def plain_apply(data, kernel, fname):
    """independent numpy version of apply() for mean / sum / max"""
    fn = {'_calc_mean': np.nanmean, '_calc_sum': np.nansum, '_calc_max': np.nanmax}[fname]
    data = data.astype(np.float32)
    rows, cols = data.shape
    kr, kc = kernel.shape
    hr, hc = kr // 2, kc // 2
    padded = np.full((rows + 2 * hr, cols + 2 * hc), np.nan, dtype=np.float32)
    padded[hr:hr + rows, hc:hc + cols] = data
    out = np.zeros((rows, cols), dtype=np.float32)
    for y in range(rows):
        for x in range(cols):
            win = padded[y:y + kr, x:x + kc].copy()
            win[kernel != 1] = np.nan
            out[y, x] = fn(win)
    return out


def run_case(c, idx):
    what, shape, chunks, dt, backend, a, b = c
    r = make_raster(shape, dt, seed=idx % 7,
                    chunks=chunks if backend == 'dask' else None,
                    order='F' if backend == 'numpyF' else 'C')
    plain = r.data.compute() if backend == 'dask' else r.data.copy()
    before = digest(plain)
    try:
        if what == 'apply':
            res = apply(r, KERNELS[a], getattr(focal, b))
        elif what == 'mean':
            res = mean(r, passes=a[0], excludes=a[1])
        elif what == 'focal_stats':
            res = focal_stats(r, KERNELS[a], stats_funcs=b)
        else:
            res = hotspots(r, KERNELS[a])
        if backend == 'dask':
            assert isinstance(res.data, da.Array), type(res.data)
            extra = str(res.data.chunks)
            val = res.data.compute()
        else:
            assert isinstance(res.data, np.ndarray)
            extra = ''
            val = res.data
    except Exception as e:  # noqa
        return 'raised ' + type(e).__name__ + ':' + str(e)[:50]
    after = digest(r.data.compute() if backend == 'dask' else r.data)
    assert before == after, 'input changed'
    if what == 'apply' and b in ('_calc_mean', '_calc_sum', '_calc_max'):
        ref = plain_apply(plain, KERNELS[a], b)
        assert val.dtype == ref.dtype and val.shape == ref.shape
        assert np.allclose(val, ref, rtol=1e-5, atol=1e-4, equal_nan=True), (idx, c)
    layout = 'C%dF%d' % (val.flags['C_CONTIGUOUS'], val.flags['F_CONTIGUOUS'])
    return digest(val) + layout + extra + str(res.dims) + str(sorted(res.attrs))


def collect():
    got = {}
    cs = cases()
    for idx, c in enumerate(cs):
        got['case%03d' % idx] = run_case(c, idx)
    for idx in reversed(range(len(cs))):
        assert run_case(cs[idx], idx) == got['case%03d' % idx], ('not repeatable', idx)
    return got


EXPECTED = {'case000': "3adcf2090ed7852cC1F0('y', 'x')['k', 'res']", 'case001': "d59027a959d21220C1F0('y', 'x')['k', 'res']", 'case002': "da851088faf87e6cC1F0((3, 3), (4, 4))('y', 'x')['k', 'res']", 'case003': "0db16a87e278ba0dC1F0((3, 3), (4, 4))('y', 'x')['k', 'res']", 'case004': "fdc9d3b27bf239e3C1F0((3, 3), (4, 4))('y', 'x')['k', 'res', 'unit']", 'case005': "fe44b72c6248f296C0F1('y', 'x')['k', 'res']", 'case006': "bcdc390fea6177d6C0F1('y', 'x')['k', 'res']", 'case007': "99b226705f016f90C0F0('stats', 'y', 'x')['k', 'res']", 'case008': "a6875e9e99055a34C1F0('y', 'x')['k', 'res']", 'case009': "4920533859d42402C1F0('y', 'x')['k', 'res']", 'case010': "fdc9d3b27bf239e3C1F0('y', 'x')['k', 'res', 'unit']", 'case011': "6890792f8af2a684C1F0((3, 3), (4, 4))('y', 'x')['k', 'res']", 'case012': "5edbd4fc5e525a57C1F0((3, 3), (4, 4))('y', 'x')['k', 'res']", 'case013': "01cff05c77a409a9C0F1('y', 'x')['k', 'res']", 'case014': "188412e9e1292d07C0F1('y', 'x')['k', 'res']", 'case015': "e7dfa233f0118189C0F0('stats', 'y', 'x')['k', 'res']", 'case016': "fdc9d3b27bf239e3C1F0('y', 'x')['k', 'res', 'unit']", 'case017': "bccd199d430b3bf9C1F0('y', 'x')['k', 'res']", 'case018': "3cf04eb14f96d8f5C1F0('y', 'x')['k', 'res']", 'case019': "962f665645c5b059C1F0((3, 3), (4, 4))('y', 'x')['k', 'res']", 'case020': "72c1e80245503099C1F0((3, 3), (4, 4))('y', 'x')['k', 'res']", 'case021': "fdc9d3b27bf239e3C1F0((3, 3), (4, 4))('y', 'x')['k', 'res', 'unit']", 'case022': "1f2687fe72642d1eC0F1('y', 'x')['k', 'res']", 'case023': "1e0f59f8c09d7e4aC0F1('y', 'x')['k', 'res']", 'case024': "0a49bcf7357fa874C0F0('stats', 'y', 'x')['k', 'res']", 'case025': "1cfe07ff0c60ba92C1F0('y', 'x')['k', 'res']", 'case026': "bfe308fcf827294eC1F0('y', 'x')['k', 'res']", 'case027': "fdc9d3b27bf239e3C1F0('y', 'x')['k', 'res', 'unit']", 'case028': "3250107e7d88df2aC1F0((3, 3), (4, 4))('y', 'x')['k', 'res']", 'case029': "92d0c7f37033bcb8C1F0((3, 3), (4, 4))('y', 'x')['k', 'res']", 'case030': "4584103fdc5441ccC0F1('y', 'x')['k', 'res']", 'case031': "bf4ea76e1af11452C0F1('y', 'x')['k', 'res']", 'case032': "e5609f8fa60e0ae5C0F0('stats', 'y', 'x')['k', 'res']", 'case033': "fdc9d3b27bf239e3C1F0('y', 'x')['k', 'res', 'unit']", 'case034': "22571d1a427f5346C1F0('y', 'x')['k', 'res']", 'case035': "54a6b75e4f033d0bC1F0('y', 'x')['k', 'res']", 'case036': "34902ddc90c2a749C1F0((3, 3), (4, 4))('y', 'x')['k', 'res']", 'case037': "dc009e508a82f92bC1F0((3, 3), (4, 4))('y', 'x')['k', 'res']", 'case038': "58fdb1406a8bd3ccC1F0((3, 3), (4, 4))('y', 'x')['k', 'res', 'unit']", 'case039': "eef1871ce6fc253bC0F1('y', 'x')['k', 'res']", 'case040': "8309e26e27c15b8dC0F1('y', 'x')['k', 'res']", 'case041': "4604421136ad86edC0F0('stats', 'y', 'x')['k', 'res']", 'case042': "8521be02ea6cd4caC1F0('y', 'x')['k', 'res']", 'case043': "b5610368f314fe87C1F0('y', 'x')['k', 'res']", 'case044': "fdc9d3b27bf239e3C1F0('y', 'x')['k', 'res', 'unit']", 'case045': "1f3591d547ea895dC1F0((3, 3), (4, 4))('y', 'x')['k', 'res']", 'case046': "674186fbac532827C1F0((3, 3), (4, 4))('y', 'x')['k', 'res']", 'case047': "ee89249b9956a0adC0F1('y', 'x')['k', 'res']", 'case048': "21a00de07c0325b1C0F1('y', 'x')['k', 'res']", 'case049': "42cb3fa60dd4c2b5C0F0('stats', 'y', 'x')['k', 'res']", 'case050': "fdc9d3b27bf239e3C1F0('y', 'x')['k', 'res', 'unit']", 'case051': "8134f1c2c4f1ad96C1F1('y', 'x')['k', 'res']", 'case052': "73c33401a02e9e4fC1F1('y', 'x')['k', 'res']", 'case053': 'raised ValueError:The overlapping depth 3 is larger than your array ', 'case054': "cb6db1181ced1f70C1F1((1,), (4, 3))('y', 'x')['k', 'res']", 'case055': 'raised ValueError:The overlapping depth 3 is larger than your array ', 'case056': "8638d5be2fbf361dC1F1('y', 'x')['k', 'res']", 'case057': "e40786d234758a1aC1F1('y', 'x')['k', 'res']", 'case058': "aa2d9ecbb88804f2C1F0('stats', 'y', 'x')['k', 'res']", 'case059': "468bbb6905f391b6C1F1('y', 'x')['k', 'res']", 'case060': "8a563c824cd3abf7C1F1('y', 'x')['k', 'res']", 'case061': "d4678c2efee553d0C1F1('y', 'x')['k', 'res', 'unit']", 'case062': "248c1a74aaab289eC1F1((1,), (4, 3))('y', 'x')['k', 'res']", 'case063': "8421548df0f41aa3C1F1((1,), (4, 3))('y', 'x')['k', 'res']", 'case064': "bfa771cfd3497a55C1F1('y', 'x')['k', 'res']", 'case065': "80454aada5f0b733C1F1('y', 'x')['k', 'res']", 'case066': "f35fbdbb81e8aa7cC1F0('stats', 'y', 'x')['k', 'res']", 'case067': "d4678c2efee553d0C1F1('y', 'x')['k', 'res', 'unit']", 'case068': "af42f98caf0415f5C1F1('y', 'x')['k', 'res']", 'case069': "f389d8b59315197cC1F1('y', 'x')['k', 'res']", 'case070': 'raised ValueError:The overlapping depth 2 is larger than your array ', 'case071': "bec8c88805b6717aC1F1((1,), (4, 3))('y', 'x')['k', 'res']", 'case072': 'raised ValueError:The overlapping depth 2 is larger than your array ', 'case073': "594df3a672e5d7ddC1F1('y', 'x')['k', 'res']", 'case074': "03799ee2c601586eC1F1('y', 'x')['k', 'res']", 'case075': "214622beaf1054feC1F0('stats', 'y', 'x')['k', 'res']", 'case076': "a30e4a79a474506eC1F1('y', 'x')['k', 'res']", 'case077': "bae276ef95c2eefcC1F1('y', 'x')['k', 'res']", 'case078': "9896981a0a982a33C1F1('y', 'x')['k', 'res', 'unit']", 'case079': "43326342dcd327beC1F1((1,), (4, 3))('y', 'x')['k', 'res']", 'case080': "939a94a27bdee012C1F1((1,), (4, 3))('y', 'x')['k', 'res']", 'case081': "26c79efdf00a7e0dC1F1('y', 'x')['k', 'res']", 'case082': "f81b7b0f6d9ea308C1F1('y', 'x')['k', 'res']", 'case083': "ee2d2893fb39baa6C1F0('stats', 'y', 'x')['k', 'res']", 'case084': "d4678c2efee553d0C1F1('y', 'x')['k', 'res', 'unit']", 'case085': "9d9ef8be6fc0ca4eC1F1('y', 'x')['k', 'res']", 'case086': "458043194abb0841C1F1('y', 'x')['k', 'res']", 'case087': 'raised ValueError:The overlapping depth 2 is larger than your array ', 'case088': "ff7e963c5714a515C1F1((1,), (4, 3))('y', 'x')['k', 'res']", 'case089': 'raised ValueError:The overlapping depth 2 is larger than your array ', 'case090': "4bac5f8c9f16499aC1F1('y', 'x')['k', 'res']", 'case091': "168cf056c6193102C1F1('y', 'x')['k', 'res']", 'case092': "b48291fb79ace7a8C1F0('stats', 'y', 'x')['k', 'res']", 'case093': "e5bf6e18cbe97f76C1F1('y', 'x')['k', 'res']", 'case094': "66ad95da50f29087C1F1('y', 'x')['k', 'res']", 'case095': "d4678c2efee553d0C1F1('y', 'x')['k', 'res', 'unit']", 'case096': "0a5b080b50ece809C1F1((1,), (4, 3))('y', 'x')['k', 'res']", 'case097': "ecc5350220f2a16eC1F1((1,), (4, 3))('y', 'x')['k', 'res']", 'case098': "11daf1261d65dadaC1F1('y', 'x')['k', 'res']", 'case099': "3a9df350bb4c8285C1F1('y', 'x')['k', 'res']", 'case100': "3124a89b333ec484C1F0('stats', 'y', 'x')['k', 'res']", 'case101': "d4678c2efee553d0C1F1('y', 'x')['k', 'res', 'unit']", 'case102': "effc0db16a9d8f59C1F1('y', 'x')['k', 'res']", 'case103': "49ed78321a001bc0C1F1('y', 'x')['k', 'res']", 'case104': "0f0a348f2aa65169C1F1((5, 4), (1,))('y', 'x')['k', 'res']", 'case105': "bfe713e08f6b6073C1F1((5, 4), (1,))('y', 'x')['k', 'res']", 'case106': "8a48c1c82fa98ddfC1F1((5, 4), (1,))('y', 'x')['k', 'res', 'unit']", 'case107': "8071024eea6a8389C1F1('y', 'x')['k', 'res']", 'case108': "627a0ffe40675008C1F1('y', 'x')['k', 'res']", 'case109': "c3a2140ba6d25129C1F0('stats', 'y', 'x')['k', 'res']", 'case110': "46881787c25b4f1dC1F1('y', 'x')['k', 'res']", 'case111': "ed5b2051fcc00bccC1F1('y', 'x')['k', 'res']", 'case112': "8a48c1c82fa98ddfC1F1('y', 'x')['k', 'res', 'unit']", 'case113': "fdf9284b03bc1edaC1F1((5, 4), (1,))('y', 'x')['k', 'res']", 'case114': "ab532aa3f9e563baC1F1((5, 4), (1,))('y', 'x')['k', 'res']", 'case115': "94e2d5ba0d1bb9e5C1F1('y', 'x')['k', 'res']", 'case116': "addedb184292b953C1F1('y', 'x')['k', 'res']", 'case117': "1e3614bea7849c4cC1F0('stats', 'y', 'x')['k', 'res']", 'case118': "8a48c1c82fa98ddfC1F1('y', 'x')['k', 'res', 'unit']", 'case119': "20b62ed5da5277bbC1F1('y', 'x')['k', 'res']", 'case120': "571257ed6b61b877C1F1('y', 'x')['k', 'res']", 'case121': 'raised ValueError:The overlapping depth 2 is larger than your array ', 'case122': "46f3fdcbd9e9892bC1F1((5, 4), (1,))('y', 'x')['k', 'res']", 'case123': 'raised ValueError:The overlapping depth 2 is larger than your array ', 'case124': "e8f216a15bca32c2C1F1('y', 'x')['k', 'res']", 'case125': "c696228681b4ddd5C1F1('y', 'x')['k', 'res']", 'case126': "b6609d629a711851C1F0('stats', 'y', 'x')['k', 'res']", 'case127': "70b8463952f1a02bC1F1('y', 'x')['k', 'res']", 'case128': "4259a5f4e79447ceC1F1('y', 'x')['k', 'res']", 'case129': "8a48c1c82fa98ddfC1F1('y', 'x')['k', 'res', 'unit']", 'case130': 'raised ValueError:The overlapping depth 2 is larger than your array ', 'case131': "0e37275b41bc6e71C1F1((5, 4), (1,))('y', 'x')['k', 'res']", 'case132': "cfdfc6ffa29405adC1F1('y', 'x')['k', 'res']", 'case133': "5412f8ef1754d408C1F1('y', 'x')['k', 'res']", 'case134': "c59ab2ff18ef67d0C1F0('stats', 'y', 'x')['k', 'res']", 'case135': "8a48c1c82fa98ddfC1F1('y', 'x')['k', 'res', 'unit']", 'case136': "314057a889dc3911C1F1('y', 'x')['k', 'res']", 'case137': "6bda0fb16eb70cd9C1F1('y', 'x')['k', 'res']", 'case138': "29d158b41b09b5b4C1F1((5, 4), (1,))('y', 'x')['k', 'res']", 'case139': "59501ecc7e099349C1F1((5, 4), (1,))('y', 'x')['k', 'res']", 'case140': "8a48c1c82fa98ddfC1F1((5, 4), (1,))('y', 'x')['k', 'res', 'unit']", 'case141': "656a3d3105bb3696C1F1('y', 'x')['k', 'res']", 'case142': "2a88ba63ea268091C1F1('y', 'x')['k', 'res']", 'case143': "cf0b4624815fd579C1F0('stats', 'y', 'x')['k', 'res']", 'case144': "951773c597b7b61bC1F1('y', 'x')['k', 'res']", 'case145': "5be5df77934e6700C1F1('y', 'x')['k', 'res']", 'case146': "8a48c1c82fa98ddfC1F1('y', 'x')['k', 'res', 'unit']", 'case147': "776f6e635ba5a5e4C1F1((5, 4), (1,))('y', 'x')['k', 'res']", 'case148': "a43f405c41e5e7e9C1F1((5, 4), (1,))('y', 'x')['k', 'res']", 'case149': "a0bdf321afce9904C1F1('y', 'x')['k', 'res']", 'case150': "8865e9e1b401f1adC1F1('y', 'x')['k', 'res']", 'case151': "d02d56e6f51d6a9aC1F0('stats', 'y', 'x')['k', 'res']", 'case152': "8a48c1c82fa98ddfC1F1('y', 'x')['k', 'res', 'unit']", 'case153': "ad414fa2d00e8645C1F0('y', 'x')['k', 'res']", 'case154': "2b2c21b8602fb546C1F0('y', 'x')['k', 'res']", 'case155': "a1c7e71d6230f76dC1F0((6, 5), (5, 5))('y', 'x')['k', 'res']", 'case156': "7fad4a533ccb9424C1F0((6, 5), (5, 5))('y', 'x')['k', 'res']", 'case157': "080253dc6e2eaeaaC1F0((6, 5), (5, 5))('y', 'x')['k', 'res', 'unit']", 'case158': "dfd0547456db05dbC0F1('y', 'x')['k', 'res']", 'case159': "3ec05705987e61afC0F1('y', 'x')['k', 'res']", 'case160': "d9512e3742ff0822C0F0('stats', 'y', 'x')['k', 'res']", 'case161': "cb39abbe0ed9d1eeC1F0('y', 'x')['k', 'res']", 'case162': "33bc0a0ec7c41bbaC1F0('y', 'x')['k', 'res']", 'case163': "338de2cd9a632514C1F0('y', 'x')['k', 'res', 'unit']", 'case164': "0d07a6581ace485eC1F0((6, 5), (5, 5))('y', 'x')['k', 'res']", 'case165': "a7707dc54dc66121C1F0((6, 5), (5, 5))('y', 'x')['k', 'res']", 'case166': "f95d4023af4eab5eC0F1('y', 'x')['k', 'res']", 'case167': "a36852ebe763617eC0F1('y', 'x')['k', 'res']", 'case168': "35391ccd41f848ffC0F0('stats', 'y', 'x')['k', 'res']", 'case169': "338de2cd9a632514C1F0('y', 'x')['k', 'res', 'unit']", 'case170': "e1aa5d9569a2d86fC1F0('y', 'x')['k', 'res']", 'case171': "9ff99c571dc8f143C1F0('y', 'x')['k', 'res']", 'case172': "4955eaceef459d13C1F0((6, 5), (5, 5))('y', 'x')['k', 'res']", 'case173': "3051e2dc28f1f993C1F0((6, 5), (5, 5))('y', 'x')['k', 'res']", 'case174': "338de2cd9a632514C1F0((6, 5), (5, 5))('y', 'x')['k', 'res', 'unit']", 'case175': "dbe3220b0c0d19a5C0F1('y', 'x')['k', 'res']", 'case176': "55debe779a172beeC0F1('y', 'x')['k', 'res']", 'case177': "07e44ac19a9efb7cC0F0('stats', 'y', 'x')['k', 'res']", 'case178': "3fdbd994320b946aC1F0('y', 'x')['k', 'res']", 'case179': "e076863cbe75f55cC1F0('y', 'x')['k', 'res']", 'case180': "338de2cd9a632514C1F0('y', 'x')['k', 'res', 'unit']", 'case181': "552c2cece4cf452bC1F0((6, 5), (5, 5))('y', 'x')['k', 'res']", 'case182': "0c2464711ea16bc9C1F0((6, 5), (5, 5))('y', 'x')['k', 'res']", 'case183': "53b5c87e5b0b2519C0F1('y', 'x')['k', 'res']", 'case184': "e93da450cd519f50C0F1('y', 'x')['k', 'res']", 'case185': "521a935aa54b7ebaC0F0('stats', 'y', 'x')['k', 'res']", 'case186': "338de2cd9a632514C1F0('y', 'x')['k', 'res', 'unit']", 'case187': "9236d0655e29bdc0C1F0('y', 'x')['k', 'res']", 'case188': "7f90d45f26a53563C1F0('y', 'x')['k', 'res']", 'case189': "2b2e152ea3840d5cC1F0((6, 5), (5, 5))('y', 'x')['k', 'res']", 'case190': "ecf4d0ed81b3283eC1F0((6, 5), (5, 5))('y', 'x')['k', 'res']", 'case191': "338de2cd9a632514C1F0((6, 5), (5, 5))('y', 'x')['k', 'res', 'unit']", 'case192': "46e85f6d53ae1c8eC0F1('y', 'x')['k', 'res']", 'case193': "d5e3905740892758C0F1('y', 'x')['k', 'res']", 'case194': "23718efc298667f5C0F0('stats', 'y', 'x')['k', 'res']", 'case195': "c096d5526b82105bC1F0('y', 'x')['k', 'res']", 'case196': "4fdf3e588433ccefC1F0('y', 'x')['k', 'res']", 'case197': "338de2cd9a632514C1F0('y', 'x')['k', 'res', 'unit']", 'case198': "95d917ad6015aea5C1F0((6, 5), (5, 5))('y', 'x')['k', 'res']", 'case199': "3a12979df4c7ca5eC1F0((6, 5), (5, 5))('y', 'x')['k', 'res']", 'case200': "60b9e8c91a15ed6aC0F1('y', 'x')['k', 'res']", 'case201': "3ad8f7a2236840f2C0F1('y', 'x')['k', 'res']", 'case202': "0eee5326aaff9c66C0F0('stats', 'y', 'x')['k', 'res']", 'case203': "338de2cd9a632514C1F0('y', 'x')['k', 'res', 'unit']", 'case204': "7076705d647a3b5dC1F0('y', 'x')['k', 'res']", 'case205': "ecd231105c673086C1F0('y', 'x')['k', 'res']", 'case206': "3272aa2f348c0eacC1F0((2,), (2,))('y', 'x')['k', 'res']", 'case207': "b3841ca142ce2e72C1F0((2,), (2,))('y', 'x')['k', 'res']", 'case208': "fabc867bbd1ed996C1F0((2,), (2,))('y', 'x')['k', 'res', 'unit']", 'case209': "e437fd41110db228C0F1('y', 'x')['k', 'res']", 'case210': "85e581caf9d81ce8C0F1('y', 'x')['k', 'res']", 'case211': "04e484a88616dd2cC0F0('stats', 'y', 'x')['k', 'res']", 'case212': "be99ee308c9b047bC1F0('y', 'x')['k', 'res']", 'case213': "048935bad2526640C1F0('y', 'x')['k', 'res']", 'case214': "fabc867bbd1ed996C1F0('y', 'x')['k', 'res', 'unit']", 'case215': "879ed3aeb1d0bf53C1F0((2,), (2,))('y', 'x')['k', 'res']", 'case216': "f6104b4d7e0e55faC1F0((2,), (2,))('y', 'x')['k', 'res']", 'case217': "715f87f6ee7bb600C0F1('y', 'x')['k', 'res']", 'case218': "6e2270aca1830291C0F1('y', 'x')['k', 'res']", 'case219': "b94dd7022dbb402fC0F0('stats', 'y', 'x')['k', 'res']", 'case220': "fabc867bbd1ed996C1F0('y', 'x')['k', 'res', 'unit']", 'case221': "c93b6efe24840b71C1F0('y', 'x')['k', 'res']", 'case222': "fe9e5a6585019168C1F0('y', 'x')['k', 'res']", 'case223': "8d3f384ab0deba73C1F0((2,), (2,))('y', 'x')['k', 'res']", 'case224': "85e581caf9d81ce8C1F0((2,), (2,))('y', 'x')['k', 'res']", 'case225': "fabc867bbd1ed996C1F0((2,), (2,))('y', 'x')['k', 'res', 'unit']", 'case226': "ae7498f7ba4decd5C0F1('y', 'x')['k', 'res']", 'case227': "048935bad2526640C0F1('y', 'x')['k', 'res']", 'case228': "afa7e757f38fc6f1C0F0('stats', 'y', 'x')['k', 'res']", 'case229': "2e1c8a0736f6c593C1F0('y', 'x')['k', 'res']", 'case230': "db65d427fade469fC1F0('y', 'x')['k', 'res']", 'case231': "fabc867bbd1ed996C1F0('y', 'x')['k', 'res', 'unit']", 'case232': 'raised ValueError:The overlapping depth 3 is larger than your array ', 'case233': "8efd50fa0c718f06C1F0((2,), (2,))('y', 'x')['k', 'res']", 'case234': "d13845986e06c679C0F1('y', 'x')['k', 'res']", 'case235': "b3841ca142ce2e72C0F1('y', 'x')['k', 'res']", 'case236': "6a019cc5adcbbf51C0F0('stats', 'y', 'x')['k', 'res']", 'case237': "fabc867bbd1ed996C1F0('y', 'x')['k', 'res', 'unit']", 'case238': "f3806f60ad861e31C1F0('y', 'x')['k', 'res']", 'case239': "c8e06f2ededcc451C1F0('y', 'x')['k', 'res']", 'case240': "eca9ee28072ffba9C1F0((2,), (2,))('y', 'x')['k', 'res']", 'case241': "a9c5d273509f026eC1F0((2,), (2,))('y', 'x')['k', 'res']", 'case242': "fabc867bbd1ed996C1F0((2,), (2,))('y', 'x')['k', 'res', 'unit']", 'case243': "1e7b3317500ed15aC0F1('y', 'x')['k', 'res']", 'case244': "5f6fce67a54dacc4C0F1('y', 'x')['k', 'res']", 'case245': "892638bf86f7623fC0F0('stats', 'y', 'x')['k', 'res']", 'case246': "6bbc739b2a9b9945C1F0('y', 'x')['k', 'res']", 'case247': "93c86fff86687a41C1F0('y', 'x')['k', 'res']", 'case248': "fabc867bbd1ed996C1F0('y', 'x')['k', 'res', 'unit']", 'case249': "1c448c04bd776285C1F0((2,), (2,))('y', 'x')['k', 'res']", 'case250': "be5a9c3298241f7cC1F0((2,), (2,))('y', 'x')['k', 'res']", 'case251': "dcf2e0d16a7df5a9C0F1('y', 'x')['k', 'res']", 'case252': "bf06186547bd27d4C0F1('y', 'x')['k', 'res']", 'case253': "8d1f44b2ec977db4C0F0('stats', 'y', 'x')['k', 'res']", 'case254': "fabc867bbd1ed996C1F0('y', 'x')['k', 'res', 'unit']"}  # RECORDED


def main():
    assert xrspatial.__file__.startswith('/tmp/t5/TC11/'), xrspatial.__file__
    got = collect()
    if '--record' in sys.argv:
        print('EXPECTED = ' + repr(got) + '  # RECORDED')
        return 0
    bad = [k for k in EXPECTED if got.get(k) != EXPECTED[k]]
    bad += [k for k in got if k not in EXPECTED]
    if bad:
        print('MISMATCH', bad[:10], len(bad))
        return 1
    print('OK', len(got), 'digests identical')
    return 0


if __name__ == '__main__':
    sys.exit(main())
