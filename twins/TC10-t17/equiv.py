"""Differential test for moving proximity's `_process_dask` closure to module
level.

proximity / allocation / direction are run on numpy and dask rasters (several
dtypes, NaNs, odd shapes and chunkings, three metrics, finite and infinite
max_distance).  Every result is compared
  (a) with a sha256 digest recorded from the UNMODIFIED tree (EXPECTED below),
  (b) dask against numpy (the numpy path is not touched by the refactoring),
and the laziness / chunk structure of the dask result, the chunking the call
leaves on the input raster, the untouched input values / coords / attrs and
the output identity (dims, coords, attrs, backend) are checked too.

`RECORD=1 python equiv.py` prints the digest table instead of checking it.
"""
import hashlib
import os
import sys
import warnings

import dask.array as da
import numpy as np
import xarray as xr

import xrspatial
from xrspatial import allocation, direction, proximity

FAIL = []


def check(cond, msg):
    if not cond:
        FAIL.append(msg)


def digest(a):
    a = np.ascontiguousarray(np.asarray(a))
    h = hashlib.sha256()
    h.update(str(a.dtype).encode())
    h.update(str(a.shape).encode())
    h.update(a.tobytes())
    return h.hexdigest()[:16]


def same(a, b):
    a = np.asarray(a)
    b = np.asarray(b)
    return a.dtype == b.dtype and a.shape == b.shape and \
        np.array_equal(a, b, equal_nan=True)


def make(rng, h, w, dtype, with_nan, lonlat):
    vals = rng.integers(0, 5, size=(h, w))
    vals[rng.random((h, w)) < 0.55] = 0
    data = vals.astype(dtype)
    if with_nan and np.issubdtype(np.dtype(dtype), np.floating):
        data[rng.random((h, w)) < 0.1] = np.nan
    if lonlat:
        xs = np.linspace(-20.0, 30.0, w)
        ys = np.linspace(40.0, -15.0, h)
    else:
        xs = np.arange(w) * 2.0 + 1.0
        ys = (np.arange(h)[::-1]) * 3.0 + 0.5
    r = xr.DataArray(data, dims=['y', 'x'], coords={'y': ys, 'x': xs},
                     attrs={'res': (2.0, 3.0), 'crs': 'made-up'})
    r = r.assign_coords(band=3)
    return r


# recorded with RECORD=1 on the unmodified tree:
# key -> (numpy digest, dask digest, result chunks, input chunks after call)
#     or ('EXC', type, message, numpy digest) when the dask call refuses
EXPECTED = {
    'allocation|float32|4x5|GREAT_CIRCLE|[2, 3]|8.0':
    ('c82c6ee4269fc4df',
     'c82c6ee4269fc4df',
     '((4,), (5,))',
     '((2, 2), (3, 2))'),
    'allocation|float32|4x5|GREAT_CIRCLE|[2, 3]|inf':
    ('fecda5ca0ef05dab',
     'fecda5ca0ef05dab',
     '((4,), (5,))',
     '((4,), (5,))'),
    'allocation|float32|5x3|EUCLIDEAN|[]|4.5':
    ('053c88caaf8e9b6f',
     '053c88caaf8e9b6f',
     '((2, 3), (3,))',
     '((1, 1, 1, 1, 1), (3,))'),
    'allocation|float32|5x3|EUCLIDEAN|[]|7.0':
    ('EXC',
     'ValueError',
     'The overlapping depth 4 is larger than your array 3.',
     '053c88caaf8e9b6f'),
    'allocation|float32|5x3|EUCLIDEAN|[]|inf':
    ('053c88caaf8e9b6f',
     '053c88caaf8e9b6f',
     '((5,), (3,))',
     '((5,), (3,))'),
    'allocation|float32|6x13|GREAT_CIRCLE|[2, 3]|8.0':
    ('2be1df5b337ca2fb',
     '2be1df5b337ca2fb',
     '((6,), (5, 8))',
     '((6,), (5, 5, 3))'),
    'allocation|float32|6x13|GREAT_CIRCLE|[2, 3]|inf':
    ('5b4f8b33dec523c1',
     '5b4f8b33dec523c1',
     '((6,), (13,))',
     '((6,), (13,))'),
    'allocation|float32|7x6|EUCLIDEAN|[]|4.5':
    ('37ca5d755b68b7c9',
     '37ca5d755b68b7c9',
     '((3, 4), (4, 2))',
     '((3, 3, 1), (4, 2))'),
    'allocation|float32|7x6|EUCLIDEAN|[]|7.0':
    ('fcb67b52aa291eee',
     'fcb67b52aa291eee',
     '((3, 4), (6,))',
     '((3, 3, 1), (4, 2))'),
    'allocation|float32|7x6|EUCLIDEAN|[]|inf':
    ('a5e92d10e2f4cd23',
     'a5e92d10e2f4cd23',
     '((7,), (6,))',
     '((7,), (6,))'),
    'allocation|float32|9x11|MANHATTAN|[1]|4.5':
    ('ad696f471051946a',
     'ad696f471051946a',
     '((4, 3, 2), (5, 4, 2))',
     '((4, 4, 1), (5, 5, 1))'),
    'allocation|float32|9x11|MANHATTAN|[1]|7.0':
    ('b360036742f43641',
     'b360036742f43641',
     '((4, 3, 2), (5, 6))',
     '((4, 4, 1), (5, 5, 1))'),
    'allocation|float32|9x11|MANHATTAN|[1]|inf':
    ('26e59e071e5ec8fe',
     '26e59e071e5ec8fe',
     '((9,), (11,))',
     '((9,), (11,))'),
    'allocation|float64|4x5|EUCLIDEAN|[]|4.5':
    ('47eaababa1a2d948',
     '47eaababa1a2d948',
     '((2, 2), (3, 2))',
     '((2, 2), (3, 2))'),
    'allocation|float64|4x5|EUCLIDEAN|[]|7.0':
    ('47eaababa1a2d948',
     '47eaababa1a2d948',
     '((2, 2), (5,))',
     '((2, 2), (3, 2))'),
    'allocation|float64|4x5|EUCLIDEAN|[]|inf':
    ('47eaababa1a2d948',
     '47eaababa1a2d948',
     '((4,), (5,))',
     '((4,), (5,))'),
    'allocation|float64|5x3|MANHATTAN|[1]|4.5':
    ('4d05394676f6f93f',
     '4d05394676f6f93f',
     '((2, 3), (3,))',
     '((1, 1, 1, 1, 1), (3,))'),
    'allocation|float64|5x3|MANHATTAN|[1]|7.0':
    ('EXC',
     'ValueError',
     'The overlapping depth 4 is larger than your array 3.',
     '5ec901193f6b897e'),
    'allocation|float64|5x3|MANHATTAN|[1]|inf':
    ('5ec901193f6b897e',
     '5ec901193f6b897e',
     '((5,), (3,))',
     '((5,), (3,))'),
    'allocation|float64|6x13|EUCLIDEAN|[]|4.5':
    ('20fff19e6523e392',
     '20fff19e6523e392',
     '((6,), (5, 5, 3))',
     '((6,), (5, 5, 3))'),
    'allocation|float64|6x13|EUCLIDEAN|[]|7.0':
    ('e7d2edfc76a35722',
     'e7d2edfc76a35722',
     '((6,), (5, 8))',
     '((6,), (5, 5, 3))'),
    'allocation|float64|6x13|EUCLIDEAN|[]|inf':
    ('e7d2edfc76a35722',
     'e7d2edfc76a35722',
     '((6,), (13,))',
     '((6,), (13,))'),
    'allocation|float64|7x6|MANHATTAN|[1]|4.5':
    ('d04eae1ae8ab7759',
     'd04eae1ae8ab7759',
     '((3, 4), (4, 2))',
     '((3, 3, 1), (4, 2))'),
    'allocation|float64|7x6|MANHATTAN|[1]|7.0':
    ('d0c96f00d04b67a2',
     'd0c96f00d04b67a2',
     '((3, 4), (6,))',
     '((3, 3, 1), (4, 2))'),
    'allocation|float64|7x6|MANHATTAN|[1]|inf':
    ('8dab5c735f806206',
     '8dab5c735f806206',
     '((7,), (6,))',
     '((7,), (6,))'),
    'allocation|float64|9x11|GREAT_CIRCLE|[2, 3]|8.0':
    ('cf7e66cc6ce04553',
     'cf7e66cc6ce04553',
     '((4, 5), (5, 6))',
     '((4, 4, 1), (5, 5, 1))'),
    'allocation|float64|9x11|GREAT_CIRCLE|[2, 3]|inf':
    ('00109425c1eafa47',
     '00109425c1eafa47',
     '((9,), (11,))',
     '((9,), (11,))'),
    'allocation|int16|4x5|GREAT_CIRCLE|[2, 3]|8.0':
    ('eb308d3d6e0f7331',
     'eb308d3d6e0f7331',
     '((4,), (5,))',
     '((2, 2), (3, 2))'),
    'allocation|int16|4x5|GREAT_CIRCLE|[2, 3]|inf':
    ('5feaca2ffa40feeb',
     '5feaca2ffa40feeb',
     '((4,), (5,))',
     '((4,), (5,))'),
    'allocation|int16|5x3|EUCLIDEAN|[]|4.5':
    ('23038e0f6e23ce5a',
     '23038e0f6e23ce5a',
     '((2, 3), (3,))',
     '((1, 1, 1, 1, 1), (3,))'),
    'allocation|int16|5x3|EUCLIDEAN|[]|7.0':
    ('EXC',
     'ValueError',
     'The overlapping depth 4 is larger than your array 3.',
     '23038e0f6e23ce5a'),
    'allocation|int16|5x3|EUCLIDEAN|[]|inf':
    ('23038e0f6e23ce5a',
     '23038e0f6e23ce5a',
     '((5,), (3,))',
     '((5,), (3,))'),
    'allocation|int16|6x13|GREAT_CIRCLE|[2, 3]|8.0':
    ('75210f9fa0392464',
     '75210f9fa0392464',
     '((6,), (5, 8))',
     '((6,), (5, 5, 3))'),
    'allocation|int16|6x13|GREAT_CIRCLE|[2, 3]|inf':
    ('e4d6b962877e9f78',
     'e4d6b962877e9f78',
     '((6,), (13,))',
     '((6,), (13,))'),
    'allocation|int16|7x6|EUCLIDEAN|[]|4.5':
    ('ec1e4c5256cddf86',
     'ec1e4c5256cddf86',
     '((3, 4), (4, 2))',
     '((3, 3, 1), (4, 2))'),
    'allocation|int16|7x6|EUCLIDEAN|[]|7.0':
    ('ec1e4c5256cddf86',
     'ec1e4c5256cddf86',
     '((3, 4), (6,))',
     '((3, 3, 1), (4, 2))'),
    'allocation|int16|7x6|EUCLIDEAN|[]|inf':
    ('ec1e4c5256cddf86',
     'ec1e4c5256cddf86',
     '((7,), (6,))',
     '((7,), (6,))'),
    'allocation|int16|9x11|MANHATTAN|[1]|4.5':
    ('595f2ebf3fc04de8',
     '595f2ebf3fc04de8',
     '((4, 3, 2), (5, 4, 2))',
     '((4, 4, 1), (5, 5, 1))'),
    'allocation|int16|9x11|MANHATTAN|[1]|7.0':
    ('fff46168f84aa1b6',
     'fff46168f84aa1b6',
     '((4, 3, 2), (5, 6))',
     '((4, 4, 1), (5, 5, 1))'),
    'allocation|int16|9x11|MANHATTAN|[1]|inf':
    ('26e59e071e5ec8fe',
     '26e59e071e5ec8fe',
     '((9,), (11,))',
     '((9,), (11,))'),
    'allocation|int32|4x5|MANHATTAN|[1]|4.5':
    ('a38c2563a58b14e2',
     'a38c2563a58b14e2',
     '((2, 2), (3, 2))',
     '((2, 2), (3, 2))'),
    'allocation|int32|4x5|MANHATTAN|[1]|7.0':
    ('95bcc7160e79916b',
     '95bcc7160e79916b',
     '((2, 2), (5,))',
     '((2, 2), (3, 2))'),
    'allocation|int32|4x5|MANHATTAN|[1]|inf':
    ('d18e8421c04a8c87',
     'd18e8421c04a8c87',
     '((4,), (5,))',
     '((4,), (5,))'),
    'allocation|int32|5x3|GREAT_CIRCLE|[2, 3]|8.0':
    ('EXC',
     'ValueError',
     'The overlapping depth 4 is larger than your array 3.',
     '574f917cf7b50fa3'),
    'allocation|int32|5x3|GREAT_CIRCLE|[2, 3]|inf':
    ('bcd1924dc2e27119',
     'bcd1924dc2e27119',
     '((5,), (3,))',
     '((5,), (3,))'),
    'allocation|int32|6x13|MANHATTAN|[1]|4.5':
    ('1d03cb9f2e6408f5',
     '1d03cb9f2e6408f5',
     '((6,), (5, 5, 3))',
     '((6,), (5, 5, 3))'),
    'allocation|int32|6x13|MANHATTAN|[1]|7.0':
    ('c55597508664ab91',
     'c55597508664ab91',
     '((6,), (5, 8))',
     '((6,), (5, 5, 3))'),
    'allocation|int32|6x13|MANHATTAN|[1]|inf':
    ('c6527d5941397d75',
     'c6527d5941397d75',
     '((6,), (13,))',
     '((6,), (13,))'),
    'allocation|int32|7x6|GREAT_CIRCLE|[2, 3]|8.0':
    ('ab4b8470979aece4',
     'ab4b8470979aece4',
     '((3, 4), (6,))',
     '((3, 3, 1), (4, 2))'),
    'allocation|int32|7x6|GREAT_CIRCLE|[2, 3]|inf':
    ('f494e3c85ea9dc86',
     'f494e3c85ea9dc86',
     '((7,), (6,))',
     '((7,), (6,))'),
    'allocation|int32|9x11|EUCLIDEAN|[]|4.5':
    ('e8b1c6aef0dd53fe',
     'e8b1c6aef0dd53fe',
     '((4, 3, 2), (5, 4, 2))',
     '((4, 4, 1), (5, 5, 1))'),
    'allocation|int32|9x11|EUCLIDEAN|[]|7.0':
    ('0b5fa2174cc4758f',
     '0b5fa2174cc4758f',
     '((4, 3, 2), (5, 6))',
     '((4, 4, 1), (5, 5, 1))'),
    'allocation|int32|9x11|EUCLIDEAN|[]|inf':
    ('0b5fa2174cc4758f',
     '0b5fa2174cc4758f',
     '((9,), (11,))',
     '((9,), (11,))'),
    'allocation|int64|4x5|EUCLIDEAN|[]|4.5':
    ('5323a29148e48a41',
     '5323a29148e48a41',
     '((2, 2), (3, 2))',
     '((2, 2), (3, 2))'),
    'allocation|int64|4x5|EUCLIDEAN|[]|7.0':
    ('82955b701f9c1353',
     '82955b701f9c1353',
     '((2, 2), (5,))',
     '((2, 2), (3, 2))'),
    'allocation|int64|4x5|EUCLIDEAN|[]|inf':
    ('82955b701f9c1353',
     '82955b701f9c1353',
     '((4,), (5,))',
     '((4,), (5,))'),
    'allocation|int64|5x3|MANHATTAN|[1]|4.5':
    ('96794de838d82d4a',
     '96794de838d82d4a',
     '((2, 3), (3,))',
     '((1, 1, 1, 1, 1), (3,))'),
    'allocation|int64|5x3|MANHATTAN|[1]|7.0':
    ('EXC',
     'ValueError',
     'The overlapping depth 4 is larger than your array 3.',
     '523a8dc9c8574e03'),
    'allocation|int64|5x3|MANHATTAN|[1]|inf':
    ('5ec901193f6b897e',
     '5ec901193f6b897e',
     '((5,), (3,))',
     '((5,), (3,))'),
    'allocation|int64|6x13|EUCLIDEAN|[]|4.5':
    ('1e503d3b19247f56',
     '1e503d3b19247f56',
     '((6,), (5, 5, 3))',
     '((6,), (5, 5, 3))'),
    'allocation|int64|6x13|EUCLIDEAN|[]|7.0':
    ('c5f66adcfb7af24f',
     'c5f66adcfb7af24f',
     '((6,), (5, 8))',
     '((6,), (5, 5, 3))'),
    'allocation|int64|6x13|EUCLIDEAN|[]|inf':
    ('0fb7682e7d9250ff',
     '0fb7682e7d9250ff',
     '((6,), (13,))',
     '((6,), (13,))'),
    'allocation|int64|7x6|MANHATTAN|[1]|4.5':
    ('299dc2cb2331bb08',
     '299dc2cb2331bb08',
     '((3, 4), (4, 2))',
     '((3, 3, 1), (4, 2))'),
    'allocation|int64|7x6|MANHATTAN|[1]|7.0':
    ('1a83c7f846756734',
     '1a83c7f846756734',
     '((3, 4), (6,))',
     '((3, 3, 1), (4, 2))'),
    'allocation|int64|7x6|MANHATTAN|[1]|inf':
    ('8dab5c735f806206',
     '8dab5c735f806206',
     '((7,), (6,))',
     '((7,), (6,))'),
    'allocation|int64|9x11|GREAT_CIRCLE|[2, 3]|8.0':
    ('64784a074a97d8d8',
     '64784a074a97d8d8',
     '((4, 5), (5, 6))',
     '((4, 4, 1), (5, 5, 1))'),
    'allocation|int64|9x11|GREAT_CIRCLE|[2, 3]|inf':
    ('5190fda593223259',
     '5190fda593223259',
     '((9,), (11,))',
     '((9,), (11,))'),
    'allocation|int8|4x5|EUCLIDEAN|[]|4.5':
    ('54e1eeb080319c15',
     '54e1eeb080319c15',
     '((2, 2), (3, 2))',
     '((2, 2), (3, 2))'),
    'allocation|int8|4x5|EUCLIDEAN|[]|7.0':
    ('0a625ffd6386e1b0',
     '0a625ffd6386e1b0',
     '((2, 2), (5,))',
     '((2, 2), (3, 2))'),
    'allocation|int8|4x5|EUCLIDEAN|[]|inf':
    ('493184ac044b7c7f',
     '493184ac044b7c7f',
     '((4,), (5,))',
     '((4,), (5,))'),
    'allocation|int8|5x3|MANHATTAN|[1]|4.5':
    ('67e380adc1a12baa',
     '67e380adc1a12baa',
     '((2, 3), (3,))',
     '((1, 1, 1, 1, 1), (3,))'),
    'allocation|int8|5x3|MANHATTAN|[1]|7.0':
    ('EXC',
     'ValueError',
     'The overlapping depth 4 is larger than your array 3.',
     '67e380adc1a12baa'),
    'allocation|int8|5x3|MANHATTAN|[1]|inf':
    ('67e380adc1a12baa',
     '67e380adc1a12baa',
     '((5,), (3,))',
     '((5,), (3,))'),
    'allocation|int8|6x13|EUCLIDEAN|[]|4.5':
    ('c6975501c432f9ec',
     'c6975501c432f9ec',
     '((6,), (5, 5, 3))',
     '((6,), (5, 5, 3))'),
    'allocation|int8|6x13|EUCLIDEAN|[]|7.0':
    ('67b620e42603080a',
     '67b620e42603080a',
     '((6,), (5, 8))',
     '((6,), (5, 5, 3))'),
    'allocation|int8|6x13|EUCLIDEAN|[]|inf':
    ('67b620e42603080a',
     '67b620e42603080a',
     '((6,), (13,))',
     '((6,), (13,))'),
    'allocation|int8|7x6|MANHATTAN|[1]|4.5':
    ('259a1b11b2ea6164',
     '259a1b11b2ea6164',
     '((3, 4), (4, 2))',
     '((3, 3, 1), (4, 2))'),
    'allocation|int8|7x6|MANHATTAN|[1]|7.0':
    ('e9e71e9a1a579536',
     'e9e71e9a1a579536',
     '((3, 4), (6,))',
     '((3, 3, 1), (4, 2))'),
    'allocation|int8|7x6|MANHATTAN|[1]|inf':
    ('8dab5c735f806206',
     '8dab5c735f806206',
     '((7,), (6,))',
     '((7,), (6,))'),
    'allocation|int8|9x11|GREAT_CIRCLE|[2, 3]|8.0':
    ('9c123d8ab94bed17',
     '9c123d8ab94bed17',
     '((4, 5), (5, 6))',
     '((4, 4, 1), (5, 5, 1))'),
    'allocation|int8|9x11|GREAT_CIRCLE|[2, 3]|inf':
    ('e5aec16b827f1953',
     'e5aec16b827f1953',
     '((9,), (11,))',
     '((9,), (11,))'),
    'allocation|uint16|4x5|EUCLIDEAN|[]|4.5':
    ('5d083c3ac4b01312',
     '5d083c3ac4b01312',
     '((2, 2), (3, 2))',
     '((2, 2), (3, 2))'),
    'allocation|uint16|4x5|EUCLIDEAN|[]|7.0':
    ('5d083c3ac4b01312',
     '5d083c3ac4b01312',
     '((2, 2), (5,))',
     '((2, 2), (3, 2))'),
    'allocation|uint16|4x5|EUCLIDEAN|[]|inf':
    ('5d083c3ac4b01312',
     '5d083c3ac4b01312',
     '((4,), (5,))',
     '((4,), (5,))'),
    'allocation|uint16|5x3|MANHATTAN|[1]|4.5':
    ('8b40595462e1f10b',
     '8b40595462e1f10b',
     '((2, 3), (3,))',
     '((1, 1, 1, 1, 1), (3,))'),
    'allocation|uint16|5x3|MANHATTAN|[1]|7.0':
    ('EXC',
     'ValueError',
     'The overlapping depth 4 is larger than your array 3.',
     '63f8d80ac94ef752'),
    'allocation|uint16|5x3|MANHATTAN|[1]|inf':
    ('5ec901193f6b897e',
     '5ec901193f6b897e',
     '((5,), (3,))',
     '((5,), (3,))'),
    'allocation|uint16|6x13|EUCLIDEAN|[]|4.5':
    ('1e380515c4d44759',
     '1e380515c4d44759',
     '((6,), (5, 5, 3))',
     '((6,), (5, 5, 3))'),
    'allocation|uint16|6x13|EUCLIDEAN|[]|7.0':
    ('d2c15dac004c2b8f',
     'd2c15dac004c2b8f',
     '((6,), (5, 8))',
     '((6,), (5, 5, 3))'),
    'allocation|uint16|6x13|EUCLIDEAN|[]|inf':
    ('d2c15dac004c2b8f',
     'd2c15dac004c2b8f',
     '((6,), (13,))',
     '((6,), (13,))'),
    'allocation|uint16|7x6|MANHATTAN|[1]|4.5':
    ('1db2b758bca63da5',
     '1db2b758bca63da5',
     '((3, 4), (4, 2))',
     '((3, 3, 1), (4, 2))'),
    'allocation|uint16|7x6|MANHATTAN|[1]|7.0':
    ('1b6d3e5787091cdb',
     '1b6d3e5787091cdb',
     '((3, 4), (6,))',
     '((3, 3, 1), (4, 2))'),
    'allocation|uint16|7x6|MANHATTAN|[1]|inf':
    ('8dab5c735f806206',
     '8dab5c735f806206',
     '((7,), (6,))',
     '((7,), (6,))'),
    'allocation|uint16|9x11|GREAT_CIRCLE|[2, 3]|8.0':
    ('08599d8e4b2936f8',
     '08599d8e4b2936f8',
     '((4, 5), (5, 6))',
     '((4, 4, 1), (5, 5, 1))'),
    'allocation|uint16|9x11|GREAT_CIRCLE|[2, 3]|inf':
    ('283c38bc17a45b0f',
     '283c38bc17a45b0f',
     '((9,), (11,))',
     '((9,), (11,))'),
    'allocation|uint32|4x5|GREAT_CIRCLE|[2, 3]|8.0':
    ('1b6f3a6f2fe268fc',
     '1b6f3a6f2fe268fc',
     '((4,), (5,))',
     '((2, 2), (3, 2))'),
    'allocation|uint32|4x5|GREAT_CIRCLE|[2, 3]|inf':
    ('e6004f5c2720339d',
     'e6004f5c2720339d',
     '((4,), (5,))',
     '((4,), (5,))'),
    'allocation|uint32|5x3|EUCLIDEAN|[]|4.5':
    ('1996785d0bbb0742',
     '1996785d0bbb0742',
     '((2, 3), (3,))',
     '((1, 1, 1, 1, 1), (3,))'),
    'allocation|uint32|5x3|EUCLIDEAN|[]|7.0':
    ('EXC',
     'ValueError',
     'The overlapping depth 4 is larger than your array 3.',
     '1996785d0bbb0742'),
    'allocation|uint32|5x3|EUCLIDEAN|[]|inf':
    ('1996785d0bbb0742',
     '1996785d0bbb0742',
     '((5,), (3,))',
     '((5,), (3,))'),
    'allocation|uint32|6x13|GREAT_CIRCLE|[2, 3]|8.0':
    ('c15f9d3a2d90d5d0',
     'c15f9d3a2d90d5d0',
     '((6,), (5, 8))',
     '((6,), (5, 5, 3))'),
    'allocation|uint32|6x13|GREAT_CIRCLE|[2, 3]|inf':
    ('931fbbf5988b554a',
     '931fbbf5988b554a',
     '((6,), (13,))',
     '((6,), (13,))'),
    'allocation|uint32|7x6|EUCLIDEAN|[]|4.5':
    ('f361639e1430ba05',
     'f361639e1430ba05',
     '((3, 4), (4, 2))',
     '((3, 3, 1), (4, 2))'),
    'allocation|uint32|7x6|EUCLIDEAN|[]|7.0':
    ('f361639e1430ba05',
     'f361639e1430ba05',
     '((3, 4), (6,))',
     '((3, 3, 1), (4, 2))'),
    'allocation|uint32|7x6|EUCLIDEAN|[]|inf':
    ('f361639e1430ba05',
     'f361639e1430ba05',
     '((7,), (6,))',
     '((7,), (6,))'),
    'allocation|uint32|9x11|MANHATTAN|[1]|4.5':
    ('0cc46f1f6c655439',
     '0cc46f1f6c655439',
     '((4, 3, 2), (5, 4, 2))',
     '((4, 4, 1), (5, 5, 1))'),
    'allocation|uint32|9x11|MANHATTAN|[1]|7.0':
    ('ce3c11c1712a4532',
     'ce3c11c1712a4532',
     '((4, 3, 2), (5, 6))',
     '((4, 4, 1), (5, 5, 1))'),
    'allocation|uint32|9x11|MANHATTAN|[1]|inf':
    ('26e59e071e5ec8fe',
     '26e59e071e5ec8fe',
     '((9,), (11,))',
     '((9,), (11,))'),
    'allocation|uint64|4x5|MANHATTAN|[1]|4.5':
    ('4e5247ff7e88ff9e',
     '4e5247ff7e88ff9e',
     '((2, 2), (3, 2))',
     '((2, 2), (3, 2))'),
    'allocation|uint64|4x5|MANHATTAN|[1]|7.0':
    ('f2f9783d18466a47',
     'f2f9783d18466a47',
     '((2, 2), (5,))',
     '((2, 2), (3, 2))'),
    'allocation|uint64|4x5|MANHATTAN|[1]|inf':
    ('d18e8421c04a8c87',
     'd18e8421c04a8c87',
     '((4,), (5,))',
     '((4,), (5,))'),
    'allocation|uint64|5x3|GREAT_CIRCLE|[2, 3]|8.0':
    ('EXC',
     'ValueError',
     'The overlapping depth 4 is larger than your array 3.',
     'ac2022f22069b33c'),
    'allocation|uint64|5x3|GREAT_CIRCLE|[2, 3]|inf':
    ('5d994fe750059099',
     '5d994fe750059099',
     '((5,), (3,))',
     '((5,), (3,))'),
    'allocation|uint64|6x13|MANHATTAN|[1]|4.5':
    ('28c0426e5c4a350a',
     '28c0426e5c4a350a',
     '((6,), (5, 5, 3))',
     '((6,), (5, 5, 3))'),
    'allocation|uint64|6x13|MANHATTAN|[1]|7.0':
    ('73b3fe6cfdbe3521',
     '73b3fe6cfdbe3521',
     '((6,), (5, 8))',
     '((6,), (5, 5, 3))'),
    'allocation|uint64|6x13|MANHATTAN|[1]|inf':
    ('c6527d5941397d75',
     'c6527d5941397d75',
     '((6,), (13,))',
     '((6,), (13,))'),
    'allocation|uint64|7x6|GREAT_CIRCLE|[2, 3]|8.0':
    ('51d4d782ce0afbd7',
     '51d4d782ce0afbd7',
     '((3, 4), (6,))',
     '((3, 3, 1), (4, 2))'),
    'allocation|uint64|7x6|GREAT_CIRCLE|[2, 3]|inf':
    ('fec0987531cf574a',
     'fec0987531cf574a',
     '((7,), (6,))',
     '((7,), (6,))'),
    'allocation|uint64|9x11|EUCLIDEAN|[]|4.5':
    ('e9de47d21fd61875',
     'e9de47d21fd61875',
     '((4, 3, 2), (5, 4, 2))',
     '((4, 4, 1), (5, 5, 1))'),
    'allocation|uint64|9x11|EUCLIDEAN|[]|7.0':
    ('3863a4c8bc88920e',
     '3863a4c8bc88920e',
     '((4, 3, 2), (5, 6))',
     '((4, 4, 1), (5, 5, 1))'),
    'allocation|uint64|9x11|EUCLIDEAN|[]|inf':
    ('3863a4c8bc88920e',
     '3863a4c8bc88920e',
     '((9,), (11,))',
     '((9,), (11,))'),
    'allocation|uint8|4x5|MANHATTAN|[1]|4.5':
    ('ba04a2057d95c7c6',
     'ba04a2057d95c7c6',
     '((2, 2), (3, 2))',
     '((2, 2), (3, 2))'),
    'allocation|uint8|4x5|MANHATTAN|[1]|7.0':
    ('d18e8421c04a8c87',
     'd18e8421c04a8c87',
     '((2, 2), (5,))',
     '((2, 2), (3, 2))'),
    'allocation|uint8|4x5|MANHATTAN|[1]|inf':
    ('d18e8421c04a8c87',
     'd18e8421c04a8c87',
     '((4,), (5,))',
     '((4,), (5,))'),
    'allocation|uint8|5x3|GREAT_CIRCLE|[2, 3]|8.0':
    ('EXC',
     'ValueError',
     'The overlapping depth 4 is larger than your array 3.',
     '6fd720dca74a1b8e'),
    'allocation|uint8|5x3|GREAT_CIRCLE|[2, 3]|inf':
    ('d40769c24918699b',
     'd40769c24918699b',
     '((5,), (3,))',
     '((5,), (3,))'),
    'allocation|uint8|6x13|MANHATTAN|[1]|4.5':
    ('7a5d673b27d34fa8',
     '7a5d673b27d34fa8',
     '((6,), (5, 5, 3))',
     '((6,), (5, 5, 3))'),
    'allocation|uint8|6x13|MANHATTAN|[1]|7.0':
    ('f45c070ff0a2422b',
     'f45c070ff0a2422b',
     '((6,), (5, 8))',
     '((6,), (5, 5, 3))'),
    'allocation|uint8|6x13|MANHATTAN|[1]|inf':
    ('c6527d5941397d75',
     'c6527d5941397d75',
     '((6,), (13,))',
     '((6,), (13,))'),
    'allocation|uint8|7x6|GREAT_CIRCLE|[2, 3]|8.0':
    ('1811d2b8b23bff8c',
     '1811d2b8b23bff8c',
     '((3, 4), (6,))',
     '((3, 3, 1), (4, 2))'),
    'allocation|uint8|7x6|GREAT_CIRCLE|[2, 3]|inf':
    ('4cae0311c640262e',
     '4cae0311c640262e',
     '((7,), (6,))',
     '((7,), (6,))'),
    'allocation|uint8|9x11|EUCLIDEAN|[]|4.5':
    ('6d377e438d4a32b8',
     '6d377e438d4a32b8',
     '((4, 3, 2), (5, 4, 2))',
     '((4, 4, 1), (5, 5, 1))'),
    'allocation|uint8|9x11|EUCLIDEAN|[]|7.0':
    ('cb04b90fa6d995db',
     'cb04b90fa6d995db',
     '((4, 3, 2), (5, 6))',
     '((4, 4, 1), (5, 5, 1))'),
    'allocation|uint8|9x11|EUCLIDEAN|[]|inf':
    ('cb04b90fa6d995db',
     'cb04b90fa6d995db',
     '((9,), (11,))',
     '((9,), (11,))'),
    'direction|float32|4x5|GREAT_CIRCLE|[2, 3]|8.0':
    ('9f82b62ad0506b7b',
     '9f82b62ad0506b7b',
     '((4,), (5,))',
     '((2, 2), (3, 2))'),
    'direction|float32|4x5|GREAT_CIRCLE|[2, 3]|inf':
    ('3aff7b8ea7c0cfc0',
     '3aff7b8ea7c0cfc0',
     '((4,), (5,))',
     '((4,), (5,))'),
    'direction|float32|5x3|EUCLIDEAN|[]|4.5':
    ('ae6341454e3a0a53',
     'ae6341454e3a0a53',
     '((2, 3), (3,))',
     '((1, 1, 1, 1, 1), (3,))'),
    'direction|float32|5x3|EUCLIDEAN|[]|7.0':
    ('EXC',
     'ValueError',
     'The overlapping depth 4 is larger than your array 3.',
     'ae6341454e3a0a53'),
    'direction|float32|5x3|EUCLIDEAN|[]|inf':
    ('ae6341454e3a0a53',
     'ae6341454e3a0a53',
     '((5,), (3,))',
     '((5,), (3,))'),
    'direction|float32|6x13|GREAT_CIRCLE|[2, 3]|8.0':
    ('92f7e949f7f1f474',
     '92f7e949f7f1f474',
     '((6,), (5, 8))',
     '((6,), (5, 5, 3))'),
    'direction|float32|6x13|GREAT_CIRCLE|[2, 3]|inf':
    ('7db21e7811357ba4',
     '7db21e7811357ba4',
     '((6,), (13,))',
     '((6,), (13,))'),
    'direction|float32|7x6|EUCLIDEAN|[]|4.5':
    ('66d5244f983f7e7d',
     '66d5244f983f7e7d',
     '((3, 4), (4, 2))',
     '((3, 3, 1), (4, 2))'),
    'direction|float32|7x6|EUCLIDEAN|[]|7.0':
    ('4470d66f6a529508',
     '4470d66f6a529508',
     '((3, 4), (6,))',
     '((3, 3, 1), (4, 2))'),
    'direction|float32|7x6|EUCLIDEAN|[]|inf':
    ('4721225e047d9c0a',
     '4721225e047d9c0a',
     '((7,), (6,))',
     '((7,), (6,))'),
    'direction|float32|9x11|MANHATTAN|[1]|4.5':
    ('0969a75b18f80b70',
     '0969a75b18f80b70',
     '((4, 3, 2), (5, 4, 2))',
     '((4, 4, 1), (5, 5, 1))'),
    'direction|float32|9x11|MANHATTAN|[1]|7.0':
    ('fa2e2ecf500f190e',
     'fa2e2ecf500f190e',
     '((4, 3, 2), (5, 6))',
     '((4, 4, 1), (5, 5, 1))'),
    'direction|float32|9x11|MANHATTAN|[1]|inf':
    ('3dab1407c6b2c397',
     '3dab1407c6b2c397',
     '((9,), (11,))',
     '((9,), (11,))'),
    'direction|float64|4x5|EUCLIDEAN|[]|4.5':
    ('42a59af64df3236e',
     '42a59af64df3236e',
     '((2, 2), (3, 2))',
     '((2, 2), (3, 2))'),
    'direction|float64|4x5|EUCLIDEAN|[]|7.0':
    ('42a59af64df3236e',
     '42a59af64df3236e',
     '((2, 2), (5,))',
     '((2, 2), (3, 2))'),
    'direction|float64|4x5|EUCLIDEAN|[]|inf':
    ('42a59af64df3236e',
     '42a59af64df3236e',
     '((4,), (5,))',
     '((4,), (5,))'),
    'direction|float64|5x3|MANHATTAN|[1]|4.5':
    ('38c19795831f9bbd',
     '38c19795831f9bbd',
     '((2, 3), (3,))',
     '((1, 1, 1, 1, 1), (3,))'),
    'direction|float64|5x3|MANHATTAN|[1]|7.0':
    ('EXC',
     'ValueError',
     'The overlapping depth 4 is larger than your array 3.',
     '0e2c24311adda2da'),
    'direction|float64|5x3|MANHATTAN|[1]|inf':
    ('0e2c24311adda2da',
     '0e2c24311adda2da',
     '((5,), (3,))',
     '((5,), (3,))'),
    'direction|float64|6x13|EUCLIDEAN|[]|4.5':
    ('e83a28cad54c0d6b',
     'e83a28cad54c0d6b',
     '((6,), (5, 5, 3))',
     '((6,), (5, 5, 3))'),
    'direction|float64|6x13|EUCLIDEAN|[]|7.0':
    ('afdb0e64719be37e',
     'afdb0e64719be37e',
     '((6,), (5, 8))',
     '((6,), (5, 5, 3))'),
    'direction|float64|6x13|EUCLIDEAN|[]|inf':
    ('afdb0e64719be37e',
     'afdb0e64719be37e',
     '((6,), (13,))',
     '((6,), (13,))'),
    'direction|float64|7x6|MANHATTAN|[1]|4.5':
    ('5fda5c4d4f52ee35',
     '5fda5c4d4f52ee35',
     '((3, 4), (4, 2))',
     '((3, 3, 1), (4, 2))'),
    'direction|float64|7x6|MANHATTAN|[1]|7.0':
    ('69e41699ef0f828f',
     '69e41699ef0f828f',
     '((3, 4), (6,))',
     '((3, 3, 1), (4, 2))'),
    'direction|float64|7x6|MANHATTAN|[1]|inf':
    ('c7e72a7bc730b02f',
     'c7e72a7bc730b02f',
     '((7,), (6,))',
     '((7,), (6,))'),
    'direction|float64|9x11|GREAT_CIRCLE|[2, 3]|8.0':
    ('a23553b18bad6322',
     'a23553b18bad6322',
     '((4, 5), (5, 6))',
     '((4, 4, 1), (5, 5, 1))'),
    'direction|float64|9x11|GREAT_CIRCLE|[2, 3]|inf':
    ('e096c3b868f868b3',
     'e096c3b868f868b3',
     '((9,), (11,))',
     '((9,), (11,))'),
    'direction|int16|4x5|GREAT_CIRCLE|[2, 3]|8.0':
    ('f96cb6e77113597b',
     'f96cb6e77113597b',
     '((4,), (5,))',
     '((2, 2), (3, 2))'),
    'direction|int16|4x5|GREAT_CIRCLE|[2, 3]|inf':
    ('ac3db692b9533f49',
     'ac3db692b9533f49',
     '((4,), (5,))',
     '((4,), (5,))'),
    'direction|int16|5x3|EUCLIDEAN|[]|4.5':
    ('4cf3f3f19b68846f',
     '4cf3f3f19b68846f',
     '((2, 3), (3,))',
     '((1, 1, 1, 1, 1), (3,))'),
    'direction|int16|5x3|EUCLIDEAN|[]|7.0':
    ('EXC',
     'ValueError',
     'The overlapping depth 4 is larger than your array 3.',
     '4cf3f3f19b68846f'),
    'direction|int16|5x3|EUCLIDEAN|[]|inf':
    ('4cf3f3f19b68846f',
     '4cf3f3f19b68846f',
     '((5,), (3,))',
     '((5,), (3,))'),
    'direction|int16|6x13|GREAT_CIRCLE|[2, 3]|8.0':
    ('3e75f8b5998dc078',
     '3e75f8b5998dc078',
     '((6,), (5, 8))',
     '((6,), (5, 5, 3))'),
    'direction|int16|6x13|GREAT_CIRCLE|[2, 3]|inf':
    ('2df8de59eba1617d',
     '2df8de59eba1617d',
     '((6,), (13,))',
     '((6,), (13,))'),
    'direction|int16|7x6|EUCLIDEAN|[]|4.5':
    ('18d15835651b2fe6',
     '18d15835651b2fe6',
     '((3, 4), (4, 2))',
     '((3, 3, 1), (4, 2))'),
    'direction|int16|7x6|EUCLIDEAN|[]|7.0':
    ('18d15835651b2fe6',
     '18d15835651b2fe6',
     '((3, 4), (6,))',
     '((3, 3, 1), (4, 2))'),
    'direction|int16|7x6|EUCLIDEAN|[]|inf':
    ('18d15835651b2fe6',
     '18d15835651b2fe6',
     '((7,), (6,))',
     '((7,), (6,))'),
    'direction|int16|9x11|MANHATTAN|[1]|4.5':
    ('0a1341f4a095e0c1',
     '0a1341f4a095e0c1',
     '((4, 3, 2), (5, 4, 2))',
     '((4, 4, 1), (5, 5, 1))'),
    'direction|int16|9x11|MANHATTAN|[1]|7.0':
    ('208b123919845734',
     '208b123919845734',
     '((4, 3, 2), (5, 6))',
     '((4, 4, 1), (5, 5, 1))'),
    'direction|int16|9x11|MANHATTAN|[1]|inf':
    ('071957149814a744',
     '071957149814a744',
     '((9,), (11,))',
     '((9,), (11,))'),
    'direction|int32|4x5|MANHATTAN|[1]|4.5':
    ('0ab7e148b6c687bc',
     '0ab7e148b6c687bc',
     '((2, 2), (3, 2))',
     '((2, 2), (3, 2))'),
    'direction|int32|4x5|MANHATTAN|[1]|7.0':
    ('9ea90f0bd8a7f258',
     '9ea90f0bd8a7f258',
     '((2, 2), (5,))',
     '((2, 2), (3, 2))'),
    'direction|int32|4x5|MANHATTAN|[1]|inf':
    ('d4411c72723f422b',
     'd4411c72723f422b',
     '((4,), (5,))',
     '((4,), (5,))'),
    'direction|int32|5x3|GREAT_CIRCLE|[2, 3]|8.0':
    ('EXC',
     'ValueError',
     'The overlapping depth 4 is larger than your array 3.',
     '0edafe165151e6ba'),
    'direction|int32|5x3|GREAT_CIRCLE|[2, 3]|inf':
    ('b024f8cf581327fe',
     'b024f8cf581327fe',
     '((5,), (3,))',
     '((5,), (3,))'),
    'direction|int32|6x13|MANHATTAN|[1]|4.5':
    ('0451f78655bcfcb7',
     '0451f78655bcfcb7',
     '((6,), (5, 5, 3))',
     '((6,), (5, 5, 3))'),
    'direction|int32|6x13|MANHATTAN|[1]|7.0':
    ('6c8196adb08090c3',
     '6c8196adb08090c3',
     '((6,), (5, 8))',
     '((6,), (5, 5, 3))'),
    'direction|int32|6x13|MANHATTAN|[1]|inf':
    ('702b19272f31ffae',
     '702b19272f31ffae',
     '((6,), (13,))',
     '((6,), (13,))'),
    'direction|int32|7x6|GREAT_CIRCLE|[2, 3]|8.0':
    ('af766cca2ae1863d',
     'af766cca2ae1863d',
     '((3, 4), (6,))',
     '((3, 3, 1), (4, 2))'),
    'direction|int32|7x6|GREAT_CIRCLE|[2, 3]|inf':
    ('f4032ae6aeaed2b9',
     'f4032ae6aeaed2b9',
     '((7,), (6,))',
     '((7,), (6,))'),
    'direction|int32|9x11|EUCLIDEAN|[]|4.5':
    ('d6f9217aed2eb02b',
     'd6f9217aed2eb02b',
     '((4, 3, 2), (5, 4, 2))',
     '((4, 4, 1), (5, 5, 1))'),
    'direction|int32|9x11|EUCLIDEAN|[]|7.0':
    ('434c5727d71e5f89',
     '434c5727d71e5f89',
     '((4, 3, 2), (5, 6))',
     '((4, 4, 1), (5, 5, 1))'),
    'direction|int32|9x11|EUCLIDEAN|[]|inf':
    ('434c5727d71e5f89',
     '434c5727d71e5f89',
     '((9,), (11,))',
     '((9,), (11,))'),
    'direction|int64|4x5|EUCLIDEAN|[]|4.5':
    ('de458f1441be4b87',
     'de458f1441be4b87',
     '((2, 2), (3, 2))',
     '((2, 2), (3, 2))'),
    'direction|int64|4x5|EUCLIDEAN|[]|7.0':
    ('212c0a2e34b9b8af',
     '212c0a2e34b9b8af',
     '((2, 2), (5,))',
     '((2, 2), (3, 2))'),
    'direction|int64|4x5|EUCLIDEAN|[]|inf':
    ('212c0a2e34b9b8af',
     '212c0a2e34b9b8af',
     '((4,), (5,))',
     '((4,), (5,))'),
    'direction|int64|5x3|MANHATTAN|[1]|4.5':
    ('9f35cb860c6952de',
     '9f35cb860c6952de',
     '((2, 3), (3,))',
     '((1, 1, 1, 1, 1), (3,))'),
    'direction|int64|5x3|MANHATTAN|[1]|7.0':
    ('EXC',
     'ValueError',
     'The overlapping depth 4 is larger than your array 3.',
     '76c27b884475e782'),
    'direction|int64|5x3|MANHATTAN|[1]|inf':
    ('492812292dc24293',
     '492812292dc24293',
     '((5,), (3,))',
     '((5,), (3,))'),
    'direction|int64|6x13|EUCLIDEAN|[]|4.5':
    ('3dd8599b172e2a81',
     '3dd8599b172e2a81',
     '((6,), (5, 5, 3))',
     '((6,), (5, 5, 3))'),
    'direction|int64|6x13|EUCLIDEAN|[]|7.0':
    ('49cc359180a722f6',
     '49cc359180a722f6',
     '((6,), (5, 8))',
     '((6,), (5, 5, 3))'),
    'direction|int64|6x13|EUCLIDEAN|[]|inf':
    ('830f94ebfb0c76b4',
     '830f94ebfb0c76b4',
     '((6,), (13,))',
     '((6,), (13,))'),
    'direction|int64|7x6|MANHATTAN|[1]|4.5':
    ('f467d308a0de31e1',
     'f467d308a0de31e1',
     '((3, 4), (4, 2))',
     '((3, 3, 1), (4, 2))'),
    'direction|int64|7x6|MANHATTAN|[1]|7.0':
    ('c8c7d9c61cf6b53f',
     'c8c7d9c61cf6b53f',
     '((3, 4), (6,))',
     '((3, 3, 1), (4, 2))'),
    'direction|int64|7x6|MANHATTAN|[1]|inf':
    ('c4577e5b9a635ba5',
     'c4577e5b9a635ba5',
     '((7,), (6,))',
     '((7,), (6,))'),
    'direction|int64|9x11|GREAT_CIRCLE|[2, 3]|8.0':
    ('0d840a5f0c39a9ad',
     '0d840a5f0c39a9ad',
     '((4, 5), (5, 6))',
     '((4, 4, 1), (5, 5, 1))'),
    'direction|int64|9x11|GREAT_CIRCLE|[2, 3]|inf':
    ('c4698a4eeaced551',
     'c4698a4eeaced551',
     '((9,), (11,))',
     '((9,), (11,))'),
    'direction|int8|4x5|EUCLIDEAN|[]|4.5':
    ('14a25ab80cf22014',
     '14a25ab80cf22014',
     '((2, 2), (3, 2))',
     '((2, 2), (3, 2))'),
    'direction|int8|4x5|EUCLIDEAN|[]|7.0':
    ('0ad7cc11dde733f0',
     '0ad7cc11dde733f0',
     '((2, 2), (5,))',
     '((2, 2), (3, 2))'),
    'direction|int8|4x5|EUCLIDEAN|[]|inf':
    ('d21b21686f6bcac6',
     'd21b21686f6bcac6',
     '((4,), (5,))',
     '((4,), (5,))'),
    'direction|int8|5x3|MANHATTAN|[1]|4.5':
    ('67e380adc1a12baa',
     '67e380adc1a12baa',
     '((2, 3), (3,))',
     '((1, 1, 1, 1, 1), (3,))'),
    'direction|int8|5x3|MANHATTAN|[1]|7.0':
    ('EXC',
     'ValueError',
     'The overlapping depth 4 is larger than your array 3.',
     '67e380adc1a12baa'),
    'direction|int8|5x3|MANHATTAN|[1]|inf':
    ('67e380adc1a12baa',
     '67e380adc1a12baa',
     '((5,), (3,))',
     '((5,), (3,))'),
    'direction|int8|6x13|EUCLIDEAN|[]|4.5':
    ('9fcabbc530d0df3b',
     '9fcabbc530d0df3b',
     '((6,), (5, 5, 3))',
     '((6,), (5, 5, 3))'),
    'direction|int8|6x13|EUCLIDEAN|[]|7.0':
    ('2334b3a6dcef3b67',
     '2334b3a6dcef3b67',
     '((6,), (5, 8))',
     '((6,), (5, 5, 3))'),
    'direction|int8|6x13|EUCLIDEAN|[]|inf':
    ('2334b3a6dcef3b67',
     '2334b3a6dcef3b67',
     '((6,), (13,))',
     '((6,), (13,))'),
    'direction|int8|7x6|MANHATTAN|[1]|4.5':
    ('ab40d6884fb59f7d',
     'ab40d6884fb59f7d',
     '((3, 4), (4, 2))',
     '((3, 3, 1), (4, 2))'),
    'direction|int8|7x6|MANHATTAN|[1]|7.0':
    ('ae2b937df1f62c13',
     'ae2b937df1f62c13',
     '((3, 4), (6,))',
     '((3, 3, 1), (4, 2))'),
    'direction|int8|7x6|MANHATTAN|[1]|inf':
    ('5039584efd96fdac',
     '5039584efd96fdac',
     '((7,), (6,))',
     '((7,), (6,))'),
    'direction|int8|9x11|GREAT_CIRCLE|[2, 3]|8.0':
    ('289472b3a324fe5a',
     '289472b3a324fe5a',
     '((4, 5), (5, 6))',
     '((4, 4, 1), (5, 5, 1))'),
    'direction|int8|9x11|GREAT_CIRCLE|[2, 3]|inf':
    ('680bd50657b333ee',
     '680bd50657b333ee',
     '((9,), (11,))',
     '((9,), (11,))'),
    'direction|uint16|4x5|EUCLIDEAN|[]|4.5':
    ('aa8944289578a9e1',
     'aa8944289578a9e1',
     '((2, 2), (3, 2))',
     '((2, 2), (3, 2))'),
    'direction|uint16|4x5|EUCLIDEAN|[]|7.0':
    ('aa8944289578a9e1',
     'aa8944289578a9e1',
     '((2, 2), (5,))',
     '((2, 2), (3, 2))'),
    'direction|uint16|4x5|EUCLIDEAN|[]|inf':
    ('aa8944289578a9e1',
     'aa8944289578a9e1',
     '((4,), (5,))',
     '((4,), (5,))'),
    'direction|uint16|5x3|MANHATTAN|[1]|4.5':
    ('65904d43ece17acb',
     '65904d43ece17acb',
     '((2, 3), (3,))',
     '((1, 1, 1, 1, 1), (3,))'),
    'direction|uint16|5x3|MANHATTAN|[1]|7.0':
    ('EXC',
     'ValueError',
     'The overlapping depth 4 is larger than your array 3.',
     '6971e84f440beddf'),
    'direction|uint16|5x3|MANHATTAN|[1]|inf':
    ('2a77726a6b97931d',
     '2a77726a6b97931d',
     '((5,), (3,))',
     '((5,), (3,))'),
    'direction|uint16|6x13|EUCLIDEAN|[]|4.5':
    ('3e77278c108f381d',
     '3e77278c108f381d',
     '((6,), (5, 5, 3))',
     '((6,), (5, 5, 3))'),
    'direction|uint16|6x13|EUCLIDEAN|[]|7.0':
    ('e0b87fcd1af0f9d5',
     'e0b87fcd1af0f9d5',
     '((6,), (5, 8))',
     '((6,), (5, 5, 3))'),
    'direction|uint16|6x13|EUCLIDEAN|[]|inf':
    ('e0b87fcd1af0f9d5',
     'e0b87fcd1af0f9d5',
     '((6,), (13,))',
     '((6,), (13,))'),
    'direction|uint16|7x6|MANHATTAN|[1]|4.5':
    ('8a133f1c2697a946',
     '8a133f1c2697a946',
     '((3, 4), (4, 2))',
     '((3, 3, 1), (4, 2))'),
    'direction|uint16|7x6|MANHATTAN|[1]|7.0':
    ('382103147cd87975',
     '382103147cd87975',
     '((3, 4), (6,))',
     '((3, 3, 1), (4, 2))'),
    'direction|uint16|7x6|MANHATTAN|[1]|inf':
    ('aa8c653c03123428',
     'aa8c653c03123428',
     '((7,), (6,))',
     '((7,), (6,))'),
    'direction|uint16|9x11|GREAT_CIRCLE|[2, 3]|8.0':
    ('47a27aa671ad322a',
     '47a27aa671ad322a',
     '((4, 5), (5, 6))',
     '((4, 4, 1), (5, 5, 1))'),
    'direction|uint16|9x11|GREAT_CIRCLE|[2, 3]|inf':
    ('4254182c1c2ad2f6',
     '4254182c1c2ad2f6',
     '((9,), (11,))',
     '((9,), (11,))'),
    'direction|uint32|4x5|GREAT_CIRCLE|[2, 3]|8.0':
    ('364e7f0327403e71',
     '364e7f0327403e71',
     '((4,), (5,))',
     '((2, 2), (3, 2))'),
    'direction|uint32|4x5|GREAT_CIRCLE|[2, 3]|inf':
    ('22c5ce478fa28e47',
     '22c5ce478fa28e47',
     '((4,), (5,))',
     '((4,), (5,))'),
    'direction|uint32|5x3|EUCLIDEAN|[]|4.5':
    ('913c98a9a22b67c1',
     '913c98a9a22b67c1',
     '((2, 3), (3,))',
     '((1, 1, 1, 1, 1), (3,))'),
    'direction|uint32|5x3|EUCLIDEAN|[]|7.0':
    ('EXC',
     'ValueError',
     'The overlapping depth 4 is larger than your array 3.',
     '913c98a9a22b67c1'),
    'direction|uint32|5x3|EUCLIDEAN|[]|inf':
    ('913c98a9a22b67c1',
     '913c98a9a22b67c1',
     '((5,), (3,))',
     '((5,), (3,))'),
    'direction|uint32|6x13|GREAT_CIRCLE|[2, 3]|8.0':
    ('8f0b054a246abca8',
     '8f0b054a246abca8',
     '((6,), (5, 8))',
     '((6,), (5, 5, 3))'),
    'direction|uint32|6x13|GREAT_CIRCLE|[2, 3]|inf':
    ('0d8cfe1982d3caaf',
     '0d8cfe1982d3caaf',
     '((6,), (13,))',
     '((6,), (13,))'),
    'direction|uint32|7x6|EUCLIDEAN|[]|4.5':
    ('8711df25ce6640f5',
     '8711df25ce6640f5',
     '((3, 4), (4, 2))',
     '((3, 3, 1), (4, 2))'),
    'direction|uint32|7x6|EUCLIDEAN|[]|7.0':
    ('8711df25ce6640f5',
     '8711df25ce6640f5',
     '((3, 4), (6,))',
     '((3, 3, 1), (4, 2))'),
    'direction|uint32|7x6|EUCLIDEAN|[]|inf':
    ('8711df25ce6640f5',
     '8711df25ce6640f5',
     '((7,), (6,))',
     '((7,), (6,))'),
    'direction|uint32|9x11|MANHATTAN|[1]|4.5':
    ('a8577e700caebb06',
     'a8577e700caebb06',
     '((4, 3, 2), (5, 4, 2))',
     '((4, 4, 1), (5, 5, 1))'),
    'direction|uint32|9x11|MANHATTAN|[1]|7.0':
    ('b5c987a809f565fe',
     'b5c987a809f565fe',
     '((4, 3, 2), (5, 6))',
     '((4, 4, 1), (5, 5, 1))'),
    'direction|uint32|9x11|MANHATTAN|[1]|inf':
    ('17dda5b87435357b',
     '17dda5b87435357b',
     '((9,), (11,))',
     '((9,), (11,))'),
    'direction|uint64|4x5|MANHATTAN|[1]|4.5':
    ('e83b7bc9c1a0a7df',
     'e83b7bc9c1a0a7df',
     '((2, 2), (3, 2))',
     '((2, 2), (3, 2))'),
    'direction|uint64|4x5|MANHATTAN|[1]|7.0':
    ('4769dbdcd0f08beb',
     '4769dbdcd0f08beb',
     '((2, 2), (5,))',
     '((2, 2), (3, 2))'),
    'direction|uint64|4x5|MANHATTAN|[1]|inf':
    ('d42f40805e328db7',
     'd42f40805e328db7',
     '((4,), (5,))',
     '((4,), (5,))'),
    'direction|uint64|5x3|GREAT_CIRCLE|[2, 3]|8.0':
    ('EXC',
     'ValueError',
     'The overlapping depth 4 is larger than your array 3.',
     '7691bcec52655907'),
    'direction|uint64|5x3|GREAT_CIRCLE|[2, 3]|inf':
    ('779275c44ec58c0d',
     '779275c44ec58c0d',
     '((5,), (3,))',
     '((5,), (3,))'),
    'direction|uint64|6x13|MANHATTAN|[1]|4.5':
    ('4d4d17c9b7163f5b',
     '4d4d17c9b7163f5b',
     '((6,), (5, 5, 3))',
     '((6,), (5, 5, 3))'),
    'direction|uint64|6x13|MANHATTAN|[1]|7.0':
    ('bb1849d8ddf1366d',
     'bb1849d8ddf1366d',
     '((6,), (5, 8))',
     '((6,), (5, 5, 3))'),
    'direction|uint64|6x13|MANHATTAN|[1]|inf':
    ('d246168ab9918c06',
     'd246168ab9918c06',
     '((6,), (13,))',
     '((6,), (13,))'),
    'direction|uint64|7x6|GREAT_CIRCLE|[2, 3]|8.0':
    ('b37a3c50fe8b3fae',
     'b37a3c50fe8b3fae',
     '((3, 4), (6,))',
     '((3, 3, 1), (4, 2))'),
    'direction|uint64|7x6|GREAT_CIRCLE|[2, 3]|inf':
    ('1fd5b140debf32f6',
     '1fd5b140debf32f6',
     '((7,), (6,))',
     '((7,), (6,))'),
    'direction|uint64|9x11|EUCLIDEAN|[]|4.5':
    ('6cdb3962300800e0',
     '6cdb3962300800e0',
     '((4, 3, 2), (5, 4, 2))',
     '((4, 4, 1), (5, 5, 1))'),
    'direction|uint64|9x11|EUCLIDEAN|[]|7.0':
    ('0894dc50eb8e0ed4',
     '0894dc50eb8e0ed4',
     '((4, 3, 2), (5, 6))',
     '((4, 4, 1), (5, 5, 1))'),
    'direction|uint64|9x11|EUCLIDEAN|[]|inf':
    ('0894dc50eb8e0ed4',
     '0894dc50eb8e0ed4',
     '((9,), (11,))',
     '((9,), (11,))'),
    'direction|uint8|4x5|MANHATTAN|[1]|4.5':
    ('4b4637b6ed31879f',
     '4b4637b6ed31879f',
     '((2, 2), (3, 2))',
     '((2, 2), (3, 2))'),
    'direction|uint8|4x5|MANHATTAN|[1]|7.0':
    ('d000e651ef8f41b8',
     'd000e651ef8f41b8',
     '((2, 2), (5,))',
     '((2, 2), (3, 2))'),
    'direction|uint8|4x5|MANHATTAN|[1]|inf':
    ('d000e651ef8f41b8',
     'd000e651ef8f41b8',
     '((4,), (5,))',
     '((4,), (5,))'),
    'direction|uint8|5x3|GREAT_CIRCLE|[2, 3]|8.0':
    ('EXC',
     'ValueError',
     'The overlapping depth 4 is larger than your array 3.',
     '035e66f8120c1c0e'),
    'direction|uint8|5x3|GREAT_CIRCLE|[2, 3]|inf':
    ('11193481c1e4fd79',
     '11193481c1e4fd79',
     '((5,), (3,))',
     '((5,), (3,))'),
    'direction|uint8|6x13|MANHATTAN|[1]|4.5':
    ('fc6cc3d38c7f0384',
     'fc6cc3d38c7f0384',
     '((6,), (5, 5, 3))',
     '((6,), (5, 5, 3))'),
    'direction|uint8|6x13|MANHATTAN|[1]|7.0':
    ('141cd545875f645f',
     '141cd545875f645f',
     '((6,), (5, 8))',
     '((6,), (5, 5, 3))'),
    'direction|uint8|6x13|MANHATTAN|[1]|inf':
    ('8484d3607a26271b',
     '8484d3607a26271b',
     '((6,), (13,))',
     '((6,), (13,))'),
    'direction|uint8|7x6|GREAT_CIRCLE|[2, 3]|8.0':
    ('3b47a9b5366470d0',
     '3b47a9b5366470d0',
     '((3, 4), (6,))',
     '((3, 3, 1), (4, 2))'),
    'direction|uint8|7x6|GREAT_CIRCLE|[2, 3]|inf':
    ('79535df9261f6cf8',
     '79535df9261f6cf8',
     '((7,), (6,))',
     '((7,), (6,))'),
    'direction|uint8|9x11|EUCLIDEAN|[]|4.5':
    ('40833fdef2947e38',
     '40833fdef2947e38',
     '((4, 3, 2), (5, 4, 2))',
     '((4, 4, 1), (5, 5, 1))'),
    'direction|uint8|9x11|EUCLIDEAN|[]|7.0':
    ('dd9a8a59be5c7142',
     'dd9a8a59be5c7142',
     '((4, 3, 2), (5, 6))',
     '((4, 4, 1), (5, 5, 1))'),
    'direction|uint8|9x11|EUCLIDEAN|[]|inf':
    ('dd9a8a59be5c7142',
     'dd9a8a59be5c7142',
     '((9,), (11,))',
     '((9,), (11,))'),
    'proximity|float32|4x5|GREAT_CIRCLE|[2, 3]|8.0':
    ('9f82b62ad0506b7b',
     '9f82b62ad0506b7b',
     '((4,), (5,))',
     '((2, 2), (3, 2))'),
    'proximity|float32|4x5|GREAT_CIRCLE|[2, 3]|inf':
    ('c871e9caa3ccebd2',
     'c871e9caa3ccebd2',
     '((4,), (5,))',
     '((4,), (5,))'),
    'proximity|float32|5x3|EUCLIDEAN|[]|4.5':
    ('b8a19e4399d0f26f',
     'b8a19e4399d0f26f',
     '((2, 3), (3,))',
     '((1, 1, 1, 1, 1), (3,))'),
    'proximity|float32|5x3|EUCLIDEAN|[]|7.0':
    ('EXC',
     'ValueError',
     'The overlapping depth 4 is larger than your array 3.',
     'b8a19e4399d0f26f'),
    'proximity|float32|5x3|EUCLIDEAN|[]|inf':
    ('b8a19e4399d0f26f',
     'b8a19e4399d0f26f',
     '((5,), (3,))',
     '((5,), (3,))'),
    'proximity|float32|6x13|GREAT_CIRCLE|[2, 3]|8.0':
    ('92f7e949f7f1f474',
     '92f7e949f7f1f474',
     '((6,), (5, 8))',
     '((6,), (5, 5, 3))'),
    'proximity|float32|6x13|GREAT_CIRCLE|[2, 3]|inf':
    ('165d11b8ce46df15',
     '165d11b8ce46df15',
     '((6,), (13,))',
     '((6,), (13,))'),
    'proximity|float32|7x6|EUCLIDEAN|[]|4.5':
    ('d420bbf194667118',
     'd420bbf194667118',
     '((3, 4), (4, 2))',
     '((3, 3, 1), (4, 2))'),
    'proximity|float32|7x6|EUCLIDEAN|[]|7.0':
    ('9b728de71108cbe8',
     '9b728de71108cbe8',
     '((3, 4), (6,))',
     '((3, 3, 1), (4, 2))'),
    'proximity|float32|7x6|EUCLIDEAN|[]|inf':
    ('2eb9d1fa328458c4',
     '2eb9d1fa328458c4',
     '((7,), (6,))',
     '((7,), (6,))'),
    'proximity|float32|9x11|MANHATTAN|[1]|4.5':
    ('e18152e20ab13fe6',
     'e18152e20ab13fe6',
     '((4, 3, 2), (5, 4, 2))',
     '((4, 4, 1), (5, 5, 1))'),
    'proximity|float32|9x11|MANHATTAN|[1]|7.0':
    ('d196b48be28f79b5',
     'd196b48be28f79b5',
     '((4, 3, 2), (5, 6))',
     '((4, 4, 1), (5, 5, 1))'),
    'proximity|float32|9x11|MANHATTAN|[1]|inf':
    ('b409145ef687d2fd',
     'b409145ef687d2fd',
     '((9,), (11,))',
     '((9,), (11,))'),
    'proximity|float64|4x5|EUCLIDEAN|[]|4.5':
    ('faf6769dae2f1e48',
     'faf6769dae2f1e48',
     '((2, 2), (3, 2))',
     '((2, 2), (3, 2))'),
    'proximity|float64|4x5|EUCLIDEAN|[]|7.0':
    ('faf6769dae2f1e48',
     'faf6769dae2f1e48',
     '((2, 2), (5,))',
     '((2, 2), (3, 2))'),
    'proximity|float64|4x5|EUCLIDEAN|[]|inf':
    ('faf6769dae2f1e48',
     'faf6769dae2f1e48',
     '((4,), (5,))',
     '((4,), (5,))'),
    'proximity|float64|5x3|MANHATTAN|[1]|4.5':
    ('89a5307988306992',
     '89a5307988306992',
     '((2, 3), (3,))',
     '((1, 1, 1, 1, 1), (3,))'),
    'proximity|float64|5x3|MANHATTAN|[1]|7.0':
    ('EXC',
     'ValueError',
     'The overlapping depth 4 is larger than your array 3.',
     'ea5ee3a04fc0f1ea'),
    'proximity|float64|5x3|MANHATTAN|[1]|inf':
    ('ea5ee3a04fc0f1ea',
     'ea5ee3a04fc0f1ea',
     '((5,), (3,))',
     '((5,), (3,))'),
    'proximity|float64|6x13|EUCLIDEAN|[]|4.5':
    ('41f79945bbc9df8e',
     '41f79945bbc9df8e',
     '((6,), (5, 5, 3))',
     '((6,), (5, 5, 3))'),
    'proximity|float64|6x13|EUCLIDEAN|[]|7.0':
    ('38b90d3f040daa2a',
     '38b90d3f040daa2a',
     '((6,), (5, 8))',
     '((6,), (5, 5, 3))'),
    'proximity|float64|6x13|EUCLIDEAN|[]|inf':
    ('38b90d3f040daa2a',
     '38b90d3f040daa2a',
     '((6,), (13,))',
     '((6,), (13,))'),
    'proximity|float64|7x6|MANHATTAN|[1]|4.5':
    ('f11b8302ba4198c2',
     'f11b8302ba4198c2',
     '((3, 4), (4, 2))',
     '((3, 3, 1), (4, 2))'),
    'proximity|float64|7x6|MANHATTAN|[1]|7.0':
    ('fb0f670c0264a164',
     'fb0f670c0264a164',
     '((3, 4), (6,))',
     '((3, 3, 1), (4, 2))'),
    'proximity|float64|7x6|MANHATTAN|[1]|inf':
    ('3fae848171e9c795',
     '3fae848171e9c795',
     '((7,), (6,))',
     '((7,), (6,))'),
    'proximity|float64|9x11|GREAT_CIRCLE|[2, 3]|8.0':
    ('a23553b18bad6322',
     'a23553b18bad6322',
     '((4, 5), (5, 6))',
     '((4, 4, 1), (5, 5, 1))'),
    'proximity|float64|9x11|GREAT_CIRCLE|[2, 3]|inf':
    ('78f903391ca98ada',
     '78f903391ca98ada',
     '((9,), (11,))',
     '((9,), (11,))'),
    'proximity|int16|4x5|GREAT_CIRCLE|[2, 3]|8.0':
    ('f96cb6e77113597b',
     'f96cb6e77113597b',
     '((4,), (5,))',
     '((2, 2), (3, 2))'),
    'proximity|int16|4x5|GREAT_CIRCLE|[2, 3]|inf':
    ('3ce096ccc201d6ee',
     '3ce096ccc201d6ee',
     '((4,), (5,))',
     '((4,), (5,))'),
    'proximity|int16|5x3|EUCLIDEAN|[]|4.5':
    ('af830f54f475893a',
     'af830f54f475893a',
     '((2, 3), (3,))',
     '((1, 1, 1, 1, 1), (3,))'),
    'proximity|int16|5x3|EUCLIDEAN|[]|7.0':
    ('EXC',
     'ValueError',
     'The overlapping depth 4 is larger than your array 3.',
     'af830f54f475893a'),
    'proximity|int16|5x3|EUCLIDEAN|[]|inf':
    ('af830f54f475893a',
     'af830f54f475893a',
     '((5,), (3,))',
     '((5,), (3,))'),
    'proximity|int16|6x13|GREAT_CIRCLE|[2, 3]|8.0':
    ('3e75f8b5998dc078',
     '3e75f8b5998dc078',
     '((6,), (5, 8))',
     '((6,), (5, 5, 3))'),
    'proximity|int16|6x13|GREAT_CIRCLE|[2, 3]|inf':
    ('861c941ab8d0a26a',
     '861c941ab8d0a26a',
     '((6,), (13,))',
     '((6,), (13,))'),
    'proximity|int16|7x6|EUCLIDEAN|[]|4.5':
    ('dbd713789265b2ea',
     'dbd713789265b2ea',
     '((3, 4), (4, 2))',
     '((3, 3, 1), (4, 2))'),
    'proximity|int16|7x6|EUCLIDEAN|[]|7.0':
    ('dbd713789265b2ea',
     'dbd713789265b2ea',
     '((3, 4), (6,))',
     '((3, 3, 1), (4, 2))'),
    'proximity|int16|7x6|EUCLIDEAN|[]|inf':
    ('dbd713789265b2ea',
     'dbd713789265b2ea',
     '((7,), (6,))',
     '((7,), (6,))'),
    'proximity|int16|9x11|MANHATTAN|[1]|4.5':
    ('f3a525b6c1ffb18b',
     'f3a525b6c1ffb18b',
     '((4, 3, 2), (5, 4, 2))',
     '((4, 4, 1), (5, 5, 1))'),
    'proximity|int16|9x11|MANHATTAN|[1]|7.0':
    ('e6fef8ae05a7873d',
     'e6fef8ae05a7873d',
     '((4, 3, 2), (5, 6))',
     '((4, 4, 1), (5, 5, 1))'),
    'proximity|int16|9x11|MANHATTAN|[1]|inf':
    ('c6687488fc61c997',
     'c6687488fc61c997',
     '((9,), (11,))',
     '((9,), (11,))'),
    'proximity|int32|4x5|MANHATTAN|[1]|4.5':
    ('9f604b9e54f5066d',
     '9f604b9e54f5066d',
     '((2, 2), (3, 2))',
     '((2, 2), (3, 2))'),
    'proximity|int32|4x5|MANHATTAN|[1]|7.0':
    ('4d9b9810af5b7431',
     '4d9b9810af5b7431',
     '((2, 2), (5,))',
     '((2, 2), (3, 2))'),
    'proximity|int32|4x5|MANHATTAN|[1]|inf':
    ('305b5549e61bad79',
     '305b5549e61bad79',
     '((4,), (5,))',
     '((4,), (5,))'),
    'proximity|int32|5x3|GREAT_CIRCLE|[2, 3]|8.0':
    ('EXC',
     'ValueError',
     'The overlapping depth 4 is larger than your array 3.',
     '0edafe165151e6ba'),
    'proximity|int32|5x3|GREAT_CIRCLE|[2, 3]|inf':
    ('8fabc0fdaf43c5c9',
     '8fabc0fdaf43c5c9',
     '((5,), (3,))',
     '((5,), (3,))'),
    'proximity|int32|6x13|MANHATTAN|[1]|4.5':
    ('2a492a78140ebec9',
     '2a492a78140ebec9',
     '((6,), (5, 5, 3))',
     '((6,), (5, 5, 3))'),
    'proximity|int32|6x13|MANHATTAN|[1]|7.0':
    ('e263cf2c9977e707',
     'e263cf2c9977e707',
     '((6,), (5, 8))',
     '((6,), (5, 5, 3))'),
    'proximity|int32|6x13|MANHATTAN|[1]|inf':
    ('4d218ef8f092d3da',
     '4d218ef8f092d3da',
     '((6,), (13,))',
     '((6,), (13,))'),
    'proximity|int32|7x6|GREAT_CIRCLE|[2, 3]|8.0':
    ('af766cca2ae1863d',
     'af766cca2ae1863d',
     '((3, 4), (6,))',
     '((3, 3, 1), (4, 2))'),
    'proximity|int32|7x6|GREAT_CIRCLE|[2, 3]|inf':
    ('326db5ca1c51aa83',
     '326db5ca1c51aa83',
     '((7,), (6,))',
     '((7,), (6,))'),
    'proximity|int32|9x11|EUCLIDEAN|[]|4.5':
    ('0cdd79be451a7e7b',
     '0cdd79be451a7e7b',
     '((4, 3, 2), (5, 4, 2))',
     '((4, 4, 1), (5, 5, 1))'),
    'proximity|int32|9x11|EUCLIDEAN|[]|7.0':
    ('4171263b329f0e68',
     '4171263b329f0e68',
     '((4, 3, 2), (5, 6))',
     '((4, 4, 1), (5, 5, 1))'),
    'proximity|int32|9x11|EUCLIDEAN|[]|inf':
    ('4171263b329f0e68',
     '4171263b329f0e68',
     '((9,), (11,))',
     '((9,), (11,))'),
    'proximity|int64|4x5|EUCLIDEAN|[]|4.5':
    ('263419a9026643e0',
     '263419a9026643e0',
     '((2, 2), (3, 2))',
     '((2, 2), (3, 2))'),
    'proximity|int64|4x5|EUCLIDEAN|[]|7.0':
    ('2e5eb91cf26f0203',
     '2e5eb91cf26f0203',
     '((2, 2), (5,))',
     '((2, 2), (3, 2))'),
    'proximity|int64|4x5|EUCLIDEAN|[]|inf':
    ('2e5eb91cf26f0203',
     '2e5eb91cf26f0203',
     '((4,), (5,))',
     '((4,), (5,))'),
    'proximity|int64|5x3|MANHATTAN|[1]|4.5':
    ('8afab06594634160',
     '8afab06594634160',
     '((2, 3), (3,))',
     '((1, 1, 1, 1, 1), (3,))'),
    'proximity|int64|5x3|MANHATTAN|[1]|7.0':
    ('EXC',
     'ValueError',
     'The overlapping depth 4 is larger than your array 3.',
     '1116cb37156da552'),
    'proximity|int64|5x3|MANHATTAN|[1]|inf':
    ('b9a198a12a2b2cd4',
     'b9a198a12a2b2cd4',
     '((5,), (3,))',
     '((5,), (3,))'),
    'proximity|int64|6x13|EUCLIDEAN|[]|4.5':
    ('de87d84d3fa64dda',
     'de87d84d3fa64dda',
     '((6,), (5, 5, 3))',
     '((6,), (5, 5, 3))'),
    'proximity|int64|6x13|EUCLIDEAN|[]|7.0':
    ('a223e0ae848b89d3',
     'a223e0ae848b89d3',
     '((6,), (5, 8))',
     '((6,), (5, 5, 3))'),
    'proximity|int64|6x13|EUCLIDEAN|[]|inf':
    ('34cc2f62a46b3c2b',
     '34cc2f62a46b3c2b',
     '((6,), (13,))',
     '((6,), (13,))'),
    'proximity|int64|7x6|MANHATTAN|[1]|4.5':
    ('5b636b81da59e44e',
     '5b636b81da59e44e',
     '((3, 4), (4, 2))',
     '((3, 3, 1), (4, 2))'),
    'proximity|int64|7x6|MANHATTAN|[1]|7.0':
    ('4a34eec4021d7126',
     '4a34eec4021d7126',
     '((3, 4), (6,))',
     '((3, 3, 1), (4, 2))'),
    'proximity|int64|7x6|MANHATTAN|[1]|inf':
    ('eae494c2008d2f3a',
     'eae494c2008d2f3a',
     '((7,), (6,))',
     '((7,), (6,))'),
    'proximity|int64|9x11|GREAT_CIRCLE|[2, 3]|8.0':
    ('0d840a5f0c39a9ad',
     '0d840a5f0c39a9ad',
     '((4, 5), (5, 6))',
     '((4, 4, 1), (5, 5, 1))'),
    'proximity|int64|9x11|GREAT_CIRCLE|[2, 3]|inf':
    ('5de7990908c1fe71',
     '5de7990908c1fe71',
     '((9,), (11,))',
     '((9,), (11,))'),
    'proximity|int8|4x5|EUCLIDEAN|[]|4.5':
    ('56e11bff9ac76b14',
     '56e11bff9ac76b14',
     '((2, 2), (3, 2))',
     '((2, 2), (3, 2))'),
    'proximity|int8|4x5|EUCLIDEAN|[]|7.0':
    ('07ca644b6e1e2e0e',
     '07ca644b6e1e2e0e',
     '((2, 2), (5,))',
     '((2, 2), (3, 2))'),
    'proximity|int8|4x5|EUCLIDEAN|[]|inf':
    ('056a6e260c791827',
     '056a6e260c791827',
     '((4,), (5,))',
     '((4,), (5,))'),
    'proximity|int8|5x3|MANHATTAN|[1]|4.5':
    ('67e380adc1a12baa',
     '67e380adc1a12baa',
     '((2, 3), (3,))',
     '((1, 1, 1, 1, 1), (3,))'),
    'proximity|int8|5x3|MANHATTAN|[1]|7.0':
    ('EXC',
     'ValueError',
     'The overlapping depth 4 is larger than your array 3.',
     '67e380adc1a12baa'),
    'proximity|int8|5x3|MANHATTAN|[1]|inf':
    ('67e380adc1a12baa',
     '67e380adc1a12baa',
     '((5,), (3,))',
     '((5,), (3,))'),
    'proximity|int8|6x13|EUCLIDEAN|[]|4.5':
    ('6355e9d421259328',
     '6355e9d421259328',
     '((6,), (5, 5, 3))',
     '((6,), (5, 5, 3))'),
    'proximity|int8|6x13|EUCLIDEAN|[]|7.0':
    ('b20a2336aa334428',
     'b20a2336aa334428',
     '((6,), (5, 8))',
     '((6,), (5, 5, 3))'),
    'proximity|int8|6x13|EUCLIDEAN|[]|inf':
    ('b20a2336aa334428',
     'b20a2336aa334428',
     '((6,), (13,))',
     '((6,), (13,))'),
    'proximity|int8|7x6|MANHATTAN|[1]|4.5':
    ('8e318f180cc8ad95',
     '8e318f180cc8ad95',
     '((3, 4), (4, 2))',
     '((3, 3, 1), (4, 2))'),
    'proximity|int8|7x6|MANHATTAN|[1]|7.0':
    ('449dd5e5660826fd',
     '449dd5e5660826fd',
     '((3, 4), (6,))',
     '((3, 3, 1), (4, 2))'),
    'proximity|int8|7x6|MANHATTAN|[1]|inf':
    ('2c5ef1cefee58c00',
     '2c5ef1cefee58c00',
     '((7,), (6,))',
     '((7,), (6,))'),
    'proximity|int8|9x11|GREAT_CIRCLE|[2, 3]|8.0':
    ('289472b3a324fe5a',
     '289472b3a324fe5a',
     '((4, 5), (5, 6))',
     '((4, 4, 1), (5, 5, 1))'),
    'proximity|int8|9x11|GREAT_CIRCLE|[2, 3]|inf':
    ('f728d1dc68ab3219',
     'f728d1dc68ab3219',
     '((9,), (11,))',
     '((9,), (11,))'),
    'proximity|uint16|4x5|EUCLIDEAN|[]|4.5':
    ('11ebf4b71768b498',
     '11ebf4b71768b498',
     '((2, 2), (3, 2))',
     '((2, 2), (3, 2))'),
    'proximity|uint16|4x5|EUCLIDEAN|[]|7.0':
    ('11ebf4b71768b498',
     '11ebf4b71768b498',
     '((2, 2), (5,))',
     '((2, 2), (3, 2))'),
    'proximity|uint16|4x5|EUCLIDEAN|[]|inf':
    ('11ebf4b71768b498',
     '11ebf4b71768b498',
     '((4,), (5,))',
     '((4,), (5,))'),
    'proximity|uint16|5x3|MANHATTAN|[1]|4.5':
    ('80b9258223cd7690',
     '80b9258223cd7690',
     '((2, 3), (3,))',
     '((1, 1, 1, 1, 1), (3,))'),
    'proximity|uint16|5x3|MANHATTAN|[1]|7.0':
    ('EXC',
     'ValueError',
     'The overlapping depth 4 is larger than your array 3.',
     '86d4014237eee275'),
    'proximity|uint16|5x3|MANHATTAN|[1]|inf':
    ('21add654c2ee035e',
     '21add654c2ee035e',
     '((5,), (3,))',
     '((5,), (3,))'),
    'proximity|uint16|6x13|EUCLIDEAN|[]|4.5':
    ('1820d656876f4f77',
     '1820d656876f4f77',
     '((6,), (5, 5, 3))',
     '((6,), (5, 5, 3))'),
    'proximity|uint16|6x13|EUCLIDEAN|[]|7.0':
    ('636b627ba8b1dc42',
     '636b627ba8b1dc42',
     '((6,), (5, 8))',
     '((6,), (5, 5, 3))'),
    'proximity|uint16|6x13|EUCLIDEAN|[]|inf':
    ('636b627ba8b1dc42',
     '636b627ba8b1dc42',
     '((6,), (13,))',
     '((6,), (13,))'),
    'proximity|uint16|7x6|MANHATTAN|[1]|4.5':
    ('f32382ef2acf26e8',
     'f32382ef2acf26e8',
     '((3, 4), (4, 2))',
     '((3, 3, 1), (4, 2))'),
    'proximity|uint16|7x6|MANHATTAN|[1]|7.0':
    ('2fc1dc7cfb6dad9c',
     '2fc1dc7cfb6dad9c',
     '((3, 4), (6,))',
     '((3, 3, 1), (4, 2))'),
    'proximity|uint16|7x6|MANHATTAN|[1]|inf':
    ('6858be2bbf271646',
     '6858be2bbf271646',
     '((7,), (6,))',
     '((7,), (6,))'),
    'proximity|uint16|9x11|GREAT_CIRCLE|[2, 3]|8.0':
    ('47a27aa671ad322a',
     '47a27aa671ad322a',
     '((4, 5), (5, 6))',
     '((4, 4, 1), (5, 5, 1))'),
    'proximity|uint16|9x11|GREAT_CIRCLE|[2, 3]|inf':
    ('23de4114d0cc380a',
     '23de4114d0cc380a',
     '((9,), (11,))',
     '((9,), (11,))'),
    'proximity|uint32|4x5|GREAT_CIRCLE|[2, 3]|8.0':
    ('364e7f0327403e71',
     '364e7f0327403e71',
     '((4,), (5,))',
     '((2, 2), (3, 2))'),
    'proximity|uint32|4x5|GREAT_CIRCLE|[2, 3]|inf':
    ('eab57f0a02d86784',
     'eab57f0a02d86784',
     '((4,), (5,))',
     '((4,), (5,))'),
    'proximity|uint32|5x3|EUCLIDEAN|[]|4.5':
    ('dccf100087aca02b',
     'dccf100087aca02b',
     '((2, 3), (3,))',
     '((1, 1, 1, 1, 1), (3,))'),
    'proximity|uint32|5x3|EUCLIDEAN|[]|7.0':
    ('EXC',
     'ValueError',
     'The overlapping depth 4 is larger than your array 3.',
     'dccf100087aca02b'),
    'proximity|uint32|5x3|EUCLIDEAN|[]|inf':
    ('dccf100087aca02b',
     'dccf100087aca02b',
     '((5,), (3,))',
     '((5,), (3,))'),
    'proximity|uint32|6x13|GREAT_CIRCLE|[2, 3]|8.0':
    ('8f0b054a246abca8',
     '8f0b054a246abca8',
     '((6,), (5, 8))',
     '((6,), (5, 5, 3))'),
    'proximity|uint32|6x13|GREAT_CIRCLE|[2, 3]|inf':
    ('9eb246aa10cbe709',
     '9eb246aa10cbe709',
     '((6,), (13,))',
     '((6,), (13,))'),
    'proximity|uint32|7x6|EUCLIDEAN|[]|4.5':
    ('c3a640b1b7d2e747',
     'c3a640b1b7d2e747',
     '((3, 4), (4, 2))',
     '((3, 3, 1), (4, 2))'),
    'proximity|uint32|7x6|EUCLIDEAN|[]|7.0':
    ('c3a640b1b7d2e747',
     'c3a640b1b7d2e747',
     '((3, 4), (6,))',
     '((3, 3, 1), (4, 2))'),
    'proximity|uint32|7x6|EUCLIDEAN|[]|inf':
    ('c3a640b1b7d2e747',
     'c3a640b1b7d2e747',
     '((7,), (6,))',
     '((7,), (6,))'),
    'proximity|uint32|9x11|MANHATTAN|[1]|4.5':
    ('5813c532e54f7afe',
     '5813c532e54f7afe',
     '((4, 3, 2), (5, 4, 2))',
     '((4, 4, 1), (5, 5, 1))'),
    'proximity|uint32|9x11|MANHATTAN|[1]|7.0':
    ('ec1df87fd6024139',
     'ec1df87fd6024139',
     '((4, 3, 2), (5, 6))',
     '((4, 4, 1), (5, 5, 1))'),
    'proximity|uint32|9x11|MANHATTAN|[1]|inf':
    ('cb56dcb82ac4f838',
     'cb56dcb82ac4f838',
     '((9,), (11,))',
     '((9,), (11,))'),
    'proximity|uint64|4x5|MANHATTAN|[1]|4.5':
    ('b62f64dc90a69df0',
     'b62f64dc90a69df0',
     '((2, 2), (3, 2))',
     '((2, 2), (3, 2))'),
    'proximity|uint64|4x5|MANHATTAN|[1]|7.0':
    ('be81cd3d5f6ead71',
     'be81cd3d5f6ead71',
     '((2, 2), (5,))',
     '((2, 2), (3, 2))'),
    'proximity|uint64|4x5|MANHATTAN|[1]|inf':
    ('676f8df063ef9329',
     '676f8df063ef9329',
     '((4,), (5,))',
     '((4,), (5,))'),
    'proximity|uint64|5x3|GREAT_CIRCLE|[2, 3]|8.0':
    ('EXC',
     'ValueError',
     'The overlapping depth 4 is larger than your array 3.',
     '7691bcec52655907'),
    'proximity|uint64|5x3|GREAT_CIRCLE|[2, 3]|inf':
    ('92cc89069dfc5c9c',
     '92cc89069dfc5c9c',
     '((5,), (3,))',
     '((5,), (3,))'),
    'proximity|uint64|6x13|MANHATTAN|[1]|4.5':
    ('146ca861dd4f0963',
     '146ca861dd4f0963',
     '((6,), (5, 5, 3))',
     '((6,), (5, 5, 3))'),
    'proximity|uint64|6x13|MANHATTAN|[1]|7.0':
    ('97e0547d3b72a245',
     '97e0547d3b72a245',
     '((6,), (5, 8))',
     '((6,), (5, 5, 3))'),
    'proximity|uint64|6x13|MANHATTAN|[1]|inf':
    ('48a412d21aa6b669',
     '48a412d21aa6b669',
     '((6,), (13,))',
     '((6,), (13,))'),
    'proximity|uint64|7x6|GREAT_CIRCLE|[2, 3]|8.0':
    ('b37a3c50fe8b3fae',
     'b37a3c50fe8b3fae',
     '((3, 4), (6,))',
     '((3, 3, 1), (4, 2))'),
    'proximity|uint64|7x6|GREAT_CIRCLE|[2, 3]|inf':
    ('71f6edae9aab664b',
     '71f6edae9aab664b',
     '((7,), (6,))',
     '((7,), (6,))'),
    'proximity|uint64|9x11|EUCLIDEAN|[]|4.5':
    ('9f5eac3302c5a5ee',
     '9f5eac3302c5a5ee',
     '((4, 3, 2), (5, 4, 2))',
     '((4, 4, 1), (5, 5, 1))'),
    'proximity|uint64|9x11|EUCLIDEAN|[]|7.0':
    ('251e363904def3ac',
     '251e363904def3ac',
     '((4, 3, 2), (5, 6))',
     '((4, 4, 1), (5, 5, 1))'),
    'proximity|uint64|9x11|EUCLIDEAN|[]|inf':
    ('251e363904def3ac',
     '251e363904def3ac',
     '((9,), (11,))',
     '((9,), (11,))'),
    'proximity|uint8|4x5|MANHATTAN|[1]|4.5':
    ('7d6bbc5628c9a9c2',
     '7d6bbc5628c9a9c2',
     '((2, 2), (3, 2))',
     '((2, 2), (3, 2))'),
    'proximity|uint8|4x5|MANHATTAN|[1]|7.0':
    ('b26adc3fa401f64c',
     'b26adc3fa401f64c',
     '((2, 2), (5,))',
     '((2, 2), (3, 2))'),
    'proximity|uint8|4x5|MANHATTAN|[1]|inf':
    ('b26adc3fa401f64c',
     'b26adc3fa401f64c',
     '((4,), (5,))',
     '((4,), (5,))'),
    'proximity|uint8|5x3|GREAT_CIRCLE|[2, 3]|8.0':
    ('EXC',
     'ValueError',
     'The overlapping depth 4 is larger than your array 3.',
     '035e66f8120c1c0e'),
    'proximity|uint8|5x3|GREAT_CIRCLE|[2, 3]|inf':
    ('a428fcbe065c4dfd',
     'a428fcbe065c4dfd',
     '((5,), (3,))',
     '((5,), (3,))'),
    'proximity|uint8|6x13|MANHATTAN|[1]|4.5':
    ('74ab366ab012b60d',
     '74ab366ab012b60d',
     '((6,), (5, 5, 3))',
     '((6,), (5, 5, 3))'),
    'proximity|uint8|6x13|MANHATTAN|[1]|7.0':
    ('dd44a8b5e64be255',
     'dd44a8b5e64be255',
     '((6,), (5, 8))',
     '((6,), (5, 5, 3))'),
    'proximity|uint8|6x13|MANHATTAN|[1]|inf':
    ('1d8e09c0bc2c643c',
     '1d8e09c0bc2c643c',
     '((6,), (13,))',
     '((6,), (13,))'),
    'proximity|uint8|7x6|GREAT_CIRCLE|[2, 3]|8.0':
    ('3b47a9b5366470d0',
     '3b47a9b5366470d0',
     '((3, 4), (6,))',
     '((3, 3, 1), (4, 2))'),
    'proximity|uint8|7x6|GREAT_CIRCLE|[2, 3]|inf':
    ('0b268e972de442c6',
     '0b268e972de442c6',
     '((7,), (6,))',
     '((7,), (6,))'),
    'proximity|uint8|9x11|EUCLIDEAN|[]|4.5':
    ('1ba93f44bba3e295',
     '1ba93f44bba3e295',
     '((4, 3, 2), (5, 4, 2))',
     '((4, 4, 1), (5, 5, 1))'),
    'proximity|uint8|9x11|EUCLIDEAN|[]|7.0':
    ('1c0dbefb573d077d',
     '1c0dbefb573d077d',
     '((4, 3, 2), (5, 6))',
     '((4, 4, 1), (5, 5, 1))'),
    'proximity|uint8|9x11|EUCLIDEAN|[]|inf':
    ('1c0dbefb573d077d',
     '1c0dbefb573d077d',
     '((9,), (11,))',
     '((9,), (11,))'),
}


def main():
    record = os.environ.get('RECORD') == '1'
    print('xrspatial from', xrspatial.__file__)
    rng = np.random.default_rng(777)
    funcs = [('proximity', proximity), ('allocation', allocation),
             ('direction', direction)]
    dtypes = [np.int8, np.uint8, np.int16, np.uint16, np.int32, np.uint32,
              np.int64, np.uint64, np.float32, np.float64]
    shapes = [((4, 5), (2, 3)), ((7, 6), (3, 4)), ((9, 11), (4, 5)),
              ((6, 13), (6, 5)), ((5, 3), (1, 3))]
    metrics = ['EUCLIDEAN', 'MANHATTAN', 'GREAT_CIRCLE']
    got_table = {}
    n = 0
    for di, dtype in enumerate(dtypes):
        for si, ((h, w), chunks) in enumerate(shapes):
            metric = metrics[(di + si) % 3]
            lonlat = metric == 'GREAT_CIRCLE'
            r_np = make(rng, h, w, dtype, with_nan=(si % 2 == 1),
                        lonlat=lonlat)
            before = r_np.copy(deep=True)
            targets = [[], [1], [2, 3]][(di + si) % 3]
            if lonlat:
                maxds = [np.inf, 8.0]
            else:
                maxds = [np.inf, 4.5, 7.0]
            for maxd in maxds:
                for fname, func in funcs:
                    key = '%s|%s|%dx%d|%s|%r|%r' % (
                        fname, np.dtype(dtype).name, h, w, metric, targets,
                        maxd)
                    kw = dict(x='x', y='y', target_values=targets,
                              max_distance=maxd, distance_metric=metric)
                    res_np = func(r_np, **kw)

                    r_da = before.copy(deep=True)
                    r_da.data = da.from_array(before.data.copy(),
                                              chunks=chunks)
                    try:
                        res_da = func(r_da, **kw)
                    except Exception as e:   # same refusal on both trees
                        got_table[key] = ('EXC', type(e).__name__, str(e),
                                          digest(res_np.data))
                        n += 1
                        continue

                    # backend + laziness
                    check(isinstance(res_np.data, np.ndarray),
                          key + ': numpy backend')
                    check(isinstance(res_da.data, da.Array),
                          key + ': dask backend / lazy')
                    computed = res_da.compute()
                    got_table[key] = (
                        digest(res_np.data), digest(computed.data),
                        repr(res_da.data.chunks), repr(r_da.data.chunks))

                    check(same(res_np.data, computed.data),
                          key + ': dask != numpy')
                    for res, src in ((res_np, r_np), (res_da, r_da)):
                        check(res.shape == before.shape, key + ': shape')
                        check(res.dims == before.dims, key + ': dims')
                        check(res.attrs == before.attrs, key + ': attrs')
                        check(set(res.coords) == set(before.coords),
                              key + ': coord names')
                        for c in before.coords:
                            check(same(res.coords[c].data,
                                       before.coords[c].data),
                                  key + ': coord ' + c)
                        check(same(np.asarray(src.data), before.data),
                              key + ': input values changed')
                        check(src.attrs == before.attrs,
                              key + ': input attrs changed')
                        for c in before.coords:
                            check(same(src.coords[c].data,
                                       before.coords[c].data),
                                  key + ': input coord ' + c)
                    check(not np.shares_memory(res_np.data, r_np.data),
                          key + ': shares memory')
                    n += 1

    if record:
        print('EXPECTED = {')
        for k in sorted(got_table):
            print('    %r: %r,' % (k, got_table[k]))
        print('}')
        return 0

    check(set(got_table) == set(EXPECTED), 'key set differs from recorded')
    for k, v in got_table.items():
        check(EXPECTED.get(k) == v, '%s: recorded %r got %r' %
              (k, EXPECTED.get(k), v))

    print('cases:', n)
    if FAIL:
        print('FAILURES (%d):' % len(FAIL))
        for f in FAIL[:30]:
            print('  ', f)
        return 1
    print('OK')
    return 0


if __name__ == '__main__':
    warnings.simplefilter('ignore')
    sys.exit(main())
