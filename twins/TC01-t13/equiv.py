"""Differential test for refactoring TC01-t13 (utils.validate_arrays reorganised).

Run from inside the worktree:
    cd <worktree> && PYTHONPATH=<worktree> python equiv.py            # check
    cd <worktree> && PYTHONPATH=<worktree> python equiv.py --record   # print digests
Exit status 0 iff everything matches the behaviour recorded on the unmodified tree
and the independently stated expectations (exception types / messages / precedence,
rechunking side effects, dask == numpy).
"""
import hashlib
import sys
import warnings

import dask
import dask.array as da
import numpy as np
import xarray as xr

import xrspatial
from xrspatial import multispectral as ms
from xrspatial.utils import validate_arrays

warnings.simplefilter('ignore')
FAILS = []


def check(cond, msg):
    if not cond:
        FAILS.append(msg)
        print('FAIL:', msg)


def digest(a):
    a = np.asarray(a)
    if a.dtype.kind == 'f':
        a = np.where(np.isnan(a), np.array(np.nan, dtype=a.dtype), a).astype(a.dtype)
    h = hashlib.sha256()
    h.update(str(a.dtype).encode())
    h.update(str(a.shape).encode())
    h.update(np.ascontiguousarray(a).tobytes())
    return h.hexdigest()[:16]


def raster(data, chunks=None):
    if chunks is not None:
        data = da.from_array(data, chunks=chunks)
    h, w = data.shape
    return xr.DataArray(data, dims=['y', 'x'],
                        coords={'y': np.arange(h)[::-1] * 2.0, 'x': np.arange(w) * 3.0},
                        attrs={'res': (3.0, 2.0)})


def raises(fn, exc_type, text):
    try:
        fn()
    except Exception as e:  # noqa
        return type(e) is exc_type and text in str(e)
    return False


# ---------------------------------------------------------------- 1. exceptions
rng = np.random.RandomState(7)
A = rng.rand(5, 7)
B = rng.rand(5, 7)
C = rng.rand(4, 7)

check(raises(lambda: validate_arrays(), ValueError, '2 or more arrays'), 'no arrays')
check(raises(lambda: validate_arrays(raster(A)), ValueError, '2 or more arrays'), 'one array')
check(raises(lambda: validate_arrays(raster(A), raster(C)), ValueError, 'equal shapes'),
      'shape mismatch numpy')
check(raises(lambda: validate_arrays(raster(A, (2, 3)), raster(C, (2, 3))), ValueError,
             'equal shapes'), 'shape mismatch dask')
check(raises(lambda: validate_arrays(raster(A), raster(B, (2, 3))), ValueError, 'same type'),
      'type mismatch numpy/dask')
check(raises(lambda: validate_arrays(raster(A, (2, 3)), raster(B)), ValueError, 'same type'),
      'type mismatch dask/numpy')
# precedence: for one array the shape test comes first
check(raises(lambda: validate_arrays(raster(A), raster(C, (2, 3))), ValueError, 'equal shapes'),
      'shape before type on the same array')
# precedence: arrays are examined in order, both tests per array
check(raises(lambda: validate_arrays(raster(A), raster(B, (2, 3)), raster(C)), ValueError,
             'same type'), 'second array type error before third array shape error')
check(raises(lambda: validate_arrays(raster(A), raster(C), raster(B, (2, 3))), ValueError,
             'equal shapes'), 'second array shape error before third array type error')
# an invalid later array raises before any rechunking of an earlier one
r1, r2, r3 = raster(A, (2, 3)), raster(B, (5, 7)), raster(C, (2, 3))
name2 = r2.data.name
check(raises(lambda: validate_arrays(r1, r2, r3), ValueError, 'equal shapes'), 'late shape error')
check(r2.data.name == name2 and r2.chunks == ((5,), (7,)), 'no rechunk when validation fails')
# objects without .data
check(raises(lambda: validate_arrays(A.tolist(), B.tolist()), AttributeError, 'data'),
      'AttributeError for lists')

# ---------------------------------------------------------------- 2. side effects
n1, n2 = raster(A), raster(B)
d1, d2 = n1.data, n2.data
check(validate_arrays(n1, n2) is None, 'returns None (numpy)')
check(n1.data is d1 and n2.data is d2, 'numpy inputs untouched')

r1, r2, r3 = raster(A, (2, 3)), raster(B, (1, 7)), raster(A + B, (2, 3))
names = (r1.data.name, r2.data.name, r3.data.name)
check(validate_arrays(r1, r2, r3) is None, 'returns None (dask)')
check(r1.data.name == names[0], 'first dask array untouched')
check(r3.data.name == names[2], 'equally chunked dask array untouched')
check(r2.data.name != names[1] and r2.chunks == r1.chunks == ((2, 2, 1), (3, 3, 1)),
      'differently chunked dask array rechunked to the first')
check(np.array_equal(r2.values, B), 'rechunk keeps values')
check(isinstance(r2.data, da.Array), 'rechunked stays dask')

# ---------------------------------------------------------------- 3. spectral indices
H, W = 6, 9


def bands(dtype, seed):
    r = np.random.RandomState(seed)
    out = []
    for k in range(4):
        a = r.randint(0, 12, size=(H, W)).astype(dtype)
        if np.dtype(dtype).kind == 'f':
            a[r.rand(H, W) < 0.1] = np.nan
            a[0, k] = np.inf
            a[1, k] = -a[1, (k + 1) % W]
        out.append(a)
    return out


INDICES = {
    'arvi': lambda b: ms.arvi(b[0], b[1], b[2]),
    'evi': lambda b: ms.evi(b[0], b[1], b[2]),
    'gci': lambda b: ms.gci(b[0], b[1]),
    'nbr': lambda b: ms.nbr(b[0], b[1]),
    'nbr2': lambda b: ms.nbr2(b[0], b[1]),
    'ndvi': lambda b: ms.ndvi(b[0], b[1]),
    'ndmi': lambda b: ms.ndmi(b[0], b[1]),
    'savi': lambda b: ms.savi(b[0], b[1], soil_factor=0.5),
    'sipi': lambda b: ms.sipi(b[0], b[1], b[2]),
    'ebbi': lambda b: ms.ebbi(b[0], b[1], b[2]),
}
CHUNKINGS = [
    [(H, W)] * 4,
    [(1, 1)] * 4,
    [(2, 4), (3, 2), (6, 1), (1, 9)],
    [((1, 2, 3), (4, 5)), ((3, 3), (2, 2, 5)), (5, 5), ((6,), (1,) * 9)],
]
SCHEDULERS = [dict(scheduler='synchronous'), dict(scheduler='threads', num_workers=3)]

RESULTS = {}
for dtype in ('float64', 'float32', 'int32', 'uint8'):
    arrs = bands(dtype, 11)
    for iname, f in INDICES.items():
        ref = f([raster(a) for a in arrs])
        check(isinstance(ref.data, np.ndarray), '%s numpy stays numpy' % iname)
        RESULTS['%s/%s' % (iname, dtype)] = digest(ref.data)
        for ci, chunking in enumerate(CHUNKINGS):
            for si, sched in enumerate(SCHEDULERS):
                dask_bands = [raster(a, c) for a, c in zip(arrs, chunking)]
                res = f(dask_bands)
                check(isinstance(res.data, da.Array), '%s dask stays dask' % iname)
                check(res.data.chunks == dask_bands[0].data.chunks
                      or iname in ('arvi', 'savi', 'sipi'),
                      '%s/%s/%d result chunks follow first band' % (iname, dtype, ci))
                RESULTS['%s/%s/chunks%d' % (iname, dtype, ci)] = repr(res.data.chunks)
                with dask.config.set(**sched):
                    got = res.compute()
                check(got.dtype == ref.dtype and
                      np.array_equal(got.values, ref.values, equal_nan=True),
                      '%s/%s/chunking%d/sched%d dask == numpy' % (iname, dtype, ci, si))
                check(got.dims == ref.dims and got.name == ref.name and got.attrs == ref.attrs,
                      '%s metadata' % iname)

# true_color does not validate but shares the module; keep one case
tc = ms.true_color(*[raster(a) for a in bands('float64', 3)[:3]])
RESULTS['true_color'] = digest(tc.data)

# --- recorded on the unmodified tree ---
EXPECTED = {
    'arvi/float32': '6ee42f33838cfa5c',
    'arvi/float32/chunks0': '((6,), (9,))',
    'arvi/float32/chunks1': '((1, 1, 1, 1, 1, 1), (1, 1, 1, 1, 1, 1, 1, 1, 1))',
    'arvi/float32/chunks2': '((3, 3), (2, 2, 2, 2, 1))',
    'arvi/float32/chunks3': '((3, 3), (2, 2, 5))',
    'arvi/float64': '6ee42f33838cfa5c',
    'arvi/float64/chunks0': '((6,), (9,))',
    'arvi/float64/chunks1': '((1, 1, 1, 1, 1, 1), (1, 1, 1, 1, 1, 1, 1, 1, 1))',
    'arvi/float64/chunks2': '((3, 3), (2, 2, 2, 2, 1))',
    'arvi/float64/chunks3': '((3, 3), (2, 2, 5))',
    'arvi/int32': '5e5817e0b61c8778',
    'arvi/int32/chunks0': '((6,), (9,))',
    'arvi/int32/chunks1': '((1, 1, 1, 1, 1, 1), (1, 1, 1, 1, 1, 1, 1, 1, 1))',
    'arvi/int32/chunks2': '((3, 3), (2, 2, 2, 2, 1))',
    'arvi/int32/chunks3': '((3, 3), (2, 2, 5))',
    'arvi/uint8': '5e5817e0b61c8778',
    'arvi/uint8/chunks0': '((6,), (9,))',
    'arvi/uint8/chunks1': '((1, 1, 1, 1, 1, 1), (1, 1, 1, 1, 1, 1, 1, 1, 1))',
    'arvi/uint8/chunks2': '((3, 3), (2, 2, 2, 2, 1))',
    'arvi/uint8/chunks3': '((3, 3), (2, 2, 5))',
    'ebbi/float32': '9662176290d4c097',
    'ebbi/float32/chunks0': '((6,), (9,))',
    'ebbi/float32/chunks1': '((1, 1, 1, 1, 1, 1), (1, 1, 1, 1, 1, 1, 1, 1, 1))',
    'ebbi/float32/chunks2': '((2, 2, 2), (4, 4, 1))',
    'ebbi/float32/chunks3': '((1, 2, 3), (4, 5))',
    'ebbi/float64': '9662176290d4c097',
    'ebbi/float64/chunks0': '((6,), (9,))',
    'ebbi/float64/chunks1': '((1, 1, 1, 1, 1, 1), (1, 1, 1, 1, 1, 1, 1, 1, 1))',
    'ebbi/float64/chunks2': '((2, 2, 2), (4, 4, 1))',
    'ebbi/float64/chunks3': '((1, 2, 3), (4, 5))',
    'ebbi/int32': '1c53a3cc1934bab4',
    'ebbi/int32/chunks0': '((6,), (9,))',
    'ebbi/int32/chunks1': '((1, 1, 1, 1, 1, 1), (1, 1, 1, 1, 1, 1, 1, 1, 1))',
    'ebbi/int32/chunks2': '((2, 2, 2), (4, 4, 1))',
    'ebbi/int32/chunks3': '((1, 2, 3), (4, 5))',
    'ebbi/uint8': '1c53a3cc1934bab4',
    'ebbi/uint8/chunks0': '((6,), (9,))',
    'ebbi/uint8/chunks1': '((1, 1, 1, 1, 1, 1), (1, 1, 1, 1, 1, 1, 1, 1, 1))',
    'ebbi/uint8/chunks2': '((2, 2, 2), (4, 4, 1))',
    'ebbi/uint8/chunks3': '((1, 2, 3), (4, 5))',
    'evi/float32': '82529fbe65e94570',
    'evi/float32/chunks0': '((6,), (9,))',
    'evi/float32/chunks1': '((1, 1, 1, 1, 1, 1), (1, 1, 1, 1, 1, 1, 1, 1, 1))',
    'evi/float32/chunks2': '((2, 2, 2), (4, 4, 1))',
    'evi/float32/chunks3': '((1, 2, 3), (4, 5))',
    'evi/float64': '82529fbe65e94570',
    'evi/float64/chunks0': '((6,), (9,))',
    'evi/float64/chunks1': '((1, 1, 1, 1, 1, 1), (1, 1, 1, 1, 1, 1, 1, 1, 1))',
    'evi/float64/chunks2': '((2, 2, 2), (4, 4, 1))',
    'evi/float64/chunks3': '((1, 2, 3), (4, 5))',
    'evi/int32': '417acba0e330088a',
    'evi/int32/chunks0': '((6,), (9,))',
    'evi/int32/chunks1': '((1, 1, 1, 1, 1, 1), (1, 1, 1, 1, 1, 1, 1, 1, 1))',
    'evi/int32/chunks2': '((2, 2, 2), (4, 4, 1))',
    'evi/int32/chunks3': '((1, 2, 3), (4, 5))',
    'evi/uint8': '417acba0e330088a',
    'evi/uint8/chunks0': '((6,), (9,))',
    'evi/uint8/chunks1': '((1, 1, 1, 1, 1, 1), (1, 1, 1, 1, 1, 1, 1, 1, 1))',
    'evi/uint8/chunks2': '((2, 2, 2), (4, 4, 1))',
    'evi/uint8/chunks3': '((1, 2, 3), (4, 5))',
    'gci/float32': '66f2fb25766c540d',
    'gci/float32/chunks0': '((6,), (9,))',
    'gci/float32/chunks1': '((1, 1, 1, 1, 1, 1), (1, 1, 1, 1, 1, 1, 1, 1, 1))',
    'gci/float32/chunks2': '((2, 2, 2), (4, 4, 1))',
    'gci/float32/chunks3': '((1, 2, 3), (4, 5))',
    'gci/float64': '66f2fb25766c540d',
    'gci/float64/chunks0': '((6,), (9,))',
    'gci/float64/chunks1': '((1, 1, 1, 1, 1, 1), (1, 1, 1, 1, 1, 1, 1, 1, 1))',
    'gci/float64/chunks2': '((2, 2, 2), (4, 4, 1))',
    'gci/float64/chunks3': '((1, 2, 3), (4, 5))',
    'gci/int32': '14993a0bbab36c4c',
    'gci/int32/chunks0': '((6,), (9,))',
    'gci/int32/chunks1': '((1, 1, 1, 1, 1, 1), (1, 1, 1, 1, 1, 1, 1, 1, 1))',
    'gci/int32/chunks2': '((2, 2, 2), (4, 4, 1))',
    'gci/int32/chunks3': '((1, 2, 3), (4, 5))',
    'gci/uint8': '14993a0bbab36c4c',
    'gci/uint8/chunks0': '((6,), (9,))',
    'gci/uint8/chunks1': '((1, 1, 1, 1, 1, 1), (1, 1, 1, 1, 1, 1, 1, 1, 1))',
    'gci/uint8/chunks2': '((2, 2, 2), (4, 4, 1))',
    'gci/uint8/chunks3': '((1, 2, 3), (4, 5))',
    'nbr/float32': 'ed169bb759c96414',
    'nbr/float32/chunks0': '((6,), (9,))',
    'nbr/float32/chunks1': '((1, 1, 1, 1, 1, 1), (1, 1, 1, 1, 1, 1, 1, 1, 1))',
    'nbr/float32/chunks2': '((2, 2, 2), (4, 4, 1))',
    'nbr/float32/chunks3': '((1, 2, 3), (4, 5))',
    'nbr/float64': 'ed169bb759c96414',
    'nbr/float64/chunks0': '((6,), (9,))',
    'nbr/float64/chunks1': '((1, 1, 1, 1, 1, 1), (1, 1, 1, 1, 1, 1, 1, 1, 1))',
    'nbr/float64/chunks2': '((2, 2, 2), (4, 4, 1))',
    'nbr/float64/chunks3': '((1, 2, 3), (4, 5))',
    'nbr/int32': '182b21e11c5fd052',
    'nbr/int32/chunks0': '((6,), (9,))',
    'nbr/int32/chunks1': '((1, 1, 1, 1, 1, 1), (1, 1, 1, 1, 1, 1, 1, 1, 1))',
    'nbr/int32/chunks2': '((2, 2, 2), (4, 4, 1))',
    'nbr/int32/chunks3': '((1, 2, 3), (4, 5))',
    'nbr/uint8': '182b21e11c5fd052',
    'nbr/uint8/chunks0': '((6,), (9,))',
    'nbr/uint8/chunks1': '((1, 1, 1, 1, 1, 1), (1, 1, 1, 1, 1, 1, 1, 1, 1))',
    'nbr/uint8/chunks2': '((2, 2, 2), (4, 4, 1))',
    'nbr/uint8/chunks3': '((1, 2, 3), (4, 5))',
    'nbr2/float32': 'ed169bb759c96414',
    'nbr2/float32/chunks0': '((6,), (9,))',
    'nbr2/float32/chunks1': '((1, 1, 1, 1, 1, 1), (1, 1, 1, 1, 1, 1, 1, 1, 1))',
    'nbr2/float32/chunks2': '((2, 2, 2), (4, 4, 1))',
    'nbr2/float32/chunks3': '((1, 2, 3), (4, 5))',
    'nbr2/float64': 'ed169bb759c96414',
    'nbr2/float64/chunks0': '((6,), (9,))',
    'nbr2/float64/chunks1': '((1, 1, 1, 1, 1, 1), (1, 1, 1, 1, 1, 1, 1, 1, 1))',
    'nbr2/float64/chunks2': '((2, 2, 2), (4, 4, 1))',
    'nbr2/float64/chunks3': '((1, 2, 3), (4, 5))',
    'nbr2/int32': '182b21e11c5fd052',
    'nbr2/int32/chunks0': '((6,), (9,))',
    'nbr2/int32/chunks1': '((1, 1, 1, 1, 1, 1), (1, 1, 1, 1, 1, 1, 1, 1, 1))',
    'nbr2/int32/chunks2': '((2, 2, 2), (4, 4, 1))',
    'nbr2/int32/chunks3': '((1, 2, 3), (4, 5))',
    'nbr2/uint8': '182b21e11c5fd052',
    'nbr2/uint8/chunks0': '((6,), (9,))',
    'nbr2/uint8/chunks1': '((1, 1, 1, 1, 1, 1), (1, 1, 1, 1, 1, 1, 1, 1, 1))',
    'nbr2/uint8/chunks2': '((2, 2, 2), (4, 4, 1))',
    'nbr2/uint8/chunks3': '((1, 2, 3), (4, 5))',
    'ndmi/float32': 'ed169bb759c96414',
    'ndmi/float32/chunks0': '((6,), (9,))',
    'ndmi/float32/chunks1': '((1, 1, 1, 1, 1, 1), (1, 1, 1, 1, 1, 1, 1, 1, 1))',
    'ndmi/float32/chunks2': '((2, 2, 2), (4, 4, 1))',
    'ndmi/float32/chunks3': '((1, 2, 3), (4, 5))',
    'ndmi/float64': 'ed169bb759c96414',
    'ndmi/float64/chunks0': '((6,), (9,))',
    'ndmi/float64/chunks1': '((1, 1, 1, 1, 1, 1), (1, 1, 1, 1, 1, 1, 1, 1, 1))',
    'ndmi/float64/chunks2': '((2, 2, 2), (4, 4, 1))',
    'ndmi/float64/chunks3': '((1, 2, 3), (4, 5))',
    'ndmi/int32': '182b21e11c5fd052',
    'ndmi/int32/chunks0': '((6,), (9,))',
    'ndmi/int32/chunks1': '((1, 1, 1, 1, 1, 1), (1, 1, 1, 1, 1, 1, 1, 1, 1))',
    'ndmi/int32/chunks2': '((2, 2, 2), (4, 4, 1))',
    'ndmi/int32/chunks3': '((1, 2, 3), (4, 5))',
    'ndmi/uint8': '182b21e11c5fd052',
    'ndmi/uint8/chunks0': '((6,), (9,))',
    'ndmi/uint8/chunks1': '((1, 1, 1, 1, 1, 1), (1, 1, 1, 1, 1, 1, 1, 1, 1))',
    'ndmi/uint8/chunks2': '((2, 2, 2), (4, 4, 1))',
    'ndmi/uint8/chunks3': '((1, 2, 3), (4, 5))',
    'ndvi/float32': 'ed169bb759c96414',
    'ndvi/float32/chunks0': '((6,), (9,))',
    'ndvi/float32/chunks1': '((1, 1, 1, 1, 1, 1), (1, 1, 1, 1, 1, 1, 1, 1, 1))',
    'ndvi/float32/chunks2': '((2, 2, 2), (4, 4, 1))',
    'ndvi/float32/chunks3': '((1, 2, 3), (4, 5))',
    'ndvi/float64': 'ed169bb759c96414',
    'ndvi/float64/chunks0': '((6,), (9,))',
    'ndvi/float64/chunks1': '((1, 1, 1, 1, 1, 1), (1, 1, 1, 1, 1, 1, 1, 1, 1))',
    'ndvi/float64/chunks2': '((2, 2, 2), (4, 4, 1))',
    'ndvi/float64/chunks3': '((1, 2, 3), (4, 5))',
    'ndvi/int32': '182b21e11c5fd052',
    'ndvi/int32/chunks0': '((6,), (9,))',
    'ndvi/int32/chunks1': '((1, 1, 1, 1, 1, 1), (1, 1, 1, 1, 1, 1, 1, 1, 1))',
    'ndvi/int32/chunks2': '((2, 2, 2), (4, 4, 1))',
    'ndvi/int32/chunks3': '((1, 2, 3), (4, 5))',
    'ndvi/uint8': '182b21e11c5fd052',
    'ndvi/uint8/chunks0': '((6,), (9,))',
    'ndvi/uint8/chunks1': '((1, 1, 1, 1, 1, 1), (1, 1, 1, 1, 1, 1, 1, 1, 1))',
    'ndvi/uint8/chunks2': '((2, 2, 2), (4, 4, 1))',
    'ndvi/uint8/chunks3': '((1, 2, 3), (4, 5))',
    'savi/float32': '805dcbaee6a9ac79',
    'savi/float32/chunks0': '((6,), (9,))',
    'savi/float32/chunks1': '((1, 1, 1, 1, 1, 1), (1, 1, 1, 1, 1, 1, 1, 1, 1))',
    'savi/float32/chunks2': '((3, 3), (2, 2, 2, 2, 1))',
    'savi/float32/chunks3': '((3, 3), (2, 2, 5))',
    'savi/float64': '805dcbaee6a9ac79',
    'savi/float64/chunks0': '((6,), (9,))',
    'savi/float64/chunks1': '((1, 1, 1, 1, 1, 1), (1, 1, 1, 1, 1, 1, 1, 1, 1))',
    'savi/float64/chunks2': '((3, 3), (2, 2, 2, 2, 1))',
    'savi/float64/chunks3': '((3, 3), (2, 2, 5))',
    'savi/int32': 'ad87fa1919b6bcf6',
    'savi/int32/chunks0': '((6,), (9,))',
    'savi/int32/chunks1': '((1, 1, 1, 1, 1, 1), (1, 1, 1, 1, 1, 1, 1, 1, 1))',
    'savi/int32/chunks2': '((3, 3), (2, 2, 2, 2, 1))',
    'savi/int32/chunks3': '((3, 3), (2, 2, 5))',
    'savi/uint8': 'ad87fa1919b6bcf6',
    'savi/uint8/chunks0': '((6,), (9,))',
    'savi/uint8/chunks1': '((1, 1, 1, 1, 1, 1), (1, 1, 1, 1, 1, 1, 1, 1, 1))',
    'savi/uint8/chunks2': '((3, 3), (2, 2, 2, 2, 1))',
    'savi/uint8/chunks3': '((3, 3), (2, 2, 5))',
    'sipi/float32': '4bb2d00865dcbd56',
    'sipi/float32/chunks0': '((6,), (9,))',
    'sipi/float32/chunks1': '((1, 1, 1, 1, 1, 1), (1, 1, 1, 1, 1, 1, 1, 1, 1))',
    'sipi/float32/chunks2': '((3, 3), (2, 2, 2, 2, 1))',
    'sipi/float32/chunks3': '((3, 3), (2, 2, 5))',
    'sipi/float64': '4bb2d00865dcbd56',
    'sipi/float64/chunks0': '((6,), (9,))',
    'sipi/float64/chunks1': '((1, 1, 1, 1, 1, 1), (1, 1, 1, 1, 1, 1, 1, 1, 1))',
    'sipi/float64/chunks2': '((3, 3), (2, 2, 2, 2, 1))',
    'sipi/float64/chunks3': '((3, 3), (2, 2, 5))',
    'sipi/int32': '37cabdb1411ed686',
    'sipi/int32/chunks0': '((6,), (9,))',
    'sipi/int32/chunks1': '((1, 1, 1, 1, 1, 1), (1, 1, 1, 1, 1, 1, 1, 1, 1))',
    'sipi/int32/chunks2': '((3, 3), (2, 2, 2, 2, 1))',
    'sipi/int32/chunks3': '((3, 3), (2, 2, 5))',
    'sipi/uint8': '37cabdb1411ed686',
    'sipi/uint8/chunks0': '((6,), (9,))',
    'sipi/uint8/chunks1': '((1, 1, 1, 1, 1, 1), (1, 1, 1, 1, 1, 1, 1, 1, 1))',
    'sipi/uint8/chunks2': '((3, 3), (2, 2, 2, 2, 1))',
    'sipi/uint8/chunks3': '((3, 3), (2, 2, 5))',
    'true_color': 'b44cf121bd4aa091',
}

if '--record' in sys.argv:
    print('EXPECTED = {')
    for k in sorted(RESULTS):
        print('    %r: %r,' % (k, RESULTS[k]))
    print('}')
    sys.exit(0)

check(set(EXPECTED) == set(RESULTS), 'same set of recorded cases')
for k in sorted(RESULTS):
    check(EXPECTED.get(k) == RESULTS[k], 'recorded value differs: %s' % k)

print('xrspatial from', xrspatial.__file__)
print('cases: %d, failures: %d' % (len(RESULTS), len(FAILS)))
sys.exit(1 if FAILS else 0)
