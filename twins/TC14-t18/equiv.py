"""Differential test for C14 (a_star_search) refactorings.

Two kinds of checks, both must pass on the unmodified and the refactored tree:
  1. an independent oracle (Dijkstra + chain validation written here) checks
     every result on exhaustively enumerated small grids and on random larger
     ones (several dtypes, NaNs, odd shapes, asc/desc/fractional coordinates,
     snap on/off, connectivity 4/8);
  2. a sha256 digest over the raw bytes of every result (and of the private
     helpers' outputs) is compared with the digest recorded from the
     unmodified tree, so the *same* path (same tie-breaking), same values and
     same dtype are required.

Run:  cd <worktree> && PYTHONPATH=<worktree> /venv/bin/python equiv.py
      (add --record to print the digests instead of comparing)
"""
import hashlib
import heapq
import itertools
import sys
import warnings

import numpy as np
import xarray as xr

import xrspatial
from xrspatial import a_star_search
from xrspatial import pathfinding as pf

warnings.simplefilter("ignore")

RECORDED = {
    "exhaustive_2x3": "4e968f7bad7b5e63d5aef8e870632198534a09447ad04893ea66e0644f895b5c",
    "exhaustive_3x3": "44b24a30f3e8b7daae81a350256be0dc7292351cb1a8cf6d8a10ecd715dec1f7",
    "random_large": "579482772b78e8eaf4110ee4d34388936c7ef30c702364ca5029278eee84a368",
    "helpers": "d71b410f02d4a2446298738f85e1b6f00e2a01a18da0bdb9027c3311ef3723c1",
    "errors": "608783dbc10d40f4a7c1ddfb1aeeb39c409e95a345554ecd4a5a6470d89ed24a",
}

SQRT2 = np.sqrt(2.0)
FAIL = []


def fail(msg):
    FAIL.append(msg)
    if len(FAIL) < 20:
        print("FAIL:", msg)


def make_raster(data, ystart, ystep, xstart, xstep, dims=("y", "x"),
                res=True):
    h, w = data.shape
    ys = ystart + ystep * np.arange(h)
    xs = xstart + xstep * np.arange(w)
    attrs = {"k": "v", "steps": (ystep, xstep)}
    if res or h < 2 or w < 2:
        # without the attribute the cell size is derived from the coordinates
        attrs["res"] = (abs(xstep), abs(ystep))
    return xr.DataArray(data, dims=list(dims),
                        coords={dims[0]: ys, dims[1]: xs}, attrs=attrs)


def crossable_mask(data, barriers):
    d = np.asarray(data, dtype=np.float64)
    m = ~np.isnan(d)
    for b in barriers:
        m &= ~(np.asarray(data) == b)
    return m


def nbrs(conn):
    if conn == 8:
        return [(-1, -1), (-1, 0), (-1, 1), (0, -1), (0, 1), (1, -1), (1, 0),
                (1, 1)]
    return [(-1, 0), (1, 0), (0, -1), (0, 1)]


def dijkstra(mask, s, g, conn):
    h, w = mask.shape
    if not mask[s] or not mask[g]:
        return None
    dist = {s: 0.0}
    pq = [(0.0, s)]
    done = set()
    while pq:
        d, c = heapq.heappop(pq)
        if c in done:
            continue
        done.add(c)
        if c == g:
            return d
        for dy, dx in nbrs(conn):
            n = (c[0] + dy, c[1] + dx)
            if 0 <= n[0] < h and 0 <= n[1] < w and mask[n] and n not in done:
                nd = d + (SQRT2 if dy and dx else 1.0)
                if nd < dist.get(n, np.inf):
                    dist[n] = nd
                    heapq.heappush(pq, (nd, n))
    return None


def nearest_crossable(mask, p):
    # the first minimum in row-major order (what snapping documents)
    best, bd = None, np.inf
    h, w = mask.shape
    for yy in range(h):
        for xx in range(w):
            if mask[yy, xx]:
                d = np.sqrt((xx - p[1]) ** 2 + (yy - p[0]) ** 2)
                if d < bd:
                    bd, best = d, (yy, xx)
    return best


def check_result(tag, res, raster, mask, s, g, conn, snap_s, snap_g):
    out = res.values
    if out.dtype != np.float64 or out.shape != raster.shape:
        fail(f"{tag}: dtype/shape {out.dtype} {out.shape}")
        return
    if res.dims != raster.dims or res.attrs != raster.attrs:
        fail(f"{tag}: dims/attrs")
    for d in raster.dims:
        if not np.array_equal(res.coords[d].values, raster.coords[d].values):
            fail(f"{tag}: coords")
    if snap_s and mask.any() and not mask[s]:
        s = nearest_crossable(mask, s)
    if snap_g and mask.any() and not mask[g]:
        g = nearest_crossable(mask, g)
    if not mask.any():
        best = None
    else:
        best = dijkstra(mask, s, g, conn)
    cells = np.argwhere(~np.isnan(out))
    if best is None:
        if len(cells):
            fail(f"{tag}: expected all NaN")
        return
    if len(cells) == 0:
        fail(f"{tag}: route exists but all NaN")
        return
    if out[s] != 0.0:
        fail(f"{tag}: start value {out[s]}")
    if not np.isclose(out[g], best, rtol=0, atol=1e-9):
        fail(f"{tag}: goal value {out[g]} != {best}")
    # chain: sort by value, each step to a neighbour adding its length
    order = sorted((out[tuple(c)], tuple(c)) for c in cells)
    if order[0][1] != s or order[-1][1] != g:
        fail(f"{tag}: chain ends {order[0]} {order[-1]}")
    for (v0, c0), (v1, c1) in zip(order, order[1:]):
        dy, dx = c1[0] - c0[0], c1[1] - c0[1]
        if (dy, dx) not in nbrs(conn):
            fail(f"{tag}: step {c0}->{c1} not a neighbour")
            return
        step = SQRT2 if dy and dx else 1.0
        if not np.isclose(v1 - v0, step, rtol=0, atol=1e-9):
            fail(f"{tag}: step length {v1 - v0}")
    for _, c in order:
        if not mask[c]:
            fail(f"{tag}: enters non-crossable {c}")


def coord_of(raster, cell, frac=(0.0, 0.0)):
    ys = raster.coords[raster.dims[0]].values
    xs = raster.coords[raster.dims[1]].values
    ystep, xstep = raster.attrs["steps"]
    return (ys[cell[0]] + frac[0] * ystep, xs[cell[1]] + frac[1] * xstep)


COORD_SETS = [
    # ystart, ystep, xstart, xstep
    (0.0, 1.0, 0.0, 1.0),
    (5.0, -1.0, 0.0, 1.0),
    (10.25, 0.3, -7.5, 0.7),
    (-3.1, -0.1, 100.0, -2.5),
]


def run_exhaustive(h, w, snaps, coord_sets, fracs, both_variants=True):
    dig = hashlib.sha256()
    cells = list(itertools.product(range(h), range(w)))
    n = 0
    for bits in range(2 ** (h * w)):
        lay = np.array([(bits >> k) & 1 for k in range(h * w)],
                       dtype=np.float64).reshape(h, w)
        # 1 = crossable, 0 = barrier; variant: every other barrier is NaN/2
        variants = [(lay.copy(), [0])]
        v2 = lay.copy()
        zs = np.argwhere(v2 == 0)
        for i, c in enumerate(zs):
            v2[tuple(c)] = np.nan if i % 2 == 0 else 2.0
        variants.append((v2, [0, 2]))
        for vi, (data, barriers) in enumerate(variants):
            if not both_variants and vi != bits % 2:
                continue
            mask = crossable_mask(data, barriers)
            cs = coord_sets[(bits + vi) % len(coord_sets)]
            raster = make_raster(data, *cs)
            for s in cells:
                for g in cells:
                    for conn in (4, 8):
                        for snap_s, snap_g in snaps:
                            fr = fracs[(n) % len(fracs)]
                            n += 1
                            start = coord_of(raster, s, fr)
                            goal = coord_of(raster, g, (-fr[0], fr[1]))
                            res = a_star_search(
                                raster, start, goal, barriers,
                                connectivity=conn, snap_start=snap_s,
                                snap_goal=snap_g)
                            check_result(
                                f"ex{h}x{w} bits={bits} v{vi} {s}->{g} "
                                f"c{conn} snap{snap_s, snap_g}",
                                res, raster, mask, s, g, conn, snap_s, snap_g)
                            dig.update(res.values.tobytes())
    return dig.hexdigest()


def run_random_large():
    dig = hashlib.sha256()
    rng = np.random.RandomState(1234)
    shapes = [(1, 7), (7, 1), (5, 8), (13, 4), (9, 9), (2, 11), (1, 1)]
    dtypes = [np.int32, np.int64, np.uint8, np.float32, np.float64]
    for it in range(400):
        h, w = shapes[it % len(shapes)]
        dt = dtypes[(it // 7) % len(dtypes)]
        p = [0.15, 0.3, 0.45][it % 3]
        vals = rng.choice([0, 1, 2, 3], size=(h, w),
                          p=[p, (1 - p) / 2, p / 3, (1 - p) / 2 - p / 3])
        data = vals.astype(dt)
        if np.issubdtype(dt, np.floating):
            data[rng.rand(h, w) < 0.1] = np.nan
            if it % 11 == 0:
                data[rng.rand(h, w) < 0.05] = np.inf
        barriers = [[0], [0, 2], [], [2.0]][it % 4]
        mask = crossable_mask(data, barriers)
        cs = COORD_SETS[it % len(COORD_SETS)]
        dims = ("y", "x") if it % 5 else ("lat", "lon")
        raster = make_raster(data, *cs, dims=dims, res=bool(it % 2))
        for _ in range(6):
            s = (rng.randint(h), rng.randint(w))
            g = (rng.randint(h), rng.randint(w))
            conn = 4 if rng.rand() < 0.5 else 8
            snap_s, snap_g = bool(rng.randint(2)), bool(rng.randint(2))
            fr = (rng.uniform(-0.4, 0.4), rng.uniform(-0.4, 0.4))
            res = a_star_search(raster, coord_of(raster, s, fr),
                                coord_of(raster, g, fr), barriers,
                                dims[1], dims[0], conn, snap_s, snap_g)
            check_result(f"rand it={it} {s}->{g} c{conn}", res, raster, mask,
                         s, g, conn, snap_s, snap_g)
            dig.update(res.values.tobytes())
            dig.update(str(res.values.dtype).encode())
    return dig.hexdigest()


def run_helpers():
    """private helpers that exist (same names) in both trees"""
    dig = hashlib.sha256()
    rng = np.random.RandomState(7)
    # _is_inside
    for py in range(-2, 5):
        for px in range(-2, 6):
            for h, w in ((1, 1), (3, 4), (4, 3), (0, 2)):
                r = pf._is_inside(py, px, h, w)
                exp = (0 <= py < h) and (0 <= px < w)
                if bool(r) != exp or not isinstance(r, (bool, np.bool_)):
                    fail(f"_is_inside({py},{px},{h},{w}) = {r!r}")
                dig.update(repr((bool(r),)).encode())
    # _neighborhood_structure: values, dtype, fresh arrays, not mutated
    for conn in (8, 4, 8, 4, 5, None):
        ys, xs = pf._neighborhood_structure(conn) if conn is not None \
            else pf._neighborhood_structure()
        dig.update(ys.tobytes() + xs.tobytes() +
                   str((ys.dtype, xs.dtype, ys.shape)).encode())
        exp = set(nbrs(8 if conn in (8, None) else 4))
        if set(zip(ys.tolist(), xs.tolist())) != exp:
            fail(f"_neighborhood_structure({conn})")
        if not (ys.flags.writeable and xs.flags.writeable):
            fail("neighbourhood arrays must be fresh writeable arrays")
        ys[:] = 99  # a caller scribbling on the result must not matter
        xs[:] = 99
    # _min_cost_pixel_id
    for it in range(200):
        h, w = rng.randint(1, 6), rng.randint(1, 7)
        cost = np.round(rng.rand(h, w) * 4, 0 if it % 2 else 3)
        is_open = rng.rand(h, w) < [0.0, 0.2, 0.6, 1.0][it % 4]
        if it % 9 == 0:
            cost += (h + w) ** 2  # nothing below the sentinel
        r = pf._min_cost_pixel_id(cost, is_open)
        best, bc = (-1, -1), (h + w) ** 2
        for i in range(h):
            for j in range(w):
                if is_open[i, j] and cost[i, j] < bc:
                    bc, best = cost[i, j], (i, j)
        if tuple(int(v) for v in r) != best:
            fail(f"_min_cost_pixel_id it={it}: {r} != {best}")
        dig.update(repr(tuple(int(v) for v in r)).encode())
    # _find_nearest_pixel
    for it in range(300):
        h, w = rng.randint(1, 6), rng.randint(1, 7)
        dt = [np.float64, np.float32, np.int64, np.int32][it % 4]
        data = rng.choice([0, 1, 2], size=(h, w)).astype(dt)
        if np.issubdtype(dt, np.floating):
            data[rng.rand(h, w) < 0.2] = np.nan
        barriers = np.array([[0], [0, 2], [0, 1, 2], []][it % 4])
        py, px = rng.randint(h), rng.randint(w)
        r = pf._find_nearest_pixel(py, px, data, barriers)
        mask = crossable_mask(data, barriers.tolist())
        if mask[py, px]:
            exp = (py, px)
        elif not mask.any():
            exp = (-1, -1)
        else:
            exp = nearest_crossable(mask, (py, px))
        if tuple(int(v) for v in r) != exp:
            fail(f"_find_nearest_pixel it={it}: {r} != {exp}")
        dig.update(repr(tuple(int(v) for v in r)).encode())
    # _get_pixel_id with and without explicit dim names
    for cs in COORD_SETS:
        raster = make_raster(np.ones((4, 6)), *cs)
        for c in itertools.product(range(4), range(6)):
            for fr in ((0, 0), (0.49, -0.49), (-0.3, 0.2)):
                pt = coord_of(raster, c, fr)
                a = pf._get_pixel_id(pt, raster)
                b = pf._get_pixel_id(pt, raster, "x", "y")
                d = pf._get_pixel_id(pt, raster, xdim="x")
                e = pf._get_pixel_id(pt, raster, ydim="y")
                if not (a == b == d == e == c):
                    fail(f"_get_pixel_id {cs} {c} {fr}: {a} {b} {d} {e}")
                if not all(type(v) is int for v in a):
                    fail("_get_pixel_id must return python ints")
                dig.update(repr(a).encode())
    return dig.hexdigest()


def run_errors():
    """messages / exception types / warnings of the public function"""
    dig = hashlib.sha256()
    r = make_raster(np.array([[1., 0., 1.], [1., 1., np.nan]]), 0, 1, 0, 1)
    r3 = xr.DataArray(np.ones((2, 2, 2)), dims=["b", "y", "x"])
    rl = make_raster(np.ones((2, 3)), 0, 1, 0, 1, dims=("lat", "lon"))

    def attempt(label, fn):
        with warnings.catch_warnings(record=True) as ws:
            warnings.simplefilter("always")
            try:
                out = fn()
                rec = ("ok", out.values.tobytes())
            except Exception as e:  # noqa
                rec = (type(e).__name__, str(e))
        rec = (label, rec, [(w.category.__name__, str(w.message),
                             w.filename.endswith("pathfinding.py"))
                            for w in ws])
        dig.update(repr(rec).encode())
        return rec

    recs = [
        attempt("3d", lambda: a_star_search(r3, (0, 0), (1, 1))),
        attempt("dims", lambda: a_star_search(rl, (0, 0), (1, 1))),
        attempt("dims2", lambda: a_star_search(r, (0, 0), (1, 1), [], "lon",
                                               "lat")),
        attempt("conn6", lambda: a_star_search(r, (0, 0), (1, 1),
                                               connectivity=6)),
        attempt("conn0", lambda: a_star_search(r, (0, 0), (1, 1),
                                               connectivity=0)),
        attempt("connNone", lambda: a_star_search(r, (0, 0), (1, 1),
                                                  connectivity=None)),
        attempt("conn4.0", lambda: a_star_search(r, (0, 0), (1, 1),
                                                 connectivity=4.0)),
        attempt("conn8.0", lambda: a_star_search(r, (0, 0), (1, 1), [0],
                                                 connectivity=8.0)),
        attempt("connTrue", lambda: a_star_search(r, (0, 0), (1, 1),
                                                  connectivity=True)),
        attempt("conn'8'", lambda: a_star_search(r, (0, 0), (1, 1),
                                                 connectivity="8")),
        attempt("conn np8", lambda: a_star_search(r, (0, 0), (1, 1), [0],
                                                  connectivity=np.int64(8))),
        attempt("conn arr4", lambda: a_star_search(
            r, (0, 0), (1, 1), [0], connectivity=np.array([4]))),
        attempt("conn arr8", lambda: a_star_search(
            r, (0, 0), (1, 1), [0], connectivity=np.array([8]))),
        attempt("conn arr48", lambda: a_star_search(
            r, (0, 0), (1, 1), [0], connectivity=np.array([4, 8]))),
        attempt("start out", lambda: a_star_search(r, (5, 0), (1, 1))),
        attempt("goal out", lambda: a_star_search(r, (0, 0), (1, 7))),
        attempt("both out", lambda: a_star_search(r, (9, 9), (9, 9))),
        attempt("start out, bad goal", lambda: a_star_search(r, (9, 9),
                                                             None)),
        attempt("bad start", lambda: a_star_search(r, None, (9, 9))),
        attempt("start barrier", lambda: a_star_search(r, (0, 1), (1, 1),
                                                       [0])),
        attempt("goal nan", lambda: a_star_search(r, (0, 0), (1, 2), [0])),
        attempt("both bad", lambda: a_star_search(r, (0, 1), (1, 2), [0])),
        attempt("both bad snapped", lambda: a_star_search(
            r, (0, 1), (1, 2), [0], snap_start=True, snap_goal=True)),
        attempt("all barrier snapped", lambda: a_star_search(
            r, (0, 1), (1, 2), [0, 1], snap_start=True, snap_goal=True)),
        attempt("all barrier snap goal", lambda: a_star_search(
            r, (0, 1), (1, 2), [0, 1], snap_goal=True)),
        attempt("all barrier snap start", lambda: a_star_search(
            r, (0, 1), (1, 2), [0, 1], snap_start=True)),
        attempt("latlon ok", lambda: a_star_search(rl, (0, 0), (1, 2), [],
                                                   "lon", "lat", 4)),
        attempt("kw ok", lambda: a_star_search(
            surface=r, start=(0, 0), goal=(0, 2), barriers=[0], x="x", y="y",
            connectivity=8, snap_start=False, snap_goal=False)),
    ]
    exp_msgs = {
        "3d": ("ValueError", "input `surface` must be 2D"),
        "dims": ("ValueError",
                 "`surface.coords` should be named as coordinates:(y, x)"),
        "dims2": ("ValueError",
                  "`surface.coords` should be named as coordinates:"
                  "(lat, lon)"),
        "conn6": ("ValueError", "Use either 4 or 8-connectivity."),
        "conn0": ("ValueError", "Use either 4 or 8-connectivity."),
        "connNone": ("ValueError", "Use either 4 or 8-connectivity."),
        "conn'8'": ("ValueError", "Use either 4 or 8-connectivity."),
        "start out": ("ValueError",
                      "start location outside the surface graph."),
        "goal out": ("ValueError",
                     "goal location outside the surface graph."),
        "both out": ("ValueError",
                     "start location outside the surface graph."),
    }
    for label, rec, ws in recs:
        if label in exp_msgs and rec != exp_msgs[label]:
            fail(f"error {label}: {rec}")
        if label in ("conn4.0", "conn8.0", "conn np8",
                     "conn arr4", "conn arr8", "latlon ok", "kw ok") \
                and rec[0] != "ok":
            fail(f"{label} should succeed: {rec}")
    wmap = {label: [w[:2] for w in ws] for label, _, ws in recs}
    if wmap["start barrier"] != [("Warning",
                                  "Start at a non crossable location")]:
        fail(f"warnings start barrier: {wmap['start barrier']}")
    if wmap["goal nan"] != [("Warning", "End at a non crossable location")]:
        fail(f"warnings goal nan: {wmap['goal nan']}")
    if wmap["both bad"] != [("Warning", "Start at a non crossable location"),
                            ("Warning", "End at a non crossable location")]:
        fail(f"warnings both bad: {wmap['both bad']}")
    if wmap["both bad snapped"] != []:
        fail(f"warnings both bad snapped: {wmap['both bad snapped']}")
    # signature of the public function
    import inspect
    sig = str(inspect.signature(a_star_search))
    dig.update(sig.encode())
    return dig.hexdigest()


def main():
    record = "--record" in sys.argv
    print("library:", xrspatial.__file__)
    all_snaps = [(False, False), (True, False), (False, True), (True, True)]
    fracs = [(0.0, 0.0), (0.3, -0.3), (-0.45, 0.45), (0.0, 0.49)]
    got = {}
    got["exhaustive_2x3"] = run_exhaustive(2, 3, all_snaps, COORD_SETS, fracs)
    got["exhaustive_3x3"] = run_exhaustive(
        3, 3, [(False, False)], COORD_SETS, fracs, both_variants=False)
    got["random_large"] = run_random_large()
    got["helpers"] = run_helpers()
    got["errors"] = run_errors()
    if record:
        for k, v in got.items():
            print(f'    "{k}": "{v}",')
        return 1 if FAIL else 0
    for k, v in got.items():
        if RECORDED[k] != v:
            fail(f"digest {k}: {v} != recorded {RECORDED[k]}")
    if FAIL:
        print(f"{len(FAIL)} failures")
        return 1
    print("OK: identical to the recorded baseline and valid per the oracle")
    return 0


if __name__ == "__main__":
    sys.exit(main())
