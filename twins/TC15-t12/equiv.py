"""Differential test for polygonize (property C15).

Run from inside the worktree:
    cd /tmp/t5/TC15 && PYTHONPATH=/tmp/t5/TC15 /venv/bin/python equiv.py

Two checks:
 1. every result is checked independently: rasterising the polygons
    (point-in-polygon on cell centres, exterior minus holes) gives back the
    raster, areas equal cell counts, rings closed / correctly oriented /
    axis-parallel, transform applied to every vertex;
 2. a SHA256 digest over all outputs (values, python types, dtypes, shapes,
    raw bytes of every ring, order of polygons and rings, exception types and
    messages) is compared with the digest recorded on the unmodified tree.
Exit 0 if identical, 1 otherwise.
"""
import hashlib
import itertools
import sys

import numpy as np
import xarray as xr

import xrspatial
from xrspatial.experimental import polygonize
import xrspatial.experimental.polygonize as pmod

EXPECTED = "9759e6ffa5bef51ad1a940c22d966d97dd9f055ca03f36e11efcf5cc33d8a094"

h = hashlib.sha256()
failures = []


def feed(*items):
    for it in items:
        if isinstance(it, np.ndarray):
            h.update(str(it.dtype).encode())
            h.update(str(it.shape).encode())
            h.update(np.ascontiguousarray(it).tobytes())
        else:
            h.update(repr(it).encode())
        h.update(b"|")


def signed_area(ring):
    x = ring[:, 0]
    y = ring[:, 1]
    return 0.5 * float(np.sum(x[:-1] * y[1:] - x[1:] * y[:-1]))


def inside(ring, px, py):
    # even-odd ray casting, points never on the boundary (cell centres)
    c = False
    for k in range(len(ring) - 1):
        x0, y0 = ring[k]
        x1, y1 = ring[k + 1]
        if (y0 > py) != (y1 > py):
            xi = x0 + (py - y0) * (x1 - x0) / (y1 - y0)
            if px < xi:
                c = not c
    return c


def close(a, b):
    if isinstance(a, (int, np.integer)) and isinstance(b, (int, np.integer)):
        return a == b
    return abs(b - a) <= 1e-8 + 1e-5 * abs(a)


def check_lossless(tag, data, mask, column, polys):
    ny, nx = data.shape
    owner = -np.ones((ny, nx), dtype=int)
    for p, rings in enumerate(polys):
        ext = rings[0]
        for r, ring in enumerate(rings):
            if ring.dtype != np.float64 or ring.ndim != 2 or ring.shape[1] != 2:
                failures.append((tag, "ring dtype/shape"))
            if not np.array_equal(ring[0], ring[-1]):
                failures.append((tag, "ring not closed"))
            if not np.array_equal(ring, np.round(ring)):
                failures.append((tag, "vertex not on corner"))
            d = np.diff(ring, axis=0)
            if np.any((d[:, 0] != 0) & (d[:, 1] != 0)) or np.any(
                    (d[:, 0] == 0) & (d[:, 1] == 0)):
                failures.append((tag, "edge not axis parallel"))
            a = signed_area(ring)
            if (r == 0 and a <= 0) or (r > 0 and a >= 0):
                failures.append((tag, "orientation"))
        area = sum(signed_area(r) for r in rings)
        cnt = 0
        x0, y0 = ext.min(axis=0)
        x1, y1 = ext.max(axis=0)
        for j in range(int(y0), int(y1)):
            for i in range(int(x0), int(x1)):
                px, py = i + 0.5, j + 0.5
                if inside(ext, px, py) and not any(
                        inside(hr, px, py) for hr in rings[1:]):
                    cnt += 1
                    if owner[j, i] != -1:
                        failures.append((tag, "cell in two polygons"))
                    owner[j, i] = p
                    if not close(column[p], data[j, i]):
                        failures.append((tag, "value mismatch"))
        if abs(area - cnt) > 1e-9:
            failures.append((tag, "area != count"))
    for j in range(ny):
        for i in range(nx):
            m = True if mask is None else bool(mask[j, i])
            if m and owner[j, i] == -1:
                failures.append((tag, "unmasked cell uncovered"))
            if not m and owner[j, i] != -1:
                failures.append((tag, "masked cell covered"))


def run(tag, data, mask=None, connectivity=4, transform=None, check=True):
    raster = xr.DataArray(data)
    m = None if mask is None else xr.DataArray(mask)
    data_before = data.copy()
    column, polys = polygonize(raster, mask=m, connectivity=connectivity,
                               transform=transform)
    if not np.array_equal(data_before, data, equal_nan=True):
        failures.append((tag, "input mutated"))
    feed(tag, type(column).__name__, len(column), len(polys))
    for v in column:
        feed(type(v).__name__, v)
    for rings in polys:
        feed(type(rings).__name__, len(rings))
        for ring in rings:
            feed(ring)
    if transform is not None:
        c0, p0 = polygonize(raster, mask=m, connectivity=connectivity)
        t = np.asarray(transform, dtype=np.float64)
        for rings, rings0 in zip(polys, p0):
            for ring, ring0 in zip(rings, rings0):
                ex = t[0] * ring0[:, 0] + t[1] * ring0[:, 1] + t[2]
                ey = t[3] * ring0[:, 0] + t[4] * ring0[:, 1] + t[5]
                if not (np.allclose(ring[:, 0], ex, rtol=1e-13, atol=1e-13)
                        and np.allclose(ring[:, 1], ey, rtol=1e-13,
                                        atol=1e-13)):
                    failures.append((tag, "transform"))
        column, polys = c0, p0
    if check:
        check_lossless(tag, data, mask, column, polys)


def run_err(tag, fn):
    try:
        fn()
    except Exception as e:  # noqa
        feed(tag, type(e).__name__, str(e))
    else:
        feed(tag, "no error")


assert xrspatial.__file__.startswith("/tmp/t5/TC15/"), xrspatial.__file__

# private names that other code / tests may reach for stay reachable
for name in ("_calculate_regions", "_merge_regions", "_min_and_max", "_follow",
             "_scan", "_transform_points", "_polygonize_numpy", "_is_close",
             "_diff_row", "_outside_domain", "_regions_dtype",
             "_visited_dtype", "Turn", "polygonize"):
    feed(name, hasattr(pmod, name))

# 1. exhaustive small rasters over alphabets, every mask, both connectivities
shapes = [(1, 1), (1, 2), (2, 1), (1, 3), (3, 1), (2, 2), (2, 3), (3, 2),
          (1, 5), (5, 1)]
for shape in shapes:
    n = shape[0] * shape[1]
    alpha = 3 if n <= 5 else 2
    for cells in itertools.product(range(alpha), repeat=n):
        for dtype in (np.int32, np.float64):
            data = np.array(cells, dtype=dtype).reshape(shape)
            for conn in (4, 8):
                run(("ex", shape, cells, str(dtype), conn), data,
                    connectivity=conn)
    if n <= 4:
        for cells in itertools.product(range(2), repeat=n):
            for mcells in itertools.product((False, True), repeat=n):
                data = np.array(cells, dtype=np.int64).reshape(shape)
                mask = np.array(mcells, dtype=bool).reshape(shape)
                for conn in (4, 8):
                    run(("exm", shape, cells, mcells, conn), data, mask=mask,
                        connectivity=conn)

# 3x3 binary, all, conn 4/8 (diagonal pinches, single-cell holes)
for cells in itertools.product(range(2), repeat=9):
    data = np.array(cells, dtype=np.uint8).reshape((3, 3))
    for conn in (4, 8):
        run(("ex33", cells, conn), data, connectivity=conn)

# 2. random larger rasters, many dtypes, masks of several dtypes
rng = np.random.default_rng(15)
dtypes = [np.int8, np.uint8, np.int16, np.int32, np.int64, np.uint32,
          np.float32, np.float64]
for k in range(60):
    ny = int(rng.integers(1, 14))
    nx = int(rng.integers(1, 14))
    if k % 10 == 0:
        nx = 1
    if k % 10 == 1:
        ny = 1
    dtype = dtypes[k % len(dtypes)]
    data = rng.integers(0, 2 + k % 4, size=(ny, nx)).astype(dtype)
    if np.issubdtype(dtype, np.floating):
        data = data * dtype(0.25) + dtype(1.5)
    mask = None
    if k % 3 == 1:
        mask = rng.random((ny, nx)) < 0.7
    elif k % 3 == 2:
        mask = (rng.random((ny, nx)) < 0.8).astype(
            [np.int32, np.float64, np.uint8][k % 9 // 3])
    for conn in (4, 8):
        tr = None
        if k % 4 == 0:
            tr = np.array([2.0, 0.0, -7.5, 0.0, -3.0, 11.25])
        elif k % 4 == 2:
            tr = [1, 2, 3, 4, 5, 6]
        run(("rnd", k, conn), data, mask=mask, connectivity=conn,
            transform=tr)

# 3. many regions (region_lookup grows beyond its initial size 64, chains of
#    merges): combs, checkerboards, spirals, nested holes
def spiral(n):
    a = np.zeros((n, n), dtype=np.int32)
    x = y = 0
    dx, dy = 1, 0
    lo_x, hi_x, lo_y, hi_y = 0, n - 1, 0, n - 1
    a[:] = 0
    # draw walls on every other ring side
    for r in range(0, n // 2, 2):
        a[r, r:n - r] = 1
        a[r:n - r, n - 1 - r] = 1
        a[n - 1 - r, r:n - r] = 1
        a[r + 2:n - r, r] = 1
        if r + 2 < n:
            a[r + 2, r:r + 2] = 1
    return a


def nested(n):
    a = np.zeros((n, n), dtype=np.int64)
    for r in range(n // 2 + 1):
        a[r:n - r, r:n - r] = r % 3
    return a


def comb(ny, nx):
    a = np.zeros((ny, nx), dtype=np.int16)
    a[:-1, ::2] = 1
    a[-1, :] = 1
    return a


def comb_down(ny, nx):
    return comb(ny, nx)[::-1].copy()


big = [
    ("spiral9", spiral(9)), ("spiral16", spiral(16)),
    ("nested11", nested(11)), ("nested20", nested(20)),
    ("comb", comb(6, 161)), ("comb_down", comb_down(6, 161)),
    ("checker", (np.indices((13, 17)).sum(axis=0) % 2).astype(np.int32)),
    ("checkerf", (np.indices((12, 15)).sum(axis=0) % 2).astype(np.float32)),
    ("stripes", np.tile(np.arange(150, dtype=np.int32) % 2, (3, 1))),
    ("zigzag", ((np.indices((40, 40))[0] * 3 + np.indices((40, 40))[1] * 5)
                % 7 < 3).astype(np.int8)),
    ("rand40", rng.integers(0, 2, size=(40, 43)).astype(np.int32)),
    ("rand40f", rng.integers(0, 3, size=(37, 41)).astype(np.float64)),
]
for name, data in big:
    for conn in (4, 8):
        run(("big", name, conn), data, connectivity=conn)
        m = rng.random(data.shape) < 0.85
        run(("bigm", name, conn), data, mask=m, connectivity=conn,
            transform=np.array([0.5, 0.0, 100.0, 0.0, 0.25, -50.0]))

# 3b. tall / wide rasters (initial lookup size is max(64, nx, ny)), Nx1
#     without a mask (internally padded with a masked-out column), and more
#     than 64 / 128 provisional regions that get merged late
tall = [
    ("tall", np.tile((np.arange(150, dtype=np.int32) % 2)[:, None], (1, 3))),
    ("tallcomb", comb(6, 161).T.copy()),
    ("tallcombr", comb_down(6, 161).T[:, ::-1].copy()),
    ("col200", (np.arange(200) // 3 % 2).astype(np.int64)[:, None]),
    ("col200f", (np.arange(200) // 2 % 3).astype(np.float32)[:, None]),
    ("row200", (np.arange(200) // 3 % 2).astype(np.uint8)[None, :]),
    ("vcomb", np.where(np.indices((70, 70))[1] % 2 == 0, 1, 0).astype(
        np.int32) | (np.indices((70, 70))[0] == 69)),
]
for name, data in tall:
    for conn in (4, 8):
        run(("tall", name, conn), data, connectivity=conn)
        m = rng.random(data.shape) < 0.9
        run(("tallm", name, conn), data, mask=m, connectivity=conn)

# 4. floats: nearly-equal values join (isclose), NaN / inf cells
f = np.array([[1.0, 1.0 + 1e-9, 2.0, np.nan],
              [1.0 + 2e-5, np.nan, np.nan, 2.0],
              [np.inf, np.inf, -np.inf, 2.0],
              [0.0, 1e-9, -1e-9, 5e-8]])
for conn in (4, 8):
    run(("nan", conn), f, connectivity=conn, check=False)
    run(("nanmask", conn), f, mask=np.isfinite(f), connectivity=conn,
        check=False)
    run(("nan32", conn), f.astype(np.float32), connectivity=conn,
        check=False)
    run(("nancol", conn), f[:, 3:4].copy(), connectivity=conn, check=False)
    run(("nancolm", conn), f[:, 1:2].copy(), mask=np.isfinite(f[:, 1:2]),
        connectivity=conn, check=False)

# non-contiguous / transposed inputs
base = rng.integers(0, 3, size=(9, 11)).astype(np.int32)
run(("transposed",), base.T, connectivity=8)
run(("strided",), base[::2, ::3], connectivity=4)
run(("strided1col",), base[:, 4:5], connectivity=4)
run(("strided1colm",), base[:, 4:5], mask=base[:, 5:6] > 0, connectivity=8)

# 5. errors: same type, same message, same order
d = xr.DataArray(np.zeros((3, 4), dtype=np.int32))
run_err("e1", lambda: polygonize(xr.DataArray(np.zeros(3, dtype=int))))
run_err("e2", lambda: polygonize(xr.DataArray(np.zeros((0, 3), dtype=int))))
run_err("e3", lambda: polygonize(xr.DataArray(np.zeros((3, 0), dtype=int))))
run_err("e4", lambda: polygonize(d, connectivity=6))
run_err("e5", lambda: polygonize(d, transform=[1, 2, 3]))
run_err("e6", lambda: polygonize(
    d, mask=xr.DataArray(np.ones((4, 3), dtype=bool))))
run_err("e7", lambda: polygonize(d, return_type="nope"))
run_err("e8", lambda: polygonize(d, connectivity=6, transform=[1, 2, 3]))
run_err("e9", lambda: polygonize(
    xr.DataArray(np.zeros(3, dtype=int)), connectivity=5))
try:
    import dask.array as da
    dd = xr.DataArray(da.zeros((3, 4), chunks=(2, 2)))
    run_err("e10", lambda: polygonize(dd))
    run_err("e11", lambda: polygonize(d, mask=dd))
    run_err("e12", lambda: polygonize(dd, mask=dd, connectivity=3))
except ImportError:
    pass

digest = h.hexdigest()
print("digest", digest)
if failures:
    print("independent check failures:", failures[:10], len(failures))
    sys.exit(1)
if digest != EXPECTED:
    print("DIGEST MISMATCH, expected", EXPECTED)
    sys.exit(1)
print("OK")
