"""Differential test for xrspatial.experimental.polygonize (property C15).

Two independent checks:
  1. every output is hashed (values, dtypes, shapes, bytes of every ring,
     exception types/messages for invalid calls) and the digest is compared
     with the one recorded on the unmodified tree;
  2. a brute-force oracle (flood fill + point-in-polygon rasterisation,
     shoelace area, ring orientation) checks the lossless property itself.

Run as:  cd <worktree> && PYTHONPATH=<worktree> /venv/bin/python equiv.py
Exit status 0 if identical/valid, 1 otherwise.
"""
import hashlib
import itertools
import os
import sys

import numpy as np
import xarray as xr

import xrspatial
from xrspatial.experimental import polygonize

EXPECTED_DIGEST = "f8ad769fba06e196fab2522f2d7e99b0dec3c59c986a84faa54fb96e74f32353"

failures = []
hasher = hashlib.sha256()


def feed(*items):
    for it in items:
        if isinstance(it, np.ndarray):
            hasher.update(str(it.dtype).encode())
            hasher.update(str(it.shape).encode())
            hasher.update(np.ascontiguousarray(it).tobytes())
        else:
            hasher.update(repr(it).encode())
        hasher.update(b"|")


# --------------------------------------------------------------------------
# Independent oracle.
# --------------------------------------------------------------------------
def same(a, b, is_int):
    if is_int:
        return a == b
    return abs(b - a) <= 1e-8 + 1e-5 * abs(a)


def components(values, mask, conn):
    ny, nx = values.shape
    is_int = np.issubdtype(values.dtype, np.integer)
    lab = -np.ones((ny, nx), dtype=np.int64)
    nb4 = [(0, 1), (0, -1), (1, 0), (-1, 0)]
    nb8 = nb4 + [(1, 1), (1, -1), (-1, 1), (-1, -1)]
    nbrs = nb8 if conn == 8 else nb4
    nlab = 0
    for j in range(ny):
        for i in range(nx):
            if lab[j, i] >= 0 or (mask is not None and not mask[j, i]):
                continue
            lab[j, i] = nlab
            stack = [(j, i)]
            while stack:
                cj, ci = stack.pop()
                for dj, di in nbrs:
                    qj, qi = cj + dj, ci + di
                    if not (0 <= qj < ny and 0 <= qi < nx):
                        continue
                    if lab[qj, qi] >= 0:
                        continue
                    if mask is not None and not mask[qj, qi]:
                        continue
                    if same(values[cj, ci], values[qj, qi], is_int) and \
                            same(values[qj, qi], values[cj, ci], is_int):
                        lab[qj, qi] = nlab
                        stack.append((qj, qi))
            nlab += 1
    return lab, nlab


def shoelace(ring):
    x = ring[:, 0]
    y = ring[:, 1]
    return 0.5 * float(np.sum(x[:-1] * y[1:] - x[1:] * y[:-1]))


def inside(ring, px, py):
    # Even-odd crossing test; ring edges are axis parallel, centre is never on
    # an edge.
    c = False
    for k in range(len(ring) - 1):
        x0, y0 = ring[k]
        x1, y1 = ring[k + 1]
        if (y0 > py) != (y1 > py):
            xi = x0 + (py - y0) * (x1 - x0) / (y1 - y0)
            if px < xi:
                c = not c
    return c


def oracle(tag, values, mask, conn, column, polys, exact_values=True):
    ny, nx = values.shape
    lab, nlab = components(values, mask, conn)
    if len(column) != len(polys):
        failures.append((tag, "column/polygon length mismatch"))
        return
    if exact_values and len(polys) != nlab:
        failures.append((tag, "polygon count %d != %d" % (len(polys), nlab)))
        return
    owner = -np.ones((ny, nx), dtype=np.int64)
    count = np.zeros((ny, nx), dtype=np.int64)
    for p, rings in enumerate(polys):
        for r, ring in enumerate(rings):
            if ring.dtype != np.float64 or ring.ndim != 2 or \
                    ring.shape[1] != 2:
                failures.append((tag, "ring dtype/shape"))
                return
            if not np.array_equal(ring[0], ring[-1]):
                failures.append((tag, "ring not closed"))
            if not np.array_equal(ring, np.round(ring)):
                failures.append((tag, "vertex off corner"))
            d = np.diff(ring, axis=0)
            if not np.all((d[:, 0] == 0) != (d[:, 1] == 0)):
                failures.append((tag, "edge not axis parallel"))
            a = shoelace(ring)
            if r == 0 and not a > 0:
                failures.append((tag, "exterior not anticlockwise"))
            if r > 0 and not a < 0:
                failures.append((tag, "hole not clockwise"))
        area = sum(shoelace(ring) for ring in rings)
        ncell = 0
        ext = rings[0]
        i_lo = max(int(ext[:, 0].min()), 0)
        i_hi = min(int(ext[:, 0].max()), nx)
        j_lo = max(int(ext[:, 1].min()), 0)
        j_hi = min(int(ext[:, 1].max()), ny)
        for j in range(j_lo, j_hi):
            for i in range(i_lo, i_hi):
                px, py = i + 0.5, j + 0.5
                if not inside(rings[0], px, py):
                    continue
                if any(inside(h, px, py) for h in rings[1:]):
                    continue
                owner[j, i] = p
                count[j, i] += 1
                ncell += 1
        if area != ncell:
            failures.append((tag, "area %r != cells %d" % (area, ncell)))
    for j in range(ny):
        for i in range(nx):
            masked = mask is not None and not mask[j, i]
            if masked:
                if count[j, i] != 0:
                    failures.append((tag, "masked cell covered"))
            else:
                if count[j, i] != 1:
                    failures.append((tag, "cell covered %d times"
                                     % count[j, i]))
                    continue
                v = column[owner[j, i]]
                if exact_values:
                    if v != values[j, i]:
                        failures.append((tag, "value mismatch"))
                else:
                    if not same(v, values[j, i], False):
                        failures.append((tag, "value mismatch (tol)"))
    if exact_values:
        # Same partition as the flood fill.
        pairs = set()
        for j in range(ny):
            for i in range(nx):
                if lab[j, i] >= 0:
                    pairs.add((int(lab[j, i]), int(owner[j, i])))
        if len(pairs) != nlab:
            failures.append((tag, "partition differs from flood fill"))


# --------------------------------------------------------------------------
# Driver.
# --------------------------------------------------------------------------
def run(tag, values, mask=None, conn=4, transform=None, check=True,
        exact_values=True):
    raster = xr.DataArray(values)
    m = xr.DataArray(mask) if mask is not None else None
    vcopy = values.copy()
    mcopy = mask.copy() if mask is not None else None
    column, polys = polygonize(raster, mask=m, connectivity=conn,
                               transform=transform)
    if not np.array_equal(vcopy, values, equal_nan=values.dtype.kind == "f"):
        failures.append((tag, "input raster modified"))
    if mask is not None and not np.array_equal(mcopy, mask):
        failures.append((tag, "input mask modified"))
    feed(tag, type(column).__name__, len(column))
    for v in column:
        feed(type(v).__name__, np.asarray(v))
    feed(type(polys).__name__, len(polys))
    for rings in polys:
        feed(type(rings).__name__, len(rings))
        for ring in rings:
            feed(type(ring).__name__, ring)
    if check:
        if transform is None:
            oracle(tag, values, None if mask is None else mask.astype(bool),
                   conn, column, polys, exact_values)
        else:
            # Compare with untransformed output, transformed here.
            t = np.asarray(transform, dtype=np.float64)
            c0, p0 = polygonize(raster, mask=m, connectivity=conn)
            if list(c0) != list(column) or len(p0) != len(polys):
                failures.append((tag, "transform changes topology"))
            else:
                for r0, r1 in zip(p0, polys):
                    if len(r0) != len(r1):
                        failures.append((tag, "transform changes rings"))
                        continue
                    for a, b in zip(r0, r1):
                        x = t[0] * a[:, 0] + t[1] * a[:, 1] + t[2]
                        y = t[3] * a[:, 0] + t[4] * a[:, 1] + t[5]
                        if not (np.array_equal(x, b[:, 0]) and
                                np.array_equal(y, b[:, 1])):
                            failures.append((tag, "transform not applied"))
    return column, polys


def run_error(tag, fn):
    try:
        fn()
    except Exception as e:  # noqa: BLE001
        feed(tag, type(e).__name__, str(e))
    else:
        feed(tag, "no error")
        failures.append((tag, "expected an exception"))


def main():
    here = os.path.realpath(os.getcwd())
    if not os.path.realpath(xrspatial.__file__).startswith(here + os.sep):
        print("WARNING: xrspatial imported from", xrspatial.__file__)

    # 1. Exhaustive small rasters over small alphabets.
    for (ny, nx), alphabet in [((1, 1), 2), ((1, 2), 2), ((2, 1), 2),
                               ((1, 4), 3), ((4, 1), 3), ((2, 2), 3),
                               ((2, 3), 2), ((3, 2), 2), ((3, 3), 2),
                               ((2, 4), 2)]:
        for cells in itertools.product(range(alphabet), repeat=ny * nx):
            a = np.array(cells, dtype=np.int64).reshape(ny, nx)
            for conn in (4, 8):
                run(("ex", ny, nx, cells, conn), a, conn=conn)
    # Exhaustive with mask: alphabet {masked, 0, 1}.
    for (ny, nx) in [(1, 1), (1, 3), (3, 1), (2, 2), (2, 3), (3, 3)]:
        for n, cells in enumerate(
                itertools.product(range(3), repeat=ny * nx)):
            if ny * nx == 9 and n % 11 != 0:
                continue  # Subsample the 3**9 case to keep runtime low.
            c = np.array(cells).reshape(ny, nx)
            a = np.where(c == 0, 7, c - 1).astype(np.int32)
            mask = (c != 0)
            for conn in (4, 8):
                run(("exm", ny, nx, cells, conn), a, mask=mask, conn=conn)

    # 2. Hand-made shapes: nested holes, spiral, diagonal pinches.
    nested = np.array([
        [1, 1, 1, 1, 1, 1, 1],
        [1, 2, 2, 2, 2, 2, 1],
        [1, 2, 1, 1, 1, 2, 1],
        [1, 2, 1, 3, 1, 2, 1],
        [1, 2, 1, 1, 1, 2, 1],
        [1, 2, 2, 2, 2, 2, 1],
        [1, 1, 1, 1, 1, 1, 1]])
    spiral = np.array([
        [1, 1, 1, 1, 1, 1, 1],
        [0, 0, 0, 0, 0, 0, 1],
        [1, 1, 1, 1, 1, 0, 1],
        [1, 0, 0, 0, 1, 0, 1],
        [1, 0, 1, 1, 1, 0, 1],
        [1, 0, 0, 0, 0, 0, 1],
        [1, 1, 1, 1, 1, 1, 1]])
    pinch = np.array([
        [1, 0, 1, 0, 1],
        [0, 1, 0, 1, 0],
        [1, 0, 1, 0, 1],
        [0, 1, 0, 1, 0]])
    pinch2 = np.array([
        [0, 0, 0, 0, 0],
        [0, 1, 1, 0, 0],
        [0, 1, 0, 1, 0],
        [0, 0, 1, 1, 0],
        [0, 0, 0, 0, 0]])
    transforms = [None, [10.0, 0.0, 100.0, 0.0, -10.0, 500.0],
                  np.array([0.5, 0.25, -3.0, -0.125, 2.0, 7.0]),
                  (2, 0, 1, 0, 3, -4)]
    for name, shape in [("nested", nested), ("spiral", spiral),
                        ("pinch", pinch), ("pinch2", pinch2)]:
        for dtype in (np.int8, np.uint8, np.int32, np.int64, np.uint16,
                      np.float32, np.float64):
            for conn in (4, 8):
                for ti, t in enumerate(transforms):
                    for arr in (shape, shape[::-1].copy(), shape.T.copy()):
                        run((name, str(dtype), conn, ti, arr.shape),
                            arr.astype(dtype), conn=conn, transform=t)
        # With masks of several dtypes.
        for mdtype in (bool, np.int32, np.float64, np.uint8):
            mask = (np.arange(shape.size).reshape(shape.shape) % 5 != 2)
            for conn in (4, 8):
                run((name, "mask", str(mdtype), conn), shape.astype(np.int32),
                    mask=mask.astype(mdtype), conn=conn)
                run((name, "maskf", str(mdtype), conn),
                    shape.astype(np.float64), mask=mask.astype(mdtype),
                    conn=conn, transform=transforms[1])

    # 3. Random larger rasters, int and float, with and without mask.
    rng = np.random.default_rng(20240515)
    for k in range(60):
        ny = int(rng.integers(1, 14))
        nx = int(rng.integers(1, 14))
        nval = int(rng.integers(1, 5))
        a = rng.integers(0, nval, size=(ny, nx))
        mask = rng.random((ny, nx)) > 0.25
        for dtype in (np.int32, np.int64, np.float32, np.float64):
            for conn in (4, 8):
                run(("rnd", k, str(dtype), conn), a.astype(dtype), conn=conn)
                run(("rndm", k, str(dtype), conn), a.astype(dtype),
                    mask=mask, conn=conn)
    for k in range(12):
        ny, nx = [(1, 40), (40, 1), (1, 1), (30, 37), (64, 3), (3, 90),
                  (25, 25), (2, 70), (70, 2), (17, 31), (50, 50),
                  (80, 70)][k]
        a = rng.integers(0, 3, size=(ny, nx))
        mask = rng.random((ny, nx)) > 0.1
        for conn in (4, 8):
            big = ny * nx > 1500
            run(("big", k, conn), a.astype(np.int64), conn=conn,
                check=not big)
            run(("bigm", k, conn), a.astype(np.float64), mask=mask,
                conn=conn, transform=transforms[2], check=not big)
            if big:
                # Still check losslessness, once.
                c, p = polygonize(xr.DataArray(a), connectivity=conn)
                oracle(("bigo", k, conn), a, None, conn, c, p)

    # Many regions: forces region_lookup growth and merges (> 64 regions).
    comb = np.zeros((40, 41), dtype=np.int32)
    comb[:, ::2] = 1
    comb[-1, :] = 1
    comb2 = comb.copy()
    comb2[0, :] = 1
    checker = (np.indices((24, 24)).sum(axis=0) % 2).astype(np.int64)
    ushape = np.arange(30 * 30).reshape(30, 30) % 7
    zig = np.zeros((40, 40), dtype=np.int16)
    for j in range(40):
        zig[j, (j * 3) % 40:] = j % 3
    for name, arr in [("comb", comb), ("comb2", comb2), ("checker", checker),
                      ("ushape", ushape), ("zig", zig),
                      ("combT", comb.T.copy()),
                      ("combflip", comb[::-1, ::-1].copy())]:
        for conn in (4, 8):
            run((name, conn), arr, conn=conn)
            run((name, "f", conn), arr.astype(np.float64), conn=conn,
                transform=transforms[1], check=False)

    # 4. Floats: NaN, inf, nearly-equal values (tolerance comparison).
    f = np.array([[1.0, 1.0 + 1e-9, 2.0, np.nan],
                  [1.0, np.nan, 2.0 + 1e-7, np.nan],
                  [np.inf, np.inf, -np.inf, 0.0],
                  [1e-9, 0.0, -1e-9, 5.0]])
    for dtype in (np.float32, np.float64):
        for conn in (4, 8):
            run(("nan", str(dtype), conn), f.astype(dtype), conn=conn,
                check=False)
            nanmask = ~np.isnan(f)
            run(("nanmask", str(dtype), conn), f.astype(dtype), mask=nanmask,
                conn=conn, check=False)
    g = np.array([[1.0, 1.0 + 2e-6, 3.0], [1.0 + 4e-6, 3.0, 3.0 + 1e-6]])
    for conn in (4, 8):
        run(("tol", conn), g, conn=conn, exact_values=False)
    # All-masked, all-equal, mixed int values/float mask.
    run(("allmasked",), np.ones((3, 4), dtype=np.int32),
        mask=np.zeros((3, 4), dtype=bool))
    run(("allmasked1col",), np.ones((3, 1), dtype=np.int32),
        mask=np.zeros((3, 1), dtype=bool))
    run(("allequal",), np.full((5, 6), 9, dtype=np.uint8))
    run(("col",), np.array([[1], [1], [2], [1]], dtype=np.int64))
    run(("colmask",), np.array([[1], [1], [2], [1]], dtype=np.float32),
        mask=np.array([[1], [0], [1], [1]], dtype=np.float64), conn=8,
        transform=transforms[3])
    # Non-contiguous input views.
    base = rng.integers(0, 3, size=(12, 14))
    run(("view",), base[::2, 1::3])
    run(("viewT",), base.T, conn=8)
    run(("viewm",), base[::-1], mask=(base % 2 == 0)[::-1], conn=8)

    # 5. Argument validation / dispatch.
    ok = xr.DataArray(np.zeros((3, 3), dtype=np.int32))
    run_error("ndim1", lambda: polygonize(xr.DataArray(np.zeros(3))))
    run_error("ndim3", lambda: polygonize(xr.DataArray(np.zeros((2, 2, 2)))))
    run_error("empty0", lambda: polygonize(xr.DataArray(np.zeros((0, 3)))))
    run_error("empty1", lambda: polygonize(xr.DataArray(np.zeros((3, 0)))))
    run_error("maskshape", lambda: polygonize(
        ok, mask=xr.DataArray(np.ones((3, 4), dtype=bool))))
    run_error("conn", lambda: polygonize(ok, connectivity=6))
    run_error("conn+transform", lambda: polygonize(
        ok, connectivity=5, transform=[1, 2, 3]))
    run_error("transform", lambda: polygonize(ok, transform=[1, 2, 3]))
    run_error("return_type", lambda: polygonize(ok, return_type="nope"))
    run_error("conn+return_type", lambda: polygonize(
        ok, connectivity=3, return_type="nope"))
    try:
        import dask.array as da
        dk = xr.DataArray(da.from_array(np.zeros((4, 4), dtype=np.int32),
                                        chunks=2))
        run_error("dask", lambda: polygonize(dk))
        run_error("dask+conn", lambda: polygonize(dk, connectivity=7))
        run_error("masktype", lambda: polygonize(
            ok, mask=xr.DataArray(da.ones((3, 3), chunks=2))))
        run_error("dask+badreturn", lambda: polygonize(
            dk, return_type="nope"))
    except ImportError:
        feed("nodask")
    for rt in ("awkward", "geopandas", "spatialpandas"):
        try:
            __import__(rt)
        except ImportError:
            run_error("rt-" + rt, lambda: polygonize(ok, return_type=rt))
    # Keyword / positional calling conventions of the public API.
    a = np.array([[0, 1], [1, 1]], dtype=np.int32)
    r1 = polygonize(xr.DataArray(a), None, 8, None, "DN", "numpy")
    r2 = polygonize(raster=xr.DataArray(a), mask=None, connectivity=8,
                    transform=None, column_name="DN", return_type="numpy")
    for r in (r1, r2):
        feed(type(r).__name__, len(r), list(map(int, r[0])))
        for rings in r[1]:
            for ring in rings:
                feed(ring)

    digest = hasher.hexdigest()
    print("digest", digest)
    if failures:
        print("ORACLE FAILURES:", len(failures))
        for fl in failures[:20]:
            print("  ", fl)
        return 1
    if digest != EXPECTED_DIGEST:
        print("DIGEST MISMATCH, expected", EXPECTED_DIGEST)
        return 1
    print("OK")
    return 0


if __name__ == "__main__":
    sys.exit(main())
