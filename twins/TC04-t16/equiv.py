"""Differential test for xrspatial.zonal.crosstab (property C04).

Checks every case (a) against a brute-force contingency table computed here
independently of the library and (b) against digests (column labels, dtypes,
exact bytes / exception text) recorded from the unmodified tree.
Exit 0 when everything is identical, 1 otherwise.
"""
import hashlib
import os
import sys
import warnings

import numpy as np
import dask.array as da
import xarray as xr

warnings.filterwarnings("ignore")

import xrspatial
from xrspatial import zonal
from xrspatial.zonal import crosstab

RECORD = os.environ.get("TC04_RECORD") == "1"

# focus of this script: the run-length kernel `_strides` (shared by the zone
# split and the per-zone category split) and the per-zone category loop of
# `_single_zone_crosstab_2d`; both are also exercised directly below.


# --------------------------------------------------------------------------
# digests recorded from the unmodified tree
RECORDED = {
    '2d/(1, 1)/int32/int8/nd=None/s0/percentage/numpy': '9d8974bf563f7d8c',
    '2d/(1, 1)/int32/int8/nd=None/s0/percentage/dask(1, 1)': '9d8974bf563f7d8c',
    '2d/(1, 1)/int32/int8/nd=None/s1/count/numpy': '1c5c20e3e20eed5b',
    '2d/(1, 1)/int32/int8/nd=None/s2/percentage/numpy': '239041d0b62222e8',
    '2d/(1, 1)/int32/int8/nd=None/s3/count/numpy': '68eee7f7eddd1f2f',
    '2d/(1, 1)/int32/int8/nd=None/s3/count/dask(1, 1)': '68eee7f7eddd1f2f',
    '2d/(1, 1)/int32/int8/nd=None/s4/percentage/numpy': 'c4b6b5872bb2b678',
    '2d/(1, 1)/int32/int8/nd=None/s5/count/numpy': '1c5c20e3e20eed5b',
    '2d/(1, 1)/int32/int64/nd=10/s0/percentage/numpy': '8ca36a898485d080',
    '2d/(1, 1)/int32/int64/nd=10/s1/count/numpy': '8ca36a898485d080',
    '2d/(1, 1)/int32/int64/nd=10/s1/count/dask(1, 1)': '8ca36a898485d080',
    '2d/(1, 1)/int32/int64/nd=10/s2/percentage/numpy': '863aa9125449db12',
    '2d/(1, 1)/int32/int64/nd=10/s3/count/numpy': '8d8a2e69841aa27c',
    '2d/(1, 1)/int32/int64/nd=10/s4/percentage/numpy': '540694c6b9239f9d',
    '2d/(1, 1)/int32/int64/nd=10/s4/percentage/dask(1, 1)': '540694c6b9239f9d',
    '2d/(1, 1)/int32/int64/nd=10/s5/count/numpy': '6e8157ba0b83e74e',
    '2d/(1, 1)/int32/float64/nd=None/s0/percentage/numpy': 'ad0df6e99cd18ea2',
    '2d/(1, 1)/int32/float64/nd=None/s1/count/numpy': 'a849658b42ed6454',
    '2d/(1, 1)/int32/float64/nd=None/s2/percentage/numpy': 'ad0df6e99cd18ea2',
    '2d/(1, 1)/int32/float64/nd=None/s2/percentage/dask(1, 1)': 'ad0df6e99cd18ea2',
    '2d/(1, 1)/int32/float64/nd=None/s3/count/numpy': '68eee7f7eddd1f2f',
    '2d/(1, 1)/int32/float64/nd=None/s4/percentage/numpy': '6f11a47a84ba609f',
    '2d/(1, 1)/int32/float64/nd=None/s5/count/numpy': 'e34a9febd48b329b',
    '2d/(1, 1)/int32/float64/nd=None/s5/count/dask(1, 1)': 'e34a9febd48b329b',
    '2d/(1, 1)/int64/int32/nd=10/s0/percentage/numpy': 'ea4d3c3fb6385bf3',
    '2d/(1, 1)/int64/int32/nd=10/s0/percentage/dask(1, 1)': 'ea4d3c3fb6385bf3',
    '2d/(1, 1)/int64/int32/nd=10/s1/count/numpy': 'c0aea0de8b43241f',
    '2d/(1, 1)/int64/int32/nd=10/s2/percentage/numpy': '87a565386edd6d50',
    '2d/(1, 1)/int64/int32/nd=10/s3/count/numpy': '68eee7f7eddd1f2f',
    '2d/(1, 1)/int64/int32/nd=10/s3/count/dask(1, 1)': '68eee7f7eddd1f2f',
    '2d/(1, 1)/int64/int32/nd=10/s4/percentage/numpy': '4b053b5e2e1770d3',
    '2d/(1, 1)/int64/int32/nd=10/s5/count/numpy': 'c0aea0de8b43241f',
    '2d/(1, 1)/int64/float32/nd=None/s0/percentage/numpy': 'ba76fdcc5223e1d5',
    '2d/(1, 1)/int64/float32/nd=None/s1/count/numpy': '8389ff230e495efb',
    '2d/(1, 1)/int64/float32/nd=None/s1/count/dask(1, 1)': '8389ff230e495efb',
    '2d/(1, 1)/int64/float32/nd=None/s2/percentage/numpy': '80365edc835cdf75',
    '2d/(1, 1)/int64/float32/nd=None/s3/count/numpy': '2a73ddf3788a58be',
    '2d/(1, 1)/int64/float32/nd=None/s4/percentage/numpy': 'ba76fdcc5223e1d5',
    '2d/(1, 1)/int64/float32/nd=None/s4/percentage/dask(1, 1)': 'ba76fdcc5223e1d5',
    '2d/(1, 1)/int64/float32/nd=None/s5/count/numpy': '8389ff230e495efb',
    '2d/(1, 1)/float32/int8/nd=10/s0/percentage/numpy': 'd718073efbcbd782',
    '2d/(1, 1)/float32/int8/nd=10/s1/count/numpy': '2412937c84854076',
    '2d/(1, 1)/float32/int8/nd=10/s2/percentage/numpy': '5353b9dcf9e5a764',
    '2d/(1, 1)/float32/int8/nd=10/s2/percentage/dask(1, 1)': '5353b9dcf9e5a764',
    '2d/(1, 1)/float32/int8/nd=10/s3/count/numpy': '76b4f074ab6686de',
    '2d/(1, 1)/float32/int8/nd=10/s4/percentage/numpy': '4fc6369c89e8e586',
    '2d/(1, 1)/float32/int8/nd=10/s5/count/numpy': '2412937c84854076',
    '2d/(1, 1)/float32/int8/nd=10/s5/count/dask(1, 1)': '2412937c84854076',
    '2d/(1, 1)/float32/int64/nd=None/s0/percentage/numpy': '6ec08c92a893e0ef',
    '2d/(1, 1)/float32/int64/nd=None/s0/percentage/dask(1, 1)': '6ec08c92a893e0ef',
    '2d/(1, 1)/float32/int64/nd=None/s1/count/numpy': '6ec08c92a893e0ef',
    '2d/(1, 1)/float32/int64/nd=None/s2/percentage/numpy': 'ed6e2fecf9870933',
    '2d/(1, 1)/float32/int64/nd=None/s3/count/numpy': '97fb67aa6bc54e2e',
    '2d/(1, 1)/float32/int64/nd=None/s3/count/dask(1, 1)': '97fb67aa6bc54e2e',
    '2d/(1, 1)/float32/int64/nd=None/s4/percentage/numpy': 'ed6e2fecf9870933',
    '2d/(1, 1)/float32/int64/nd=None/s5/count/numpy': '0cadd11f56bde907',
    '2d/(1, 1)/float32/float64/nd=10/s0/percentage/numpy': '77f15fd0d5cf6c2e',
    '2d/(1, 1)/float32/float64/nd=10/s1/count/numpy': '77f15fd0d5cf6c2e',
    '2d/(1, 1)/float32/float64/nd=10/s1/count/dask(1, 1)': '77f15fd0d5cf6c2e',
    '2d/(1, 1)/float32/float64/nd=10/s2/percentage/numpy': '9bd68fb7e2784936',
    '2d/(1, 1)/float32/float64/nd=10/s3/count/numpy': 'd3471f363bb04da7',
    '2d/(1, 1)/float32/float64/nd=10/s4/percentage/numpy': 'e5908d44f493b06a',
    '2d/(1, 1)/float32/float64/nd=10/s4/percentage/dask(1, 1)': 'e5908d44f493b06a',
    '2d/(1, 1)/float32/float64/nd=10/s5/count/numpy': 'bf12cab010ff0f83',
    '2d/(1, 1)/float64/int32/nd=None/s0/percentage/numpy': 'cefc71b76a0fb3cf',
    '2d/(1, 1)/float64/int32/nd=None/s1/count/numpy': '844a3c344408b3db',
    '2d/(1, 1)/float64/int32/nd=None/s2/percentage/numpy': '844a3c344408b3db',
    '2d/(1, 1)/float64/int32/nd=None/s2/percentage/dask(1, 1)': '844a3c344408b3db',
    '2d/(1, 1)/float64/int32/nd=None/s3/count/numpy': '76b4f074ab6686de',
    '2d/(1, 1)/float64/int32/nd=None/s4/percentage/numpy': '880430e674e741f2',
    '2d/(1, 1)/float64/int32/nd=None/s5/count/numpy': '3306b9883387f190',
    '2d/(1, 1)/float64/int32/nd=None/s5/count/dask(1, 1)': '3306b9883387f190',
    '2d/(1, 1)/float64/float32/nd=10/s0/percentage/numpy': '38c8837346af8602',
    '2d/(1, 1)/float64/float32/nd=10/s0/percentage/dask(1, 1)': '38c8837346af8602',
    '2d/(1, 1)/float64/float32/nd=10/s1/count/numpy': '38c8837346af8602',
    '2d/(1, 1)/float64/float32/nd=10/s2/percentage/numpy': '38c8837346af8602',
    '2d/(1, 1)/float64/float32/nd=10/s3/count/numpy': '68eee7f7eddd1f2f',
    '2d/(1, 1)/float64/float32/nd=10/s3/count/dask(1, 1)': '68eee7f7eddd1f2f',
    '2d/(1, 1)/float64/float32/nd=10/s4/percentage/numpy': '38c8837346af8602',
    '2d/(1, 1)/float64/float32/nd=10/s5/count/numpy': '38c8837346af8602',
    '2d/(3, 5)/int32/int32/nd=0/s0/count/numpy': 'fa26ac2286a8d503',
    '2d/(3, 5)/int32/int32/nd=0/s0/count/dask(3, 5)': 'fa26ac2286a8d503',
    '2d/(3, 5)/int32/int32/nd=0/s0/count/dask(1, 3)': 'fa26ac2286a8d503',
    '2d/(3, 5)/int32/int32/nd=0/s0/count/dask(2, 2)': 'fa26ac2286a8d503',
    '2d/(3, 5)/int32/int32/nd=0/s1/percentage/numpy': '2a1216ad0487a60a',
    '2d/(3, 5)/int32/int32/nd=0/s2/count/numpy': '3b16578373b928fa',
    '2d/(3, 5)/int32/int32/nd=0/s3/percentage/numpy': '1a85a8384a7db676',
    '2d/(3, 5)/int32/int32/nd=0/s3/percentage/dask(3, 5)': '1a85a8384a7db676',
    '2d/(3, 5)/int32/int32/nd=0/s3/percentage/dask(1, 3)': '1a85a8384a7db676',
    '2d/(3, 5)/int32/int32/nd=0/s3/percentage/dask(2, 2)': '1a85a8384a7db676',
    '2d/(3, 5)/int32/int32/nd=0/s4/count/numpy': '301f00e4897d4acb',
    '2d/(3, 5)/int32/int32/nd=0/s5/percentage/numpy': 'aa720a2442d9ea88',
    '2d/(3, 5)/int32/float32/nd=20.5/s0/count/numpy': '18d37fe2678b58a7',
    '2d/(3, 5)/int32/float32/nd=20.5/s1/percentage/numpy': '4fc512a18d4a97c7',
    '2d/(3, 5)/int32/float32/nd=20.5/s1/percentage/dask(3, 5)': '4fc512a18d4a97c7',
    '2d/(3, 5)/int32/float32/nd=20.5/s1/percentage/dask(1, 3)': '4fc512a18d4a97c7',
    '2d/(3, 5)/int32/float32/nd=20.5/s1/percentage/dask(2, 2)': '4fc512a18d4a97c7',
    '2d/(3, 5)/int32/float32/nd=20.5/s2/count/numpy': '5dde222371159722',
    '2d/(3, 5)/int32/float32/nd=20.5/s3/percentage/numpy': '935cafa21cb26323',
    '2d/(3, 5)/int32/float32/nd=20.5/s4/count/numpy': '2a840c1212e71d7d',
    '2d/(3, 5)/int32/float32/nd=20.5/s4/count/dask(3, 5)': '2a840c1212e71d7d',
    '2d/(3, 5)/int32/float32/nd=20.5/s4/count/dask(1, 3)': '2a840c1212e71d7d',
    '2d/(3, 5)/int32/float32/nd=20.5/s4/count/dask(2, 2)': '2a840c1212e71d7d',
    '2d/(3, 5)/int32/float32/nd=20.5/s5/percentage/numpy': 'ca15ce8b5bb21040',
    '2d/(3, 5)/int64/int8/nd=0/s0/count/numpy': '67ab1af552e0411c',
    '2d/(3, 5)/int64/int8/nd=0/s1/percentage/numpy': 'd78d8f84ae7438d2',
    '2d/(3, 5)/int64/int8/nd=0/s2/count/numpy': '0fad6a2cbeb78f0a',
    '2d/(3, 5)/int64/int8/nd=0/s2/count/dask(3, 5)': '0fad6a2cbeb78f0a',
    '2d/(3, 5)/int64/int8/nd=0/s2/count/dask(1, 3)': '0fad6a2cbeb78f0a',
    '2d/(3, 5)/int64/int8/nd=0/s2/count/dask(2, 2)': '0fad6a2cbeb78f0a',
    '2d/(3, 5)/int64/int8/nd=0/s3/percentage/numpy': '6e20cd3e72c85d37',
    '2d/(3, 5)/int64/int8/nd=0/s4/count/numpy': 'a452916128c1d3ff',
    '2d/(3, 5)/int64/int8/nd=0/s5/percentage/numpy': '96207ac0e50ac91d',
    '2d/(3, 5)/int64/int8/nd=0/s5/percentage/dask(3, 5)': '96207ac0e50ac91d',
    '2d/(3, 5)/int64/int8/nd=0/s5/percentage/dask(1, 3)': '96207ac0e50ac91d',
    '2d/(3, 5)/int64/int8/nd=0/s5/percentage/dask(2, 2)': '96207ac0e50ac91d',
    '2d/(3, 5)/int64/int64/nd=30/s0/count/numpy': '462b44868939e488',
    '2d/(3, 5)/int64/int64/nd=30/s0/count/dask(3, 5)': '462b44868939e488',
    '2d/(3, 5)/int64/int64/nd=30/s0/count/dask(1, 3)': '462b44868939e488',
    '2d/(3, 5)/int64/int64/nd=30/s0/count/dask(2, 2)': '462b44868939e488',
    '2d/(3, 5)/int64/int64/nd=30/s1/percentage/numpy': 'eea764cebff192cf',
    '2d/(3, 5)/int64/int64/nd=30/s2/count/numpy': '137111d70ec3c7aa',
    '2d/(3, 5)/int64/int64/nd=30/s3/percentage/numpy': 'feaf0476d14456dc',
    '2d/(3, 5)/int64/int64/nd=30/s3/percentage/dask(3, 5)': 'feaf0476d14456dc',
    '2d/(3, 5)/int64/int64/nd=30/s3/percentage/dask(1, 3)': 'feaf0476d14456dc',
    '2d/(3, 5)/int64/int64/nd=30/s3/percentage/dask(2, 2)': 'feaf0476d14456dc',
    '2d/(3, 5)/int64/int64/nd=30/s4/count/numpy': '09c434a51090886a',
    '2d/(3, 5)/int64/int64/nd=30/s5/percentage/numpy': '54ebb36e6f9b643b',
    '2d/(3, 5)/int64/float64/nd=0/s0/count/numpy': '4aece75a48a6e48c',
    '2d/(3, 5)/int64/float64/nd=0/s1/percentage/numpy': '62ea343ed2b13102',
    '2d/(3, 5)/int64/float64/nd=0/s1/percentage/dask(3, 5)': '62ea343ed2b13102',
    '2d/(3, 5)/int64/float64/nd=0/s1/percentage/dask(1, 3)': '62ea343ed2b13102',
    '2d/(3, 5)/int64/float64/nd=0/s1/percentage/dask(2, 2)': '62ea343ed2b13102',
    '2d/(3, 5)/int64/float64/nd=0/s2/count/numpy': '749344e664b8fdd1',
    '2d/(3, 5)/int64/float64/nd=0/s3/percentage/numpy': 'deac206e98be89b6',
    '2d/(3, 5)/int64/float64/nd=0/s4/count/numpy': 'bcc1903153545db0',
    '2d/(3, 5)/int64/float64/nd=0/s4/count/dask(3, 5)': 'bcc1903153545db0',
    '2d/(3, 5)/int64/float64/nd=0/s4/count/dask(1, 3)': 'bcc1903153545db0',
    '2d/(3, 5)/int64/float64/nd=0/s4/count/dask(2, 2)': 'bcc1903153545db0',
    '2d/(3, 5)/int64/float64/nd=0/s5/percentage/numpy': '3e3362085e808e36',
    '2d/(3, 5)/float32/int32/nd=30/s0/count/numpy': '75b854fc1293310d',
    '2d/(3, 5)/float32/int32/nd=30/s1/percentage/numpy': 'eecacd0d91aaed20',
    '2d/(3, 5)/float32/int32/nd=30/s2/count/numpy': '81c79ac04e55e74d',
    '2d/(3, 5)/float32/int32/nd=30/s2/count/dask(3, 5)': '81c79ac04e55e74d',
    '2d/(3, 5)/float32/int32/nd=30/s2/count/dask(1, 3)': '81c79ac04e55e74d',
    '2d/(3, 5)/float32/int32/nd=30/s2/count/dask(2, 2)': '81c79ac04e55e74d',
    '2d/(3, 5)/float32/int32/nd=30/s3/percentage/numpy': 'a1f9875a39725031',
    '2d/(3, 5)/float32/int32/nd=30/s4/count/numpy': 'c1e1c8847bcbdb30',
    '2d/(3, 5)/float32/int32/nd=30/s5/percentage/numpy': 'a748c23f91d88382',
    '2d/(3, 5)/float32/int32/nd=30/s5/percentage/dask(3, 5)': 'a748c23f91d88382',
    '2d/(3, 5)/float32/int32/nd=30/s5/percentage/dask(1, 3)': 'a748c23f91d88382',
    '2d/(3, 5)/float32/int32/nd=30/s5/percentage/dask(2, 2)': 'a748c23f91d88382',
    '2d/(3, 5)/float32/float32/nd=0/s0/count/numpy': '67c69fdcd45aa538',
    '2d/(3, 5)/float32/float32/nd=0/s0/count/dask(3, 5)': '67c69fdcd45aa538',
    '2d/(3, 5)/float32/float32/nd=0/s0/count/dask(1, 3)': '67c69fdcd45aa538',
    '2d/(3, 5)/float32/float32/nd=0/s0/count/dask(2, 2)': '67c69fdcd45aa538',
    '2d/(3, 5)/float32/float32/nd=0/s1/percentage/numpy': 'ab5216d56de385e8',
    '2d/(3, 5)/float32/float32/nd=0/s2/count/numpy': '404a501c8abb6ccd',
    '2d/(3, 5)/float32/float32/nd=0/s3/percentage/numpy': '86ed487cf1e06f29',
    '2d/(3, 5)/float32/float32/nd=0/s3/percentage/dask(3, 5)': '86ed487cf1e06f29',
    '2d/(3, 5)/float32/float32/nd=0/s3/percentage/dask(1, 3)': '86ed487cf1e06f29',
    '2d/(3, 5)/float32/float32/nd=0/s3/percentage/dask(2, 2)': '86ed487cf1e06f29',
    '2d/(3, 5)/float32/float32/nd=0/s4/count/numpy': 'caea1cdc7d1cb0f2',
    '2d/(3, 5)/float32/float32/nd=0/s5/percentage/numpy': '0f3e474ead418b26',
    '2d/(3, 5)/float64/int8/nd=30/s0/count/numpy': '96ee1116967c2d5e',
    '2d/(3, 5)/float64/int8/nd=30/s1/percentage/numpy': '0e3aac5d3a0f7022',
    '2d/(3, 5)/float64/int8/nd=30/s1/percentage/dask(3, 5)': '0e3aac5d3a0f7022',
    '2d/(3, 5)/float64/int8/nd=30/s1/percentage/dask(1, 3)': '0e3aac5d3a0f7022',
    '2d/(3, 5)/float64/int8/nd=30/s1/percentage/dask(2, 2)': '0e3aac5d3a0f7022',
    '2d/(3, 5)/float64/int8/nd=30/s2/count/numpy': 'c79731975576b33c',
    '2d/(3, 5)/float64/int8/nd=30/s3/percentage/numpy': '9465e8fa19fc3611',
    '2d/(3, 5)/float64/int8/nd=30/s4/count/numpy': 'fde4c8a4e040ef76',
    '2d/(3, 5)/float64/int8/nd=30/s4/count/dask(3, 5)': 'fde4c8a4e040ef76',
    '2d/(3, 5)/float64/int8/nd=30/s4/count/dask(1, 3)': 'fde4c8a4e040ef76',
    '2d/(3, 5)/float64/int8/nd=30/s4/count/dask(2, 2)': 'fde4c8a4e040ef76',
    '2d/(3, 5)/float64/int8/nd=30/s5/percentage/numpy': '6ad15a40f8f2f285',
    '2d/(3, 5)/float64/int64/nd=0/s0/count/numpy': '4ce512435a4631b0',
    '2d/(3, 5)/float64/int64/nd=0/s1/percentage/numpy': '5750586d4c07d412',
    '2d/(3, 5)/float64/int64/nd=0/s2/count/numpy': '44257796b9be631e',
    '2d/(3, 5)/float64/int64/nd=0/s2/count/dask(3, 5)': '44257796b9be631e',
    '2d/(3, 5)/float64/int64/nd=0/s2/count/dask(1, 3)': '44257796b9be631e',
    '2d/(3, 5)/float64/int64/nd=0/s2/count/dask(2, 2)': '44257796b9be631e',
    '2d/(3, 5)/float64/int64/nd=0/s3/percentage/numpy': 'a02f593c5638e92e',
    '2d/(3, 5)/float64/int64/nd=0/s4/count/numpy': 'c9a40551120e41d9',
    '2d/(3, 5)/float64/int64/nd=0/s5/percentage/numpy': 'f2443d8c844014cb',
    '2d/(3, 5)/float64/int64/nd=0/s5/percentage/dask(3, 5)': 'f2443d8c844014cb',
    '2d/(3, 5)/float64/int64/nd=0/s5/percentage/dask(1, 3)': 'f2443d8c844014cb',
    '2d/(3, 5)/float64/int64/nd=0/s5/percentage/dask(2, 2)': 'f2443d8c844014cb',
    '2d/(3, 5)/float64/float64/nd=20.5/s0/count/numpy': 'a7efa8d166289eca',
    '2d/(3, 5)/float64/float64/nd=20.5/s0/count/dask(3, 5)': 'a7efa8d166289eca',
    '2d/(3, 5)/float64/float64/nd=20.5/s0/count/dask(1, 3)': 'a7efa8d166289eca',
    '2d/(3, 5)/float64/float64/nd=20.5/s0/count/dask(2, 2)': 'a7efa8d166289eca',
    '2d/(3, 5)/float64/float64/nd=20.5/s1/percentage/numpy': 'dc440e32a72af2a9',
    '2d/(3, 5)/float64/float64/nd=20.5/s2/count/numpy': 'ff99663e6ebd4fa1',
    '2d/(3, 5)/float64/float64/nd=20.5/s3/percentage/numpy': '32480f5d46067583',
    '2d/(3, 5)/float64/float64/nd=20.5/s3/percentage/dask(3, 5)': '32480f5d46067583',
    '2d/(3, 5)/float64/float64/nd=20.5/s3/percentage/dask(1, 3)': '32480f5d46067583',
    '2d/(3, 5)/float64/float64/nd=20.5/s3/percentage/dask(2, 2)': '32480f5d46067583',
    '2d/(3, 5)/float64/float64/nd=20.5/s4/count/numpy': '40eb74808977da7a',
    '2d/(3, 5)/float64/float64/nd=20.5/s5/percentage/numpy': 'bc3e2efcdc0ae01a',
    '2d/(7, 4)/int32/int8/nd=None/s0/percentage/numpy': '64d72994d6a42e20',
    '2d/(7, 4)/int32/int8/nd=None/s1/count/numpy': '732fcc29d7e1dcfe',
    '2d/(7, 4)/int32/int8/nd=None/s2/percentage/numpy': '581d218d35694d7b',
    '2d/(7, 4)/int32/int8/nd=None/s2/percentage/dask(7, 4)': '581d218d35694d7b',
    '2d/(7, 4)/int32/int8/nd=None/s2/percentage/dask(3, 2)': '581d218d35694d7b',
    '2d/(7, 4)/int32/int8/nd=None/s2/percentage/dask(6, 2)': '581d218d35694d7b',
    '2d/(7, 4)/int32/int8/nd=None/s3/count/numpy': '68eee7f7eddd1f2f',
    '2d/(7, 4)/int32/int8/nd=None/s4/percentage/numpy': 'd6fc4b594b65c149',
    '2d/(7, 4)/int32/int8/nd=None/s5/count/numpy': '17051365b27ff29d',
    '2d/(7, 4)/int32/int8/nd=None/s5/count/dask(7, 4)': '17051365b27ff29d',
    '2d/(7, 4)/int32/int8/nd=None/s5/count/dask(3, 2)': '17051365b27ff29d',
    '2d/(7, 4)/int32/int8/nd=None/s5/count/dask(6, 2)': '17051365b27ff29d',
    '2d/(7, 4)/int32/int64/nd=10/s0/percentage/numpy': 'a4c6998a0fa9095e',
    '2d/(7, 4)/int32/int64/nd=10/s0/percentage/dask(7, 4)': 'a4c6998a0fa9095e',
    '2d/(7, 4)/int32/int64/nd=10/s0/percentage/dask(3, 2)': 'a4c6998a0fa9095e',
    '2d/(7, 4)/int32/int64/nd=10/s0/percentage/dask(6, 2)': 'a4c6998a0fa9095e',
    '2d/(7, 4)/int32/int64/nd=10/s1/count/numpy': 'd58c8cd3d6f4c1af',
    '2d/(7, 4)/int32/int64/nd=10/s2/percentage/numpy': '239f5e5f7d1992bb',
    '2d/(7, 4)/int32/int64/nd=10/s3/count/numpy': '68eee7f7eddd1f2f',
    '2d/(7, 4)/int32/int64/nd=10/s3/count/dask(7, 4)': '68eee7f7eddd1f2f',
    '2d/(7, 4)/int32/int64/nd=10/s3/count/dask(3, 2)': '68eee7f7eddd1f2f',
    '2d/(7, 4)/int32/int64/nd=10/s3/count/dask(6, 2)': '68eee7f7eddd1f2f',
    '2d/(7, 4)/int32/int64/nd=10/s4/percentage/numpy': '848229dd97ebcf2b',
    '2d/(7, 4)/int32/int64/nd=10/s5/count/numpy': '4170ade359cefee3',
    '2d/(7, 4)/int32/float64/nd=None/s0/percentage/numpy': 'dd1c3629f59181c1',
    '2d/(7, 4)/int32/float64/nd=None/s1/count/numpy': 'b5695ef1b1e4a864',
    '2d/(7, 4)/int32/float64/nd=None/s1/count/dask(7, 4)': 'b5695ef1b1e4a864',
    '2d/(7, 4)/int32/float64/nd=None/s1/count/dask(3, 2)': 'b5695ef1b1e4a864',
    '2d/(7, 4)/int32/float64/nd=None/s1/count/dask(6, 2)': 'b5695ef1b1e4a864',
    '2d/(7, 4)/int32/float64/nd=None/s2/percentage/numpy': 'a73c150610a8f58e',
    '2d/(7, 4)/int32/float64/nd=None/s3/count/numpy': '22eac361051d07b0',
    '2d/(7, 4)/int32/float64/nd=None/s4/percentage/numpy': 'e447501a3e45c152',
    '2d/(7, 4)/int32/float64/nd=None/s4/percentage/dask(7, 4)': 'e447501a3e45c152',
    '2d/(7, 4)/int32/float64/nd=None/s4/percentage/dask(3, 2)': 'e447501a3e45c152',
    '2d/(7, 4)/int32/float64/nd=None/s4/percentage/dask(6, 2)': 'e447501a3e45c152',
    '2d/(7, 4)/int32/float64/nd=None/s5/count/numpy': 'e93b878b69e7683d',
    '2d/(7, 4)/int64/int32/nd=10/s0/percentage/numpy': 'f6038d5aa236633c',
    '2d/(7, 4)/int64/int32/nd=10/s1/count/numpy': '9f7536f6758c9d31',
    '2d/(7, 4)/int64/int32/nd=10/s2/percentage/numpy': '9ea01554ba150e7d',
    '2d/(7, 4)/int64/int32/nd=10/s2/percentage/dask(7, 4)': '9ea01554ba150e7d',
    '2d/(7, 4)/int64/int32/nd=10/s2/percentage/dask(3, 2)': '9ea01554ba150e7d',
    '2d/(7, 4)/int64/int32/nd=10/s2/percentage/dask(6, 2)': '9ea01554ba150e7d',
    '2d/(7, 4)/int64/int32/nd=10/s3/count/numpy': '8f06e3c97958fda0',
    '2d/(7, 4)/int64/int32/nd=10/s4/percentage/numpy': 'a89fb9655a005665',
    '2d/(7, 4)/int64/int32/nd=10/s5/count/numpy': '9f7536f6758c9d31',
    '2d/(7, 4)/int64/int32/nd=10/s5/count/dask(7, 4)': '9f7536f6758c9d31',
    '2d/(7, 4)/int64/int32/nd=10/s5/count/dask(3, 2)': '9f7536f6758c9d31',
    '2d/(7, 4)/int64/int32/nd=10/s5/count/dask(6, 2)': '9f7536f6758c9d31',
    '2d/(7, 4)/int64/float32/nd=None/s0/percentage/numpy': '6289ffd7d87fe9eb',
    '2d/(7, 4)/int64/float32/nd=None/s0/percentage/dask(7, 4)': '6289ffd7d87fe9eb',
    '2d/(7, 4)/int64/float32/nd=None/s0/percentage/dask(3, 2)': '6289ffd7d87fe9eb',
    '2d/(7, 4)/int64/float32/nd=None/s0/percentage/dask(6, 2)': '6289ffd7d87fe9eb',
    '2d/(7, 4)/int64/float32/nd=None/s1/count/numpy': '87659be2591e2d5c',
    '2d/(7, 4)/int64/float32/nd=None/s2/percentage/numpy': 'bc06eea87e2722a3',
    '2d/(7, 4)/int64/float32/nd=None/s3/count/numpy': 'e22ee396c5621601',
    '2d/(7, 4)/int64/float32/nd=None/s3/count/dask(7, 4)': 'e22ee396c5621601',
    '2d/(7, 4)/int64/float32/nd=None/s3/count/dask(3, 2)': 'e22ee396c5621601',
    '2d/(7, 4)/int64/float32/nd=None/s3/count/dask(6, 2)': 'e22ee396c5621601',
    '2d/(7, 4)/int64/float32/nd=None/s4/percentage/numpy': '4876e904a839d428',
    '2d/(7, 4)/int64/float32/nd=None/s5/count/numpy': '87659be2591e2d5c',
    '2d/(7, 4)/float32/int8/nd=10/s0/percentage/numpy': 'ed72961685664d13',
    '2d/(7, 4)/float32/int8/nd=10/s1/count/numpy': 'bbb9ecdb5a6ed23f',
    '2d/(7, 4)/float32/int8/nd=10/s1/count/dask(7, 4)': 'bbb9ecdb5a6ed23f',
    '2d/(7, 4)/float32/int8/nd=10/s1/count/dask(3, 2)': 'bbb9ecdb5a6ed23f',
    '2d/(7, 4)/float32/int8/nd=10/s1/count/dask(6, 2)': 'bbb9ecdb5a6ed23f',
    '2d/(7, 4)/float32/int8/nd=10/s2/percentage/numpy': '7c1f030cd458b2e3',
    '2d/(7, 4)/float32/int8/nd=10/s3/count/numpy': '76b4f074ab6686de',
    '2d/(7, 4)/float32/int8/nd=10/s4/percentage/numpy': '10751182a1ccd8e9',
    '2d/(7, 4)/float32/int8/nd=10/s4/percentage/dask(7, 4)': '10751182a1ccd8e9',
    '2d/(7, 4)/float32/int8/nd=10/s4/percentage/dask(3, 2)': '10751182a1ccd8e9',
    '2d/(7, 4)/float32/int8/nd=10/s4/percentage/dask(6, 2)': '10751182a1ccd8e9',
    '2d/(7, 4)/float32/int8/nd=10/s5/count/numpy': '7404b4284461be7e',
    '2d/(7, 4)/float32/int64/nd=None/s0/percentage/numpy': '330b3717b08bf0d4',
    '2d/(7, 4)/float32/int64/nd=None/s1/count/numpy': 'bb421a0f2ec26ae6',
    '2d/(7, 4)/float32/int64/nd=None/s2/percentage/numpy': '31588dcfc2f58702',
    '2d/(7, 4)/float32/int64/nd=None/s2/percentage/dask(7, 4)': '31588dcfc2f58702',
    '2d/(7, 4)/float32/int64/nd=None/s2/percentage/dask(3, 2)': '31588dcfc2f58702',
    '2d/(7, 4)/float32/int64/nd=None/s2/percentage/dask(6, 2)': '31588dcfc2f58702',
    '2d/(7, 4)/float32/int64/nd=None/s3/count/numpy': 'bc0cdf36479c5406',
    '2d/(7, 4)/float32/int64/nd=None/s4/percentage/numpy': 'a0a4d1a7d33e060f',
    '2d/(7, 4)/float32/int64/nd=None/s5/count/numpy': '05e8340b4a7e764d',
    '2d/(7, 4)/float32/int64/nd=None/s5/count/dask(7, 4)': '05e8340b4a7e764d',
    '2d/(7, 4)/float32/int64/nd=None/s5/count/dask(3, 2)': '05e8340b4a7e764d',
    '2d/(7, 4)/float32/int64/nd=None/s5/count/dask(6, 2)': '05e8340b4a7e764d',
    '2d/(7, 4)/float32/float64/nd=10/s0/percentage/numpy': '717b64592c6bf30a',
    '2d/(7, 4)/float32/float64/nd=10/s0/percentage/dask(7, 4)': '717b64592c6bf30a',
    '2d/(7, 4)/float32/float64/nd=10/s0/percentage/dask(3, 2)': '717b64592c6bf30a',
    '2d/(7, 4)/float32/float64/nd=10/s0/percentage/dask(6, 2)': '717b64592c6bf30a',
    '2d/(7, 4)/float32/float64/nd=10/s1/count/numpy': '533806a5b9fa25eb',
    '2d/(7, 4)/float32/float64/nd=10/s2/percentage/numpy': 'b2b41813f687e8ca',
    '2d/(7, 4)/float32/float64/nd=10/s3/count/numpy': '68eee7f7eddd1f2f',
    '2d/(7, 4)/float32/float64/nd=10/s3/count/dask(7, 4)': '68eee7f7eddd1f2f',
    '2d/(7, 4)/float32/float64/nd=10/s3/count/dask(3, 2)': '68eee7f7eddd1f2f',
    '2d/(7, 4)/float32/float64/nd=10/s3/count/dask(6, 2)': '68eee7f7eddd1f2f',
    '2d/(7, 4)/float32/float64/nd=10/s4/percentage/numpy': 'b184db3a3fa60f1e',
    '2d/(7, 4)/float32/float64/nd=10/s5/count/numpy': 'd085530a76e57de4',
    '2d/(7, 4)/float64/int32/nd=None/s0/percentage/numpy': '3c390619c26e70db',
    '2d/(7, 4)/float64/int32/nd=None/s1/count/numpy': 'd7876248588f505d',
    '2d/(7, 4)/float64/int32/nd=None/s1/count/dask(7, 4)': 'd7876248588f505d',
    '2d/(7, 4)/float64/int32/nd=None/s1/count/dask(3, 2)': 'd7876248588f505d',
    '2d/(7, 4)/float64/int32/nd=None/s1/count/dask(6, 2)': 'd7876248588f505d',
    '2d/(7, 4)/float64/int32/nd=None/s2/percentage/numpy': 'f884727d3d265873',
    '2d/(7, 4)/float64/int32/nd=None/s3/count/numpy': '6db3c922afd38038',
    '2d/(7, 4)/float64/int32/nd=None/s4/percentage/numpy': '48fa7a2986477051',
    '2d/(7, 4)/float64/int32/nd=None/s4/percentage/dask(7, 4)': '48fa7a2986477051',
    '2d/(7, 4)/float64/int32/nd=None/s4/percentage/dask(3, 2)': '48fa7a2986477051',
    '2d/(7, 4)/float64/int32/nd=None/s4/percentage/dask(6, 2)': '48fa7a2986477051',
    '2d/(7, 4)/float64/int32/nd=None/s5/count/numpy': '47ac16f6c7bd1d67',
    '2d/(7, 4)/float64/float32/nd=10/s0/percentage/numpy': 'ec3ef927bc8c4875',
    '2d/(7, 4)/float64/float32/nd=10/s1/count/numpy': '2d25adaa76d9cf48',
    '2d/(7, 4)/float64/float32/nd=10/s2/percentage/numpy': '6b9f1763d404e941',
    '2d/(7, 4)/float64/float32/nd=10/s2/percentage/dask(7, 4)': '6b9f1763d404e941',
    '2d/(7, 4)/float64/float32/nd=10/s2/percentage/dask(3, 2)': '6b9f1763d404e941',
    '2d/(7, 4)/float64/float32/nd=10/s2/percentage/dask(6, 2)': '6b9f1763d404e941',
    '2d/(7, 4)/float64/float32/nd=10/s3/count/numpy': '8f06e3c97958fda0',
    '2d/(7, 4)/float64/float32/nd=10/s4/percentage/numpy': 'a39b1115e05802bf',
    '2d/(7, 4)/float64/float32/nd=10/s5/count/numpy': '2d25adaa76d9cf48',
    '2d/(7, 4)/float64/float32/nd=10/s5/count/dask(7, 4)': '2d25adaa76d9cf48',
    '2d/(7, 4)/float64/float32/nd=10/s5/count/dask(3, 2)': '2d25adaa76d9cf48',
    '2d/(7, 4)/float64/float32/nd=10/s5/count/dask(6, 2)': '2d25adaa76d9cf48',
    '2d/(1, 9)/int32/int32/nd=0/s0/count/numpy': 'bf21dfa26bdd6c9e',
    '2d/(1, 9)/int32/int32/nd=0/s1/percentage/numpy': 'd4945b1d649e23fe',
    '2d/(1, 9)/int32/int32/nd=0/s2/count/numpy': 'f860286b75550029',
    '2d/(1, 9)/int32/int32/nd=0/s2/count/dask(1, 9)': 'f860286b75550029',
    '2d/(1, 9)/int32/int32/nd=0/s2/count/dask(1, 5)': 'f860286b75550029',
    '2d/(1, 9)/int32/int32/nd=0/s2/count/dask(1, 2)': 'f860286b75550029',
    '2d/(1, 9)/int32/int32/nd=0/s3/percentage/numpy': 'b2e4d5bded661d44',
    '2d/(1, 9)/int32/int32/nd=0/s4/count/numpy': 'c12d2094a883fb3b',
    '2d/(1, 9)/int32/int32/nd=0/s5/percentage/numpy': 'd16ed69596404428',
    '2d/(1, 9)/int32/int32/nd=0/s5/percentage/dask(1, 9)': 'd16ed69596404428',
    '2d/(1, 9)/int32/int32/nd=0/s5/percentage/dask(1, 5)': 'd16ed69596404428',
    '2d/(1, 9)/int32/int32/nd=0/s5/percentage/dask(1, 2)': 'd16ed69596404428',
    '2d/(1, 9)/int32/float32/nd=20.5/s0/count/numpy': 'accd6a496960a485',
    '2d/(1, 9)/int32/float32/nd=20.5/s0/count/dask(1, 9)': 'accd6a496960a485',
    '2d/(1, 9)/int32/float32/nd=20.5/s0/count/dask(1, 5)': 'accd6a496960a485',
    '2d/(1, 9)/int32/float32/nd=20.5/s0/count/dask(1, 2)': 'accd6a496960a485',
    '2d/(1, 9)/int32/float32/nd=20.5/s1/percentage/numpy': 'fa27cb34879fe680',
    '2d/(1, 9)/int32/float32/nd=20.5/s2/count/numpy': '4e708af08ae8268d',
    '2d/(1, 9)/int32/float32/nd=20.5/s3/percentage/numpy': '571c104b3b03cfca',
    '2d/(1, 9)/int32/float32/nd=20.5/s3/percentage/dask(1, 9)': '571c104b3b03cfca',
    '2d/(1, 9)/int32/float32/nd=20.5/s3/percentage/dask(1, 5)': '571c104b3b03cfca',
    '2d/(1, 9)/int32/float32/nd=20.5/s3/percentage/dask(1, 2)': '571c104b3b03cfca',
    '2d/(1, 9)/int32/float32/nd=20.5/s4/count/numpy': 'ade129bd9614cfe1',
    '2d/(1, 9)/int32/float32/nd=20.5/s5/percentage/numpy': 'e424933dc002f7bc',
    '2d/(1, 9)/int64/int8/nd=0/s0/count/numpy': '96f5f4b620682c4b',
    '2d/(1, 9)/int64/int8/nd=0/s1/percentage/numpy': 'dc78601683c60147',
    '2d/(1, 9)/int64/int8/nd=0/s1/percentage/dask(1, 9)': 'dc78601683c60147',
    '2d/(1, 9)/int64/int8/nd=0/s1/percentage/dask(1, 5)': 'dc78601683c60147',
    '2d/(1, 9)/int64/int8/nd=0/s1/percentage/dask(1, 2)': 'dc78601683c60147',
    '2d/(1, 9)/int64/int8/nd=0/s2/count/numpy': '24fed932bba3d990',
    '2d/(1, 9)/int64/int8/nd=0/s3/percentage/numpy': '5ed85070cee1e4de',
    '2d/(1, 9)/int64/int8/nd=0/s4/count/numpy': 'f1d0c3517809c54c',
    '2d/(1, 9)/int64/int8/nd=0/s4/count/dask(1, 9)': 'f1d0c3517809c54c',
    '2d/(1, 9)/int64/int8/nd=0/s4/count/dask(1, 5)': 'f1d0c3517809c54c',
    '2d/(1, 9)/int64/int8/nd=0/s4/count/dask(1, 2)': 'f1d0c3517809c54c',
    '2d/(1, 9)/int64/int8/nd=0/s5/percentage/numpy': '7a1b443e77ba7f9e',
    '2d/(1, 9)/int64/int64/nd=30/s0/count/numpy': '5f92516c75c682c9',
    '2d/(1, 9)/int64/int64/nd=30/s1/percentage/numpy': '833a68ab70942dc4',
    '2d/(1, 9)/int64/int64/nd=30/s2/count/numpy': '54e3a6e55acd345f',
    '2d/(1, 9)/int64/int64/nd=30/s2/count/dask(1, 9)': '54e3a6e55acd345f',
    '2d/(1, 9)/int64/int64/nd=30/s2/count/dask(1, 5)': '54e3a6e55acd345f',
    '2d/(1, 9)/int64/int64/nd=30/s2/count/dask(1, 2)': '54e3a6e55acd345f',
    '2d/(1, 9)/int64/int64/nd=30/s3/percentage/numpy': 'f5e1014c8035a71f',
    '2d/(1, 9)/int64/int64/nd=30/s4/count/numpy': '26afe64fe87e3cb9',
    '2d/(1, 9)/int64/int64/nd=30/s5/percentage/numpy': 'fa038199fa423e14',
    '2d/(1, 9)/int64/int64/nd=30/s5/percentage/dask(1, 9)': 'fa038199fa423e14',
    '2d/(1, 9)/int64/int64/nd=30/s5/percentage/dask(1, 5)': 'fa038199fa423e14',
    '2d/(1, 9)/int64/int64/nd=30/s5/percentage/dask(1, 2)': 'fa038199fa423e14',
    '2d/(1, 9)/int64/float64/nd=0/s0/count/numpy': 'e0ba4636f9be0174',
    '2d/(1, 9)/int64/float64/nd=0/s0/count/dask(1, 9)': 'e0ba4636f9be0174',
    '2d/(1, 9)/int64/float64/nd=0/s0/count/dask(1, 5)': 'e0ba4636f9be0174',
    '2d/(1, 9)/int64/float64/nd=0/s0/count/dask(1, 2)': 'e0ba4636f9be0174',
    '2d/(1, 9)/int64/float64/nd=0/s1/percentage/numpy': '7c11a9f2094220e7',
    '2d/(1, 9)/int64/float64/nd=0/s2/count/numpy': '32ce084607aa1157',
    '2d/(1, 9)/int64/float64/nd=0/s3/percentage/numpy': '0a05517dec0a164a',
    '2d/(1, 9)/int64/float64/nd=0/s3/percentage/dask(1, 9)': '0a05517dec0a164a',
    '2d/(1, 9)/int64/float64/nd=0/s3/percentage/dask(1, 5)': '0a05517dec0a164a',
    '2d/(1, 9)/int64/float64/nd=0/s3/percentage/dask(1, 2)': '0a05517dec0a164a',
    '2d/(1, 9)/int64/float64/nd=0/s4/count/numpy': '0c266bc34305b391',
    '2d/(1, 9)/int64/float64/nd=0/s5/percentage/numpy': '16937c4bf5d56465',
    '2d/(1, 9)/float32/int32/nd=30/s0/count/numpy': 'dda59a15cf966fa5',
    '2d/(1, 9)/float32/int32/nd=30/s1/percentage/numpy': 'c27f23bbe2f1b0b5',
    '2d/(1, 9)/float32/int32/nd=30/s1/percentage/dask(1, 9)': 'c27f23bbe2f1b0b5',
    '2d/(1, 9)/float32/int32/nd=30/s1/percentage/dask(1, 5)': 'c27f23bbe2f1b0b5',
    '2d/(1, 9)/float32/int32/nd=30/s1/percentage/dask(1, 2)': 'c27f23bbe2f1b0b5',
    '2d/(1, 9)/float32/int32/nd=30/s2/count/numpy': '7dfa10cd853d29c9',
    '2d/(1, 9)/float32/int32/nd=30/s3/percentage/numpy': '5da76b9c348d235d',
    '2d/(1, 9)/float32/int32/nd=30/s4/count/numpy': '62ac4ddbc360c0bb',
    '2d/(1, 9)/float32/int32/nd=30/s4/count/dask(1, 9)': '62ac4ddbc360c0bb',
    '2d/(1, 9)/float32/int32/nd=30/s4/count/dask(1, 5)': '62ac4ddbc360c0bb',
    '2d/(1, 9)/float32/int32/nd=30/s4/count/dask(1, 2)': '62ac4ddbc360c0bb',
    '2d/(1, 9)/float32/int32/nd=30/s5/percentage/numpy': '252e36985fcbea00',
    '2d/(1, 9)/float32/float32/nd=0/s0/count/numpy': '97a8e95e13490302',
    '2d/(1, 9)/float32/float32/nd=0/s1/percentage/numpy': 'f11191086cb77c8d',
    '2d/(1, 9)/float32/float32/nd=0/s2/count/numpy': '41a667e2c5bea855',
    '2d/(1, 9)/float32/float32/nd=0/s2/count/dask(1, 9)': '41a667e2c5bea855',
    '2d/(1, 9)/float32/float32/nd=0/s2/count/dask(1, 5)': '41a667e2c5bea855',
    '2d/(1, 9)/float32/float32/nd=0/s2/count/dask(1, 2)': '41a667e2c5bea855',
    '2d/(1, 9)/float32/float32/nd=0/s3/percentage/numpy': '48acd5da84a86007',
    '2d/(1, 9)/float32/float32/nd=0/s4/count/numpy': 'e7f318ae2d31ab35',
    '2d/(1, 9)/float32/float32/nd=0/s5/percentage/numpy': '6a8eebadf23fa715',
    '2d/(1, 9)/float32/float32/nd=0/s5/percentage/dask(1, 9)': '6a8eebadf23fa715',
    '2d/(1, 9)/float32/float32/nd=0/s5/percentage/dask(1, 5)': '6a8eebadf23fa715',
    '2d/(1, 9)/float32/float32/nd=0/s5/percentage/dask(1, 2)': '6a8eebadf23fa715',
    '2d/(1, 9)/float64/int8/nd=30/s0/count/numpy': '4790d617245cccef',
    '2d/(1, 9)/float64/int8/nd=30/s0/count/dask(1, 9)': '4790d617245cccef',
    '2d/(1, 9)/float64/int8/nd=30/s0/count/dask(1, 5)': '4790d617245cccef',
    '2d/(1, 9)/float64/int8/nd=30/s0/count/dask(1, 2)': '4790d617245cccef',
    '2d/(1, 9)/float64/int8/nd=30/s1/percentage/numpy': '9531e8cd3126c77e',
    '2d/(1, 9)/float64/int8/nd=30/s2/count/numpy': '1ba699cacde7e8e0',
    '2d/(1, 9)/float64/int8/nd=30/s3/percentage/numpy': 'df88c34c31ad9d94',
    '2d/(1, 9)/float64/int8/nd=30/s3/percentage/dask(1, 9)': 'df88c34c31ad9d94',
    '2d/(1, 9)/float64/int8/nd=30/s3/percentage/dask(1, 5)': 'df88c34c31ad9d94',
    '2d/(1, 9)/float64/int8/nd=30/s3/percentage/dask(1, 2)': 'df88c34c31ad9d94',
    '2d/(1, 9)/float64/int8/nd=30/s4/count/numpy': '9633ec3277b5614c',
    '2d/(1, 9)/float64/int8/nd=30/s5/percentage/numpy': '08ef81d76e46043a',
    '2d/(1, 9)/float64/int64/nd=0/s0/count/numpy': 'c3ff3b5ca36d4b2b',
    '2d/(1, 9)/float64/int64/nd=0/s1/percentage/numpy': '66e2ef2c91996363',
    '2d/(1, 9)/float64/int64/nd=0/s1/percentage/dask(1, 9)': '66e2ef2c91996363',
    '2d/(1, 9)/float64/int64/nd=0/s1/percentage/dask(1, 5)': '66e2ef2c91996363',
    '2d/(1, 9)/float64/int64/nd=0/s1/percentage/dask(1, 2)': '66e2ef2c91996363',
    '2d/(1, 9)/float64/int64/nd=0/s2/count/numpy': 'b93b4053b1bcb02a',
    '2d/(1, 9)/float64/int64/nd=0/s3/percentage/numpy': 'd3471f363bb04da7',
    '2d/(1, 9)/float64/int64/nd=0/s4/count/numpy': '77bd0d65c0ae6d78',
    '2d/(1, 9)/float64/int64/nd=0/s4/count/dask(1, 9)': '77bd0d65c0ae6d78',
    '2d/(1, 9)/float64/int64/nd=0/s4/count/dask(1, 5)': '77bd0d65c0ae6d78',
    '2d/(1, 9)/float64/int64/nd=0/s4/count/dask(1, 2)': '77bd0d65c0ae6d78',
    '2d/(1, 9)/float64/int64/nd=0/s5/percentage/numpy': '4f4b2c9845fe0ca6',
    '2d/(1, 9)/float64/float64/nd=20.5/s0/count/numpy': 'bd3903d3f7294962',
    '2d/(1, 9)/float64/float64/nd=20.5/s1/percentage/numpy': 'ec058818e11a3c27',
    '2d/(1, 9)/float64/float64/nd=20.5/s2/count/numpy': '0005c4284b93e0f8',
    '2d/(1, 9)/float64/float64/nd=20.5/s2/count/dask(1, 9)': '0005c4284b93e0f8',
    '2d/(1, 9)/float64/float64/nd=20.5/s2/count/dask(1, 5)': '0005c4284b93e0f8',
    '2d/(1, 9)/float64/float64/nd=20.5/s2/count/dask(1, 2)': '0005c4284b93e0f8',
    '2d/(1, 9)/float64/float64/nd=20.5/s3/percentage/numpy': '175cc0569fc36bff',
    '2d/(1, 9)/float64/float64/nd=20.5/s4/count/numpy': 'ee299ad797beed9d',
    '2d/(1, 9)/float64/float64/nd=20.5/s5/percentage/numpy': '7e01e3c51dd99865',
    '2d/(1, 9)/float64/float64/nd=20.5/s5/percentage/dask(1, 9)': '7e01e3c51dd99865',
    '2d/(1, 9)/float64/float64/nd=20.5/s5/percentage/dask(1, 5)': '7e01e3c51dd99865',
    '2d/(1, 9)/float64/float64/nd=20.5/s5/percentage/dask(1, 2)': '7e01e3c51dd99865',
    '2d/(6, 6)/int32/int8/nd=None/s0/percentage/numpy': 'ee18e6df52b8a942',
    '2d/(6, 6)/int32/int8/nd=None/s1/count/numpy': '783b23c3d5fec8d2',
    '2d/(6, 6)/int32/int8/nd=None/s1/count/dask(6, 6)': '783b23c3d5fec8d2',
    '2d/(6, 6)/int32/int8/nd=None/s1/count/dask(3, 3)': '783b23c3d5fec8d2',
    '2d/(6, 6)/int32/int8/nd=None/s1/count/dask(5, 2)': '783b23c3d5fec8d2',
    '2d/(6, 6)/int32/int8/nd=None/s2/percentage/numpy': '2b6825d48c565736',
    '2d/(6, 6)/int32/int8/nd=None/s3/count/numpy': '68eee7f7eddd1f2f',
    '2d/(6, 6)/int32/int8/nd=None/s4/percentage/numpy': '032c86e3f4797ef4',
    '2d/(6, 6)/int32/int8/nd=None/s4/percentage/dask(6, 6)': '032c86e3f4797ef4',
    '2d/(6, 6)/int32/int8/nd=None/s4/percentage/dask(3, 3)': '032c86e3f4797ef4',
    '2d/(6, 6)/int32/int8/nd=None/s4/percentage/dask(5, 2)': '032c86e3f4797ef4',
    '2d/(6, 6)/int32/int8/nd=None/s5/count/numpy': 'a43b399d5f18a798',
    '2d/(6, 6)/int32/int32/nd=0/s0/count/numpy': '8d2335e0a22ff84d',
    '2d/(6, 6)/int32/int32/nd=0/s0/count/dask(6, 6)': '8d2335e0a22ff84d',
    '2d/(6, 6)/int32/int32/nd=0/s0/count/dask(3, 3)': '8d2335e0a22ff84d',
    '2d/(6, 6)/int32/int32/nd=0/s0/count/dask(5, 2)': '8d2335e0a22ff84d',
    '2d/(6, 6)/int32/int32/nd=0/s1/percentage/numpy': 'db37ca753e26b8e8',
    '2d/(6, 6)/int32/int32/nd=0/s2/count/numpy': 'f9a7c788c3034d4c',
    '2d/(6, 6)/int32/int32/nd=0/s3/percentage/numpy': '1a85a8384a7db676',
    '2d/(6, 6)/int32/int32/nd=0/s3/percentage/dask(6, 6)': '1a85a8384a7db676',
    '2d/(6, 6)/int32/int32/nd=0/s3/percentage/dask(3, 3)': '1a85a8384a7db676',
    '2d/(6, 6)/int32/int32/nd=0/s3/percentage/dask(5, 2)': '1a85a8384a7db676',
    '2d/(6, 6)/int32/int32/nd=0/s4/count/numpy': '7020c8c360560b97',
    '2d/(6, 6)/int32/int32/nd=0/s5/percentage/numpy': '2e6aaa98576ac35b',
    '2d/(6, 6)/int32/int64/nd=10/s0/percentage/numpy': 'e997e2575cc25a20',
    '2d/(6, 6)/int32/int64/nd=10/s1/count/numpy': 'b84c13c0aca28ed6',
    '2d/(6, 6)/int32/int64/nd=10/s2/percentage/numpy': '2291c17511466556',
    '2d/(6, 6)/int32/int64/nd=10/s2/percentage/dask(6, 6)': '2291c17511466556',
    '2d/(6, 6)/int32/int64/nd=10/s2/percentage/dask(3, 3)': '2291c17511466556',
    '2d/(6, 6)/int32/int64/nd=10/s2/percentage/dask(5, 2)': '2291c17511466556',
    '2d/(6, 6)/int32/int64/nd=10/s3/count/numpy': '8f06e3c97958fda0',
    '2d/(6, 6)/int32/int64/nd=10/s4/percentage/numpy': 'd0d687dde902b68e',
    '2d/(6, 6)/int32/int64/nd=10/s5/count/numpy': 'b84c13c0aca28ed6',
    '2d/(6, 6)/int32/int64/nd=10/s5/count/dask(6, 6)': 'b84c13c0aca28ed6',
    '2d/(6, 6)/int32/int64/nd=10/s5/count/dask(3, 3)': 'b84c13c0aca28ed6',
    '2d/(6, 6)/int32/int64/nd=10/s5/count/dask(5, 2)': 'b84c13c0aca28ed6',
    '2d/(6, 6)/int32/float32/nd=20.5/s0/count/numpy': '6f15edf6700b4bb4',
    '2d/(6, 6)/int32/float32/nd=20.5/s1/percentage/numpy': '17bffb44ea2dd561',
    '2d/(6, 6)/int32/float32/nd=20.5/s1/percentage/dask(6, 6)': '17bffb44ea2dd561',
    '2d/(6, 6)/int32/float32/nd=20.5/s1/percentage/dask(3, 3)': '17bffb44ea2dd561',
    '2d/(6, 6)/int32/float32/nd=20.5/s1/percentage/dask(5, 2)': '17bffb44ea2dd561',
    '2d/(6, 6)/int32/float32/nd=20.5/s2/count/numpy': '5eb70d1cad18f4c0',
    '2d/(6, 6)/int32/float32/nd=20.5/s3/percentage/numpy': 'ded364f515866df1',
    '2d/(6, 6)/int32/float32/nd=20.5/s4/count/numpy': 'e447501a3e45c152',
    '2d/(6, 6)/int32/float32/nd=20.5/s4/count/dask(6, 6)': 'e447501a3e45c152',
    '2d/(6, 6)/int32/float32/nd=20.5/s4/count/dask(3, 3)': 'e447501a3e45c152',
    '2d/(6, 6)/int32/float32/nd=20.5/s4/count/dask(5, 2)': 'e447501a3e45c152',
    '2d/(6, 6)/int32/float32/nd=20.5/s5/percentage/numpy': 'c2aeca02241bc7a1',
    '2d/(6, 6)/int32/float64/nd=None/s0/percentage/numpy': '79844d32321e3d82',
    '2d/(6, 6)/int32/float64/nd=None/s0/percentage/dask(6, 6)': '79844d32321e3d82',
    '2d/(6, 6)/int32/float64/nd=None/s0/percentage/dask(3, 3)': '79844d32321e3d82',
    '2d/(6, 6)/int32/float64/nd=None/s0/percentage/dask(5, 2)': '79844d32321e3d82',
    '2d/(6, 6)/int32/float64/nd=None/s1/count/numpy': 'b72cd09d1f9ea26c',
    '2d/(6, 6)/int32/float64/nd=None/s2/percentage/numpy': '489ed18e67ea50e6',
    '2d/(6, 6)/int32/float64/nd=None/s3/count/numpy': '22eac361051d07b0',
    '2d/(6, 6)/int32/float64/nd=None/s3/count/dask(6, 6)': '22eac361051d07b0',
    '2d/(6, 6)/int32/float64/nd=None/s3/count/dask(3, 3)': '22eac361051d07b0',
    '2d/(6, 6)/int32/float64/nd=None/s3/count/dask(5, 2)': '22eac361051d07b0',
    '2d/(6, 6)/int32/float64/nd=None/s4/percentage/numpy': '8d2335e0a22ff84d',
    '2d/(6, 6)/int32/float64/nd=None/s5/count/numpy': '00c2701a13544fc8',
    '2d/(6, 6)/int64/int8/nd=0/s0/count/numpy': 'b5c25dac3c17d905',
    '2d/(6, 6)/int64/int8/nd=0/s1/percentage/numpy': '9bbebacf152e6886',
    '2d/(6, 6)/int64/int8/nd=0/s2/count/numpy': 'c3703d9c4a2fa8bd',
    '2d/(6, 6)/int64/int8/nd=0/s2/count/dask(6, 6)': 'c3703d9c4a2fa8bd',
    '2d/(6, 6)/int64/int8/nd=0/s2/count/dask(3, 3)': 'c3703d9c4a2fa8bd',
    '2d/(6, 6)/int64/int8/nd=0/s2/count/dask(5, 2)': 'c3703d9c4a2fa8bd',
    '2d/(6, 6)/int64/int8/nd=0/s3/percentage/numpy': 'a02f593c5638e92e',
    '2d/(6, 6)/int64/int8/nd=0/s4/count/numpy': '1f8356501fe92d50',
    '2d/(6, 6)/int64/int8/nd=0/s5/percentage/numpy': '3e156f4010dfb213',
    '2d/(6, 6)/int64/int8/nd=0/s5/percentage/dask(6, 6)': '3e156f4010dfb213',
    '2d/(6, 6)/int64/int8/nd=0/s5/percentage/dask(3, 3)': '3e156f4010dfb213',
    '2d/(6, 6)/int64/int8/nd=0/s5/percentage/dask(5, 2)': '3e156f4010dfb213',
    '2d/(6, 6)/int64/int32/nd=10/s0/percentage/numpy': '20420981be9f7503',
    '2d/(6, 6)/int64/int32/nd=10/s1/count/numpy': 'bcc1903153545db0',
    '2d/(6, 6)/int64/int32/nd=10/s1/count/dask(6, 6)': 'bcc1903153545db0',
    '2d/(6, 6)/int64/int32/nd=10/s1/count/dask(3, 3)': 'bcc1903153545db0',
    '2d/(6, 6)/int64/int32/nd=10/s1/count/dask(5, 2)': 'bcc1903153545db0',
    '2d/(6, 6)/int64/int32/nd=10/s2/percentage/numpy': 'bc525e61ee3e78ae',
    '2d/(6, 6)/int64/int32/nd=10/s3/count/numpy': '76b4f074ab6686de',
    '2d/(6, 6)/int64/int32/nd=10/s4/percentage/numpy': '36c3bb34f8b23c38',
    '2d/(6, 6)/int64/int32/nd=10/s4/percentage/dask(6, 6)': '36c3bb34f8b23c38',
    '2d/(6, 6)/int64/int32/nd=10/s4/percentage/dask(3, 3)': '36c3bb34f8b23c38',
    '2d/(6, 6)/int64/int32/nd=10/s4/percentage/dask(5, 2)': '36c3bb34f8b23c38',
    '2d/(6, 6)/int64/int32/nd=10/s5/count/numpy': '7624ed09f38b6bd4',
    '2d/(6, 6)/int64/int64/nd=30/s0/count/numpy': '6289ffd7d87fe9eb',
    '2d/(6, 6)/int64/int64/nd=30/s0/count/dask(6, 6)': '6289ffd7d87fe9eb',
    '2d/(6, 6)/int64/int64/nd=30/s0/count/dask(3, 3)': '6289ffd7d87fe9eb',
    '2d/(6, 6)/int64/int64/nd=30/s0/count/dask(5, 2)': '6289ffd7d87fe9eb',
    '2d/(6, 6)/int64/int64/nd=30/s1/percentage/numpy': '5378b79b6489c0a7',
    '2d/(6, 6)/int64/int64/nd=30/s2/count/numpy': '870e7fb71892ad19',
    '2d/(6, 6)/int64/int64/nd=30/s3/percentage/numpy': 'feaf0476d14456dc',
    '2d/(6, 6)/int64/int64/nd=30/s3/percentage/dask(6, 6)': 'feaf0476d14456dc',
    '2d/(6, 6)/int64/int64/nd=30/s3/percentage/dask(3, 3)': 'feaf0476d14456dc',
    '2d/(6, 6)/int64/int64/nd=30/s3/percentage/dask(5, 2)': 'feaf0476d14456dc',
    '2d/(6, 6)/int64/int64/nd=30/s4/count/numpy': '4238891ebe76d838',
    '2d/(6, 6)/int64/int64/nd=30/s5/percentage/numpy': '0209aa2ceb28efee',
    '2d/(6, 6)/int64/float32/nd=None/s0/percentage/numpy': '824a5be892ca39b3',
    '2d/(6, 6)/int64/float32/nd=None/s1/count/numpy': '71178399e80cff2e',
    '2d/(6, 6)/int64/float32/nd=None/s2/percentage/numpy': '4daee5b2faa021fa',
    '2d/(6, 6)/int64/float32/nd=None/s2/percentage/dask(6, 6)': '4daee5b2faa021fa',
    '2d/(6, 6)/int64/float32/nd=None/s2/percentage/dask(3, 3)': '4daee5b2faa021fa',
    '2d/(6, 6)/int64/float32/nd=None/s2/percentage/dask(5, 2)': '4daee5b2faa021fa',
    '2d/(6, 6)/int64/float32/nd=None/s3/count/numpy': 'e22ee396c5621601',
    '2d/(6, 6)/int64/float32/nd=None/s4/percentage/numpy': '7eed24eda8a7b723',
    '2d/(6, 6)/int64/float32/nd=None/s5/count/numpy': '71178399e80cff2e',
    '2d/(6, 6)/int64/float32/nd=None/s5/count/dask(6, 6)': '71178399e80cff2e',
    '2d/(6, 6)/int64/float32/nd=None/s5/count/dask(3, 3)': '71178399e80cff2e',
    '2d/(6, 6)/int64/float32/nd=None/s5/count/dask(5, 2)': '71178399e80cff2e',
    '2d/(6, 6)/int64/float64/nd=0/s0/count/numpy': 'befb7ec28ee0b6f5',
    '2d/(6, 6)/int64/float64/nd=0/s1/percentage/numpy': '0e0396066103a011',
    '2d/(6, 6)/int64/float64/nd=0/s1/percentage/dask(6, 6)': '0e0396066103a011',
    '2d/(6, 6)/int64/float64/nd=0/s1/percentage/dask(3, 3)': '0e0396066103a011',
    '2d/(6, 6)/int64/float64/nd=0/s1/percentage/dask(5, 2)': '0e0396066103a011',
    '2d/(6, 6)/int64/float64/nd=0/s2/count/numpy': '5a728ff243ca28ce',
    '2d/(6, 6)/int64/float64/nd=0/s3/percentage/numpy': 'ded364f515866df1',
    '2d/(6, 6)/int64/float64/nd=0/s4/count/numpy': 'bcc1903153545db0',
    '2d/(6, 6)/int64/float64/nd=0/s4/count/dask(6, 6)': 'bcc1903153545db0',
    '2d/(6, 6)/int64/float64/nd=0/s4/count/dask(3, 3)': 'bcc1903153545db0',
    '2d/(6, 6)/int64/float64/nd=0/s4/count/dask(5, 2)': 'bcc1903153545db0',
    '2d/(6, 6)/int64/float64/nd=0/s5/percentage/numpy': 'd440259aa2aaa730',
    '2d/(6, 6)/float32/int8/nd=10/s0/percentage/numpy': '063b8dbaa7a3aa34',
    '2d/(6, 6)/float32/int8/nd=10/s0/percentage/dask(6, 6)': '063b8dbaa7a3aa34',
    '2d/(6, 6)/float32/int8/nd=10/s0/percentage/dask(3, 3)': '063b8dbaa7a3aa34',
    '2d/(6, 6)/float32/int8/nd=10/s0/percentage/dask(5, 2)': '063b8dbaa7a3aa34',
    '2d/(6, 6)/float32/int8/nd=10/s1/count/numpy': '458580272e0da90d',
    '2d/(6, 6)/float32/int8/nd=10/s2/percentage/numpy': '68b08aca920bc8a0',
    '2d/(6, 6)/float32/int8/nd=10/s3/count/numpy': '68eee7f7eddd1f2f',
    '2d/(6, 6)/float32/int8/nd=10/s3/count/dask(6, 6)': '68eee7f7eddd1f2f',
    '2d/(6, 6)/float32/int8/nd=10/s3/count/dask(3, 3)': '68eee7f7eddd1f2f',
    '2d/(6, 6)/float32/int8/nd=10/s3/count/dask(5, 2)': '68eee7f7eddd1f2f',
    '2d/(6, 6)/float32/int8/nd=10/s4/percentage/numpy': '1f088ec554cd5748',
    '2d/(6, 6)/float32/int8/nd=10/s5/count/numpy': '725ab3b68e2bce3d',
    '2d/(6, 6)/float32/int32/nd=30/s0/count/numpy': 'ebfa7bd5ba0c9fe7',
    '2d/(6, 6)/float32/int32/nd=30/s1/percentage/numpy': '3365110dfdde3e21',
    '2d/(6, 6)/float32/int32/nd=30/s2/count/numpy': '05b7faa5150229c8',
    '2d/(6, 6)/float32/int32/nd=30/s2/count/dask(6, 6)': '05b7faa5150229c8',
    '2d/(6, 6)/float32/int32/nd=30/s2/count/dask(3, 3)': '05b7faa5150229c8',
    '2d/(6, 6)/float32/int32/nd=30/s2/count/dask(5, 2)': '05b7faa5150229c8',
    '2d/(6, 6)/float32/int32/nd=30/s3/percentage/numpy': 'a1f9875a39725031',
    '2d/(6, 6)/float32/int32/nd=30/s4/count/numpy': 'dd2baf785c54b63a',
    '2d/(6, 6)/float32/int32/nd=30/s5/percentage/numpy': '7707a250d6066cb0',
    '2d/(6, 6)/float32/int32/nd=30/s5/percentage/dask(6, 6)': '7707a250d6066cb0',
    '2d/(6, 6)/float32/int32/nd=30/s5/percentage/dask(3, 3)': '7707a250d6066cb0',
    '2d/(6, 6)/float32/int32/nd=30/s5/percentage/dask(5, 2)': '7707a250d6066cb0',
    '2d/(6, 6)/float32/int64/nd=None/s0/percentage/numpy': '0da700b3f3b1eae3',
    '2d/(6, 6)/float32/int64/nd=None/s1/count/numpy': 'bbb9ecdb5a6ed23f',
    '2d/(6, 6)/float32/int64/nd=None/s1/count/dask(6, 6)': 'bbb9ecdb5a6ed23f',
    '2d/(6, 6)/float32/int64/nd=None/s1/count/dask(3, 3)': 'bbb9ecdb5a6ed23f',
    '2d/(6, 6)/float32/int64/nd=None/s1/count/dask(5, 2)': 'bbb9ecdb5a6ed23f',
    '2d/(6, 6)/float32/int64/nd=None/s2/percentage/numpy': '71a8eeb15074325d',
    '2d/(6, 6)/float32/int64/nd=None/s3/count/numpy': 'bc0cdf36479c5406',
    '2d/(6, 6)/float32/int64/nd=None/s4/percentage/numpy': '54ac407d8a4df785',
    '2d/(6, 6)/float32/int64/nd=None/s4/percentage/dask(6, 6)': '54ac407d8a4df785',
    '2d/(6, 6)/float32/int64/nd=None/s4/percentage/dask(3, 3)': '54ac407d8a4df785',
    '2d/(6, 6)/float32/int64/nd=None/s4/percentage/dask(5, 2)': '54ac407d8a4df785',
    '2d/(6, 6)/float32/int64/nd=None/s5/count/numpy': '8078f8b998c42759',
    '2d/(6, 6)/float32/float32/nd=0/s0/count/numpy': '8253364577369b6e',
    '2d/(6, 6)/float32/float32/nd=0/s0/count/dask(6, 6)': '8253364577369b6e',
    '2d/(6, 6)/float32/float32/nd=0/s0/count/dask(3, 3)': '8253364577369b6e',
    '2d/(6, 6)/float32/float32/nd=0/s0/count/dask(5, 2)': '8253364577369b6e',
    '2d/(6, 6)/float32/float32/nd=0/s1/percentage/numpy': 'd470c2d75e37ee96',
    '2d/(6, 6)/float32/float32/nd=0/s2/count/numpy': '85c11359ef23e674',
    '2d/(6, 6)/float32/float32/nd=0/s3/percentage/numpy': '580556d5517b7232',
    '2d/(6, 6)/float32/float32/nd=0/s3/percentage/dask(6, 6)': '580556d5517b7232',
    '2d/(6, 6)/float32/float32/nd=0/s3/percentage/dask(3, 3)': '580556d5517b7232',
    '2d/(6, 6)/float32/float32/nd=0/s3/percentage/dask(5, 2)': '580556d5517b7232',
    '2d/(6, 6)/float32/float32/nd=0/s4/count/numpy': 'aa022a9ef08d7381',
    '2d/(6, 6)/float32/float32/nd=0/s5/percentage/numpy': 'e9dda51758e94f55',
    '2d/(6, 6)/float32/float64/nd=10/s0/percentage/numpy': 'c441519f8e61dbff',
    '2d/(6, 6)/float32/float64/nd=10/s1/count/numpy': '2d1e9ae54e1ec853',
    '2d/(6, 6)/float32/float64/nd=10/s2/percentage/numpy': '1f9ebaeaefd097e5',
    '2d/(6, 6)/float32/float64/nd=10/s2/percentage/dask(6, 6)': '1f9ebaeaefd097e5',
    '2d/(6, 6)/float32/float64/nd=10/s2/percentage/dask(3, 3)': '1f9ebaeaefd097e5',
    '2d/(6, 6)/float32/float64/nd=10/s2/percentage/dask(5, 2)': '1f9ebaeaefd097e5',
    '2d/(6, 6)/float32/float64/nd=10/s3/count/numpy': '8f06e3c97958fda0',
    '2d/(6, 6)/float32/float64/nd=10/s4/percentage/numpy': '763777712d69d78e',
    '2d/(6, 6)/float32/float64/nd=10/s5/count/numpy': '2d1e9ae54e1ec853',
    '2d/(6, 6)/float32/float64/nd=10/s5/count/dask(6, 6)': '2d1e9ae54e1ec853',
    '2d/(6, 6)/float32/float64/nd=10/s5/count/dask(3, 3)': '2d1e9ae54e1ec853',
    '2d/(6, 6)/float32/float64/nd=10/s5/count/dask(5, 2)': '2d1e9ae54e1ec853',
    '2d/(6, 6)/float64/int8/nd=30/s0/count/numpy': 'e5a876042ddcd870',
    '2d/(6, 6)/float64/int8/nd=30/s1/percentage/numpy': 'bd4526dff59f4dfb',
    '2d/(6, 6)/float64/int8/nd=30/s1/percentage/dask(6, 6)': 'bd4526dff59f4dfb',
    '2d/(6, 6)/float64/int8/nd=30/s1/percentage/dask(3, 3)': 'bd4526dff59f4dfb',
    '2d/(6, 6)/float64/int8/nd=30/s1/percentage/dask(5, 2)': 'bd4526dff59f4dfb',
    '2d/(6, 6)/float64/int8/nd=30/s2/count/numpy': '1b339762cfc25fa7',
    '2d/(6, 6)/float64/int8/nd=30/s3/percentage/numpy': '9465e8fa19fc3611',
    '2d/(6, 6)/float64/int8/nd=30/s4/count/numpy': '7a438aea3cbe68c7',
    '2d/(6, 6)/float64/int8/nd=30/s4/count/dask(6, 6)': '7a438aea3cbe68c7',
    '2d/(6, 6)/float64/int8/nd=30/s4/count/dask(3, 3)': '7a438aea3cbe68c7',
    '2d/(6, 6)/float64/int8/nd=30/s4/count/dask(5, 2)': '7a438aea3cbe68c7',
    '2d/(6, 6)/float64/int8/nd=30/s5/percentage/numpy': 'c13f4896322892a5',
    '2d/(6, 6)/float64/int32/nd=None/s0/percentage/numpy': 'bbeb02ee9d147f32',
    '2d/(6, 6)/float64/int32/nd=None/s0/percentage/dask(6, 6)': 'bbeb02ee9d147f32',
    '2d/(6, 6)/float64/int32/nd=None/s0/percentage/dask(3, 3)': 'bbeb02ee9d147f32',
    '2d/(6, 6)/float64/int32/nd=None/s0/percentage/dask(5, 2)': 'bbeb02ee9d147f32',
    '2d/(6, 6)/float64/int32/nd=None/s1/count/numpy': '70d9898a67f436a4',
    '2d/(6, 6)/float64/int32/nd=None/s2/percentage/numpy': '39237248b0ce7582',
    '2d/(6, 6)/float64/int32/nd=None/s3/count/numpy': '6db3c922afd38038',
    '2d/(6, 6)/float64/int32/nd=None/s3/count/dask(6, 6)': '6db3c922afd38038',
    '2d/(6, 6)/float64/int32/nd=None/s3/count/dask(3, 3)': '6db3c922afd38038',
    '2d/(6, 6)/float64/int32/nd=None/s3/count/dask(5, 2)': '6db3c922afd38038',
    '2d/(6, 6)/float64/int32/nd=None/s4/percentage/numpy': '10f1a5301d56e77a',
    '2d/(6, 6)/float64/int32/nd=None/s5/count/numpy': '7aebcc60f7589275',
    '2d/(6, 6)/float64/int64/nd=0/s0/count/numpy': '266ea3f255ac93ad',
    '2d/(6, 6)/float64/int64/nd=0/s1/percentage/numpy': '38ad1ab4a726b25b',
    '2d/(6, 6)/float64/int64/nd=0/s2/count/numpy': '44257796b9be631e',
    '2d/(6, 6)/float64/int64/nd=0/s2/count/dask(6, 6)': '44257796b9be631e',
    '2d/(6, 6)/float64/int64/nd=0/s2/count/dask(3, 3)': '44257796b9be631e',
    '2d/(6, 6)/float64/int64/nd=0/s2/count/dask(5, 2)': '44257796b9be631e',
    '2d/(6, 6)/float64/int64/nd=0/s3/percentage/numpy': 'a02f593c5638e92e',
    '2d/(6, 6)/float64/int64/nd=0/s4/count/numpy': 'b7140263d88b6463',
    '2d/(6, 6)/float64/int64/nd=0/s5/percentage/numpy': 'fefe581300e3f960',
    '2d/(6, 6)/float64/int64/nd=0/s5/percentage/dask(6, 6)': 'fefe581300e3f960',
    '2d/(6, 6)/float64/int64/nd=0/s5/percentage/dask(3, 3)': 'fefe581300e3f960',
    '2d/(6, 6)/float64/int64/nd=0/s5/percentage/dask(5, 2)': 'fefe581300e3f960',
    '2d/(6, 6)/float64/float32/nd=10/s0/percentage/numpy': 'f8bd1136de5af096',
    '2d/(6, 6)/float64/float32/nd=10/s1/count/numpy': '7a438aea3cbe68c7',
    '2d/(6, 6)/float64/float32/nd=10/s1/count/dask(6, 6)': '7a438aea3cbe68c7',
    '2d/(6, 6)/float64/float32/nd=10/s1/count/dask(3, 3)': '7a438aea3cbe68c7',
    '2d/(6, 6)/float64/float32/nd=10/s1/count/dask(5, 2)': '7a438aea3cbe68c7',
    '2d/(6, 6)/float64/float32/nd=10/s2/percentage/numpy': 'e6b80927dc5d5884',
    '2d/(6, 6)/float64/float32/nd=10/s3/count/numpy': '76b4f074ab6686de',
    '2d/(6, 6)/float64/float32/nd=10/s4/percentage/numpy': '7286f570def8b5ff',
    '2d/(6, 6)/float64/float32/nd=10/s4/percentage/dask(6, 6)': '7286f570def8b5ff',
    '2d/(6, 6)/float64/float32/nd=10/s4/percentage/dask(3, 3)': '7286f570def8b5ff',
    '2d/(6, 6)/float64/float32/nd=10/s4/percentage/dask(5, 2)': '7286f570def8b5ff',
    '2d/(6, 6)/float64/float32/nd=10/s5/count/numpy': 'f15de03b3c915242',
    '2d/(6, 6)/float64/float64/nd=20.5/s0/count/numpy': '48faa7a9b6101e6f',
    '2d/(6, 6)/float64/float64/nd=20.5/s0/count/dask(6, 6)': '48faa7a9b6101e6f',
    '2d/(6, 6)/float64/float64/nd=20.5/s0/count/dask(3, 3)': '48faa7a9b6101e6f',
    '2d/(6, 6)/float64/float64/nd=20.5/s0/count/dask(5, 2)': '48faa7a9b6101e6f',
    '2d/(6, 6)/float64/float64/nd=20.5/s1/percentage/numpy': '1088d2e920a69763',
    '2d/(6, 6)/float64/float64/nd=20.5/s2/count/numpy': '995c29fb6b54604c',
    '2d/(6, 6)/float64/float64/nd=20.5/s3/percentage/numpy': 'ad1cbbd4d415ce88',
    '2d/(6, 6)/float64/float64/nd=20.5/s3/percentage/dask(6, 6)': 'ad1cbbd4d415ce88',
    '2d/(6, 6)/float64/float64/nd=20.5/s3/percentage/dask(3, 3)': 'ad1cbbd4d415ce88',
    '2d/(6, 6)/float64/float64/nd=20.5/s3/percentage/dask(5, 2)': 'ad1cbbd4d415ce88',
    '2d/(6, 6)/float64/float64/nd=20.5/s4/count/numpy': '28d9de0b4a5d78e8',
    '2d/(6, 6)/float64/float64/nd=20.5/s5/percentage/numpy': '1ad8edfd316af26b',
    '2d/(5, 1)/int32/int32/nd=0/s0/count/numpy': '24e4b9651598dc0d',
    '2d/(5, 1)/int32/int32/nd=0/s1/percentage/numpy': '6f0e1a4249f4bb75',
    '2d/(5, 1)/int32/int32/nd=0/s1/percentage/dask(5, 1)': '6f0e1a4249f4bb75',
    '2d/(5, 1)/int32/int32/nd=0/s1/percentage/dask(2, 1)': '6f0e1a4249f4bb75',
    '2d/(5, 1)/int32/int32/nd=0/s1/percentage/dask(4, 1)': '6f0e1a4249f4bb75',
    '2d/(5, 1)/int32/int32/nd=0/s2/count/numpy': '45032d884b85837f',
    '2d/(5, 1)/int32/int32/nd=0/s3/percentage/numpy': '5ed85070cee1e4de',
    '2d/(5, 1)/int32/int32/nd=0/s4/count/numpy': '6a1fa96fb17f6482',
    '2d/(5, 1)/int32/int32/nd=0/s4/count/dask(5, 1)': '6a1fa96fb17f6482',
    '2d/(5, 1)/int32/int32/nd=0/s4/count/dask(2, 1)': '6a1fa96fb17f6482',
    '2d/(5, 1)/int32/int32/nd=0/s4/count/dask(4, 1)': '6a1fa96fb17f6482',
    '2d/(5, 1)/int32/int32/nd=0/s5/percentage/numpy': 'f27d81efccb61554',
    '2d/(5, 1)/int32/float32/nd=20.5/s0/count/numpy': 'adce435fe344c597',
    '2d/(5, 1)/int32/float32/nd=20.5/s1/percentage/numpy': '707a352522dc3099',
    '2d/(5, 1)/int32/float32/nd=20.5/s2/count/numpy': 'a10ed98e55414809',
    '2d/(5, 1)/int32/float32/nd=20.5/s2/count/dask(5, 1)': 'a10ed98e55414809',
    '2d/(5, 1)/int32/float32/nd=20.5/s2/count/dask(2, 1)': 'a10ed98e55414809',
    '2d/(5, 1)/int32/float32/nd=20.5/s2/count/dask(4, 1)': 'a10ed98e55414809',
    '2d/(5, 1)/int32/float32/nd=20.5/s3/percentage/numpy': 'dfe7b3e71cb23147',
    '2d/(5, 1)/int32/float32/nd=20.5/s4/count/numpy': '8a09a3b4094ad2e6',
    '2d/(5, 1)/int32/float32/nd=20.5/s5/percentage/numpy': 'eb097582ff955968',
    '2d/(5, 1)/int32/float32/nd=20.5/s5/percentage/dask(5, 1)': 'eb097582ff955968',
    '2d/(5, 1)/int32/float32/nd=20.5/s5/percentage/dask(2, 1)': 'eb097582ff955968',
    '2d/(5, 1)/int32/float32/nd=20.5/s5/percentage/dask(4, 1)': 'eb097582ff955968',
    '2d/(5, 1)/int64/int8/nd=0/s0/count/numpy': '85ad4e3f2024ee7c',
    '2d/(5, 1)/int64/int8/nd=0/s0/count/dask(5, 1)': '85ad4e3f2024ee7c',
    '2d/(5, 1)/int64/int8/nd=0/s0/count/dask(2, 1)': '85ad4e3f2024ee7c',
    '2d/(5, 1)/int64/int8/nd=0/s0/count/dask(4, 1)': '85ad4e3f2024ee7c',
    '2d/(5, 1)/int64/int8/nd=0/s1/percentage/numpy': '1a500bcc127d1eaf',
    '2d/(5, 1)/int64/int8/nd=0/s2/count/numpy': '1e9cc72964c928b9',
    '2d/(5, 1)/int64/int8/nd=0/s3/percentage/numpy': '8c7bcdbf8327afb2',
    '2d/(5, 1)/int64/int8/nd=0/s3/percentage/dask(5, 1)': '8c7bcdbf8327afb2',
    '2d/(5, 1)/int64/int8/nd=0/s3/percentage/dask(2, 1)': '8c7bcdbf8327afb2',
    '2d/(5, 1)/int64/int8/nd=0/s3/percentage/dask(4, 1)': '8c7bcdbf8327afb2',
    '2d/(5, 1)/int64/int8/nd=0/s4/count/numpy': '9bb5b84d17e7671c',
    '2d/(5, 1)/int64/int8/nd=0/s5/percentage/numpy': '3dff14e7cbe046bf',
    '2d/(5, 1)/int64/int64/nd=30/s0/count/numpy': '3c01a033e9c189a1',
    '2d/(5, 1)/int64/int64/nd=30/s1/percentage/numpy': '8636f00920302f92',
    '2d/(5, 1)/int64/int64/nd=30/s1/percentage/dask(5, 1)': '8636f00920302f92',
    '2d/(5, 1)/int64/int64/nd=30/s1/percentage/dask(2, 1)': '8636f00920302f92',
    '2d/(5, 1)/int64/int64/nd=30/s1/percentage/dask(4, 1)': '8636f00920302f92',
    '2d/(5, 1)/int64/int64/nd=30/s2/count/numpy': '497f6bf3c194ca8b',
    '2d/(5, 1)/int64/int64/nd=30/s3/percentage/numpy': '68eee7f7eddd1f2f',
    '2d/(5, 1)/int64/int64/nd=30/s4/count/numpy': '7f30daa98e9e94e4',
    '2d/(5, 1)/int64/int64/nd=30/s4/count/dask(5, 1)': '7f30daa98e9e94e4',
    '2d/(5, 1)/int64/int64/nd=30/s4/count/dask(2, 1)': '7f30daa98e9e94e4',
    '2d/(5, 1)/int64/int64/nd=30/s4/count/dask(4, 1)': '7f30daa98e9e94e4',
    '2d/(5, 1)/int64/int64/nd=30/s5/percentage/numpy': '0182285c8524d21f',
    '2d/(5, 1)/int64/float64/nd=0/s0/count/numpy': '7b380e062a889b9a',
    '2d/(5, 1)/int64/float64/nd=0/s1/percentage/numpy': '5d72d451fd5b0529',
    '2d/(5, 1)/int64/float64/nd=0/s2/count/numpy': '382331f21fcd64d4',
    '2d/(5, 1)/int64/float64/nd=0/s2/count/dask(5, 1)': '382331f21fcd64d4',
    '2d/(5, 1)/int64/float64/nd=0/s2/count/dask(2, 1)': '382331f21fcd64d4',
    '2d/(5, 1)/int64/float64/nd=0/s2/count/dask(4, 1)': '382331f21fcd64d4',
    '2d/(5, 1)/int64/float64/nd=0/s3/percentage/numpy': 'c2242bc683b7eb91',
    '2d/(5, 1)/int64/float64/nd=0/s4/count/numpy': '92b50b303578975d',
    '2d/(5, 1)/int64/float64/nd=0/s5/percentage/numpy': 'd03a6ea1ad2574a1',
    '2d/(5, 1)/int64/float64/nd=0/s5/percentage/dask(5, 1)': 'd03a6ea1ad2574a1',
    '2d/(5, 1)/int64/float64/nd=0/s5/percentage/dask(2, 1)': 'd03a6ea1ad2574a1',
    '2d/(5, 1)/int64/float64/nd=0/s5/percentage/dask(4, 1)': 'd03a6ea1ad2574a1',
    '2d/(5, 1)/float32/int32/nd=30/s0/count/numpy': 'ccb73b81f7f17c39',
    '2d/(5, 1)/float32/int32/nd=30/s0/count/dask(5, 1)': 'ccb73b81f7f17c39',
    '2d/(5, 1)/float32/int32/nd=30/s0/count/dask(2, 1)': 'ccb73b81f7f17c39',
    '2d/(5, 1)/float32/int32/nd=30/s0/count/dask(4, 1)': 'ccb73b81f7f17c39',
    '2d/(5, 1)/float32/int32/nd=30/s1/percentage/numpy': '9c65f5d1264f1807',
    '2d/(5, 1)/float32/int32/nd=30/s2/count/numpy': '9893071b54eeb7d2',
    '2d/(5, 1)/float32/int32/nd=30/s3/percentage/numpy': '3d0430308686ad89',
    '2d/(5, 1)/float32/int32/nd=30/s3/percentage/dask(5, 1)': '3d0430308686ad89',
    '2d/(5, 1)/float32/int32/nd=30/s3/percentage/dask(2, 1)': '3d0430308686ad89',
    '2d/(5, 1)/float32/int32/nd=30/s3/percentage/dask(4, 1)': '3d0430308686ad89',
    '2d/(5, 1)/float32/int32/nd=30/s4/count/numpy': '3498d197704caf9d',
    '2d/(5, 1)/float32/int32/nd=30/s5/percentage/numpy': '30873dc2ac6bea5a',
    '2d/(5, 1)/float32/float32/nd=0/s0/count/numpy': '627203bc0633a6f0',
    '2d/(5, 1)/float32/float32/nd=0/s1/percentage/numpy': 'b6860992601cf464',
    '2d/(5, 1)/float32/float32/nd=0/s1/percentage/dask(5, 1)': 'b6860992601cf464',
    '2d/(5, 1)/float32/float32/nd=0/s1/percentage/dask(2, 1)': 'b6860992601cf464',
    '2d/(5, 1)/float32/float32/nd=0/s1/percentage/dask(4, 1)': 'b6860992601cf464',
    '2d/(5, 1)/float32/float32/nd=0/s2/count/numpy': 'cf504d99f0251151',
    '2d/(5, 1)/float32/float32/nd=0/s3/percentage/numpy': 'c7c7270297ac5e74',
    '2d/(5, 1)/float32/float32/nd=0/s4/count/numpy': 'c662c99e5be26ec5',
    '2d/(5, 1)/float32/float32/nd=0/s4/count/dask(5, 1)': 'c662c99e5be26ec5',
    '2d/(5, 1)/float32/float32/nd=0/s4/count/dask(2, 1)': 'c662c99e5be26ec5',
    '2d/(5, 1)/float32/float32/nd=0/s4/count/dask(4, 1)': 'c662c99e5be26ec5',
    '2d/(5, 1)/float32/float32/nd=0/s5/percentage/numpy': '18cd7677966edb54',
    '2d/(5, 1)/float64/int8/nd=30/s0/count/numpy': 'b43580408b0a2524',
    '2d/(5, 1)/float64/int8/nd=30/s1/percentage/numpy': '04e499e918f2c87d',
    '2d/(5, 1)/float64/int8/nd=30/s2/count/numpy': '69d7ecb0fe667580',
    '2d/(5, 1)/float64/int8/nd=30/s2/count/dask(5, 1)': '69d7ecb0fe667580',
    '2d/(5, 1)/float64/int8/nd=30/s2/count/dask(2, 1)': '69d7ecb0fe667580',
    '2d/(5, 1)/float64/int8/nd=30/s2/count/dask(4, 1)': '69d7ecb0fe667580',
    '2d/(5, 1)/float64/int8/nd=30/s3/percentage/numpy': 'ade8936e0333fa94',
    '2d/(5, 1)/float64/int8/nd=30/s4/count/numpy': '24b6d6367492870d',
    '2d/(5, 1)/float64/int8/nd=30/s5/percentage/numpy': '1e4c4537213f8f65',
    '2d/(5, 1)/float64/int8/nd=30/s5/percentage/dask(5, 1)': '1e4c4537213f8f65',
    '2d/(5, 1)/float64/int8/nd=30/s5/percentage/dask(2, 1)': '1e4c4537213f8f65',
    '2d/(5, 1)/float64/int8/nd=30/s5/percentage/dask(4, 1)': '1e4c4537213f8f65',
    '2d/(5, 1)/float64/int64/nd=0/s0/count/numpy': 'b07fbed1aa91c22e',
    '2d/(5, 1)/float64/int64/nd=0/s0/count/dask(5, 1)': 'b07fbed1aa91c22e',
    '2d/(5, 1)/float64/int64/nd=0/s0/count/dask(2, 1)': 'b07fbed1aa91c22e',
    '2d/(5, 1)/float64/int64/nd=0/s0/count/dask(4, 1)': 'b07fbed1aa91c22e',
    '2d/(5, 1)/float64/int64/nd=0/s1/percentage/numpy': '36f8889c3fbf2ae8',
    '2d/(5, 1)/float64/int64/nd=0/s2/count/numpy': '584c66ead71a95f8',
    '2d/(5, 1)/float64/int64/nd=0/s3/percentage/numpy': '207700a6f8dc577e',
    '2d/(5, 1)/float64/int64/nd=0/s3/percentage/dask(5, 1)': '207700a6f8dc577e',
    '2d/(5, 1)/float64/int64/nd=0/s3/percentage/dask(2, 1)': '207700a6f8dc577e',
    '2d/(5, 1)/float64/int64/nd=0/s3/percentage/dask(4, 1)': '207700a6f8dc577e',
    '2d/(5, 1)/float64/int64/nd=0/s4/count/numpy': '61be8150fecc4201',
    '2d/(5, 1)/float64/int64/nd=0/s5/percentage/numpy': '06859cd336ef19a6',
    '2d/(5, 1)/float64/float64/nd=20.5/s0/count/numpy': 'b72e1b6bafad508b',
    '2d/(5, 1)/float64/float64/nd=20.5/s1/percentage/numpy': 'b7329c15653faa5b',
    '2d/(5, 1)/float64/float64/nd=20.5/s1/percentage/dask(5, 1)': 'b7329c15653faa5b',
    '2d/(5, 1)/float64/float64/nd=20.5/s1/percentage/dask(2, 1)': 'b7329c15653faa5b',
    '2d/(5, 1)/float64/float64/nd=20.5/s1/percentage/dask(4, 1)': 'b7329c15653faa5b',
    '2d/(5, 1)/float64/float64/nd=20.5/s2/count/numpy': 'f2dda2afe39deca4',
    '2d/(5, 1)/float64/float64/nd=20.5/s3/percentage/numpy': '124f34d044f88431',
    '2d/(5, 1)/float64/float64/nd=20.5/s4/count/numpy': '6ba55f7ab5513dc2',
    '2d/(5, 1)/float64/float64/nd=20.5/s4/count/dask(5, 1)': '6ba55f7ab5513dc2',
    '2d/(5, 1)/float64/float64/nd=20.5/s4/count/dask(2, 1)': '6ba55f7ab5513dc2',
    '2d/(5, 1)/float64/float64/nd=20.5/s4/count/dask(4, 1)': '6ba55f7ab5513dc2',
    '2d/(5, 1)/float64/float64/nd=20.5/s5/percentage/numpy': '0794c81f0a86eb56',
    '3d/(4, 5)/int32/nd=None/s0/mean/numpy': '11ba5e1a35a155bf',
    '3d/(4, 5)/int32/nd=None/s0/max/numpy': 'cc6cc2329197e0fe',
    '3d/(4, 5)/int32/nd=None/s0/min/numpy': '73379659aa0404b0',
    '3d/(4, 5)/int32/nd=None/s0/sum/numpy': '90f8a4e61037906b',
    '3d/(4, 5)/int32/nd=None/s0/std/numpy': '0fbffa86c9a6ce21',
    '3d/(4, 5)/int32/nd=None/s0/var/numpy': 'ec6640f04eda69b4',
    '3d/(4, 5)/int32/nd=None/s0/count/numpy': '3197f188a390a499',
    '3d-last/(4, 5)/int32/s0': '3197f188a390a499',
    '3d/(4, 5)/int32/s0/dask(4, 5)': '3197f188a390a499',
    '3d/(4, 5)/int32/s0/dask(2, 3)': '3197f188a390a499',
    '3d/(4, 5)/int32/nd=None/s1/mean/numpy': '8c896d7448e15e4d',
    '3d/(4, 5)/int32/nd=None/s1/max/numpy': 'fa4ba7d6cfe2bae5',
    '3d/(4, 5)/int32/nd=None/s1/min/numpy': 'dc80fb94e766dc01',
    '3d/(4, 5)/int32/nd=None/s1/sum/numpy': '1057e7b34938eebc',
    '3d/(4, 5)/int32/nd=None/s1/std/numpy': 'd065b9a5615bfcb4',
    '3d/(4, 5)/int32/nd=None/s1/var/numpy': '70f09af0afc02f89',
    '3d/(4, 5)/int32/nd=None/s1/count/numpy': 'aee65fce3ba5565a',
    '3d-last/(4, 5)/int32/s1': 'aee65fce3ba5565a',
    '3d/(4, 5)/int32/s1/dask(4, 5)': 'aee65fce3ba5565a',
    '3d/(4, 5)/int32/s1/dask(2, 3)': 'aee65fce3ba5565a',
    '3d/(4, 5)/int32/nd=None/s2/mean/numpy': '3304924017256ca2',
    '3d/(4, 5)/int32/nd=None/s2/max/numpy': '607149857d68a4f2',
    '3d/(4, 5)/int32/nd=None/s2/min/numpy': '2922eb9ff8cb8f3c',
    '3d/(4, 5)/int32/nd=None/s2/sum/numpy': 'c34387d82be7df8a',
    '3d/(4, 5)/int32/nd=None/s2/std/numpy': '4b1a087637ee1202',
    '3d/(4, 5)/int32/nd=None/s2/var/numpy': '40e816cda1b3b99c',
    '3d/(4, 5)/int32/nd=None/s2/count/numpy': '1d0dca57723aed47',
    '3d-last/(4, 5)/int32/s2': '1d0dca57723aed47',
    '3d/(4, 5)/int32/s2/dask(4, 5)': '1d0dca57723aed47',
    '3d/(4, 5)/int32/s2/dask(2, 3)': '1d0dca57723aed47',
    '3d/(4, 5)/float32/nd=0/s0/mean/numpy': '8a8373fbc95c0b3d',
    '3d/(4, 5)/float32/nd=0/s0/max/numpy': 'e35a03617b4ed342',
    '3d/(4, 5)/float32/nd=0/s0/min/numpy': '135e9f174410b9b2',
    '3d/(4, 5)/float32/nd=0/s0/sum/numpy': '4258d1c174dafd5c',
    '3d/(4, 5)/float32/nd=0/s0/std/numpy': '84e64857e2a2f5da',
    '3d/(4, 5)/float32/nd=0/s0/var/numpy': 'f1de37c5f60452d7',
    '3d/(4, 5)/float32/nd=0/s0/count/numpy': '771dc70f4e1d69fa',
    '3d-last/(4, 5)/float32/s0': '771dc70f4e1d69fa',
    '3d/(4, 5)/float32/s0/dask(4, 5)': '28eadc82202b0180',
    '3d/(4, 5)/float32/s0/dask(2, 3)': '28eadc82202b0180',
    '3d/(4, 5)/float32/nd=0/s1/mean/numpy': 'f12ec00b6cfaff44',
    '3d/(4, 5)/float32/nd=0/s1/max/numpy': 'e35a03617b4ed342',
    '3d/(4, 5)/float32/nd=0/s1/min/numpy': '135e9f174410b9b2',
    '3d/(4, 5)/float32/nd=0/s1/sum/numpy': '09e122780fb33c60',
    '3d/(4, 5)/float32/nd=0/s1/std/numpy': '416afaa48531c082',
    '3d/(4, 5)/float32/nd=0/s1/var/numpy': '4dd808bb19042884',
    '3d/(4, 5)/float32/nd=0/s1/count/numpy': '89baab43795b2330',
    '3d-last/(4, 5)/float32/s1': '89baab43795b2330',
    '3d/(4, 5)/float32/s1/dask(4, 5)': '89baab43795b2330',
    '3d/(4, 5)/float32/s1/dask(2, 3)': '89baab43795b2330',
    '3d/(4, 5)/float32/nd=0/s2/mean/numpy': '04b87661aa8f794a',
    '3d/(4, 5)/float32/nd=0/s2/max/numpy': 'e35a03617b4ed342',
    '3d/(4, 5)/float32/nd=0/s2/min/numpy': '135e9f174410b9b2',
    '3d/(4, 5)/float32/nd=0/s2/sum/numpy': '37ebaf96cc47fc9f',
    '3d/(4, 5)/float32/nd=0/s2/std/numpy': 'a5fd1e79f4359ac4',
    '3d/(4, 5)/float32/nd=0/s2/var/numpy': '6ecbe9406960c7cc',
    '3d/(4, 5)/float32/nd=0/s2/count/numpy': '23ff0e18df981836',
    '3d-last/(4, 5)/float32/s2': '23ff0e18df981836',
    '3d/(4, 5)/float32/s2/dask(4, 5)': '23ff0e18df981836',
    '3d/(4, 5)/float32/s2/dask(2, 3)': '23ff0e18df981836',
    '3d/(4, 5)/float64/nd=10/s0/mean/numpy': '9364ce3d8ec93505',
    '3d/(4, 5)/float64/nd=10/s0/max/numpy': 'e35a03617b4ed342',
    '3d/(4, 5)/float64/nd=10/s0/min/numpy': '135e9f174410b9b2',
    '3d/(4, 5)/float64/nd=10/s0/sum/numpy': '855f350cc70ed10e',
    '3d/(4, 5)/float64/nd=10/s0/std/numpy': '047c2a4d42039d79',
    '3d/(4, 5)/float64/nd=10/s0/var/numpy': 'db2cdb68ad8c3ffc',
    '3d/(4, 5)/float64/nd=10/s0/count/numpy': '2e2fd35c755ba6cf',
    '3d-last/(4, 5)/float64/s0': '2e2fd35c755ba6cf',
    '3d/(4, 5)/float64/s0/dask(4, 5)': '2e2fd35c755ba6cf',
    '3d/(4, 5)/float64/s0/dask(2, 3)': '2e2fd35c755ba6cf',
    '3d/(4, 5)/float64/nd=10/s1/mean/numpy': 'e89f4e9b19b1d57a',
    '3d/(4, 5)/float64/nd=10/s1/max/numpy': 'e35a03617b4ed342',
    '3d/(4, 5)/float64/nd=10/s1/min/numpy': '135e9f174410b9b2',
    '3d/(4, 5)/float64/nd=10/s1/sum/numpy': '3dd36b439145cc7c',
    '3d/(4, 5)/float64/nd=10/s1/std/numpy': 'e93d59947502adf6',
    '3d/(4, 5)/float64/nd=10/s1/var/numpy': 'ad70c013950bf552',
    '3d/(4, 5)/float64/nd=10/s1/count/numpy': '448da137e97cc713',
    '3d-last/(4, 5)/float64/s1': '448da137e97cc713',
    '3d/(4, 5)/float64/s1/dask(4, 5)': '448da137e97cc713',
    '3d/(4, 5)/float64/s1/dask(2, 3)': '448da137e97cc713',
    '3d/(4, 5)/float64/nd=10/s2/mean/numpy': '8b7e2559ec6bdb68',
    '3d/(4, 5)/float64/nd=10/s2/max/numpy': 'c77539884fe85aed',
    '3d/(4, 5)/float64/nd=10/s2/min/numpy': 'be47b8cd1a65f5fb',
    '3d/(4, 5)/float64/nd=10/s2/sum/numpy': 'a564f4449ea998fb',
    '3d/(4, 5)/float64/nd=10/s2/std/numpy': '1430df22670d8cb4',
    '3d/(4, 5)/float64/nd=10/s2/var/numpy': 'd1838a1b61b552dd',
    '3d/(4, 5)/float64/nd=10/s2/count/numpy': '87da8287181490bb',
    '3d-last/(4, 5)/float64/s2': '87da8287181490bb',
    '3d/(4, 5)/float64/s2/dask(4, 5)': '87da8287181490bb',
    '3d/(4, 5)/float64/s2/dask(2, 3)': '87da8287181490bb',
    '3d/(3, 3)/int32/nd=0/s0/mean/numpy': 'a3720e423c41ac5e',
    '3d/(3, 3)/int32/nd=0/s0/max/numpy': 'e35a03617b4ed342',
    '3d/(3, 3)/int32/nd=0/s0/min/numpy': '135e9f174410b9b2',
    '3d/(3, 3)/int32/nd=0/s0/sum/numpy': 'ff66adaaf0b61053',
    '3d/(3, 3)/int32/nd=0/s0/std/numpy': 'b397bf2f195db887',
    '3d/(3, 3)/int32/nd=0/s0/var/numpy': '23fa043f0cbe5ea0',
    '3d/(3, 3)/int32/nd=0/s0/count/numpy': '3f98e6500c2c471b',
    '3d-last/(3, 3)/int32/s0': '3f98e6500c2c471b',
    '3d/(3, 3)/int32/s0/dask(3, 3)': 'c007a182cf912234',
    '3d/(3, 3)/int32/s0/dask(1, 2)': 'c007a182cf912234',
    '3d/(3, 3)/int32/nd=0/s1/mean/numpy': '66716b4727a22161',
    '3d/(3, 3)/int32/nd=0/s1/max/numpy': 'e35a03617b4ed342',
    '3d/(3, 3)/int32/nd=0/s1/min/numpy': '135e9f174410b9b2',
    '3d/(3, 3)/int32/nd=0/s1/sum/numpy': 'df201de27960302a',
    '3d/(3, 3)/int32/nd=0/s1/std/numpy': '36098a8a05f7642a',
    '3d/(3, 3)/int32/nd=0/s1/var/numpy': '6209963acb6278cd',
    '3d/(3, 3)/int32/nd=0/s1/count/numpy': 'b7630d2396ab3505',
    '3d-last/(3, 3)/int32/s1': 'b7630d2396ab3505',
    '3d/(3, 3)/int32/s1/dask(3, 3)': 'b7630d2396ab3505',
    '3d/(3, 3)/int32/s1/dask(1, 2)': 'b7630d2396ab3505',
    '3d/(3, 3)/int32/nd=0/s2/mean/numpy': 'bb1456261e059a17',
    '3d/(3, 3)/int32/nd=0/s2/max/numpy': 'e35a03617b4ed342',
    '3d/(3, 3)/int32/nd=0/s2/min/numpy': '135e9f174410b9b2',
    '3d/(3, 3)/int32/nd=0/s2/sum/numpy': '11b0dee723334e59',
    '3d/(3, 3)/int32/nd=0/s2/std/numpy': '26d3329e18e0422c',
    '3d/(3, 3)/int32/nd=0/s2/var/numpy': '26d3329e18e0422c',
    '3d/(3, 3)/int32/nd=0/s2/count/numpy': '8b6028b5ece7cf7b',
    '3d-last/(3, 3)/int32/s2': '8b6028b5ece7cf7b',
    '3d/(3, 3)/int32/s2/dask(3, 3)': '8b6028b5ece7cf7b',
    '3d/(3, 3)/int32/s2/dask(1, 2)': '8b6028b5ece7cf7b',
    '3d/(3, 3)/float32/nd=10/s0/mean/numpy': '0498646e2678c45b',
    '3d/(3, 3)/float32/nd=10/s0/max/numpy': 'e35a03617b4ed342',
    '3d/(3, 3)/float32/nd=10/s0/min/numpy': '135e9f174410b9b2',
    '3d/(3, 3)/float32/nd=10/s0/sum/numpy': '8fd176309520fd78',
    '3d/(3, 3)/float32/nd=10/s0/std/numpy': 'aea84c658ac3f5af',
    '3d/(3, 3)/float32/nd=10/s0/var/numpy': '6923d9eca7b572f0',
    '3d/(3, 3)/float32/nd=10/s0/count/numpy': 'c93045452dfdba5b',
    '3d-last/(3, 3)/float32/s0': 'c93045452dfdba5b',
    '3d/(3, 3)/float32/s0/dask(3, 3)': 'c93045452dfdba5b',
    '3d/(3, 3)/float32/s0/dask(1, 2)': 'c93045452dfdba5b',
    '3d/(3, 3)/float32/nd=10/s1/mean/numpy': '8f8a2f5d223bfa64',
    '3d/(3, 3)/float32/nd=10/s1/max/numpy': 'e35a03617b4ed342',
    '3d/(3, 3)/float32/nd=10/s1/min/numpy': '135e9f174410b9b2',
    '3d/(3, 3)/float32/nd=10/s1/sum/numpy': 'ad4e421bdd19c765',
    '3d/(3, 3)/float32/nd=10/s1/std/numpy': 'f2fed926e2317e24',
    '3d/(3, 3)/float32/nd=10/s1/var/numpy': 'a706b7c97a31b670',
    '3d/(3, 3)/float32/nd=10/s1/count/numpy': 'd2aa65384bda8bad',
    '3d-last/(3, 3)/float32/s1': 'd2aa65384bda8bad',
    '3d/(3, 3)/float32/s1/dask(3, 3)': 'd2aa65384bda8bad',
    '3d/(3, 3)/float32/s1/dask(1, 2)': 'd2aa65384bda8bad',
    '3d/(3, 3)/float32/nd=10/s2/mean/numpy': '84db35d5d1e7283b',
    '3d/(3, 3)/float32/nd=10/s2/max/numpy': 'a13ae18262a7cdd0',
    '3d/(3, 3)/float32/nd=10/s2/min/numpy': 'a3db711c75accb64',
    '3d/(3, 3)/float32/nd=10/s2/sum/numpy': '809d5539749e21ea',
    '3d/(3, 3)/float32/nd=10/s2/std/numpy': '2d6b2ee78f483895',
    '3d/(3, 3)/float32/nd=10/s2/var/numpy': '8c7d81e7bb406133',
    '3d/(3, 3)/float32/nd=10/s2/count/numpy': 'cba006903ccae8c4',
    '3d-last/(3, 3)/float32/s2': 'cba006903ccae8c4',
    '3d/(3, 3)/float32/s2/dask(3, 3)': 'cba006903ccae8c4',
    '3d/(3, 3)/float32/s2/dask(1, 2)': 'cba006903ccae8c4',
    '3d/(3, 3)/float64/nd=None/s0/mean/numpy': '953ec02b7a6f5873',
    '3d/(3, 3)/float64/nd=None/s0/max/numpy': 'e35a03617b4ed342',
    '3d/(3, 3)/float64/nd=None/s0/min/numpy': '135e9f174410b9b2',
    '3d/(3, 3)/float64/nd=None/s0/sum/numpy': '5a9d45a29e91c461',
    '3d/(3, 3)/float64/nd=None/s0/std/numpy': '51828b1fae8fe1ad',
    '3d/(3, 3)/float64/nd=None/s0/var/numpy': 'c8ff3ec7c826a24b',
    '3d/(3, 3)/float64/nd=None/s0/count/numpy': '22c76e0dbbe8a6da',
    '3d-last/(3, 3)/float64/s0': '22c76e0dbbe8a6da',
    '3d/(3, 3)/float64/s0/dask(3, 3)': '876204e94cefe2b7',
    '3d/(3, 3)/float64/s0/dask(1, 2)': '876204e94cefe2b7',
    '3d/(3, 3)/float64/nd=None/s1/mean/numpy': 'ef086eeb3fd08a5e',
    '3d/(3, 3)/float64/nd=None/s1/max/numpy': 'e35a03617b4ed342',
    '3d/(3, 3)/float64/nd=None/s1/min/numpy': '135e9f174410b9b2',
    '3d/(3, 3)/float64/nd=None/s1/sum/numpy': '113c71e94b161bd7',
    '3d/(3, 3)/float64/nd=None/s1/std/numpy': 'f20d441f01f32f88',
    '3d/(3, 3)/float64/nd=None/s1/var/numpy': '57f898912a6d9530',
    '3d/(3, 3)/float64/nd=None/s1/count/numpy': 'd96f840a06b85c6b',
    '3d-last/(3, 3)/float64/s1': 'd96f840a06b85c6b',
    '3d/(3, 3)/float64/s1/dask(3, 3)': 'd96f840a06b85c6b',
    '3d/(3, 3)/float64/s1/dask(1, 2)': 'd96f840a06b85c6b',
    '3d/(3, 3)/float64/nd=None/s2/mean/numpy': 'bfe30db4788a6e9d',
    '3d/(3, 3)/float64/nd=None/s2/max/numpy': 'a02d9b29a41ea71d',
    '3d/(3, 3)/float64/nd=None/s2/min/numpy': '9f2744e7ed300689',
    '3d/(3, 3)/float64/nd=None/s2/sum/numpy': '29559aa64ab154b9',
    '3d/(3, 3)/float64/nd=None/s2/std/numpy': '1c2b64f94b30e469',
    '3d/(3, 3)/float64/nd=None/s2/var/numpy': '3fd84a35fe03151c',
    '3d/(3, 3)/float64/nd=None/s2/count/numpy': '6ebd6576e62ab443',
    '3d-last/(3, 3)/float64/s2': '6ebd6576e62ab443',
    '3d/(3, 3)/float64/s2/dask(3, 3)': '6ebd6576e62ab443',
    '3d/(3, 3)/float64/s2/dask(1, 2)': '6ebd6576e62ab443',
    '3d/(1, 6)/int32/nd=10/s0/mean/numpy': 'c5926387751631f3',
    '3d/(1, 6)/int32/nd=10/s0/max/numpy': 'e35a03617b4ed342',
    '3d/(1, 6)/int32/nd=10/s0/min/numpy': '135e9f174410b9b2',
    '3d/(1, 6)/int32/nd=10/s0/sum/numpy': 'caf927f738ff1fde',
    '3d/(1, 6)/int32/nd=10/s0/std/numpy': '6483405925e35bd0',
    '3d/(1, 6)/int32/nd=10/s0/var/numpy': 'e7ac81ca2da8563b',
    '3d/(1, 6)/int32/nd=10/s0/count/numpy': '7a1d60e3b6ecf299',
    '3d-last/(1, 6)/int32/s0': '7a1d60e3b6ecf299',
    '3d/(1, 6)/int32/s0/dask(1, 6)': '7a1d60e3b6ecf299',
    '3d/(1, 6)/int32/s0/dask(1, 3)': '7a1d60e3b6ecf299',
    '3d/(1, 6)/int32/nd=10/s1/mean/numpy': '5bc6100c368653b0',
    '3d/(1, 6)/int32/nd=10/s1/max/numpy': 'e35a03617b4ed342',
    '3d/(1, 6)/int32/nd=10/s1/min/numpy': '135e9f174410b9b2',
    '3d/(1, 6)/int32/nd=10/s1/sum/numpy': '32834f407b743fd6',
    '3d/(1, 6)/int32/nd=10/s1/std/numpy': 'c3392c7965921762',
    '3d/(1, 6)/int32/nd=10/s1/var/numpy': '86e73788187b3994',
    '3d/(1, 6)/int32/nd=10/s1/count/numpy': 'd0f61766485c6c5b',
    '3d-last/(1, 6)/int32/s1': 'd0f61766485c6c5b',
    '3d/(1, 6)/int32/s1/dask(1, 6)': 'd0f61766485c6c5b',
    '3d/(1, 6)/int32/s1/dask(1, 3)': 'd0f61766485c6c5b',
    '3d/(1, 6)/int32/nd=10/s2/mean/numpy': '0acf5c83f771c6b3',
    '3d/(1, 6)/int32/nd=10/s2/max/numpy': 'e35a03617b4ed342',
    '3d/(1, 6)/int32/nd=10/s2/min/numpy': '135e9f174410b9b2',
    '3d/(1, 6)/int32/nd=10/s2/sum/numpy': 'fabf9ea56307c0b3',
    '3d/(1, 6)/int32/nd=10/s2/std/numpy': '816c09bd394bac5d',
    '3d/(1, 6)/int32/nd=10/s2/var/numpy': '816c09bd394bac5d',
    '3d/(1, 6)/int32/nd=10/s2/count/numpy': '30f3cc3281241f45',
    '3d-last/(1, 6)/int32/s2': '30f3cc3281241f45',
    '3d/(1, 6)/int32/s2/dask(1, 6)': '30f3cc3281241f45',
    '3d/(1, 6)/int32/s2/dask(1, 3)': '30f3cc3281241f45',
    '3d/(1, 6)/float32/nd=None/s0/mean/numpy': '923d85545c83c129',
    '3d/(1, 6)/float32/nd=None/s0/max/numpy': '923d85545c83c129',
    '3d/(1, 6)/float32/nd=None/s0/min/numpy': '923d85545c83c129',
    '3d/(1, 6)/float32/nd=None/s0/sum/numpy': '923d85545c83c129',
    '3d/(1, 6)/float32/nd=None/s0/std/numpy': '0f9c2d2ad285a17e',
    '3d/(1, 6)/float32/nd=None/s0/var/numpy': '0f9c2d2ad285a17e',
    '3d/(1, 6)/float32/nd=None/s0/count/numpy': '34a39ea6df32abf9',
    '3d-last/(1, 6)/float32/s0': '34a39ea6df32abf9',
    '3d/(1, 6)/float32/s0/dask(1, 6)': '8bc08446fb3b32fd',
    '3d/(1, 6)/float32/s0/dask(1, 3)': '8bc08446fb3b32fd',
    '3d/(1, 6)/float32/nd=None/s1/mean/numpy': 'bf26d78ae52f275f',
    '3d/(1, 6)/float32/nd=None/s1/max/numpy': 'bf26d78ae52f275f',
    '3d/(1, 6)/float32/nd=None/s1/min/numpy': 'bf26d78ae52f275f',
    '3d/(1, 6)/float32/nd=None/s1/sum/numpy': 'bf26d78ae52f275f',
    '3d/(1, 6)/float32/nd=None/s1/std/numpy': '2f4e94eeb3951cfb',
    '3d/(1, 6)/float32/nd=None/s1/var/numpy': '2f4e94eeb3951cfb',
    '3d/(1, 6)/float32/nd=None/s1/count/numpy': '1db28e792eaf72d8',
    '3d-last/(1, 6)/float32/s1': '1db28e792eaf72d8',
    '3d/(1, 6)/float32/s1/dask(1, 6)': '1db28e792eaf72d8',
    '3d/(1, 6)/float32/s1/dask(1, 3)': '1db28e792eaf72d8',
    '3d/(1, 6)/float32/nd=None/s2/mean/numpy': 'cf63ec1a159f1bb2',
    '3d/(1, 6)/float32/nd=None/s2/max/numpy': 'cf63ec1a159f1bb2',
    '3d/(1, 6)/float32/nd=None/s2/min/numpy': 'cf63ec1a159f1bb2',
    '3d/(1, 6)/float32/nd=None/s2/sum/numpy': 'cf63ec1a159f1bb2',
    '3d/(1, 6)/float32/nd=None/s2/std/numpy': '431f35e4ff515564',
    '3d/(1, 6)/float32/nd=None/s2/var/numpy': '431f35e4ff515564',
    '3d/(1, 6)/float32/nd=None/s2/count/numpy': '6d3d923bb98e5923',
    '3d-last/(1, 6)/float32/s2': '6d3d923bb98e5923',
    '3d/(1, 6)/float32/s2/dask(1, 6)': '6d3d923bb98e5923',
    '3d/(1, 6)/float32/s2/dask(1, 3)': '6d3d923bb98e5923',
    '3d/(1, 6)/float64/nd=0/s0/mean/numpy': '012e370dae3fa273',
    '3d/(1, 6)/float64/nd=0/s0/max/numpy': 'e35a03617b4ed342',
    '3d/(1, 6)/float64/nd=0/s0/min/numpy': '135e9f174410b9b2',
    '3d/(1, 6)/float64/nd=0/s0/sum/numpy': 'a0daf2d78dba3b31',
    '3d/(1, 6)/float64/nd=0/s0/std/numpy': '0560fce08d264cd6',
    '3d/(1, 6)/float64/nd=0/s0/var/numpy': 'a7d685f8498937d5',
    '3d/(1, 6)/float64/nd=0/s0/count/numpy': '484c44fc36c731d6',
    '3d-last/(1, 6)/float64/s0': '484c44fc36c731d6',
    '3d/(1, 6)/float64/s0/dask(1, 6)': '484c44fc36c731d6',
    '3d/(1, 6)/float64/s0/dask(1, 3)': '484c44fc36c731d6',
    '3d/(1, 6)/float64/nd=0/s1/mean/numpy': '582048cf6d8e6f62',
    '3d/(1, 6)/float64/nd=0/s1/max/numpy': 'e35a03617b4ed342',
    '3d/(1, 6)/float64/nd=0/s1/min/numpy': '135e9f174410b9b2',
    '3d/(1, 6)/float64/nd=0/s1/sum/numpy': '475648d9469b7d5e',
    '3d/(1, 6)/float64/nd=0/s1/std/numpy': '5bda138a4a5a7eb9',
    '3d/(1, 6)/float64/nd=0/s1/var/numpy': 'e7714d4d0f77d198',
    '3d/(1, 6)/float64/nd=0/s1/count/numpy': 'b9e73e6b8b2d2279',
    '3d-last/(1, 6)/float64/s1': 'b9e73e6b8b2d2279',
    '3d/(1, 6)/float64/s1/dask(1, 6)': 'b9e73e6b8b2d2279',
    '3d/(1, 6)/float64/s1/dask(1, 3)': 'b9e73e6b8b2d2279',
    '3d/(1, 6)/float64/nd=0/s2/mean/numpy': '19290f9c53d7295e',
    '3d/(1, 6)/float64/nd=0/s2/max/numpy': 'e35a03617b4ed342',
    '3d/(1, 6)/float64/nd=0/s2/min/numpy': '135e9f174410b9b2',
    '3d/(1, 6)/float64/nd=0/s2/sum/numpy': 'c7766c79d4b80622',
    '3d/(1, 6)/float64/nd=0/s2/std/numpy': '2f6abd14d21e938f',
    '3d/(1, 6)/float64/nd=0/s2/var/numpy': '2f6abd14d21e938f',
    '3d/(1, 6)/float64/nd=0/s2/count/numpy': 'e90f8708c74e6882',
    '3d-last/(1, 6)/float64/s2': 'e90f8708c74e6882',
    '3d/(1, 6)/float64/s2/dask(1, 6)': 'e90f8708c74e6882',
    '3d/(1, 6)/float64/s2/dask(1, 3)': 'e90f8708c74e6882',
    '3d/(6, 2)/int32/nd=None/s0/mean/numpy': '19eaeb9bc578f1a4',
    '3d/(6, 2)/int32/nd=None/s0/max/numpy': 'd2424cba92e46800',
    '3d/(6, 2)/int32/nd=None/s0/min/numpy': '4e979b4c382c5041',
    '3d/(6, 2)/int32/nd=None/s0/sum/numpy': '98431ec28b649b46',
    '3d/(6, 2)/int32/nd=None/s0/std/numpy': 'a30ec1cb9fc1c308',
    '3d/(6, 2)/int32/nd=None/s0/var/numpy': '258a705cb132b29b',
    '3d/(6, 2)/int32/nd=None/s0/count/numpy': 'bfd072bd5b6fb13e',
    '3d-last/(6, 2)/int32/s0': 'bfd072bd5b6fb13e',
    '3d/(6, 2)/int32/s0/dask(6, 2)': '9f6c65a0d5ed9b89',
    '3d/(6, 2)/int32/s0/dask(3, 1)': '9f6c65a0d5ed9b89',
    '3d/(6, 2)/int32/nd=None/s1/mean/numpy': 'a0e9a20069f5e726',
    '3d/(6, 2)/int32/nd=None/s1/max/numpy': '2a1798f336d6dd35',
    '3d/(6, 2)/int32/nd=None/s1/min/numpy': '8392ad133c8f2928',
    '3d/(6, 2)/int32/nd=None/s1/sum/numpy': 'acce9904c0504fbc',
    '3d/(6, 2)/int32/nd=None/s1/std/numpy': '00c934f4c94a588a',
    '3d/(6, 2)/int32/nd=None/s1/var/numpy': '951aea2c87076fdb',
    '3d/(6, 2)/int32/nd=None/s1/count/numpy': '54fc4978ea6a45a0',
    '3d-last/(6, 2)/int32/s1': '54fc4978ea6a45a0',
    '3d/(6, 2)/int32/s1/dask(6, 2)': '54fc4978ea6a45a0',
    '3d/(6, 2)/int32/s1/dask(3, 1)': '54fc4978ea6a45a0',
    '3d/(6, 2)/int32/nd=None/s2/mean/numpy': 'cf6e0faeb29be6f1',
    '3d/(6, 2)/int32/nd=None/s2/max/numpy': 'da97422f2a78338e',
    '3d/(6, 2)/int32/nd=None/s2/min/numpy': '6055623713f61334',
    '3d/(6, 2)/int32/nd=None/s2/sum/numpy': '37b32f6fa2ef6dfa',
    '3d/(6, 2)/int32/nd=None/s2/std/numpy': 'e4818b0bcbc3dce7',
    '3d/(6, 2)/int32/nd=None/s2/var/numpy': 'd50ff0c4106f2dd4',
    '3d/(6, 2)/int32/nd=None/s2/count/numpy': 'cc17ba7aad168483',
    '3d-last/(6, 2)/int32/s2': 'cc17ba7aad168483',
    '3d/(6, 2)/int32/s2/dask(6, 2)': 'cc17ba7aad168483',
    '3d/(6, 2)/int32/s2/dask(3, 1)': 'cc17ba7aad168483',
    '3d/(6, 2)/float32/nd=0/s0/mean/numpy': '940481952bf10685',
    '3d/(6, 2)/float32/nd=0/s0/max/numpy': 'e35a03617b4ed342',
    '3d/(6, 2)/float32/nd=0/s0/min/numpy': '135e9f174410b9b2',
    '3d/(6, 2)/float32/nd=0/s0/sum/numpy': '0179fb10789dd279',
    '3d/(6, 2)/float32/nd=0/s0/std/numpy': '705f7f8e80ca11d5',
    '3d/(6, 2)/float32/nd=0/s0/var/numpy': 'db62f1419540d41b',
    '3d/(6, 2)/float32/nd=0/s0/count/numpy': '5324fb8a4f6a34d6',
    '3d-last/(6, 2)/float32/s0': '5324fb8a4f6a34d6',
    '3d/(6, 2)/float32/s0/dask(6, 2)': '5324fb8a4f6a34d6',
    '3d/(6, 2)/float32/s0/dask(3, 1)': '5324fb8a4f6a34d6',
    '3d/(6, 2)/float32/nd=0/s1/mean/numpy': '864136c658cf8e0b',
    '3d/(6, 2)/float32/nd=0/s1/max/numpy': 'e35a03617b4ed342',
    '3d/(6, 2)/float32/nd=0/s1/min/numpy': '135e9f174410b9b2',
    '3d/(6, 2)/float32/nd=0/s1/sum/numpy': '3d130466c315fa61',
    '3d/(6, 2)/float32/nd=0/s1/std/numpy': '9cc107cd599b6496',
    '3d/(6, 2)/float32/nd=0/s1/var/numpy': '7db923dc6f7f05e2',
    '3d/(6, 2)/float32/nd=0/s1/count/numpy': '15e61e5ff8608935',
    '3d-last/(6, 2)/float32/s1': '15e61e5ff8608935',
    '3d/(6, 2)/float32/s1/dask(6, 2)': '15e61e5ff8608935',
    '3d/(6, 2)/float32/s1/dask(3, 1)': '15e61e5ff8608935',
    '3d/(6, 2)/float32/nd=0/s2/mean/numpy': 'bbcff2a3df2a90c2',
    '3d/(6, 2)/float32/nd=0/s2/max/numpy': 'e35a03617b4ed342',
    '3d/(6, 2)/float32/nd=0/s2/min/numpy': '135e9f174410b9b2',
    '3d/(6, 2)/float32/nd=0/s2/sum/numpy': '31dfd0e614b232d4',
    '3d/(6, 2)/float32/nd=0/s2/std/numpy': '103b70109f641994',
    '3d/(6, 2)/float32/nd=0/s2/var/numpy': 'c580c83e5c7dc99d',
    '3d/(6, 2)/float32/nd=0/s2/count/numpy': 'f6f47eaebcd26377',
    '3d-last/(6, 2)/float32/s2': 'f6f47eaebcd26377',
    '3d/(6, 2)/float32/s2/dask(6, 2)': 'f6f47eaebcd26377',
    '3d/(6, 2)/float32/s2/dask(3, 1)': 'f6f47eaebcd26377',
    '3d/(6, 2)/float64/nd=10/s0/mean/numpy': '14b7b6b0eb454c0d',
    '3d/(6, 2)/float64/nd=10/s0/max/numpy': 'e35a03617b4ed342',
    '3d/(6, 2)/float64/nd=10/s0/min/numpy': '135e9f174410b9b2',
    '3d/(6, 2)/float64/nd=10/s0/sum/numpy': 'bb64d9ae88524571',
    '3d/(6, 2)/float64/nd=10/s0/std/numpy': '2257fa79a44e69d9',
    '3d/(6, 2)/float64/nd=10/s0/var/numpy': '85685d62e8cd835e',
    '3d/(6, 2)/float64/nd=10/s0/count/numpy': '771c8ea5fc528182',
    '3d-last/(6, 2)/float64/s0': '771c8ea5fc528182',
    '3d/(6, 2)/float64/s0/dask(6, 2)': '39e49466716a0447',
    '3d/(6, 2)/float64/s0/dask(3, 1)': '39e49466716a0447',
    '3d/(6, 2)/float64/nd=10/s1/mean/numpy': '33a609dee3e8a547',
    '3d/(6, 2)/float64/nd=10/s1/max/numpy': 'e35a03617b4ed342',
    '3d/(6, 2)/float64/nd=10/s1/min/numpy': '135e9f174410b9b2',
    '3d/(6, 2)/float64/nd=10/s1/sum/numpy': 'e1e77c69c43a7de5',
    '3d/(6, 2)/float64/nd=10/s1/std/numpy': '3eb6eda9888374e8',
    '3d/(6, 2)/float64/nd=10/s1/var/numpy': '2e6c7dbdac705021',
    '3d/(6, 2)/float64/nd=10/s1/count/numpy': '7735d77c6dfea52e',
    '3d-last/(6, 2)/float64/s1': '7735d77c6dfea52e',
    '3d/(6, 2)/float64/s1/dask(6, 2)': '7735d77c6dfea52e',
    '3d/(6, 2)/float64/s1/dask(3, 1)': '7735d77c6dfea52e',
    '3d/(6, 2)/float64/nd=10/s2/mean/numpy': '39904c6918f0cbd4',
    '3d/(6, 2)/float64/nd=10/s2/max/numpy': 'e35a03617b4ed342',
    '3d/(6, 2)/float64/nd=10/s2/min/numpy': '135e9f174410b9b2',
    '3d/(6, 2)/float64/nd=10/s2/sum/numpy': 'b1562a4868cd64a2',
    '3d/(6, 2)/float64/nd=10/s2/std/numpy': '1a290e8f070d4294',
    '3d/(6, 2)/float64/nd=10/s2/var/numpy': '0392579cb3061e16',
    '3d/(6, 2)/float64/nd=10/s2/count/numpy': 'e6a0cbf7386acc99',
    '3d-last/(6, 2)/float64/s2': 'e6a0cbf7386acc99',
    '3d/(6, 2)/float64/s2/dask(6, 2)': 'e6a0cbf7386acc99',
    '3d/(6, 2)/float64/s2/dask(3, 1)': 'e6a0cbf7386acc99',
    'validation/zones-not-da': '212ee68f9ed5934a',
    'validation/values-not-da': 'f56d5f669c3c4d34',
    'validation/zones-3d': '390f0c8be13004ec',
    'validation/zones-bool': '683a8d6bcdafe4d9',
    'validation/zones-complex': '683a8d6bcdafe4d9',
    'validation/values-bool': 'de60c8391f1dfd29',
    'validation/values-str': 'de60c8391f1dfd29',
    'validation/values-1d': '43d5be4321769f77',
    'validation/values-4d': '43d5be4321769f77',
    'validation/agg-2d': 'f4f5608a24bf70cc',
    'validation/agg-3d': '940f71501477c65a',
    'validation/agg-3d-dask': 'b85929b723c2d2db',
    'validation/layer': '6a3cd8e260059768',
    'validation/shape': '3c9c1f160f79565f',
    'validation/unsigned-ok': '4a5d748df4fe5873',
    'validation/float16-ok': '460c162738f454a7',
    'strides/0': '383069378710bd8d',
    'strides/1': '49195d2433fdbe2b',
    'strides/2': '383069378710bd8d',
    'strides/3': '383069378710bd8d',
    'strides/4': '383069378710bd8d',
    'strides/5': 'ffa9873575f0e8b6',
    'strides/6': '383069378710bd8d',
    'strides/7': 'd7fa4f8a8e52f871',
    'strides/8': 'bee0cf0cd434b05c',
    'strides/9': '795ffb39110bb96c',
    'strides/10': '1afa47d3a1156839',
    'strides/11': 'd7fa4f8a8e52f871',
    'strides/12': 'a3ad8a3cf47b327e',
    'strides/13': 'c4985ff2651c7d36',
    'strides/14': '1afa47d3a1156839',
    'strides/15': 'd7fa4f8a8e52f871',
    'strides/16': 'ecdcdbf0f4af557c',
    'strides/17': '5e9775dc5fa98627',
    'strides/18': 'f9af5523e14b1cbe',
    'strides/19': 'd7fa4f8a8e52f871',
    'strides/20': '8d531570c61d2357',
    'strides/21': '517a4a5823832857',
    'strides/22': '6dfdd9696840fbfe',
    'strides/23': 'd7fa4f8a8e52f871',
    'strides/24': 'd3da450ce683ea0b',
    'strides/25': '49195d2433fdbe2b',
    'strides/26': '383069378710bd8d',
    'strides/27': '383069378710bd8d',
    'strides/28': '383069378710bd8d',
    'strides/29': '49195d2433fdbe2b',
    'strides/30': '383069378710bd8d',
    'strides/31': 'd7fa4f8a8e52f871',
    'strides/32': 'bee0cf0cd434b05c',
    'strides/33': 'ffa9873575f0e8b6',
    'strides/34': '383069378710bd8d',
    'strides/35': '3fbc0813237267db',
    'strides/36': 'a3ad8a3cf47b327e',
    'strides/37': 'e647ec925d99a432',
    'strides/38': '383069378710bd8d',
    'strides/39': 'd7fa4f8a8e52f871',
    'strides/40': '260312f405d6298b',
    'strides/41': 'f7dfa6c271dd5cba',
    'strides/42': 'f9af5523e14b1cbe',
    'strides/43': 'd7fa4f8a8e52f871',
    'strides/44': '70deffae00e9fd7f',
    'strides/45': 'bed6983b9b6b681a',
    'strides/46': '6dfdd9696840fbfe',
    'strides/47': 'd7fa4f8a8e52f871',
    'strides/48': 'f7a00b789f12d761',
    'strides/49': 'ed75c991a14364af',
    'strides/50': '383069378710bd8d',
    'strides/51': '383069378710bd8d',
    'strides/52': '383069378710bd8d',
    'strides/53': '49195d2433fdbe2b',
    'strides/54': '383069378710bd8d',
    'strides/55': 'd7fa4f8a8e52f871',
    'strides/56': 'bee0cf0cd434b05c',
    'strides/57': 'fdb7b8fcf0f3811a',
    'strides/58': '383069378710bd8d',
    'strides/59': 'd7fa4f8a8e52f871',
    'single2d/0': '1b0393b4b3e734a7',
    'single2d/1': '92e656f45857d2a2',
    'single2d/2': 'e8794f3b419fd669',
    'single2d/3': '72f8e8408b077cb3',
    'single2d/4': '7927197391f57d6e',
    'single2d/5': 'c1d6dee804f5fd4e',
    'single2d/6': '5607ce604b484319',
    'single2d/7': 'd4c75e6b7b458aaa',
    'single2d/8': '8510ab4933669ebc',
    'single2d/9': '1d859cf5c30068b2',
    'single2d/10': '1ea39c1e2af835a8',
    'single2d/11': '1e833cb15113ab89',
    'single2d/12': '11f6c56e38ecc447',
    'single2d/13': '1bfc7c6ecbe0a1e1',
    'single2d/14': 'e86dc904ccf46819',
    'single2d/15': '68f86a477fa9dc90',
    'single2d/16': 'c1d6dee804f5fd4e',
    'single2d/17': '1bfc7c6ecbe0a1e1',
    'single2d/18': '06e3fd2d04ddd5b2',
    'single2d/19': '22d87b5e5b18734b',
    'single2d/20': 'c1d6dee804f5fd4e',
    'single2d/21': '742716728ad302a1',
    'single2d/22': 'a7fecbec828acf20',
    'single2d/23': 'd12848ca28f5e4a0',
    'stats/0/None/None': 'a648fae4ab4174db',
    'stats/0/None/(2, 3)': 'e3a127e2659c1dc0',
    'stats/0/[-2.0, 2.0, 6.0]/None': 'cf7ead57cf84fa9e',
    'stats/0/[-2.0, 2.0, 6.0]/(2, 3)': '10d9aced8ce9a843',
    'stats/0/[8.0, 6.0, 4.0, 2.0, 0.0, -2.0]/None': '2eb6a787513ac5be',
    'stats/0/[8.0, 6.0, 4.0, 2.0, 0.0, -2.0]/(2, 3)': 'e3a127e2659c1dc0',
    'stats/1/None/None': '4fa142a49b856c4a',
    'stats/1/None/(2, 3)': '4fa142a49b856c4a',
    'stats/1/[-3.0, 3.0, 9.0]/None': '4fd7c4f4848c27fa',
    'stats/1/[-3.0, 3.0, 9.0]/(2, 3)': '9dad6499d7ac6735',
    'stats/1/[12.0, 9.0, 6.0, 3.0, 0.0, -3.0]/None': '281add067c45b961',
    'stats/1/[12.0, 9.0, 6.0, 3.0, 0.0, -3.0]/(2, 3)': '4fa142a49b856c4a',
    'stats/2/None/None': '9ccc94aa12f5fca7',
    'stats/2/None/(2, 3)': '9ccc94aa12f5fca7',
    'stats/2/[-1.0, 3.0]/None': '0ad34e90b4f5c48c',
    'stats/2/[-1.0, 3.0]/(2, 3)': '07f63018da7f3bc4',
    'stats/2/[4.0, 3.0, 1.0, -1.0]/None': '9ccc94aa12f5fca7',
    'stats/2/[4.0, 3.0, 1.0, -1.0]/(2, 3)': '9ccc94aa12f5fca7',
}


def canon(obj):
    """Canonical text of a result (DataFrame or exception)."""
    if isinstance(obj, BaseException):
        return "EXC %s: %s" % (type(obj).__name__, obj)
    if isinstance(obj, np.ndarray):
        return "ARR %s %s %s" % (obj.dtype, obj.shape, obj.tobytes().hex())
    if isinstance(obj, (list, tuple)):
        return "SEQ[" + ";".join(canon(np.asarray(o)) if not isinstance(o, (list, tuple, np.ndarray)) else canon(o) for o in obj) + "]"  # noqa
    parts = ["DF n=%d" % len(obj), "index=%r" % list(obj.index)]
    for pos, col in enumerate(obj.columns):
        a = np.asarray(obj.iloc[:, pos])
        try:
            label = col if isinstance(col, str) else "%s(%r)" % (type(col).__name__, float(col))
        except TypeError:
            label = "%s(%r)" % (type(col).__name__, col)
        parts.append("%s|%s|%s" % (label, a.dtype, a.tobytes().hex()))
    return "\n".join(parts)


def digest(text):
    return hashlib.sha256(text.encode()).hexdigest()[:16]


failures = []
seen = {}


def record(key, obj):
    d = digest(canon(obj))
    seen[key] = d
    if not RECORD and RECORDED.get(key) != d:
        failures.append("digest mismatch for %s: %s != %s\n%s" % (
            key, d, RECORDED.get(key), canon(obj)[:600]))


def run(fn):
    try:
        out = fn()
        if hasattr(out, "compute"):
            out = out.compute()
        return out
    except Exception as e:  # noqa
        return e


# --------------------------------------------------------------------------
# independent oracle
def oracle_2d(z, v, nodata, zone_ids, cat_ids, agg):
    z = np.asarray(z, dtype=np.float64)
    v = np.asarray(v, dtype=np.float64)
    all_zones = sorted(set(z[np.isfinite(z)].tolist()))
    valid = np.isfinite(v)
    if nodata is not None:
        valid &= (v != nodata)
    all_cats = sorted(set(v[valid].tolist()))
    rows = all_zones if zone_ids is None else [q for q in all_zones if q in [float(t) for t in zone_ids]]  # noqa
    cols = all_cats if cat_ids is None else [float(c) for c in cat_ids if float(c) in all_cats]
    table = np.zeros((len(rows), len(cols)), dtype=np.float64)
    for r, q in enumerate(rows):
        inzone = (z == q) & valid
        tot = int(inzone.sum())
        for k, c in enumerate(cols):
            n = int((inzone & (v == c)).sum())
            if agg == "count":
                table[r, k] = n
            else:
                table[r, k] = np.nan if tot == 0 else n / tot * 100.0
    return rows, cols, table


def check_oracle_2d(key, df, z, v, nodata, zone_ids, cat_ids, agg):
    if isinstance(df, BaseException):
        failures.append("%s raised %r" % (key, df))
        return
    rows, cols, table = oracle_2d(z, v, nodata, zone_ids, cat_ids, agg)
    got_rows = [float(t) for t in df["zone"].tolist()]
    got_cols = [float(c) for c in df.columns[1:]]
    if got_rows != rows or got_cols != cols:
        failures.append("%s labels: rows %s vs %s, cols %s vs %s" % (
            key, got_rows, rows, got_cols, cols))
        return
    got = np.asarray(df.iloc[:, 1:], dtype=np.float64).reshape(table.shape)
    if not np.allclose(got, table, rtol=1e-6, atol=0, equal_nan=True):
        failures.append("%s values differ from oracle\n%s\n%s" % (key, got, table))
    if agg == "percentage" and table.size:
        sums = np.nansum(got, axis=1)
        full = cat_ids is None
        for r in range(len(rows)):
            if full and not np.all(np.isnan(got[r])) and abs(sums[r] - 100) > 1e-4:
                failures.append("%s row %d does not sum to 100" % (key, r))


STATS3 = dict(
    mean=np.mean, max=np.max, min=np.min, sum=np.sum, std=np.std, var=np.var,
    count=lambda a: a.size,
)


def check_oracle_3d(key, df, z, v3, labels, nodata, zone_ids, cat_ids, agg):
    if isinstance(df, BaseException):
        return  # empty max/min raise; the digest pins the exact exception
    z = np.asarray(z, dtype=np.float64)
    all_zones = sorted(set(z[np.isfinite(z)].tolist()))
    rows = all_zones if zone_ids is None else [q for q in all_zones if q in [float(t) for t in zone_ids]]  # noqa
    cols = list(labels) if cat_ids is None else [c for c in cat_ids if c in list(labels)]
    if [float(t) for t in df["zone"].tolist()] != rows or list(df.columns[1:]) != cols:
        failures.append("%s 3d labels differ" % key)
        return
    for r, q in enumerate(rows):
        for c in cols:
            lay = np.asarray(v3[list(labels).index(c)])
            cell = lay[(z == q)]
            ok = np.isfinite(cell)
            if nodata is not None:
                ok &= (cell != nodata)
            cell = cell[ok]
            exp = STATS3[agg](cell) if cell.size or agg in ("count", "sum") else np.nan
            got = df[c].iloc[r]
            if not np.isclose(float(got), float(exp), rtol=1e-6, equal_nan=True):
                failures.append("%s 3d (%s,%s): %r vs %r" % (key, q, c, got, exp))


# --------------------------------------------------------------------------
# inputs
rng = np.random.RandomState(20240)

SHAPES = [(1, 1), (3, 5), (7, 4), (1, 9), (6, 6), (5, 1)]
ZDT = [np.int32, np.int64, np.float32, np.float64]
VDT = [np.int8, np.int32, np.int64, np.float32, np.float64]


def make_zones(shape, dt, k):
    z = rng.randint(-1, 5, size=shape) * (k % 3 + 1)
    z = z.astype(dt)
    if np.issubdtype(dt, np.floating) and z.size > 2:
        flat = z.ravel()
        flat[rng.randint(flat.size)] = np.nan
        if k % 2:
            flat[rng.randint(flat.size)] = np.inf
            flat[rng.randint(flat.size)] = -np.inf
    return z


def make_values(shape, dt, k):
    v = rng.randint(0, 5, size=shape) * 10
    v = v.astype(dt)
    if np.issubdtype(dt, np.floating):
        v = v + (0.5 if k % 2 else 0.0)
        v = v.astype(dt)
        flat = v.ravel()
        if flat.size > 2:
            flat[rng.randint(flat.size)] = np.nan
            flat[rng.randint(flat.size)] = np.inf if k % 2 else -np.inf
    return v


def selections(z, v, nodata, k):
    zs = sorted(set(np.asarray(z, dtype=float)[np.isfinite(z)].tolist()))
    ok = np.isfinite(v)
    cs = sorted(set(np.asarray(v, dtype=float)[ok].tolist()))
    zsel = [None, list(reversed(zs)), zs[::2] + [99], [99, -77], zs[1:] + zs[:1]]
    csel = [None, list(reversed(cs)), cs[1::2] + [12345.0], [777.0], cs[1:] + cs[:1]]
    if nodata is not None:
        csel.append([nodata] + cs[:2])
    out = []
    for a in range(len(zsel)):
        out.append((zsel[a], csel[(a + k) % len(csel)]))
    out.append((None, csel[-1]))
    return out


def chunkings(shape):
    r, c = shape
    out = [shape]
    if r > 2 or c > 2:
        out.append((max(1, r // 2), max(1, (c + 1) // 2)))
        out.append((max(1, r - 1), 2 if c > 1 else 1))
    return out


case = 0
for si, shape in enumerate(SHAPES):
    for zi, zdt in enumerate(ZDT):
        for vi, vdt in enumerate(VDT):
            k = si * 20 + zi * 5 + vi
            if (si + zi + vi) % 2 and shape != (6, 6):
                continue
            z = make_zones(shape, zdt, k)
            v = make_values(shape, vdt, k)
            nodata = [None, 0, 10, 20.5][k % 4]
            if nodata == 20.5 and not np.issubdtype(vdt, np.floating):
                nodata = 30
            sels = selections(z, v, nodata, k)
            for sj, (zone_ids, cat_ids) in enumerate(sels):
                agg = "count" if (k + sj) % 2 else "percentage"
                key = "2d/%s/%s/%s/nd=%r/s%d/%s" % (
                    shape, np.dtype(zdt).name, np.dtype(vdt).name, nodata, sj, agg)
                zx = xr.DataArray(z.copy(), dims=("y", "x"))
                vx = xr.DataArray(v.copy(), dims=("y", "x"))
                df = run(lambda: crosstab(zx, vx, zone_ids=zone_ids, cat_ids=cat_ids,
                                          nodata_values=nodata, agg=agg))
                record(key + "/numpy", df)
                check_oracle_2d(key + "/numpy", df, z, v, nodata, zone_ids, cat_ids, agg)
                case += 1
                # dask on a subset of the cases (every chunking for them)
                if (k + sj) % 3 == 0:
                    for ch in chunkings(shape):
                        zd = xr.DataArray(da.from_array(z.copy(), chunks=ch), dims=("y", "x"))
                        vd = xr.DataArray(da.from_array(v.copy(), chunks=ch), dims=("y", "x"))
                        ddf = run(lambda: crosstab(zd, vd, zone_ids=zone_ids, cat_ids=cat_ids,
                                                   nodata_values=nodata, agg=agg))
                        dkey = key + "/dask%s" % (ch,)
                        record(dkey, ddf)
                        check_oracle_2d(dkey, ddf, z, v, nodata, zone_ids, cat_ids, agg)
                        case += 1

# 3-D values
for si, shape in enumerate([(4, 5), (3, 3), (1, 6), (6, 2)]):
    for vi, vdt in enumerate([np.int32, np.float32, np.float64]):
        k = 7 * si + vi
        z = make_zones(shape, ZDT[(si + vi) % 4], k)
        nl = 2 + (k % 3)
        v3 = np.stack([make_values(shape, vdt, k + j) for j in range(nl)])
        labels = [["a", "b", "c", "d"], [10, 20, 30, 40]][k % 2][:nl]
        nodata = [None, 0, 10][k % 3]
        zs = sorted(set(np.asarray(z, dtype=float)[np.isfinite(z)].tolist()))
        for sj, (zone_ids, cat_ids) in enumerate([
            (None, None),
            (list(reversed(zs)), list(reversed(labels))),
            (zs[::2] + [55], labels[1:] + ["zz"]),
        ]):
            for agg in ["mean", "max", "min", "sum", "std", "var", "count"]:
                key = "3d/%s/%s/nd=%r/s%d/%s" % (shape, np.dtype(vdt).name, nodata, sj, agg)
                zx = xr.DataArray(z.copy(), dims=("y", "x"))
                vx = xr.DataArray(v3.copy(), dims=("lay", "y", "x"),
                                  coords={"lay": labels})
                df = run(lambda: crosstab(zx, vx, zone_ids=zone_ids, cat_ids=cat_ids,
                                          nodata_values=nodata, agg=agg))
                record(key + "/numpy", df)
                check_oracle_3d(key + "/numpy", df, z, v3, labels, nodata, zone_ids, cat_ids, agg)
                case += 1
            # layer given as the last dimension
            vlast = xr.DataArray(np.moveaxis(v3, 0, -1).copy(), dims=("y", "x", "lay"),
                                 coords={"lay": labels})
            df = run(lambda: crosstab(zx, vlast, zone_ids=zone_ids, cat_ids=cat_ids,
                                      nodata_values=nodata, agg="count", layer=-1))
            record("3d-last/%s/%s/s%d" % (shape, np.dtype(vdt).name, sj), df)
            check_oracle_3d("3d-last", df, z, v3, labels, nodata, zone_ids, cat_ids, "count")
            # dask, count only
            for ch in chunkings(shape)[:2]:
                zd = xr.DataArray(da.from_array(z.copy(), chunks=ch), dims=("y", "x"))
                vd = xr.DataArray(da.from_array(v3.copy(), chunks=(1,) + tuple(ch)),
                                  dims=("lay", "y", "x"), coords={"lay": labels})
                ddf = run(lambda: crosstab(zd, vd, zone_ids=zone_ids, cat_ids=cat_ids,
                                           nodata_values=nodata, agg="count"))
                dkey = "3d/%s/%s/s%d/dask%s" % (shape, np.dtype(vdt).name, sj, ch)
                record(dkey, ddf)
                check_oracle_3d(dkey, ddf, z, v3, labels, nodata, zone_ids, cat_ids, "count")
                case += 1

# argument validation (messages are part of the behaviour)
zx = xr.DataArray(np.arange(6).reshape(2, 3), dims=("y", "x"))
vx = xr.DataArray(np.arange(6.).reshape(2, 3), dims=("y", "x"))
bad = {
    "zones-not-da": lambda: crosstab(zx.data, vx),
    "values-not-da": lambda: crosstab(zx, vx.data),
    "zones-3d": lambda: crosstab(xr.DataArray(np.zeros((1, 2, 3), int)), vx),
    "zones-bool": lambda: crosstab(zx.astype(bool), vx),
    "zones-complex": lambda: crosstab(zx.astype(complex), vx),
    "values-bool": lambda: crosstab(zx, vx.astype(bool)),
    "values-str": lambda: crosstab(zx, vx.astype(str)),
    "values-1d": lambda: crosstab(zx, xr.DataArray(np.arange(3.))),
    "values-4d": lambda: crosstab(zx, xr.DataArray(np.zeros((1, 1, 2, 3)))),
    "agg-2d": lambda: crosstab(zx, vx, agg="mean"),
    "agg-3d": lambda: crosstab(zx, vx.expand_dims(l=[1]), agg="percentage"),
    "agg-3d-dask": lambda: crosstab(zx.chunk(), vx.expand_dims(l=[1]).chunk(), agg="mean"),
    "layer": lambda: crosstab(zx, vx.expand_dims(l=[1]), agg="count", layer=5),
    "shape": lambda: crosstab(zx, vx.expand_dims(l=[1]).isel(x=slice(0, 2)), agg="count"),
    "unsigned-ok": lambda: crosstab(zx.astype(np.uint8), vx.astype(np.uint16)),
    "float16-ok": lambda: crosstab(zx.astype(np.float32), vx.astype(np.float16)),
}
for name, fn in bad.items():
    record("validation/" + name, run(fn))

# ---- direct checks of the kernel `_strides` and of the per-zone helper ----
def strides_ref(arr, uniq):
    # plain-Python reference: consume, for each id in turn, the run of
    # elements equal to it (NaN equals nothing)
    arr = list(arr.tolist())
    out, pos = [], 0
    for u in uniq.tolist():
        while pos < len(arr) and arr[pos] == u:
            pos += 1
        out.append(pos)
    return np.array(out, dtype=np.int32)


srng = np.random.RandomState(5)
for t in range(60):
    dt = [np.int32, np.int64, np.float32, np.float64, np.int8][t % 5]
    n = [0, 1, 2, 7, 31][(t // 5) % 5]
    arr = np.sort(srng.randint(-3, 6, size=n).astype(dt))
    if np.issubdtype(dt, np.floating) and n > 2 and t % 2:
        arr[-1] = np.nan  # NaN sorts last and never matches
    mode = t % 4
    if mode == 0:
        uniq = np.unique(arr[np.isfinite(arr)]) if n else arr[:0]
    elif mode == 1:
        uniq = np.arange(-4, 8).astype(dt)          # superset, extra ids
    elif mode == 2:
        uniq = np.unique(arr[np.isfinite(arr)])[1::2]   # ids missing: run gets stuck
    else:
        uniq = np.array([np.nan, 0, 1], dtype=np.float64) if n else np.zeros(0, dt)
    got = zonal._strides(arr, uniq)
    ref = strides_ref(arr, uniq)
    if got.dtype != np.int32 or got.shape != ref.shape or not np.array_equal(got, ref):
        failures.append("_strides case %d: %s vs %s" % (t, got, ref))
    record("strides/%d" % t, got)

for t in range(24):
    dt = [np.int32, np.float32, np.float64][t % 3]
    zone_values = (srng.randint(0, 5, size=[0, 1, 9, 20][t % 4]) * 10).astype(dt)
    if np.issubdtype(dt, np.floating) and zone_values.size > 2:
        zone_values[0] = np.nan
        zone_values[1] = np.inf
    nodata = [None, 0, 20][t % 3]
    ucats = np.array([0, 10, 20, 30, 40, 50], dtype=dt)
    if nodata is not None:
        ucats = ucats[ucats != nodata]
    cat_ids = [list(ucats), list(ucats[::-1]), list(ucats[1::2]), np.asarray(ucats[:2]), []][t % 5]
    table = {zonal.TOTAL_COUNT: []}
    for c in cat_ids:
        table[c] = []
    for rep in range(2):   # two zones appended one after the other
        zonal._single_zone_crosstab_2d(zone_values, ucats, cat_ids, nodata, table)
    keys = list(table)
    record("single2d/%d" % t, [np.asarray(table[q]) for q in keys])
    ok = np.isfinite(zone_values)
    if nodata is not None:
        ok &= zone_values != nodata
    for c in cat_ids:
        exp = int((zone_values[ok] == c).sum())
        if [int(q) for q in table[c]] != [exp, exp]:
            failures.append("single2d %d cat %r: %r vs %r" % (t, c, table[c], exp))
    if table[zonal.TOTAL_COUNT] != [int(ok.sum())] * 2:
        failures.append("single2d %d total" % t)

# `_strides` also drives zonal.stats: pin a few results too
for t, (shape, zdt, vdt) in enumerate([((5, 7), np.int32, np.float64), ((4, 4), np.float32, np.int32),
                                       ((1, 8), np.float64, np.float32)]):
    z = make_zones(shape, zdt, t + 1)
    v = make_values(shape, vdt, t)
    zs = sorted(set(np.asarray(z, dtype=float)[np.isfinite(z)].tolist()))
    for zone_ids in [None, zs[::2], list(reversed(zs))]:
        for ch in [None, (2, 3)]:
            zx = xr.DataArray(z.copy() if ch is None else da.from_array(z.copy(), chunks=ch), dims=("y", "x"))
            vx = xr.DataArray(v.copy() if ch is None else da.from_array(v.copy(), chunks=ch), dims=("y", "x"))
            out = run(lambda: zonal.stats(zx, vx, zone_ids=zone_ids, nodata_values=0))
            record("stats/%d/%r/%r" % (t, zone_ids, ch), out)


if RECORD:
    for key, d in seen.items():
        print("    %r: %r," % (key, d))
    sys.exit(0)

missing = set(RECORDED) - set(seen)
if missing:
    failures.append("cases not run: %s" % sorted(missing)[:5])
print("xrspatial from", xrspatial.__file__)
print("cases: %d, digests: %d, failures: %d" % (case, len(seen), len(failures)))
for f in failures[:20]:
    print("FAIL", f)
sys.exit(1 if failures else 0)
